#!/usr/bin/env python3
"""Confirms a seeded change and runs our checks against it.

usage: mutest.py <Cxx> <k> [--props C01,C02] [--keep-name NAME]
  reads /tmp/mut/<Cxx>.out/patch<k>.diff, demo<k>.rs, notes<k>.md
  1. scratch worktree /tmp/mut/<Cxx>: apply patch, run the crate's suite + the demo (expect: suite passes, demo fails)
  2. same worktree, patch reverted: demo passes
  3. apply to /repo, run ./check for the property (and --props), undo
  writes /verif/seeded/<name>/{patch.diff, demo.rs, notes.md, meta.json}
"""
import json, os, re, shutil, subprocess, sys, time

def sh(cmd, cwd=None, timeout=3600, shared_target=True):
    env = dict(os.environ, CARGO_NET_OFFLINE="true")
    if shared_target:
        env["CARGO_TARGET_DIR"] = "/tmp/mut/target"
    p = subprocess.run(cmd, cwd=cwd, shell=isinstance(cmd, str), stdout=subprocess.PIPE, stderr=subprocess.STDOUT, text=True, timeout=timeout, env=env)
    return p.returncode, p.stdout

def main():
    pid, k = sys.argv[1], sys.argv[2]
    props = [pid]
    name = "%s-%s" % (pid, k)
    args = sys.argv[3:]
    while args:
        a = args.pop(0)
        if a == "--props":
            props = args.pop(0).split(",")
        elif a == "--keep-name":
            name = args.pop(0)
    base = os.environ.get("MUT_BASE", "/tmp/mut")
    src = "%s/%s.out" % (base, pid)
    patch = os.path.join(src, "patch%s.diff" % k)
    demo = os.path.join(src, "demo%s.rs" % k)
    wt = "%s/%s" % (base, pid)
    meta = {"breaks_property": pid, "patch": os.path.basename(patch), "ran": []}
    sh("git checkout -q -- . && git clean -fdq", cwd=wt)
    rc, out = sh(["git", "apply", patch], cwd=wt)
    if rc != 0:
        print("patch does not apply:", out); return 2
    os.makedirs(os.path.join(wt, "tests"), exist_ok=True)
    shutil.copy(demo, os.path.join(wt, "tests", "seeded_demo.rs"))
    rc1, out1 = sh("(cargo test --offline --lib; cargo test --offline --doc) 2>&1 | grep -E '^test result|^error' ", cwd=wt)
    suite_ok = out1.count("test result: ok") >= 2 and "FAILED" not in out1 and "error" not in out1 and "120 passed" in out1 and "6 passed" in out1
    rc2, out2 = sh("cargo test --offline --test seeded_demo 2>&1 | tail -15", cwd=wt)
    demo_fails_with = "test result: FAILED" in out2 or "panicked" in out2 or "could not compile" in out2 or "SIGABRT" in out2 or "overflowed its stack" in out2 or "SIGSEGV" in out2
    meta["ran"].append({"cmd": "cargo test --offline --lib --doc (with change)", "ok": suite_ok, "out": out1.strip()[-300:]})
    meta["ran"].append({"cmd": "cargo test --offline --test seeded_demo (with change)", "fails": demo_fails_with, "out": out2.strip()[-600:]})
    sh(["git", "apply", "-R", patch], cwd=wt)
    rc3, out3 = sh("cargo test --offline --test seeded_demo 2>&1 | tail -5", cwd=wt)
    demo_passes_without = "test result: ok" in out3
    meta["ran"].append({"cmd": "cargo test --offline --test seeded_demo (without change)", "passes": demo_passes_without, "out": out3.strip()[-300:]})
    sh("git checkout -q -- . && git clean -fdq", cwd=wt)
    meta["confirmed"] = bool(suite_ok and demo_fails_with and demo_passes_without)
    print("confirmed:", meta["confirmed"], "(suite ok %s, demo fails with %s, demo passes without %s)" % (suite_ok, demo_fails_with, demo_passes_without))
    results = {}
    if meta["confirmed"]:
        rc, out = sh(["git", "-C", "/repo", "status", "--porcelain"])
        if out.strip():
            print("/repo is not clean, refusing"); return 2
        try:
            rc, out = sh(["git", "-C", "/repo", "apply", patch])
            if rc != 0:
                print("patch does not apply to /repo", out); return 2
            for p in props:
                t0 = time.time()
                rc, out = sh(["/verif/check", p], cwd="/verif", shared_target=False)
                lines = [l for l in out.splitlines() if l.startswith(("VIOLATION", "OK", "KNOWN"))]
                viol = [l for l in lines if l.startswith("VIOLATION")]
                detail = ""
                m = re.search(r"replay=(\S+)", viol[0]) if viol else None
                if m and os.path.exists(m.group(1)):
                    r = json.load(open(m.group(1)))
                    detail = "%s: %s | %s" % (r.get("kind"), r.get("what", ""), (r.get("detail") or json.dumps(r.get("no_longer_checks", [])[:2]))[:300])
                    os.remove(m.group(1))
                    g = m.group(1)[:-5] + ".game"
                    if os.path.exists(g):
                        os.remove(g)
                results[p] = {"exit": rc, "lines": lines, "detail": detail, "wall_s": round(time.time() - t0, 1)}
                print(p, "exit", rc, lines, detail[:200])
        finally:
            sh(["git", "-C", "/repo", "checkout", "--", "."])
            sh(["git", "-C", "/repo", "clean", "-fdq", "src", "tests"])
            sh([sys.executable, "/verif/tools/gen.py"])  # restore the generated Lean files for the unchanged tree
    meta["check_results"] = results
    meta["detected"] = any(r["exit"] == 1 for r in results.values())
    out_dir = "/verif/seeded/%s" % name
    os.makedirs(out_dir, exist_ok=True)
    shutil.copy(patch, os.path.join(out_dir, "patch.diff"))
    shutil.copy(demo, os.path.join(out_dir, "demo.rs"))
    notes = os.path.join(src, "notes%s.md" % k)
    if os.path.exists(notes):
        shutil.copy(notes, os.path.join(out_dir, "notes.md"))
        txt = open(notes).read()
        meta["needs_to_manifest"] = txt[:1500]
    json.dump(meta, open(os.path.join(out_dir, "meta.json"), "w"), indent=1)
    return 0

if __name__ == "__main__":
    sys.exit(main())
