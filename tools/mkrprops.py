#!/usr/bin/env python3
"""Writes lean/Arimaa/Props/C02r … C17r.lean (the `Cxx_code_agrees` obligations and small corollaries about the
REGENERATED functions).  C01r and C19r are hand-written.  usage: mkrprops.py [lean dir]"""
import os, re, sys

LEAN = sys.argv[1] if len(sys.argv) > 1 else "/verif/lean"
DEFS = set(re.findall(r"^def (\S+)", open(os.path.join(LEAN, "Arimaa/Gen/Rs.lean")).read(), re.M))

HDR = '''%s

/-!
# %s — the property at the level of the REGENERATED code

`Gen/Rs.lean` is written by `tools/rs2lean2.py` from the current text of engine.rs / zobrist.rs on every
run.  `Gen/Bridge/<fn>.lean` (generated) proves `@Rs.fn = @RsBase.fn` — the current text against the
baseline text — and `Lemmas/RsAgree*.lean` prove that each baseline function equals
`Res.guard (hand panic guard) (hand total function)`.  This file puts both, for the functions %s rests
on, into the property's proof closure and restates them as one named obligation (`%s_code_agrees`) about
the CURRENT functions, plus corollaries that speak about them directly.  A change of the Rust text of one
of these functions that alters behaviour breaks an obligation here without any test having to find the input.
(written by tools/mkrprops.py)
-/
namespace Arimaa
open Gen GameState Arimaa.Gen.Rs Arimaa.Rt Arimaa.Gen.Bridge%s

theorem %s_value_of_ok {α : Type} {x : Res α} {p : Bool} {v w : α} (h : x = Res.guard p v) (hx : x = .ok w) :
    p = false ∧ w = v := by
  rw [h] at hx
  obtain ⟨hp, hv⟩ := Res.guard_eq_ok.mp hx
  exact ⟨hp, hv.symm⟩

'''
A = {
 'take': ("∀ (s : GameState) (a : Action), GameState_take_action s a = Res.guard (s.takeActionPanics a) (s.takeAction a)", "RsAgree.take_action_eq"),
 'btake': ("∀ (b : Board) (sq : Nat) (d : Dir), PieceBoard_take_action b (.move sq d) = Res.guard (sqBitPanics sq) (b.takeMove sq d)", "RsAgree.board_take_action_move"),
 'rtp': ("∀ b : Board, PieceBoard_remove_trapped_pieces b = (b.removeTrappedPieces.2, b.removeTrappedPieces.1)", "RsAgree.remove_trapped_pieces"),
 'tpb': ("∀ b : Board, PieceBoardState_trapped_piece_bits b = b.trappedPieceBits", "RsAgree.trapped_piece_bits"),
 'term': ("∀ s : GameState, GameState_is_terminal s = Res.guard s.isTerminalPanics s.isTerminal", "RsAgree.is_terminal_eq"),
 'hm': ("∀ (s : GameState) (b : Board), GameState_has_move s b = Res.guard (s.hasMovePanics b) (s.hasMove b)", "RsAgree.has_move_eq"),
 'rag': ("∀ (s : GameState) (b : Board), GameState_rabbit_at_goal s b = s.rabbitAtGoal b", "RsAgree.rabbit_at_goal"),
 'lar': ("∀ (s : GameState) (b : Board), GameState_lost_all_rabbits s b = s.lostAllRabbits b", "RsAgree.lost_all_rabbits"),
 'va': ("∀ (s : GameState) (cr : Bool), GameState_valid_actions_ s cr = Res.guard (s.validActions_Panics cr) (s.validActions_ cr)", "RsAgree.valid_actions__eq"),
 'vanr': ("∀ s : GameState, GameState_valid_actions_no_rep s = Res.guard s.validActionsNoRepPanics s.validActionsNoRep", "RsAgree.valid_actions_no_rep_direct"),
 'cp': ("∀ (s : GameState) (cr : Bool), GameState_can_pass s cr = Res.guard (s.canPassPanics cr) (s.canPass cr)", "RsAgree.can_pass_eq"),
 'fpb': ("∀ (b : Board) (p1 : Bool) (step : Nat), Zobrist_from_piece_board b p1 step = Res.guard (zFromPieceBoardPanics b step) (zFromPieceBoard b p1 step)", "RsAgree.from_piece_board_eq"),
 'pbv': ("∀ prev new : Board, piece_board_value prev new = Res.guard (pieceBoardValuePanics prev new) (pieceBoardValue prev new)", "RsAgree.piece_board_value_eq"),
 'thash': ("∀ s : GameState, GameState_transposition_hash s = Res.guard s.transpositionHashPanics s.transpositionHash", "RsAgree.transposition_hash_eq"),
 'geq': ("∀ a b : GameState, GameState_eq a b = (a.hash == b.hash)", "RsAgree.game_state_eq"),
 'ghash': ("∀ (s : GameState) (st : List BB), GameState_hash s st = st ++ [s.hash]", "RsAgree.game_state_hash"),
 'fmt': ("∀ (s : GameState) (f : List Char), GameState_fmt s f = .ok (f ++ showState s)", "RsAgree.game_state_fmt"),
 'vp': ("∀ s : GameState, GameState_valid_placement s = s.validPlacement", "RsAgree.valid_placement"),
 'pbit': ("∀ b : Board, PieceBoardState_placement_bit b = Res.guard b.placementBitPanics b.placementBit", "RsAgree.placement_bit"),
 'bfp': ("∀ (b : Board) (p : Piece) (p1 : Bool), PieceBoardState_bits_for_piece b p p1 = b.bitsForPiece p p1", "RsAgree.bits_for_piece"),
 'ppm': ("∀ (b : Board) (p1 : Bool), PieceBoardState_player_piece_mask b p1 = b.playerPieceMask p1", "RsAgree.player_piece_mask"),
 'bbpt': ("∀ (b : Board) (p : Piece), PieceBoardState_bits_by_piece_type b p = b.bitsByPieceType p", "RsAgree.bits_by_piece_type"),
 'ptas': ("∀ (b : Board) (sq : Nat), PieceBoardState_piece_type_at_square b sq = Res.guard (b.pieceTypeAtSquarePanics sq) (b.pieceTypeAtSquare sq)", "RsAgree.piece_type_at_square"),
 'npps': ("∀ (s : GameState) (pp : PlayPhase), s.phase = .play pp → ∀ (sq : Nat) (d : Dir), GameState_next_push_pull_state s sq d = Res.guard (s.nextPushPullStatePanics pp sq) (s.nextPushPullState pp sq d)", "RsAgree.next_push_pull_state"),
 'mcpa': ("∀ (s : GameState) (pp : PlayPhase), s.phase = .play pp → ∀ b : Board, GameState_must_complete_push_actions s b = Res.guard (mustCompletePushActionsPanics pp) (s.mustCompletePushActions pp b)", "RsAgree.must_complete_push_actions_eq"),
 'prev': ("∀ (s : GameState) (a : Action), GameState_trapped_animal_for_action s a = Res.guard (s.trappedAnimalForActionPanics a) (s.trappedAnimalForAction a)", "RsAgree.trapped_animal_for_action_eq"),
 'pbs': ("∀ (s : GameState) (i : Nat), GameState_piece_board_for_step s i = Res.guard (s.pieceBoardForStepPanics i) (s.pieceBoardForStep i)", "RsAgree.piece_board_for_step_eq"),
 'wpps': ("∀ (h : BB) (p : PPS), Zobrist_board_state_hash_with_push_pull_state h p = Res.guard (zWithPPSPanics p) (zWithPPS h p)", "RsAgree.zobrist_with_pps"),
 'ipl': ("∀ (s : GameState) (pp : PlayPhase), s.phase = .play pp → ∀ a : Action, GameState_is_passing_like_action s a = Res.guard (s.isPassingLikeActionPanics pp a) (s.isPassingLikeAction pp a)", "RsAgree.is_passing_like_action_eq"),
}


def fns_of(text):
    return sorted(set(w for w in re.findall(r"[A-Za-z_][A-Za-z0-9_]*", text) if w in DEFS))


def w(pid, imports, keys, extra="", spec=False):
    fns = sorted(set(f for k in keys for f in fns_of(A[k][0])) | set(fns_of(extra)))
    imports = imports + ["Arimaa.Gen.Bridge.%s" % f for f in fns]
    parts = []
    for k in keys:
        st, pf = A[k]
        br = ", ".join("bridge_%s" % f for f in fns_of(st))
        parts.append("(by simp only [%s]; exact %s)" % (br, pf))
    body = "/-- the agreement theorems %s rests on, about the CURRENT functions, as one obligation -/\ntheorem %s_code_agrees :\n    " % (pid, pid)
    body += " ∧\n    ".join("(%s)" % A[k][0] for k in keys) + " :=\n  " + ("⟨" + ",\n   ".join(parts) + "⟩" if len(parts) > 1 else parts[0]) + "\n\n"
    body += extra
    open(os.path.join(LEAN, "Arimaa/Props/%sr.lean" % pid), "w").write(
        HDR % ("\n".join("import " + i for i in imports), pid, pid, pid, " Spec" if spec else "", pid) + body + "\nend Arimaa\n")


def value_cor(pid, name, binders, call, model, st_key):
    """`call = ok r → r = model`, from the agrees obligation"""
    br = ", ".join("bridge_%s" % f for f in fns_of(call))
    return ('''theorem %s %s
    (h : %s = .ok r) : r = %s := by
  simp only [%s] at h
  exact (%s_value_of_ok (%s) h).2
''' % (name, binders, call, model, br, pid, st_key))


L = "Arimaa.Lemmas."
NOREP = '''
theorem %s_code_rule_only (s : GameState) (l : List Action) (hl : GameState_valid_actions_no_rep s = .ok l) :
    l = s.validActionsNoRep := by
  simp only [bridge_GameState_valid_actions_no_rep] at hl
  exact (%s_value_of_ok (RsAgree.valid_actions_no_rep_direct s) hl).2
'''
w('C02', ['Arimaa.Props.C02', L + 'RsAgreeStep', L + 'RsAgreeGen'], ['take', 'btake', 'rtp', 'tpb'],
  "/-- whatever the regenerated `take_action` returns is the successor the C02 theorems are about -/\n" +
  value_cor('C02', 'C02_code_successor', '(s r : GameState) (a : Action)', 'GameState_take_action s a', 's.takeAction a', 'RsAgree.take_action_eq s a') +
  NOREP % ('C02', 'C02') + '''
/-- **C02 for the code as it is now**: a step taken from the list the regenerated `valid_actions_no_rep` returned,
applied by the regenerated `take_action`, moves exactly that piece onto the empty neighbour and then removes
exactly the unsupported trap pieces (`Spec.capture (Spec.move ..)`); the new board is well formed -/
theorem C02_code_step_refines (s s' : GameState) (pp : PlayPhase) (h : PlayInv s pp) (l : List Action)
    (hl : GameState_valid_actions_no_rep s = .ok l) (i : Nat) (d : Dir) (ha : Action.move i d ∈ l)
    (ht : GameState_take_action s (.move i d) = .ok s') :
    ∃ c j, absBoard s.board i = some c ∧ nbr i (dirSpec d) = some j ∧ absBoard s.board j = none ∧
      absBoard s'.board = capture (move (absBoard s.board) i j) ∧ WF s'.board := by
  have h1 := C02_code_rule_only s l hl
  have h2 := C02_code_successor s s' _ ht
  subst h1 h2
  obtain ⟨c, j, hc, hn, hj, hb, _, hw⟩ := C02_refines s pp h i d ha
  exact ⟨c, j, hc, hn, hj, hb, hw⟩
''', spec=True)
w('C03', ['Arimaa.Props.C03', L + 'RsAgreeStep'], ['take'],
'''/-- **C03 for the code as it is now**: a step before the fourth, as the regenerated `take_action` computes it,
keeps the side and the move number and raises the step counter by one -/
theorem C03_code_step_after_move (s s' : GameState) (pp : PlayPhase) (sq : Nat) (d : Dir)
    (hph : s.phase = .play pp) (hlt : pp.step < 3) (h : GameState_take_action s (.move sq d) = .ok s') :
    s'.p1Turn = s.p1Turn ∧ s'.step = s.step + 1 ∧ s'.moveNo = s.moveNo := by
  simp only [bridge_GameState_take_action] at h
  have := (C03_value_of_ok (RsAgree.take_action_eq s _) h).2
  subst this
  obtain ⟨pp', _, h1, _, h3, h4, _⟩ := C03_step_after_move s pp sq d hph hlt
  exact ⟨h1, h3, h4⟩
''')
w('C04', ['Arimaa.Props.C04', L + 'RsAgreeResult'], ['term', 'hm', 'rag', 'lar'],
  value_cor('C04', 'C04_code_result', '(s : GameState) (r : Option Terminal)', 'GameState_is_terminal s', 's.isTerminal', 'RsAgree.is_terminal_eq s') + '''
/-- **C04 for the code as it is now**: at the start of a turn, whatever the regenerated `is_terminal` returns is
the result of the official decision list (`Spec.result`) on the abstracted board -/
theorem C04_code_turn_start (s : GameState) (pp : PlayPhase) (hph : s.phase = .play pp) (hw : WF s.board)
    (h0 : pp.step = 0) (hpps : pp.pps = .none) (r : Option Terminal) (h : GameState_is_terminal s = .ok r) :
    r.map toSpecResult = Spec.result (absBoard s.board) s.p1Turn := by
  rw [C04_code_result s r h]
  exact C04_turn_start_spec s pp hph hw h0 hpps
''', spec=True)
C05_EXTRA = '''
/-- a game played THROUGH THE REGENERATED CODE: every action is taken from the list the regenerated
`valid_actions` returned, every successor is the one the regenerated `take_action` returned, no call panicked -/
inductive CodeGame : GameState → List Action → GameState → Prop where
  | nil (s : GameState) : CodeGame s [] s
  | cons {s s' t : GameState} {l : List Action} {a : Action} {as : List Action} :
      GameState_valid_actions s = .ok l → a ∈ l → GameState_take_action s a = .ok s' → CodeGame s' as t →
      CodeGame s (a :: as) t

/-- such a game is an offered run of the model, ending in the model's state -/
theorem C05_code_game_is_offered_run {s t : GameState} {as : List Action} (h : CodeGame s as t) :
    Offered s as ∧ t = s.run as := by
  induction h with
  | nil s => exact ⟨trivial, rfl⟩
  | cons hl ha ht _ ih =>
    simp only [bridge_GameState_valid_actions] at hl
    simp only [bridge_GameState_take_action] at ht
    have h1 := (C05_value_of_ok (RsAgree.valid_actions_eq _) hl).2
    have h2 := (C05_value_of_ok (RsAgree.take_action_eq _ _) ht).2
    subst h1 h2
    exact ⟨⟨ha, ih.1⟩, by rw [run_cons]; exact ih.2⟩

/-- **C05 for the code as it is now, whole games**: in every game played through the regenerated code from a
well-formed start of the play phase, no (board, side to move) combination occurs more than twice among the
starts of turn (exact boards) -/
theorem C05_code_no_third_occurrence (s0 t : GameState) (h0 : StartOk s0) (as : List Action)
    (hg : CodeGame s0 as t) (p : Board × Bool) : (turnStarts s0 as).count p ≤ 2 :=
  C05_no_third_occurrence s0 h0 as (C05_code_game_is_offered_run hg).1 p

/-- the engine side of C20 for the code as it is now: one step or pass of the regenerated `take_action` makes the
hash history at most one node longer (so its length is bounded by the number of turns, and the list operations of
`linked_list.rs`, each of constant stack depth, are applied a bounded number of times per action) -/
theorem C05_code_history_step (s s' : GameState) (pp : PlayPhase) (hph : s.phase = .play pp) (a : Action)
    (hmv : a = .pass ∨ ∃ i d, a = .move i d) (ht : GameState_take_action s a = .ok s') :
    ∃ pp', s'.phase = .play pp' ∧ pp'.hist.length ≤ pp.hist.length + 1 := by
  simp only [bridge_GameState_take_action] at ht
  have h2 := (C05_value_of_ok (RsAgree.take_action_eq s a) ht).2
  subst h2
  exact C05_history_step s pp hph a hmv

/-- ... and every turn completed in such a game changes the board -/
theorem C05_code_turn_changes_board (s0 t : GameState) (h0 : StartOk s0) (as : List Action) (a : Action)
    (hg : CodeGame s0 (as ++ [a]) t) (hend : endsTurnAt (s0.run as) a = true) :
    t.board ≠ turnStartBoard s0 as := by
  obtain ⟨ho, ht⟩ := C05_code_game_is_offered_run hg
  subst ht
  exact C05_turn_changes_board s0 h0 as a ho hend
'''
w('C05', ['Arimaa.Props.C05', 'Arimaa.Props.C05c', L + 'RsAgreeOffered', L + 'RsAgreeStep'], ['va', 'take', 'ipl', 'cp'],
  value_cor('C05', 'C05_code_offered', '(s : GameState) (r : List Action)', 'GameState_valid_actions s', 's.validActions', 'RsAgree.valid_actions_eq s') + C05_EXTRA)
w('C06', ['Arimaa.Props.C06', L + 'RsAgreeOffered', L + 'RsAgreeStep'], ['va', 'take', 'ipl', 'cp'],
  value_cor('C06', 'C06_code_offered', '(s : GameState) (r : List Action)', 'GameState_valid_actions s', 's.validActions', 'RsAgree.valid_actions_eq s') +
  NOREP % ('C06', 'C06') + '''
/-- **C06 for the code as it is now**: the list of the regenerated `valid_actions` is a sublist, in the same
order, of the list of the regenerated `valid_actions_no_rep`, and every action withheld ends the turn -/
theorem C06_code_sublist_and_withheld (s : GameState) (pp : PlayPhase) (hph : s.phase = .play pp)
    (l l' : List Action) (hl : GameState_valid_actions s = .ok l) (hl' : GameState_valid_actions_no_rep s = .ok l') :
    List.Sublist l l' ∧ ∀ a ∈ l', a ∉ l → endsTurn pp a = true := by
  have h1 := C06_code_offered s l hl
  have h2 := C06_code_rule_only s l' hl'
  subst h1 h2
  exact ⟨C06_sublist s, fun a hin hout => (C06_only_turn_ending_withheld s pp hph a hin hout).2⟩
''')
w('C07', ['Arimaa.Props.C07', L + 'RsAgreeOffered', L + 'RsAgreeResult'], ['va', 'hm', 'term', 'cp'],
'''/-- **C07 for the code as it is now**: whatever the regenerated `has_move` and `valid_actions` return,
"no result" coincides with "the offered list is non-empty" -/
theorem C07_code_has_move_iff (s : GameState) (pp : PlayPhase) (hph : s.phase = .play pp) (h3 : pp.step ≤ 3)
    (r : Option Terminal) (l : List Action)
    (hr : GameState_has_move s s.board = .ok r) (hl : GameState_valid_actions s = .ok l) :
    r = none ↔ l ≠ [] := by
  simp only [bridge_GameState_has_move] at hr
  simp only [bridge_GameState_valid_actions] at hl
  have h1 := (C07_value_of_ok (RsAgree.has_move_eq s s.board) hr).2
  have h2 := (C07_value_of_ok (RsAgree.valid_actions_eq s) hl).2
  subst h1 h2
  exact C07_has_move_iff s pp hph h3

/-- **C07 for the code as it is now**: in a play-phase state with step counter at most 3, if the regenerated
`is_terminal` returns "no result" then the list the regenerated `valid_actions` returns is not empty: a driver that
asks for the result before asking for actions never gets stuck -/
theorem C07_code_no_result_nonempty (s : GameState) (pp : PlayPhase) (hph : s.phase = .play pp) (h3 : pp.step ≤ 3)
    (l : List Action) (ht : GameState_is_terminal s = .ok none) (hl : GameState_valid_actions s = .ok l) : l ≠ [] := by
  simp only [bridge_GameState_is_terminal] at ht
  simp only [bridge_GameState_valid_actions] at hl
  have h1 := (C07_value_of_ok (RsAgree.is_terminal_eq s) ht).2
  have h2 := (C07_value_of_ok (RsAgree.valid_actions_eq s) hl).2
  subst h2
  exact C07_no_result_nonempty s pp hph h3 h1.symm
''')
w('C08', ['Arimaa.Props.C08', L + 'RsAgreeStep', L + 'RsAgreeTHash'], ['take', 'fpb', 'pbv', 'thash', 'geq', 'ghash'], '''
/-- **`Hash` is consistent with `==` in the code as it is now**: two states the regenerated `eq` calls equal feed
the same word to any hasher (the word both compare: the board-state hash) -/
theorem C08_code_hash_consistent_with_eq (a b : GameState) (st : List BB) (h : GameState_eq a b = true) :
    GameState_hash a st = GameState_hash b st := by
  simp only [bridge_GameState_eq, bridge_GameState_hash, RsAgree.game_state_eq, RsAgree.game_state_hash] at h ⊢
  have : a.hash = b.hash := by simpa using h
  rw [this]

/-- **C08 for the code as it is now**: if the incremental hash of a play state equals the from-scratch hash, then
after a step or pass computed by the regenerated `take_action` it still does — and the regenerated
`Zobrist::from_piece_board` of the new board, side and step returns exactly the stored hash -/
theorem C08_code_incremental_eq_scratch (s s' : GameState) (hplay : s.isPlay = true) (h : HashOk s) (a : Action)
    (hna : a.isPlace = false) (ht : GameState_take_action s a = .ok s') :
    ∃ pp', s'.phase = .play pp' ∧ s'.hash = zFromPieceBoard s'.board s'.p1Turn pp'.step ∧
      ∀ x, Zobrist_from_piece_board s'.board s'.p1Turn pp'.step = .ok x → x = s'.hash := by
  simp only [bridge_GameState_take_action] at ht
  have h2 := (C08_value_of_ok (RsAgree.take_action_eq s a) ht).2
  subst h2
  obtain ⟨pp', hp, hh⟩ := C08_incremental_eq_scratch s hplay h [a] (by simpa using hna) 1
  simp only [List.take_succ_cons, List.take_zero, List.foldl_cons, List.foldl_nil] at hp hh
  refine ⟨pp', hp, hh, ?_⟩
  intro x hx
  simp only [bridge_Zobrist_from_piece_board] at hx
  rw [(C08_value_of_ok (RsAgree.from_piece_board_eq _ _ _) hx).2, hh]
''')
w('C09', ['Arimaa.Props.C09', L + 'RsAgreeStep', L + 'RsAgreeOffered'], ['take', 'vp', 'pbit'],
  value_cor('C09', 'C09_code_offered_list', '(s : GameState) (r : List Action)', 'GameState_valid_actions s', 's.validActions', 'RsAgree.valid_actions_eq s') + '''
/-- **C09 for the code as it is now**: during setup the regenerated `valid_actions` offers exactly the piece types
the mover has not yet placed in full, in the fixed order elephant … rabbit -/
theorem C09_code_offered (s : GameState) (hph : s.phase = .place) (l : List Action)
    (hl : GameState_valid_actions s = .ok l) :
    l = (([.elephant, .camel, .horse, .dog, .cat, .rabbit] : List Piece).filter
        (fun t => decide (moverCount s t < complement t))).map Action.place := by
  rw [C09_code_offered_list s l hl]
  exact C09_offered s hph
''')
w('C10', ['Arimaa.Props.C10', L + 'RsAgreeStep', L + 'RsAgreeShow'], ['take', 'bfp', 'ppm', 'bbpt', 'ptas', 'fmt'], '''
/-- **C10 for the code as it is now**: on a well-formed board the regenerated views (`bits_for_piece`,
`player_piece_mask`, `bits_by_piece_type`, `piece_type_at_square`) all describe the one abstract position -/
theorem C10_code_views_agree (b : Board) (hw : WF b) (k : Nat) (hk : k < 64) :
    (∀ p g, bit (PieceBoardState_bits_for_piece b p g) k = (absBoard b k == some ⟨g, toSpec p⟩)) ∧
    (∀ g, bit (PieceBoardState_player_piece_mask b g) k = ownedBy (absBoard b) g k) ∧
    (∀ p, bit (PieceBoardState_bits_by_piece_type b p) k = (typeAt b k == some p)) ∧
    PieceBoardState_piece_type_at_square b k = .ok (typeAt b k) := by
  obtain ⟨h1, h2, h3, _, h5, _⟩ := C10_views_agree b hw k hk
  simp only [bridge_PieceBoardState_bits_for_piece, bridge_PieceBoardState_player_piece_mask,
    bridge_PieceBoardState_bits_by_piece_type, bridge_PieceBoardState_piece_type_at_square,
    RsAgree.bits_for_piece, RsAgree.player_piece_mask, RsAgree.bits_by_piece_type, RsAgree.piece_type_at_square]
  refine ⟨h1, h2, h3, ?_⟩
  have : b.pieceTypeAtSquarePanics k = false := by simp [Board.pieceTypeAtSquarePanics, sqBitPanics]; omega
  rw [this, h5]; rfl
''', spec=True)
w('C11', ['Arimaa.Props.C11', L + 'RsAgreeGen', L + 'RsAgreeStep', L + 'RsAgreeResult'], ['vanr', 'take', 'term'],
  NOREP % ('C11', 'C11') +
  value_cor('C11', 'C11_code_result_value', '(s : GameState) (r : Option Terminal)', 'GameState_is_terminal s', 's.isTerminal', 'RsAgree.is_terminal_eq s') + '''
/-- **C11 for the code as it is now**: for two states that are images of each other under a file mirror and / or a
colour swap with rank flip, the rule-only lists the regenerated code returns correspond action by action, and at
the start of a turn the results it returns are the swapped results -/
theorem C11_code_offered_and_result (σ : Sym) (s s' : GameState) (pp pp' : PlayPhase)
    (h : PlayInv s pp) (h' : PlayInv s' pp') (hr : SymRel σ s pp s' pp') (l l' : List Action)
    (hl : GameState_valid_actions_no_rep s = .ok l) (hl' : GameState_valid_actions_no_rep s' = .ok l') :
    (∀ a, σ.iact a ∈ l' ↔ a ∈ l) ∧
    (pp.step = 0 → pp.pps = .none → ∀ r r', GameState_is_terminal s = .ok r → GameState_is_terminal s' = .ok r' →
      r' = r.map σ.ires) := by
  have h1 := C11_code_rule_only s l hl
  have h2 := C11_code_rule_only s' l' hl'
  subst h1 h2
  refine ⟨fun a => (C11_impl_offered_all σ s s' pp pp' h h' hr a).1, ?_⟩
  intro h0 hpps r r' hrr hrr'
  rw [C11_code_result_value s r hrr, C11_code_result_value s' r' hrr']
  exact C11_impl_result σ s s' pp pp' h h' hr h0 hpps
''', spec=True)
w('C12', ['Arimaa.Props.C12', L + 'RsAgreeGen', L + 'RsAgreeStep'], ['vanr', 'npps', 'mcpa', 'take'],
  NOREP % ('C12', 'C12') + '''
/-- **C12 for the code as it is now**: after a step from the rule-only list of the regenerated code, applied by
the regenerated `take_action` before the last step of the turn, the reported status is the one the rules
prescribe (`Spec.nextPending`) -/
theorem C12_code_status_after_step (s s' : GameState) (pp : PlayPhase) (h : PlayInv s pp) (l : List Action)
    (hl : GameState_valid_actions_no_rep s = .ok l) (i : Nat) (d : Dir) (ha : Action.move i d ∈ l)
    (hlt : pp.step < 3) (ht : GameState_take_action s (.move i d) = .ok s') :
    ∃ pp', s'.phase = .play pp' ∧
      absPend pp'.pps = nextPending (absBoard s.board) s.p1Turn (absPend pp.pps) i (dirSpec d) := by
  have h1 := C12_code_rule_only s l hl
  simp only [bridge_GameState_take_action] at ht
  have h2 := (C12_value_of_ok (RsAgree.take_action_eq s _) ht).2
  subst h1 h2
  exact C12_status_after_step s pp h i d ha hlt
''', spec=True)
w('C13', ['Arimaa.Props.C13', L + 'RsAgreePreview', L + 'RsAgreeStep', L + 'RsAgreeGen'], ['prev', 'take', 'tpb'],
  value_cor('C13', 'C13_code_preview', '(s : GameState) (a : Action) (r : Option (Nat × Piece × Bool))', 'GameState_trapped_animal_for_action s a', 's.trappedAnimalForAction a', 'RsAgree.trapped_animal_for_action_eq s a') +
  NOREP % ('C13', 'C13') + '''
/-- **C13 for the code as it is now**: for a step of the rule-only list of the regenerated code, what the
regenerated preview returns is `none` exactly when the step leaves no unsupported trap piece, and otherwise names
the one square, type and owner that hangs after the move -/
theorem C13_code_preview_exact (s : GameState) (pp : PlayPhase) (h : PlayInv s pp)
    (hno : NoHanging (absBoard s.board)) (l : List Action) (hl : GameState_valid_actions_no_rep s = .ok l)
    (i : Nat) (d : Dir) (ha : Action.move i d ∈ l) (r : Option (Nat × Piece × Bool))
    (hr : GameState_trapped_animal_for_action s (.move i d) = .ok r) :
    ∃ j, nbr i (dirSpec d) = some j ∧
      (r = none ↔ ∀ k, k < 64 → hanging (move (absBoard s.board) i j) k = false) ∧
      (∀ k p g, r = some (k, p, g) →
        k < 64 ∧ move (absBoard s.board) i j k = some ⟨g, toSpec p⟩ ∧
          hanging (move (absBoard s.board) i j) k = true ∧
          ∀ k', k' < 64 → hanging (move (absBoard s.board) i j) k' = true → k' = k) := by
  have h1 := C13_code_rule_only s l hl
  have h2 := C13_code_preview s _ r hr
  subst h1 h2
  exact C13_preview_exact s pp h hno i d ha
''', spec=True)
w('C14', ['Arimaa.Props.C14', L + 'RsAgreePrevBoards', L + 'RsAgreeStep'], ['pbs', 'take'],
  value_cor('C14', 'C14_code_board_for_step', '(s : GameState) (i : Nat) (r : Board)', 'GameState_piece_board_for_step s i', 's.pieceBoardForStep i', 'RsAgree.piece_board_for_step_eq s i') + '''
/-- steps applied one after the other by the regenerated `take_action`, none of which panicked -/
inductive CodeSteps : GameState → List (Nat × Dir) → GameState → Prop where
  | nil (s : GameState) : CodeSteps s [] s
  | cons {s s' t : GameState} {m : Nat × Dir} {ms : List (Nat × Dir)} :
      GameState_take_action s (.move m.1 m.2) = .ok s' → CodeSteps s' ms t → CodeSteps s (m :: ms) t

theorem C14_code_steps_are_model_steps {s t : GameState} {ms : List (Nat × Dir)} (h : CodeSteps s ms t) :
    t = s.runMoves ms := by
  induction h with
  | nil s => rfl
  | cons ht _ ih =>
    simp only [bridge_GameState_take_action] at ht
    have h2 := (C14_value_of_ok (RsAgree.take_action_eq _ _) ht).2
    subst h2
    rw [ih]; rfl

/-- **C14 for the code as it is now**: after `k ≤ 3` steps of a turn applied by the regenerated `take_action`, the
regenerated `piece_board_for_step i` returns (never panics), for every `i ≤ k`, exactly the board as it stood
after `i` steps of this turn -/
theorem C14_code_boards_of_turn (s0 t : GameState) (pp0 : PlayPhase) (hph : s0.phase = .play pp0)
    (hstart : pp0.step = 0) (ms : List (Nat × Dir)) (hk : ms.length ≤ 3) (hg : CodeSteps s0 ms t)
    (i : Nat) (hi : i ≤ ms.length) :
    GameState_piece_board_for_step t i = .ok (s0.stateAfter ms i).board := by
  have ht := C14_code_steps_are_model_steps hg
  subst ht
  obtain ⟨ppk, hpk, hstep, _, hprev, hall⟩ := C14_boards_of_turn s0 pp0 hph hstart ms hk
  simp only [bridge_GameState_piece_board_for_step, RsAgree.piece_board_for_step_eq]
  have hp : (s0.runMoves ms).pieceBoardForStepPanics i = false := by
    unfold pieceBoardForStepPanics
    rw [hpk]
    have hlen : ppk.prev.length = ms.length := by rw [hprev]; simp
    by_cases he : i = ppk.step
    · simp [he]
    · have : i < ppk.prev.length := by rw [hlen]; omega
      have h2 : ¬ i ≥ ppk.prev.length := by omega
      simp [he, h2]
  rw [hp, hall i hi]; rfl
''')
w('C15', ['Arimaa.Props.C15', L + 'RsAgreeTHash', L + 'RsAgreeHash', L + 'RsAgreeShow', L + 'RsAgreeParse'], ['thash', 'fpb', 'fmt'], '''
/-- the regenerated diagram parser (`FromStr for GameState`: `split('|')`, the header through `matchHeader`, the two
nested loops with their early `Err`, `parse()?`) agrees with the hand-written `parseState` on every text shorter than
2^60 characters (the cell index is a `usize` in the code) -/
theorem C15_code_parser_agrees (t : List Char) (hlen : t.length < 2 ^ 60) :
    GameState_from_str t = RsAgree.ofOutcome (parseState t) := by
  simp only [bridge_GameState_from_str]
  exact RsAgree.game_state_from_str t hlen

/-- **C15 (no crash) for the code as it is now**: the regenerated parser returns `Ok` or `Err` on EVERY text -
oversized or non-ASCII move numbers, any number of rows and cells, stray bars, non-ASCII cells -/
theorem C15_code_no_panic (t : List Char) (hlen : t.length < 2 ^ 60) : GameState_from_str t ≠ .panic := by
  rw [C15_code_parser_agrees t hlen]
  have h := (C15_no_panic t).1
  cases hp : parseState t <;> simp_all [RsAgree.ofOutcome]

/-- **C15 (round trip) for the code as it is now**: parsing, with the regenerated parser, the diagram the
regenerated `Display` prints for a state with a well-formed board returns `Ok` of a state with the same board, side
and move number, which prints identically -/
theorem C15_code_roundtrip (s : GameState) (hw : WF s.board) (hn : s.moveNo ≤ usizeMax) (text : List Char)
    (hshow : GameState_fmt s [] = .ok text) (hlen : text.length < 2 ^ 60) :
    ∃ s', GameState_from_str text = .ok (some s') ∧ s'.board = s.board ∧ s'.p1Turn = s.p1Turn ∧
      s'.moveNo = s.moveNo ∧ GameState_fmt s' [] = .ok text := by
  simp only [bridge_GameState_fmt, RsAgree.game_state_fmt, List.nil_append, Res.ok.injEq] at hshow
  subst hshow
  obtain ⟨s', hp, hb, ht, hm, hs⟩ := C15_roundtrip s hw hn
  refine ⟨s', ?_, hb, ht, hm, ?_⟩
  · rw [C15_code_parser_agrees _ hlen, hp]; rfl
  · simp only [bridge_GameState_fmt, RsAgree.game_state_fmt, List.nil_append, hs]

/-- **C15 (printing side) for the code as it is now**: the regenerated `Display for GameState` never panics and
appends exactly the diagram `showState s` the round-trip theorems are about (the diagram PARSER, `FromStr for
GameState` with its regular expression, is not translated: it stays hand-modelled and tied by the text campaigns) -/
theorem C15_code_show (s : GameState) : GameState_fmt s [] = .ok (showState s) := by
  simp only [bridge_GameState_fmt, RsAgree.game_state_fmt, List.nil_append]
''')
w('C17', ['Arimaa.Props.C17', L + 'RsAgreeTHash', L + 'RsAgreeHash'], ['thash', 'wpps', 'fpb'],
  value_cor('C17', 'C17_code_thash', '(s : GameState) (r : BB)', 'GameState_transposition_hash s', 's.transpositionHash', 'RsAgree.transposition_hash_eq s') + '''
/-- **C17 for the code as it is now** (content of one square): two play states that differ in the content of
exactly one square get different values from the regenerated `transposition_hash` -/
theorem C17_code_content (b b' : Board) (hb : b.AtMostOne) (hb' : b'.AtMostOne) (q : Nat) (hq : q < 64)
    (hsame : ∀ i, i < 64 → i ≠ q → b.contentAt i = b'.contentAt i)
    (hdiff : b.contentAt q ≠ b'.contentAt q) (side : Bool) (n : Nat) (pp : PlayPhase) (x x' : BB)
    (hx : GameState_transposition_hash (mkPlay b side n pp) = .ok x)
    (hx' : GameState_transposition_hash (mkPlay b' side n pp) = .ok x') : x ≠ x' := by
  rw [C17_code_thash _ x hx, C17_code_thash _ x' hx']
  exact C17_content b b' hb hb' q hq hsame hdiff side n pp
''')
print("written")
