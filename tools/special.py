"""Own machinery of C18 (rustc as judge of Send + Sync, concurrent expansion) and C20 (long game on
a 2 MiB thread, stack spread of List<Probe>).  Called by ./check."""
import json
import os
import subprocess


def _run(cmd, env, timeout):
    p = subprocess.run(cmd, stdout=subprocess.PIPE, stderr=subprocess.PIPE, text=True, env=env, timeout=timeout)
    return p.returncode, p.stdout, p.stderr


def run(pid, tier, seed, root, repo, env):
    harness = os.path.join(root, "harness")
    out = {"evals": 0, "nontrivial": 0, "fails": [], "counts": {}, "samples": [], "broken": []}
    if pid == "C18":
        rc, so, se = _run(["cargo", "build", "--release", "--offline", "--bin", "sendsync"], dict(env, **{"PWD": harness}), 1800) if False else (None, None, None)
        p = subprocess.run(["cargo", "build", "--release", "--offline", "--bin", "sendsync"], cwd=harness, stdout=subprocess.PIPE, stderr=subprocess.STDOUT, text=True, env=env)
        if p.returncode != 0:
            errs = [l for l in p.stdout.splitlines() if "error" in l or "cannot be sent" in l or "cannot be shared" in l or "Send" in l or "Sync" in l]
            out["fails"].append({"prop": "C18", "what": "client-requiring-send-sync-does-not-compile", "start": "harness/src/bin/sendsync.rs (fn client_requires_send_sync)",
                                 "actions": [], "detail": "\n".join(errs[:30]) or p.stdout[-2000:]})
            out["evals"] += 13
            return out
        out["evals"] += 13
        out["nontrivial"] += 13
        out["counts"]["C18-types-accepted-by-rustc-as-Send+Sync"] = 13
        runs = [(8, 300)] if tier == "quick" else [(2, 400), (4, 400), (8, 800), (16, 1500), (16, 1500)]
        for k, (threads, states) in enumerate(runs):
            rc, so, se = _run([os.path.join(harness, "target", "release", "sendsync"), str(seed * 100 + k), str(threads), str(states), "60" if tier == "quick" else "150"], env, 1800)
            try:
                r = json.loads(so.strip().splitlines()[-1])
            except Exception:
                r = {"expansions": 0, "mismatches": -1, "changed_after": -1, "states": states, "threads": threads}
            out["evals"] += r.get("expansions", 0)
            out["nontrivial"] += r.get("states", 0)
            out["counts"]["C18-concurrent-expansions"] = out["counts"].get("C18-concurrent-expansions", 0) + r.get("expansions", 0)
            out["counts"]["C18-clones-racing-with-first-expansion"] = out["counts"].get("C18-clones-racing-with-first-expansion", 0) + r.get("clone_races", 0)
            out["samples"].append({"sendsync": r})
            if rc != 0:
                out["fails"].append({"prop": "C18", "what": "concurrent-expansion-differs-from-sequential", "start": "sendsync %d %d %d" % (seed * 100 + k, threads, states),
                                     "actions": [], "detail": (so + se)[-1500:]})
        # concurrent RELEASE: the last owners of one long shared history let go of it at the same moment on 2 MiB
        # threads (Props/C18c.lean); a Drop that is only sequentially right aborts the process here
        p = subprocess.run(["cargo", "build", "--release", "--offline", "--bin", "longgame"], cwd=harness, stdout=subprocess.PIPE, stderr=subprocess.STDOUT, text=True, env=env)
        if p.returncode == 0:
            rounds = 25 if tier == "quick" else 200
            exe = os.path.join(harness, "target", "release", "longgame")
            rc, so, se = _run([exe, "race", "120000", str(rounds)], env, 3600)
            out["evals"] += rounds
            out["counts"]["C18-concurrent-release-rounds"] = rounds
            out["samples"].append({"longgame race 120000 %d" % rounds: so.strip()[:200], "exit": rc})
            if rc != 0:
                out["fails"].append({"prop": "C18", "what": "concurrent-release-of-shared-history-aborts", "start": "harness/target/release/longgame race 120000 %d" % rounds,
                                     "actions": [], "detail": "exit status %d: %s" % (rc, (se or so)[-600:])})
        else:
            out["broken"].append({"kind": "harness-build", "what": p.stdout[-1500:]})
        return out
    if pid == "C19":
        # a counter that is narrower than the game is long: a capture-free game far beyond 2^16 turns, every action taken
        # from the offered list, with overflow checks (the harness's release profile sets `overflow-checks = true`)
        p = subprocess.run(["cargo", "build", "--release", "--offline", "--bin", "longgame"], cwd=harness, stdout=subprocess.PIPE, stderr=subprocess.STDOUT, text=True, env=env)
        if p.returncode != 0:
            out["broken"].append({"kind": "harness-build", "what": p.stdout[-1500:]})
            return out
        exe = os.path.join(harness, "target", "release", "longgame")
        n = 70000 if tier == "quick" else 300000
        rc, so, se = _run([exe, "play", str(n)], env, 3600)
        out["evals"] += n
        out["nontrivial"] += 1
        out["counts"]["C19-capture-free-turns-played-with-overflow-checks"] = n
        out["samples"].append({"longgame play %d" % n: so.strip()[:300], "exit": rc})
        if rc != 0:
            out["fails"].append({"prop": "C19", "what": "long-capture-free-game-panics", "start": "harness/target/release/longgame play %d" % n, "actions": [],
                                 "detail": "exit status %d: %s" % (rc, (se or so)[-600:])})
        return out
    if pid == "C20":
        p = subprocess.run(["cargo", "build", "--release", "--offline", "--bin", "longgame"], cwd=harness, stdout=subprocess.PIPE, stderr=subprocess.STDOUT, text=True, env=env)
        if p.returncode != 0:
            out["broken"].append({"kind": "harness-build", "what": p.stdout[-1500:]})
            return out
        exe = os.path.join(harness, "target", "release", "longgame")
        lengths = [1000, 100000] if tier == "quick" else [1000, 100000, 1000000]
        for n in lengths:
            rc, so, se = _run([exe, "play", str(n)], env, 3600)
            out["evals"] += 1
            out["nontrivial"] += 1
            out["counts"]["C20-turns-played"] = out["counts"].get("C20-turns-played", 0) + n
            out["samples"].append({"longgame play %d" % n: so.strip()[:300], "exit": rc})
            if rc != 0:
                out["fails"].append({"prop": "C20", "what": "long-game-aborts", "start": "harness/target/release/longgame play %d" % n, "actions": [],
                                     "detail": "exit status %d: %s" % (rc, (se or so)[-600:])})
                break
        # the same game in an unoptimised build: a recursion that only the optimiser turns into a loop
        # (tail calls) is still a recursion of the crate
        p = subprocess.run(["cargo", "build", "--offline", "--bin", "longgame"], cwd=harness, stdout=subprocess.PIPE, stderr=subprocess.STDOUT, text=True, env=env)
        if p.returncode != 0:
            out["broken"].append({"kind": "harness-build", "what": p.stdout[-1500:]})
            return out
        dexe = os.path.join(harness, "target", "debug", "longgame")
        n = 100000 if tier == "quick" else 300000
        if not out["fails"]:
            rc, so, se = _run([dexe, "play", str(n)], env, 3600)
            out["evals"] += 1
            out["nontrivial"] += 1
            out["counts"]["C20-turns-played-unoptimised"] = n
            out["samples"].append({"debug longgame play %d" % n: so.strip()[:300], "exit": rc})
            if rc != 0:
                out["fails"].append({"prop": "C20", "what": "long-game-aborts-in-unoptimised-build", "start": "harness/target/debug/longgame play %d" % n, "actions": [],
                                     "detail": "exit status %d: %s" % (rc, (se or so)[-600:])})
        rounds = 25 if tier == "quick" else 200
        rc, so, se = _run([exe, "race", "120000", str(rounds)], env, 3600)
        out["evals"] += rounds
        out["nontrivial"] += 1
        out["counts"]["C20-concurrent-drop-rounds"] = rounds
        out["samples"].append({"longgame race 120000 %d" % rounds: so.strip()[:200], "exit": rc})
        if rc != 0:
            out["fails"].append({"prop": "C20", "what": "concurrent-drop-of-long-history-aborts", "start": "harness/target/release/longgame race 120000 %d" % rounds, "actions": [],
                                 "detail": "exit status %d: %s" % (rc, (se or so)[-600:])})
        rc, so, se = _run([exe, "probe", "1000", "100000" if tier == "quick" else "1000000"], env, 3600)
        try:
            r = json.loads(so.strip().splitlines()[-1])
            out["samples"].append({"stack spread of dropping List<Probe>": r})
            out["counts"]["C20-spread-bytes-n1"] = r["spread1"]
            out["counts"]["C20-spread-bytes-n2"] = r["spread2"]
            out["evals"] += 2
            out["nontrivial"] += 2
            # the model (loop variant of drop) has constant depth: the two spreads must agree within a page
            if abs(r["spread2"] - r["spread1"]) > 4096:
                out["fails"].append({"prop": "C20", "what": "stack-use-grows-with-history-length", "start": "harness/target/release/longgame probe %d %d" % (r["n1"], r["n2"]),
                                     "actions": [], "detail": json.dumps(r)})
        except Exception:
            out["broken"].append({"kind": "probe", "what": (so + se)[-600:]})
        return out
    return None
