#!/usr/bin/env python3
"""Parser for the Rust subset used by engine.rs / zobrist.rs (front end of tools/rs2lean2.py).

Produces a plain AST of tuples.  Anything outside the subset raises ParseError; the caller skips
that item (and reports it) instead of guessing.

Expressions
  ('int', n) ('bool', b) ('str', s) ('char', c)
  ('path', [seg, ...])                     x, self, Piece::Elephant, Self::f, Direction::ALL
  ('call', fn_expr, [args])                f(a), Type::f(a), Some(x)
  ('mcall', recv, name, [args])            x.f(a)
  ('field', recv, name)                    x.f, x.0
  ('index', recv, idx)                     x[i]
  ('unary', op, e)                         op in ! - * & &mut
  ('binary', op, a, b)
  ('assign', op, lhs, rhs)                 op in = |= &= ^= += -=
  ('if', cond, then_block, else_expr|None) cond may be ('let', pat, e)
  ('match', scrut, [(pat, guard|None, expr)])
  ('block', [stmts], tail|None)
  ('closure', [param_pats], body)
  ('macro', name, [exprs])                 shift_up!(e), vec![], panic!(..)
  ('matches', e, pat)
  ('struct', path, [(field, expr)], base|None)
  ('tuple', [e]) ('array', [e])
  ('return', e|None)
  ('for', pat, iter, block)
Statements
  ('let', pat, type|None, init|None) ('expr', e, has_semi)
Patterns
  ('pwild',) ('pbind', name) ('plit', expr) ('ptuple', [p]) ('pctor', path, [p]) ('pref', p)
Types
  ('tpath', name, [args]) ('tref', is_mut, T) ('ttuple', [T]) ('tslice', T)
Items
  ('fn', name, impl_type|None, self_kind|None, [(name, type)], ret_type|None, body, is_pub)
  ('struct', name, [(field, type)] | ('tuple', [types]))
  ('enum', name, [(variant, [types])])
"""
import re


class ParseError(Exception):
    pass


def strip_comments(src):
    out, i, n = [], 0, len(src)
    while i < n:
        c = src[i]
        if src.startswith("//", i):
            j = src.find("\n", i)
            i = n if j < 0 else j
        elif src.startswith("/*", i):
            j = src.find("*/", i + 2)
            i = n if j < 0 else j + 2
        elif c == '"':
            j = i + 1
            while j < n and src[j] != '"':
                j += 2 if src[j] == "\\" else 1
            out.append(src[i:j + 1])
            i = j + 1
        elif c == "'" and re.match(r"'(\\.|[^\\'])'", src[i:i + 4]):
            m = re.match(r"'(\\.|[^\\'])'", src[i:i + 4])
            out.append(m.group(0))
            i += len(m.group(0))
        else:
            out.append(c)
            i += 1
    return "".join(out)


TOK = re.compile(r"""
    (?P<ws>\s+)
  | (?P<int>0b[01_]+|0x[0-9a-fA-F_]+|\d[\d_]*)(?P<suf>u8|u16|u32|u64|u128|usize|i32|i64|isize)?
  | (?P<rawstr>r\#*"(?:[^"])*"\#*)
  | (?P<str>"(?:\\.|[^"\\])*")
  | (?P<char>'(?:\\.|[^\\'])')
  | (?P<life>'[A-Za-z_][A-Za-z0-9_]*)
  | (?P<id>[A-Za-z_][A-Za-z0-9_]*)
  | (?P<p>\.\.=|<<=|>>=|::|->|=>|==|!=|<=|>=|&&|\|\||<<|>>|\|=|&=|\^=|\+=|-=|\*=|\.\.|[-+*/%&|^!<>=(){}\[\].,;:#?@$])
""", re.X)


def tokenize(src):
    toks, i = [], 0
    while i < len(src):
        m = TOK.match(src, i)
        if not m:
            raise ParseError("cannot tokenize at: %r" % src[i:i + 30])
        i = m.end()
        if m.group("ws"):
            continue
        if m.group("int"):
            t = m.group("int").replace("_", "")
            v = int(t[2:], 2) if t.startswith("0b") else int(t[2:], 16) if t.startswith("0x") else int(t)
            toks.append(("int", v, m.group("suf")))
        elif m.group("rawstr"):
            toks.append(("rawstr", m.group("rawstr")))
        elif m.group("str"):
            toks.append(("str", m.group("str")))
        elif m.group("char"):
            toks.append(("char", m.group("char")))
        elif m.group("life"):
            toks.append(("life", m.group("life")))
        elif m.group("id"):
            toks.append(("id", m.group("id")))
        else:
            toks.append(("p", m.group("p")))
    return toks


KEYWORDS = {"if", "else", "match", "let", "mut", "for", "in", "return", "fn", "impl", "pub", "struct", "enum",
            "use", "const", "static", "mod", "while", "loop", "break", "continue", "as", "ref", "where", "type",
            "trait", "unsafe", "move", "true", "false", "macro_rules"}

ASSIGN_OPS = {"=", "|=", "&=", "^=", "+=", "-=", "*=", "<<=", ">>="}
BIN_LEVELS = [["||"], ["&&"], ["==", "!=", "<", ">", "<=", ">="], ["|"], ["^"], ["&"], ["<<", ">>"], ["+", "-"],
              ["*", "/", "%"]]


class Parser:
    def __init__(self, toks):
        self.t, self.i = toks, 0

    # -- token helpers
    def peek(self, k=0):
        j = self.i + k
        return self.t[j] if j < len(self.t) else ("eof", None)

    def at(self, text, k=0):
        tk = self.peek(k)
        return tk[0] in ("p", "id") and tk[1] == text

    def eat(self, text=None):
        tk = self.peek()
        if text is not None and not (tk[0] in ("p", "id") and tk[1] == text):
            raise ParseError("expected %r, found %r (token %d)" % (text, tk, self.i))
        self.i += 1
        return tk

    def eat_id(self):
        tk = self.peek()
        if tk[0] != "id":
            raise ParseError("expected identifier, found %r" % (tk,))
        self.i += 1
        return tk[1]

    def accept(self, text):
        if self.at(text):
            self.i += 1
            return True
        return False

    def skip_attrs(self):
        while self.at("#"):
            self.eat("#")
            self.accept("!")
            self.skip_balanced("[", "]")

    def skip_balanced(self, o, c):
        self.eat(o)
        depth = 1
        while depth:
            tk = self.eat()
            if tk[0] == "eof":
                raise ParseError("unbalanced " + o)
            if tk[0] == "p" and tk[1] == o:
                depth += 1
            elif tk[0] == "p" and tk[1] == c:
                depth -= 1

    # -- types
    def type_(self):
        if self.accept("&"):
            if self.peek()[0] == "life":
                self.eat()
            m = self.accept("mut")
            return ("tref", m, self.type_())
        if self.accept("&&"):
            return ("tref", False, ("tref", False, self.type_()))
        if self.accept("("):
            ts = []
            while not self.at(")"):
                ts.append(self.type_())
                self.accept(",")
            self.eat(")")
            return ("ttuple", ts)
        if self.accept("["):
            t = self.type_()
            if self.accept(";"):
                self.expr()
            self.eat("]")
            return ("tslice", t)
        name = self.eat_id()
        while self.accept("::"):
            name = self.eat_id()
        args = []
        if self.accept("<"):
            while not self.at(">") and not self.at(">>"):
                if self.peek()[0] == "life":
                    self.eat()
                else:
                    args.append(self.type_())
                self.accept(",")
            if self.at(">>"):
                # split the token
                self.t[self.i] = ("p", ">")
            else:
                self.eat(">")
        return ("tpath", name, args)

    # -- patterns
    def pattern(self):
        p = self.pattern1()
        if self.at("|") and not self.at("||"):
            alts = [p]
            while self.accept("|"):
                alts.append(self.pattern1())
            return ("por", alts)
        return p

    def pattern1(self):
        if self.accept("&"):
            self.accept("mut")
            return ("pref", self.pattern1())
        if self.accept("_"):
            return ("pwild",)
        if self.accept("("):
            ps = []
            while not self.at(")"):
                ps.append(self.pattern())
                self.accept(",")
            self.eat(")")
            return ("ptuple", ps)
        tk = self.peek()
        if tk[0] == "int":
            self.eat()
            return ("plit", ("int", tk[1], tk[2]))
        if tk[0] == "char":
            self.eat()
            return ("plit", ("char", tk[1]))
        if tk[0] == "id" and tk[1] in ("true", "false"):
            self.eat()
            return ("plit", ("bool", tk[1] == "true"))
        if tk[0] == "id" and tk[1] == "_":
            self.eat()
            return ("pwild",)
        self.accept("ref")
        self.accept("mut")
        segs = [self.eat_id()]
        while self.accept("::"):
            segs.append(self.eat_id())
        if self.accept("("):
            ps = []
            while not self.at(")"):
                ps.append(self.pattern())
                self.accept(",")
            self.eat(")")
            return ("pctor", segs, ps)
        if len(segs) == 1 and segs[0][0].islower():
            return ("pbind", segs[0])
        if len(segs) == 1 and segs[0] == "_":
            return ("pwild",)
        return ("pctor", segs, [])

    # -- expressions
    def expr(self, no_struct=False):
        if self.at("return"):
            self.eat()
            if self.at(";") or self.at("}") or self.at(","):
                return ("return", None)
            return ("return", self.expr(no_struct))
        if self.at("continue") and (self.at(";", 1) or self.at("}", 1) or self.at(",", 1)):
            self.eat()
            return ("continue",)
        if self.at("..") or self.at("..="):
            incl = self.eat()[1] == "..="
            hi = self.binary(0, no_struct)
            return ("range", None, hi, incl)
        lhs = self.binary(0, no_struct)
        if self.at("..") or self.at("..="):
            incl = self.eat()[1] == "..="
            hi = None
            if not (self.at("]") or self.at(")") or self.at(";") or self.at(",") or self.at("{")):
                hi = self.binary(0, no_struct)
            return ("range", lhs, hi, incl)
        tk = self.peek()
        if tk[0] == "p" and tk[1] in ASSIGN_OPS:
            self.eat()
            rhs = self.expr(no_struct)
            return ("assign", tk[1], lhs, rhs)
        return lhs

    def binary(self, lvl, ns):
        if lvl == len(BIN_LEVELS):
            return self.cast(ns)
        lhs = self.binary(lvl + 1, ns)
        while True:
            tk = self.peek()
            if tk[0] == "p" and tk[1] in BIN_LEVELS[lvl]:
                self.eat()
                rhs = self.binary(lvl + 1, ns)
                lhs = ("binary", tk[1], lhs, rhs)
            else:
                return lhs

    def cast(self, ns):
        e = self.unary(ns)
        while self.at("as"):
            self.eat()
            e = ("cast", e, self.type_())
        return e

    def unary(self, ns):
        if self.accept("!"):
            return ("unary", "!", self.unary(ns))
        if self.accept("-"):
            return ("unary", "-", self.unary(ns))
        if self.accept("*"):
            return ("unary", "*", self.unary(ns))
        if self.accept("&&"):
            self.accept("mut")
            return ("unary", "&", ("unary", "&", self.unary(ns)))
        if self.accept("&"):
            if self.accept("mut"):
                return ("unary", "&mut", self.unary(ns))
            return ("unary", "&", self.unary(ns))
        if self.at("||") or self.at("|") or self.at("move"):
            return self.closure(ns)
        return self.postfix(ns)

    def closure(self, ns):
        self.accept("move")
        params = []
        if self.accept("||"):
            pass
        else:
            self.eat("|")
            while not self.at("|"):
                params.append(self.pattern1())
                if self.accept(":"):
                    self.type_()
                self.accept(",")
            self.eat("|")
        body = self.expr(ns)
        return ("closure", params, body)

    def args(self):
        self.eat("(")
        out = []
        while not self.at(")"):
            out.append(self.expr())
            if not self.accept(","):
                break
        self.eat(")")
        return out

    def postfix(self, ns):
        e = self.primary(ns)
        while True:
            if self.at("("):
                e = ("call", e, self.args())
            elif self.at("."):
                self.eat(".")
                tk = self.peek()
                if tk[0] == "int":
                    self.eat()
                    e = ("field", e, str(tk[1]))
                    continue
                name = self.eat_id()
                targs = None
                if self.at("::"):
                    self.eat("::")
                    self.eat("<")
                    targs = []
                    while not self.at(">"):
                        targs.append(self.type_())
                        self.accept(",")
                    self.eat(">")
                if self.at("("):
                    if targs is not None:
                        e = ("mcall_t", e, name, targs, self.args())
                    else:
                        e = ("mcall", e, name, self.args())
                else:
                    e = ("field", e, name)
            elif self.at("["):
                self.eat("[")
                idx = self.expr()
                self.eat("]")
                e = ("index", e, idx)
            elif self.at("?"):
                self.eat("?")
                e = ("try", e)
            else:
                return e

    def block(self):
        self.eat("{")
        stmts, tail = [], None
        while not self.at("}"):
            self.skip_attrs()
            if self.at("let"):
                self.eat("let")
                pat = self.pattern()
                ty = None
                if self.accept(":"):
                    ty = self.type_()
                init = None
                if self.accept("="):
                    init = self.expr()
                self.eat(";")
                stmts.append(("let", pat, ty, init))
                continue
            if self.at("const") and self.peek(1)[0] == "id" and self.at(":", 2):
                self.eat("const")
                name = self.eat_id()
                self.eat(":")
                ty = self.type_()
                self.eat("=")
                init = self.expr()
                self.eat(";")
                stmts.append(("let", ("pbind", name), ty, init))
                continue
            if self.at("fn") or self.at("use") or self.at("const") or self.at("static"):
                raise ParseError("nested item")
            e = self.expr()
            if self.accept(";"):
                stmts.append(("expr", e, True))
            elif self.at("}"):
                tail = e
            elif e[0] in ("if", "match", "for", "block", "while"):
                stmts.append(("expr", e, False))
            else:
                raise ParseError("expected ; or } after expression, found %r" % (self.peek(),))
        self.eat("}")
        return ("block", stmts, tail)

    def primary(self, ns):
        tk = self.peek()
        if tk[0] == "int":
            self.eat()
            return ("int", tk[1], tk[2])
        if tk[0] == "str":
            self.eat()
            return ("str", tk[1])
        if tk[0] == "rawstr":
            self.eat()
            return ("rawstr", tk[1])
        if tk[0] == "char":
            self.eat()
            return ("char", tk[1])
        if self.at("("):
            self.eat("(")
            if self.accept(")"):
                return ("tuple", [])
            e = self.expr()
            if self.at(","):
                es = [e]
                while self.accept(","):
                    if self.at(")"):
                        break
                    es.append(self.expr())
                self.eat(")")
                return ("tuple", es)
            self.eat(")")
            return ("paren", e)
        if self.at("["):
            self.eat("[")
            es = []
            while not self.at("]"):
                es.append(self.expr())
                if self.accept(";"):
                    raise ParseError("array repeat expression")
                self.accept(",")
            self.eat("]")
            return ("array", es)
        if self.at("{"):
            return self.block()
        if self.at("if"):
            return self.if_()
        if self.at("match"):
            self.eat()
            scrut = self.expr(no_struct=True)
            self.eat("{")
            arms = []
            while not self.at("}"):
                self.skip_attrs()
                pat = self.pattern()
                guard = None
                if self.accept("if"):
                    guard = self.expr()
                self.eat("=>")
                body = self.expr()
                arms.append((pat, guard, body))
                self.accept(",")
            self.eat("}")
            return ("match", scrut, arms)
        if self.at("for"):
            self.eat()
            pat = self.pattern()
            self.eat("in")
            it = self.expr(no_struct=True)
            body = self.block()
            return ("for", pat, it, body)
        if self.at("while"):
            self.eat()
            if self.at("let"):
                raise ParseError("while let")
            cond = self.expr(no_struct=True)
            body = self.block()
            return ("while", cond, body)
        if self.at("loop") or self.at("unsafe"):
            raise ParseError("unsupported construct " + tk[1])
        if tk[0] == "id" and tk[1] in ("true", "false"):
            self.eat()
            return ("bool", tk[1] == "true")
        if tk[0] == "id":
            segs = [self.eat_id()]
            if self.at("!") and not self.at("=", 1) and (self.at("(", 1) or self.at("[", 1) or self.at("{", 1)):
                self.eat("!")
                return self.macro(segs[0])
            while self.at("::"):
                self.eat("::")
                if self.at("<"):
                    raise ParseError("turbofish")
                segs.append(self.eat_id())
            if len(segs) > 1 and self.at("!") and (self.at("(", 1) or self.at("[", 1)):
                self.eat("!")
                return self.macro(segs[-1])
            if self.at("{") and not ns and segs[-1][0].isupper():
                return self.struct_lit(segs)
            return ("path", segs)
        raise ParseError("unexpected token %r" % (tk,))

    def if_(self):
        self.eat("if")
        if self.accept("let"):
            pat = self.pattern()
            self.eat("=")
            cond = ("let", pat, self.expr(no_struct=True))
        else:
            cond = self.expr(no_struct=True)
        then = self.block()
        els = None
        if self.accept("else"):
            els = self.if_() if self.at("if") else self.block()
        return ("if", cond, then, els)

    def struct_lit(self, segs):
        self.eat("{")
        fields, base = [], None
        while not self.at("}"):
            if self.accept(".."):
                base = self.expr()
                break
            name = self.eat_id()
            if self.accept(":"):
                fields.append((name, self.expr()))
            else:
                fields.append((name, ("path", [name])))
            self.accept(",")
        self.eat("}")
        return ("struct", segs, fields, base)

    def macro(self, name):
        if name == "matches":
            self.eat("(")
            e = self.expr()
            self.eat(",")
            pat = self.pattern()
            if self.accept("if"):
                raise ParseError("matches! with guard")
            self.accept(",")
            self.eat(")")
            return ("matches", e, pat)
        if name in ("write", "writeln"):
            self.eat("(")
            sink = self.expr()
            self.eat(",")
            tk = self.eat()
            if tk[0] != "str":
                raise ParseError("format string expected")
            args = []
            while self.accept(","):
                if self.at(")"):
                    break
                if self.peek()[0] == "id" and self.at("=", 1) and not self.at("==", 1):
                    nm = self.eat_id()
                    self.eat("=")
                    args.append(("named", nm, self.expr()))
                    continue
                args.append(self.expr())
            self.eat(")")
            return ("macro", name, [sink, ("str", tk[1])] + args)
        if name == "format":
            self.eat("(")
            tk = self.eat()
            if tk[0] != "str":
                raise ParseError("format string expected")
            args = []
            while self.accept(","):
                if self.at(")"):
                    break
                args.append(self.expr())
            self.eat(")")
            return ("macro", "format", [("str", tk[1])] + args)
        if name in ("assert", "debug_assert"):
            self.eat("(")
            cond = self.expr()
            depth = 1
            while depth:
                tk = self.eat()
                if tk[0] == "eof":
                    raise ParseError("unbalanced assert!")
                if tk[0] == "p" and tk[1] == "(":
                    depth += 1
                elif tk[0] == "p" and tk[1] == ")":
                    depth -= 1
            return ("macro", "assert", [cond])
        if name in ("panic", "unreachable", "unimplemented", "todo", "assert_eq",
                    "debug_assert_eq", "println", "eprintln"):
            o = self.peek()[1]
            self.skip_balanced(o, {"(": ")", "[": "]", "{": "}"}[o])
            return ("macro", name, [])
        o = self.eat()[1]
        c = {"(": ")", "[": "]", "{": "}"}[o]
        es = []
        while not self.at(c):
            es.append(self.expr())
            if self.accept(";"):
                raise ParseError("macro repeat form")
            self.accept(",")
        self.eat(c)
        return ("macro", name, es)

    # -- items
    def items(self, impl_type=None, until=None):
        out, skipped = [], []
        while self.peek()[0] != "eof" and not (until and self.at(until)):
            start = self.i
            try:
                self.skip_attrs()
                is_pub = False
                if self.accept("pub"):
                    is_pub = True
                    if self.at("("):
                        self.skip_balanced("(", ")")
                if self.at("fn"):
                    out.append(self.fn_(impl_type, is_pub))
                elif self.at("impl"):
                    a, b = self.impl_()
                    out += a
                    skipped += b
                elif self.at("struct"):
                    out.append(self.struct_())
                elif self.at("enum"):
                    out.append(self.enum_())
                elif impl_type is None and self.at("const") and self.peek(1)[0] == "id" and self.at(":", 2):
                    self.eat("const")
                    name = self.eat_id()
                    self.eat(":")
                    ty = self.type_()
                    self.eat("=")
                    init = self.expr()
                    self.eat(";")
                    out.append(("const", name, ty, init))
                elif self.at("use") or self.at("const") or self.at("static") or self.at("type"):
                    depth = 0
                    while depth > 0 or not self.at(";"):
                        tk = self.eat()
                        if tk[0] == "eof":
                            raise ParseError("unterminated item")
                        if tk[0] == "p" and tk[1] in "([{":
                            depth += 1
                        elif tk[0] == "p" and tk[1] in ")]}":
                            depth -= 1
                    self.eat(";")
                elif self.at("mod"):
                    self.eat()
                    self.eat_id()
                    if not self.accept(";"):
                        # the items of an inline module are read as if they stood at the top level
                        self.eat("{")
                        sub = Parser(self.t)
                        sub.i = self.i
                        a, b = sub.items(impl_type=None, until="}")
                        self.i = sub.i
                        self.eat("}")
                        out += a
                        skipped += b
                elif self.at("macro_rules"):
                    self.eat()
                    self.eat("!")
                    self.eat_id()
                    self.skip_balanced("{", "}")
                else:
                    raise ParseError("unexpected item token %r" % (self.peek(),))
            except ParseError as e:
                # resynchronise: skip to the end of this item
                self.i = start
                name = self.skip_item()
                skipped.append((name, str(e)))
        return out, skipped

    def skip_item(self):
        name = "?"
        while self.peek()[0] != "eof":
            if self.at("fn") and self.peek(1)[0] == "id":
                name = self.peek(1)[1]
            if self.at("impl") and name == "?":
                name = "impl"
            if self.at(";"):
                self.eat()
                return name
            if self.at("{"):
                self.skip_balanced("{", "}")
                return name
            if self.at("#"):
                self.eat()
                self.accept("!")
                self.skip_balanced("[", "]")
                continue
            self.eat()
        return name

    def fn_(self, impl_type, is_pub):
        self.eat("fn")
        name = self.eat_id()
        generics = {}
        if self.at("<"):
            # only the shape `<H: Hasher>` (one type parameter with one trait bound) is read
            self.eat("<")
            g = self.eat_id()
            self.eat(":")
            bound = self.eat_id()
            while self.accept("::"):
                bound = self.eat_id()
            if not self.at(">"):
                raise ParseError("generic fn " + name)
            self.eat(">")
            if bound != "Hasher":
                raise ParseError("generic fn " + name)
            generics[g] = bound
        self.eat("(")
        self_kind, params = None, []
        while not self.at(")"):
            if self.at("&") and (self.at("self", 1) or (self.at("mut", 1) and self.at("self", 2))):
                self.eat("&")
                self_kind = "refmut" if self.accept("mut") else "ref"
                self.eat("self")
            elif self.at("self"):
                self.eat()
                self_kind = "val"
            elif self.at("mut") and self.at("self", 1):
                self.eat()
                self.eat()
                self_kind = "val"
            else:
                self.accept("mut")
                pn = self.eat_id()
                self.eat(":")
                pt = self.type_()
                # a parameter of the generic hasher type is a sink of written words
                def subst(t):
                    if t[0] == "tpath" and t[1] in generics:
                        return ("tpath", "Hasher", [])
                    if t[0] == "tref":
                        return ("tref", t[1], subst(t[2]))
                    return t
                params.append((pn, subst(pt)))
            self.accept(",")
        self.eat(")")
        ret = None
        if self.accept("->"):
            ret = self.type_()
        if self.at("where"):
            raise ParseError("where clause")
        body = self.block()
        return ("fn", name, impl_type, self_kind, params, ret, body, is_pub)

    def impl_(self):
        self.eat("impl")
        if self.at("<"):
            raise ParseError("generic impl")
        t = self.type_()
        trait = None
        if self.accept("for"):
            trait = t
            t = self.type_()
        if t[0] != "tpath" or t[2]:
            raise ParseError("impl for a non-plain type")
        self.eat("{")
        sub = Parser(self.t)
        sub.i = self.i
        tag = t[1] if trait is None else "%s@%s" % (t[1], trait[1])
        items, skipped = sub.items(impl_type=tag, until="}")
        self.i = sub.i
        self.eat("}")
        return items, skipped

    def struct_(self):
        self.eat("struct")
        name = self.eat_id()
        if self.at("<"):
            raise ParseError("generic struct")
        if self.accept("("):
            ts = []
            while not self.at(")"):
                self.accept("pub")
                ts.append(self.type_())
                self.accept(",")
            self.eat(")")
            self.eat(";")
            return ("struct", name, ("tuple", ts))
        self.eat("{")
        fields = []
        while not self.at("}"):
            self.skip_attrs()
            if self.accept("pub") and self.at("("):
                self.skip_balanced("(", ")")
            fn = self.eat_id()
            self.eat(":")
            fields.append((fn, self.type_()))
            self.accept(",")
        self.eat("}")
        return ("struct", name, fields)

    def enum_(self):
        self.eat("enum")
        name = self.eat_id()
        if self.at("<"):
            raise ParseError("generic enum")
        self.eat("{")
        vs = []
        while not self.at("}"):
            self.skip_attrs()
            v = self.eat_id()
            ts = []
            if self.accept("("):
                while not self.at(")"):
                    ts.append(self.type_())
                    self.accept(",")
                self.eat(")")
            if self.accept("="):
                self.expr()
            vs.append((v, ts))
            self.accept(",")
        self.eat("}")
        return ("enum", name, vs)


def parse_file(src):
    """returns (items, skipped) for one source file; test modules are dropped first"""
    src = strip_comments(src)
    src = re.sub(r"#\[cfg\(test\)\]\s*mod\s+\w+\s*\{.*\Z", "", src, flags=re.S)
    p = Parser(tokenize(src))
    return p.items()


if __name__ == "__main__":
    import sys
    items, skipped = parse_file(open(sys.argv[1]).read())
    for it in items:
        if it[0] == "fn":
            print("fn", it[2], it[1], it[3], [p[0] for p in it[4]])
        else:
            print(it[0], it[1])
    for s in skipped:
        print("SKIPPED", s)
