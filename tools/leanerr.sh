#!/bin/bash
# usage: leanerr.sh File.lean [lines-per-error]   -- compact error summary for proof iteration
cd /verif/lean
N=${2:-14}
lake env lean "$1" 2>&1 | awk -v n="$N" '/: error/ {c=n} c>0 {print; c--} ' | cut -c1-220
