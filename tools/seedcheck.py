#!/usr/bin/env python3
"""Re-runs the checks against every kept seeded change (regression test of detection).

usage: seedcheck.py [name ...]        default: every directory under /verif/seeded
For each seeded/<name>/: apply patch.diff to /repo, run ./check <property> (the property the change
breaks), undo, record the outcome in seeded/<name>/meta.json under "recheck".  Prints one line per change
and a summary; restores the generated Lean files at the end.  (The confirmation that the change compiles,
passes the suite and fails its demo was done by tools/mutest.py when it was first kept.)
"""
import json, os, re, subprocess, sys, time

ROOT = "/verif"


def sh(cmd, cwd=None, timeout=7200):
    p = subprocess.run(cmd, cwd=cwd, stdout=subprocess.PIPE, stderr=subprocess.STDOUT, text=True, timeout=timeout)
    return p.returncode, p.stdout


def main():
    names = sys.argv[1:] or sorted(os.listdir(os.path.join(ROOT, "seeded")))
    rc, out = sh(["git", "-C", "/repo", "status", "--porcelain"])
    if out.strip():
        print("/repo not clean")
        return 2
    tally = {"concrete": 0, "no-input": 0, "missed": 0}
    try:
        for n in names:
            d = os.path.join(ROOT, "seeded", n)
            mp = os.path.join(d, "meta.json")
            if not os.path.exists(mp):
                continue
            meta = json.load(open(mp))
            pid = meta["breaks_property"]
            rc, out = sh(["git", "-C", "/repo", "apply", os.path.join(d, "patch.diff")])
            if rc != 0:
                print(n, "patch does not apply:", out.strip()[:200])
                continue
            t0 = time.time()
            try:
                rc, out = sh([os.path.join(ROOT, "check"), pid], cwd=ROOT)
            finally:
                sh(["git", "-C", "/repo", "checkout", "--", "."])
                sh(["git", "-C", "/repo", "clean", "-fdq", "src", "tests"])
            viol = [l for l in out.splitlines() if l.startswith("VIOLATION")]
            kind, what = "missed", ""
            broken_names = []
            if viol:
                kind = "no-input" if "no-failing-input-found" in viol[0] else "concrete"
                m = re.search(r"replay=(\S+)", viol[0])
                if m and os.path.exists(m.group(1)):
                    r = json.load(open(m.group(1)))
                    what = r.get("what") or json.dumps(r.get("no_longer_checks", [])[:1])[:200]
                    # which proof obligations / ties the change broke, independently of the failing input
                    nl = (r.get("also_broken") or []) + (r.get("no_longer_checks") or [])
                    broken_names = sorted({(b.get("kind", "") + ":" + re.sub(r" \(.*", "", str(b.get("what", ""))))[:90] for b in nl if isinstance(b, dict)})
                    os.remove(m.group(1))
                    g = m.group(1)[:-5] + ".game"
                    if os.path.exists(g):
                        os.remove(g)
            tally[kind] += 1
            meta["recheck"] = {"property": pid, "exit": rc, "outcome": kind, "what": what, "wall_s": round(time.time() - t0, 1),
                               "obligations_broken": broken_names if viol else []}
            json.dump(meta, open(mp, "w"), indent=1)
            print(n, pid, kind, what[:100], "%.0fs" % (time.time() - t0), flush=True)
    finally:
        sh(["git", "-C", "/repo", "checkout", "--", "."])
        sh([sys.executable, os.path.join(ROOT, "tools", "gen.py")])
    print("SUMMARY", tally)
    return 0


if __name__ == "__main__":
    sys.exit(main())
