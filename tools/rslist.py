#!/usr/bin/env python3
"""Value-level translator for src/linked_list.rs (the persistent history list) -> lean/Arimaa/Gen/RsList.lean.

`Link<T> = Option<Arc<Node<T>>>` with `Node { elem, next, len }` becomes the inductive

    inductive Link (T) | none | some (elem : T) (next : Link T) (len : Nat)

(`Arc` is transparent for values; sharing, reference counts and `Drop` are the business of the heap model of
C18b / C20, selected from the shape of the `Drop` impl by gen.py).  `List { head }` and `Iter { next }` are
single-field structs and are rendered as the field.  Every function of `impl List`, `impl Clone for List` and
`impl Iterator for Iter` is translated from its AST (tools/rsparse.py after the generic parameters have been
erased textually); the cached length `len() + 1` is checked `usize` arithmetic, so `append` lives in `Rt.Res`.
A body outside the small subset below is a translation error (strict: the tie is broken, not degraded).
"""
import re
import rsparse


class LErr(Exception):
    pass


IDENT = ("as_ref", "as_deref", "clone", "cloned", "as_mut")


class Tr:
    def __init__(self, fns):
        self.fns = fns          # name -> lean name, for self.len() etc.
        self.binds = []         # monadic bindings collected for the current function
        self.n = 0
        self.nested = 0         # > 0 inside a closure body / match arm: checked arithmetic there is not hoisted

    @staticmethod
    def wrap(binds, inner):
        for v, c in reversed(binds):
            inner = "(Res.bind %s (fun %s =>\n      %s))" % (c, v, inner)
        return inner

    def finish_match(self, l, arms):
        """arms: [(pattern text, term, binds made while translating the arm)].  Without checked arithmetic in any arm the
        match is a plain term; otherwise every arm becomes a `Res` computation and the match is bound like a call."""
        if not any(b for _, _, b in arms):
            return "(match %s with\n%s)" % (l, "\n".join("    | %s => %s" % (p, t) for p, t, _ in arms))
        text = "(match %s with\n%s)" % (l, "\n".join("    | %s => %s" % (p, self.wrap(b, "(Res.ok %s)" % t)) for p, t, b in arms))
        v = self.fresh()
        self.binds.append((v, text))
        return v

    def arm(self, body_tr, body, env):
        outer, self.binds = self.binds, []
        try:
            t = body_tr(body, env)
            return t, self.binds
        finally:
            self.binds = outer

    def fresh(self):
        self.n += 1
        return "t%d" % self.n

    # env: var -> ("val", leanterm) | ("node", (elem, next, len)) | ("link", leanterm)
    def link(self, e, env):
        """translate an expression of type Link / List / Iter / Option<&Node> to a Lean term of type `Link T`"""
        k = e[0]
        if k == "paren":
            return self.link(e[1], env)
        if k == "unary" and e[1] in ("&", "*", "&mut"):
            return self.link(e[2], env)
        if k == "path":
            if e[1] == ["None"]:
                return "Link.none"
            if e[1] == ["self"]:
                return "self_"
            if len(e[1]) == 1 and e[1][0] in env and env[e[1][0]][0] == "link":
                return env[e[1][0]][1]
            raise LErr("path %r as a link" % (e[1],))
        if k == "field":
            if e[1] == ("path", ["self"]) and e[2] in ("head", "next"):
                return "self_"
            if e[1][0] == "path" and len(e[1][1]) == 1 and env.get(e[1][1][0], ("",))[0] == "node" and e[2] == "next":
                return env[e[1][1][0]][1][1]
            raise LErr("field %s as a link" % e[2])
        if k == "mcall":
            recv, name, args = e[1], e[2], e[3]
            if name in IDENT and not args:
                return self.link(recv, env)
            if name == "and_then" and len(args) == 1 and args[0][0] == "closure":
                return self.on_link(recv, env, args[0], "Link.none", lambda body, env2: self.link(body, env2))
            if recv == ("path", ["self"]) and name in self.fns and self.fns[name][1] == "link" and not args:
                return "(%s self_)" % self.fns[name][0]
            raise LErr("method .%s as a link" % name)
        if k == "call":
            if e[1] == ("path", ["Some"]) and len(e[2]) == 1:
                inner = e[2][0]
                if inner[0] == "call" and inner[1] == ("path", ["Arc", "new"]) and len(inner[2]) == 1:
                    el, nx, ln = self.node(inner[2][0], env)
                    return "(Link.some %s %s %s)" % (el, nx, ln)
            raise LErr("call as a link")
        if k == "struct":
            if e[1] in (["List"], ["Self"], ["Iter"]) and len(e[2]) == 1 and e[2][0][0] in ("head", "next") and e[3] is None:
                return self.link(e[2][0][1], env)
            raise LErr("struct literal %r as a link" % (e[1],))
        if k == "match":
            return self.match(e, env, lambda body, env2: self.link(body, env2))
        if k == "block":
            return self.block(e, env, lambda body, env2: self.link(body, env2))
        raise LErr("expression %s as a link" % k)

    def node(self, e, env):
        if e[0] == "struct" and e[1] == ["Node"] and e[3] is None:
            f = dict((n, v) for n, v in e[2])
            if set(f) != {"elem", "next", "len"}:
                raise LErr("Node literal fields")
            return self.val(f["elem"], env), self.link(f["next"], env), self.val(f["len"], env)
        if e[0] == "path" and len(e[1]) == 1 and env.get(e[1][0], ("",))[0] == "node":
            return env[e[1][0]][1]
        raise LErr("not a Node")

    def on_link(self, recv, env, closure, none_term, body_tr, some_wrap="%s"):
        """`recv.map(|n| body)` and friends: case analysis on the link"""
        l = self.link(recv, env)
        pats = closure[1]
        if len(pats) != 1 or pats[0][0] != "pbind":
            raise LErr("closure parameter")
        n = pats[0][1]
        env2 = dict(env)
        env2[n] = ("node", ("%s_elem" % n, "%s_next" % n, "%s_len" % n))
        body, bb = self.arm(body_tr, closure[2], env2)
        return self.finish_match(l, [("Link.none", none_term, []), ("Link.some %s_elem %s_next %s_len" % (n, n, n), some_wrap % body, bb)])

    def match(self, e, env, body_tr):
        scrut, arms = e[1], e[2]
        l = self.link(scrut, env)
        out = []
        for arm in arms:
            pat, guard, body = arm[0], arm[1], arm[2]
            if guard is not None:
                raise LErr("match guard")
            if pat[0] == "pctor" and pat[1] == ["Some"] and len(pat[2]) == 1 and pat[2][0][0] == "pbind":
                n = pat[2][0][1]
                env2 = dict(env)
                env2[n] = ("node", ("%s_elem" % n, "%s_next" % n, "%s_len" % n))
                t, bb = self.arm(body_tr, body, env2)
                out.append(("Link.some %s_elem %s_next %s_len" % (n, n, n), t, bb))
            elif (pat[0] == "pctor" and pat[1] == ["Some"] and len(pat[2]) == 1 and pat[2][0][0] == "pwild"):
                t, bb = self.arm(body_tr, body, env)
                out.append(("Link.some _ _ _", t, bb))
            elif pat[0] in ("ppath", "pctor") and pat[1] == ["None"]:
                t, bb = self.arm(body_tr, body, env)
                out.append(("Link.none", t, bb))
            elif pat[0] == "pwild":
                t, bb = self.arm(body_tr, body, env)
                out.append(("_", t, bb))
            else:
                raise LErr("pattern %r" % (pat,))
        return self.finish_match(l, out)

    def block(self, e, env, body_tr):
        stmts, tail = e[1], e[2]
        env2 = dict(env)
        for st in stmts:
            if st[0] != "let" or st[1][0] != "pbind":
                raise LErr("statement %s" % st[0])
            name, init = st[1][1], st[3]
            try:
                env2[name] = ("node", self.node(init, env2))
                continue
            except LErr:
                pass
            try:
                env2[name] = ("link", self.link(init, env2))
                continue
            except LErr:
                pass
            env2[name] = ("val", self.val(init, env2))
        if tail is None:
            raise LErr("block without a value")
        return body_tr(tail, env2)

    def val(self, e, env):
        """an expression of a plain type (T, usize, bool, Option<&T>)"""
        k = e[0]
        if k == "paren":
            return self.val(e[1], env)
        if k == "unary" and e[1] in ("&", "*"):
            return self.val(e[2], env)
        if k == "int":
            return str(e[1])
        if k == "path" and len(e[1]) == 1:
            v = e[1][0]
            if v in env and env[v][0] == "val":
                return env[v][1]
            raise LErr("variable %s" % v)
        if k == "field" and e[1][0] == "path" and len(e[1][1]) == 1 and env.get(e[1][1][0], ("",))[0] == "node":
            el, nx, ln = env[e[1][1][0]][1]
            if e[2] == "elem":
                return el
            if e[2] == "len":
                return ln
            raise LErr("field %s" % e[2])
        if k == "binary":
            op, a, b = e[1], e[2], e[3]
            if op == "+":
                x, y = self.val(a, env), self.val(b, env)
                t = self.fresh()
                self.binds.append((t, "(Rt.addUsize %s %s)" % (x, y)))
                return t
            if op in ("==", "!="):
                return "(%s %s %s)" % (self.val(a, env), op, self.val(b, env))
            raise LErr("operator %s" % op)
        if k == "mcall":
            recv, name, args = e[1], e[2], e[3]
            if recv == ("path", ["self"]) and name in self.fns and self.fns[name][1] == "val" and not args:
                return "(%s self_)" % self.fns[name][0]
            if name == "map" and len(args) == 1 and args[0][0] == "closure":
                return self.on_link(recv, env, args[0], "none", lambda body, env2: self.val(body, env2), "(some %s)")
            if name == "map_or" and len(args) == 2 and args[1][0] == "closure":
                return self.on_link(recv, env, args[1], self.val(args[0], env), lambda body, env2: self.val(body, env2))
            if name == "is_none" and not args:
                return "(match %s with\n    | Link.none => true\n    | Link.some _ _ _ => false)" % self.link(recv, env)
            if name == "is_some" and not args:
                return "(match %s with\n    | Link.none => false\n    | Link.some _ _ _ => true)" % self.link(recv, env)
            raise LErr("method .%s" % name)
        if k == "call" and e[1] == ("path", ["Some"]) and len(e[2]) == 1:
            return "(some %s)" % self.val(e[2][0], env)
        if k == "path" and e[1] == ["None"]:
            return "none"
        if k == "match":
            return self.match(e, env, lambda body, env2: self.val(body, env2))
        if k == "block":
            return self.block(e, env, lambda body, env2: self.val(body, env2))
        if k == "if" and e[3] is not None and e[1][0] != "let":
            return "(bif %s then %s else %s)" % (self.val(e[1], env), self.val(e[2], env), self.val(e[3], env))
        raise LErr("expression %s" % k)

    def iter_next(self, body):
        """`fn next(&mut self) -> Option<&T>`: `self.next.map(|node| { self.next = E; &node.elem })`, also as a match"""
        tail = body[2]
        if body[1] or tail is None:
            raise LErr("Iter::next: statements before the value")
        if tail[0] == "mcall" and tail[2] == "map" and len(tail[3]) == 1 and tail[3][0][0] == "closure":
            cl = tail[3][0]
            if len(cl[1]) != 1 or cl[1][0][0] != "pbind":
                raise LErr("closure parameter")
            n = cl[1][0][1]
            l = self.link(tail[1], {})
            arms = [(n, cl[2])]
        elif tail[0] == "match":
            l = self.link(tail[1], {})
            arms = []
            for arm in tail[2]:
                pat, guard, b = arm[0], arm[1], arm[2]
                if pat[0] == "pctor" and pat[1] == ["Some"] and len(pat[2]) == 1 and pat[2][0][0] == "pbind" and guard is None:
                    arms.append((pat[2][0][1], b))
                elif pat[0] in ("ppath", "pctor") and pat[1] == ["None"] and b == ("path", ["None"]):
                    pass
                else:
                    raise LErr("Iter::next: arm")
            if len(arms) != 1:
                raise LErr("Iter::next: arms")
        else:
            raise LErr("Iter::next: shape")
        n, b = arms[0]
        env = {n: ("node", ("%s_elem" % n, "%s_next" % n, "%s_len" % n))}
        if b[0] != "block" or len(b[1]) != 1:
            raise LErr("Iter::next: closure body")
        st = b[1][0]
        if not (st[0] == "expr" and st[1][0] == "assign" and st[1][1] == "=" and st[1][2] == ("field", ("path", ["self"]), "next")):
            raise LErr("Iter::next: assignment")
        new_self = self.link(st[1][3], env)
        v = self.val(b[2], env)
        if tail[0] == "match":
            v = v[6:-1] if v.startswith("(some ") else None
            if v is None:
                raise LErr("Iter::next: value")
        return ("(match %s with\n    | Link.none => (none, self_)\n    | Link.some %s_elem %s_next %s_len => (some %s, %s))"
                % (l, n, n, n, v, new_self))


def degeneric(src):
    src = re.sub(r"#\[cfg\(test\)\]\s*mod \w+ \{.*\Z", "", src, flags=re.S)
    s = re.sub(r"<'a,\s*T>|<T>", "", src)
    s = re.sub(r"'a\s+", "", s)
    s = re.sub(r"type Item = [^;]*;", "", s)
    return s


def old_blocks(old_text):
    out = {}
    for m in re.finditer(r"-- @begin (\S+)\n(.*?)\n-- @end \1", old_text or "", flags=re.S):
        out[m.group(1)] = m.group(0)
    return out


def translate(src, old_text=None):
    """-> (lean text, errors [str], degraded [(key, why)]); a function outside the subset keeps the text it has in
    `old_text` (the committed Gen/RsList.lean) and is reported as degraded; without such a text it is an error"""
    old = old_blocks(old_text)
    degraded = []
    try:
        items, skipped = rsparse.parse_file(degeneric(src))
    except Exception as ex:          # the file as a whole no longer parses: everything keeps its previous text
        if old_text:
            return old_text, [], [("linked_list.rs", "parse error: %s" % ex)]
        return "", ["parse error: %s" % ex], []
    errors = []
    structs = {it[1]: it[2] for it in items if it[0] == "struct"}
    want_structs = {"List": [("head", ("tpath", "Link", []))],
                    "Node": [("elem", ("tpath", "T", [])), ("next", ("tpath", "Link", [])), ("len", ("tpath", "usize", []))],
                    "Iter": [("next", ("tpath", "Option", [("tref", False, ("tpath", "Node", []))]))]}
    layout_bad = {n for n, f in want_structs.items() if structs.get(n) != f}
    # the data representation (field types, integer widths) is not a matter of rewriting a body: strict, like the
    # struct / enum items of engine.rs; the iterator's own field may change with its `next` (that degrades)
    for n in sorted(layout_bad & {"List", "Node"}):
        errors_early = "struct %s is not the layout the translation assumes: %r" % (n, structs.get(n))
        return "", [errors_early], []
    if not re.search(r"type\s+Link<T>\s*=\s*Option<Arc<Node<T>>>\s*;", src):
        layout_bad |= {"List", "Node"}
    fns = [it for it in items if it[0] == "fn"]
    # result kind of the methods callable on self
    kinds = {"new": "link", "append": "link", "head": "val", "tail": "link", "len": "val", "is_empty": "val", "clone": "link", "iter": "link"}
    table = {n: ("List_%s" % n, k) for n, k in kinds.items()}
    out = []
    seen = set()
    for it in fns:
        _, name, impl_type, self_kind, params, ret, body, _ = it
        key = "%s::%s" % (impl_type, name)
        if impl_type == "List@Drop":
            continue
        if impl_type == "Iter@Iterator" and name == "size_hint":
            continue      # a hint: by the Iterator contract no adaptor's RESULT depends on it (the harness checks it is honest)
        if impl_type and impl_type.startswith("Iter@") and not (impl_type == "Iter@Iterator" and name == "next"):
            # std's adaptors (`filter(..).count()` runs on `fold`, `nth`, `size_hint` ...) are defined by `next()` only as
            # long as no other method of the iterator is overridden; an override is outside this translation: strict
            errors.append("%s: an iterator method other than next() is overridden; the adaptors the engine uses are no longer determined by next()" % key)
            continue
        tr = Tr(table)
        try:
            if layout_bad & {"List", "Node"} or (layout_bad and (impl_type.startswith("Iter") or name == "iter")):
                raise LErr("struct layout %s is not the one the translation assumes" % sorted(layout_bad))
            if impl_type == "Iter@Iterator" and name == "next":
                if self_kind != "refmut":
                    raise LErr("Iter::next takes &mut self")
                term = tr.iter_next(body)
                out.append("-- @begin %s\ndef Iter_next {T : Type} (self_ : Link T) : Option T × Link T :=\n  %s\n-- @end %s" % (key, term, key))
                seen.add("Iter_next")
                continue
            if impl_type not in ("List", "List@Clone") or name not in kinds:
                # a new helper: the functions that call it will not translate and keep their previous text
                continue
            env = {}
            binders = ["{T : Type}"]
            if self_kind is not None:
                if self_kind == "refmut":
                    raise LErr("&mut self")
                binders.append("(self_ : Link T)")
            for pn, pt in params:
                if pt == ("tpath", "T", []):
                    binders.append("(%s : T)" % pn)
                    env[pn] = ("val", pn)
                else:
                    raise LErr("parameter %s" % pn)
            if kinds[name] == "link":
                term = tr.block(body, env, lambda b, e2: tr.link(b, e2))
                rty = "Link T"
            else:
                term = tr.block(body, env, lambda b, e2: tr.val(b, e2))
                rty = {"head": "Option T", "len": "Nat", "is_empty": "Bool"}[name]
            if tr.binds:
                for v, c in reversed(tr.binds):
                    term = "(Res.bind %s (fun %s =>\n  %s))" % (c, v, term if term.startswith("(Res.") else "(Res.ok %s)" % term)
                rty = "Res (%s)" % rty
            out.append("-- @begin %s\ndef List_%s %s : %s :=\n  %s\n-- @end %s" % (key, name, " ".join(binders), rty, term, key))
            seen.add("List_" + name)
        except LErr as ex:
            lean_name = "Iter_next" if name == "next" else "List_" + name
            if key in old:
                out.append(old[key])
                seen.add(lean_name)
                degraded.append((key, str(ex)))
            else:
                errors.append("%s: %s" % (key, ex))
    # order: len before append / is_empty
    order = ["List_new", "List_len", "List_append", "List_head", "List_tail", "List_is_empty", "List_clone", "List_iter", "Iter_next"]
    out.sort(key=lambda t: order.index(re.search(r"def (\w+)", t).group(1)) if re.search(r"def (\w+)", t).group(1) in order else 99)
    header = ("import Arimaa.Gen.Rt\n\nset_option linter.unusedVariables false\n\nnamespace Arimaa.Gen.RsList\nopen Arimaa Arimaa.Rt\n\n"
              "/-- `Link<T> = Option<Arc<Node<T>>>`, `Node { elem, next, len }` inlined; `List { head }` and `Iter { next }` are their field -/\n"
              "inductive Link (T : Type) where\n  | none : Link T\n  | some (elem : T) (next : Link T) (len : Nat) : Link T\n\n")
    # a function that vanished from the source keeps its previous text as well
    keymap = {"List_new": "List::new", "List_len": "List::len", "List_append": "List::append", "List_head": "List::head",
              "List_tail": "List::tail", "List_is_empty": "List::is_empty", "List_clone": "List@Clone::clone",
              "List_iter": "List::iter", "Iter_next": "Iter@Iterator::next"}
    for ln, key in keymap.items():
        if ln not in seen and key in old:
            out.append(old[key])
            seen.add(ln)
            degraded.append((key, "no longer in the source (or skipped by the parser)"))
    for ln, key in keymap.items():
        if ln not in seen:
            errors.append("function %s not found or not translated, and no previous text" % key)
    for what, why in skipped:
        if what != "drop":
            errors.append("item %s is outside the parser's subset (%s): its effect on the list or its iterator is unknown" % (what, why))
    out.sort(key=lambda t: order.index(re.search(r"def (\w+)", t).group(1)) if re.search(r"def (\w+)", t).group(1) in order else 99)
    return header + "\n\n".join(out) + "\n\nend Arimaa.Gen.RsList\n", errors, degraded


if __name__ == "__main__":
    import sys
    text, errs, degr = translate(open(sys.argv[1]).read(), open(sys.argv[2]).read() if len(sys.argv) > 2 else None)
    print(text)
    for e in errs:
        print("ERROR", e, file=sys.stderr)
    for k, w in degr:
        print("DEGRADED", k, w, file=sys.stderr)
