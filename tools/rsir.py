#!/usr/bin/env python3
"""Intermediate form and printer of tools/rs2lean2.py.

A computation is one of
  Pure(text)                     a Lean term that cannot panic
  MCall(text)                    a Lean term of type `Res T` (call of an impure function / runtime op)
  Panic()                        `panic!`, a failed `unwrap`, ...
  Bind(pat, rhs, body)           `let pat = rhs; body`
  If(cond_text, a, b)
  Match(scrut_text, [(pat_text, comp)])
  Loop(list_text, acc_pat, elem_pat, body)         fold: `for elem in list { acc = body }`
  FindRet(list_text, elem_pat, body)               `for elem in list { .. return r .. }`, body : Option ρ
  Lam(kind, list_text, elem_pat, body)             filter / map with a closure (kind in filter, map)
`impure(c)` says whether evaluating c can panic; the printer renders pure computations as plain
terms and impure ones in the `Res` monad with explicit `Res.bind`.
"""
import re


class Pure:
    def __init__(self, text):
        self.text = text


class MCall:
    def __init__(self, text):
        self.text = text


class Panic:
    pass


class Bind:
    def __init__(self, pat, rhs, body):
        self.pat, self.rhs, self.body = pat, rhs, body


class If:
    def __init__(self, cond, a, b):
        self.cond, self.a, self.b = cond, a, b


class Match:
    def __init__(self, scrut, arms):
        self.scrut, self.arms = scrut, arms


class Loop:
    def __init__(self, lst, acc, elem, body, init):
        self.lst, self.acc, self.elem, self.body, self.init = lst, acc, elem, body, init


class While:
    """`while cond { state = body }` : state pattern, cond (pure Bool text in terms of the state), body computation"""

    def __init__(self, st, cond, body, init):
        self.st, self.cond, self.body, self.init = st, cond, body, init


class LoopRet:
    """`for elem in list { .. return r .. ; acc = .. }` : the body yields `Sum.inl r` (returned) or `Sum.inr acc`"""

    def __init__(self, lst, acc, elem, body, init):
        self.lst, self.acc, self.elem, self.body, self.init = lst, acc, elem, body, init


class FindRet:
    def __init__(self, lst, elem, body):
        self.lst, self.elem, self.body = lst, elem, body


class Lam:
    def __init__(self, kind, lst, elem, body):
        self.kind, self.lst, self.elem, self.body = kind, lst, elem, body


def impure(c):
    if isinstance(c, Pure):
        return False
    if isinstance(c, (MCall, Panic)):
        return True
    if isinstance(c, Bind):
        return impure(c.rhs) or impure(c.body)
    if isinstance(c, If):
        return impure(c.a) or impure(c.b)
    if isinstance(c, Match):
        return any(impure(a) for _, a in c.arms)
    if isinstance(c, (Loop, FindRet, Lam, While, LoopRet)):
        return impure(c.body)
    raise TypeError(c)


def lam_pat(p):
    """binder text for `fun`"""
    return p


def pp(c, ind=2):
    """Lean term for a PURE computation"""
    sp = " " * ind
    if isinstance(c, Pure):
        return c.text
    if isinstance(c, Bind):
        return "(let %s := %s;\n%s%s)" % (c.pat, pp(c.rhs, ind + 2), sp, pp(c.body, ind))
    if isinstance(c, If):
        return "(bif %s then %s\n%selse %s)" % (c.cond, pp(c.a, ind + 2), sp, pp(c.b, ind + 2))
    if isinstance(c, Match):
        arms = "".join("\n%s| %s => %s" % (sp, p, pp(a, ind + 4)) for p, a in c.arms)
        return "(match %s with%s)" % (c.scrut, arms)
    if isinstance(c, Loop):
        return "(List.foldl (fun %s %s => %s) %s %s)" % (c.acc, c.elem, pp(c.body, ind + 2), c.init, c.lst)
    if isinstance(c, LoopRet):
        return "(Rt.forRetP %s %s (fun %s %s => %s))" % (c.lst, c.init, c.acc, c.elem, pp(c.body, ind + 2))
    if isinstance(c, While):
        return "(Rt.whileP Rt.loopFuel %s (fun %s => %s) (fun %s => %s))" % (c.init, c.st, c.cond, c.st, pp(c.body, ind + 2))
    if isinstance(c, FindRet):
        return "(List.findSome? (fun %s => %s) %s)" % (c.elem, pp(c.body, ind + 2), c.lst)
    if isinstance(c, Lam):
        if c.kind in ("any", "all"):
            return "(List.%s %s (fun %s => %s))" % (c.kind, c.lst, c.elem, pp(c.body, ind + 2))
        fn = {"filter": "List.filter", "map": "List.map"}[c.kind]
        return "(%s (fun %s => %s) %s)" % (fn, c.elem, pp(c.body, ind + 2), c.lst)
    raise TypeError("pp of impure computation %r" % c)


def pm(c, ind=2):
    """Lean term of type `Res T`"""
    sp = " " * ind
    if not impure(c):
        return "(Res.ok %s)" % pp(c, ind)
    if isinstance(c, MCall):
        return c.text
    if isinstance(c, Panic):
        return "Res.panic"
    if isinstance(c, Bind):
        if impure(c.rhs):
            return "(Res.bind %s (fun %s =>\n%s%s))" % (pm(c.rhs, ind + 2), c.pat, sp, pm(c.body, ind))
        return "(let %s := %s;\n%s%s)" % (c.pat, pp(c.rhs, ind + 2), sp, pm(c.body, ind))
    if isinstance(c, If):
        return "(bif %s then %s\n%selse %s)" % (c.cond, pm(c.a, ind + 2), sp, pm(c.b, ind + 2))
    if isinstance(c, Match):
        arms = "".join("\n%s| %s => %s" % (sp, p, pm(a, ind + 4)) for p, a in c.arms)
        return "(match %s with%s)" % (c.scrut, arms)
    if isinstance(c, Loop):
        return "(Rt.forM %s %s (fun %s %s => %s))" % (c.lst, c.init, c.acc, c.elem, pm(c.body, ind + 2))
    if isinstance(c, LoopRet):
        return "(Rt.forRetM %s %s (fun %s %s => %s))" % (c.lst, c.init, c.acc, c.elem, pm(c.body, ind + 2))
    if isinstance(c, While):
        return "(Rt.whileM Rt.loopFuel %s (fun %s => %s) (fun %s => %s))" % (c.init, c.st, c.cond, c.st, pm(c.body, ind + 2))
    if isinstance(c, FindRet):
        return "(Rt.findRet %s (fun %s => %s))" % (c.lst, c.elem, pm(c.body, ind + 2))
    if isinstance(c, Lam):
        fn = {"filter": "Rt.filterM", "map": "Rt.mapM", "any": "Rt.anyM", "all": "Rt.allM"}[c.kind]
        return "(%s %s (fun %s => %s))" % (fn, c.lst, c.elem, pm(c.body, ind + 2))
    raise TypeError(c)


def uses(c, name):
    txt = pm(c) if impure(c) else pp(c)
    return re.search(r"(?<![A-Za-z0-9_.])%s(?![A-Za-z0-9_])" % re.escape(name), txt) is not None


def simplify(c):
    """`let x := e; x` -> e  and `bind m (fun x => ok x)` -> m"""
    if isinstance(c, Bind):
        rhs, body = simplify(c.rhs), simplify(c.body)
        if isinstance(body, Pure) and body.text == c.pat and "(" not in c.pat:
            return rhs
        # `let t := rhs; let x := t; rest`  ->  `let x := rhs; rest`   (t a translator temporary not used in rest)
        if re.fullmatch(r"t\d+", c.pat) and isinstance(body, Bind) and isinstance(body.rhs, Pure) \
                and body.rhs.text == c.pat and not uses(body.body, c.pat):
            return Bind(body.pat, rhs, body.body)
        return Bind(c.pat, rhs, body)
    if isinstance(c, If):
        return If(c.cond, simplify(c.a), simplify(c.b))
    if isinstance(c, Match):
        return Match(c.scrut, [(p, simplify(a)) for p, a in c.arms])
    if isinstance(c, Loop):
        return Loop(c.lst, c.acc, c.elem, simplify(c.body), c.init)
    if isinstance(c, LoopRet):
        return LoopRet(c.lst, c.acc, c.elem, simplify(c.body), c.init)
    if isinstance(c, While):
        return While(c.st, c.cond, simplify(c.body), c.init)
    if isinstance(c, FindRet):
        return FindRet(c.lst, c.elem, simplify(c.body))
    if isinstance(c, Lam):
        return Lam(c.kind, c.lst, c.elem, simplify(c.body))
    return c
