#!/usr/bin/env python3
"""Rewrites the seeded-changes table of DESIGN.md (between the SEEDED-TABLE markers) from seeded/*/meta.json.

Per change: the outcome of the FIRST run of the checks against it (tools/mutest.py, `check_results`: what
the machinery did when it first met the change) and of the latest regression run (tools/seedcheck.py,
`recheck`: what the current machinery does)."""
import glob, json, os, re
ROOT = os.path.dirname(os.path.dirname(os.path.abspath(__file__)))
rows = []
# what happened the very first time, for the changes whose meta.json was rewritten by a later re-run
FIRST = json.load(open(os.path.join(ROOT, "seeded", "first_pass.json")))
n = first_conc = first_noinput = now_conc = now_noinput = now_missed = 0
lean_seen = lean_total = 0
for f in sorted(glob.glob(os.path.join(ROOT, "seeded", "*", "meta.json"))):
    m = json.load(open(f))
    name = os.path.basename(os.path.dirname(f))
    notes = os.path.join(os.path.dirname(f), "notes.md")
    title = ""
    if os.path.exists(notes):
        t = [l for l in open(notes, encoding="utf-8").read().splitlines() if l.startswith("#")]
        title = t[0].lstrip("# ").strip()[:100] if t else ""
    pid = m["breaks_property"]
    r = m.get("check_results", {}).get(pid)
    if r is None:
        continue
    n += 1
    lines = " ".join(r["lines"])
    if r["exit"] == 1 and "no-failing-input-found" not in lines:
        first = "input"
        first_conc += 1
    elif r["exit"] == 1:
        first = "no input"
        first_noinput += 1
    else:
        first = "MISSED"
    if name in FIRST:
        if first == "input":
            first_conc -= 1
        elif first == "no input":
            first_noinput -= 1
        first = FIRST[name]
        if first.startswith("input"):
            first_conc += 1
        elif first.startswith("no input"):
            first_noinput += 1
    rc = m.get("recheck")
    if rc:
        kind, what = rc["outcome"], rc.get("what", "")
    else:
        kind = {"input": "concrete", "no input": "no-input", "MISSED": "missed"}[first]
        what = r["detail"].split("|")[0].split(":")[-1].strip()
    if kind == "concrete":
        now_conc += 1
        how = "failing input: " + what
    elif kind == "no-input":
        now_noinput += 1
        how = "no-failing-input-found: " + what
    else:
        now_missed += 1
        how = "MISSED"
    # what the Lean layer alone says about the change (bridges / agreement theorems / generated constants that no
    # longer check), independently of whether a generator reached a failing input
    ob = (rc or {}).get("obligations_broken")
    if ob is None:
        lean = "?"
    else:
        lean_total += 1
        names = []
        for o in ob:
            o = o.split(":", 1)[-1].strip()
            o = re.sub(r"^bridge_", "bridge ", o)
            names.append(o)
        names = sorted(set(names))
        if names:
            lean_seen += 1
        lean = ", ".join(names)[:110] if names else "—"
    rows.append("| %s | %s | %s | %s | %s |" % (name, title.replace("|", "/"), first, how[:90].replace("|", "/"), lean.replace("|", "/")))
table = "| seeded | what it is | first run | current machinery (`./check %s`) | obligations of the Lean layer that no longer check |\n|---|---|---|---|---|\n" % "<id>" + "\n".join(rows)
summary = ("%d confirmed seeded changes. First run of the property's check against each: %d VIOLATION with a concrete failing input, "
           "%d VIOLATION no-failing-input-found, %d missed. Current machinery (latest `tools/seedcheck.py` run): %d with a concrete failing "
           "input, %d no-failing-input-found, %d missed." % (n, first_conc, first_noinput, n - first_conc - first_noinput, now_conc, now_noinput, now_missed))
if lean_total:
    summary += (" Independently of any failing input, %d of the %d changes re-run with the round-5 machinery break at least one obligation of the "
                "Lean layer (a bridge `@Rs.f = @RsBase.f`, an agreement theorem, a generated constant or table, the type inventory); "
                "the others change code that is not translated (string parsers and printers, `linked_list.rs`) or are written in a "
                "construct outside the translator's subset (the function keeps its baseline text: `GEN-DEGRADED`)." % (lean_seen, lean_total))
p = os.path.join(ROOT, "DESIGN.md")
s = open(p, encoding="utf-8").read()
block = "<!-- SEEDED-TABLE-BEGIN -->\n" + summary + "\n\n" + table + "\n<!-- SEEDED-TABLE-END -->"
s = re.sub(r"<!-- SEEDED-TABLE-BEGIN -->.*?<!-- SEEDED-TABLE-END -->", lambda _: block, s, flags=re.S)
open(p, "w", encoding="utf-8").write(s)
print(summary)
