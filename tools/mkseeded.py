#!/usr/bin/env python3
"""Rewrites the seeded-changes table of DESIGN.md (between the SEEDED-TABLE markers) from seeded/*/meta.json."""
import glob, json, os, re
ROOT = os.path.dirname(os.path.dirname(os.path.abspath(__file__)))
rows = []
n = det = inp = 0
for f in sorted(glob.glob(os.path.join(ROOT, "seeded", "*", "meta.json"))):
    m = json.load(open(f))
    name = os.path.basename(os.path.dirname(f))
    notes = os.path.join(os.path.dirname(f), "notes.md")
    title = ""
    if os.path.exists(notes):
        t = [l for l in open(notes, encoding="utf-8").read().splitlines() if l.startswith("#")]
        title = t[0].lstrip("# ").strip()[:110] if t else ""
    for p, r in m.get("check_results", {}).items():
        n += 1
        lines = " ".join(r["lines"])
        if r["exit"] == 1:
            det += 1
            if "no-failing-input-found" not in lines:
                inp += 1
        how = r["detail"].split("|")[0].strip() if r["exit"] == 1 else "MISSED"
        rows.append("| %s | %s | %s | %s |" % (name, title.replace("|", "/"), p, how[:80]))
table = "| seeded | what it is | check | how it is caught |\n|---|---|---|---|\n" + "\n".join(rows)
summary = "%d check runs against %d confirmed seeded changes: %d end in VIOLATION, %d of them with a concrete failing input." % (n, len(glob.glob(os.path.join(ROOT, "seeded", "*", "meta.json"))), det, inp)
p = os.path.join(ROOT, "DESIGN.md")
s = open(p, encoding="utf-8").read()
block = "<!-- SEEDED-TABLE-BEGIN -->\n" + summary + "\n\n" + table + "\n<!-- SEEDED-TABLE-END -->"
if "<!-- SEEDED-TABLE-BEGIN -->" in s:
    s = re.sub(r"<!-- SEEDED-TABLE-BEGIN -->.*?<!-- SEEDED-TABLE-END -->", lambda _: block, s, flags=re.S)
else:
    # first time: replace the hand-inserted table (from its header row up to the blank line after it)
    i = s.index("| seeded | what it is | check | how it is caught |")
    j = s.index("\n\n", i)
    s = s[:i] + block + s[j:]
open(p, "w", encoding="utf-8").write(s)
print(summary)
