#!/usr/bin/env python3
"""Mini translator: straight-line `u64` / `bool` functions of engine.rs -> Lean definitions.

Handles exactly the shape these helpers have: a sequence of `let x = expr;` followed by a final
expression; expressions built from `| & ^ ! << >> == != && ||`, parentheses, integer / bool
literals, field accesses `piece_board.<field>` / `self.<field>`, constants of bit_mask.rs, calls of
other translated helpers (`f(..)`, `self.f(..)`), the shift macros `shift_pieces_*!(..)`, and
`if c { a } else { b }` expressions.  Types (u64 vs bool) are inferred bottom-up so that `!`, `^`,
`|`, `&` map to the Boolean or the bit-vector operator.  Anything else raises TranslateError: the
caller reports a broken tie instead of guessing.
"""
import re


class TranslateError(Exception):
    pass


TOKEN = re.compile(r"\s*(?:(0b[01_]+|0x[0-9a-fA-F_]+|\d[\d_]*)|([A-Za-z_][A-Za-z0-9_]*!?)|(<<|>>|==|!=|&&|\|\||<=|>=|::|[-+*/%&|^!<>=(){}.,;:]))")

FIELDS = {"p1_pieces": "p1", "all_pieces": "all", "elephants": "elephants", "camels": "camels", "horses": "horses",
          "dogs": "dogs", "cats": "cats", "rabbits": "rabbits"}
MACROS = {"shift_pieces_up!": "shiftPiecesUp", "shift_pieces_down!": "shiftPiecesDown",
          "shift_pieces_left!": "shiftPiecesLeft", "shift_pieces_right!": "shiftPiecesRight",
          "shift_up!": "shiftUp", "shift_down!": "shiftDown", "shift_left!": "shiftLeft", "shift_right!": "shiftRight"}
CONSTS = {"TRAP_MASK", "P1_OBJECTIVE_MASK", "P2_OBJECTIVE_MASK", "P1_PLACEMENT_MASK", "P2_PLACEMENT_MASK",
          "LAST_P1_PLACEMENT_MASK", "LAST_P2_PLACEMENT_MASK", "TOP_ROW_MASK", "BOTTOM_ROW_MASK",
          "LEFT_COLUMN_MASK", "RIGHT_COLUMN_MASK"}


EXTERNS = {
    # generated separately (match on the direction): argument order differs in the Lean rendering
    "shift_pieces_in_opp_direction": (["u64", "dir"], "u64", lambda x, d: "(shiftPiecesInOppDirection %s %s)" % (d, x)),
    "shift_pieces_in_direction": (["u64", "dir"], "u64", lambda x, d: "(shiftPiecesInDirection %s %s)" % (d, x)),
    "shift_in_direction": (["u64", "dir"], "u64", lambda x, d: "(shiftInDirection %s %s)" % (d, x)),
}


def tokenize(src):
    out, i = [], 0
    src = src.strip()
    while i < len(src):
        m = TOKEN.match(src, i)
        if not m or m.end() == i:
            raise TranslateError("cannot tokenize at: " + src[i:i + 30])
        out.append(m.group(1) or m.group(2) or m.group(3))
        i = m.end()
    return out


class Parser:
    def __init__(self, toks, env, fns, self_bool_fields):
        self.t, self.i, self.env, self.fns = toks, 0, env, fns
        self.self_fields = self_bool_fields

    def peek(self):
        return self.t[self.i] if self.i < len(self.t) else None

    def eat(self, x=None):
        tok = self.peek()
        if tok is None or (x is not None and tok != x):
            raise TranslateError("expected %r, found %r" % (x, tok))
        self.i += 1
        return tok

    # precedence climbing: || < && < (== !=) < | < ^ < & < (<< >>) < unary
    LEVELS = [["||"], ["&&"], ["==", "!="], ["|"], ["^"], ["&"], ["<<", ">>"]]

    def expr(self, lvl=0):
        if lvl == len(self.LEVELS):
            return self.unary()
        lhs = self.expr(lvl + 1)
        while self.peek() in self.LEVELS[lvl]:
            op = self.eat()
            rhs = self.expr(lvl + 1)
            lhs = self.binop(op, lhs, rhs)
        return lhs

    def binop(self, op, a, b):
        (ea, ta), (eb, tb) = a, b
        if op in ("||", "&&"):
            if ta != "bool" or tb != "bool":
                raise TranslateError("logical operator on non-bool")
            return ("(%s %s %s)" % (ea, op, eb), "bool")
        if op in ("==", "!="):
            if ta == "nat" and tb == "u64":
                ea, ta = "%s#64" % ea, "u64"
            if tb == "nat" and ta == "u64":
                eb, tb = "%s#64" % eb, "u64"
            if ta != tb:
                raise TranslateError("comparison of different types")
            return ("(%s %s %s)" % (ea, op, eb), "bool")
        if op in ("<<", ">>"):
            if ta != "u64" or tb != "nat":
                raise TranslateError("shift with unexpected operand types")
            return ("(%s %s %s)" % (ea, "<<<" if op == "<<" else ">>>", eb), "u64")
        if ta == "nat" and tb == "u64":
            ea, ta = "%s#64" % ea, "u64"
        if tb == "nat" and ta == "u64":
            eb, tb = "%s#64" % eb, "u64"
        if ta != tb:
            raise TranslateError("operator %s on %s and %s" % (op, ta, tb))
        if ta == "bool":
            lean = {"|": "||", "&": "&&", "^": "^^"}[op]
        else:
            lean = {"|": "|||", "&": "&&&", "^": "^^^"}[op]
        return ("(%s %s %s)" % (ea, lean, eb), ta)

    def unary(self):
        tok = self.peek()
        if tok == "!":
            self.eat()
            e, t = self.unary()
            if t == "bool":
                return ("(!%s)" % e, "bool")
            if t == "u64":
                return ("(~~~%s)" % e, "u64")
            raise TranslateError("! on " + t)
        if tok in ("*", "&"):
            self.eat()
            return self.unary()
        return self.postfix()

    def args(self):
        self.eat("(")
        out = []
        while self.peek() != ")":
            out.append(self.expr())
            if self.peek() == ",":
                self.eat()
        self.eat(")")
        return out

    def call(self, name, args):
        if name not in self.fns:
            raise TranslateError("call of untranslated function " + name)
        params, ret = self.fns[name]
        if len(args) != len(params):
            raise TranslateError("arity of " + name)
        out = []
        for (e, t), pt in zip(args, params):
            if t == "nat" and pt == "u64":
                e, t = "%s#64" % e, "u64"
            if t != pt:
                raise TranslateError("argument type of %s: %s vs %s" % (name, t, pt))
            out.append(e)
        return ("(%s %s)" % (name, " ".join(out)) if out else name, ret)

    def postfix(self):
        tok = self.eat()
        if tok == "(":
            e = self.expr()
            self.eat(")")
            return e
        if tok == "if":
            c, tc = self.expr()
            if tc != "bool":
                raise TranslateError("if condition is not bool")
            a = self.block()
            self.eat("else")
            b = self.block()
            if a[1] == "nat" and b[1] == "u64":
                a = ("%s#64" % a[0], "u64")
            if b[1] == "nat" and a[1] == "u64":
                b = ("%s#64" % b[0], "u64")
            if a[1] != b[1]:
                raise TranslateError("if branches of different types")
            return ("(if %s then %s else %s)" % (c, a[0], b[0]), a[1])
        if re.fullmatch(r"0b[01_]+|0x[0-9a-fA-F_]+|\d[\d_]*", tok):
            t = tok.replace("_", "")
            v = int(t[2:], 2) if t.startswith("0b") else int(t[2:], 16) if t.startswith("0x") else int(t)
            return (str(v), "nat")
        if tok in ("true", "false"):
            return (tok, "bool")
        if tok in MACROS or (tok + "!" in MACROS and self.peek() == "("):
            tok = tok if tok in MACROS else tok + "!"
            a = self.args()
            if len(a) != 1 or a[0][1] != "u64":
                raise TranslateError("macro argument")
            return ("(%s %s)" % (MACROS[tok], a[0][0]), "u64")
        if tok == "self":
            self.eat(".")
            name = self.eat()
            if self.peek() == "(":
                a = self.args()
                fn = self.fns.get(name)
                if fn is None:
                    raise TranslateError("call of untranslated method " + name)
                # methods take the side to move first when they use it
                if fn[0][:1] == ["bool*"]:
                    return self.call_self(name, a)
                return self.call(name, a)
            if name in self.self_fields:
                return (name, "bool")
            raise TranslateError("self." + name)
        if tok in ("Direction", "Terminal") and self.peek() == "::":
            self.eat("::")
            v = self.eat()
            if tok == "Direction":
                m = {"Up": "Dir.up", "Right": "Dir.right", "Down": "Dir.down", "Left": "Dir.left"}
                if v not in m:
                    raise TranslateError("Direction::" + v)
                return (m[v], "dir")
            m = {"GoldWin": "Terminal.goldWin", "SilverWin": "Terminal.silverWin"}
            if v not in m:
                raise TranslateError("Terminal::" + v)
            return (m[v], "term")
        if tok == "Some":
            a = self.args()
            if len(a) != 1 or a[0][1] != "term":
                raise TranslateError("Some(..) of unsupported type")
            return ("(some %s)" % a[0][0], "oterm")
        if tok == "None":
            return ("none", "oterm")
        if tok in EXTERNS and self.peek() == "(":
            ptypes, ret, emit = EXTERNS[tok]
            a = self.args()
            if [t for _, t in a] != ptypes:
                raise TranslateError("argument types of %s: %s" % (tok, [t for _, t in a]))
            return (emit(*[e for e, _ in a]), ret)
        if tok in CONSTS:
            return (tok, "u64")
        if tok == "BOARD_WIDTH":
            return ("BOARD_WIDTH", "nat")
        if tok in self.env:
            t = self.env[tok]
            # field access / method call on a board or word
            while self.peek() == ".":
                self.eat(".")
                f = self.eat()
                if t == "board" and f in FIELDS:
                    tok, t = "%s.%s" % (tok, FIELDS[f]), "u64"
                elif t == "board" and f == "trapped_piece_bits":
                    self.args()
                    tok, t = "(trapped_piece_bits %s)" % tok, "u64"
                else:
                    raise TranslateError("unsupported member .%s on %s" % (f, t))
            return (tok, t)
        if self.peek() == "(":
            return self.call(tok, self.args())
        raise TranslateError("unknown identifier " + tok)

    def call_self(self, name, args):
        params, ret = self.fns[name]
        real = params[1:]
        out = ["p1_turn_to_move"]
        if len(args) != len(real):
            raise TranslateError("arity of method " + name)
        for (e, t), pt in zip(args, real):
            if t == "nat" and pt == "u64":
                e, t = "%s#64" % e, "u64"
            if t != pt:
                raise TranslateError("argument type of %s" % name)
            out.append(e)
        return ("(%s %s)" % (name, " ".join(out)), ret)

    def block(self):
        self.eat("{")
        lets = []
        while self.peek() == "let":
            self.eat("let")
            if self.peek() == "mut":
                raise TranslateError("mutable binding")
            name = self.eat()
            self.eat("=")
            e, t = self.expr()
            self.eat(";")
            if t == "nat":
                e, t = "%s#64" % e, "u64"
            self.env = dict(self.env)
            self.env[name] = t
            lets.append((name, e))
        e, t = self.expr()
        self.eat("}")
        for name, le in reversed(lets):
            e = "(let %s := %s; %s)" % (name, le, e)
        return (e, t)


def fn_source(src, name):
    m = re.search(r"\bfn\s+%s\s*\(([^)]*)\)\s*(?:->\s*([\w&<>:, ]+?))?\s*\{" % name, src)
    if not m:
        raise TranslateError("fn %s not found" % name)
    i = m.end() - 1
    depth = 0
    for j in range(i, len(src)):
        if src[j] == "{":
            depth += 1
        elif src[j] == "}":
            depth -= 1
            if depth == 0:
                return m.group(1), (m.group(2) or "").strip(), src[i:j + 1]
    raise TranslateError("unbalanced braces in fn " + name)


def sig_from_lean(text):
    """(sig, ret) of a previously generated `def name (a : T) ... : R :=` (used when a helper can no longer be translated)"""
    inv = {"BitVec 64": "u64", "Bool": "bool", "Board": "board", "Nat": "nat", "Dir": "dir",
           "Option Terminal": "oterm", "Terminal": "term"}
    first = text.split(":=", 1)[0]
    binders = re.findall(r"\((\w+) : ([^)]+)\)", first)
    ret = first.rsplit(")", 1)[-1] if binders else first.split(" ", 2)[-1]
    ret = ret.strip().lstrip(":").strip()
    sig = []
    for n, t in binders:
        if n == "p1_turn_to_move" and not sig:
            sig.append("bool*")
        else:
            sig.append(inv[t.strip()])
    return sig, inv[ret]


def translate(src, order, old=None, degraded=None):
    """src: engine.rs without comments; order: list of function names, callees first.
    old: name -> previously generated def text, used (and reported in `degraded`) for a helper
    that is gone or no longer has a shape this translator handles.
    returns list of (name, lean_def_text)"""
    fns = {}
    out = []
    for full in order:
        short = full.split("::")[-1]
        try:
            translate_one(src, full, fns, out)
        except (TranslateError, KeyError, IndexError, ValueError) as e:
            if old is None or short not in old:
                if isinstance(e, TranslateError):
                    raise
                raise TranslateError("%s: %r" % (short, e))
            fns[short] = sig_from_lean(old[short])
            out.append((short, old[short]))
            degraded.append((short, str(e)))
    return out


def translate_one(src, name, fns, out):
    tmap = {"u64": "u64", "bool": "bool", "&PieceBoardState": "board", "& PieceBoardState": "board",
            "&Direction": "dir", "Option<Terminal>": "oterm"}
    lean_ty = {"u64": "BitVec 64", "bool": "Bool", "board": "Board", "nat": "Nat", "dir": "Dir",
               "oterm": "Option Terminal", "term": "Terminal"}
    board_self = name.startswith("PieceBoardState::")
    name = name.split("::")[-1]
    params_src, ret_src, body = fn_source(src, name)
    params = []
    env = {}
    uses_self = False
    if board_self:
        body = re.sub(r"\bself\b", "piece_board_self", body)
    for p in [x.strip() for x in params_src.split(",") if x.strip()]:
        if p in ("&self", "& self", "self"):
            if board_self:
                params.append(("piece_board_self", "board"))
                env["piece_board_self"] = "board"
            else:
                uses_self = True
            continue
        pn, pt = [x.strip() for x in p.split(":", 1)]
        pt = pt.replace("& ", "&")
        if pt not in tmap:
            raise TranslateError("parameter type %s of %s" % (pt, name))
        params.append((pn, tmap[pt]))
        env[pn] = tmap[pt]
    ret = tmap.get(ret_src.replace("& ", "&"))
    if ret is None:
        raise TranslateError("return type %s of %s" % (ret_src, name))
    sig = (["bool*"] if uses_self else []) + [t for _, t in params]
    fns[name] = (sig, ret)
    body = re.sub(r"#\[[^\]]*\]", "", body)
    toks = tokenize(body)
    ps = Parser(toks, env, fns, {"p1_turn_to_move"} if uses_self else set())
    e, t = ps.block()
    if ps.peek() is not None:
        raise TranslateError("trailing tokens in " + name)
    if t == "nat" and ret == "u64":
        e, t = "%s#64" % e, "u64"
    if t != ret:
        raise TranslateError("body type of %s is %s, declared %s" % (name, t, ret))
    binders = (["(p1_turn_to_move : Bool)"] if uses_self else []) + ["(%s : %s)" % (pn, lean_ty[pt]) for pn, pt in params]
    out.append((name, "def %s %s : %s :=\n  %s" % (name, " ".join(binders), lean_ty[ret], e)))
