#!/usr/bin/env python3
"""Runs every quick check against a behaviour-preserving refactoring of /repo (precision test).
usage: reftest.py <diff file> [props...]   -> prints which checks raise an alarm; restores /repo."""
import json, os, re, subprocess, sys

FULL = "--full" in sys.argv
if FULL:
    sys.argv.remove("--full")


def sh(cmd, cwd=None):
    # without --full the widened campaign that follows a degraded tie / broken obligation is skipped (time)
    env = dict(os.environ) if FULL else dict(os.environ, VERIF_NOEXT="1")
    p = subprocess.run(cmd, cwd=cwd, stdout=subprocess.PIPE, stderr=subprocess.STDOUT, text=True, env=env)
    return p.returncode, p.stdout

def main():
    patch = sys.argv[1]
    props = sys.argv[2:] or ["C%02d" % i for i in range(1, 21)]
    rc, out = sh(["git", "-C", "/repo", "status", "--porcelain"])
    if out.strip():
        print("/repo not clean"); return 2
    rc, out = sh(["git", "-C", "/repo", "apply", patch])
    if rc != 0:
        print("does not apply:", out); return 2
    res = {}
    try:
        for p in props:
            rc, out = sh(["/verif/check", p], cwd="/verif")
            viol = [l for l in out.splitlines() if l.startswith("VIOLATION")]
            degr = [l for l in out.splitlines() if l.startswith("TIE-DEGRADED")]
            detail = ""
            if viol:
                m = re.search(r"replay=(\S+)", viol[0])
                if m and os.path.exists(m.group(1)):
                    r = json.load(open(m.group(1)))
                    detail = json.dumps(r.get("no_longer_checks") or r.get("what"))[:400]
                    os.remove(m.group(1))
                    g = m.group(1)[:-5] + ".game"
                    if os.path.exists(g):
                        os.remove(g)
            res[p] = (rc, viol[0][:120] if viol else "", detail)
            print(p, "exit", rc, viol[0][:100] if viol else "", detail[:300], ("degraded: %d items" % len(degr)) if degr else "", flush=True)
    finally:
        sh(["git", "-C", "/repo", "checkout", "--", "."])
        sh(["git", "-C", "/repo", "clean", "-fdq", "src", "tests"])
        sh([sys.executable, "/verif/tools/gen.py"])
    alarms = [p for p, r in res.items() if r[0] != 0]
    print("ALARMS:", alarms)
    return 0

if __name__ == "__main__":
    sys.exit(main())
