#!/usr/bin/env python3
"""Rebuilds /verif/MANIFEST.json from tools/levels.json (one place to record what is claimed)."""
import json, os
ROOT = os.path.dirname(os.path.dirname(os.path.abspath(__file__)))
lv = json.load(open(os.path.join(ROOT, "tools", "levels.json")))
checks = []
for i in range(1, 21):
    p = "C%02d" % i
    e = lv[p]
    checks.append({
        "property_id": p,
        "quick_cmd": "./check %s --tier quick" % p,
        "thorough_cmd": "./check %s --tier thorough" % p,
        "evidence_file": "/verif/evidence/%s.json" % p,
        "replay_cmd_template": "./check replay {path}",
        "engine": "lean-proof+correspondence",
        "level_claimed": {"category": e["level"], "text": e["claim"], "design_ref": "DESIGN.md section 7, %s" % p},
        "level_note": e["note"],
        "technique": e["technique"],
    })
m = {
    "version": 1,
    "setup_cmd": "./check setup",
    "hooks": {
        "guard": "arimaa_engine_step_verif",
        "enable": "no hooks are needed: everything observed is reachable through the crate's public API; the harness builds /repo as a path dependency with overflow-checks = true",
        "baseline_off_cmd": "cd /repo && cargo test --workspace --no-fail-fast --offline",
        "source_commits": [],
        "add_only": True,
    },
    "engines": [
        {"name": "lean-proof+correspondence", "path": "/verif/check", "serves_properties": ["C%02d" % i for i in range(1, 21)],
         "kind_free_text": "Lean 4 model + theorems (lean/), translator (tools/gen.py), Rust correspondence harness with direct oracles (harness/)"}
    ],
    "checks": checks,
    "notes": "fix: commits in /repo: ec0f4ed 8438b70 91419c0 0e40388 9040ff3 (see known_findings.json). Open findings F4 (C03/C19) and F8 (C06/C11) are printed as KNOWN-FINDING. Other informational lines a check may print with exit 0: TIE-DEGRADED (a generated model item kept its previous text because its source pattern was not recognised; the widened campaign agreed) and SOURCE-CHANGED (function texts differ from tools/source_baseline.json; the widened campaign was run and agreed). See DESIGN.md II.2, II.8.",
    "not_applicable": [],
}
json.dump(m, open(os.path.join(ROOT, "MANIFEST.json"), "w"), indent=1)
print("MANIFEST.json written:", {c["property_id"]: c["level_claimed"]["category"] for c in checks})
