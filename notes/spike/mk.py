names='EMHDCRemhdcr'
P=[(0, 40), (2, 43), (3, 51), (4, 56), (1, 47), (2, 60), (3, 53), (4, 54), (6, 16), (8, 19), (9, 1), (10, 11), (7, 14), (8, 4), (9, 15), (10, 22)]
Q=[(0, 51), (2, 56), (3, 58), (4, 59), (1, 46), (2, 55), (3, 47), (4, 63), (6, 0), (8, 11), (9, 16), (10, 2), (7, 22), (8, 23), (9, 4), (10, 7)]
def diag(A,hdr):
    g=[' ']*64
    for i in (18,21,42,45): g[i]='x'
    for p,s in A: g[s]=names[p]
    g[32]='R'; g[31]='r'   # a4 gold rabbit, h5 silver rabbit
    out=hdr+"\n +-----------------+\n"
    for r in range(8):
        out+=f"{8-r}| "+" ".join(g[r*8:(r+1)*8])+" |\n"
    out+=" +-----------------+\n   a b c d e f g h\n"
    return out
open('P.txt','w').write(diag(P,'2g')); open('Q.txt','w').write(diag(Q,'2g'))
print(diag(P,'2g')); print(diag(Q,'2g'))
