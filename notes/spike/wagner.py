import re, itertools, numpy as np, time
src=open('/repo/src/zobrist_values.rs').read()
vals=[int(x,2) for x in re.findall(r'0b([01]+)',src)]
SQ=np.array(vals[6:6+768],dtype=np.uint64).reshape(12,64)
# piece idx: E0 M1 H2 D3 C4 R5 ; +6 silver
def sq(file,rank): return (8-rank)*8+file   # file 0..7, rank 1..8
regions=[]
# gold west: files a-d ranks1-3 minus c3 ; pieces E,H,D,C (gold)
gw=[sq(f,r) for r in (1,2,3) for f in range(0,4) if not (f==2 and r==3)]
ge=[sq(f,r) for r in (1,2,3) for f in range(4,8) if not (f==5 and r==3)]
sw=[sq(f,r) for r in (6,7,8) for f in range(0,4) if not (f==2 and r==6)]
se=[sq(f,r) for r in (6,7,8) for f in range(4,8) if not (f==5 and r==6)]
regs=[(gw,[0,2,3,4]),(ge,[1,2,3,4]),(sw,[6,8,9,10]),(se,[7,8,9,10])]
rng=np.random.default_rng(7)
lists=[]
for squares,pieces in regs:
    cfgs=list(itertools.permutations(squares,4))
    h=np.zeros(len(cfgs),dtype=np.uint64)
    arr=np.array(cfgs)
    for k,p in enumerate(pieces): h^=SQ[p][arr[:,k]]
    n=len(cfgs)
    N=1<<24
    i=rng.integers(0,n,N); j=rng.integers(0,n,N)
    keep=i!=j; i=i[keep]; j=j[keep]
    lists.append((h[i]^h[j], i.astype(np.int32), j.astype(np.int32), arr))
    print('region',n,len(i))
B=24; mask=np.uint64((1<<B)-1)
def join(LA,LB):
    va,vb=LA,LB
    oa=np.argsort(va&mask,kind='stable'); ob=np.argsort(vb&mask,kind='stable')
    ka=(va&mask)[oa]; kb=(vb&mask)[ob]
    # for each a, find range in kb
    lo=np.searchsorted(kb,ka,'left'); hi=np.searchsorted(kb,ka,'right')
    cnt=hi-lo
    ia=np.repeat(np.arange(len(ka)),cnt)
    # offsets
    start=np.repeat(lo,cnt); within=np.arange(cnt.sum())-np.repeat(np.cumsum(cnt)-cnt,cnt)
    ib=start+within
    return oa[ia], ob[ib]
t=time.time()
a,b=join(lists[0][0],lists[1][0]); v12=lists[0][0][a]^lists[1][0][b]; print('L12',len(a),time.time()-t)
c,d=join(lists[2][0],lists[3][0]); v34=lists[2][0][c]^lists[3][0][d]; print('L34',len(c),time.time()-t)
# final join on full equality
o12=np.argsort(v12); s12=v12[o12]
lo=np.searchsorted(s12,v34,'left'); hi=np.searchsorted(s12,v34,'right')
hits=np.nonzero(hi>lo)[0]; print('solutions',len(hits))
names='EMHDCRemhdcr'
def board(assign):
    g=[' ']*64
    for (p,s) in assign: g[s]=names[p]
    return g
for hidx in hits[:3]:
    k12=o12[lo[hidx]]
    idx=[(0,a[k12]),(1,b[k12]),(2,c[hidx]),(3,d[hidx])]
    P=[];Q=[]
    tot=np.uint64(0)
    for r,e in idx:
        v,i,j,arr=lists[r]; tot^=v[e]
        for k,p in enumerate(regs[r][1]): P.append((p,int(arr[i[e]][k]))); Q.append((p,int(arr[j[e]][k])))
    print('xor',tot)
    print('P',P); print('Q',Q)
