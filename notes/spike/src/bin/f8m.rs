use arimaa_engine_step::*;
fn main(){
  let p = std::fs::read_to_string("/tmp/spike/P.txt").unwrap();
  // mirror diagram: reverse the 8 cells of each row
  let m: String = p.lines().map(|l| { if l.len()>2 && l.as_bytes()[1]==b'|' { let cells: Vec<char> = l[2..l.len()-2].chars().collect(); let cs: Vec<char> = (0..8).map(|k| cells[1+2*(7-k)]).collect(); format!("{}| {} |", &l[..1], cs.iter().map(|c| c.to_string()).collect::<Vec<_>>().join(" ")) } else { l.to_string() } }).collect::<Vec<_>>().join("\n");
  let script = "a3s p a6n p a2n p a7s p a3s d2w d3s a1e a6n a7n b8s b7s b1e c1e c2s d2w b6w d7n d6n d8w c2w b2s a2e b2e e8s e7e h7n h8w c2e b1w h3w e1n g8w f8w g6e p g2s f2e e2e g2e g7s f7e h6n p f2e h2n g2e g1e h7n g7e h7s p";
  let mut gs: GameState = m.parse().unwrap();
  let acts: Vec<String> = script.split(' ').map(|a| if a=="p" {a.to_string()} else { let b=a.as_bytes(); let f=(b'a'+b'h'-b[0]) as char; let d=match b[2]{b'e'=>'w',b'w'=>'e',c=>c as char}; format!("{}{}{}",f,b[1] as char,d)}).collect();
  for (k,a) in acts.iter().enumerate(){ let act: Action=a.parse().unwrap(); let off=gs.valid_actions().contains(&act); if k+1==acts.len(){ println!("mirrored last action {} offered={}", a, off);} else { assert!(off); gs=gs.take_action(&act);} }
}
