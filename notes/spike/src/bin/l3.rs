// Independent declarative (labelled-turn) oracle vs engine step sequences.
use arimaa_engine_step::*;
use std::collections::BTreeSet;
type Cell = Option<(bool, u8)>; // (gold, strength 0..5 rabbit..elephant)
type B = [Cell; 64];
const DIRS: [(i32, i32, char); 4] = [(0, -1, 'n'), (1, 0, 'e'), (0, 1, 's'), (-1, 0, 'w')]; // (dfile, drow)
fn nb(i: usize, d: usize) -> Option<usize> {
    let (f, r) = ((i % 8) as i32, (i / 8) as i32);
    let (nf, nr) = (f + DIRS[d].0, r + DIRS[d].1);
    if (0..8).contains(&nf) && (0..8).contains(&nr) { Some((nr * 8 + nf) as usize) } else { None }
}
fn is_trap(i: usize) -> bool { matches!(i, 18 | 21 | 42 | 45) }
fn has_friend(b: &B, i: usize, gold: bool) -> bool { (0..4).any(|d| nb(i, d).map_or(false, |j| matches!(b[j], Some((g, _)) if g == gold))) }
fn frozen(b: &B, i: usize) -> bool {
    let (g, s) = b[i].unwrap();
    !has_friend(b, i, g) && (0..4).any(|d| nb(i, d).map_or(false, |j| matches!(b[j], Some((g2, s2)) if g2 != g && s2 > s)))
}
fn apply(b: &B, i: usize, d: usize) -> B {
    let mut n = *b; let j = nb(i, d).unwrap(); n[j] = n[i]; n[i] = None;
    let snap = n;
    for t in [18, 21, 42, 45] { if let Some((g, _)) = snap[t] { if !has_friend(&snap, t, g) { n[t] = None; } } }
    n
}
fn name(i: usize, d: usize) -> String { format!("{}{}{}", (b'a' + (i % 8) as u8) as char, 8 - i / 8, DIRS[d].2) }
// enumerate all legal turns (as step-name sequences); collect prefixes and complete turns
fn turns(b: &B, gold: bool, used: usize, seq: &mut Vec<String>, prefixes: &mut BTreeSet<Vec<String>>, complete: &mut BTreeSet<Vec<String>>) {
    if used > 0 { complete.insert(seq.clone()); for k in 1..=seq.len() { prefixes.insert(seq[..k].to_vec()); } }
    if used >= 4 { return; }
    for i in 0..64 {
        match b[i] {
            Some((g, s)) if g == gold => {
                if frozen(b, i) { continue; }
                for d in 0..4 {
                    let Some(j) = nb(i, d) else { continue };
                    if b[j].is_some() { continue; }
                    if s == 0 && ((gold && d == 2) || (!gold && d == 0)) { continue; }
                    // single
                    let b1 = apply(b, i, d);
                    seq.push(name(i, d));
                    turns(&b1, gold, used + 1, seq, prefixes, complete);
                    // pull pair
                    if used <= 2 {
                        for d2 in 0..4 {
                            // enemy at e adjacent to i, weaker, moves into i: e = nb(i, opposite of d2) i.e. e + d2 = i
                            let Some(e) = nb(i, (d2 + 2) % 4) else { continue };
                            if let Some((g2, s2)) = b[e] { if g2 != gold && s2 < s && b1[e].is_some() && b1[i].is_none() {
                                let b2 = apply(&b1, e, d2);
                                seq.push(name(e, d2));
                                turns(&b2, gold, used + 2, seq, prefixes, complete);
                                seq.pop();
                            } }
                        }
                    }
                    seq.pop();
                }
            }
            Some((g, s)) if g != gold => {
                // push pair: enemy at i, pusher X adjacent unfrozen stronger
                if used > 2 { continue; }
                for dx in 0..4 {
                    let Some(x) = nb(i, dx) else { continue };
                    let Some((gx, sx)) = b[x] else { continue };
                    if gx != gold || sx <= s || frozen(b, x) { continue; }
                    for d in 0..4 {
                        let Some(j) = nb(i, d) else { continue };
                        if b[j].is_some() { continue; }
                        let b1 = apply(b, i, d);
                        if b1[x].is_none() || b1[i].is_some() { continue; }
                        let dback = (dx + 2) % 4; // x + dback = i
                        seq.push(name(i, d));
                        // prefix of length used+1 is a valid prefix
                        for k in 1..=seq.len() { prefixes.insert(seq[..k].to_vec()); }
                        let b2 = apply(&b1, x, dback);
                        seq.push(name(x, dback));
                        turns(&b2, gold, used + 2, seq, prefixes, complete);
                        seq.pop(); seq.pop();
                    }
                }
            }
            _ => {}
        }
    }
}
fn engine_seqs(gs: &GameState, gold: bool, seq: &mut Vec<String>, acc: &mut BTreeSet<Vec<String>>, passable: &mut BTreeSet<Vec<String>>, dups: &mut usize) {
    let va = gs.valid_actions_no_rep();
    let mut s2 = va.clone(); s2.sort(); s2.dedup(); if s2.len() != va.len() { *dups += 1; }
    for a in va {
        match a {
            Action::Pass => { passable.insert(seq.clone()); }
            Action::Move(_, _) => {
                seq.push(a.to_string()); acc.insert(seq.clone());
                let n = gs.take_action(&a);
                if n.is_p1_turn_to_move() == gold && seq.len() < 4 { engine_seqs(&n, gold, seq, acc, passable, dups); }
                else { passable.insert(seq.clone()); } // 4th step ends the turn
                seq.pop();
            }
            _ => unreachable!(),
        }
    }
}
fn diagram(b: &B, gold: bool) -> String {
    let l = ["r", "c", "d", "h", "m", "e"];
    let mut s = format!("2{}\n +-----------------+\n", if gold { 'g' } else { 's' });
    for r in 0..8 { s += &format!("{}|", 8 - r); for f in 0..8 { let i = r * 8 + f; s += " "; s += &match b[i] { Some((g, st)) => if g { l[st as usize].to_uppercase() } else { l[st as usize].to_string() }, None => if is_trap(i) { "x".into() } else { " ".into() } }; } s += " |\n"; }
    s + " +-----------------+\n   a b c d e f g h\n"
}
fn main() {
    let n: usize = std::env::args().nth(1).unwrap().parse().unwrap();
    let mut seed: u64 = std::env::args().nth(2).unwrap().parse().unwrap();
    let mut rnd = move |m: u64| { seed = seed.wrapping_mul(6364136223846793005).wrapping_add(1442695040888963407); (seed >> 33) % m };
    let (mut bad, mut total_seqs) = (0, 0usize);
    for it in 0..n {
        let mut b: B = [None; 64];
        let np = 3 + rnd(8) as usize;
        // cluster pieces in a window to force interaction
        let (wf, wr, w) = (rnd(5) as usize, rnd(5) as usize, 3 + rnd(2) as usize);
        for _ in 0..np { let i = (wr + rnd(w as u64) as usize).min(7) * 8 + (wf + rnd(w as u64) as usize).min(7); if b[i].is_none() { b[i] = Some((rnd(2) == 0, rnd(6) as u8)); } }
        // legal: no hanging trap piece
        let snap = b; for t in [18, 21, 42, 45] { if let Some((g, _)) = snap[t] { if !has_friend(&snap, t, g) { b[t] = None; } } }
        let gold = rnd(2) == 0;
        let gs: GameState = diagram(&b, gold).parse().unwrap();
        let (mut pre, mut comp) = (BTreeSet::new(), BTreeSet::new());
        turns(&b, gold, 0, &mut vec![], &mut pre, &mut comp);
        let (mut acc, mut passable, mut dups) = (BTreeSet::new(), BTreeSet::new(), 0);
        engine_seqs(&gs, gold, &mut vec![], &mut acc, &mut passable, &mut dups);
        total_seqs += acc.len();
        // engine "turn can end here" (pass offered or 4th step) vs spec complete turns
        let eng_complete: BTreeSet<_> = passable.into_iter().filter(|s| !s.is_empty()).collect();
        if pre != acc || comp != eng_complete || dups > 0 {
            bad += 1;
            if bad <= 3 {
                println!("MISMATCH it={} dups={}\n{}", it, dups, diagram(&b, gold));
                println!("spec-only prefixes: {:?}", pre.difference(&acc).take(5).collect::<Vec<_>>());
                println!("engine-only seqs:   {:?}", acc.difference(&pre).take(5).collect::<Vec<_>>());
                println!("spec-only complete: {:?}", comp.difference(&eng_complete).take(5).collect::<Vec<_>>());
                println!("engine-only complete: {:?}", eng_complete.difference(&comp).take(5).collect::<Vec<_>>());
            }
        }
    }
    println!("positions {} mismatches {} total engine sequences {}", n, bad, total_seqs);
}
