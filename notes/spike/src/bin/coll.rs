use arimaa_engine_step::*;
fn main(){
  let p: GameState = std::fs::read_to_string("/tmp/spike/P.txt").unwrap().parse().unwrap();
  let q: GameState = std::fs::read_to_string("/tmp/spike/Q.txt").unwrap().parse().unwrap();
  println!("hashP={:016x} hashQ={:016x} eq_states={} terminalP={:?} terminalQ={:?}", p.transposition_hash(), q.transposition_hash(), p==q, p.is_terminal(), q.is_terminal());
  println!("{}", p.to_string()==q.to_string());
}
