use arimaa_engine_step::*;
use std::str::FromStr;
fn main(){
  let d = "18446744073709551615s\n +-----------------+\n8| r               |\n7|                 |\n6|     x     x     |\n5|   e             |\n4|         D   E   |\n3|     x     x     |\n2|                 |\n1| R               |\n +-----------------+\n   a b c d e f g h\n";
  let gs = GameState::from_str(d).unwrap();
  println!("move {}", gs.move_number());
  let gs = gs.take_action(&"b5n".parse().unwrap());
  let r = std::panic::catch_unwind(|| gs.take_action(&Action::Pass).move_number());
  println!("{:?}", r);
  // multi-capture from illegal parsed position
  let d2 = "2g\n +-----------------+\n8| r               |\n7|                 |\n6|     c     c     |\n5|                 |\n4|         D   E   |\n3|     x     x     |\n2|                 |\n1| R               |\n +-----------------+\n   a b c d e f g h\n";
  let g2 = GameState::from_str(d2).unwrap();
  let a: Action = "e4n".parse().unwrap();
  println!("preview {:?}", g2.trapped_animal_for_action(&a));
  println!("{}", g2.take_action(&a));
  // setup-phase queries
  let g0 = GameState::initial();
  println!("{:?}", std::panic::catch_unwind(|| g0.piece_board_for_step(0).all_pieces));
  println!("{:?} {:?} {:?}", g0.is_terminal(), g0.can_pass(true), g0.has_move(g0.piece_board()));
}
