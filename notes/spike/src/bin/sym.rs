use arimaa_engine_step::*;
use std::str::FromStr;
type Cell = Option<(bool, u8)>; type B = [Cell; 64];
const D: [(i32, i32); 4] = [(0, -1), (1, 0), (0, 1), (-1, 0)];
fn nb(i: usize, d: usize) -> Option<usize> { let (f, r) = ((i % 8) as i32 + D[d].0, (i / 8) as i32 + D[d].1); if (0..8).contains(&f) && (0..8).contains(&r) { Some((r * 8 + f) as usize) } else { None } }
fn friend(b: &B, i: usize, g: bool) -> bool { (0..4).any(|d| nb(i, d).map_or(false, |j| matches!(b[j], Some((g2, _)) if g2 == g))) }
fn diagram(b: &B, gold: bool, mv: u64) -> String { let l = ["r", "c", "d", "h", "m", "e"]; let mut s = format!("{}{}\n +-----------------+\n", mv, if gold { 'g' } else { 's' });
    for r in 0..8 { s += &format!("{}|", 8 - r); for f in 0..8 { let i = r * 8 + f; s += " "; s += &match b[i] { Some((g, t)) => if g { l[t as usize].to_uppercase() } else { l[t as usize].to_string() }, None => if matches!(i, 18 | 21 | 42 | 45) { "x".into() } else { " ".into() } }; } s += " |\n"; } s + " +-----------------+\n   a b c d e f g h\n" }
fn tr_sq(i: usize, sym: usize) -> usize { let (mut f, mut r) = (i % 8, i / 8); if sym & 1 != 0 { f = 7 - f; } if sym & 2 != 0 { r = 7 - r; } r * 8 + f }
fn tr_dir(d: Direction, sym: usize) -> Direction { let mut d = d; if sym & 1 != 0 { d = match d { Direction::Left => Direction::Right, Direction::Right => Direction::Left, x => x }; } if sym & 2 != 0 { d = match d { Direction::Up => Direction::Down, Direction::Down => Direction::Up, x => x }; } d }
fn tr_act(a: &Action, sym: usize) -> Action { match a { Action::Move(s, d) => Action::Move(Square::from_index(tr_sq(s.index(), sym) as u8), tr_dir(*d, sym)), x => *x } }
fn tr_term(t: Option<Terminal>, sym: usize) -> Option<Terminal> { if sym & 2 == 0 { t } else { t.map(|x| if x == Terminal::GoldWin { Terminal::SilverWin } else { Terminal::GoldWin }) } }
fn main() {
    let n: usize = std::env::args().nth(1).unwrap().parse().unwrap(); let mut seed: u64 = std::env::args().nth(2).unwrap().parse().unwrap();
    let mut rnd = move |m: u64| { seed = seed.wrapping_mul(6364136223846793005).wrapping_add(1442695040888963407); (seed >> 33) % m };
    let (mut fails, mut states, mut rt) = (0u64, 0u64, 0u64);
    macro_rules! chk { ($c:expr, $($m:tt)*) => { if !$c { fails += 1; if fails <= 10 { println!("FAIL {}", format!($($m)*)); } } } }
    // C16: all 263 actions round trip; square conversions on all 64
    for i in 0..64u8 { let s = Square::from_index(i); chk!(Square::from_str(&s.to_string()).unwrap() == s && Square::from_bit_board(s.as_bit_board()) == s && s.as_bit_board() == 1u64 << i && s.index() == i as usize && s.column_char() == (b'a' + i % 8) as char && s.row() == 8 - i / 8 && Square::new(s.column_char(), s.row() as usize) == s, "square {}", i);
        for d in Direction::ALL { let a = Action::Move(s, d); chk!(Action::from_str(&a.to_string()).unwrap() == a, "act"); } }
    for p in Piece::ALL { let a = Action::Place(p); chk!(Action::from_str(&a.to_string()).unwrap() == a && Action::from_str(&a.to_string().to_uppercase()).unwrap() == a, "place"); }
    chk!(Action::from_str("p").unwrap() == Action::Pass, "pass");
    // C09 random setups
    for _ in 0..n { let mut gs = GameState::initial(); let mut k = 0; let mut placed = [[0u8; 6]; 2];
        while !gs.is_play_phase() { let va = gs.valid_actions(); let side = gs.is_p1_turn_to_move(); chk!(side == (k < 16) && gs.move_number() == 1 && gs.is_terminal().is_none(), "setup side");
            let lim = [8u8, 2, 2, 2, 1, 1]; let exp: Vec<Action> = [Piece::Elephant, Piece::Camel, Piece::Horse, Piece::Dog, Piece::Cat, Piece::Rabbit].iter().filter(|p| placed[side as usize][**p as usize] < lim[**p as usize]).map(|p| Action::Place(*p)).collect(); chk!(va == exp, "offered placements");
            let a = va[rnd(va.len() as u64) as usize]; let before = gs.piece_board().clone(); gs = gs.take_action(&a); let after = gs.piece_board();
            let sq = if k < 16 { 48 + k } else { k - 16 }; let Action::Place(p) = a else { unreachable!() }; placed[side as usize][p as usize] += 1;
            chk!(after.all_pieces == before.all_pieces | 1u64 << sq && after.bits_for_piece(p, side) == before.bits_for_piece(p, side) | 1u64 << sq && after.all_pieces.count_ones() == k as u32 + 1, "placement square k={}", k); k += 1;
            let rt_gs: GameState = gs.to_string().parse().unwrap(); chk!(rt_gs.to_string() == gs.to_string(), "C15 rt setup"); }
        chk!(k == 32 && gs.is_p1_turn_to_move() && gs.move_number() == 2 && gs.current_step() == 0 && gs.unwrap_play_phase().push_pull_state() == PushPullState::None, "handover");
        let parsed: GameState = gs.to_string().parse().unwrap(); chk!(parsed.transposition_hash() == gs.transposition_hash() && parsed == gs && gs.unwrap_play_phase().hash_history().len() == 1, "C08 setup=parse"); }
    // C11 lock-step with 3 symmetries, C15 round trip on every state
    for _ in 0..n { let mut b: B = [None; 64]; let dens = [4, 8, 16, 28][rnd(4) as usize]; let lim = [8u8, 2, 2, 2, 1, 1]; let mut cnt = [[0u8; 6]; 2];
        for _ in 0..dens { let i = rnd(64) as usize; let g = rnd(2) == 0; let t = [0, 0, 0, 1, 2, 3, 4, 5][rnd(8) as usize]; if b[i].is_none() && cnt[g as usize][t] < lim[t] && !(t == 0 && (i / 8 == 0 || i / 8 == 7)) { b[i] = Some((g, t as u8)); cnt[g as usize][t] += 1; } }
        for g in [true, false] { if cnt[g as usize][0] == 0 { let i = 24 + rnd(16) as usize; if b[i].is_none() { b[i] = Some((g, 0)); } } }
        let s0 = b; for t in [18, 21, 42, 45] { if let Some((g, _)) = s0[t] { if !friend(&s0, t, g) { b[t] = None; } } }
        let gold = rnd(2) == 0; let mut gs: GameState = diagram(&b, gold, 7).parse().unwrap();
        let mut im: Vec<GameState> = (1..4).map(|sym| { let mut bb: B = [None; 64]; for i in 0..64 { bb[tr_sq(i, sym)] = b[i].map(|(g, t)| (g ^ (sym & 2 != 0), t)); } diagram(&bb, gold ^ (sym & 2 != 0), 7).parse().unwrap() }).collect();
        for _ in 0..120 { states += 1; let va = gs.valid_actions(); let vanr = gs.valid_actions_no_rep(); let term = gs.is_terminal();
            for sym in 1..4 { let g2 = &im[sym - 1]; let mut x: Vec<Action> = va.iter().map(|a| tr_act(a, sym)).collect(); x.sort(); let mut y = g2.valid_actions(); y.sort(); chk!(x == y, "C11 va sym {}", sym);
                let mut x: Vec<Action> = vanr.iter().map(|a| tr_act(a, sym)).collect(); x.sort(); let mut y = g2.valid_actions_no_rep(); y.sort(); chk!(x == y, "C11 vanr sym {}", sym); chk!(tr_term(term.clone(), sym) == g2.is_terminal(), "C11 term sym {}", sym);
                for a in &vanr { let p = gs.trapped_animal_for_action(a); let q = g2.trapped_animal_for_action(&tr_act(a, sym)); chk!(p.map(|(s, t, g)| (tr_sq(s.index(), sym), t, g ^ (sym & 2 != 0))) == q.map(|(s, t, g)| (s.index(), t, g)), "C11 capture"); } }
            // C15 round trip
            let txt = gs.to_string(); let back: GameState = txt.parse().unwrap(); rt += 1; chk!(back.to_string() == txt && back.is_p1_turn_to_move() == gs.is_p1_turn_to_move() && back.move_number() == gs.move_number() && back.current_step() == 0, "C15 rt"); if gs.current_step() == 0 { chk!(back.transposition_hash() == gs.transposition_hash(), "C15 hash"); }
            if term.is_some() || va.is_empty() { break; }
            let a = va[rnd(va.len() as u64) as usize]; gs = gs.take_action(&a); for sym in 1..4 { im[sym - 1] = im[sym - 1].take_action(&tr_act(&a, sym)); } } }
    println!("states {} roundtrips {} fails {}", states, rt, fails);
}
