// Self-consistency / array-oracle fuzz of C02..C14 on the real engine (spike).
use arimaa_engine_step::*;
type Cell = Option<(bool, u8)>; type B = [Cell; 64];
const D: [(i32, i32); 4] = [(0, -1), (1, 0), (0, 1), (-1, 0)];
fn nb(i: usize, d: usize) -> Option<usize> { let (f, r) = ((i % 8) as i32 + D[d].0, (i / 8) as i32 + D[d].1); if (0..8).contains(&f) && (0..8).contains(&r) { Some((r * 8 + f) as usize) } else { None } }
fn friend(b: &B, i: usize, g: bool) -> bool { (0..4).any(|d| nb(i, d).map_or(false, |j| matches!(b[j], Some((g2, _)) if g2 == g))) }
fn frozen(b: &B, i: usize) -> bool { let (g, s) = b[i].unwrap(); !friend(b, i, g) && (0..4).any(|d| nb(i, d).map_or(false, |j| matches!(b[j], Some((g2, s2)) if g2 != g && s2 > s))) }
fn apply(b: &B, i: usize, d: usize) -> B { let mut n = *b; let j = nb(i, d).unwrap(); n[j] = n[i]; n[i] = None; let s = n; for t in [18, 21, 42, 45] { if let Some((g, _)) = s[t] { if !friend(&s, t, g) { n[t] = None; } } } n }
fn st(p: Piece) -> u8 { match p { Piece::Rabbit => 0, Piece::Cat => 1, Piece::Dog => 2, Piece::Horse => 3, Piece::Camel => 4, Piece::Elephant => 5 } }
fn arr(pb: &PieceBoardState) -> B { let mut b = [None; 64]; for i in 0..64 { let bit = 1u64 << i; if pb.all_pieces & bit != 0 { let p = pb.piece_type_at_square(&Square::from_index(i as u8)).unwrap(); b[i] = Some((pb.p1_pieces & bit != 0, st(p))); } } b }
fn wf(pb: &PieceBoardState) -> bool { let t = [pb.elephants, pb.camels, pb.horses, pb.dogs, pb.cats, pb.rabbits]; let mut u = 0u64; for x in t { if u & x != 0 { return false; } u |= x; } u == pb.all_pieces && pb.p1_pieces & !pb.all_pieces == 0 }
fn dirn(d: Direction) -> usize { match d { Direction::Up => 0, Direction::Right => 1, Direction::Down => 2, Direction::Left => 3 } }
fn has_step(b: &B, gold: bool) -> bool { // any own step or push start
    for i in 0..64 { if let Some((g, s)) = b[i] { if g == gold && !frozen(b, i) { for d in 0..4 { if let Some(j) = nb(i, d) { if b[j].is_none() && !(s == 0 && ((gold && d == 2) || (!gold && d == 0))) { return true; }
        if let Some((g2, s2)) = b[j] { if g2 != gold && s2 < s && (0..4).any(|d2| nb(j, d2).map_or(false, |k| b[k].is_none())) { return true; } } } } } } } false }
fn result(b: &B, gold_to_move: bool) -> Option<Terminal> {
    let goal = |g: bool| (0..64).any(|i| b[i] == Some((g, 0)) && i / 8 == if g { 0 } else { 7 });
    let rab = |g: bool| (0..64).any(|i| b[i] == Some((g, 0)));
    let win = |g: bool| Some(if g { Terminal::GoldWin } else { Terminal::SilverWin });
    let (m, l) = (gold_to_move, !gold_to_move); // mover, last mover
    if goal(l) { win(l) } else if goal(m) { win(m) } else if !rab(m) { win(l) } else if !rab(l) { win(m) } else if !has_step(b, m) { win(l) } else { None } }
fn diagram(b: &B, gold: bool, mv: u64) -> String { let l = ["r", "c", "d", "h", "m", "e"]; let mut s = format!("{}{}\n +-----------------+\n", mv, if gold { 'g' } else { 's' });
    for r in 0..8 { s += &format!("{}|", 8 - r); for f in 0..8 { let i = r * 8 + f; s += " "; s += &match b[i] { Some((g, t)) => if g { l[t as usize].to_uppercase() } else { l[t as usize].to_string() }, None => if matches!(i, 18 | 21 | 42 | 45) { "x".into() } else { " ".into() } }; } s += " |\n"; } s + " +-----------------+\n   a b c d e f g h\n" }
fn main() {
    let n: usize = std::env::args().nth(1).unwrap().parse().unwrap(); let mut seed: u64 = std::env::args().nth(2).unwrap().parse().unwrap();
    let mut rnd = move |m: u64| { seed = seed.wrapping_mul(6364136223846793005).wrapping_add(1442695040888963407); (seed >> 33) % m };
    let (mut states, mut fails, mut withheld_ev, mut caps, mut terms, mut midloss) = (0u64, 0u64, 0u64, 0u64, 0u64, 0u64);
    macro_rules! chk { ($c:expr, $($m:tt)*) => { if !$c { fails += 1; if fails <= 10 { println!("FAIL {}", format!($($m)*)); } } } }
    for _ in 0..n {
        let mut b: B = [None; 64]; let dens = [3, 6, 12, 24][rnd(4) as usize]; let lim = [8u8, 2, 2, 2, 1, 1]; let mut cnt = [[0u8; 6]; 2];
        for _ in 0..dens { let i = rnd(64) as usize; let g = rnd(2) == 0; let t = [0, 0, 0, 1, 2, 3, 4, 5][rnd(8) as usize]; if b[i].is_none() && cnt[g as usize][t] < lim[t] && !(t == 0 && (i / 8 == 0 || i / 8 == 7)) { b[i] = Some((g, t as u8)); cnt[g as usize][t] += 1; } }
        for g in [true, false] { if cnt[g as usize][0] == 0 { let i = 24 + rnd(16) as usize; if b[i].is_none() { b[i] = Some((g, 0)); } } }
        let s0 = b; for t in [18, 21, 42, 45] { if let Some((g, _)) = s0[t] { if !friend(&s0, t, g) { b[t] = None; } } }
        let gold = rnd(2) == 0; let mut gs: GameState = diagram(&b, gold, 2 + rnd(50)).parse().unwrap();
        let key = |g: &GameState| (arr(g.piece_board()), g.is_p1_turn_to_move());
        let mut hist = vec![key(&gs)]; let mut recent_start = 0usize; let mut turn_boards = vec![arr(gs.piece_board())]; let policy = rnd(4);
        for _ply in 0..(40 + rnd(200)) {
            states += 1; let pb = gs.piece_board().clone(); let ab = arr(&pb); let side = gs.is_p1_turn_to_move(); let step = gs.current_step(); let pps = gs.unwrap_play_phase().push_pull_state();
            let va = gs.valid_actions(); let vanr = gs.valid_actions_no_rep(); let term = gs.is_terminal();
            chk!(wf(&pb), "wf"); for t in [18, 21, 42, 45] { if let Some((g, _)) = ab[t] { chk!(friend(&ab, t, g), "hanging"); } }
            // C07
            chk!(gs.has_move(&pb).is_none() == !va.is_empty(), "has_move"); chk!(gs.can_pass(true) == va.contains(&Action::Pass) && gs.can_pass(false) == vanr.contains(&Action::Pass), "can_pass");
            if term.is_none() { chk!(!va.is_empty(), "none but empty"); } if step > 0 { chk!(term.is_some() == va.is_empty(), "midturn term"); if let Some(t) = &term { midloss += 1; chk!(*t == if side { Terminal::SilverWin } else { Terminal::GoldWin }, "midturn loser"); } }
            if step == 0 { chk!(term == result(&ab, side), "C04 result {:?} vs {:?}\n{}", term, result(&ab, side), gs); }
            // C08
            let scratch = Zobrist::from_piece_board(&pb, side, step).board_state_hash_with_push_pull_state(pps); chk!(gs.transposition_hash() == scratch, "hash scratch");
            let hh: Vec<u64> = gs.unwrap_play_phase().hash_history().iter().map(|z| z.board_state_hash()).collect();
            let trapped = gs.unwrap_play_phase().piece_trapped_this_turn();
            let exp: Vec<u64> = if trapped { vec![] } else { hist[recent_start..].iter().rev().map(|(bb, s)| { let g2: GameState = diagram(bb, *s, 2).parse().unwrap(); g2.transposition_hash() }).collect() };
            chk!(hh == exp, "history {} vs {}", hh.len(), exp.len());
            // C14
            for i in 0..=step { chk!(arr(gs.piece_board_for_step(i)) == turn_boards[i], "pbstep"); }
            // C06 / C05 exact
            let mut expect = vec![]; for a in &vanr { let ends = matches!(a, Action::Pass) || step == 3; let nx = gs.take_action(a); let k = key(&nx);
                let bad = ends && (k.0 == turn_boards[0] || hist.iter().filter(|h| **h == k).count() >= 2); if !bad { expect.push(*a); } else { withheld_ev += 1; } }
            chk!(va == expect, "C06 va {:?} expect {:?}\n{}", va, expect, gs);
            { let mut s = vanr.clone(); s.sort(); s.dedup(); chk!(s.len() == vanr.len(), "dups"); }
            if term.is_some() { terms += 1; break; }
            // choose action
            let pick = |v: &Vec<Action>, r: u64| v[r as usize % v.len()];
            let a = match policy { 1 if va.contains(&Action::Pass) && rnd(2) == 0 => Action::Pass, 2 => { let c: Vec<Action> = va.iter().cloned().filter(|a| gs.trapped_animal_for_action(a).is_some()).collect(); if !c.is_empty() { pick(&c, rnd(1000)) } else { pick(&va, rnd(1000)) } }, _ => pick(&va, rnd(1000)) };
            // C13 + C02
            let pv = gs.trapped_animal_for_action(&a); let nx = gs.take_action(&a); let nb_ = arr(nx.piece_board());
            if let Action::Move(sq, d) = a { let exp = apply(&ab, sq.index(), dirn(d)); chk!(nb_ == exp, "C02 apply"); chk!(ab[nb(sq.index(), dirn(d)).unwrap()].is_none() && ab[sq.index()].is_some(), "C02 dest");
                let mut moved = ab; let j = nb(sq.index(), dirn(d)).unwrap(); moved[j] = moved[sq.index()]; moved[sq.index()] = None; let removed: Vec<usize> = (0..64).filter(|&i| moved[i].is_some() && nb_[i].is_none()).collect(); chk!(removed.len() <= 1, "two captures");
                match (&pv, removed.first()) { (None, None) => {}, (Some((s, p, g)), Some(&i)) => { caps += 1; chk!(s.index() == i && moved[i] == Some((*g, st(*p))), "preview mismatch") }, _ => chk!(false, "preview presence") }
                // C12
                let their = ab[sq.index()].unwrap().0 != side; let ty = ab[sq.index()].unwrap().1; let npps = nx.unwrap_play_phase().push_pull_state();
                if step < 3 { let is_pull = match pps { PushPullState::PossiblePull(q, x) => their && q.index() == j && st(x) > ty, _ => false };
                    let e = if their && !is_pull { 2 } else if !their && !matches!(pps, PushPullState::MustCompletePush(_, _)) && ty != 0 { 1 } else { 0 };
                    let got = match npps { PushPullState::None => 0, PushPullState::PossiblePull(q, x) => { chk!(q == sq && st(x) == ty, "pull names"); 1 }, PushPullState::MustCompletePush(q, x) => { chk!(q == sq && st(x) == ty, "push names"); 2 } }; chk!(e == got, "C12 status"); }
                else { chk!(matches!(npps, PushPullState::None), "turn start status"); }
            } else { chk!(nb_ == ab, "pass board"); }
            // C03
            let ended = matches!(a, Action::Pass) || step == 3; chk!(nx.is_p1_turn_to_move() == (side ^ ended) && nx.current_step() == if ended { 0 } else { step + 1 } && nx.move_number() == gs.move_number() + (ended && !side) as usize, "C03");
            if nx.unwrap_play_phase().piece_trapped_this_turn() || (ended && nb_.iter().flatten().count() < hist.last().unwrap().0.iter().flatten().count()) { /* capture this turn */ }
            let captured_now = nb_.iter().flatten().count() < ab.iter().flatten().count();
            if captured_now { recent_start = hist.len(); }
            if ended { hist.push(key(&nx)); turn_boards = vec![nb_]; } else { turn_boards.push(nb_); }
            gs = nx;
        }
    }
    println!("states {} fails {} withheld-events {} captures {} terminals {} midturn-losses {}", states, fails, withheld_ev, caps, terms, midloss);
}
