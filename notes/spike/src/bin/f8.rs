use arimaa_engine_step::*;
use std::collections::{HashMap, VecDeque};
fn sq(f: usize, r: usize) -> usize { (8 - r) * 8 + f }
fn nm(i: usize) -> String { format!("{}{}", (b'a' + (i % 8) as u8) as char, 8 - i / 8) }
fn dirch(a: usize, b: usize) -> char { if b + 8 == a { 'n' } else if a + 8 == b { 's' } else if a + 1 == b { 'e' } else { 'w' } }
// BFS over configurations of 4 distinct pieces inside a block
fn solve(block: &[usize], from: [usize; 4], to: [usize; 4]) -> Vec<(usize, usize)> {
    let mut prev: HashMap<[usize; 4], ([usize; 4], (usize, usize))> = HashMap::new();
    let mut q = VecDeque::new(); q.push_back(from); prev.insert(from, (from, (99, 99)));
    while let Some(c) = q.pop_front() {
        if c == to { break; }
        for k in 0..4 {
            let a = c[k];
            for b in [a.wrapping_sub(8), a + 8, a.wrapping_sub(1), a + 1] {
                if !block.contains(&b) || c.contains(&b) { continue; }
                if (a % 8 == 0 && b + 1 == a) || (a % 8 == 7 && b == a + 1) { continue; }
                let mut n = c; n[k] = b;
                if !prev.contains_key(&n) { prev.insert(n, (c, (a, b))); q.push_back(n); }
            }
        }
    }
    let mut path = vec![]; let mut c = to;
    while c != from { let (p, m) = prev[&c]; path.push(m); c = p; }
    path.reverse(); path
}
fn main() {
    let p_txt = std::fs::read_to_string("/tmp/spike/P.txt").unwrap();
    let q_txt = std::fs::read_to_string("/tmp/spike/Q.txt").unwrap();
    let p: GameState = p_txt.parse().unwrap(); let q: GameState = q_txt.parse().unwrap();
    let blocks: Vec<Vec<usize>> = vec![
        (1..=3).flat_map(|r| (0..4).map(move |f| sq(f, r))).filter(|&i| i != 42).collect(),
        (1..=3).flat_map(|r| (4..8).map(move |f| sq(f, r))).filter(|&i| i != 45).collect(),
        (6..=8).flat_map(|r| (0..4).map(move |f| sq(f, r))).filter(|&i| i != 18).collect(),
        (6..=8).flat_map(|r| (4..8).map(move |f| sq(f, r))).filter(|&i| i != 21).collect()];
    let types = [[Piece::Elephant, Piece::Horse, Piece::Dog, Piece::Cat], [Piece::Camel, Piece::Horse, Piece::Dog, Piece::Cat]];
    let find = |g: &GameState, blk: &Vec<usize>, t: Piece, gold: bool| -> usize { let bits = g.piece_board().bits_for_piece(t, gold); *blk.iter().find(|&&i| bits >> i & 1 == 1).unwrap() };
    let mut lists: Vec<Vec<(usize, usize)>> = vec![]; // gold steps, silver steps
    for side in 0..2 { let mut l = vec![]; for half in 0..2 { let blk = &blocks[side * 2 + half];
        let from: Vec<usize> = types[half].iter().map(|&t| find(&p, blk, t, side == 0)).collect();
        let to: Vec<usize> = types[half].iter().map(|&t| find(&q, blk, t, side == 0)).collect();
        l.extend(solve(blk, [from[0], from[1], from[2], from[3]], [to[0], to[1], to[2], to[3]])); } lists.push(l); }
    println!("gold steps {} silver steps {}", lists[0].len(), lists[1].len());
    let (lg, ls) = (lists[0].len(), lists[1].len());
    let t = ((lg + 3) / 4).max((ls + 3) / 4); assert!(t <= lg && t <= ls);
    // distribute steps over t turns: first turns get extra
    let split = |l: usize| -> Vec<usize> { (0..t).map(|i| l / t + if i < l % t { 1 } else { 0 }).collect() };
    let (sg, ss) = (split(lg), split(ls));
    let mut script: Vec<String> = vec![];
    // prologue: out-and-back on each side -> second occurrence of P
    let (g0, s0) = (lists[0][0], lists[1][0]);
    for (a, b) in [g0, s0, (g0.1, g0.0), (s0.1, s0.0)] { script.push(format!("{}{}", nm(a), dirch(a, b))); script.push("p".into()); }
    let (mut ig, mut is) = (0, 0);
    for turn in 0..t {
        for _ in 0..sg[turn] { let (a, b) = lists[0][ig]; ig += 1; script.push(format!("{}{}", nm(a), dirch(a, b))); }
        if sg[turn] < 4 { script.push("p".into()); }
        for _ in 0..ss[turn] { let (a, b) = lists[1][is]; is += 1; script.push(format!("{}{}", nm(a), dirch(a, b))); }
        if ss[turn] < 4 { script.push("p".into()); }
    }
    // play it on the real engine; every action but the last must be offered
    let mut gs = p.clone();
    let mut boards_seen: Vec<(String, bool)> = vec![(gs.to_string().lines().skip(1).collect::<String>(), gs.is_p1_turn_to_move())];
    for (k, a) in script.iter().enumerate() {
        let act: Action = a.parse().unwrap();
        let offered = gs.valid_actions().contains(&act); let norep = gs.valid_actions_no_rep().contains(&act);
        if k + 1 == script.len() {
            let res = gs.take_action(&act);
            let key = (res.to_string().lines().skip(1).collect::<String>(), res.is_p1_turn_to_move());
            let occ = boards_seen.iter().filter(|x| **x == key).count();
            let start_of_turn_differs = true;
            println!("LAST action {} : offered_with_rep={} offered_no_rep={} prior occurrences of resulting (board,side)={} result_is_Q={} terminal_before={:?}", a, offered, norep, occ, res.to_string().lines().skip(1).collect::<String>() == q.to_string().lines().skip(1).collect::<String>(), gs.is_terminal());
            println!("valid_actions     = {:?}\nvalid_actions_norep = {:?}", gs.valid_actions(), gs.valid_actions_no_rep());
            let _ = start_of_turn_differs;
        } else {
            assert!(offered, "step {} {} not offered", k, a);
            let side = gs.is_p1_turn_to_move();
            gs = gs.take_action(&act);
            if gs.is_p1_turn_to_move() != side { boards_seen.push((gs.to_string().lines().skip(1).collect::<String>(), gs.is_p1_turn_to_move())); }
            assert!(gs.is_terminal().is_none());
        }
    }
    println!("script ({} actions): {}", script.len(), script.join(" "));
}
