use arimaa_engine_step::*;
use std::panic::catch_unwind;
use std::str::FromStr;
fn try_action(s: &str) { let r = catch_unwind(|| Action::from_str(s).map(|a| a.to_string()).map_err(|_| ())); println!("action {:?} -> {:?}", s, r.map_err(|_| "PANIC")); }
fn try_square(s: &str) { let r = catch_unwind(|| Square::from_str(s).map(|a| a.to_string()).map_err(|_| ())); println!("square {:?} -> {:?}", s, r.map_err(|_| "PANIC")); }
fn try_board(s: &str) { let r = catch_unwind(|| GameState::from_str(s).map(|a| a.move_number()).map_err(|_| ())); println!("board {:?}.. -> {:?}", &s.chars().take(30).collect::<String>(), r.map_err(|_| "PANIC")); }
fn main() {
    std::panic::set_hook(Box::new(|_| {}));
    let arg = std::env::args().nth(1).unwrap_or_default();
    if arg == "parse" {
        for s in ["a1n", "a\u{e9}n", "\u{161}1n", "A1n", "`1n", "a0n", "a9n", "Rn", "P", "R", "p", "", "a1", "\u{20ac}"] { try_action(s); }
        for s in ["a1", "\u{161}1", "A1", "`1", "i1", "a+", "h8"] { try_square(s); }
        try_board("99999999999999999999999g\n|");
        try_board("\u{663}g\n|");
        let rows: String = (0..9).map(|_| "8| r r r r r r r r |\n").collect();
        try_board(&format!("2g\n{}", rows));
        try_board("2g\n8| r r r r r r r r r r r r r r r r r r r r r r r r r r r r r r r r r r r r r r r r r r r r r r r r r r r r r r r r r r r r r r r r r r |");
    } else if arg == "list" {
        let n: usize = std::env::args().nth(2).unwrap().parse().unwrap();
        let mut l = List::new();
        for i in 0..n { l = l.append(Zobrist::initial()); let _ = i; }
        println!("built {}", l.len());
        drop(l);
        println!("dropped ok");
    } else if arg == "game" {
        let n: usize = std::env::args().nth(2).unwrap().parse().unwrap();
        let h = std::thread::spawn(move || {
        let mut gs: GameState = "2g\n +-----------------+\n8| r               |\n7|                 |\n6|     x     x     |\n5|   e   d         |\n4|         D   E   |\n3|     x     x     |\n2|                 |\n1| R               |\n +-----------------+\n   a b c d e f g h\n".parse().unwrap();
        let mut seed: u64 = 12345; let mut turns = 0usize; let mut maxlen = 0;
        while turns < n {
            if gs.is_terminal().is_some() { println!("terminal at {} {:?}\n{} step {} va={:?} norep={:?}", turns, gs.is_terminal(), gs, gs.current_step(), gs.valid_actions(), gs.valid_actions_no_rep()); break; }
            let acts: Vec<Action> = gs.valid_actions().into_iter().filter(|a| gs.trapped_animal_for_action(a).is_none() && !matches!(a, Action::Move(s,_) if s.index()==0 || s.index()==56)).collect();
            if acts.is_empty() { println!("stuck at {}", turns); break; }
            seed = seed.wrapping_mul(6364136223846793005).wrapping_add(1442695040888963407);
            let a = acts[(seed >> 33) as usize % acts.len()];
            let p = gs.is_p1_turn_to_move();
            gs = gs.take_action(&a);
            if gs.is_p1_turn_to_move() != p { turns += 1; }
            maxlen = maxlen.max(gs.unwrap_play_phase().hash_history().len());
        }
        println!("turns {} history {} max {}", turns, gs.unwrap_play_phase().hash_history().len(), maxlen);
        drop(gs);
        println!("dropped ok");
        });
        h.join().unwrap();
    }
}
