namespace Proto
abbrev BB := BitVec 64

def TOP_ROW : BB := 0x00000000000000FF#64
def BOTTOM_ROW : BB := 0xFF00000000000000#64
def LEFT_COL : BB := 0x0101010101010101#64
def RIGHT_COL : BB := 0x8080808080808080#64
def TRAP : BB := 0x0000240000240000#64

/-- our own bit accessor: keeps simp from rewriting into getElem normal forms -/
def bit (x : BB) (i : Nat) : Bool := x.getLsbD i

theorem bit_ge (x : BB) (i : Nat) (h : 64 ≤ i) : bit x i = false := BitVec.getLsbD_of_ge _ _ h
theorem bit_and (x y : BB) (i : Nat) : bit (x &&& y) i = (bit x i && bit y i) := BitVec.getLsbD_and ..
theorem bit_or (x y : BB) (i : Nat) : bit (x ||| y) i = (bit x i || bit y i) := BitVec.getLsbD_or ..
theorem bit_xor (x y : BB) (i : Nat) : bit (x ^^^ y) i = (bit x i ^^ bit y i) := BitVec.getLsbD_xor ..
theorem bit_not (x : BB) (i : Nat) : bit (~~~x) i = (decide (i < 64) && !bit x i) := BitVec.getLsbD_not ..
theorem bit_shr (x : BB) (n i : Nat) : bit (x >>> n) i = bit x (n + i) := BitVec.getLsbD_ushiftRight ..
theorem bit_shl (x : BB) (n i : Nat) : bit (x <<< n) i = (decide (i < 64) && !decide (i < n) && bit x (i - n)) :=
  BitVec.getLsbD_shiftLeft ..
theorem bb_ext (x y : BB) (h : ∀ i, i < 64 → bit x i = bit y i) : x = y :=
  BitVec.eq_of_getLsbD_eq (fun i hi => h i hi)

theorem top_bit (i : Nat) (h : i < 64) : bit TOP_ROW i = decide (i < 8) := by
  have : ∀ j : Fin 64, bit TOP_ROW j.1 = decide (j.1 < 8) := by decide
  exact this ⟨i, h⟩
theorem bottom_bit (i : Nat) (h : i < 64) : bit BOTTOM_ROW i = decide (56 ≤ i) := by
  have : ∀ j : Fin 64, bit BOTTOM_ROW j.1 = decide (56 ≤ j.1) := by decide
  exact this ⟨i, h⟩
theorem left_bit (i : Nat) (h : i < 64) : bit LEFT_COL i = decide (i % 8 = 0) := by
  have : ∀ j : Fin 64, bit LEFT_COL j.1 = decide (j.1 % 8 = 0) := by decide
  exact this ⟨i, h⟩
theorem right_bit (i : Nat) (h : i < 64) : bit RIGHT_COL i = decide (i % 8 = 7) := by
  have : ∀ j : Fin 64, bit RIGHT_COL j.1 = decide (j.1 % 8 = 7) := by decide
  exact this ⟨i, h⟩

def shiftPiecesUp (x : BB) : BB := (x &&& ~~~TOP_ROW) >>> 8
def shiftPiecesDown (x : BB) : BB := (x &&& ~~~BOTTOM_ROW) <<< 8
def shiftPiecesLeft (x : BB) : BB := (x &&& ~~~LEFT_COL) >>> 1
def shiftPiecesRight (x : BB) : BB := (x &&& ~~~RIGHT_COL) <<< 1

theorem up_bit (x : BB) (i : Nat) (h : i < 64) :
    bit (shiftPiecesUp x) i = (decide (i + 8 < 64) && bit x (i + 8)) := by
  unfold shiftPiecesUp
  rw [bit_shr, bit_and, bit_not, Nat.add_comm 8 i]
  by_cases h2 : i + 8 < 64
  · rw [top_bit _ h2]; simp [h2]
  · rw [bit_ge x _ (by omega)]; simp

theorem down_bit (x : BB) (i : Nat) (h : i < 64) :
    bit (shiftPiecesDown x) i = (decide (8 ≤ i) && bit x (i - 8)) := by
  unfold shiftPiecesDown
  rw [bit_shl, bit_and, bit_not]
  by_cases h2 : 8 ≤ i
  · rw [bottom_bit _ (by omega)]
    have : ¬ (56 ≤ i - 8) := by omega
    have h3 : ¬ i < 8 := by omega
    have h4 : i - 8 < 64 := by omega
    simp [h, h2, this, h3, h4]
  · have h3 : i < 8 := by omega
    simp [h3, h2]

theorem left_bit_shift (x : BB) (i : Nat) (h : i < 64) :
    bit (shiftPiecesLeft x) i = (decide (i % 8 ≠ 7) && bit x (i + 1)) := by
  unfold shiftPiecesLeft
  rw [bit_shr, bit_and, bit_not, Nat.add_comm 1 i]
  by_cases h2 : i + 1 < 64
  · rw [left_bit _ h2]
    by_cases hm : i % 8 = 7
    · have : (i + 1) % 8 = 0 := by omega
      simp [hm, this]
    · have : ¬ (i + 1) % 8 = 0 := by omega
      simp [hm, this, h2]
  · rw [bit_ge x _ (by omega)]; simp

theorem right_bit_shift (x : BB) (i : Nat) (h : i < 64) :
    bit (shiftPiecesRight x) i = (decide (i % 8 ≠ 0) && bit x (i - 1)) := by
  unfold shiftPiecesRight
  rw [bit_shl, bit_and, bit_not]
  by_cases h0 : i = 0
  · subst h0; simp
  · rw [right_bit _ (by omega)]
    have h1 : ¬ i < 1 := by omega
    have h2 : i - 1 < 64 := by omega
    by_cases hm : i % 8 = 0
    · have : (i - 1) % 8 = 7 := by omega
      simp [h, hm, this, h1]
    · have : ¬ (i - 1) % 8 = 7 := by omega
      simp [h, hm, this, h1, h2]

end Proto
