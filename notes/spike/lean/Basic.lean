def hello := "world"
