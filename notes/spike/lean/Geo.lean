import Spike.Bits
namespace Spike
def isTrap (i : Nat) : Bool := i == 18 || i == 21 || i == 42 || i == 45
theorem trap_bit : ∀ j : Fin 64, bit TRAP j.1 = isTrap j.1 := by decide
theorem adj_parity (i j : Nat) (h : adj i j = true) : (i / 8 + i % 8) % 2 ≠ (j / 8 + j % 8) % 2 := by
  simp [adj] at h
  omega
theorem trap_dist : ∀ j k : Fin 64, isTrap j.1 = true → isTrap k.1 = true → j ≠ k →
    ∀ i : Fin 64, ¬ (adj i.1 j.1 = true ∧ adj i.1 k.1 = true) := by decide +kernel
/-- xor fold lemma shape for C08 -/
def foldX (v : Nat → BB) (x : BB) : Nat → BB
  | 0 => 0
  | n+1 => foldX v x n ^^^ (if bit x n then v n else 0)
theorem foldX_xor (v : Nat → BB) (x y : BB) (n : Nat) :
    foldX v (x ^^^ y) n = foldX v x n ^^^ foldX v y n := by
  induction n with
  | zero => simp [foldX]
  | succ n ih =>
    simp only [foldX, ih, bit_xor]
    cases bit x n <;> cases bit y n <;> simp <;> ac_rfl
end Spike
