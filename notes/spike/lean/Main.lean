import Spike.Bits
open Spike
partial def loop (h : IO.FS.Stream) (acc : BB) (n : Nat) : IO Unit := do
  let line ← h.getLine
  if line.isEmpty then IO.println s!"{acc.toNat} {n}"; return ()
  match line.trimAscii.toString.toNat? with
  | some k =>
    let x : BB := BitVec.ofNat 64 k
    let r := supported x ^^^ shiftPiecesUp x
    loop h (acc ^^^ r) (n+1)
  | none => loop h acc n
def main : IO Unit := do loop (← IO.getStdin) 0 0
