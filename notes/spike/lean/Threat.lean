import Proto.Bits
namespace Proto

/-- "some orthogonal neighbour of square i satisfies f" -/
def nbAny (f : Nat → Bool) (i : Nat) : Bool :=
  (decide (i + 8 < 64) && f (i + 8)) || (decide (i % 8 ≠ 0) && f (i - 1)) ||
  (decide (8 ≤ i) && f (i - 8)) || (decide (i % 8 ≠ 7) && f (i + 1))

theorem nbAny_or (f g : Nat → Bool) (i : Nat) :
    nbAny (fun j => f j || g j) i = (nbAny f i || nbAny g i) := by
  simp only [nbAny]
  generalize decide (i + 8 < 64) = a1; generalize decide (i % 8 ≠ 0) = a2
  generalize decide (8 ≤ i) = a3; generalize decide (i % 8 ≠ 7) = a4
  generalize f (i+8) = f1; generalize f (i-1) = f2; generalize f (i-8) = f3; generalize f (i+1) = f4
  generalize g (i+8) = g1; generalize g (i-1) = g2; generalize g (i-8) = g3; generalize g (i+1) = g4
  revert a1 a2 a3 a4 f1 f2 f3 f4 g1 g2 g3 g4
  decide

def influenced (x : BB) : BB :=
  shiftPiecesUp x ||| shiftPiecesRight x ||| shiftPiecesDown x ||| shiftPiecesLeft x

theorem influenced_bit (x : BB) (i : Nat) (h : i < 64) :
    bit (influenced x) i = nbAny (bit x) i := by
  unfold influenced nbAny
  simp only [bit_or, up_bit x i h, down_bit x i h, left_bit_shift x i h, right_bit_shift x i h]

def supported (x : BB) : BB :=
  (x &&& shiftPiecesUp x) ||| (x &&& shiftPiecesRight x) ||| (x &&& shiftPiecesDown x) ||| (x &&& shiftPiecesLeft x)

theorem supported_bit (x : BB) (i : Nat) (h : i < 64) :
    bit (supported x) i = (bit x i && nbAny (bit x) i) := by
  unfold supported nbAny
  simp only [bit_or, bit_and, up_bit x i h, down_bit x i h, left_bit_shift x i h, right_bit_shift x i h]
  cases bit x i <;> simp

structure Boards where
  p1 : BB
  all : BB
  e : BB
  m : BB
  h : BB
  d : BB
  c : BB
  r : BB

def threatened (pred prey : BB) (b : Boards) : BB :=
  let ie := influenced (b.e &&& pred)
  let im := influenced (b.m &&& pred)
  let ih := influenced (b.h &&& pred)
  let id := influenced (b.d &&& pred)
  let ic := influenced (b.c &&& pred)
  let camelT := ie
  let horseT := camelT ||| im
  let dogT := horseT ||| ih
  let catT := dogT ||| id
  let rabbitT := catT ||| ic
  ((b.m &&& camelT) ||| (b.h &&& horseT) ||| (b.d &&& dogT) ||| (b.c &&& catT) ||| (b.r &&& rabbitT)) &&& prey

/-- strength of the piece on square j, 0 = none/rabbit … ; read from the type boards -/
def str (b : Boards) (j : Nat) : Nat :=
  if bit b.e j then 5 else if bit b.m j then 4 else if bit b.h j then 3 else if bit b.d j then 2
  else if bit b.c j then 1 else 0

/-- one type per square -/
def Excl (b : Boards) : Prop := ∀ i, i < 64 →
  ((bit b.e i).toNat + (bit b.m i).toNat + (bit b.h i).toNat + (bit b.d i).toNat + (bit b.c i).toNat + (bit b.r i).toNat ≤ 1)

theorem nbAny_congr (f g : Nat → Bool) (i : Nat) (h : ∀ j, f j = g j) : nbAny f i = nbAny g i := by
  have : f = g := funext h
  rw [this]

theorem str_gt4 (b : Boards) (j : Nat) : decide (4 < str b j) = bit b.e j := by
  unfold str; cases bit b.e j <;> cases bit b.m j <;> cases bit b.h j <;> cases bit b.d j <;> cases bit b.c j <;> rfl
theorem str_gt3 (b : Boards) (j : Nat) : decide (3 < str b j) = (bit b.e j || bit b.m j) := by
  unfold str; cases bit b.e j <;> cases bit b.m j <;> cases bit b.h j <;> cases bit b.d j <;> cases bit b.c j <;> rfl
theorem str_gt2 (b : Boards) (j : Nat) : decide (2 < str b j) = (bit b.e j || bit b.m j || bit b.h j) := by
  unfold str; cases bit b.e j <;> cases bit b.m j <;> cases bit b.h j <;> cases bit b.d j <;> cases bit b.c j <;> rfl
theorem str_gt1 (b : Boards) (j : Nat) : decide (1 < str b j) = (bit b.e j || bit b.m j || bit b.h j || bit b.d j) := by
  unfold str; cases bit b.e j <;> cases bit b.m j <;> cases bit b.h j <;> cases bit b.d j <;> cases bit b.c j <;> rfl
theorem str_gt0 (b : Boards) (j : Nat) : decide (0 < str b j) = (bit b.e j || bit b.m j || bit b.h j || bit b.d j || bit b.c j) := by
  unfold str; cases bit b.e j <;> cases bit b.m j <;> cases bit b.h j <;> cases bit b.d j <;> cases bit b.c j <;> rfl

/-- the neighbour test for "a predator stronger than strength k" in terms of the five influence boards -/
theorem nb_stronger (pred : BB) (b : Boards) (i k : Nat) (hk : k ≤ 4) :
    nbAny (fun j => bit pred j && decide (k < str b j)) i =
      (nbAny (bit (b.e &&& pred)) i ||
       (decide (k < 4) && nbAny (bit (b.m &&& pred)) i) ||
       (decide (k < 3) && nbAny (bit (b.h &&& pred)) i) ||
       (decide (k < 2) && nbAny (bit (b.d &&& pred)) i) ||
       (decide (k < 1) && nbAny (bit (b.c &&& pred)) i)) := by
  have h5 : k = 0 ∨ k = 1 ∨ k = 2 ∨ k = 3 ∨ k = 4 := by omega
  rcases h5 with rfl | rfl | rfl | rfl | rfl
  · rw [nbAny_congr _ (fun j => bit (b.e &&& pred) j || bit (b.m &&& pred) j || bit (b.h &&& pred) j || bit (b.d &&& pred) j || bit (b.c &&& pred) j) i
      (by intro j; simp only [str_gt0, bit_and]; cases bit pred j <;> simp)]
    simp [nbAny_or]
  · rw [nbAny_congr _ (fun j => bit (b.e &&& pred) j || bit (b.m &&& pred) j || bit (b.h &&& pred) j || bit (b.d &&& pred) j) i
      (by intro j; simp only [str_gt1, bit_and]; cases bit pred j <;> simp)]
    simp [nbAny_or]
  · rw [nbAny_congr _ (fun j => bit (b.e &&& pred) j || bit (b.m &&& pred) j || bit (b.h &&& pred) j) i
      (by intro j; simp only [str_gt2, bit_and]; cases bit pred j <;> simp)]
    simp [nbAny_or]
  · rw [nbAny_congr _ (fun j => bit (b.e &&& pred) j || bit (b.m &&& pred) j) i
      (by intro j; simp only [str_gt3, bit_and]; cases bit pred j <;> simp)]
    simp [nbAny_or]
  · rw [nbAny_congr _ (fun j => bit (b.e &&& pred) j) i
      (by intro j; simp only [str_gt4, bit_and]; cases bit pred j <;> simp)]
    simp

theorem threatened_bit (pred prey : BB) (b : Boards) (hx : Excl b) (i : Nat) (h : i < 64) :
    bit (threatened pred prey b) i =
      (bit prey i && (bit b.m i || bit b.h i || bit b.d i || bit b.c i || bit b.r i) &&
        nbAny (fun j => bit pred j && decide (str b i < str b j)) i) := by
  have hx' := hx i h
  have hs : str b i ≤ 4 ∨ bit b.e i = true := by
    unfold str; cases bit b.e i <;> cases bit b.m i <;> cases bit b.h i <;> cases bit b.d i <;> cases bit b.c i <;> simp
  unfold threatened
  simp only [bit_and, bit_or, influenced_bit _ i h]
  rcases hs with hs | he
  · rw [nb_stronger pred b i (str b i) hs]
    generalize nbAny (bit (b.e &&& pred)) i = Ae
    generalize nbAny (bit (b.m &&& pred)) i = Am
    generalize nbAny (bit (b.h &&& pred)) i = Ah
    generalize nbAny (bit (b.d &&& pred)) i = Ad
    generalize nbAny (bit (b.c &&& pred)) i = Ac
    unfold str
    revert hx'
    generalize bit b.e i = e; generalize bit b.m i = m; generalize bit b.h i = hh
    generalize bit b.d i = d; generalize bit b.c i = c; generalize bit b.r i = r
    generalize bit prey i = p
    revert e m hh d c r p Ae Am Ah Ad Ac
    decide
  · -- an elephant is never threatened: every type bit but e is off at i
    have hm : bit b.m i = false := by revert hx'; rw [he]; cases bit b.m i <;> cases bit b.h i <;> cases bit b.d i <;> cases bit b.c i <;> cases bit b.r i <;> simp
    have hh : bit b.h i = false := by revert hx'; rw [he]; cases bit b.m i <;> cases bit b.h i <;> cases bit b.d i <;> cases bit b.c i <;> cases bit b.r i <;> simp
    have hd : bit b.d i = false := by revert hx'; rw [he]; cases bit b.m i <;> cases bit b.h i <;> cases bit b.d i <;> cases bit b.c i <;> cases bit b.r i <;> simp
    have hc : bit b.c i = false := by revert hx'; rw [he]; cases bit b.m i <;> cases bit b.h i <;> cases bit b.d i <;> cases bit b.c i <;> cases bit b.r i <;> simp
    have hr : bit b.r i = false := by revert hx'; rw [he]; cases bit b.m i <;> cases bit b.h i <;> cases bit b.d i <;> cases bit b.c i <;> cases bit b.r i <;> simp
    simp [hm, hh, hd, hc, hr]
end Proto
