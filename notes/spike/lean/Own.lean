import Proto.Threat
namespace Proto

inductive Dir | up | right | down | left deriving DecidableEq, Repr
inductive Action | move (sq : Nat) (d : Dir) | pass deriving DecidableEq, Repr

def squaresOf (x : BB) : List Nat := (List.range 64).filter (bit x)
theorem mem_squaresOf (x : BB) (i : Nat) : i ∈ squaresOf x ↔ i < 64 ∧ bit x i = true := by
  simp [squaresOf]

def shiftOpp (x : BB) : Dir → BB
  | .up => shiftPiecesDown x | .right => shiftPiecesLeft x | .down => shiftPiecesUp x | .left => shiftPiecesRight x

/-- destination index of a step, if on the board -/
def dest (i : Nat) : Dir → Option Nat
  | .up => if 8 ≤ i then some (i - 8) else none
  | .down => if i + 8 < 64 then some (i + 8) else none
  | .right => if i % 8 ≠ 7 then some (i + 1) else none
  | .left => if i % 8 ≠ 0 then some (i - 1) else none

def canMove (d : Dir) (b : Boards) : BB := shiftOpp (~~~b.all) d

theorem canMove_bit (d : Dir) (b : Boards) (i : Nat) (h : i < 64) :
    bit (canMove d b) i = true ↔ ∃ j, dest i d = some j ∧ bit b.all j = false := by
  cases d <;> simp only [canMove, shiftOpp, dest, down_bit _ i h, up_bit _ i h, left_bit_shift _ i h,
    right_bit_shift _ i h, bit_not]
  · by_cases h8 : 8 ≤ i
    · have : i - 8 < 64 := by omega
      simp [h8, this]
    · simp [h8]
  · by_cases h7 : i % 8 = 7
    · simp [h7]
    · have : i + 1 < 64 := by omega
      simp [h7, this]
  · by_cases h8 : i + 8 < 64
    · simp [h8]
    · simp [h8]
  · by_cases h0 : i % 8 = 0
    · simp [h0]
    · have : i - 1 < 64 := by omega
      simp [h0, this]

def oppMask (gold : Bool) (b : Boards) : BB := if gold then ~~~b.p1 &&& b.all else b.p1
def nonFrozen (gold : Bool) (b : Boards) : BB :=
  let opp := oppMask gold b
  let cur := ~~~opp &&& b.all
  cur &&& (~~~(threatened opp cur b) ||| supported cur)
def invalidRabbit (gold : Bool) (d : Dir) (b : Boards) : BB :=
  if d = (if gold then Dir.down else Dir.up) then (if gold then b.p1 else ~~~b.p1) &&& b.r else 0

def ownMoves (gold : Bool) (b : Boards) : List Action :=
  [Dir.up, Dir.right, Dir.down, Dir.left].flatMap fun d =>
    (squaresOf (canMove d b &&& nonFrozen gold b &&& ~~~invalidRabbit gold d b)).map (fun s => Action.move s d)

theorem mem_ownMoves (gold : Bool) (b : Boards) (i : Nat) (d : Dir) :
    Action.move i d ∈ ownMoves gold b ↔
      i < 64 ∧ bit (canMove d b) i = true ∧ bit (nonFrozen gold b) i = true ∧ bit (invalidRabbit gold d b) i = false := by
  unfold ownMoves
  simp only [List.mem_flatMap, List.mem_map, mem_squaresOf, bit_and, bit_not]
  constructor
  · rintro ⟨d', _, s, ⟨hs, hb⟩, heq⟩
    cases heq
    simp only [Bool.and_eq_true, Bool.not_eq_true', decide_eq_true_eq] at hb
    exact ⟨hs, hb.1.1, hb.1.2, hb.2.2⟩
  · rintro ⟨hi, h1, h2, h3⟩
    refine ⟨d, by cases d <;> simp, i, ⟨hi, ?_⟩, rfl⟩
    simp [h1, h2, h3, hi]

theorem ownMoves_nodup (gold : Bool) (b : Boards) : (ownMoves gold b).Nodup := by
  unfold ownMoves List.Nodup
  rw [List.pairwise_flatMap]
  refine ⟨fun d _ => ?_, ?_⟩
  · rw [List.pairwise_map]
    have : (squaresOf (canMove d b &&& nonFrozen gold b &&& ~~~invalidRabbit gold d b)).Nodup :=
      (List.nodup_range).filter _
    exact this.imp (fun hne h => hne (by cases h; rfl))
  · have hd : [Dir.up, Dir.right, Dir.down, Dir.left].Pairwise (· ≠ ·) := by decide
    refine hd.imp ?_
    intro d d' hne x hx y hy hxy
    simp only [List.mem_map] at hx hy
    obtain ⟨_, _, rfl⟩ := hx
    obtain ⟨_, _, h2⟩ := hy
    rw [← hxy] at h2
    cases h2
    exact hne rfl
end Proto
