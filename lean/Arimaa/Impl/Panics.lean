import Arimaa.Impl.Text

/-!
L1 — implementation model, part 5: the PANIC model (property C19).

The functions of `Basic`/`Zobrist`/`Engine`/`Text` are total.  Next to every one of them whose Rust
original contains a panic site stands an executable guard here: `…Panics inputs = true` exactly when
the Rust code, compiled with `overflow-checks = true`, panics on those inputs.  Every guard lists
its sites in the evaluation order of the code (for a Boolean answer the order only matters where a
short circuit decides whether a later site is reached at all; those short circuits are modelled).

Panic sites of the crate (engine.rs, zobrist.rs, square.rs, bit_manip.rs, action.rs, display.rs):

* S1  `Square::as_bit_board`          `1 << self.0`, shift overflow for `self.0 ≥ 64`
* S2  `first_set_bit`                 `1 << trailing_zeros(bits)`, shift by 64 for `bits = 0`
* S3  `unwrap_play_phase`             `expect` in the place phase
* S4  `STEP_VALUES[step]`             index `≥ 4`
* S5  `SQUARE_VALUES[idx][sq]`, `PUSH_VALUES[idx][sq]`, `POSSIBLE_PULL_VALUES[idx][sq]`  index `≥ 64`
* S6  `push_piece_value(_, Elephant)` `panic!`
* S7  `pull_piece_value(_, Rabbit)`   `panic!`
* S8  `previous_piece_boards_this_move[step]`  index `≥ len`
* S9  `PieceBoard::take_action` on a non-`Move`  `panic!`
* S10 `unwrap_must_complete_push`     `panic!` unless a push is pending
* S11 `move_number + 1`               `usize` overflow (finding F4)
* S12 `piece_type_at_square(..).unwrap()` in `trapped_animal_for_action`
* S13 `Square::row`                   `BOARD_HEIGHT - index / BOARD_WIDTH` underflows for `index ≥ 72`
* S14 `Square::new`                   `column as u8 - 97`, `BOARD_HEIGHT - row` underflow
* S15 `curr_step + 1`                 `usize` overflow (only evaluated for `curr_step < 3`)

Not a site: `Square::from_bit_board` (`trailing_zeros` of the `u128` widening, `as u8`: 128 for an
empty board, no panic — the panic comes from a later S1/S5 on that square), `Square::index`,
`Square::column_char` (`97 + index % 8`), `map_bit_board_to_squares` (`1 << bit_idx` with
`bit_idx = trailing_zeros` of a non-zero word), the masked shifts (constant shift amounts 1 and 8),
`count_ones`, `as` casts.  Not modelled: `List::append` computes `self.len() + 1` in `usize`; it
overflows only for a hash history of `2^64 - 1` heap nodes, which exceeds the address space.

Squares are `Nat` here and `u8` in the code: the guards are exact for square values `< 256`.
Move numbers are `Nat` here and `usize` in the code: exact for values `≤ usizeMax`.
-/
namespace Arimaa
open Gen

/-! ## square.rs, bit_manip.rs -/

/-- S1 `Square::as_bit_board` -/
def sqBitPanics (sq : Nat) : Bool := decide (sq ≥ 64)

/-- S2 `first_set_bit` -/
def firstSetBitPanics (x : BB) : Bool := x == 0

/-- S13 `Square::row` -/
def sqRowPanics (sq : Nat) : Bool := decide (sq / BOARD_WIDTH > BOARD_HEIGHT)

/-- S14 `Square::new(column, row)`: `(column as u8 - 97) + (BOARD_HEIGHT - row) as u8 * 8`; the
product is at most 64 and the sum at most 222, so only the two subtractions can overflow -/
def sqNewPanics (column : Char) (row : Nat) : Bool :=
  decide (column.toNat % 256 < ASCII_LETTER_A) || decide (row > BOARD_HEIGHT)

/-- `Display for Square`: `column_char` then `row` -/
def showSquarePanics (sq : Nat) : Bool := sqRowPanics sq

/-- `Display for Action` -/
def showActionPanics : Action → Bool
  | .move sq _ => showSquarePanics sq
  | _ => false

/-- `usize` addition with overflow checks (S11, S15) -/
def usizeAddPanics (a b : Nat) : Bool := decide (a + b > usizeMax)

/-! ## zobrist.rs -/

/-- S4 `STEP_VALUES[step]` -/
def stepValuePanics (step : Nat) : Bool := decide (step ≥ Z_STEP_VALUES.length)

/-- S5 `TABLE[i][j]` -/
def tbl2Panics (t : List (List BB)) (i j : Nat) : Bool :=
  decide (i ≥ t.length) || decide (j ≥ (t.getD i []).length)

/-- `piece_value` (no `panic!` arm; S5) -/
def pieceValuePanics (sq : Nat) (p : Piece) (isP1 : Bool) : Bool :=
  match pieceValueIdx p with
  | some i => tbl2Panics Z_SQUARE_VALUES (i + if isP1 then pieceValueP1Offset else pieceValueP2Offset) sq
  | none => true

/-- `push_piece_value`: S6 then S5 -/
def pushPieceValuePanics (sq : Nat) (p : Piece) : Bool :=
  match pushValueIdx p with
  | some i => tbl2Panics Z_PUSH_VALUES i sq
  | none => true

/-- `pull_piece_value`: S7 then S5 -/
def pullPieceValuePanics (sq : Nat) (p : Piece) : Bool :=
  match pullValueIdx p with
  | some i => tbl2Panics Z_POSSIBLE_PULL_VALUES i sq
  | none => true

/-- the `piece_value` calls of one `for square in map_bit_board_to_squares(x)` loop -/
def xorOverPanics (x : BB) (p : Piece) (isP1 : Bool) : Bool :=
  (squaresOf x).any (fun sq => pieceValuePanics sq p isP1)

/-- `Zobrist::from_piece_board`: S4, then the twelve loops -/
def zFromPieceBoardPanics (b : Board) (step : Nat) : Bool :=
  stepValuePanics step || planes.any (fun op => xorOverPanics (b.bitsForPiece op.2 op.1) op.2 op.1)

/-- `piece_board_value(prev, new)` -/
def pieceBoardValuePanics (prev new : Board) : Bool :=
  planes.any (fun op =>
    xorOverPanics (prev.bitsForPiece op.2 op.1 ^^^ new.bitsForPiece op.2 op.1) op.2 op.1)

/-- `step_value(prev_step, new_step)` -/
def stepValue2Panics (prevStep newStep : Nat) : Bool := stepValuePanics prevStep || stepValuePanics newStep

/-- `Zobrist::move_piece` after `prev_game_state.current_step()` returned `prevStep` (that call is
S3 in the place phase; every caller has unwrapped the play phase before) -/
def zMovePiecePanics (prevBoard : Board) (prevStep : Nat) (newBoard : Board) (newStep : Nat) : Bool :=
  pieceBoardValuePanics prevBoard newBoard || stepValue2Panics prevStep newStep

/-- `Zobrist::place_piece` -/
def zPlacePiecePanics (p : Piece) (sq : Nat) (isP1 switchPhases : Bool) : Bool :=
  pieceValuePanics sq p isP1 || (switchPhases && stepValuePanics 0)

/-- `Zobrist::pass` -/
def zPassPanics (step : Nat) : Bool := stepValuePanics 0 || stepValuePanics step

/-- `Zobrist::exclude_step` -/
def zExcludeStepPanics (step : Nat) : Bool := stepValuePanics 0 || stepValuePanics step

/-- `Zobrist::board_state_hash_with_push_pull_state` -/
def zWithPPSPanics : PPS → Bool
  | .mustCompletePush sq p => pushPieceValuePanics sq p
  | .possiblePull sq p => pullPieceValuePanics sq p
  | .none => false

/-! ## engine.rs: boards -/

/-- `PieceBoardState::piece_type_at_square` (public): S1 -/
def Board.pieceTypeAtSquarePanics (_b : Board) (sq : Nat) : Bool := sqBitPanics sq

/-- `PieceBoardState::placement_bit` (public): S2 on `!all & placement_mask` -/
def Board.placementBitPanics (b : Board) : Bool :=
  let mask := if (b.p1 &&& P1_PLACEMENT_MASK) == P1_PLACEMENT_MASK then P2_PLACEMENT_MASK
    else P1_PLACEMENT_MASK
  firstSetBitPanics (~~~b.all &&& mask)

/-- `PieceBoard::move_piece`: S1 on the source square -/
def Board.movePiecePanics (_b : Board) (sq : Nat) : Bool := sqBitPanics sq

/-- `PieceBoard::take_action` (private): S9, else `move_piece` -/
def Board.takeActionPanics (b : Board) : Action → Bool
  | .move sq _ => b.movePiecePanics sq
  | _ => true

/-- S10 `unwrap_must_complete_push` -/
def PPS.unwrapMustCompletePushPanics (p : PPS) : Bool := !p.isMustCompletePush

namespace GameState

/-- S3 `unwrap_play_phase` -/
def unwrapPlayPhasePanics (s : GameState) : Bool := !s.isPlay

/-! ## engine.rs: private helpers (each is only called after the play phase was matched) -/

/-- `must_complete_push_actions`: S10, then S1 on the status square; inside the loop
`Square::from_bit_board(pushing_piece_bit)` is guarded by `pushing_piece_bit != 0` and cannot panic -/
def mustCompletePushActionsPanics (pp : PlayPhase) : Bool :=
  match pp.pps with
  | .mustCompletePush sq _ => sqBitPanics sq
  | _ => true

/-- `extend_with_pull_piece_actions`: S1 on the status square of a possible pull; constructing the
pulled piece's square cannot panic -/
def pullExtendPanics (pp : PlayPhase) : Bool :=
  match pp.pps with
  | .possiblePull sq _ => sqBitPanics sq
  | _ => false

/-- `can_pass`: `step ≥ 1 && !must_complete_push && (!check || (init != exclude_step(step) &&
!twice(hist, pass(step))))`, S4 in `exclude_step` and (only if the first comparison is true) in `pass` -/
def canPassPanics (s : GameState) (checkRep : Bool) : Bool :=
  match s.phase with
  | .play pp =>
    decide (pp.step ≥ 1) && !pp.pps.isMustCompletePush && checkRep &&
      (zExcludeStepPanics pp.step ||
        ((pp.initHash != zExcludeStep s.hash pp.step) && zPassPanics pp.step))
  | .place => false

/-- `is_passing_like_action`: for a step, `PieceBoard::take_action` (S1), then `Zobrist::move_piece`
twice with the same board and steps (S4 on the current step) -/
def isPassingLikeActionPanics (s : GameState) (pp : PlayPhase) (a : Action) : Bool :=
  match a with
  | .move sq d =>
    s.board.takeActionPanics a || zMovePiecePanics s.board pp.step (s.board.takeMove sq d).1 0
  | _ => false

/-- `remove_passing_like_actions`: `retain` calls the predicate on every element -/
def removePassingLikeActionsPanics (s : GameState) (pp : PlayPhase) (va : List Action) : Bool :=
  pp.step == 3 && !pp.trapped && va.any (fun a => s.isPassingLikeActionPanics pp a)

/-- the `for` loop of `has_non_passing_like_action`: it returns at the first action that is not
passing-like, later actions are not examined -/
def hnplLoopPanics (s : GameState) (pp : PlayPhase) : List Action → Bool
  | [] => false
  | a :: rest =>
    s.isPassingLikeActionPanics pp a || (s.isPassingLikeAction pp a && hnplLoopPanics s pp rest)

/-- `has_non_passing_like_action` -/
def hasNonPassingLikeActionPanics (s : GameState) (pp : PlayPhase) (va : List Action) : Bool :=
  if va.isEmpty then false
  else if decide (pp.step < 3) || pp.trapped then false
  else hnplLoopPanics s pp va

/-- the vector `valid_actions_` holds before `remove_passing_like_actions` -/
def rawActions (s : GameState) (pp : PlayPhase) (checkRep : Bool) : List Action :=
  if pp.pps.isMustCompletePush then s.mustCompletePushActions pp s.board
  else
    let va := s.pushActions pp s.board
    let va := s.pullExtend pp s.board va
    let va := va ++ s.ownMoves s.board
    if s.canPass checkRep then va ++ [Action.pass] else va

/-- `move_can_be_counted_as_pull`: S1 on the status square of a possible pull -/
def moveCanBeCountedAsPullPanics (pp : PlayPhase) : Bool :=
  match pp.pps with
  | .possiblePull prevSq _ => sqBitPanics prevSq
  | _ => false

/-- `next_push_pull_state`: S1 on the source square, then
`is_opponent_piece && !move_can_be_counted_as_pull(..)` -/
def nextPushPullStatePanics (s : GameState) (pp : PlayPhase) (sq : Nat) : Bool :=
  sqBitPanics sq || (s.isTheirPiece (sqBit sq) s.board && moveCanBeCountedAsPullPanics pp)

/-! ## engine.rs, display.rs: the public queries of `GameState` -/

/-- `valid_actions_` -/
def validActions_Panics (s : GameState) (checkRep : Bool) : Bool :=
  match s.phase with
  | .play pp =>
    (if pp.pps.isMustCompletePush then mustCompletePushActionsPanics pp
      else pullExtendPanics pp || s.canPassPanics checkRep) ||
    (checkRep && s.removePassingLikeActionsPanics pp (s.rawActions pp checkRep))
  | .place => false

/-- `valid_actions` -/
def validActionsPanics (s : GameState) : Bool := s.validActions_Panics true
/-- `valid_actions_no_rep` -/
def validActionsNoRepPanics (s : GameState) : Bool := s.validActions_Panics false

/-- `has_move(piece_board)`: the `else if` chain stops at the first branch that yields `true` -/
def hasMovePanics (s : GameState) (b : Board) : Bool :=
  match s.phase with
  | .play pp =>
    if pp.pps.isMustCompletePush then
      mustCompletePushActionsPanics pp ||
        s.hasNonPassingLikeActionPanics pp (s.mustCompletePushActions pp b)
    else
      s.canPassPanics true ||
      (!s.canPass true &&
        (s.hasNonPassingLikeActionPanics pp (s.ownMoves b) ||
        (!s.hasNonPassingLikeAction pp (s.ownMoves b) &&
          (pullExtendPanics pp || s.hasNonPassingLikeActionPanics pp (s.pullExtend pp b []) ||
          (!s.hasNonPassingLikeAction pp (s.pullExtend pp b []) &&
            s.hasNonPassingLikeActionPanics pp (s.pushActions pp b))))))
  | .place => false

/-- `is_terminal`: `has_move` is reached at `step > 0`, or at step 0 when neither a goal nor a
rabbit loss decides -/
def isTerminalPanics (s : GameState) : Bool :=
  match s.phase with
  | .play pp =>
    if pp.step > 0 then s.hasMovePanics s.board
    else if (s.rabbitAtGoal s.board).isSome || (s.lostAllRabbits s.board).isSome then false
    else s.hasMovePanics s.board
  | .place => false

/-- `transposition_hash` -/
def transpositionHashPanics (s : GameState) : Bool :=
  match s.phase with
  | .play pp => zWithPPSPanics pp.pps
  | .place => false

/-- `current_step`: S3 -/
def stepPanics (s : GameState) : Bool := s.unwrapPlayPhasePanics

/-- `piece_board_for_step(i)`: `current_step()` (S3), then, unless `i` is the current step, S8 -/
def pieceBoardForStepPanics (s : GameState) (i : Nat) : Bool :=
  match s.phase with
  | .play pp => decide (i ≠ pp.step) && decide (i ≥ pp.prev.length)
  | .place => true

/-- `trapped_animal_for_action`: for a step, `move_piece` (S1); if something hangs on a trap:
`as_bit_board` of the lowest trapped square (S1), the `unwrap` (S12), `as_bit_board` again -/
def trappedAnimalForActionPanics (s : GameState) (a : Action) : Bool :=
  match a with
  | .move sq d =>
    s.board.movePiecePanics sq ||
      (let b := s.board.movePiece sq d
       let t := b.trappedPieceBits
       t != 0 &&
        (b.pieceTypeAtSquarePanics (sqOfBit t) || (b.pieceTypeAtSquare (sqOfBit t)).isNone ||
          sqBitPanics (sqOfBit t)))
  | _ => false

/-- `Display for GameState`: per cell `piece_type_at_square` (S1) and, for an occupied cell,
`as_bit_board` again; the cell indices are `0..64`, the subtraction `BOARD_HEIGHT - row_idx` has
`row_idx < 8` -/
def showStatePanics (s : GameState) : Bool :=
  (List.range (BOARD_HEIGHT * BOARD_WIDTH)).any fun idx =>
    s.board.pieceTypeAtSquarePanics idx || ((s.board.pieceTypeAtSquare idx).isSome && sqBitPanics idx)

/-- `place` (reached from `take_action` in either phase): `placement_bit` (S2), then
`Zobrist::place_piece` on the placement square -/
def placePanics (s : GameState) (p : Piece) : Bool :=
  s.board.placementBitPanics ||
    zPlacePiecePanics p (sqOfBit s.board.placementBit) s.p1Turn
      (s.board.placementBit == LAST_P2_PLACEMENT_MASK)

/-- `pass`: `current_step()` (S3), `Zobrist::pass` (S4), the move number (S11) -/
def passPanics (s : GameState) : Bool :=
  match s.phase with
  | .play pp => zPassPanics pp.step || usizeAddPanics s.moveNo (if s.p1Turn then 0 else 1)
  | .place => true

/-- `move_piece`: S3; `PieceBoard::take_action` (S1); `curr_step + 1` (S15); the move number
(S11); `Zobrist::move_piece` (S4); before the fourth step `next_push_pull_state` -/
def movePiecePanics (s : GameState) (sq : Nat) (d : Dir) : Bool :=
  match s.phase with
  | .play pp =>
    let cur := pp.step
    let last := decide (cur ≥ 3)
    let newTurn := if last then !s.p1Turn else s.p1Turn
    let newStep := if last then 0 else cur + 1
    s.board.takeActionPanics (.move sq d) ||
      (!last && usizeAddPanics cur 1) ||
      usizeAddPanics s.moveNo (if last && newTurn then 1 else 0) ||
      zMovePiecePanics s.board cur (s.board.takeMove sq d).1 newStep ||
      (!last && s.nextPushPullStatePanics pp sq)
  | .place => true

/-- `take_action` -/
def takeActionPanics (s : GameState) : Action → Bool
  | .pass => s.passPanics
  | .place p => s.placePanics p
  | .move sq d => s.movePiecePanics sq d

end GameState

/-! ## the names used by the line-protocol driver -/

/-- `take_action(a)` -/
def panics_take (s : GameState) (a : Action) : Bool := s.takeActionPanics a
/-- `trapped_animal_for_action(a)` -/
def panics_preview (s : GameState) (a : Action) : Bool := s.trappedAnimalForActionPanics a
/-- `piece_board_for_step(i)` -/
def panics_pbs (s : GameState) (i : Nat) : Bool := s.pieceBoardForStepPanics i

def panics_valid_actions (s : GameState) : Bool := s.validActionsPanics
def panics_valid_actions_no_rep (s : GameState) : Bool := s.validActionsNoRepPanics
def panics_is_terminal (s : GameState) : Bool := s.isTerminalPanics
/-- `has_move(self.piece_board())` -/
def panics_has_move (s : GameState) : Bool := s.hasMovePanics s.board
def panics_can_pass (s : GameState) (checkRep : Bool) : Bool := s.canPassPanics checkRep
def panics_transposition_hash (s : GameState) : Bool := s.transpositionHashPanics
def panics_display (s : GameState) : Bool := s.showStatePanics
def panics_current_step (s : GameState) : Bool := s.stepPanics

/-- (query name, guard) for the parameterless public queries of `GameState` -/
def panicReport (s : GameState) : List (String × Bool) :=
  [("valid_actions", panics_valid_actions s),
   ("valid_actions_no_rep", panics_valid_actions_no_rep s),
   ("is_terminal", panics_is_terminal s),
   ("has_move", panics_has_move s),
   ("can_pass(false)", panics_can_pass s false),
   ("can_pass(true)", panics_can_pass s true),
   ("transposition_hash", panics_transposition_hash s),
   ("display", panics_display s),
   ("current_step", panics_current_step s)]

end Arimaa
