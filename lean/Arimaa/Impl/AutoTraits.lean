import Arimaa.Gen.Types

/-!
# Rust's structural auto-trait rules (`Send`, `Sync`) as an evaluator over the type inventory

`Gen/Types.lean` (regenerated from the crate's sources on every run) lists every struct and enum of
the crate with all its field types.  This file evaluates, for a type expression, whether rustc's
*structural* derivation of the auto traits `Send` and `Sync` succeeds:

* primitives are `Send ∧ Sync`;
* a struct / enum of the crate is `Send` (`Sync`) iff all its field types are, with the type
  parameters substituted by the actual arguments;
* `Vec`, `Option`, `Box`, arrays, slices and tuples propagate the trait from their arguments;
* `Arc<T>` is `Send` (and `Sync`) iff `T` is `Send ∧ Sync`;
* `&T` is `Send` iff `T : Sync`, and `Sync` iff `T : Sync`;
* `Rc<T>` and raw pointers have neither; `Cell`, `RefCell`, `UnsafeCell` are `Send` iff `T` is but are
  never `Sync`; `Mutex<T>` is `Send` and `Sync` iff `T : Send`;
* every other type constructor is unknown and fails both (conservative), as does a free type
  variable, and a manual (unchecked) `impl Send`/`impl Sync` is never taken into account.

Recursive types (`Node<T>` contains `Option<Arc<Node<T>>>`) are handled the way rustc handles auto
traits: coinductively.  The evaluator carries the set of obligations `(trait, name, args)` that are
being evaluated; meeting one of them again counts as success (greatest fixed point).  Termination is
by fuel; running out of fuel is a failure (conservative).

What is *not* modelled: rustc's trait solver itself (where-clauses, negative impls, `PhantomData`,
`dyn Trait`, function pointers, closures); the harness cross-checks the verdicts with rustc through
`fn assert_send_sync<T: Send + Sync>()`.
-/

namespace Arimaa.AutoTraits
open Arimaa

/-- the two auto traits of interest -/
inductive Trait where
  | send
  | sync
  deriving DecidableEq, Repr

mutual
/-- structural equality of type expressions (the generated `TyExpr` has no `BEq`) -/
def tyBeq : TyExpr → TyExpr → Bool
  | .prim a, .prim b => a == b
  | .var a, .var b => a == b
  | .ref a, .ref b => tyBeq a b
  | .rawptr, .rawptr => true
  | .app n as, .app m bs => n == m && tyBeqList as bs
  | _, _ => false
/-- pointwise `tyBeq` on argument lists -/
def tyBeqList : List TyExpr → List TyExpr → Bool
  | [], [] => true
  | a :: as, b :: bs => tyBeq a b && tyBeqList as bs
  | _, _ => false
end

mutual
/-- substitute type parameters by actual arguments -/
def subst (env : List (String × TyExpr)) : TyExpr → TyExpr
  | .prim p => .prim p
  | .var v => match env.lookup v with
      | some t => t
      | none => .var v
  | .ref t => .ref (subst env t)
  | .rawptr => .rawptr
  | .app n as => .app n (substList env as)
/-- `subst` on argument lists -/
def substList (env : List (String × TyExpr)) : List TyExpr → List TyExpr
  | [] => []
  | a :: as => subst env a :: substList env as
end

/-- Rust's primitive scalar types; all are `Send ∧ Sync` -/
def primitives : List String :=
  ["u8", "u16", "u32", "u64", "u128", "usize", "i8", "i16", "i32", "i64", "i128", "isize",
   "bool", "char", "f32", "f64"]

/-- std containers that own their contents and propagate `Send` / `Sync` from their arguments -/
def propagating : List String := ["Vec", "Option", "Box", "array", "slice", "tuple"]

/-- an obligation under evaluation: trait, type name, actual arguments -/
abbrev Goal := Trait × String × List TyExpr

/-- is this obligation already being evaluated (coinductive hypothesis)? -/
def assumedMem (g : Goal) (assumed : List Goal) : Bool :=
  assumed.any fun a => decide (a.1 = g.1) && a.2.1 == g.2.1 && tyBeqList a.2.2 g.2.2

/-- find a struct/enum of the crate by name -/
def findDecl (decls : List TyDecl) (name : String) : Option TyDecl :=
  decls.find? fun d => d.name == name

/-- `holds decls fuel tr assumed t`: rustc's structural derivation of `t : tr` succeeds, given the crate's
type declarations `decls`, assuming the obligations in `assumed` (those currently being evaluated). -/
def holds (decls : List TyDecl) : Nat → Trait → List Goal → TyExpr → Bool
  | 0, _, _, _ => false
  | fuel + 1, tr, assumed, t =>
    match t with
    | .prim p => primitives.contains p
    | .var _ => false
    | .rawptr => false
    | .ref u => holds decls fuel .sync assumed u          -- `&T: Send ⇔ T: Sync`, `&T: Sync ⇔ T: Sync`
    | .app name args =>
      match findDecl decls name with
      | some d =>
        -- a type of the crate: all fields, parameters substituted; coinductive on cycles
        if d.params.length != args.length then false
        else if assumedMem (tr, name, args) assumed then true
        else
          let env := d.params.zip args
          d.fields.all fun f => holds decls fuel tr ((tr, name, args) :: assumed) (subst env f)
      | none =>
        if propagating.contains name then args.all fun a => holds decls fuel tr assumed a
        else if name == "Arc" then
          match args with
          | [a] => holds decls fuel .send assumed a && holds decls fuel .sync assumed a
          | _ => false
        else if name == "Mutex" then
          match args with
          | [a] => holds decls fuel .send assumed a
          | _ => false
        else if name == "Cell" || name == "RefCell" || name == "UnsafeCell" then
          match tr, args with
          | .send, [a] => holds decls fuel .send assumed a
          | _, _ => false
        else if name == "String" then args.isEmpty
        else false   -- `Rc`, and every constructor not known here

/-- fuel used for the crate's inventory (nesting depth of the types is below 10) -/
def defaultFuel : Nat := 64

/-- `t : Send` by structural derivation over the generated inventory -/
def isSend (t : TyExpr) : Bool := holds Gen.typeDecls defaultFuel .send [] t
/-- `t : Sync` by structural derivation over the generated inventory -/
def isSync (t : TyExpr) : Bool := holds Gen.typeDecls defaultFuel .sync [] t

mutual
/-- all type constructor names occurring in a type expression (`"*ptr"` for raw pointers) -/
def ctors : TyExpr → List String
  | .prim _ => []
  | .var _ => []
  | .ref t => ctors t
  | .rawptr => ["*ptr"]
  | .app n as => n :: ctorsList as
/-- `ctors` on argument lists -/
def ctorsList : List TyExpr → List String
  | [] => []
  | a :: as => ctors a ++ ctorsList as
end

/-- constructors that give shared mutability or non-atomic sharing -/
def sharedMutCtors : List String :=
  ["Rc", "Cell", "RefCell", "UnsafeCell", "OnceCell", "Mutex", "RwLock", "OnceLock", "LazyLock",
   "AtomicUsize", "AtomicBool", "AtomicU64", "AtomicPtr", "*ptr"]

/-- no field of any declared type mentions a shared-mutability constructor or a raw pointer -/
def noSharedMutFields (decls : List TyDecl) : Bool :=
  decls.all fun d => d.fields.all fun f => (ctors f).all fun c => !sharedMutCtors.contains c

/-- replace a type constructor name throughout an inventory (used to exhibit the `Arc → Rc` mutant) -/
def renameCtor (a b : String) (decls : List TyDecl) : List TyDecl :=
  let rec go : Nat → TyExpr → TyExpr
    | 0, t => t
    | n + 1, t => match t with
      | .app m as => .app (if m == a then b else m) (as.map (go n))
      | .ref u => .ref (go n u)
      | u => u
  decls.map fun d => { d with fields := d.fields.map (go 32) }

end Arimaa.AutoTraits
