/-!
# Threads expanding shared, immutable, reference-counted history lists

A small heap model for property C18 (b).  The heap is split in two:

* `fields : NodeId → Option Fields` — `(elem, next, len)` of every allocated node.  The **only** write to
  `fields` in the whole semantics is the allocation of a fresh node by `append` (`Effect.alloc`), at an
  address in the allocating thread's own arena.
* `arcs : NodeId → Meta` — the mutable part of the `Arc`: the strong count, kept as the ghost list of
  its owners (`count = owners.length`; a real `Arc` stores only the number), and a `freed` flag.

Threads run *programs* (`Prog`): continuation trees whose instructions are the atomic steps of the
engine's read-only expansion code on history lists — read `elem` / `len` through a reference (`iter`,
`len`), `clone` a handle (count + 1), `append` (clone of the head + allocation of a fresh node), `drop` a
handle.  A dropped handle is released by the thread in further atomic steps, exactly as the repaired
`Drop` loop does: decrement (`Rel.dec`); if that was the last owner, free the node (`Rel.free`) and go on
to decrement its `next`.  Every value handed to a continuation is also appended to the thread's `trace`.
A schedule is an arbitrary `List Nat` of thread ids; `step s t` is one atomic step of thread `t`.

References (`Ref`) start at a shared root handle (the `&GameState` the threads were given) or at one of
the thread's own handles and follow `next` a number of times.

**Assumptions, not modelled** (stated in the evidence for C18):
* each count operation (`clone`'s increment, `drop`'s decrement-and-test) is atomic — one `step`;
* there are no data races below the type system (each `step` reads and writes the heap atomically);
* addresses are abstract: thread `t` allocates in arena `t + 1` (arena `0` holds the nodes that existed
  before the threads started), so the address a thread obtains does not depend on the schedule, and
  freed addresses are not reused;
* a thread can only traverse nodes of arena `0` and of its own arena (`inView`): nodes allocated by
  another thread are not reachable from the shared roots nor from the thread's own handles — Rust's
  ownership discipline plus the absence of shared mutable state (`C18_immutable`) — the semantics
  enforces this by resolving references inside the thread's *view*;
* `free` only sets a flag and keeps the fields, so that the model can say what a read of a freed node
  would be; such reads are what the count discipline excludes.
-/

namespace Arimaa.Conc

/-- abstract address: arena `0` = allocated before the threads start, arena `t + 1` = by thread `t` -/
structure NodeId where
  arena : Nat
  idx : Nat
  deriving DecidableEq, Repr

/-- the immutable part of a node -/
structure Fields where
  elem : Nat
  next : Option NodeId
  len : Nat
  deriving DecidableEq, Repr

/-- identity of a strong reference (ghost) -/
inductive Owner where
  /-- a handle held by the spawning thread (the shared state) -/
  | root (i : Nat)
  /-- handle number `k` of thread `t` -/
  | handle (t k : Nat)
  /-- the `next` field of a node -/
  | node (id : NodeId)
  deriving DecidableEq, Repr

/-- the mutable part of an `Arc` allocation -/
structure Meta where
  /-- the strong count is `owners.length` -/
  owners : List Owner := []
  freed : Bool := false
  deriving DecidableEq, Repr

/-- the atomic strong count -/
def Meta.count (m : Meta) : Nat := m.owners.length

/-- what a thread can see of the immutable heap -/
abbrev View := NodeId → Option Fields

/-- where a reference starts -/
inductive Base where
  | root (i : Nat)
  | own (key : Nat)
  deriving DecidableEq, Repr

/-- `base.next.next…` (`depth` times) -/
structure Ref where
  base : Base
  depth : Nat
  deriving DecidableEq, Repr

/-- programs: each instruction passes its result to the continuation -/
inductive Prog where
  | done
  /-- `Some(elem)` of the node the reference leads to, `None` past the end (`Iterator::next`) -/
  | readElem (r : Ref) (k : Option Nat → Prog)
  /-- stored length (`List::len`), `None` past the end -/
  | readLen (r : Ref) (k : Option Nat → Prog)
  /-- `Arc::clone`: a new handle (its key) to the node the reference leads to -/
  | clone (r : Ref) (k : Option Nat → Prog)
  /-- `List::append` to the list starting at `r` (`none` = empty list): key of the new handle -/
  | append (r : Option Ref) (elem : Nat) (k : Option Nat → Prog)
  /-- drop the handle `key` -/
  | drop (key : Nat) (k : Prog)

/-- thread-local state -/
structure Local where
  prog : Prog
  /-- owned handles: key ↦ node -/
  table : List (Nat × NodeId) := []
  /-- next handle key -/
  ctr : Nat := 0
  /-- next index in the thread's arena -/
  actr : Nat := 0
  /-- every value handed to a continuation so far, newest first -/
  trace : List (Option Nat) := []
  /-- number of instructions executed -/
  pc : Nat := 0

/-- releasing a dropped handle -/
inductive Rel where
  | idle
  /-- about to decrement the count of `id` (give up the reference `tok`) -/
  | dec (id : NodeId) (tok : Owner)
  /-- the count of `id` reached 0: about to free it -/
  | free (id : NodeId)
  deriving DecidableEq, Repr

structure Thread where
  loc : Local
  rel : Rel := .idle

structure State where
  fields : NodeId → Option Fields
  arcs : NodeId → Meta
  roots : List NodeId
  threads : List Thread

/-- pointwise update -/
def upd {β : Type} (f : NodeId → β) (a : NodeId) (b : β) : NodeId → β := fun x => if x = a then b else f x

/-- nodes thread `t` may traverse -/
def inView (t : Nat) (id : NodeId) : Bool := id.arena == 0 || id.arena == t + 1

/-- the part of the immutable heap thread `t` can see -/
def view (t : Nat) (fields : NodeId → Option Fields) : View := fun id => if inView t id then fields id else none

/-- follow `next` `d` times -/
def follow (V : View) : NodeId → Nat → Option NodeId
  | id, 0 => if (V id).isSome then some id else none
  | id, d + 1 =>
    match V id with
    | some f => match f.next with
      | some j => follow V j d
      | none => none
    | none => none

/-- the node a reference leads to -/
def resolve (V : View) (roots : List NodeId) (table : List (Nat × NodeId)) (r : Ref) : Option NodeId :=
  match (match r.base with
    | .root i => roots[i]?
    | .own k => table.lookup k) with
  | some id => follow V id r.depth
  | none => none

/-- effect of an instruction on the shared heap -/
inductive Effect where
  | none
  /-- count of `id` + 1 (new owner `tok`) -/
  | addOwner (id : NodeId) (tok : Owner)
  /-- write the fresh node `newid` with first owner `tok`; its `next` (if any) gains the owner `node newid` -/
  | alloc (newid : NodeId) (f : Fields) (tok : Owner)
  /-- start releasing the reference `tok` to `id` -/
  | release (id : NodeId) (tok : Owner)

/-- one instruction of thread `t`: new local state and heap effect, as a function of the thread's local
state and of what it can see of the immutable heap — no count is consulted -/
def instr (t : Nat) (roots : List NodeId) (V : View) (L : Local) : Local × Effect :=
  match L.prog with
  | .done => (L, .none)
  | .readElem r k =>
    let v := (resolve V roots L.table r).bind fun id => (V id).map (·.elem)
    ({ L with prog := k v, trace := v :: L.trace, pc := L.pc + 1 }, .none)
  | .readLen r k =>
    let v := (resolve V roots L.table r).bind fun id => (V id).map (·.len)
    ({ L with prog := k v, trace := v :: L.trace, pc := L.pc + 1 }, .none)
  | .clone r k =>
    match resolve V roots L.table r with
    | some id =>
      ({ L with prog := k (some L.ctr), table := (L.ctr, id) :: L.table, ctr := L.ctr + 1,
                trace := some L.ctr :: L.trace, pc := L.pc + 1 }, .addOwner id (.handle t L.ctr))
    | none => ({ L with prog := k none, trace := none :: L.trace, pc := L.pc + 1 }, .none)
  | .append r e k =>
    let nx := r.bind (resolve V roots L.table)
    let len := match nx.bind V with
      | some f => f.len + 1
      | none => 1
    let newid : NodeId := ⟨t + 1, L.actr⟩
    ({ L with prog := k (some L.ctr), table := (L.ctr, newid) :: L.table, ctr := L.ctr + 1, actr := L.actr + 1,
              trace := some L.ctr :: L.trace, pc := L.pc + 1 },
     .alloc newid { elem := e, next := nx, len := len } (.handle t L.ctr))
  | .drop key k =>
    match L.table.lookup key with
    | some id =>
      ({ L with prog := k, table := L.table.filter (fun p => p.1 != key), pc := L.pc + 1 }, .release id (.handle t key))
    | none => ({ L with prog := k, pc := L.pc + 1 }, .none)

/-- add an owner -/
def addOwner (arcs : NodeId → Meta) (id : NodeId) (tok : Owner) : NodeId → Meta :=
  upd arcs id { arcs id with owners := tok :: (arcs id).owners }

/-- one atomic step of thread `t` -/
def step (s : State) (t : Nat) : State :=
  match s.threads[t]? with
  | none => s
  | some th =>
    match th.rel with
    | .dec id tok =>
      -- atomic decrement-and-test
      let m := s.arcs id
      let o' := m.owners.erase tok
      { s with arcs := upd s.arcs id { m with owners := o' },
               threads := s.threads.set t { th with rel := if tok ∈ m.owners ∧ o' = [] then .free id else .idle } }
    | .free id =>
      { s with arcs := upd s.arcs id { s.arcs id with freed := true },
               threads := s.threads.set t { th with rel := match (s.fields id).bind (·.next) with
                 | some j => .dec j (.node id)
                 | none => .idle } }
    | .idle =>
      match instr t s.roots (view t s.fields) th.loc with
      | (L, .none) => { s with threads := s.threads.set t { th with loc := L } }
      | (L, .addOwner id tok) =>
        { s with arcs := addOwner s.arcs id tok, threads := s.threads.set t { th with loc := L } }
      | (L, .alloc newid f tok) =>
        let arcs1 := upd s.arcs newid { owners := [tok], freed := false }
        { s with fields := upd s.fields newid (some f),
                 arcs := match f.next with
                   | some j => addOwner arcs1 j (.node newid)
                   | none => arcs1,
                 threads := s.threads.set t { th with loc := L } }
      | (L, .release id tok) => { s with threads := s.threads.set t { loc := L, rel := .dec id tok } }

/-- run a schedule -/
def run (s : State) : List Nat → State
  | [] => s
  | t :: ts => run (step s t) ts

/-! ### the reference semantics: one thread, no counts, no frees -/

/-- one instruction on a view: only `append` changes the view, by adding the fresh node -/
def refStep (t : Nat) (roots : List NodeId) (x : View × Local) : View × Local :=
  match instr t roots x.1 x.2 with
  | (L, .alloc newid f _) => (upd x.1 newid (some f), L)
  | (L, _) => (x.1, L)

/-- `n` instructions -/
def refRun (t : Nat) (roots : List NodeId) : Nat → View × Local → View × Local
  | 0, x => x
  | n + 1, x => refRun t roots n (refStep t roots x)

end Arimaa.Conc
