import Arimaa.Gen.Types

/-!
# The persistent history list as a heap of reference-counted nodes, with an explicit frame stack

Model of `src/linked_list.rs` for property C20 (stack use of list operations).

* A `Heap` is a list of `Node`s; a node id is its index.  `Node` = `(elem, next, len, rc)`, `rc` is the
  strong count of the `Arc` that owns the node; `rc = 0` means the node has been freed (slots are
  never reused: addresses are abstract names).
* A `Link` (`Option<Arc<Node<T>>>`) is an `Option NodeId`; a `List<T>` handle is its `head` link.
* A configuration is a heap plus a **frame stack** (top first).  One `Frame` stands for one activation
  of a Rust function that is on the call stack: `step` performs one atomic action of the top frame,
  possibly pushing a callee frame or popping itself.  `height` of a configuration is the number of
  frames; the *depth* of an operation is the maximal height reached while it runs (`maxHeight`).

`drop` of a list handle exists in three variants:

* `glue` — no `impl Drop for List`: the compiler-generated drop glue.  Dropping a link decrements the
  count of the node; if it reaches 0 the node's fields are dropped **while the frame of the current
  node is still on the stack** (`dropNodeWait`), i.e. one more frame per uniquely owned node.
* `loopIntoInner` — the repaired code
  `while let Some(node) = link { link = match Arc::into_inner(node) { Some(mut n) => n.next.take(), None => None } }`:
  the frame of `List::drop` keeps a local `link`; each iteration calls the leaf `Arc::into_inner`
  (atomic decrement-and-test) and, if it obtained the node, drops the emptied node (`next` is `None`
  after `take`, its glue is the leaf `dropLink none`).
* `loopTryUnwrap` — the same loop with `Arc::try_unwrap`; on failure the `Arc` is handed back and
  dropped by the ordinary `Arc::drop`, which is the recursive glue again if, meanwhile, another
  thread has released its handle.

The variant in force is read off the generated `Gen.dropImpls`.

**What the model cannot exhibit.**  Frame *sizes*, inlining, and tail-call elimination are compiler
behaviour; one model frame stands for the handful of real frames (`drop_in_place::<Option<Arc<_>>>`,
`Arc::drop`, `Arc::drop_slow`, `drop_in_place::<Node<_>>`) involved in releasing one link.  The
theorems bound (or show unbounded) the *number* of frames; the check measures real stack use
separately.  Atomicity of `Arc`'s counter operations is an assumption (each is one `step`).
-/

namespace Arimaa.ListStack

abbrev NodeId := Nat
/-- `Option<Arc<Node<T>>>` -/
abbrev Link := Option NodeId

/-- `struct Node<T> { elem, next, len }` inside an `Arc` with strong count `rc` (0 = freed) -/
structure Node where
  elem : Nat
  next : Link
  len : Nat
  rc : Nat
  deriving Repr, DecidableEq, Inhabited

abbrev Heap := List Node

/-- the three shapes of `drop` for `List<T>` -/
inductive Variant where
  | glue
  | loopIntoInner
  | loopTryUnwrap
  deriving Repr, DecidableEq

/-- the variant selected by the crate's source, via the generated inventory -/
def variantOf (dropImpls : List (String × String)) : Variant :=
  match dropImpls.lookup "List" with
  | some "loopIntoInner" => .loopIntoInner
  | some "loopTryUnwrap" => .loopTryUnwrap
  | _ => .glue          -- absent, or a body of unrecognised shape: assume the worst

/-- the variant of the code under verification -/
def currentVariant : Variant := variantOf Arimaa.Gen.dropImpls

/-- leaf calls made by the straight-line list operations -/
inductive Prim where
  /-- `self.len()`: read the stored length of the head node -/
  | len (l : Link)
  /-- `self.head.clone()`: increment the count of the head node -/
  | cloneLink (l : Link)
  /-- `Arc::new(Node { elem, next, len })`: allocate a fresh node, count 1; `len` is the value the
  preceding `len` leaf returned, i.e. `lenOf next + 1` (nodes are immutable, re-reading is the same) -/
  | arcNew (elem : Nat) (next : Link)
  deriving Repr, DecidableEq

/-- activations on the call stack -/
inductive Frame where
  /-- drop glue of a link / `Arc::drop`, about to release `l` -/
  | dropLink (l : Link)
  /-- `Arc::drop_slow` + drop glue of node `id`, waiting for the nested drop of its `next` to return -/
  | dropNodeWait (id : NodeId)
  /-- `<List as Drop>::drop` (loop variants), local variable `link`; `tryUnwrap` tells which loop -/
  | listDrop (tryUnwrap : Bool) (link : Link)
  /-- leaf `Arc::into_inner(node)` -/
  | intoInner (id : NodeId)
  /-- leaf `Arc::try_unwrap(node)` -/
  | tryUnwrap (id : NodeId)
  /-- body of a straight-line operation (`new`, `append`, `clone`, `len`): leaf calls still to make -/
  | op (todo : List Prim)
  /-- a leaf call of a straight-line operation -/
  | prim (p : Prim)
  /-- `iter().filter(|h| *h == target).count()`: the loop, cursor and running count -/
  | iter (cur : Link) (target : Nat) (acc : Nat)
  /-- leaf `Iterator::next` -/
  | iterNext (id : NodeId)
  deriving Repr, DecidableEq

/-- heap, frame stack (top first), and the values returned so far (newest first) -/
structure Cfg where
  heap : Heap
  stack : List Frame
  out : List Nat := []
  deriving Repr, DecidableEq

/-- stored length of the list behind a link (`List::len`) -/
def lenOf (h : Heap) : Link → Nat
  | none => 0
  | some id => match h[id]? with
    | some n => n.len
    | none => 0

/-- overwrite the count of a node -/
def setRc (h : Heap) (id : NodeId) (n : Node) (rc : Nat) : Heap := h.set id { n with rc := rc }

/-- return from a leaf into the `List::drop` loop: assign its local `link` -/
def setLink (l : Link) : List Frame → List Frame
  | .listDrop tu _ :: rest => .listDrop tu l :: rest
  | rest => rest

/-- return from `Iterator::next` into the counting loop -/
def iterAdvance (nxt : Link) (elem : Nat) : List Frame → List Frame
  | .iter _ target acc :: rest => .iter nxt target (if elem = target then acc + 1 else acc) :: rest
  | rest => rest

/-- one atomic step of the top frame of a stack on a heap: new heap, new stack, value returned (if any) -/
def stepCore (h : Heap) : List Frame → Heap × List Frame × Option Nat
  | [] => (h, [], none)
  -- drop glue ------------------------------------------------------------------------------------
  | .dropLink none :: rest => (h, rest, none)
  | .dropLink (some id) :: rest =>
    match h[id]? with
    | none => (h, rest, none)                                -- dangling link: not produced by the operations
    | some n =>
      if n.rc = 1 then
        -- last owner: the node is dropped; its `next` is dropped in a nested activation
        (setRc h id n 0, .dropLink n.next :: .dropNodeWait id :: rest, none)
      else
        (setRc h id n (n.rc - 1), rest, none)
  | .dropNodeWait _ :: rest => (h, rest, none)               -- deallocate the box, return
  -- the explicit loops ---------------------------------------------------------------------------
  | .listDrop _ none :: rest => (h, rest, none)
  | .listDrop tu (some id) :: rest =>
    (h, (if tu then .tryUnwrap id else .intoInner id) :: .listDrop tu (some id) :: rest, none)
  | .intoInner id :: rest =>
    match h[id]? with
    | none => (h, setLink none rest, none)
    | some n =>
      if n.rc = 1 then
        -- `Some(mut n)`: `link = n.next.take()`, then the emptied node is dropped (leaf)
        (setRc h id n 0, .dropLink none :: setLink n.next rest, none)
      else
        -- `None`: somebody else still owns the node
        (setRc h id n (n.rc - 1), setLink none rest, none)
  | .tryUnwrap id :: rest =>
    match h[id]? with
    | none => (h, setLink none rest, none)
    | some n =>
      if n.rc = 1 then
        (setRc h id n 0, .dropLink none :: setLink n.next rest, none)
      else
        -- `Err(arc)`: count untouched, the returned `Arc` is dropped by the ordinary `Arc::drop`
        (h, .dropLink (some id) :: setLink none rest, none)
  -- straight-line operations ---------------------------------------------------------------------
  | .op [] :: rest => (h, rest, none)
  | .op (p :: ps) :: rest => (h, .prim p :: .op ps :: rest, none)
  | .prim (.len l) :: rest => (h, rest, some (lenOf h l))
  | .prim (.cloneLink none) :: rest => (h, rest, none)
  | .prim (.cloneLink (some id)) :: rest =>
    match h[id]? with
    | none => (h, rest, none)
    | some n => (setRc h id n (n.rc + 1), rest, none)
  | .prim (.arcNew elem next) :: rest =>
    (h ++ [{ elem := elem, next := next, len := lenOf h next + 1, rc := 1 }], rest, some h.length)
  -- iteration ------------------------------------------------------------------------------------
  | .iter none _ acc :: rest => (h, rest, some acc)
  | .iter (some id) target acc :: rest => (h, .iterNext id :: .iter (some id) target acc :: rest, none)
  | .iterNext id :: rest =>
    match h[id]? with
    | none => (h, iterAdvance none 0 rest, none)
    | some n => (h, iterAdvance n.next n.elem rest, none)

/-- one atomic step of a configuration -/
def step (c : Cfg) : Cfg :=
  let r := stepCore c.heap c.stack
  { heap := r.1, stack := r.2.1, out := r.2.2.toList ++ c.out }

/-- `k` steps -/
def run : Nat → Cfg → Cfg
  | 0, c => c
  | k + 1, c => run k (step c)

/-- number of frames on the stack -/
def height (c : Cfg) : Nat := c.stack.length

/-- the operation has returned -/
def finished (c : Cfg) : Prop := c.stack = []

instance (c : Cfg) : Decidable (finished c) := inferInstanceAs (Decidable (c.stack = []))

/-- maximal frame-stack height during the first `fuel` steps; if the operation finishes within `fuel`
steps this is its **depth** -/
def maxHeight : Nat → Cfg → Nat
  | 0, c => height c
  | fuel + 1, c => max (height c) (maxHeight fuel (step c))

/-! ### the operations of `List<T>` as initial configurations -/

/-- the public operations used by the engine -/
inductive ListOp where
  /-- `List::new()` -/
  | new
  /-- `l.append(elem)` -/
  | append (l : Link) (elem : Nat)
  /-- `l.clone()` -/
  | clone (l : Link)
  /-- `l.len()` -/
  | len (l : Link)
  /-- `l.iter().filter(|h| *h == target).count()` -/
  | iterCount (l : Link) (target : Nat)
  deriving Repr, DecidableEq

/-- the frame with which an operation starts -/
def opFrame : ListOp → Frame
  | .new => .op []
  | .append l x => .op [.len l, .cloneLink l, .arcNew x l]
  | .clone l => .op [.cloneLink l]
  | .len l => .op [.len l]
  | .iterCount l t => .iter l t 0

/-- start of a non-drop operation on heap `h` -/
def opCfg (h : Heap) (o : ListOp) : Cfg := { heap := h, stack := [opFrame o] }

/-- the frame with which `drop(List { head := l })` starts under a variant -/
def dropFrame : Variant → Link → Frame
  | .glue, l => .dropLink l
  | .loopIntoInner, l => .listDrop false l
  | .loopTryUnwrap, l => .listDrop true l

/-- start of `drop` of the handle `l` on heap `h` -/
def dropCfg (v : Variant) (h : Heap) (l : Link) : Cfg := { heap := h, stack := [dropFrame v l] }

/-! ### a long capture-free history -/

/-- node `i` of the history of a capture-free game whose earlier states have been discarded:
uniquely owned, pointing at node `i - 1` -/
def ownedNode (i : Nat) : Node :=
  { elem := i, next := if i = 0 then none else some (i - 1), len := i + 1, rc := 1 }

/-- heap holding one uniquely owned list of `n` nodes (the result of `n` times
`let l' = l.append(x); drop(l)`, see `ownedChain_succ_eq` in `Lemmas/ListStack.lean`) -/
def ownedChain (n : Nat) : Heap := (List.range n).map ownedNode

/-- its handle -/
def ownedHead (n : Nat) : Link := if n = 0 then none else some (n - 1)

/-! ### several threads on one heap (for the concurrent statements) -/

/-- shared heap, one frame stack per thread -/
structure Conc where
  heap : Heap
  stacks : List (List Frame)
  deriving Repr, DecidableEq

/-- thread `t` performs one atomic step (nothing happens for an unknown thread id) -/
def cstep (s : Conc) (t : Nat) : Conc :=
  match s.stacks[t]? with
  | none => s
  | some st =>
    let r := stepCore s.heap st
    { heap := r.1, stacks := s.stacks.set t r.2.1 }

/-- run a schedule -/
def crun (s : Conc) : List Nat → Conc
  | [] => s
  | t :: ts => crun (cstep s t) ts

/-- frame-stack height of thread `t` -/
def cheight (s : Conc) (t : Nat) : Nat := (s.stacks[t]?.getD []).length

end Arimaa.ListStack
