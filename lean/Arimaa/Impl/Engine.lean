import Arimaa.Impl.Zobrist

/-!
L1 — implementation model, part 3: `engine.rs`, function by function.

Every definition here mirrors one Rust function (named in its doc comment).  Functions that can
panic in Rust are total here; the panic sites are enumerated in `Panics.lean`.
-/
namespace Arimaa
open Gen

/-- `supported_pieces` -/
def supportedPieces (x : BB) : BB :=
  (x &&& shiftPiecesUp x) ||| (x &&& shiftPiecesRight x) ||| (x &&& shiftPiecesDown x) |||
    (x &&& shiftPiecesLeft x)

/-- `influenced_squares` -/
def influencedSquares (x : BB) : BB :=
  shiftPiecesUp x ||| shiftPiecesRight x ||| shiftPiecesDown x ||| shiftPiecesLeft x

/-- `both_player_supported_pieces` -/
def bothPlayerSupportedPieces (b : Board) : BB :=
  supportedPieces b.p1 ||| supportedPieces (b.all &&& ~~~b.p1)

/-- `both_player_unsupported_piece_bits` -/
def bothPlayerUnsupportedPieceBits (b : Board) : BB := b.all &&& ~~~bothPlayerSupportedPieces b

/-- `animal_is_on_trap` -/
def animalIsOnTrap (b : Board) : Bool := (b.all &&& TRAP_MASK) != 0

/-- `PieceBoardState::trapped_piece_bits` -/
def Board.trappedPieceBits (b : Board) : BB :=
  if animalIsOnTrap b then bothPlayerUnsupportedPieceBits b &&& TRAP_MASK else 0

/-- `piece_type_at_bit`: the generated if-chain -/
def pieceTypeAtBit (bit : BB) (b : Board) : Piece :=
  match pieceTypeAtBitChain.find? (fun fp => (b.typeBits fp.1 &&& bit) != 0) with
  | some fp => fp.2
  | none => pieceTypeAtBitDefault

/-- `PieceBoardState::piece_type_at_square` -/
def Board.pieceTypeAtSquare (b : Board) (sq : Nat) : Option Piece :=
  if (sqBit sq &&& b.all) != 0 then some (pieceTypeAtBit (sqBit sq) b) else none

/-- `PieceBoardState::placement_bit` -/
def Board.placementBit (b : Board) : BB :=
  let mask := if (b.p1 &&& P1_PLACEMENT_MASK) == P1_PLACEMENT_MASK then P2_PLACEMENT_MASK
    else P1_PLACEMENT_MASK
  firstSetBit (~~~b.all &&& mask)

/-- `can_move_in_direction` -/
def canMoveInDirection (d : Dir) (b : Board) : BB := shiftPiecesInOppDirection d (~~~b.all)

/-- `shift_piece_in_direction` -/
def shiftPieceInDirection (x src : BB) (d : Dir) : BB :=
  shiftInDirection d (x &&& src) ||| (x &&& ~~~src)

/-- `PieceBoard::move_piece` -/
def Board.movePiece (b : Board) (sq : Nat) (d : Dir) : Board :=
  let s := sqBit sq
  { elephants := shiftPieceInDirection b.elephants s d
    camels := shiftPieceInDirection b.camels s d
    horses := shiftPieceInDirection b.horses s d
    dogs := shiftPieceInDirection b.dogs s d
    cats := shiftPieceInDirection b.cats s d
    rabbits := shiftPieceInDirection b.rabbits s d
    p1 := shiftPieceInDirection b.p1 s d
    all := shiftPieceInDirection b.all s d }

/-- `PieceBoard::remove_trapped_pieces` -/
def Board.removeTrappedPieces (b : Board) : Board × Bool :=
  let t := b.trappedPieceBits
  if t != 0 then
    let u := ~~~t
    ({ elephants := b.elephants &&& u, camels := b.camels &&& u, horses := b.horses &&& u,
       dogs := b.dogs &&& u, cats := b.cats &&& u, rabbits := b.rabbits &&& u,
       p1 := b.p1 &&& u, all := b.all &&& u }, true)
  else (b, false)

/-- `PieceBoard::take_action` on `Action::Move` -/
def Board.takeMove (b : Board) (sq : Nat) (d : Dir) : Board × Bool :=
  (b.movePiece sq d).removeTrappedPieces

namespace GameState

def playPhase? (s : GameState) : Option PlayPhase :=
  match s.phase with
  | .play pp => some pp
  | .place => none

def isPlay (s : GameState) : Bool := s.playPhase?.isSome

/-- `current_step` (panics in the place phase; the total model answers 0 there) -/
def step (s : GameState) : Nat :=
  match s.phase with
  | .play pp => pp.step
  | .place => 0

/-- `curr_player_piece_mask` -/
def currPlayerPieceMask (s : GameState) (b : Board) : BB :=
  if s.p1Turn then b.p1 else ~~~b.p1 &&& b.all

/-- `opponent_piece_mask` -/
def opponentPieceMask (s : GameState) (b : Board) : BB :=
  if s.p1Turn then ~~~b.p1 &&& b.all else b.p1

/-- `threatened_pieces` -/
def threatenedPieces (pred prey : BB) (b : Board) : BB :=
  let eInf := influencedSquares (b.elephants &&& pred)
  let mInf := influencedSquares (b.camels &&& pred)
  let hInf := influencedSquares (b.horses &&& pred)
  let dInf := influencedSquares (b.dogs &&& pred)
  let cInf := influencedSquares (b.cats &&& pred)
  let camelThreats := eInf
  let horseThreats := camelThreats ||| mInf
  let dogThreats := horseThreats ||| hInf
  let catThreats := dogThreats ||| dInf
  let rabbitThreats := catThreats ||| cInf
  ((b.camels &&& camelThreats) ||| (b.horses &&& horseThreats) ||| (b.dogs &&& dogThreats) |||
    (b.cats &&& catThreats) ||| (b.rabbits &&& rabbitThreats)) &&& prey

/-- `curr_player_non_frozen_pieces` -/
def currPlayerNonFrozenPieces (s : GameState) (b : Board) : BB :=
  let opp := s.opponentPieceMask b
  let cur := ~~~opp &&& b.all
  let thr := threatenedPieces opp cur b
  cur &&& (~~~thr ||| supportedPieces cur)

/-- `invalid_rabbit_moves` -/
def invalidRabbitMoves (s : GameState) (d : Dir) (b : Board) : BB :=
  let back := if s.p1Turn then backwardDirP1 else backwardDirP2
  if d = back then (if s.p1Turn then b.p1 else ~~~b.p1) &&& b.rabbits else 0

/-- `lesser_pieces` -/
def lesserPieces (p : Piece) (b : Board) : BB :=
  (lesserPiecesFields p).foldl (fun acc f => acc ||| b.typeBits f) 0

/-- `is_their_piece` -/
def isTheirPiece (s : GameState) (bit : BB) (b : Board) : Bool :=
  s.p1Turn ^^ ((bit &&& b.p1) != 0)

/-- `extend_with_valid_curr_player_piece_moves` (appended to an empty vector) -/
def ownMoves (s : GameState) (b : Board) : List Action :=
  let nf := s.currPlayerNonFrozenPieces b
  Dir_ALL.flatMap fun d =>
    (squaresOf (canMoveInDirection d b &&& nf &&& ~~~s.invalidRabbitMoves d b)).map (Action.move · d)

/-- `extend_with_push_piece_actions` (appended to an empty vector) -/
def pushActions (s : GameState) (pp : PlayPhase) (b : Board) : List Action :=
  if pp.pps.canPush && decide (pp.step < 3) then
    let pred := s.currPlayerNonFrozenPieces b
    let opp := s.opponentPieceMask b
    let thr := threatenedPieces pred opp b
    if thr != 0 then
      Dir_ALL.flatMap fun d => (squaresOf (canMoveInDirection d b &&& thr)).map (Action.move · d)
    else []
  else []

/-- `extend_with_pull_piece_actions`: extends `acc`, skipping actions it already contains -/
def pullExtend (s : GameState) (pp : PlayPhase) (b : Board) (acc : List Action) : List Action :=
  match pp.pps with
  | .possiblePull sq p =>
    let lesserOpp := lesserPieces p b &&& s.opponentPieceMask b
    let sb := sqBit sq
    Dir_ALL.foldl (fun acc d =>
      if (shiftPiecesInDirection d lesserOpp &&& sb) != 0 then
        let a := Action.move (sqOfBit (shiftPiecesInOppDirection d sb)) d
        if acc.contains a then acc else acc ++ [a]
      else acc) acc
  | _ => acc

/-- `must_complete_push_actions` (panics unless a push is pending; total model: `[]`) -/
def mustCompletePushActions (s : GameState) (pp : PlayPhase) (b : Board) : List Action :=
  match pp.pps with
  | .mustCompletePush sq pushed =>
    let nf := s.currPlayerNonFrozenPieces b
    let sb := sqBit sq
    Dir_ALL.flatMap fun d =>
      let bit := shiftPiecesInOppDirection d sb &&& nf
      if bit != 0 && Piece.lt pushed (pieceTypeAtBit bit b) then [Action.move (sqOfBit bit) d] else []
  | _ => []

/-- `hash_history_contains_hash_twice` -/
def histContainsTwice (hist : List BB) (h : BB) : Bool := decide ((hist.filter (· == h)).length ≥ 2)

/-- `can_pass` -/
def canPass (s : GameState) (checkRep : Bool) : Bool :=
  match s.phase with
  | .play pp =>
    decide (pp.step ≥ 1) && !pp.pps.isMustCompletePush &&
      (!checkRep ||
        ((pp.initHash != zExcludeStep s.hash pp.step) &&
          !histContainsTwice pp.hist (zPass s.hash pp.step)))
  | .place => false

/-- `is_passing_like_action` -/
def isPassingLikeAction (s : GameState) (pp : PlayPhase) (a : Action) : Bool :=
  match a with
  | .move sq d =>
    let nb := (s.board.takeMove sq d).1
    let hNoSwitch := zMovePiece s.hash s.p1Turn s.board pp.step nb 0 s.p1Turn
    let hSwitch := zMovePiece s.hash s.p1Turn s.board pp.step nb 0 (!s.p1Turn)
    hNoSwitch == pp.initHash || histContainsTwice pp.hist hSwitch
  | _ => false

/-- `remove_passing_like_actions` -/
def removePassingLikeActions (s : GameState) (pp : PlayPhase) (va : List Action) : List Action :=
  if pp.step == 3 && !pp.trapped then va.filter (fun a => !s.isPassingLikeAction pp a) else va

/-- `has_non_passing_like_action` -/
def hasNonPassingLikeAction (s : GameState) (pp : PlayPhase) (va : List Action) : Bool :=
  if va.isEmpty then false
  else if decide (pp.step < 3) || pp.trapped then true
  else va.any (fun a => !s.isPassingLikeAction pp a)

/-- `valid_placement` -/
def validPlacement (s : GameState) : List Action :=
  let cur := s.currPlayerPieceMask s.board
  placementTable.filterMap fun (f, lim, p) =>
    if popcount (s.board.typeBits f &&& cur) < lim then some (Action.place p) else none

/-- `valid_actions_` -/
def validActions_ (s : GameState) (checkRep : Bool) : List Action :=
  match s.phase with
  | .play pp =>
    let b := s.board
    let va :=
      if pp.pps.isMustCompletePush then s.mustCompletePushActions pp b
      else
        let va := s.pushActions pp b
        let va := s.pullExtend pp b va
        let va := va ++ s.ownMoves b
        if s.canPass checkRep then va ++ [Action.pass] else va
    if checkRep then s.removePassingLikeActions pp va else va
  | .place => s.validPlacement

def validActions (s : GameState) : List Action := s.validActions_ true
def validActionsNoRep (s : GameState) : List Action := s.validActions_ false

/-- `has_move` (the board argument is the state's own board at every call site of the crate;
the public method accepts any board, so it stays a parameter) -/
def hasMove (s : GameState) (b : Board) : Option Terminal :=
  let has :=
    match s.phase with
    | .play pp =>
      if pp.pps.isMustCompletePush then s.hasNonPassingLikeAction pp (s.mustCompletePushActions pp b)
      else if s.canPass true then true
      else if s.hasNonPassingLikeAction pp (s.ownMoves b) then true
      else if s.hasNonPassingLikeAction pp (s.pullExtend pp b []) then true
      else if s.hasNonPassingLikeAction pp (s.pushActions pp b) then true
      else false
    | .place => true
  if has then none else if s.p1Turn then some .silverWin else some .goldWin

/-- `rabbit_at_goal` -/
def rabbitAtGoal (s : GameState) (b : Board) : Option Terminal :=
  let p1Met := (b.p1 &&& b.rabbits &&& P1_OBJECTIVE_MASK) != 0
  let p2Met := (~~~b.p1 &&& b.rabbits &&& P2_OBJECTIVE_MASK) != 0
  if p1Met || p2Met then
    let lastIsP1 := !s.p1Turn
    let lastMet := if lastIsP1 then p1Met else p2Met
    let p1Won := !(lastIsP1 ^^ lastMet)
    some (if p1Won then .goldWin else .silverWin)
  else none

/-- `lost_all_rabbits` -/
def lostAllRabbits (s : GameState) (b : Board) : Option Terminal :=
  let p1Lost := (b.p1 &&& b.rabbits) == 0
  let p2Lost := (~~~b.p1 &&& b.rabbits) == 0
  if p1Lost || p2Lost then
    let lastIsP1 := !s.p1Turn
    let lastMet := if lastIsP1 then p2Lost else p1Lost
    let p1Won := !(lastIsP1 ^^ lastMet)
    some (if p1Won then .goldWin else .silverWin)
  else none

/-- `is_terminal` -/
def isTerminal (s : GameState) : Option Terminal :=
  match s.phase with
  | .play pp =>
    if pp.step > 0 then s.hasMove s.board
    else ((s.rabbitAtGoal s.board).orElse fun _ => s.lostAllRabbits s.board).orElse
      fun _ => s.hasMove s.board
  | .place => none

/-- `transposition_hash` -/
def transpositionHash (s : GameState) : BB :=
  match s.phase with
  | .play pp => zWithPPS s.hash pp.pps
  | .place => s.hash

/-- `piece_board_for_step` (panics out of range / in setup; total model: current board) -/
def pieceBoardForStep (s : GameState) (i : Nat) : Board :=
  match s.phase with
  | .play pp => if i = pp.step then s.board else pp.prev.getD i s.board
  | .place => s.board

/-- `trapped_animal_for_action` -/
def trappedAnimalForAction (s : GameState) (a : Action) : Option (Nat × Piece × Bool) :=
  match a with
  | .move sq d =>
    let b := s.board.movePiece sq d
    let t := b.trappedPieceBits
    if t != 0 then
      let tsq := sqOfBit t
      let p := (b.pieceTypeAtSquare tsq).getD pieceTypeAtBitDefault
      some (tsq, p, (b.bitsForPiece p true &&& sqBit tsq) != 0)
    else none
  | _ => none

/-- `move_can_be_counted_as_pull` -/
def moveCanBeCountedAsPull (pp : PlayPhase) (bit : BB) (d : Dir) (b : Board) : Bool :=
  match pp.pps with
  | .possiblePull prevSq myPiece =>
    sqBit prevSq == shiftInDirection d bit && Piece.lt (pieceTypeAtBit bit b) myPiece
  | _ => false

/-- `next_push_pull_state` -/
def nextPushPullState (s : GameState) (pp : PlayPhase) (sq : Nat) (d : Dir) : PPS :=
  let bit := sqBit sq
  let b := s.board
  let isOpp := s.isTheirPiece bit b
  let ty := pieceTypeAtBit bit b
  if isOpp && !moveCanBeCountedAsPull pp bit d b then .mustCompletePush sq ty
  else if !isOpp && !pp.pps.isMustCompletePush && ty != Piece.rabbit then .possiblePull sq ty
  else .none

/-- `GameState::initial` -/
def initial : GameState :=
  { p1Turn := true, moveNo := 1, phase := .place, board := Board.empty, hash := Z_INITIAL }

/-- `place` -/
def place (s : GameState) (p : Piece) : GameState :=
  let b := s.board
  let pb := b.placementBit
  let f := placeField p
  let add (g : Piece) (x : BB) : BB := if g = f then x ||| pb else x
  let nb := Board.new (b.p1 ||| (if s.p1Turn then pb else 0))
    (add .elephant b.elephants) (add .camel b.camels) (add .horse b.horses) (add .dog b.dogs)
    (add .cat b.cats) (add .rabbit b.rabbits)
  let switchPlayers := pb == LAST_P1_PLACEMENT_MASK
  let switchPhases := pb == LAST_P2_PLACEMENT_MASK
  let newTurn := if switchPlayers then false else if switchPhases then true else s.p1Turn
  let nh := zPlacePiece s.hash p (sqOfBit pb) s.p1Turn switchPlayers switchPhases
  { p1Turn := newTurn
    phase := if switchPhases then .play (PlayPhase.initial nh [nh]) else .place
    board := nb
    moveNo := if switchPhases then placeMoveNumberPlay else placeMoveNumberSetup
    hash := nh }

/-- `pass` (panics in the place phase; total model: identity there) -/
def pass (s : GameState) : GameState :=
  match s.phase with
  | .play pp =>
    let h := zPass s.hash pp.step
    let hist := (if pp.trapped then [] else pp.hist)
    { phase := .play (PlayPhase.initial h (h :: hist))
      p1Turn := !s.p1Turn
      moveNo := s.moveNo + (if s.p1Turn then 0 else 1)
      board := s.board
      hash := h }
  | .place => s

/-- `move_piece` (panics in the place phase; total model: identity there) -/
def movePiece (s : GameState) (sq : Nat) (d : Dir) : GameState :=
  match s.phase with
  | .play pp =>
    let cur := pp.step
    let last := decide (cur ≥ 3)
    let (nb, trappedNow) := s.board.takeMove sq d
    let newTurn := if last then !s.p1Turn else s.p1Turn
    let newStep := if last then 0 else cur + 1
    let newMoveNo := s.moveNo + (if last && newTurn then 1 else 0)
    let nh := zMovePiece s.hash s.p1Turn s.board cur nb newStep newTurn
    let hist := if trappedNow then [] else pp.hist
    let npp : PlayPhase :=
      if last then PlayPhase.initial nh (nh :: hist)
      else
        { initHash := pp.initHash
          pps := s.nextPushPullState pp sq d
          hist := hist
          prev := pp.prev ++ [s.board]
          trapped := pp.trapped || trappedNow }
    { p1Turn := newTurn, moveNo := newMoveNo, phase := .play npp, board := nb, hash := nh }
  | .place => s

/-- `take_action` -/
def takeAction (s : GameState) : Action → GameState
  | .pass => s.pass
  | .place p => s.place p
  | .move sq d => s.movePiece sq d

end GameState
end Arimaa
