import Arimaa.Impl.Basic
import Arimaa.Gen.Zobrist

/-!
L1 — implementation model, part 2: `zobrist.rs`.  Table lookups are total (`getD … 0`); the
panic sites (index out of range, pushed elephant, pulling rabbit) are listed in `Panics.lean`.
-/
namespace Arimaa
open Gen

def tbl2 (t : List (List BB)) (i j : Nat) : BB := (t.getD i []).getD j 0

def stepValueAt (step : Nat) : BB := Z_STEP_VALUES.getD step 0

/-- `piece_value(square, piece, is_p1)` -/
def pieceValue (sq : Nat) (p : Piece) (isP1 : Bool) : BB :=
  match pieceValueIdx p with
  | some i => tbl2 Z_SQUARE_VALUES (i + if isP1 then pieceValueP1Offset else pieceValueP2Offset) sq
  | none => 0

def pushPieceValue (sq : Nat) (p : Piece) : BB :=
  match pushValueIdx p with
  | some i => tbl2 Z_PUSH_VALUES i sq
  | none => 0

def pullPieceValue (sq : Nat) (p : Piece) : BB :=
  match pullValueIdx p with
  | some i => tbl2 Z_POSSIBLE_PULL_VALUES i sq
  | none => 0

/-- `PieceBoardState::bits_by_piece_type` -/
def Board.bitsByPieceType (b : Board) (p : Piece) : BB := b.typeBits (bitsByPieceTypeField p)

/-- `PieceBoardState::player_piece_mask` -/
def Board.playerPieceMask (b : Board) (p1 : Bool) : BB :=
  if p1 then b.p1 else ~~~b.p1 &&& b.all

/-- `PieceBoardState::bits_for_piece` -/
def Board.bitsForPiece (b : Board) (p : Piece) (p1 : Bool) : BB :=
  b.bitsByPieceType p &&& b.playerPieceMask p1

/-- XOR of `f sq` over the set bits of `x`, ascending -/
def xorOver (x : BB) (f : Nat → BB) : BB := (squaresOf x).foldl (fun acc sq => acc ^^^ f sq) 0

/-- the twelve (owner, piece) planes in the order of the code's double loop -/
def planes : List (Bool × Piece) := [true, false].flatMap (fun o => Piece_ALL.map (fun p => (o, p)))

/-- `Zobrist::from_piece_board` -/
def zFromPieceBoard (b : Board) (p1Turn : Bool) (step : Nat) : BB :=
  let h0 := Z_INITIAL
  let h1 := if !p1Turn then h0 ^^^ Z_PLAYER_TO_MOVE else h0
  let h2 := h1 ^^^ stepValueAt step
  planes.foldl (fun acc (op : Bool × Piece) =>
    acc ^^^ xorOver (b.bitsForPiece op.2 op.1) (fun sq => pieceValue sq op.2 op.1)) h2

/-- `piece_board_value(prev, new)` -/
def pieceBoardValue (prev new : Board) : BB :=
  planes.foldl (fun acc (op : Bool × Piece) =>
    acc ^^^ xorOver (prev.bitsForPiece op.2 op.1 ^^^ new.bitsForPiece op.2 op.1)
      (fun sq => pieceValue sq op.2 op.1)) 0

/-- `step_value(prev_step, new_step)` -/
def stepValue (prevStep newStep : Nat) : BB := stepValueAt prevStep ^^^ stepValueAt newStep

/-- `Zobrist::move_piece` (the previous state enters through its side, board and step) -/
def zMovePiece (h : BB) (prevP1 : Bool) (prevBoard : Board) (prevStep : Nat)
    (newBoard : Board) (newStep : Nat) (newP1 : Bool) : BB :=
  let ptm : BB := if prevP1 != newP1 then Z_PLAYER_TO_MOVE else 0
  h ^^^ ptm ^^^ pieceBoardValue prevBoard newBoard ^^^ stepValue prevStep newStep

/-- `Zobrist::place_piece` -/
def zPlacePiece (h : BB) (p : Piece) (sq : Nat) (isP1 switchPlayers switchPhases : Bool) : BB :=
  let ptm : BB := if switchPlayers || switchPhases then Z_PLAYER_TO_MOVE else 0
  let sv : BB := if switchPhases then stepValueAt 0 else 0
  h ^^^ ptm ^^^ pieceValue sq p isP1 ^^^ sv

/-- `Zobrist::pass` -/
def zPass (h : BB) (step : Nat) : BB := h ^^^ Z_PLAYER_TO_MOVE ^^^ stepValueAt 0 ^^^ stepValueAt step

/-- `Zobrist::exclude_step` -/
def zExcludeStep (h : BB) (step : Nat) : BB := h ^^^ stepValueAt 0 ^^^ stepValueAt step

/-- `Zobrist::board_state_hash_with_push_pull_state` -/
def zWithPPS (h : BB) : PPS → BB
  | .mustCompletePush sq p => h ^^^ pushPieceValue sq p
  | .possiblePull sq p => h ^^^ pullPieceValue sq p
  | .none => h ^^^ 0

end Arimaa
