import Arimaa.Gen.Enums

/-!
L1 — implementation model, part 1: data types of `engine.rs`, `action.rs`, `square.rs`.

Boards are `BitVec 64`; bit `i` is file `i % 8` (a = 0), rank `8 - i / 8`.
Squares are `Nat` (the code's `Square(u8)`); only values `< 64` occur in reachable states, the
others are kept so that the panic model (C19) can talk about them.
-/
namespace Arimaa

abbrev BB := BitVec 64

/-- `derive(PartialOrd, Ord)` on `enum Piece`: comparison of variant indices. -/
def Piece.idx (p : Piece) : Nat := p.ctorIdx

def Piece.lt (a b : Piece) : Bool := decide (a.idx < b.idx)

/-- `Square::as_bit_board`: `1 << self.0` (panics for `self.0 ≥ 64` with overflow checks; the
model is total and yields 0 there, `Panics.lean` carries the guard). -/
def sqBit (sq : Nat) : BB := 1#64 <<< sq

/-- `u64::trailing_zeros` -/
def tz64 (x : BB) : Nat := ((List.range 64).find? (fun i => x.getLsbD i)).getD 64

/-- `Square::from_bit_board`: `single_bit_index(board as u128) as u8` (128 for an empty board) -/
def sqOfBit (x : BB) : Nat := if x = 0 then 128 else tz64 x

/-- `first_set_bit`: `1 << trailing_zeros(bits)` (shift by 64 panics with overflow checks) -/
def firstSetBit (x : BB) : BB := 1#64 <<< tz64 x

/-- `map_bit_board_to_squares`: the set bits in ascending order -/
def squaresOf (x : BB) : List Nat := (List.range 64).filter (fun i => x.getLsbD i)

def popcount (x : BB) : Nat := (squaresOf x).length

inductive Action where
  | place (p : Piece)
  | move (sq : Nat) (d : Dir)
  | pass
  deriving DecidableEq, Repr, Inhabited

inductive PPS where
  | none
  | possiblePull (sq : Nat) (p : Piece)
  | mustCompletePush (sq : Nat) (p : Piece)
  deriving DecidableEq, Repr, Inhabited

def PPS.isMustCompletePush : PPS → Bool
  | .mustCompletePush _ _ => true
  | _ => false

def PPS.canPush (p : PPS) : Bool := !p.isMustCompletePush

/-- `PieceBoardState` -/
structure Board where
  p1 : BB
  all : BB
  elephants : BB
  camels : BB
  horses : BB
  dogs : BB
  cats : BB
  rabbits : BB
  deriving DecidableEq, Repr, Inhabited

/-- the raw per-type bitboard named after a piece type -/
def Board.typeBits (b : Board) : Piece → BB
  | .elephant => b.elephants
  | .camel => b.camels
  | .horse => b.horses
  | .dog => b.dogs
  | .cat => b.cats
  | .rabbit => b.rabbits

def Board.empty : Board := ⟨0, 0, 0, 0, 0, 0, 0, 0⟩

/-- `PieceBoard::new` -/
def Board.new (p1 e m h d c r : BB) : Board :=
  { p1 := p1, elephants := e, camels := m, horses := h, dogs := d, cats := c, rabbits := r,
    all := e ||| m ||| h ||| d ||| c ||| r }

structure PlayPhase where
  /-- `previous_piece_boards_this_move`, oldest first -/
  prev : List Board
  pps : PPS
  initHash : BB
  /-- `hash_history`, newest first (the list's head) -/
  hist : List BB
  trapped : Bool
  deriving DecidableEq, Repr, Inhabited

def PlayPhase.step (pp : PlayPhase) : Nat := pp.prev.length

/-- `PlayPhase::initial` -/
def PlayPhase.initial (h : BB) (hist : List BB) : PlayPhase :=
  { prev := [], pps := .none, initHash := h, hist := hist, trapped := false }

inductive Phase where
  | place
  | play (pp : PlayPhase)
  deriving DecidableEq, Repr, Inhabited

structure GameState where
  p1Turn : Bool
  moveNo : Nat
  phase : Phase
  board : Board
  hash : BB
  deriving DecidableEq, Repr, Inhabited

inductive Terminal where
  | goldWin
  | silverWin
  deriving DecidableEq, Repr, Inhabited

end Arimaa
