/-! Type expressions of the crate's type inventory (generated into `Gen/Types.lean`). -/
namespace Arimaa

inductive TyExpr where
  | prim (name : String)
  | var (name : String)
  | ref (t : TyExpr)
  | rawptr
  | app (name : String) (args : List TyExpr)
  deriving Repr, Inhabited

structure TyDecl where
  name : String
  params : List String
  file : String
  fields : List TyExpr
  deriving Repr, Inhabited

end Arimaa
