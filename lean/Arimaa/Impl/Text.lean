import Arimaa.Impl.Engine
import Arimaa.Gen.CharClasses

/-!
L1 — implementation model, part 4: `display.rs`, `FromStr`/`Display` of `Action`, `Square`,
`Piece`, `Direction`.  Text is `List Char` (Rust iterates `chars()` everywhere after the repair of
`Action::from_str`).  `Outcome` separates `Err(_)` from a panic.
-/
namespace Arimaa
open Gen

inductive Outcome (α : Type) where
  | ok (a : α)
  | err
  | panic
  deriving Repr, DecidableEq

/-- `usize::MAX` on the 64-bit targets the model assumes -/
def usizeMax : Nat := 2 ^ 64 - 1

def natDigits (n : Nat) : List Char := (toString n).toList

/-! ### Squares, pieces, directions, actions -/

/-- `Square::column_char` -/
def sqColumnChar (sq : Nat) : Char := Char.ofNat (ASCII_LETTER_A + sq % BOARD_WIDTH)

/-- `Square::row` (for `sq < 72`; larger indices underflow in the code) -/
def sqRow (sq : Nat) : Nat := BOARD_HEIGHT - sq / BOARD_WIDTH

/-- `Square::new(column, row)` for a column in `a..=h` and a row in `1..=8` -/
def sqNew (column : Char) (row : Nat) : Nat := (column.toNat - ASCII_LETTER_A) + (BOARD_HEIGHT - row) * 8

/-- `Display for Square` -/
def showSquare (sq : Nat) : List Char := sqColumnChar sq :: natDigits (sqRow sq)

def showPiece (p : Piece) : List Char := [pieceLetter p]
def showDir (d : Dir) : List Char := [dirLetter d]

/-- `Display for Action` -/
def showAction : Action → List Char
  | .move sq d => showSquare sq ++ showDir d
  | .pass => ['p']
  | .place p => showPiece p

/-- `FromStr for Piece` -/
def parsePiece (t : List Char) : Outcome Piece :=
  match t with
  | [c] => match pieceOfChar c with
    | some p => .ok p
    | none => .err
  | _ => .err

/-- `FromStr for Direction` -/
def parseDir (t : List Char) : Outcome Dir :=
  match t with
  | [c] => match dirOfChar c with
    | some d => .ok d
    | none => .err
  | _ => .err

/-- `"<c>".parse::<usize>()` for a single character: exactly the ASCII digits -/
def parseDigitChar (c : Char) : Option Nat :=
  if '0' ≤ c ∧ c ≤ '9' then some (c.toNat - '0'.toNat) else none

/-- `FromStr for Square` (after the repair: the column is range-checked as a `char`) -/
def parseSquare (t : List Char) : Outcome Nat :=
  match t with
  | [column, row] =>
    match parseDigitChar row with
    | some r =>
      if Char.ofNat ASCII_LETTER_A ≤ column ∧ column ≤ Char.ofNat (ASCII_LETTER_A + BOARD_WIDTH - 1) ∧
          1 ≤ r ∧ r ≤ BOARD_HEIGHT then .ok (sqNew column r) else .err
    | none => .err
  | _ => .err

/-- `FromStr for Action` (after the repair: slices the collected chars) -/
def parseAction (t : List Char) : Outcome Action :=
  match t with
  | [c] =>
    if c = 'p' then .ok .pass
    else match parsePiece [c] with
      | .ok p => .ok (.place p)
      | _ => .err
  | [a, b, c] =>
    match parseSquare [a, b] with
    | .ok sq => match parseDir [c] with
      | .ok d => .ok (.move sq d)
      | _ => .err
    | _ => .err
  | _ => .err

/-! ### Diagrams -/

/-- `is_p1_piece` of display.rs -/
def isP1Piece (bit : BB) (b : Board) : Bool := (bit &&& b.playerPieceMask true) != 0

/-- `convert_piece_to_letter` -/
def pieceToLetter (p : Piece) (isP1 : Bool) : Char :=
  if isP1 then pieceUpperLetter p else (pieceUpperLetter p).toLower

/-- the character printed for cell `idx` -/
def cellChar (b : Board) (idx : Nat) : Char :=
  match b.pieceTypeAtSquare idx with
  | some p => pieceToLetter p (isP1Piece (sqBit idx) b)
  | none => if displayTrapIdx.contains idx then 'x' else ' '

def border : List Char := " +-----------------+\n".toList

def showRow (b : Board) (row : Nat) : List Char :=
  natDigits (BOARD_HEIGHT - row) ++ ['|'] ++
    (List.range BOARD_WIDTH).flatMap (fun col => [' ', cellChar b (row * BOARD_WIDTH + col)]) ++
    " |\n".toList

/-- `Display for GameState` -/
def showState (s : GameState) : List Char :=
  natDigits s.moveNo ++ [if s.p1Turn then 'g' else 's', '\n'] ++ border ++
    (List.range BOARD_HEIGHT).flatMap (showRow s.board) ++ border ++ "   a b c d e f g h\n".toList

def inRanges (rs : List (Nat × Nat)) (c : Char) : Bool := rs.any (fun r => r.1 ≤ c.toNat && c.toNat ≤ r.2)
def isPerlSpace (c : Char) : Bool := inRanges perlSpace c
def isPerlDigit (c : Char) : Bool := inRanges perlDigit c

/-- `str::split('|')` -/
def splitBar : List Char → List (List Char)
  | [] => [[]]
  | c :: cs =>
    if c = '|' then [] :: splitBar cs
    else match splitBar cs with
      | seg :: rest => (c :: seg) :: rest
      | [] => [[c]]

/-- elements at odd positions (`enumerate().filter(|(i, _)| i % 2 == 1)`) -/
def oddElems {α : Type} : List α → List α
  | _ :: b :: rest => b :: oddElems rest
  | _ => []

/-- `"<digits>".parse::<usize>()` on a non-empty string of `\d` characters: succeeds exactly for
ASCII digits with a value that fits `usize` -/
def parseUsize (ds : List Char) : Option Nat :=
  if ds.all (fun c => '0' ≤ c ∧ c ≤ '9') then
    let v := ds.foldl (fun acc c => acc * 10 + (c.toNat - '0'.toNat)) 0
    if v ≤ usizeMax then some v else none
  else none

/-- the header regex `^\s*(\d+)([gswb])` on the first segment: `none` = no match (defaults apply),
`some (digits, side)` = the two capture groups -/
def matchHeader (seg : List Char) : Option (List Char × Char) :=
  let rest := seg.dropWhile isPerlSpace
  let ds := rest.takeWhile isPerlDigit
  match rest.dropWhile isPerlDigit with
  | c :: _ => if !ds.isEmpty && headerSideChars.contains c then some (ds, c) else none
  | [] => none

structure Cells where
  p1 : BB := 0
  e : BB := 0
  m : BB := 0
  h : BB := 0
  d : BB := 0
  c : BB := 0
  r : BB := 0

def Cells.add (cs : Cells) (p : Piece) (isP1 : Bool) (bit : BB) : Cells :=
  let cs := match p with
    | .elephant => { cs with e := cs.e ||| bit }
    | .camel => { cs with m := cs.m ||| bit }
    | .horse => { cs with h := cs.h ||| bit }
    | .dog => { cs with d := cs.d ||| bit }
    | .cat => { cs with c := cs.c ||| bit }
    | .rabbit => { cs with r := cs.r ||| bit }
  if isP1 then { cs with p1 := cs.p1 ||| bit } else cs

/-- the cell loop of `from_str`: `none` = a piece outside the 8×8 grid (an `Err` after the repair) -/
def parseRowCells (rowIdx : Nat) : List Char → Nat → Cells → Option Cells
  | [], _, cs => some cs
  | ch :: rest, colIdx, cs =>
    match charToPiece ch with
    | some p =>
      if rowIdx ≥ BOARD_HEIGHT ∨ colIdx ≥ BOARD_WIDTH then none
      else parseRowCells rowIdx rest (colIdx + 1)
        (cs.add p ch.isUpper (sqBit ((rowIdx * BOARD_WIDTH + colIdx) % 256)))
    | none => parseRowCells rowIdx rest (colIdx + 1) cs

def parseRows : List (List Char) → Nat → Cells → Option Cells
  | [], _, cs => some cs
  | line :: rest, rowIdx, cs =>
    match parseRowCells rowIdx (oddElems line) 0 cs with
    | some cs => parseRows rest (rowIdx + 1) cs
    | none => none

/-- `FromStr for GameState` (after the repairs F5, F6) -/
def parseState (t : List Char) : Outcome GameState :=
  let segs := splitBar t
  let header : Option (Nat × Bool) :=
    match matchHeader (segs.headD []) with
    | some (ds, side) =>
      match parseUsize ds with
      | some n => some (n, side != 's' && side != 'b')
      | none => none
    | none => some (2, true)
  match header with
  | none => .err
  | some (moveNo, p1Turn) =>
    match parseRows (oddElems segs) 0 {} with
    | none => .err
    | some cs =>
      let b := Board.new cs.p1 cs.e cs.m cs.h cs.d cs.c cs.r
      let h := zFromPieceBoard b p1Turn 0
      .ok { p1Turn := p1Turn, moveNo := moveNo, phase := .play (PlayPhase.initial h [h]), board := b, hash := h }

end Arimaa
