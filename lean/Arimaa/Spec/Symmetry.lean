import Arimaa.Spec.Rules

/-!
The symmetries of Arimaa at the level of the specification (property C11): the file mirror
(a ↔ h), the colour swap combined with the rank flip (rank r ↔ rank 9 - r, Gold ↔ Silver), and
their composition.  This file imports only `Arimaa.Spec.Rules`: it is a development about the
rules, not about the implementation model.

Contents: the three symmetries `Sym` and their action on squares, directions, colours, cells,
boards, push/pull obligations, results; the geometry facts (neighbours, traps, goal ranks, the
backward direction); invariance of the building blocks of the rules (`hasFriend`, `frozen`,
`ownStep`, `pushStart`, `pullEnd`, `pushEnd`, `move`, `capture`, the three win-condition scans); a small
specification-level game machine (`State`, `Act`, `State.enabled`, `State.next`, `State.run`)
and the action of the symmetries on it.  The C11 theorems proper are in `Arimaa/Props/C11.lean`.
-/
namespace Arimaa.Spec

/-- the three non-trivial symmetries of the rules -/
inductive Sym where
  /-- reflect across the vertical axis: file a ↔ h, b ↔ g, … -/
  | mirror
  /-- exchange Gold and Silver and flip the ranks: rank 1 ↔ 8, 2 ↔ 7, … -/
  | swap
  /-- `mirror` after `swap` (a half turn of the board with the colours exchanged) -/
  | both
  deriving DecidableEq, Repr

namespace Sym

/-! ### the action -/

/-- on squares (the identity outside the board, so that it is an involution of all of `Nat`) -/
def sq (σ : Sym) (i : Nat) : Nat :=
  if i < 64 then
    match σ with
    | .mirror => (i / 8) * 8 + (7 - i % 8)
    | .swap => (7 - i / 8) * 8 + i % 8
    | .both => (7 - i / 8) * 8 + (7 - i % 8)
  else i

/-- on directions: `mirror` exchanges east and west, `swap` north and south -/
def dir : Sym → Dir → Dir
  | .mirror, .n => .n | .mirror, .e => .w | .mirror, .s => .s | .mirror, .w => .e
  | .swap, .n => .s | .swap, .e => .e | .swap, .s => .n | .swap, .w => .w
  | .both, .n => .s | .both, .e => .w | .both, .s => .n | .both, .w => .e

/-- on colours (`true` = Gold) -/
def col : Sym → Bool → Bool
  | .mirror, g => g
  | .swap, g => !g
  | .both, g => !g

/-- on pieces: the colour changes, the type stays -/
def cell (σ : Sym) (c : Cell) : Cell := ⟨σ.col c.gold, c.piece⟩

/-- on boards: the piece on `i` goes to `σ i`, i.e. `(σ b) (σ i) = σ (b i)` -/
def board (σ : Sym) (b : Board) : Board := fun k => (b (σ.sq k)).map σ.cell

/-- on the push/pull obligation: the square named by it moves along -/
def pend (σ : Sym) : Pending → Pending
  | .none => .none
  | .pull q x => .pull (σ.sq q) x
  | .push q t => .push (σ.sq q) t

/-- on results -/
def res : Sym → Result → Result
  | .mirror, r => r
  | .swap, .goldWin => .silverWin | .swap, .silverWin => .goldWin
  | .both, .goldWin => .silverWin | .both, .silverWin => .goldWin

/-! ### squares, directions, colours -/

theorem sq_of_lt (σ : Sym) (i : Nat) (h : i < 64) :
    σ.sq i = match σ with
      | .mirror => (i / 8) * 8 + (7 - i % 8)
      | .swap => (7 - i / 8) * 8 + i % 8
      | .both => (7 - i / 8) * 8 + (7 - i % 8) := by
  simp only [sq, h, if_true]

theorem sq_of_ge (σ : Sym) (i : Nat) (h : 64 ≤ i) : σ.sq i = i := by
  have : ¬ i < 64 := by omega
  simp only [sq, this, if_false]

theorem sq_lt (σ : Sym) (i : Nat) (h : i < 64) : σ.sq i < 64 := by
  rw [sq_of_lt σ i h]; cases σ <;> simp only <;> omega

/-- every symmetry is an involution on squares -/
theorem sq_sq (σ : Sym) (i : Nat) : σ.sq (σ.sq i) = i := by
  by_cases h : i < 64
  · rw [sq_of_lt σ _ (sq_lt σ i h), sq_of_lt σ i h]; cases σ <;> simp only <;> omega
  · rw [sq_of_ge σ i (by omega), sq_of_ge σ i (by omega)]

theorem sq_lt_iff (σ : Sym) (i : Nat) : σ.sq i < 64 ↔ i < 64 := by
  constructor
  · intro h; have := sq_lt σ _ h; rwa [sq_sq] at this
  · exact sq_lt σ i

theorem sq_inj (σ : Sym) (i j : Nat) : σ.sq i = σ.sq j ↔ i = j := by
  constructor
  · intro h; have := congrArg σ.sq h; rwa [sq_sq, sq_sq] at this
  · intro h; rw [h]

theorem sq_eq_iff (σ : Sym) (i j : Nat) : σ.sq i = j ↔ i = σ.sq j := by
  constructor
  · intro h; rw [← h, sq_sq]
  · intro h; rw [h, sq_sq]

theorem sq_beq (σ : Sym) (i j : Nat) : (σ.sq i == σ.sq j) = (i == j) := by
  rw [Bool.eq_iff_iff]; simp only [beq_iff_eq]; exact sq_inj σ i j

/-- `both` is the composition of the other two, in either order -/
theorem both_sq (i : Nat) : both.sq i = mirror.sq (swap.sq i) := by
  by_cases h : i < 64
  · rw [sq_of_lt _ _ (sq_lt swap i h), sq_of_lt _ i h, sq_of_lt _ i h]; simp only; omega
  · rw [sq_of_ge _ i (by omega), sq_of_ge _ i (by omega), sq_of_ge _ i (by omega)]

theorem both_sq' (i : Nat) : both.sq i = swap.sq (mirror.sq i) := by
  by_cases h : i < 64
  · rw [sq_of_lt _ _ (sq_lt mirror i h), sq_of_lt _ i h, sq_of_lt _ i h]; simp only; omega
  · rw [sq_of_ge _ i (by omega), sq_of_ge _ i (by omega), sq_of_ge _ i (by omega)]

/-- `both` is the half turn of the board -/
theorem both_sq_eq (i : Nat) (h : i < 64) : both.sq i = 63 - i := by
  rw [sq_of_lt _ i h]; simp only; omega

/-- `mirror` keeps the rank and reflects the file; `swap` keeps the file and reflects the rank -/
theorem mirror_coords (i : Nat) (h : i < 64) : mirror.sq i / 8 = i / 8 ∧ mirror.sq i % 8 = 7 - i % 8 := by
  rw [sq_of_lt _ i h]; simp only; omega

theorem swap_coords (i : Nat) (h : i < 64) : swap.sq i / 8 = 7 - i / 8 ∧ swap.sq i % 8 = i % 8 := by
  rw [sq_of_lt _ i h]; simp only; omega

theorem both_dir (d : Dir) : both.dir d = mirror.dir (swap.dir d) := by cases d <;> rfl

theorem both_col (g : Bool) : both.col g = mirror.col (swap.col g) := rfl

theorem dir_dir (σ : Sym) (d : Dir) : σ.dir (σ.dir d) = d := by cases σ <;> cases d <;> rfl

theorem dir_beq (σ : Sym) (a b : Dir) : (σ.dir a == σ.dir b) = (a == b) := by
  cases σ <;> cases a <;> cases b <;> rfl

theorem col_col (σ : Sym) (g : Bool) : σ.col (σ.col g) = g := by cases σ <;> cases g <;> rfl

theorem col_not (σ : Sym) (g : Bool) : σ.col (!g) = !σ.col g := by cases σ <;> cases g <;> rfl

theorem col_beq (σ : Sym) (a b : Bool) : (σ.col a == σ.col b) = (a == b) := by
  cases σ <;> cases a <;> cases b <;> rfl

theorem col_bne (σ : Sym) (a b : Bool) : (σ.col a != σ.col b) = (a != b) := by
  cases σ <;> cases a <;> cases b <;> rfl

theorem cell_cell (σ : Sym) (c : Cell) : σ.cell (σ.cell c) = c := by
  cases c; simp only [cell, col_col]

theorem cell_inj (σ : Sym) (a b : Cell) : σ.cell a = σ.cell b ↔ a = b := by
  constructor
  · intro h; have := congrArg σ.cell h; rwa [cell_cell, cell_cell] at this
  · intro h; rw [h]

theorem res_res (σ : Sym) (r : Result) : σ.res (σ.res r) = r := by cases σ <;> cases r <;> rfl

theorem pend_pend (σ : Sym) (p : Pending) : σ.pend (σ.pend p) = p := by
  cases p <;> simp only [pend, sq_sq]

theorem pend_isPush (σ : Sym) (p : Pending) : (σ.pend p).isPush = p.isPush := by cases p <;> rfl

/-! ### boards -/

theorem board_apply (σ : Sym) (b : Board) (k : Nat) : σ.board b k = (b (σ.sq k)).map σ.cell := rfl

/-- the defining equation of the action on boards -/
theorem board_sq (σ : Sym) (b : Board) (i : Nat) : σ.board b (σ.sq i) = (b i).map σ.cell := by
  rw [board_apply, sq_sq]

theorem board_board (σ : Sym) (b : Board) : σ.board (σ.board b) = b := by
  funext k
  rw [board_apply, board_apply, sq_sq]
  cases b k with
  | none => rfl
  | some c => simp only [Option.map, cell_cell]

/-- a board that is empty outside the 64 squares stays so -/
theorem board_ge (σ : Sym) (b : Board) (hb : ∀ k, 64 ≤ k → b k = none) (k : Nat) (hk : 64 ≤ k) :
    σ.board b k = none := by
  rw [board_apply, sq_of_ge σ k hk, hb k hk]; rfl

/-! ### geometry -/

theorem nbr_lt (i j : Nat) (d : Dir) (hi : i < 64) (h : nbr i d = some j) : j < 64 := by
  cases d <;> simp only [nbr] at h <;> split at h <;> simp only [Option.some.injEq, reduceCtorEq] at h <;> omega

/-- neighbours go to neighbours -/
theorem nbr_sq (σ : Sym) (i : Nat) (d : Dir) (hi : i < 64) :
    nbr (σ.sq i) (σ.dir d) = (nbr i d).map σ.sq := by
  have : ∀ j : Fin 64, nbr (σ.sq j.1) (σ.dir d) = (nbr j.1 d).map σ.sq := by
    cases σ <;> cases d <;> decide
  exact this ⟨i, hi⟩

/-- the four traps are a symmetric set -/
theorem isTrap_sq (σ : Sym) (i : Nat) : isTrap (σ.sq i) = isTrap i := by
  by_cases hi : i < 64
  · have : ∀ j : Fin 64, isTrap (σ.sq j.1) = isTrap j.1 := by cases σ <;> decide
    exact this ⟨i, hi⟩
  · rw [sq_of_ge σ i (by omega)]

/-- a colour's goal rank goes to the image colour's goal rank -/
theorem onGoalRank_sq (σ : Sym) (g : Bool) (i : Nat) (hi : i < 64) :
    onGoalRank (σ.col g) (σ.sq i) = onGoalRank g i := by
  have : ∀ j : Fin 64, onGoalRank (σ.col g) (σ.sq j.1) = onGoalRank g j.1 := by
    cases σ <;> cases g <;> decide
  exact this ⟨i, hi⟩

/-- the direction forbidden to rabbits goes to the image colour's forbidden direction -/
theorem backward_col (σ : Sym) (g : Bool) : backward (σ.col g) = σ.dir (backward g) := by
  cases σ <;> cases g <;> rfl

theorem win_col (σ : Sym) (g : Bool) : win (σ.col g) = σ.res (win g) := by
  cases σ <;> cases g <;> rfl

/-- `f` at an optional square -/
def atNbr (f : Nat → Bool) : Option Nat → Bool
  | some j => f j
  | none => false

/-- `nbAny` is the disjunction over the four neighbours given by `nbr` -/
theorem nbAny_eq (f : Nat → Bool) (i : Nat) :
    nbAny f i = (atNbr f (nbr i .s) || atNbr f (nbr i .w) || atNbr f (nbr i .n) || atNbr f (nbr i .e)) := by
  unfold nbAny nbr
  by_cases h1 : i + 8 < 64 <;> by_cases h2 : i % 8 ≠ 0 <;> by_cases h3 : 8 ≤ i <;> by_cases h4 : i % 8 ≠ 7 <;>
    simp [atNbr, h1, h2, h3, h4]

/-- "some neighbour of `σ i` satisfies `f`" iff "some neighbour of `i` satisfies `f ∘ σ`";
only the values on the board matter -/
theorem nbAny_sq_congr (σ : Sym) (f g : Nat → Bool) (i : Nat) (hi : i < 64)
    (hfg : ∀ j, j < 64 → f (σ.sq j) = g j) : nbAny f (σ.sq i) = nbAny g i := by
  have key : ∀ d, atNbr f (nbr (σ.sq i) (σ.dir d)) = atNbr g (nbr i d) := by
    intro d
    rw [nbr_sq σ i d hi]
    cases hn : nbr i d with
    | none => rfl
    | some j => exact hfg j (nbr_lt i j d hi hn)
  rw [nbAny_eq f, nbAny_eq g]
  have hn := key .n
  have he := key .e
  have hs := key .s
  have hw := key .w
  cases σ <;> simp only [dir] at hn he hs hw <;> rw [hn, he, hs, hw] <;>
    generalize atNbr g (nbr i .n) = a <;> generalize atNbr g (nbr i .e) = b <;>
    generalize atNbr g (nbr i .s) = c <;> generalize atNbr g (nbr i .w) = d <;>
    cases a <;> cases b <;> cases c <;> cases d <;> rfl

theorem nbAny_sq (σ : Sym) (f : Nat → Bool) (i : Nat) (hi : i < 64) :
    nbAny f (σ.sq i) = nbAny (fun j => f (σ.sq j)) i :=
  nbAny_sq_congr σ f _ i hi (fun _ _ => rfl)

/-- a scan of the 64 squares may be done in the permuted order -/
theorem any_range_sq (σ : Sym) (f : Nat → Bool) :
    (List.range 64).any (fun i => f (σ.sq i)) = (List.range 64).any f := by
  rw [Bool.eq_iff_iff]
  simp only [List.any_eq_true, List.mem_range]
  constructor
  · rintro ⟨i, hi, h⟩; exact ⟨σ.sq i, sq_lt σ i hi, h⟩
  · rintro ⟨i, hi, h⟩; exact ⟨σ.sq i, sq_lt σ i hi, by rw [sq_sq]; exact h⟩

theorem any_range_congr (f g : Nat → Bool) (h : ∀ i, i < 64 → f i = g i) :
    (List.range 64).any f = (List.range 64).any g := by
  rw [Bool.eq_iff_iff]
  simp only [List.any_eq_true, List.mem_range]
  constructor
  · rintro ⟨i, hi, hf⟩; exact ⟨i, hi, by rw [← h i hi]; exact hf⟩
  · rintro ⟨i, hi, hf⟩; exact ⟨i, hi, by rw [h i hi]; exact hf⟩

/-- a scan of the four directions may be done in the permuted order -/
theorem any_dir (σ : Sym) (f : Dir → Bool) : Dir.all.any (fun d => f (σ.dir d)) = Dir.all.any f := by
  simp only [Dir.all, List.any_cons, List.any_nil, Bool.or_false]
  cases σ <;> simp only [dir] <;>
    generalize f .n = a <;> generalize f .e = b <;> generalize f .s = c <;> generalize f .w = d <;>
    cases a <;> cases b <;> cases c <;> cases d <;> rfl

/-! ### the building blocks of the rules -/

theorem ownedBy_sq (σ : Sym) (b : Board) (g : Bool) (j : Nat) :
    ownedBy (σ.board b) (σ.col g) (σ.sq j) = ownedBy b g j := by
  unfold ownedBy
  rw [board_sq]
  cases b j with
  | none => rfl
  | some c => simp only [Option.map, cell, col_beq]

theorem hasFriend_sq (σ : Sym) (b : Board) (i : Nat) (g : Bool) (hi : i < 64) :
    hasFriend (σ.board b) (σ.sq i) (σ.col g) = hasFriend b i g := by
  unfold hasFriend
  exact nbAny_sq_congr σ _ _ i hi (fun j _ => ownedBy_sq σ b g j)

theorem hasStrongerEnemy_sq (σ : Sym) (b : Board) (i : Nat) (g : Bool) (s : Nat) (hi : i < 64) :
    hasStrongerEnemy (σ.board b) (σ.sq i) (σ.col g) s = hasStrongerEnemy b i g s := by
  unfold hasStrongerEnemy
  refine nbAny_sq_congr σ _ _ i hi (fun j _ => ?_)
  simp only [board_sq]
  cases b j with
  | none => rfl
  | some c => simp only [Option.map, cell, col_bne]

theorem frozen_sq (σ : Sym) (b : Board) (i : Nat) (hi : i < 64) :
    frozen (σ.board b) (σ.sq i) = frozen b i := by
  unfold frozen
  rw [board_sq]
  cases b i with
  | none => rfl
  | some c => simp only [Option.map, cell, hasFriend_sq σ b i _ hi, hasStrongerEnemy_sq σ b i _ _ hi]

theorem hasPusher_sq (σ : Sym) (b : Board) (g : Bool) (i : Nat) (s : Nat) (hi : i < 64) :
    hasPusher (σ.board b) (σ.col g) (σ.sq i) s = hasPusher b g i s := by
  unfold hasPusher
  refine nbAny_sq_congr σ _ _ i hi (fun j hj => ?_)
  simp only [board_sq, frozen_sq σ b j hj]
  cases b j with
  | none => rfl
  | some c => simp only [Option.map, cell, col_beq]

theorem ownStep_sq (σ : Sym) (b : Board) (g : Bool) (i : Nat) (d : Dir) (hi : i < 64) :
    ownStep (σ.board b) (σ.col g) (σ.sq i) (σ.dir d) = ownStep b g i d := by
  unfold ownStep
  rw [board_sq, nbr_sq σ i d hi, frozen_sq σ b i hi]
  cases b i with
  | none => rfl
  | some c =>
    cases nbr i d with
    | none => rfl
    | some j =>
      simp only [Option.map, cell, col_beq, board_sq, backward_col, dir_beq]
      cases b j <;> rfl

theorem pushStart_sq (σ : Sym) (b : Board) (g : Bool) (step : Nat) (i : Nat) (d : Dir) (hi : i < 64) :
    pushStart (σ.board b) (σ.col g) step (σ.sq i) (σ.dir d) = pushStart b g step i d := by
  unfold pushStart
  rw [board_sq, nbr_sq σ i d hi]
  cases b i with
  | none => rfl
  | some c =>
    cases nbr i d with
    | none => rfl
    | some j =>
      simp only [Option.map, cell, col_bne, board_sq, hasPusher_sq σ b g i _ hi]
      cases b j <;> rfl

theorem pullEnd_sq (σ : Sym) (b : Board) (g : Bool) (p : Pending) (i : Nat) (d : Dir) (hi : i < 64) :
    pullEnd (σ.board b) (σ.col g) (σ.pend p) (σ.sq i) (σ.dir d) = pullEnd b g p i d := by
  unfold pullEnd
  rw [board_sq, nbr_sq σ i d hi]
  cases p with
  | none => rfl
  | push q t => rfl
  | pull q x =>
    cases b i with
    | none => rfl
    | some c =>
      cases nbr i d with
      | none => rfl
      | some j =>
        simp only [pend, Option.map, cell, col_bne, board_sq, sq_beq]
        cases b j <;> rfl

theorem pushEnd_sq (σ : Sym) (b : Board) (g : Bool) (p : Pending) (i : Nat) (d : Dir) (hi : i < 64) :
    pushEnd (σ.board b) (σ.col g) (σ.pend p) (σ.sq i) (σ.dir d) = pushEnd b g p i d := by
  unfold pushEnd
  rw [board_sq, nbr_sq σ i d hi, frozen_sq σ b i hi]
  cases p with
  | none => rfl
  | pull q x => rfl
  | push q t =>
    cases b i with
    | none => rfl
    | some c =>
      cases nbr i d with
      | none => rfl
      | some j =>
        simp only [pend, Option.map, cell, col_beq, board_sq, sq_beq]
        cases b j <;> rfl

theorem enabledMove_sq (σ : Sym) (b : Board) (g : Bool) (step : Nat) (p : Pending) (i : Nat) (d : Dir)
    (hi : i < 64) :
    enabledMove (σ.board b) (σ.col g) step (σ.pend p) (σ.sq i) (σ.dir d) = enabledMove b g step p i d := by
  unfold enabledMove
  rw [pend_isPush, pushEnd_sq σ b g p i d hi, ownStep_sq σ b g i d hi, pushStart_sq σ b g step i d hi,
    pullEnd_sq σ b g p i d hi]

/-- moving a piece commutes with every symmetry (any two squares) -/
theorem move_sq (σ : Sym) (b : Board) (i j : Nat) :
    move (σ.board b) (σ.sq i) (σ.sq j) = σ.board (move b i j) := by
  funext k
  have e1 : (k = σ.sq j) = (σ.sq k = j) := propext ⟨fun h => by rw [h, sq_sq], fun h => by rw [← h, sq_sq]⟩
  have e2 : (k = σ.sq i) = (σ.sq k = i) := propext ⟨fun h => by rw [h, sq_sq], fun h => by rw [← h, sq_sq]⟩
  simp only [move, board_apply, sq_sq, e1, e2]
  by_cases h1 : σ.sq k = j
  · simp only [h1, if_true]
  · by_cases h2 : σ.sq k = i
    · have hij : ¬ i = j := by rw [← h2]; exact h1
      simp only [h2, hij, if_true, if_false, Option.map]
    · simp only [h1, h2, if_false]

/-- captures map to captures -/
theorem capture_sq (σ : Sym) (b : Board) : capture (σ.board b) = σ.board (capture b) := by
  funext k
  simp only [capture, board_apply]
  by_cases hk : k < 64
  · have hf : ∀ g, hasFriend (σ.board b) k (σ.col g) = hasFriend b (σ.sq k) g := by
      intro g
      have := hasFriend_sq σ b (σ.sq k) g (sq_lt σ k hk)
      rwa [sq_sq] at this
    cases hb : b (σ.sq k) with
    | none => rfl
    | some c =>
      simp only [Option.map, cell, hf, isTrap_sq]
      split <;> rfl
  · have ht : isTrap k = false := by
      unfold isTrap
      have h1 : (k == 18) = false := by simp only [beq_eq_false_iff_ne]; omega
      have h2 : (k == 21) = false := by simp only [beq_eq_false_iff_ne]; omega
      have h3 : (k == 42) = false := by simp only [beq_eq_false_iff_ne]; omega
      have h4 : (k == 45) = false := by simp only [beq_eq_false_iff_ne]; omega
      rw [h1, h2, h3, h4]; rfl
    rw [sq_of_ge σ k (by omega)]
    cases hb : b k with
    | none => rfl
    | some c => simp only [Option.map, ht, Bool.false_and, Bool.false_eq_true, if_false]

theorem rabbitOnGoal_sq (σ : Sym) (b : Board) (g : Bool) :
    rabbitOnGoal (σ.board b) (σ.col g) = rabbitOnGoal b g := by
  unfold rabbitOnGoal
  rw [← any_range_sq σ]
  refine any_range_congr _ _ (fun i hi => ?_)
  rw [board_sq, onGoalRank_sq σ g i hi]
  congr 1
  have : (some ⟨σ.col g, Piece.rabbit⟩ : Option Cell) = (some (⟨g, Piece.rabbit⟩ : Cell)).map σ.cell := rfl
  rw [this, Bool.eq_iff_iff]
  simp only [beq_iff_eq]
  cases b i with
  | none => simp only [Option.map, reduceCtorEq]
  | some c => simp only [Option.map, Option.some.injEq, cell_inj]

theorem hasRabbit_sq (σ : Sym) (b : Board) (g : Bool) :
    hasRabbit (σ.board b) (σ.col g) = hasRabbit b g := by
  unfold hasRabbit
  rw [← any_range_sq σ]
  refine any_range_congr _ _ (fun i _ => ?_)
  rw [board_sq]
  have : (some ⟨σ.col g, Piece.rabbit⟩ : Option Cell) = (some (⟨g, Piece.rabbit⟩ : Cell)).map σ.cell := rfl
  rw [this, Bool.eq_iff_iff]
  simp only [beq_iff_eq]
  cases b i with
  | none => simp only [Option.map, reduceCtorEq]
  | some c => simp only [Option.map, Option.some.injEq, cell_inj]

theorem hasStep_sq (σ : Sym) (b : Board) (g : Bool) :
    hasStep (σ.board b) (σ.col g) = hasStep b g := by
  unfold hasStep
  rw [← any_range_sq σ]
  refine any_range_congr _ _ (fun i hi => ?_)
  rw [← any_dir σ]
  congr 1
  funext d
  have := enabledMove_sq σ b g 0 .none i d hi
  simpa only [pend] using this

end Sym

/-! ### a specification-level game machine -/

/-- a turn state: the board, the side to move, the number of steps already made in this turn
(0..3) and the push/pull obligation left by the previous step -/
structure State where
  board : Board
  gold : Bool
  step : Nat
  pend : Pending

/-- the actions of the play phase -/
inductive Act where
  | move (i : Nat) (d : Dir)
  | pass
  deriving DecidableEq, Repr

/-- the rule-level offered actions: steps from squares of the board that `enabledMove` allows, and
ending the turn when `passEnabled` allows it -/
def State.enabled (s : State) : Act → Bool
  | .move i d => decide (i < 64) && enabledMove s.board s.gold s.step s.pend i d
  | .pass => passEnabled s.step s.pend

/-- the successor state: a step moves a piece and applies the capture rule; the turn continues
with the next obligation, unless it was the fourth step; the fourth step and a pass hand the
move to the other side -/
def State.next (s : State) : Act → State
  | .move i d =>
    if s.step < 3 then ⟨applyStep s.board i d, s.gold, s.step + 1, nextPending s.board s.gold s.pend i d⟩
    else ⟨applyStep s.board i d, !s.gold, 0, .none⟩
  | .pass => ⟨s.board, !s.gold, 0, .none⟩

/-- the result that is announced in a state: the win conditions are looked at when a turn starts -/
def State.result (s : State) : Option Result :=
  if s.step = 0 then Spec.result s.board s.gold else none

/-- play a list of actions, each of which must be enabled when its turn comes (`none` otherwise) -/
def State.run (s : State) : List Act → Option State
  | [] => some s
  | a :: as => if s.enabled a then (s.next a).run as else none

/-- all states passed while playing a list of enabled actions, the start included -/
def State.trace (s : State) : List Act → Option (List State)
  | [] => some [s]
  | a :: as => if s.enabled a then (State.trace (s.next a) as).map (s :: ·) else none

namespace Sym

/-- on turn states: the step counter stays -/
def state (σ : Sym) (s : State) : State := ⟨σ.board s.board, σ.col s.gold, s.step, σ.pend s.pend⟩

/-- on game actions -/
def act (σ : Sym) : Act → Act
  | .move i d => .move (σ.sq i) (σ.dir d)
  | .pass => .pass

theorem act_act (σ : Sym) (a : Act) : σ.act (σ.act a) = a := by
  cases a <;> simp only [act, sq_sq, dir_dir]

theorem state_state (σ : Sym) (s : State) : σ.state (σ.state s) = s := by
  cases s; simp only [state, board_board, col_col, pend_pend]

end Sym

end Arimaa.Spec
