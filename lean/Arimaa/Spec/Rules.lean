/-!
L2 — the rules of Arimaa as a square-indexed step machine.  Imports nothing generated and nothing
of the implementation model: its piece order, trap squares and goal ranks are its own, so a change
of a generated constant cannot change the specification, only break the theorem linking the two.

Squares are `Nat` below 64; square `i` is file `i % 8` (a = 0) and rank `8 - i / 8`, so `i - 8` is
one rank up (north, towards rank 8) and `i + 1` one file to the east.
-/
namespace Arimaa.Spec

inductive Piece where
  | rabbit | cat | dog | horse | camel | elephant
  deriving DecidableEq, Repr, Inhabited

def Piece.strength : Piece → Nat
  | .rabbit => 0 | .cat => 1 | .dog => 2 | .horse => 3 | .camel => 4 | .elephant => 5

inductive Dir where
  | n | e | s | w
  deriving DecidableEq, Repr, Inhabited

def Dir.all : List Dir := [.n, .e, .s, .w]

structure Cell where
  gold : Bool
  piece : Piece
  deriving DecidableEq, Repr, Inhabited

abbrev Board := Nat → Option Cell

/-- the orthogonal neighbour of `i` in direction `d`, if it is on the board -/
def nbr (i : Nat) : Dir → Option Nat
  | .n => if 8 ≤ i then some (i - 8) else none
  | .s => if i + 8 < 64 then some (i + 8) else none
  | .e => if i % 8 ≠ 7 then some (i + 1) else none
  | .w => if i % 8 ≠ 0 then some (i - 1) else none

/-- "some orthogonal neighbour of square `i` satisfies `f`" -/
def nbAny (f : Nat → Bool) (i : Nat) : Bool :=
  (decide (i + 8 < 64) && f (i + 8)) || (decide (i % 8 ≠ 0) && f (i - 1)) ||
    (decide (8 ≤ i) && f (i - 8)) || (decide (i % 8 ≠ 7) && f (i + 1))

/-- c6 f6 c3 f3 -/
def isTrap (i : Nat) : Bool := i == 18 || i == 21 || i == 42 || i == 45

def ownedBy (b : Board) (g : Bool) (j : Nat) : Bool :=
  match b j with
  | some c => c.gold == g
  | none => false

/-- a piece of colour `g` stands next to `i` -/
def hasFriend (b : Board) (i : Nat) (g : Bool) : Bool := nbAny (ownedBy b g) i

/-- an enemy (of colour `g`) piece stronger than `s` stands next to `i` -/
def hasStrongerEnemy (b : Board) (i : Nat) (g : Bool) (s : Nat) : Bool :=
  nbAny (fun j => match b j with
    | some c => c.gold != g && decide (s < c.piece.strength)
    | none => false) i

/-- frozen: no friendly neighbour and a stronger enemy neighbour -/
def frozen (b : Board) (i : Nat) : Bool :=
  match b i with
  | some c => !hasFriend b i c.gold && hasStrongerEnemy b i c.gold c.piece.strength
  | none => false

inductive Pending where
  | none
  /-- a friendly piece of type `x` has just left square `q`: a weaker enemy may be pulled there -/
  | pull (q : Nat) (x : Piece)
  /-- an enemy piece of type `t` has just been pushed off square `q`: a stronger piece must enter -/
  | push (q : Nat) (t : Piece)
  deriving DecidableEq, Repr, Inhabited

def Pending.isPush : Pending → Bool
  | .push _ _ => true
  | _ => false

/-- the direction a rabbit of that colour may not step -/
def backward (gold : Bool) : Dir := if gold then .s else .n

/-- a single step of an unfrozen friendly piece onto an empty neighbour (rabbits never backward) -/
def ownStep (b : Board) (gold : Bool) (i : Nat) (d : Dir) : Bool :=
  match b i, nbr i d with
  | some c, some j =>
    c.gold == gold && !frozen b i && (b j).isNone && !(c.piece == .rabbit && d == backward gold)
  | _, _ => false

/-- an unfrozen friendly piece stronger than `s` stands next to `i` -/
def hasPusher (b : Board) (gold : Bool) (i : Nat) (s : Nat) : Bool :=
  nbAny (fun x => match b x with
    | some cx => cx.gold == gold && !frozen b x && decide (s < cx.piece.strength)
    | none => false) i

/-- first half of a push: an enemy piece is displaced onto an empty neighbour; needs a later step -/
def pushStart (b : Board) (gold : Bool) (step : Nat) (i : Nat) (d : Dir) : Bool :=
  decide (step < 3) &&
    match b i, nbr i d with
    | some c, some j => c.gold != gold && (b j).isNone && hasPusher b gold i c.piece.strength
    | _, _ => false

/-- second half of a pull: a weaker enemy piece steps onto the square just vacated -/
def pullEnd (b : Board) (gold : Bool) (pend : Pending) (i : Nat) (d : Dir) : Bool :=
  match pend, b i, nbr i d with
  | .pull q x, some c, some j =>
    c.gold != gold && j == q && (b j).isNone && decide (c.piece.strength < x.strength)
  | _, _, _ => false

/-- second half of a push: an unfrozen stronger friendly piece enters the vacated square -/
def pushEnd (b : Board) (gold : Bool) (pend : Pending) (i : Nat) (d : Dir) : Bool :=
  match pend, b i, nbr i d with
  | .push q v, some c, some j =>
    j == q && (b j).isNone && c.gold == gold && !frozen b i && decide (v.strength < c.piece.strength)
  | _, _, _ => false

/-- the steps enabled in a turn state -/
def enabledMove (b : Board) (gold : Bool) (step : Nat) (pend : Pending) (i : Nat) (d : Dir) : Bool :=
  if pend.isPush then pushEnd b gold pend i d
  else ownStep b gold i d || pushStart b gold step i d || pullEnd b gold pend i d

/-- a turn may be ended after at least one step, unless a push is pending -/
def passEnabled (step : Nat) (pend : Pending) : Bool := decide (1 ≤ step) && !pend.isPush

/-- the status after the step `(i, d)` when the turn continues (C12's three-way split) -/
def nextPending (b : Board) (gold : Bool) (pend : Pending) (i : Nat) (d : Dir) : Pending :=
  match b i with
  | some c =>
    if c.gold != gold then
      (if pullEnd b gold pend i d then .none else .push i c.piece)
    else if !pend.isPush && c.piece != .rabbit then .pull i c.piece
    else .none
  | none => .none

/-- the piece on `i` is put on `j`, `i` becomes empty, nothing else changes -/
def move (b : Board) (i j : Nat) : Board :=
  fun k => if k = j then b i else if k = i then none else b k

/-- every piece on a trap square without a friendly neighbour disappears, nothing else changes -/
def capture (b : Board) : Board :=
  fun k => match b k with
    | some c => if isTrap k && !hasFriend b k c.gold then none else some c
    | none => none

def applyStep (b : Board) (i : Nat) (d : Dir) : Board :=
  match nbr i d with
  | some j => capture (move b i j)
  | none => b

inductive Result where
  | goldWin | silverWin
  deriving DecidableEq, Repr

def win (gold : Bool) : Result := if gold then .goldWin else .silverWin

/-- rank 8 (squares 0..7) is Gold's goal, rank 1 (squares 56..63) Silver's -/
def onGoalRank (gold : Bool) (i : Nat) : Bool := if gold then decide (i < 8) else decide (56 ≤ i)

def rabbitOnGoal (b : Board) (gold : Bool) : Bool :=
  (List.range 64).any fun i => b i == some ⟨gold, .rabbit⟩ && onGoalRank gold i

def hasRabbit (b : Board) (gold : Bool) : Bool :=
  (List.range 64).any fun i => b i == some ⟨gold, .rabbit⟩

/-- the mover has some step at the start of a turn -/
def hasStep (b : Board) (gold : Bool) : Bool :=
  (List.range 64).any fun i => Dir.all.any fun d => enabledMove b gold 0 .none i d

/-- the official order of win conditions at the start of a turn (`goldToMove` = the mover) -/
def result (b : Board) (goldToMove : Bool) : Option Result :=
  let m := goldToMove
  let l := !goldToMove
  if rabbitOnGoal b l then some (win l)
  else if rabbitOnGoal b m then some (win m)
  else if !hasRabbit b m then some (win l)
  else if !hasRabbit b l then some (win m)
  else if !hasStep b m then some (win l)
  else none

end Arimaa.Spec
