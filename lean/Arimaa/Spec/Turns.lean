import Arimaa.Spec.Rules

/-!
L3 — the declarative Arimaa turn, and the L2 step machine run over a list of moves.

A turn is a list of *units*.  A unit is a single step of an unfrozen friendly piece, a push (an
enemy piece is displaced, then a stronger unfrozen friendly neighbour enters the square it left)
or a pull (a friendly piece steps away, then a weaker enemy neighbour enters the square it left).
Every push and pull is therefore completed inside the turn and its two steps are adjacent in
time; a step belongs to exactly one unit, so no step serves both a push and a pull.  A legal turn
has between one and four steps.  All conditions of a unit are read on the board *before* the
first step of the unit.

Everything here is a `Bool`-valued function, so small instances can be evaluated.
-/
namespace Arimaa.Spec

/-- a move: the square a piece stands on and the direction it steps in -/
abbrev Mv := Nat × Dir

/-- the units a turn is built from -/
inductive TUnit where
  /-- the friendly piece on `i` steps in direction `d` -/
  | single (i : Nat) (d : Dir)
  /-- the enemy piece on `i` is displaced in direction `d`; then the friendly piece on `x`
  steps in direction `dx` onto `i` -/
  | push (i : Nat) (d : Dir) (x : Nat) (dx : Dir)
  /-- the friendly piece on `i` steps in direction `d`; then the enemy piece on `e` steps in
  direction `de` onto `i` -/
  | pull (i : Nat) (d : Dir) (e : Nat) (de : Dir)
  deriving DecidableEq, Repr

/-- the one or two moves of a unit -/
def TUnit.steps : TUnit → List Mv
  | .single i d => [(i, d)]
  | .push i d x dx => [(i, d), (x, dx)]
  | .pull i d e de => [(i, d), (e, de)]

/-- boards evolve move by move; captures happen after every step -/
def applySteps (b : Board) : List Mv → Board
  | [] => b
  | m :: ms => applySteps (applyStep b m.1 m.2) ms

/-- is the unit legal for the side `gold` on board `b` (the board before its first step)? -/
def TUnit.legal (b : Board) (gold : Bool) : TUnit → Bool
  | .single i d => decide (i < 64) && ownStep b gold i d
  | .push i d x dx =>
    -- `x` is an on-board neighbour of `i`
    decide (i < 64) && decide (x < 64) && (nbr x dx == some i) &&
      match b i, nbr i d, b x with
      | some c, some j, some cx =>
        -- an enemy piece, an empty destination, a friendly unfrozen strictly stronger pusher
        c.gold != gold && (b j).isNone && cx.gold == gold && !frozen b x &&
          decide (c.piece.strength < cx.piece.strength)
      | _, _, _ => false
  | .pull i d e de =>
    -- the puller makes an ordinary step; `e` is an on-board neighbour of `i`
    decide (i < 64) && decide (e < 64) && ownStep b gold i d && (nbr e de == some i) &&
      match b i, b e with
      | some c, some ce =>
        -- an enemy piece strictly weaker than the puller (so the puller is no rabbit)
        ce.gold != gold && decide (ce.piece.strength < c.piece.strength)
      | _, _ => false

/-- every unit is legal on the board produced by its predecessors -/
def unitsLegal (b : Board) (gold : Bool) : List TUnit → Bool
  | [] => true
  | u :: us => u.legal b gold && unitsLegal (applySteps b u.steps) gold us

/-- the moves of a list of units, in order -/
def steps : List TUnit → List Mv
  | [] => []
  | u :: us => u.steps ++ steps us

/-- a legal turn: legal units, one to four steps in total -/
def legalTurn (b : Board) (gold : Bool) (us : List TUnit) : Bool :=
  unitsLegal b gold us && decide (1 ≤ (steps us).length) && decide ((steps us).length ≤ 4)

/-! ### the L2 machine run over a list of moves -/

/-- play the moves from the turn state `(b, gold, step, pend)`: every move must be from a square
of the board and enabled when its turn comes; the board evolves by `applyStep`, the status by
`nextPending`, the step counter by one.  The result is the status after the last move. -/
def runTurn (b : Board) (gold : Bool) (step : Nat) (pend : Pending) : List Mv → Option Pending
  | [] => some pend
  | m :: ms =>
    if decide (m.1 < 64) && enabledMove b gold step pend m.1 m.2 then
      runTurn (applyStep b m.1 m.2) gold (step + 1) (nextPending b gold pend m.1 m.2) ms
    else none

/-- the machine accepts the moves from the start of a turn -/
def accepted (b : Board) (gold : Bool) (ms : List Mv) : Bool :=
  (runTurn b gold 0 .none ms).isSome

/-- the machine accepts the moves from the start of a turn and the turn may end after them:
a pass is enabled (`passEnabled`: at least one step made, no push pending); after a fourth step
the turn ends by itself and the same condition says that no push was left half-done -/
def mayEnd (b : Board) (gold : Bool) (ms : List Mv) : Bool :=
  match runTurn b gold 0 .none ms with
  | some p => passEnabled ms.length p
  | none => false

end Arimaa.Spec
