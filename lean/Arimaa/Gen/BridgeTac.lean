import Arimaa.Gen.Rt

/-!
Tactics used by the generated bridge modules `Gen/Bridge/<fn>.lean` (`@Rs.f = @RsBase.f`) when the
current text of a function is no longer literally the baseline text.  Hand-written; they prove nothing
by themselves, every bridge is checked by the kernel.

* `rs_bridge_cases` : case analysis on every conditional and `match` of both sides, then `simp_all`;
* `rs_bridge_bits`  : two bitboard expressions built from `&&&`, `|||`, `^^^`, `~~~` compared bit by bit.
* `rs_bridge_split`, `rs_bridge_hsplit` : see below.
Each either closes all goals or fails (so that the next rung of the ladder is tried).
-/
namespace Arimaa.Gen.Bridge

theorem nat_blt_eq_decide (a b : Nat) : Nat.blt a b = decide (a < b) := by
  cases h : Nat.blt a b
  · have : ¬ a < b := by intro hlt; rw [Nat.blt_eq.mpr hlt] at h; cases h
    simp [this]
  · simp [Nat.blt_eq.mp h]

theorem nat_ble_eq_decide (a b : Nat) : Nat.ble a b = decide (a ≤ b) := by
  cases h : Nat.ble a b
  · have : ¬ a ≤ b := by intro hle; rw [Nat.ble_eq.mpr hle] at h; cases h
    simp [this]
  · simp [Nat.ble_eq.mp h]

theorem bv_xor_left_comm (a b c : BitVec 64) : a ^^^ (b ^^^ c) = b ^^^ (a ^^^ c) := by
  rw [← BitVec.xor_assoc, BitVec.xor_comm a b, BitVec.xor_assoc]
theorem bv_and_left_comm (a b c : BitVec 64) : a &&& (b &&& c) = b &&& (a &&& c) := by
  rw [← BitVec.and_assoc, BitVec.and_comm a b, BitVec.and_assoc]
theorem bv_or_left_comm (a b c : BitVec 64) : a ||| (b ||| c) = b ||| (a ||| c) := by
  rw [← BitVec.or_assoc, BitVec.or_comm a b, BitVec.or_assoc]

macro "rs_bridge_bits" : tactic => `(tactic| (
  apply BitVec.eq_of_getLsbD_eq; intro i hi
  simp only [BitVec.getLsbD_and, BitVec.getLsbD_or, BitVec.getLsbD_xor, BitVec.getLsbD_not]
  grind))

macro "rs_bridge_cases" : tactic => `(tactic| (
  try simp only [Bool.cond_eq_ite]
  repeat' (first | rfl | split)
  all_goals (first | rfl | (simp_all [Arimaa.Rt.Res.bind, Arimaa.Rt.Res.guard]; done) | rs_bridge_bits |
    (simp_all [Arimaa.Rt.Res.bind, Arimaa.Rt.Res.guard, Nat.ble_eq, Nat.blt_eq] <;> omega))))

/-- like `rs_bridge_cases`, but every `Res.bind x f` is first opened into a `match` on `x`, so that two texts
that run the same fallible sub-computations in a different order or nesting are compared outcome by outcome -/
macro "rs_bridge_split" : tactic => `(tactic| (
  simp only [Bool.cond_eq_ite, Arimaa.Rt.Res.bind, Arimaa.Rt.unwrap]
  repeat' (first | rfl | split)
  all_goals (first | rfl | (simp_all [Arimaa.Rt.Res.bind, Arimaa.Rt.Res.guard]; done) | rs_bridge_bits |
    (simp_all [Arimaa.Rt.Res.bind, Arimaa.Rt.Res.guard, Nat.ble_eq, Nat.blt_eq] <;> omega))))

/-- like `rs_bridge_split`, but after every case split the equations it introduced (`e = some x` for a `match` whose
discriminant `e` is not a variable) are rewritten everywhere, so that a second `match` on the same `e` -- on the
other side, or behind an `unwrap` -- follows the same branch -/
macro "rs_bridge_hsplit" : tactic => `(tactic| (
  simp only [Bool.cond_eq_ite, Arimaa.Rt.Res.bind, Arimaa.Rt.unwrap]
  repeat' (first | rfl | (split <;> try (simp only [*] at *)))
  all_goals (first | rfl | (simp_all [Arimaa.Rt.Res.bind, Arimaa.Rt.Res.guard]; done) | rs_bridge_bits |
    (simp_all [Arimaa.Rt.Res.bind, Arimaa.Rt.Res.guard, Nat.ble_eq, Nat.blt_eq] <;> omega))))

end Arimaa.Gen.Bridge
