import Arimaa.Impl.Basic

/-!
Runtime of the statement-level translator (`tools/rs2lean2.py`).  HAND-WRITTEN, small, and part of the
trusted rendering of Rust's semantics: the result type with an explicit `panic`, checked `usize`
arithmetic, indexing, the two loop shapes the translator emits, and the functions of `square.rs` /
`bit_manip.rs` / `lib.rs` the translated code calls (those three files are modelled by hand in
`Impl/Basic.lean`; the translator treats them as externs).

Nothing here mentions the engine: the generated `Gen/Rs.lean` is the only user.
-/
namespace Arimaa.Rt

/-- the value of a Rust expression evaluated with `overflow-checks = true`: a value, or a panic -/
inductive Res (α : Type) where
  | ok (a : α)
  | panic
  deriving DecidableEq, Repr, Inhabited

namespace Res

@[inline] def bind {α β : Type} (x : Res α) (f : α → Res β) : Res β :=
  match x with
  | .ok a => f a
  | .panic => .panic

@[inline] def map {α β : Type} (f : α → β) (x : Res α) : Res β :=
  match x with
  | .ok a => .ok (f a)
  | .panic => .panic

/-- `panic` exactly when `p`, else the value `v` -/
@[inline] def guard {α : Type} (p : Bool) (v : α) : Res α := if p then .panic else .ok v

def isPanic {α : Type} : Res α → Bool
  | .ok _ => false
  | .panic => true

def getD {α : Type} (x : Res α) (d : α) : α :=
  match x with
  | .ok a => a
  | .panic => d

@[simp] theorem bind_ok {α β : Type} (a : α) (f : α → Res β) : bind (.ok a) f = f a := rfl
@[simp] theorem bind_panic {α β : Type} (f : α → Res β) : bind (.panic : Res α) f = .panic := rfl
@[simp] theorem guard_false {α : Type} (v : α) : guard false v = .ok v := rfl
@[simp] theorem guard_true {α : Type} (v : α) : guard true v = (.panic : Res α) := rfl
@[simp] theorem isPanic_ok {α : Type} (a : α) : (Res.ok a).isPanic = false := rfl
@[simp] theorem isPanic_panic {α : Type} : (Res.panic : Res α).isPanic = true := rfl

theorem bind_guard {α β : Type} (p : Bool) (v : α) (f : α → Res β) :
    bind (guard p v) f = if p then .panic else f v := by
  cases p <;> rfl

theorem bind_assoc {α β γ : Type} (x : Res α) (f : α → Res β) (g : β → Res γ) :
    bind (bind x f) g = bind x (fun a => bind (f a) g) := by
  cases x <;> rfl

@[simp] theorem bind_ok_right {α : Type} (x : Res α) : bind x .ok = x := by
  cases x <;> rfl

theorem guard_eq_ok {α : Type} {p : Bool} {v w : α} : guard p v = .ok w ↔ p = false ∧ v = w := by
  cases p <;> simp [guard]

theorem guard_eq_panic {α : Type} {p : Bool} {v : α} : guard p v = .panic ↔ p = true := by
  cases p <;> simp [guard]

end Res

/-- `usize::MAX` on the 64-bit targets the model is about -/
def usizeMax : Nat := 2 ^ 64 - 1

/-- `a + b` on `usize` with overflow checks -/
def addUsize (a b : Nat) : Res Nat := if a + b > usizeMax then .panic else .ok (a + b)

/-- `a - b` on `usize` with overflow checks -/
def subUsize (a b : Nat) : Res Nat := if a < b then .panic else .ok (a - b)

/-- `v[i]` on a slice / array / `Vec` -/
def index {α : Type} (l : List α) (i : Nat) : Res α :=
  match l[i]? with
  | some a => .ok a
  | none => .panic

/-- `Option::unwrap` / `Option::expect` -/
def unwrap {α : Type} : Option α → Res α
  | some a => .ok a
  | none => .panic

/-- `Square::as_bit_board`: `1 << self.0` -/
def asBitBoard (sq : Nat) : Res (BitVec 64) := if sq ≥ 64 then .panic else .ok (sqBit sq)

/-- `first_set_bit`: `1 << trailing_zeros(bits)` -/
def firstSetBit (x : BitVec 64) : Res (BitVec 64) := if x = 0 then .panic else .ok (Arimaa.firstSetBit x)

/-- `for x in l { acc = body(acc, x) }` where the body can panic -/
def forM {α σ : Type} (l : List α) (init : σ) (f : σ → α → Res σ) : Res σ :=
  match l with
  | [] => .ok init
  | a :: rest => Res.bind (f init a) (fun s => forM rest s f)

/-- `for x in l { if .. { return r; } }` without loop-carried state: `some r` for the first element
whose body returns, `none` when the loop runs to its end -/
def findRet {α ρ : Type} (l : List α) (f : α → Res (Option ρ)) : Res (Option ρ) :=
  match l with
  | [] => .ok none
  | a :: rest => Res.bind (f a) (fun r => match r with
      | some x => .ok (some x)
      | none => findRet rest f)

/-- `Vec::retain` / `Iterator::filter` with a predicate that can panic -/
def filterM {α : Type} (l : List α) (f : α → Res Bool) : Res (List α) :=
  match l with
  | [] => .ok []
  | a :: rest => Res.bind (f a) (fun keep => Res.bind (filterM rest f) (fun r =>
      .ok (if keep then a :: r else r)))

/-- `Iterator::map` with a function that can panic -/
def mapM {α β : Type} (l : List α) (f : α → Res β) : Res (List β) :=
  match l with
  | [] => .ok []
  | a :: rest => Res.bind (f a) (fun b => Res.bind (mapM rest f) (fun r => .ok (b :: r)))

/-- `Iterator::any` with a predicate that can panic (stops at the first `true`) -/
def anyM {α : Type} (l : List α) (f : α → Res Bool) : Res Bool :=
  match l with
  | [] => .ok false
  | a :: rest => Res.bind (f a) (fun b => bif b then .ok true else anyM rest f)

/-- `Iterator::all` with a predicate that can panic (stops at the first `false`) -/
def allM {α : Type} (l : List α) (f : α → Res Bool) : Res Bool :=
  match l with
  | [] => .ok true
  | a :: rest => Res.bind (f a) (fun b => bif b then allM rest f else .ok false)

/-! ### loop lemmas -/

@[simp] theorem forM_nil {α σ : Type} (init : σ) (f : σ → α → Res σ) : forM [] init f = .ok init := rfl
@[simp] theorem forM_cons {α σ : Type} (a : α) (l : List α) (init : σ) (f : σ → α → Res σ) :
    forM (a :: l) init f = Res.bind (f init a) (fun s => forM l s f) := rfl

/-- a loop whose body never panics is a fold -/
theorem forM_ok {α σ : Type} (l : List α) (init : σ) (f : σ → α → Res σ) (g : σ → α → σ)
    (h : ∀ s a, a ∈ l → f s a = .ok (g s a)) : forM l init f = .ok (l.foldl g init) := by
  induction l generalizing init with
  | nil => rfl
  | cons a l ih =>
    simp only [forM_cons, List.foldl_cons]
    rw [h init a (List.mem_cons_self ..)]
    exact ih _ (fun s b hb => h s b (List.mem_cons_of_mem _ hb))

/-- a loop whose body is `guard (p a) (g s a)`, the guard not depending on the state -/
theorem forM_guard {α σ : Type} (l : List α) (init : σ) (f : σ → α → Res σ) (p : α → Bool)
    (g : σ → α → σ) (h : ∀ s a, a ∈ l → f s a = Res.guard (p a) (g s a)) :
    forM l init f = Res.guard (l.any p) (l.foldl g init) := by
  induction l generalizing init with
  | nil => rfl
  | cons a l ih =>
    simp only [forM_cons, List.foldl_cons, List.any_cons]
    rw [h init a (List.mem_cons_self ..)]
    cases hp : p a
    · simp only [Res.guard_false, Res.bind_ok, Bool.false_or]
      exact ih _ (fun s b hb => h s b (List.mem_cons_of_mem _ hb))
    · rfl

@[simp] theorem filterM_nil {α : Type} (f : α → Res Bool) : filterM [] f = .ok [] := rfl

theorem filterM_guard {α : Type} (l : List α) (f : α → Res Bool) (p g : α → Bool)
    (h : ∀ a, a ∈ l → f a = Res.guard (p a) (g a)) :
    filterM l f = Res.guard (l.any p) (l.filter g) := by
  induction l with
  | nil => rfl
  | cons a l ih =>
    simp only [filterM, List.any_cons]
    rw [h a (List.mem_cons_self ..), ih (fun b hb => h b (List.mem_cons_of_mem _ hb))]
    cases hp : p a
    · cases hq : l.any p
      · cases hg : g a <;> simp [Res.guard, Res.bind, List.filter, hg]
      · simp [Res.guard, Res.bind]
    · rfl

theorem filterM_ok {α : Type} (l : List α) (f : α → Res Bool) (g : α → Bool)
    (h : ∀ a, a ∈ l → f a = .ok (g a)) : filterM l f = .ok (l.filter g) := by
  have := filterM_guard l f (fun _ => false) g (fun a ha => by simp [h a ha])
  have h0 : (l.any fun _ => false) = false := by induction l <;> simp_all
  rw [this, h0]; rfl

@[simp] theorem findRet_nil {α ρ : Type} (f : α → Res (Option ρ)) : findRet [] f = .ok none := rfl
@[simp] theorem findRet_cons {α ρ : Type} (a : α) (l : List α) (f : α → Res (Option ρ)) :
    findRet (a :: l) f = Res.bind (f a) (fun r => match r with
      | some x => .ok (some x)
      | none => findRet l f) := rfl

end Arimaa.Rt
