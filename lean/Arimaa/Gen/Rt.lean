import Arimaa.Impl.Basic

/-!
Runtime of the statement-level translator (`tools/rs2lean2.py`).  HAND-WRITTEN, small, and part of the
trusted rendering of Rust's semantics: the result type with an explicit `panic`, checked `usize`
arithmetic, indexing, the two loop shapes the translator emits, and the functions of `square.rs` /
`bit_manip.rs` / `lib.rs` the translated code calls (those three files are modelled by hand in
`Impl/Basic.lean`; the translator treats them as externs).

Nothing here mentions the engine: the generated `Gen/Rs.lean` is the only user.
-/
namespace Arimaa.Rt

/-- the value of a Rust expression evaluated with `overflow-checks = true`: a value, or a panic -/
inductive Res (α : Type) where
  | ok (a : α)
  | panic
  deriving DecidableEq, Repr, Inhabited

namespace Res

@[inline] def bind {α β : Type} (x : Res α) (f : α → Res β) : Res β :=
  match x with
  | .ok a => f a
  | .panic => .panic

@[inline] def map {α β : Type} (f : α → β) (x : Res α) : Res β :=
  match x with
  | .ok a => .ok (f a)
  | .panic => .panic

/-- `panic` exactly when `p`, else the value `v` -/
@[inline] def guard {α : Type} (p : Bool) (v : α) : Res α := if p then .panic else .ok v

def isPanic {α : Type} : Res α → Bool
  | .ok _ => false
  | .panic => true

def getD {α : Type} (x : Res α) (d : α) : α :=
  match x with
  | .ok a => a
  | .panic => d

@[simp] theorem bind_ok {α β : Type} (a : α) (f : α → Res β) : bind (.ok a) f = f a := rfl
@[simp] theorem bind_panic {α β : Type} (f : α → Res β) : bind (.panic : Res α) f = .panic := rfl
@[simp] theorem guard_false {α : Type} (v : α) : guard false v = .ok v := rfl
@[simp] theorem guard_true {α : Type} (v : α) : guard true v = (.panic : Res α) := rfl
@[simp] theorem isPanic_ok {α : Type} (a : α) : (Res.ok a).isPanic = false := rfl
@[simp] theorem isPanic_panic {α : Type} : (Res.panic : Res α).isPanic = true := rfl

theorem bind_guard {α β : Type} (p : Bool) (v : α) (f : α → Res β) :
    bind (guard p v) f = if p then .panic else f v := by
  cases p <;> rfl

theorem bind_assoc {α β γ : Type} (x : Res α) (f : α → Res β) (g : β → Res γ) :
    bind (bind x f) g = bind x (fun a => bind (f a) g) := by
  cases x <;> rfl

@[simp] theorem bind_ok_right {α : Type} (x : Res α) : bind x .ok = x := by
  cases x <;> rfl

theorem guard_eq_ok {α : Type} {p : Bool} {v w : α} : guard p v = .ok w ↔ p = false ∧ v = w := by
  cases p <;> simp [guard]

theorem guard_eq_panic {α : Type} {p : Bool} {v : α} : guard p v = .panic ↔ p = true := by
  cases p <;> simp [guard]

end Res

/-- `usize::MAX` on the 64-bit targets the model is about -/
def usizeMax : Nat := 2 ^ 64 - 1

/-- `a + b` on `usize` with overflow checks -/
def addUsize (a b : Nat) : Res Nat := if a + b > usizeMax then .panic else .ok (a + b)

/-- `a - b` on `usize` with overflow checks -/
def subUsize (a b : Nat) : Res Nat := if a < b then .panic else .ok (a - b)

def mulUsize (a b : Nat) : Res Nat := if a * b > usizeMax then .panic else .ok (a * b)
/-- `a / b`, `a % b`: division by zero panics -/
def divUsize (a b : Nat) : Res Nat := if b = 0 then .panic else .ok (a / b)
def modUsize (a b : Nat) : Res Nat := if b = 0 then .panic else .ok (a % b)

/-- `u8` arithmetic with overflow checks -/
def addU8 (a b : Nat) : Res Nat := if a + b > 255 then .panic else .ok (a + b)
def subU8 (a b : Nat) : Res Nat := if a < b then .panic else .ok (a - b)
def mulU8 (a b : Nat) : Res Nat := if a * b > 255 then .panic else .ok (a * b)

/-- `u32` arithmetic with overflow checks -/
def addU32 (a b : Nat) : Res Nat := if a + b > 4294967295 then .panic else .ok (a + b)
def subU32 (a b : Nat) : Res Nat := if a < b then .panic else .ok (a - b)
def mulU32 (a b : Nat) : Res Nat := if a * b > 4294967295 then .panic else .ok (a * b)

/-- `a << n`, `a >> n` on `u64` with overflow checks: the shift amount must be below 64 -/
def shlU64 (a : BitVec 64) (n : Nat) : Res (BitVec 64) := if n ≥ 64 then .panic else .ok (a <<< n)
def shrU64 (a : BitVec 64) (n : Nat) : Res (BitVec 64) := if n ≥ 64 then .panic else .ok (a >>> n)

/-- `u128::trailing_zeros` of a value that was widened from a `u64` (128 for zero) -/
def tz128 (n : Nat) : Nat := if n = 0 then 128 else ((List.range 128).find? (fun i => n.testBit i)).getD 128

/-- iteration bound of a translated `while` loop: far above anything a 64-bit word can need.  A loop that is
still running after `loopFuel` rounds is rendered as a panic; the agreement theorems show it is never reached. -/
def loopFuel : Nat := 4096

/-- `while cond(st) { st = body(st) }` where the body can panic -/
def whileM {σ : Type} (fuel : Nat) (st : σ) (cond : σ → Bool) (body : σ → Res σ) : Res σ :=
  match fuel with
  | 0 => .panic
  | fuel + 1 => bif cond st then Res.bind (body st) (fun st' => whileM fuel st' cond body) else .ok st

/-- the same with a body that cannot panic (out of fuel: the state reached) -/
def whileP {σ : Type} (fuel : Nat) (st : σ) (cond : σ → Bool) (body : σ → σ) : σ :=
  match fuel with
  | 0 => st
  | fuel + 1 => bif cond st then whileP fuel (body st) cond body else st

/-- `Iterator::step_by(n)`: the first element and then every `n`-th (`n = 0` panics in Rust; rendered as the list itself) -/
def stepBy {α : Type} (n : Nat) (l : List α) : List α :=
  match l with
  | [] => []
  | a :: rest => a :: stepBy n (rest.drop (n - 1))
termination_by l.length
decreasing_by simp [List.length_drop]; omega

/-- `Iterator::enumerate` -/
def enumerateFrom {α : Type} (n : Nat) : List α → List (Nat × α)
  | [] => []
  | a :: rest => (n, a) :: enumerateFrom (n + 1) rest

def enumerate {α : Type} (l : List α) : List (Nat × α) := enumerateFrom 0 l

/-- `str::split(c)`: the segments between occurrences of `c` (always at least one segment) -/
def splitOn (c : Char) : List Char → List (List Char)
  | [] => [[]]
  | x :: xs =>
    if x = c then [] :: splitOn c xs
    else match splitOn c xs with
      | seg :: rest => (x :: seg) :: rest
      | [] => [[x]]

/-- `for x in l { .. return r .. ; acc = .. }`: `Sum.inl r` as soon as the body returns, else `Sum.inr` of the state -/
def forRetM {α σ ρ : Type} (l : List α) (init : σ) (f : σ → α → Res (ρ ⊕ σ)) : Res (ρ ⊕ σ) :=
  match l with
  | [] => .ok (.inr init)
  | a :: rest => Res.bind (f init a) (fun r => match r with
      | .inl x => .ok (.inl x)
      | .inr s => forRetM rest s f)

def forRetP {α σ ρ : Type} (l : List α) (init : σ) (f : σ → α → ρ ⊕ σ) : ρ ⊕ σ :=
  match l with
  | [] => .inr init
  | a :: rest => match f init a with
      | .inl x => .inl x
      | .inr s => forRetP rest s f

/-- `&v[..n]`: panics when `n` exceeds the length -/
def sliceTo {α : Type} (l : List α) (n : Nat) : Res (List α) := if n > l.length then .panic else .ok (l.take n)

/-- `&v[n..]`: panics when `n` exceeds the length -/
def sliceFrom {α : Type} (l : List α) (n : Nat) : Res (List α) := if n > l.length then .panic else .ok (l.drop n)

def isAsciiDigit (c : Char) : Bool := Nat.ble 48 c.toNat && Nat.ble c.toNat 57

/-- `char::to_digit(radix)` for radix 10 (other radices: digits and letters below the radix) -/
def toDigit (c : Char) (radix : Nat) : Option Nat :=
  let v := if isAsciiDigit c then c.toNat - 48
    else if Nat.ble 97 c.toNat && Nat.ble c.toNat 122 then c.toNat - 97 + 10
    else if Nat.ble 65 c.toNat && Nat.ble c.toNat 90 then c.toNat - 65 + 10
    else radix
  if v < radix then some v else none

/-- `str::parse::<usize>()`: an optional leading `+`, then at least one ASCII digit, value at most `usize::MAX` -/
def stripPlus : List Char → List Char
  | '+' :: rest => rest
  | t => t

def parseUsize (t : List Char) : Option Nat :=
  let ds := stripPlus t
  if ds.isEmpty then none
  else if ds.all isAsciiDigit then
    let v := ds.foldl (fun acc c => acc * 10 + (c.toNat - 48)) 0
    if v ≤ usizeMax then some v else none
  else none

/-- `v[i]` on a slice / array / `Vec` -/
def index {α : Type} (l : List α) (i : Nat) : Res α :=
  match l[i]? with
  | some a => .ok a
  | none => .panic

/-- `Option::unwrap` / `Option::expect` -/
def unwrap {α : Type} : Option α → Res α
  | some a => .ok a
  | none => .panic

/-- `Square::as_bit_board`: `1 << self.0` -/
def asBitBoard (sq : Nat) : Res (BitVec 64) := if sq ≥ 64 then .panic else .ok (sqBit sq)

/-- `first_set_bit`: `1 << trailing_zeros(bits)` -/
def firstSetBit (x : BitVec 64) : Res (BitVec 64) := if x = 0 then .panic else .ok (Arimaa.firstSetBit x)

/-- `for x in l { acc = body(acc, x) }` where the body can panic -/
def forM {α σ : Type} (l : List α) (init : σ) (f : σ → α → Res σ) : Res σ :=
  match l with
  | [] => .ok init
  | a :: rest => Res.bind (f init a) (fun s => forM rest s f)

/-- `for x in l { if .. { return r; } }` without loop-carried state: `some r` for the first element
whose body returns, `none` when the loop runs to its end -/
def findRet {α ρ : Type} (l : List α) (f : α → Res (Option ρ)) : Res (Option ρ) :=
  match l with
  | [] => .ok none
  | a :: rest => Res.bind (f a) (fun r => match r with
      | some x => .ok (some x)
      | none => findRet rest f)

/-- `Vec::retain` / `Iterator::filter` with a predicate that can panic -/
def filterM {α : Type} (l : List α) (f : α → Res Bool) : Res (List α) :=
  match l with
  | [] => .ok []
  | a :: rest => Res.bind (f a) (fun keep => Res.bind (filterM rest f) (fun r =>
      .ok (if keep then a :: r else r)))

/-- `Iterator::map` with a function that can panic -/
def mapM {α β : Type} (l : List α) (f : α → Res β) : Res (List β) :=
  match l with
  | [] => .ok []
  | a :: rest => Res.bind (f a) (fun b => Res.bind (mapM rest f) (fun r => .ok (b :: r)))

/-- `Iterator::any` with a predicate that can panic (stops at the first `true`) -/
def anyM {α : Type} (l : List α) (f : α → Res Bool) : Res Bool :=
  match l with
  | [] => .ok false
  | a :: rest => Res.bind (f a) (fun b => bif b then .ok true else anyM rest f)

/-- `Iterator::all` with a predicate that can panic (stops at the first `false`) -/
def allM {α : Type} (l : List α) (f : α → Res Bool) : Res Bool :=
  match l with
  | [] => .ok true
  | a :: rest => Res.bind (f a) (fun b => bif b then allM rest f else .ok false)

/-! ### loop lemmas -/

@[simp] theorem forM_nil {α σ : Type} (init : σ) (f : σ → α → Res σ) : forM [] init f = .ok init := rfl
@[simp] theorem forM_cons {α σ : Type} (a : α) (l : List α) (init : σ) (f : σ → α → Res σ) :
    forM (a :: l) init f = Res.bind (f init a) (fun s => forM l s f) := rfl

/-- a loop whose body never panics is a fold -/
theorem forM_ok {α σ : Type} (l : List α) (init : σ) (f : σ → α → Res σ) (g : σ → α → σ)
    (h : ∀ s a, a ∈ l → f s a = .ok (g s a)) : forM l init f = .ok (l.foldl g init) := by
  induction l generalizing init with
  | nil => rfl
  | cons a l ih =>
    simp only [forM_cons, List.foldl_cons]
    rw [h init a (List.mem_cons_self ..)]
    exact ih _ (fun s b hb => h s b (List.mem_cons_of_mem _ hb))

/-- a loop whose body is `guard (p a) (g s a)`, the guard not depending on the state -/
theorem forM_guard {α σ : Type} (l : List α) (init : σ) (f : σ → α → Res σ) (p : α → Bool)
    (g : σ → α → σ) (h : ∀ s a, a ∈ l → f s a = Res.guard (p a) (g s a)) :
    forM l init f = Res.guard (l.any p) (l.foldl g init) := by
  induction l generalizing init with
  | nil => rfl
  | cons a l ih =>
    simp only [forM_cons, List.foldl_cons, List.any_cons]
    rw [h init a (List.mem_cons_self ..)]
    cases hp : p a
    · simp only [Res.guard_false, Res.bind_ok, Bool.false_or]
      exact ih _ (fun s b hb => h s b (List.mem_cons_of_mem _ hb))
    · rfl

@[simp] theorem filterM_nil {α : Type} (f : α → Res Bool) : filterM [] f = .ok [] := rfl

theorem filterM_guard {α : Type} (l : List α) (f : α → Res Bool) (p g : α → Bool)
    (h : ∀ a, a ∈ l → f a = Res.guard (p a) (g a)) :
    filterM l f = Res.guard (l.any p) (l.filter g) := by
  induction l with
  | nil => rfl
  | cons a l ih =>
    simp only [filterM, List.any_cons]
    rw [h a (List.mem_cons_self ..), ih (fun b hb => h b (List.mem_cons_of_mem _ hb))]
    cases hp : p a
    · cases hq : l.any p
      · cases hg : g a <;> simp [Res.guard, Res.bind, List.filter, hg]
      · simp [Res.guard, Res.bind]
    · rfl

theorem filterM_ok {α : Type} (l : List α) (f : α → Res Bool) (g : α → Bool)
    (h : ∀ a, a ∈ l → f a = .ok (g a)) : filterM l f = .ok (l.filter g) := by
  have := filterM_guard l f (fun _ => false) g (fun a ha => by simp [h a ha])
  have h0 : (l.any fun _ => false) = false := by induction l <;> simp_all
  rw [this, h0]; rfl

@[simp] theorem findRet_nil {α ρ : Type} (f : α → Res (Option ρ)) : findRet [] f = .ok none := rfl
@[simp] theorem findRet_cons {α ρ : Type} (a : α) (l : List α) (f : α → Res (Option ρ)) :
    findRet (a :: l) f = Res.bind (f a) (fun r => match r with
      | some x => .ok (some x)
      | none => findRet l f) := rfl

/-! ### `&str`: a list of chars whose `len()` and slice bounds count UTF-8 bytes -/

/-- `str::len`: the number of BYTES of the UTF-8 encoding -/
def strLen (s : List Char) : Nat := (s.map Char.utf8Size).foldl (· + ·) 0

/-- `&s[..n]`: panics unless byte offset `n` is at most the length and falls on a char boundary -/
def strSliceTo : List Char → Nat → Res (List Char)
  | _, 0 => .ok []
  | [], _ + 1 => .panic
  | c :: rest, n + 1 =>
    if c.utf8Size ≤ n + 1 then Res.bind (strSliceTo rest (n + 1 - c.utf8Size)) (fun r => .ok (c :: r)) else .panic

/-- `&s[n..]` -/
def strSliceFrom : List Char → Nat → Res (List Char)
  | s, 0 => .ok s
  | [], _ + 1 => .panic
  | c :: rest, n + 1 => if c.utf8Size ≤ n + 1 then strSliceFrom rest (n + 1 - c.utf8Size) else .panic

/-- `iter().any(p)` and the loop `for a in l { if p(a) { return true } } false` are the same computation; stated
from the `any` form to the loop form so that the bridges can normalise both texts to the loop form -/
theorem anyM_eq_findRet {α : Type} (l : List α) (q : α → Res Bool) :
    anyM l q = Res.bind (findRet l (fun a => Res.bind (q a) (fun t => Res.ok (bif t then some true else none))))
      (fun t => Res.ok (match t with | some x => x | none => false)) := by
  induction l with
  | nil => rfl
  | cons a l ih =>
    simp only [anyM, findRet_cons, Res.bind_assoc]
    cases h : q a with
    | panic => rfl
    | ok b => cases b <;> simp [Res.bind, ih]

/-- `iter().all(p)` and the loop `for a in l { if !p(a) { return false } } true` -/
theorem allM_eq_findRet {α : Type} (l : List α) (q : α → Res Bool) :
    allM l q = Res.bind (findRet l (fun a => Res.bind (q a) (fun t => Res.ok (bif t then none else some false))))
      (fun t => Res.ok (match t with | some x => x | none => true)) := by
  induction l with
  | nil => rfl
  | cons a l ih =>
    simp only [allM, findRet_cons, Res.bind_assoc]
    cases h : q a with
    | panic => rfl
    | ok b => cases b <;> simp [Res.bind, ih]

end Arimaa.Rt
