import Arimaa.Gen.BridgeTac
import Arimaa.Gen.BridgeFacts
import Lean

/-!
`rs_bridge_eval`: symbolic evaluation of both sides of a bridge by case analysis on the OUTCOME of every fallible
call (`Res.ok a` / `Res.panic`), first call first.  Two texts that run the same calls in another order, run one of
them twice, or feed the results into differently shaped pure code become two pure expressions over the same
outcome variables, which the closing tactics compare (case analysis on `match` / `bif`, Boolean and bitboard
algebra up to associativity and commutativity).  Hand-written; proves nothing by itself.
-/
namespace Arimaa.Gen.Bridge
open Lean Elab Tactic Meta

/-- does the type `ty` of a constant, after `n` arguments, end in `Res _`? -/
private def resultIsRes : Expr → Nat → Bool
  | .forallE _ _ b _, n+1 => resultIsRes b n
  | ty, 0 => ty.getAppFn.isConstOf ``Arimaa.Rt.Res
  | _, _ => false

private def isResCall (env : Environment) (e : Expr) : Bool :=
  e.isApp && !e.hasLooseBVars &&
  match e.getAppFn with
  | .const n _ =>
    n != ``Arimaa.Rt.Res.ok && n != ``Arimaa.Rt.Res.panic && n != ``Arimaa.Rt.Res.bind &&
    (match env.find? n with
     | some ci => resultIsRes ci.type e.getAppNumArgs
     | none => false)
  | _ => false

private partial def findCall (env : Environment) (e : Expr) : Option Expr :=
  if isResCall env e then some e else
  match e with
  | .app f a => (findCall env f).orElse fun _ => findCall env a
  | .lam _ t b _ => (findCall env t).orElse fun _ => findCall env b
  | .forallE _ t b _ => (findCall env t).orElse fun _ => findCall env b
  | .letE _ t v b _ => ((findCall env t).orElse fun _ => findCall env v).orElse fun _ => findCall env b
  | .mdata _ b => findCall env b
  | .proj _ _ b => findCall env b
  | _ => none

/-- picks the first closed call of a function with result type `Res _` in the goal, and case-splits on its outcome -/
elab "rs_cases_call" : tactic => withMainContext do
  let g ← getMainGoal
  let tgt ← instantiateMVars (← g.getType)
  match findCall (← getEnv) tgt with
  | none => throwError "rs_cases_call: no fallible call left"
  | some e =>
    let stx ← Term.exprToSyntax e
    evalTactic (← `(tactic| (generalize $stx = xcall; cases xcall)))

/-- one rung of the ladder in a generated bridge: runs `t` with a heartbeat budget of its own (100000; the
generated theorem raises the budget of the whole ladder to the sum) and turns a
deterministic timeout (which `first` does not catch) into an ordinary failure, so that the next rung is tried -/
elab "rs_rung " t:tactic : tactic => do
  let s ← saveState
  tryCatchRuntimeEx
    (withTheReader Core.Context (fun c => { c with maxHeartbeats := 100000 * 1000 }) (withCurrHeartbeats (evalTactic t)))
    (fun ex => do
      if ex.isRuntime then
        s.restore
        throwError "rung gave up: {ex.toMessageData}"
      else
        throw ex)

macro "rs_bridge_eval" : tactic => `(tactic| (
  repeat' (first | rfl | (rs_cases_call <;> try simp only [Arimaa.Rt.Res.bind_ok, Arimaa.Rt.Res.bind_panic]) | (split <;> try simp only [*, Arimaa.Rt.Res.bind_ok, Arimaa.Rt.Res.bind_panic] at *))
  all_goals first
    | rfl
    | rs_bridge_cases
    | ((repeat' (split <;> try simp only [])) <;>
        (simp_all [BitVec.xor_assoc, BitVec.xor_comm, bv_xor_left_comm, BitVec.and_assoc, BitVec.and_comm,
          bv_and_left_comm, BitVec.or_assoc, BitVec.or_comm, bv_or_left_comm]; done))))

end Arimaa.Gen.Bridge
