import Arimaa.Impl.Basic

/-!
Facts about the data (not about control flow) that bridges may use: rewriting rules between equivalent tests on a
bitboard.  Hand-written, proved here.
-/
namespace Arimaa.Gen.Bridge
open Arimaa

/-- "fewer than one piece" is "no piece": `x.count_ones() < 1` against `x == 0` -/
theorem popcount_blt_one (x : BB) : Nat.blt (popcount x) 1 = (x == 0) := by
  have key : popcount x = 0 ↔ x = 0 := by
    unfold popcount squaresOf
    rw [List.length_eq_zero_iff, List.filter_eq_nil_iff]
    constructor
    · intro h
      apply BitVec.eq_of_getLsbD_eq
      intro i hi
      have := h i (List.mem_range.mpr hi)
      simpa using this
    · intro h i _
      subst h
      simp
  by_cases hx : x = 0#64
  · have h0 := key.mpr hx
    rw [h0, hx]
    rfl
  · have h0 : popcount x ≠ 0 := fun h => hx (key.mp h)
    have hb : Nat.blt (popcount x) 1 = false := by
      cases h : Nat.blt (popcount x) 1
      · rfl
      · have := Nat.blt_eq.mp h
        omega
    rw [hb]
    exact (beq_eq_false_iff_ne.mpr hx).symm

end Arimaa.Gen.Bridge
