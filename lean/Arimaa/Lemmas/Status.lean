import Arimaa.Lemmas.Enabled

/-!
`next_push_pull_state` against the specification's `nextPending` (C12).
-/
namespace Arimaa
open Gen Spec GameState

theorem shiftInDirection_sqBit (i j : Nat) (d : Dir) (hi : i < 64) (hn : nbr i (dirSpec d) = some j) :
    shiftInDirection d (sqBit i) = sqBit j := by
  have h0 : shiftPieceInDirection (sqBit i) (sqBit i) d = shiftInDirection d (sqBit i) := by
    unfold shiftPieceInDirection
    have h1 : sqBit i &&& sqBit i = sqBit i := BitVec.and_self
    have h2 : sqBit i &&& ~~~sqBit i = 0 := by
      apply bb_ext; intro k hk
      rw [bit_and, bit_not]; cases bit (sqBit i) k <;> simp
    rw [h1, h2]; simp
  rw [← h0]
  apply bb_ext; intro k hk
  rw [shiftPiece_bit _ i d j k hi hk hn, sqBit_bit, sqBit_bit, sqBit_bit]
  by_cases e : k = j
  · simp [e, hi, nbr_lt i _ j hi hn]
  · by_cases e2 : k = i
    · subst e2; simp [e]
    · simp [e, e2]

theorem isTheirPiece_eq (s : GameState) (b : Board) (i : Nat) (hi : i < 64) :
    s.isTheirPiece (sqBit i) b = (s.p1Turn ^^ bit b.p1 i) := by
  unfold isTheirPiece
  rw [sqBit_and_ne_zero _ i hi]

theorem sqBit_eq_iff (a c : Nat) (ha : a < 64) (hc : c < 64) : (sqBit a == sqBit c) = decide (a = c) := by
  by_cases e : a = c
  · subst e; simp
  · have : sqBit a ≠ sqBit c := fun h => e (sqBit_injective a c ha hc h)
    simp [this, e]

/-- the status after an offered step is the specification's `nextPending` -/
theorem nextStatus_eq (s : GameState) (pp : PlayPhase) (h : PlayInv s pp) (i : Nat) (d : Dir)
    (ha : Action.move i d ∈ s.validActionsNoRep) :
    absPend (s.nextPushPullState pp i d) =
      nextPending (absBoard s.board) s.p1Turn (absPend pp.pps) i (dirSpec d) := by
  obtain ⟨hi, j, hn, hj, hej, hall⟩ := offered_step_facts s pp h i d ha
  obtain ⟨t, ht⟩ : ∃ t, typeAt s.board i = some t := by
    have := typeAt_isSome s.board h.wf i hi; rw [hall] at this
    cases hh : typeAt s.board i <;> simp_all
  have hc := absBoard_eq_of_typeAt s.board i t ht
  simp only [nextPushPullState, nextPending, hc, isTheirPiece_eq s s.board i hi,
    pieceTypeAtBit_sqBit s.board h.wf i hi t ht, absPend_isPush]
  -- the pull test
  have hpull : moveCanBeCountedAsPull pp (sqBit i) d s.board =
      (match pp.pps with
       | .possiblePull q x => decide (j = q) && decide ((toSpec t).strength < (toSpec x).strength)
       | _ => false) := by
    unfold moveCanBeCountedAsPull
    cases hpps : pp.pps with
    | none => rfl
    | mustCompletePush q v => rfl
    | possiblePull q x =>
      have hq : q < 64 := by have := h.pend; rw [hpps] at this; exact this.1
      simp only [shiftInDirection_sqBit i j d hi hn, pieceTypeAtBit_sqBit s.board h.wf i hi t ht,
        toSpec_strength_lt, sqBit_eq_iff q j hq hj]
      by_cases e : j = q
      · simp [e]
      · have : ¬ q = j := fun h => e h.symm
        simp [e, this]
  have hpe : (bit s.board.p1 i != s.p1Turn) = true →
      pullEnd (absBoard s.board) s.p1Turn (absPend pp.pps) i (dirSpec d) =
        moveCanBeCountedAsPull pp (sqBit i) d s.board := by
    intro hopp
    rw [hpull]
    unfold pullEnd
    cases hpps : pp.pps with
    | none => simp [absPend]
    | mustCompletePush q v => simp [absPend]
    | possiblePull q x =>
      have hq := h.pend; rw [hpps] at hq
      simp only [absPend, hc, hn, hopp, Bool.true_and]
      by_cases e : j = q
      · subst e
        simp [abs_isNone s.board h.wf j hj, hej]
      · simp [e]
  cases hg : bit s.board.p1 i <;> cases hs : s.p1Turn <;>
    simp only [hg, hs, Bool.xor_false, Bool.xor_true, Bool.not_false, Bool.not_true, Bool.false_and,
      Bool.true_and, bne_self_eq_false, Bool.false_eq_true, if_false, if_true] <;>
    (try rw [hs] at hpe) <;> (try rw [hg] at hpe)
  · -- silver piece, silver to move: own step
    cases hm : pp.pps.isMustCompletePush <;> cases t <;> simp [toSpec, absPend]
  · -- silver piece, gold to move: enemy step
    rw [hpe (by simp)]
    cases moveCanBeCountedAsPull pp (sqBit i) d s.board <;> simp [absPend]
  · rw [hpe (by simp)]
    cases moveCanBeCountedAsPull pp (sqBit i) d s.board <;> simp [absPend]
  · cases hm : pp.pps.isMustCompletePush <;> cases t <;> simp [toSpec, absPend]

end Arimaa
