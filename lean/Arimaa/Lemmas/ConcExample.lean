import Arimaa.Lemmas.Conc

/-! A concrete instance of the thread/heap model used for the non-vacuity examples of C18 (b):
two threads expanding one shared three-node history. -/

namespace Arimaa.Conc.Example
open Arimaa.Conc

def n0 : NodeId := ⟨0, 0⟩
def n1 : NodeId := ⟨0, 1⟩
def n2 : NodeId := ⟨0, 2⟩

/-- history `7 ← 8 ← 9`, head `n2`, held once by the shared state -/
def fields0 : NodeId → Option Fields := fun id =>
  if id = n0 then some ⟨7, none, 1⟩ else if id = n1 then some ⟨8, some n0, 2⟩
  else if id = n2 then some ⟨9, some n1, 3⟩ else none

def arcs0 : NodeId → Meta := fun id =>
  if id = n0 then { owners := [.node n1] } else if id = n1 then { owners := [.node n2] }
  else if id = n2 then { owners := [.root 0] } else {}

/-- "take an action": read the length, append a hash, count by iterating three nodes down the new list,
read past the end, clone the new list, drop both handles -/
def expand (h : Nat) : Prog :=
  .readLen ⟨.root 0, 0⟩ fun _ =>
  .append (some ⟨.root 0, 0⟩) h fun _ =>
  .readElem ⟨.own 0, 0⟩ fun _ => .readElem ⟨.own 0, 1⟩ fun _ => .readElem ⟨.own 0, 2⟩ fun _ =>
  .readElem ⟨.own 0, 3⟩ fun _ => .readElem ⟨.own 0, 4⟩ fun _ => .readLen ⟨.own 0, 0⟩ fun _ =>
  .clone ⟨.own 0, 0⟩ fun _ => .drop 0 (.drop 1 .done)

def init : State :=
  { fields := fields0, arcs := arcs0, roots := [n2],
    threads := [{ loc := { prog := expand 100 } }, { loc := { prog := expand 200 } }] }

def traceOf (s : State) (t : Nat) : Option (List (Option Nat)) := s.threads[t]?.map (·.loc.trace)

def schedA : List Nat := [0, 1, 0, 1, 0, 1, 0, 1, 0, 1, 0, 1, 0, 1, 0, 1, 0, 1, 0, 1, 0, 1, 0, 1, 0, 1, 0, 1, 0, 1, 0, 1]
def schedB : List Nat := [1, 1, 1, 0, 1, 1, 1, 1, 1, 0, 0, 0, 0, 0, 0, 0, 0, 1, 1, 1, 1, 1, 1, 1, 0, 0, 0, 0, 0, 0, 0, 0]

theorem reach_init {id : NodeId} {tok : Owner} (h : RootReach init id tok) :
    (id, tok) ∈ [(n2, Owner.root 0), (n1, Owner.node n2), (n0, Owner.node n1)] := by
  induction h with
  | head i id hi _ =>
    cases i with
    | zero => simp [init] at hi; subst hi; simp
    | succ i => simp [init] at hi
  | next p tokp f j _ hf hn _ ih =>
    simp only [List.mem_cons, Prod.mk.injEq, List.mem_nil_iff, or_false] at ih
    rcases ih with ⟨rfl, _⟩ | ⟨rfl, _⟩ | ⟨rfl, _⟩
    · have : f = ⟨9, some n1, 3⟩ := by
        have h2 : init.fields n2 = some ⟨9, some n1, 3⟩ := by decide
        rw [h2] at hf; cases hf; rfl
      subst this; cases hn; simp
    · have : f = ⟨8, some n0, 2⟩ := by
        have h2 : init.fields n1 = some ⟨8, some n0, 2⟩ := by decide
        rw [h2] at hf; cases hf; rfl
      subst this; cases hn; simp
    · have : f = ⟨7, none, 1⟩ := by
        have h2 : init.fields n0 = some ⟨7, none, 1⟩ := by decide
        rw [h2] at hf; cases hf; rfl
      subst this; cases hn

/-- the hypothesis of `C18_roots_never_freed` holds for the example, and all three nodes are root-reachable -/
theorem init_rootsSafe : RootsSafe init init := by
  constructor
  · intro id tok hr
    have := reach_init hr
    simp only [List.mem_cons, Prod.mk.injEq, List.mem_nil_iff, or_false] at this
    rcases this with ⟨rfl, rfl⟩ | ⟨rfl, rfl⟩ | ⟨rfl, rfl⟩ <;> decide
  · intro t th hth
    match t, hth with
    | 0, hth => simp [init] at hth; subst hth; simp [RelOk]
    | 1, hth => simp [init] at hth; subst hth; simp [RelOk]
    | t + 2, hth => simp [init] at hth

end Arimaa.Conc.Example
