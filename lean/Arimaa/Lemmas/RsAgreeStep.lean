import Arimaa.Lemmas.RsAgreeHash

/-!
Agreement of the regenerated model with the hand model: the turn transitions of engine.rs —
`pass`, `move_piece`, `place`, `take_action` (value and panic behaviour).
-/
namespace Arimaa.RsAgree
open Arimaa Arimaa.Gen Arimaa.Gen.RsBase Arimaa.Rt

theorem pass_eq (s : GameState) : GameState_pass s = Res.guard s.passPanics s.pass := by
  unfold GameState_pass GameState.passPanics GameState.pass
  cases hp : s.phase with
  | place => simp only [current_step_place s hp, Res.bind_panic]; rfl
  | play pp =>
    simp only [current_step_play s pp hp, Res.bind_ok, zobrist_pass, unwrap_play_phase s pp hp, addUsize_eq,
      Res.bind_guard, play_phase_initial]
    cases zPassPanics pp.step
    · cases hp1 : s.p1Turn <;> cases pp.trapped <;>
        simp only [cond_true, cond_false, Bool.false_eq_true, if_false, if_true, Bool.false_or, ite_panic_ok]
    · rfl

theorem move_piece_eq (s : GameState) (sq : Nat) (d : Dir) :
    GameState_move_piece s sq d = Res.guard (s.movePiecePanics sq d) (s.movePiece sq d) := by
  unfold GameState_move_piece GameState.movePiecePanics GameState.movePiece
  cases hp : s.phase with
  | place => simp only [unwrap_play_phase_place s hp, Res.bind_panic]; rfl
  | play pp =>
    simp only [unwrap_play_phase s pp hp, current_step_play s pp hp, Res.bind_ok, board_take_action_move,
      ble_eq_decide, Board.takeActionPanics, Board.movePiecePanics, addUsize_eq, zobrist_move_piece _ s pp hp,
      next_piece_boards_this_move s pp hp, next_push_pull_state s pp hp, play_phase_initial, Res.bind_guard]
    cases sqBitPanics sq
    · simp only [Bool.false_eq_true, if_false, Bool.false_or]
      cases hl : decide (3 ≤ pp.step)
      · have hl' : decide (pp.step ≥ 3) = false := hl
        simp only [hl', cond_false, Bool.false_and, Bool.not_false, Bool.true_and, Bool.false_eq_true, if_false]
        cases h1 : usizeAddPanics pp.step 1
        · cases h2 : usizeAddPanics s.moveNo 0
          · cases h3 : zMovePiecePanics s.board pp.step (s.board.takeMove sq d).1 (pp.step + 1)
            · cases h4 : s.nextPushPullStatePanics pp sq
              · simp [Res.guard, h1, h2, h3, h4, Res.bind]
                try (cases (s.board.takeMove sq d).2 <;> rfl)
              · simp [Res.guard, h1, h2, h3, h4, Res.bind]
            · simp [Res.guard, h1, h2, h3, Res.bind]
          · simp [Res.guard, h1, h2, Res.bind]
        · simp [Res.guard, h1, Res.bind]
      · have hl' : decide (pp.step ≥ 3) = true := hl
        simp only [hl', cond_true, Bool.true_and, Bool.not_true, Bool.false_and, Bool.false_or, Res.bind_ok]
        cases h2 : usizeAddPanics s.moveNo (bif !s.p1Turn then 1 else 0)
        · cases h3 : zMovePiecePanics s.board pp.step (s.board.takeMove sq d).1 0
          · simp [Res.guard, h2, h3, Res.bind]
            cases hp1 : s.p1Turn <;> simp [hp1] at h2 ⊢ <;> simp [h2] <;>
              try (cases (s.board.takeMove sq d).2 <;> rfl)
          · cases hp1 : s.p1Turn <;> simp [hp1] at h2 ⊢ <;> simp [Res.guard, h2, h3, Res.bind]
        · cases hp1 : s.p1Turn <;> simp [hp1] at h2 ⊢ <;> simp [Res.guard, h2, Res.bind]
    · rfl

theorem place_eq (s : GameState) (p : Piece) : GameState_place s p = Res.guard (s.placePanics p) (s.place p) := by
  unfold GameState_place GameState.placePanics GameState.place
  simp only [game_state_piece_board, placement_bit, zobrist_place_piece, Res.bind_guard, piece_board_new,
    play_phase_initial]
  cases s.board.placementBitPanics
  · simp only [Bool.false_eq_true, if_false, Bool.false_or]
    apply guard_congr rfl
    intro _
    cases p <;> cases (s.board.placementBit == LAST_P2_PLACEMENT_MASK) <;>
      cases (s.board.placementBit == LAST_P1_PLACEMENT_MASK) <;> cases s.p1Turn <;> rfl
  · rfl

theorem take_action_eq (s : GameState) (a : Action) :
    GameState_take_action s a = Res.guard (s.takeActionPanics a) (s.takeAction a) := by
  cases a with
  | pass => exact pass_eq s
  | place p => exact place_eq s p
  | move sq d => exact move_piece_eq s sq d

end Arimaa.RsAgree
