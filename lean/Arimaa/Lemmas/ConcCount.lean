import Arimaa.Lemmas.Conc

/-!
# The reference-count invariant of the thread/heap model `Impl/Conc.lean` (property C18 b, second conjunct)

`Refs s id tok`: in state `s` there is a live strong reference to node `id`, identified by the ghost token
`tok` — a root handle, a handle in some thread's table, the `next` link of a node that has not been freed,
or a reference a thread has taken out of its table / out of a freed node and is about to decrement.

`Inv s`: every live reference is counted (`tok ∈ owners`, hence `count ≥ number of references`: distinct
references have distinct tokens), a freed node has count 0, and the bookkeeping facts needed to make
this inductive.  `inv_step`: every atomic step of every thread preserves `Inv`; `inv_run`: so does every schedule.
-/

namespace Arimaa.Conc

/-! ### what an instruction does, by effect -/

theorem lookup_mem {k : Nat} {id : NodeId} : ∀ {l : List (Nat × NodeId)}, l.lookup k = some id → (k, id) ∈ l
  | [], h => by simp [List.lookup] at h
  | (a, b) :: l, h => by
    rw [List.lookup_cons] at h
    by_cases hk : k = a
    · subst hk; simp at h; subst h; exact List.mem_cons_self
    · have : (k == a) = false := by simpa using hk
      rw [this] at h
      exact List.mem_cons_of_mem _ (lookup_mem h)

theorem instr_none_inv {t : Nat} {roots : List NodeId} {V : View} {L L' : Local}
    (h : instr t roots V L = (L', .none)) : L'.table = L.table ∧ L'.actr = L.actr := by
  unfold instr at h
  split at h
  · simp at h; subst h; exact ⟨rfl, rfl⟩
  · simp at h; subst h; exact ⟨rfl, rfl⟩
  · simp at h; subst h; exact ⟨rfl, rfl⟩
  · split at h <;> simp at h
    subst h; exact ⟨rfl, rfl⟩
  · simp at h
  · split at h <;> simp at h
    subst h; exact ⟨rfl, rfl⟩

theorem instr_addOwner_inv {t : Nat} {roots : List NodeId} {V : View} {L L' : Local} {id : NodeId} {tok : Owner}
    (h : instr t roots V L = (L', .addOwner id tok)) :
    (∃ r, resolve V roots L.table r = some id) ∧ tok = .handle t L.ctr ∧
      L'.table = (L.ctr, id) :: L.table ∧ L'.actr = L.actr := by
  unfold instr at h
  split at h
  · simp at h
  · simp at h
  · simp at h
  · rename_i r k _
    split at h <;> simp at h
    rename_i id' hres
    obtain ⟨h1, h2, h3⟩ := h
    subst h1 h2 h3
    exact ⟨⟨r, hres⟩, rfl, rfl, rfl⟩
  · simp at h
  · split at h <;> simp at h

theorem instr_alloc_inv {t : Nat} {roots : List NodeId} {V : View} {L L' : Local} {newid : NodeId} {f : Fields}
    {tok : Owner} (h : instr t roots V L = (L', .alloc newid f tok)) :
    newid = ⟨t + 1, L.actr⟩ ∧ tok = .handle t L.ctr ∧ L'.table = (L.ctr, newid) :: L.table ∧
      L'.actr = L.actr + 1 ∧ (∀ j, f.next = some j → ∃ r, resolve V roots L.table r = some j) := by
  unfold instr at h
  split at h
  · simp at h
  · simp at h
  · simp at h
  · split at h <;> simp at h
  · rename_i r e k _
    simp at h
    obtain ⟨h1, h2, h3, h4⟩ := h
    subst h1 h2 h3 h4
    refine ⟨rfl, rfl, rfl, rfl, ?_⟩
    intro j hj
    simp only at hj
    cases r with
    | none => simp at hj
    | some r => exact ⟨r, by simpa using hj⟩
  · split at h <;> simp at h

theorem instr_release_inv {t : Nat} {roots : List NodeId} {V : View} {L L' : Local} {id : NodeId} {tok : Owner}
    (h : instr t roots V L = (L', .release id tok)) :
    ∃ key, tok = .handle t key ∧ (key, id) ∈ L.table ∧ L'.table = L.table.filter (fun p => p.1 != key) ∧
      L'.actr = L.actr := by
  unfold instr at h
  split at h
  · simp at h
  · simp at h
  · simp at h
  · split at h <;> simp at h
  · simp at h
  · rename_i key k _
    split at h <;> simp at h
    rename_i id' hl
    obtain ⟨h1, h2, h3⟩ := h
    subst h1 h2 h3
    exact ⟨key, rfl, lookup_mem hl, rfl, rfl⟩

/-! ### the step function, case by case -/

theorem step_oob {s : State} {u : Nat} (hu : s.threads[u]? = none) : step s u = s := by
  unfold step; rw [hu]

theorem step_dec {s : State} {u : Nat} {th : Thread} {id : NodeId} {tok : Owner}
    (hu : s.threads[u]? = some th) (hr : th.rel = .dec id tok) :
    step s u = { s with
      arcs := upd s.arcs id { s.arcs id with owners := (s.arcs id).owners.erase tok },
      threads := s.threads.set u { th with rel :=
        if tok ∈ (s.arcs id).owners ∧ (s.arcs id).owners.erase tok = [] then .free id else .idle } } := by
  unfold step; rw [hu]; simp only [hr]

theorem step_free_some {s : State} {u : Nat} {th : Thread} {id j : NodeId}
    (hu : s.threads[u]? = some th) (hr : th.rel = .free id) (hn : (s.fields id).bind (·.next) = some j) :
    step s u = { s with
      arcs := upd s.arcs id { s.arcs id with freed := true },
      threads := s.threads.set u { th with rel := .dec j (.node id) } } := by
  unfold step; rw [hu]; simp only [hr, hn]

theorem step_free_none {s : State} {u : Nat} {th : Thread} {id : NodeId}
    (hu : s.threads[u]? = some th) (hr : th.rel = .free id) (hn : (s.fields id).bind (·.next) = none) :
    step s u = { s with
      arcs := upd s.arcs id { s.arcs id with freed := true },
      threads := s.threads.set u { th with rel := .idle } } := by
  unfold step; rw [hu]; simp only [hr, hn]

theorem step_instr_none {s : State} {u : Nat} {th : Thread} {L : Local}
    (hu : s.threads[u]? = some th) (hr : th.rel = .idle)
    (hI : instr u s.roots (view u s.fields) th.loc = (L, .none)) :
    step s u = { s with threads := s.threads.set u { th with loc := L } } := by
  unfold step; rw [hu]; simp only [hr, hI]

theorem step_instr_addOwner {s : State} {u : Nat} {th : Thread} {L : Local} {id : NodeId} {tok : Owner}
    (hu : s.threads[u]? = some th) (hr : th.rel = .idle)
    (hI : instr u s.roots (view u s.fields) th.loc = (L, .addOwner id tok)) :
    step s u = { s with arcs := addOwner s.arcs id tok, threads := s.threads.set u { th with loc := L } } := by
  unfold step; rw [hu]; simp only [hr, hI]

theorem step_instr_alloc_some {s : State} {u : Nat} {th : Thread} {L : Local} {newid j : NodeId} {f : Fields}
    {tok : Owner} (hu : s.threads[u]? = some th) (hr : th.rel = .idle)
    (hI : instr u s.roots (view u s.fields) th.loc = (L, .alloc newid f tok)) (hn : f.next = some j) :
    step s u = { s with
      fields := upd s.fields newid (some f),
      arcs := addOwner (upd s.arcs newid { owners := [tok], freed := false }) j (.node newid),
      threads := s.threads.set u { th with loc := L } } := by
  unfold step; rw [hu]; simp only [hr, hI, hn]

theorem step_instr_alloc_none {s : State} {u : Nat} {th : Thread} {L : Local} {newid : NodeId} {f : Fields}
    {tok : Owner} (hu : s.threads[u]? = some th) (hr : th.rel = .idle)
    (hI : instr u s.roots (view u s.fields) th.loc = (L, .alloc newid f tok)) (hn : f.next = none) :
    step s u = { s with
      fields := upd s.fields newid (some f),
      arcs := upd s.arcs newid { owners := [tok], freed := false },
      threads := s.threads.set u { th with loc := L } } := by
  unfold step; rw [hu]; simp only [hr, hI, hn]

theorem step_instr_release {s : State} {u : Nat} {th : Thread} {L : Local} {id : NodeId} {tok : Owner}
    (hu : s.threads[u]? = some th) (hr : th.rel = .idle)
    (hI : instr u s.roots (view u s.fields) th.loc = (L, .release id tok)) :
    step s u = { s with threads := s.threads.set u { loc := L, rel := .dec id tok } } := by
  unfold step; rw [hu]; simp only [hr, hI]

/-! ### the abstract state the invariant talks about

Only the heap, the root handles and, per thread, its handle table, its release state and its arena
counter matter for the count discipline.  Threads that do not exist have no handles and are idle. -/

structure AState where
  fields : NodeId → Option Fields
  arcs : NodeId → Meta
  roots : List NodeId
  tbl : Nat → List (Nat × NodeId)
  rel : Nat → Rel
  actr : Nat → Option Nat

def tableOf (ths : List Thread) (t : Nat) : List (Nat × NodeId) :=
  match ths[t]? with
  | some th => th.loc.table
  | none => []

def relOf (ths : List Thread) (t : Nat) : Rel :=
  match ths[t]? with
  | some th => th.rel
  | none => .idle

def actrOf (ths : List Thread) (t : Nat) : Option Nat :=
  match ths[t]? with
  | some th => some th.loc.actr
  | none => none

/-- the part of a state the count discipline depends on -/
def abs (s : State) : AState :=
  { fields := s.fields, arcs := s.arcs, roots := s.roots,
    tbl := tableOf s.threads, rel := relOf s.threads, actr := actrOf s.threads }

/-- a live strong reference to node `id`, identified by its ghost token -/
inductive Refs (a : AState) : NodeId → Owner → Prop where
  /-- root handle number `i` (held by the spawning thread for the whole run) -/
  | root {i : Nat} {id : NodeId} : a.roots[i]? = some id → Refs a id (.root i)
  /-- handle `k` in the table of thread `t` -/
  | handle {t k : Nat} {id : NodeId} : (k, id) ∈ a.tbl t → Refs a id (.handle t k)
  /-- the `next` field of a node that has not been freed -/
  | link {p : NodeId} {f : Fields} {id : NodeId} :
      a.fields p = some f → f.next = some id → (a.arcs p).freed = false → Refs a id (.node p)
  /-- a reference thread `t` took out of its table, or out of a node it freed, and has not yet decremented -/
  | pending {t : Nat} {id : NodeId} {tok : Owner} : a.rel t = .dec id tok → Refs a id tok

/-- the node a thread is freeing / has just freed and whose `next` it still holds -/
def relNode : Rel → Option NodeId
  | .free p => some p
  | .dec _ (.node p) => some p
  | _ => none

/-- an address nobody has used yet -/
structure Fresh (a : AState) (id : NodeId) : Prop where
  nofields : a.fields id = none
  noowners : (a.arcs id).owners = []
  notfreed : (a.arcs id).freed = false
  nofree : ∀ t, a.rel t ≠ .free id

/-- **the count invariant** (one-sided: every live reference is counted) -/
structure Inv (a : AState) : Prop where
  /-- every live reference is one of the counted owners; distinct references have distinct tokens
  (`pendH`, `pendN`, `pendR`, `uniq`), so `count ≥ number of live references` -/
  counted : ∀ id tok, Refs a id tok → tok ∈ (a.arcs id).owners
  /-- a freed node has count 0 -/
  freedEmpty : ∀ id, (a.arcs id).freed = true → (a.arcs id).owners = []
  /-- a handle being released belongs to the releasing thread and is no longer in its table -/
  pendH : ∀ t j u k, a.rel t = .dec j (.handle u k) → u = t ∧ ∀ id, (k, id) ∉ a.tbl t
  /-- a `next` reference being released comes out of a freed node -/
  pendN : ∀ t j p, a.rel t = .dec j (.node p) → (a.arcs p).freed = true
  /-- root handles are never released -/
  pendR : ∀ t j i, a.rel t ≠ .dec j (.root i)
  /-- a node about to be freed has count 0 and has not been freed before -/
  freeing : ∀ t p, a.rel t = .free p → (a.arcs p).owners = [] ∧ (a.arcs p).freed = false
  /-- at most one thread is unlinking a given node -/
  uniq : ∀ t u p, t ≠ u → relNode (a.rel t) = some p → relNode (a.rel u) ≠ some p
  /-- the unused part of every thread's arena is fresh -/
  fresh : ∀ t c i, a.actr t = some c → c ≤ i → Fresh a ⟨t + 1, i⟩

/-- following `next` in the whole heap -/
inductive Reach (fields : NodeId → Option Fields) : NodeId → NodeId → Prop where
  | refl (x : NodeId) : Reach fields x x
  | step {x p j : NodeId} {f : Fields} : Reach fields x p → fields p = some f → f.next = some j → Reach fields x j

theorem Reach.head {fields : NodeId → Option Fields} {x y z : NodeId} {f : Fields}
    (hx : fields x = some f) (hn : f.next = some y) (h : Reach fields y z) : Reach fields x z := by
  induction h with
  | refl => exact .step (.refl x) hx hn
  | step _ hp hj ih => exact .step ih hp hj

/-! ### consequences of the invariant -/

theorem Inv.alive {a : AState} (h : Inv a) {id : NodeId} {tok : Owner} (r : Refs a id tok) :
    (a.arcs id).owners ≠ [] ∧ (a.arcs id).freed = false := by
  have hm := h.counted id tok r
  have hne : (a.arcs id).owners ≠ [] := List.ne_nil_of_mem hm
  refine ⟨hne, ?_⟩
  cases hf : (a.arcs id).freed with
  | false => rfl
  | true => exact absurd (h.freedEmpty id hf) hne

/-- a node reachable from a node with a live reference has a live reference -/
theorem Inv.refs_of_reach {a : AState} (h : Inv a) {x id : NodeId} {tok : Owner} (r : Refs a x tok)
    (hr : Reach a.fields x id) : ∃ tok', Refs a id tok' := by
  induction hr with
  | refl => exact ⟨tok, r⟩
  | step _ hp hj ih =>
    obtain ⟨tk, rp⟩ := ih
    exact ⟨_, .link hp hj (h.alive rp).2⟩

theorem follow_reach {V : View} {fields : NodeId → Option Fields} (hV : ∀ x f, V x = some f → fields x = some f) :
    ∀ (d : Nat) (x j : NodeId), follow V x d = some j → Reach fields x j ∧ (fields j).isSome
  | 0, x, j, h => by
    simp only [follow] at h
    split at h
    · rename_i hs
      cases h
      cases hv : V x with
      | none => simp [hv] at hs
      | some f => exact ⟨.refl _, by simp [hV x f hv]⟩
    · cases h
  | d + 1, x, j, h => by
    simp only [follow] at h
    split at h
    · rename_i f hv
      split at h
      · rename_i y hn
        obtain ⟨h1, h2⟩ := follow_reach hV d y j h
        exact ⟨Reach.head (hV x f hv) hn h1, h2⟩
      · cases h
    · cases h

theorem view_le (t : Nat) (fields : NodeId → Option Fields) (x : NodeId) (f : Fields)
    (h : view t fields x = some f) : fields x = some f := by
  simp only [view] at h
  split at h
  · exact h
  · cases h

/-- the node a reference of thread `t` leads to is reachable from a root handle or from a handle of `t` -/
theorem resolve_reach {s : State} {t : Nat} {th : Thread} (ht : s.threads[t]? = some th) {r : Ref} {j : NodeId}
    (h : resolve (view t s.fields) s.roots th.loc.table r = some j) :
    ∃ x tok, Refs (abs s) x tok ∧ Reach s.fields x j ∧ (s.fields j).isSome := by
  unfold resolve at h
  split at h
  · rename_i x hx
    obtain ⟨h1, h2⟩ := follow_reach (view_le t s.fields) _ _ _ h
    split at hx
    · rename_i i _
      exact ⟨x, .root i, .root hx, h1, h2⟩
    · rename_i k _
      refine ⟨x, .handle t k, .handle ?_, h1, h2⟩
      show (k, x) ∈ tableOf s.threads t
      simp only [tableOf, ht]
      exact lookup_mem hx
  · cases h

/-- under the invariant, the node a reference leads to is counted, not freed and allocated -/
theorem resolve_alive {s : State} (h : Inv (abs s)) {t : Nat} {th : Thread} (ht : s.threads[t]? = some th) {r : Ref}
    {j : NodeId} (hres : resolve (view t s.fields) s.roots th.loc.table r = some j) :
    (s.arcs j).owners ≠ [] ∧ (s.arcs j).freed = false ∧ (s.fields j).isSome := by
  obtain ⟨x, tok, rx, hr, hs⟩ := resolve_reach ht hres
  obtain ⟨tk, rj⟩ := h.refs_of_reach rx hr
  exact ⟨(h.alive rj).1, (h.alive rj).2, hs⟩

/-! ### the atomic steps preserve the invariant

Each step is described by what it does to the components of the abstract state. -/

theorem relNode_free_inv {r : Rel} {p : NodeId} (h : relNode r = some p) :
    r = .free p ∨ ∃ j, r = .dec j (.node p) := by
  cases r with
  | idle => simp [relNode] at h
  | free q => simp [relNode] at h; subst h; exact .inl rfl
  | dec j tk =>
    cases tk with
    | node q => simp [relNode] at h; subst h; exact .inr ⟨j, rfl⟩
    | root i => simp [relNode] at h
    | handle _ _ => simp [relNode] at h

/-- `Rel.dec`: the atomic decrement-and-test of the count of `id`, giving up the reference `tok` -/
theorem inv_dec {a a' : AState} (h : Inv a) {u : Nat} {id : NodeId} {tok : Owner} (hu : a.rel u = .dec id tok)
    (hf : a'.fields = a.fields) (hro : a'.roots = a.roots) (ht : a'.tbl = a.tbl) (hac : a'.actr = a.actr)
    (hfreed : ∀ x, (a'.arcs x).freed = (a.arcs x).freed)
    (hown_ne : ∀ x, x ≠ id → (a'.arcs x).owners = (a.arcs x).owners)
    (hown_id : (a'.arcs id).owners = (a.arcs id).owners.erase tok)
    (hrel_ne : ∀ t, t ≠ u → a'.rel t = a.rel t)
    (hrel_u : a'.rel u =
      if tok ∈ (a.arcs id).owners ∧ (a.arcs id).owners.erase tok = [] then .free id else .idle) :
    Inv a' := by
  have hmem : tok ∈ (a.arcs id).owners := h.counted id tok (.pending hu)
  have hnotfreed : (a.arcs id).freed = false := (h.alive (.pending hu)).2
  have hu' : ∀ j tk, a'.rel u ≠ .dec j tk := by
    intro j tk; rw [hrel_u]; split <;> simp
  have hempty : ∀ x, (a.arcs x).owners = [] → (a'.arcs x).owners = [] := by
    intro x hx
    by_cases hxi : x = id
    · subst hxi; rw [hown_id, hx]; rfl
    · rw [hown_ne x hxi, hx]
  -- nobody else is unlinking `id`
  have hnobody : ∀ t, t ≠ u → relNode (a.rel t) ≠ some id := by
    intro t _ hrn
    rcases relNode_free_inv hrn with hrt | ⟨j, hrt⟩
    · have := (h.freeing t id hrt).1
      rw [this] at hmem; cases hmem
    · have := h.pendN t j id hrt
      rw [hnotfreed] at this; cases this
  -- the live references of the new state are old live references other than the one given up
  have hrefs : ∀ id' tok', Refs a' id' tok' → Refs a id' tok' ∧ (id' = id → tok' ≠ tok) := by
    intro id' tok' r
    cases r with
    | root hi =>
      rw [hro] at hi
      exact ⟨.root hi, fun _ heq => h.pendR u id _ (heq ▸ hu)⟩
    | handle hk =>
      rename_i t k
      rw [ht] at hk
      refine ⟨.handle hk, fun hid heq => ?_⟩
      subst hid
      rw [← heq] at hu
      obtain ⟨h1, h2⟩ := h.pendH u id' t k hu
      subst h1
      exact h2 id' hk
    | link hp hn hfr =>
      rename_i p f
      rw [hf] at hp; rw [hfreed] at hfr
      refine ⟨.link hp hn hfr, fun hid heq => ?_⟩
      subst hid
      rw [← heq] at hu
      have := h.pendN u id' p hu
      rw [hfr] at this; cases this
    | pending hp =>
      rename_i t
      by_cases htu : t = u
      · subst htu; exact absurd hp (hu' _ _)
      · rw [hrel_ne t htu] at hp
        refine ⟨.pending hp, fun hid heq => ?_⟩
        subst hid; subst heq
        cases tok' with
        | root i => exact h.pendR u id' i hu
        | handle v k =>
          have h1 := (h.pendH u id' v k hu).1
          have h2 := (h.pendH t id' v k hp).1
          exact htu (h2.symm.trans h1)
        | node p => exact h.uniq t u p htu (by rw [hp]; rfl) (by rw [hu]; rfl)
  -- the release state of the other threads, and of `u` if it goes on to free
  have hrel_cases : ∀ t, (t ≠ u ∧ a'.rel t = a.rel t) ∨ (t = u ∧ a'.rel t = .idle) ∨
      (t = u ∧ a'.rel t = .free id ∧ (a'.arcs id).owners = []) := by
    intro t
    by_cases htu : t = u
    · subst htu
      rw [hrel_u]
      split
      · rename_i hc; exact .inr (.inr ⟨rfl, rfl, by rw [hown_id]; exact hc.2⟩)
      · exact .inr (.inl ⟨rfl, rfl⟩)
    · exact .inl ⟨htu, hrel_ne t htu⟩
  refine ⟨?_, ?_, ?_, ?_, ?_, ?_, ?_, ?_⟩
  · intro id' tok' r
    obtain ⟨r0, hne⟩ := hrefs id' tok' r
    have hm := h.counted id' tok' r0
    by_cases hid : id' = id
    · subst hid
      rw [hown_id]
      exact (List.mem_erase_of_ne (hne rfl)).2 hm
    · rw [hown_ne id' hid]; exact hm
  · intro x hx
    rw [hfreed] at hx
    exact hempty x (h.freedEmpty x hx)
  · intro t j v k hr
    rcases hrel_cases t with ⟨_, he⟩ | ⟨_, he⟩ | ⟨_, he, _⟩
    · rw [he] at hr; rw [ht]; exact h.pendH t j v k hr
    · rw [he] at hr; cases hr
    · rw [he] at hr; cases hr
  · intro t j p hr
    rcases hrel_cases t with ⟨_, he⟩ | ⟨_, he⟩ | ⟨_, he, _⟩
    · rw [he] at hr; rw [hfreed]; exact h.pendN t j p hr
    · rw [he] at hr; cases hr
    · rw [he] at hr; cases hr
  · intro t j i hr
    rcases hrel_cases t with ⟨_, he⟩ | ⟨_, he⟩ | ⟨_, he, _⟩
    · rw [he] at hr; exact h.pendR t j i hr
    · rw [he] at hr; cases hr
    · rw [he] at hr; cases hr
  · intro t p hr
    rcases hrel_cases t with ⟨_, he⟩ | ⟨_, he⟩ | ⟨_, he, ho⟩
    · rw [he] at hr
      have := h.freeing t p hr
      exact ⟨hempty p this.1, by rw [hfreed]; exact this.2⟩
    · rw [he] at hr; cases hr
    · rw [he] at hr; cases hr
      exact ⟨ho, by rw [hfreed]; exact hnotfreed⟩
  · intro t v p htv h1 h2
    rcases hrel_cases t with ⟨htu, he⟩ | ⟨_, he⟩ | ⟨htu, he, _⟩
    · rcases hrel_cases v with ⟨_, he'⟩ | ⟨_, he'⟩ | ⟨hvu, he', _⟩
      · rw [he] at h1; rw [he'] at h2; exact h.uniq t v p htv h1 h2
      · rw [he'] at h2; simp [relNode] at h2
      · rw [he'] at h2; simp [relNode] at h2; subst h2
        rw [he] at h1; exact hnobody t htu h1
    · rw [he] at h1; simp [relNode] at h1
    · rw [he] at h1; simp [relNode] at h1; subst h1
      have hvu : v ≠ u := fun hv => htv (htu.trans hv.symm)
      rw [hrel_ne v hvu] at h2
      exact hnobody v hvu h2
  · intro t c i hc hci
    rw [hac] at hc
    have F := h.fresh t c i hc hci
    refine ⟨by rw [hf]; exact F.nofields, hempty _ F.noowners, by rw [hfreed]; exact F.notfreed, ?_⟩
    intro v hr
    rcases hrel_cases v with ⟨_, he⟩ | ⟨_, he⟩ | ⟨_, he, _⟩
    · rw [he] at hr; exact F.nofree v hr
    · rw [he] at hr; cases hr
    · rw [he] at hr; cases hr
      rw [F.noowners] at hmem; cases hmem

/-- `Rel.free`: the thread that brought the count of `p` to 0 frees it and takes over its `next` reference -/
theorem inv_free {a a' : AState} (h : Inv a) {u : Nat} {p : NodeId} (hu : a.rel u = .free p)
    (hf : a'.fields = a.fields) (hro : a'.roots = a.roots) (ht : a'.tbl = a.tbl) (hac : a'.actr = a.actr)
    (hown : ∀ x, (a'.arcs x).owners = (a.arcs x).owners)
    (hfreed_p : (a'.arcs p).freed = true)
    (hfreed_ne : ∀ x, x ≠ p → (a'.arcs x).freed = (a.arcs x).freed)
    (hrel_ne : ∀ t, t ≠ u → a'.rel t = a.rel t)
    (hrel_u : a'.rel u = .idle ∨
      ∃ f j, a.fields p = some f ∧ f.next = some j ∧ a'.rel u = .dec j (.node p)) :
    Inv a' := by
  have hF := h.freeing u p hu
  have hmono : ∀ x, (a.arcs x).freed = true → (a'.arcs x).freed = true := by
    intro x hx
    by_cases hxp : x = p
    · subst hxp; exact hfreed_p
    · rw [hfreed_ne x hxp]; exact hx
  have hrel_cases : ∀ t, (t ≠ u ∧ a'.rel t = a.rel t) ∨ (t = u ∧ a'.rel t = .idle) ∨
      (t = u ∧ ∃ f j, a.fields p = some f ∧ f.next = some j ∧ a'.rel t = .dec j (.node p)) := by
    intro t
    by_cases htu : t = u
    · subst htu
      rcases hrel_u with h1 | h1
      · exact .inr (.inl ⟨rfl, h1⟩)
      · exact .inr (.inr ⟨rfl, h1⟩)
    · exact .inl ⟨htu, hrel_ne t htu⟩
  have hrn : ∀ t q, relNode (a'.rel t) = some q → relNode (a.rel t) = some q := by
    intro t q hq
    rcases hrel_cases t with ⟨_, he⟩ | ⟨_, he⟩ | ⟨htu, f, j, _, _, he⟩
    · rw [he] at hq; exact hq
    · rw [he] at hq; simp [relNode] at hq
    · rw [he] at hq; simp [relNode] at hq; subst hq; subst htu; rw [hu]; rfl
  refine ⟨?_, ?_, ?_, ?_, ?_, ?_, ?_, ?_⟩
  · intro id' tok' r
    rw [hown]
    cases r with
    | root hi => rw [hro] at hi; exact h.counted _ _ (.root hi)
    | handle hk => rw [ht] at hk; exact h.counted _ _ (.handle hk)
    | link hp hn hfr =>
      rename_i q f
      rw [hf] at hp
      have hqp : q ≠ p := by
        intro hqp; subst hqp; rw [hfreed_p] at hfr; cases hfr
      rw [hfreed_ne q hqp] at hfr
      exact h.counted _ _ (.link hp hn hfr)
    | pending hp =>
      rename_i t
      rcases hrel_cases t with ⟨_, he⟩ | ⟨_, he⟩ | ⟨_, f, j, hfp, hn, he⟩
      · rw [he] at hp; exact h.counted _ _ (.pending hp)
      · rw [he] at hp; cases hp
      · rw [he] at hp; cases hp
        exact h.counted _ _ (.link hfp hn hF.2)
  · intro x hx
    rw [hown]
    by_cases hxp : x = p
    · subst hxp; exact hF.1
    · rw [hfreed_ne x hxp] at hx; exact h.freedEmpty x hx
  · intro t j v k hr
    rcases hrel_cases t with ⟨_, he⟩ | ⟨_, he⟩ | ⟨_, f, j', _, _, he⟩
    · rw [he] at hr; rw [ht]; exact h.pendH t j v k hr
    · rw [he] at hr; cases hr
    · rw [he] at hr; cases hr
  · intro t j q hr
    rcases hrel_cases t with ⟨_, he⟩ | ⟨_, he⟩ | ⟨_, f, j', _, _, he⟩
    · rw [he] at hr; exact hmono q (h.pendN t j q hr)
    · rw [he] at hr; cases hr
    · rw [he] at hr; cases hr; exact hfreed_p
  · intro t j i hr
    rcases hrel_cases t with ⟨_, he⟩ | ⟨_, he⟩ | ⟨_, f, j', _, _, he⟩
    · rw [he] at hr; exact h.pendR t j i hr
    · rw [he] at hr; cases hr
    · rw [he] at hr; cases hr
  · intro t q hr
    rcases hrel_cases t with ⟨htu, he⟩ | ⟨_, he⟩ | ⟨_, f, j', _, _, he⟩
    · rw [he] at hr
      have := h.freeing t q hr
      have hqp : q ≠ p := by
        intro hqp; subst hqp
        exact h.uniq t u q htu (by rw [hr]; rfl) (by rw [hu]; rfl)
      exact ⟨by rw [hown]; exact this.1, by rw [hfreed_ne q hqp]; exact this.2⟩
    · rw [he] at hr; cases hr
    · rw [he] at hr; cases hr
  · intro t v q htv h1 h2
    exact h.uniq t v q htv (hrn t q h1) (hrn v q h2)
  · intro t c i hc hci
    rw [hac] at hc
    have F := h.fresh t c i hc hci
    have hne : (⟨t + 1, i⟩ : NodeId) ≠ p := by
      intro hp; rw [← hp] at hu; exact F.nofree u hu
    refine ⟨by rw [hf]; exact F.nofields, by rw [hown]; exact F.noowners,
      by rw [hfreed_ne _ hne]; exact F.notfreed, ?_⟩
    intro v hr
    rcases hrel_cases v with ⟨_, he⟩ | ⟨_, he⟩ | ⟨_, f, j', _, _, he⟩
    · rw [he] at hr; exact F.nofree v hr
    · rw [he] at hr; cases hr
    · rw [he] at hr; cases hr

theorem Refs.congr {a a' : AState} (hf : a'.fields = a.fields) (hro : a'.roots = a.roots) (ht : a'.tbl = a.tbl)
    (hrel : a'.rel = a.rel) (hfreed : ∀ x, (a'.arcs x).freed = (a.arcs x).freed) {id : NodeId} {tok : Owner}
    (r : Refs a' id tok) : Refs a id tok := by
  cases r with
  | root hi => rw [hro] at hi; exact .root hi
  | handle hk => rw [ht] at hk; exact .handle hk
  | link hp hn hfr => rw [hf] at hp; rw [hfreed] at hfr; exact .link hp hn hfr
  | pending hp => rw [hrel] at hp; exact .pending hp

/-- an additional owner of a node with positive count (first half of `clone` and of `append`) -/
theorem inv_extraOwner {a a' : AState} (h : Inv a) {j : NodeId} (hal : (a.arcs j).owners ≠ [])
    (hf : a'.fields = a.fields) (hro : a'.roots = a.roots) (ht : a'.tbl = a.tbl) (hac : a'.actr = a.actr)
    (hrel : a'.rel = a.rel)
    (hfreed : ∀ x, (a'.arcs x).freed = (a.arcs x).freed)
    (hown_ne : ∀ x, x ≠ j → (a'.arcs x).owners = (a.arcs x).owners)
    (hown_sub : ∀ tok, tok ∈ (a.arcs j).owners → tok ∈ (a'.arcs j).owners) :
    Inv a' := by
  have hsub : ∀ x tok, tok ∈ (a.arcs x).owners → tok ∈ (a'.arcs x).owners := by
    intro x tok hm
    by_cases hx : x = j
    · subst hx; exact hown_sub tok hm
    · rw [hown_ne x hx]; exact hm
  have hempty : ∀ x, (a.arcs x).owners = [] → (a'.arcs x).owners = [] := by
    intro x hx
    have : x ≠ j := by intro hxj; subst hxj; exact hal hx
    rw [hown_ne x this]; exact hx
  refine ⟨?_, ?_, ?_, ?_, ?_, ?_, ?_, ?_⟩
  · intro id tok r
    exact hsub _ _ (h.counted _ _ (r.congr hf hro ht hrel hfreed))
  · intro x hx; rw [hfreed] at hx; exact hempty x (h.freedEmpty x hx)
  · intro t j' v k hr; rw [hrel] at hr; rw [ht]; exact h.pendH t j' v k hr
  · intro t j' q hr; rw [hrel] at hr; rw [hfreed]; exact h.pendN t j' q hr
  · intro t j' i hr; rw [hrel] at hr; exact h.pendR t j' i hr
  · intro t q hr
    rw [hrel] at hr
    have := h.freeing t q hr
    exact ⟨hempty q this.1, by rw [hfreed]; exact this.2⟩
  · intro t v q htv h1 h2
    rw [hrel] at h1 h2; exact h.uniq t v q htv h1 h2
  · intro t c i hc hci
    rw [hac] at hc
    have F := h.fresh t c i hc hci
    exact ⟨by rw [hf]; exact F.nofields, hempty _ F.noowners, by rw [hfreed]; exact F.notfreed,
      by rw [hrel]; exact F.nofree⟩

/-- a new handle whose token is already counted (second half of `clone`) -/
theorem inv_addHandle {a a' : AState} (h : Inv a) {u k : Nat} {id0 : NodeId} (hidle : a.rel u = .idle)
    (hmem : Owner.handle u k ∈ (a.arcs id0).owners)
    (hf : a'.fields = a.fields) (hro : a'.roots = a.roots) (harcs : a'.arcs = a.arcs) (hac : a'.actr = a.actr)
    (hrel : a'.rel = a.rel)
    (ht_ne : ∀ t, t ≠ u → a'.tbl t = a.tbl t) (ht_u : a'.tbl u = (k, id0) :: a.tbl u) :
    Inv a' := by
  refine ⟨?_, ?_, ?_, ?_, ?_, ?_, ?_, ?_⟩
  · intro id tok r
    rw [harcs]
    cases r with
    | root hi => rw [hro] at hi; exact h.counted _ _ (.root hi)
    | handle hk =>
      rename_i t k'
      by_cases htu : t = u
      · subst htu
        rw [ht_u] at hk
        rcases List.mem_cons.1 hk with heq | hk
        · cases heq; exact hmem
        · exact h.counted _ _ (.handle hk)
      · rw [ht_ne t htu] at hk; exact h.counted _ _ (.handle hk)
    | link hp hn hfr => rw [hf] at hp; rw [harcs] at hfr; exact h.counted _ _ (.link hp hn hfr)
    | pending hp => rw [hrel] at hp; exact h.counted _ _ (.pending hp)
  · intro x hx; rw [harcs] at hx ⊢; exact h.freedEmpty x hx
  · intro t j v k' hr
    rw [hrel] at hr
    have htu : t ≠ u := by intro htu; subst htu; rw [hidle] at hr; cases hr
    rw [ht_ne t htu]; exact h.pendH t j v k' hr
  · intro t j q hr; rw [hrel] at hr; rw [harcs]; exact h.pendN t j q hr
  · intro t j i hr; rw [hrel] at hr; exact h.pendR t j i hr
  · intro t q hr; rw [hrel] at hr; rw [harcs]; exact h.freeing t q hr
  · intro t v q htv h1 h2
    rw [hrel] at h1 h2; exact h.uniq t v q htv h1 h2
  · intro t c i hc hci
    rw [hac] at hc
    have F := h.fresh t c i hc hci
    exact ⟨by rw [hf]; exact F.nofields, by rw [harcs]; exact F.noowners, by rw [harcs]; exact F.notfreed,
      by rw [hrel]; exact F.nofree⟩

/-- allocation of the fresh node `⟨u + 1, c⟩` by thread `u` with first owner the new handle `k` (second half of
`append`; the `next` reference of the new node has already been counted) -/
theorem inv_alloc {a a' : AState} (h : Inv a) {u c k : Nat} {f : Fields} (hidle : a.rel u = .idle)
    (hc : a.actr u = some c)
    (hnext : ∀ j, f.next = some j → Owner.node ⟨u + 1, c⟩ ∈ (a.arcs j).owners)
    (hro : a'.roots = a.roots) (hrel : a'.rel = a.rel)
    (hf_new : a'.fields ⟨u + 1, c⟩ = some f) (hf_ne : ∀ x, x ≠ ⟨u + 1, c⟩ → a'.fields x = a.fields x)
    (harc_new : a'.arcs ⟨u + 1, c⟩ = { owners := [.handle u k], freed := false })
    (harc_ne : ∀ x, x ≠ ⟨u + 1, c⟩ → a'.arcs x = a.arcs x)
    (ht_ne : ∀ t, t ≠ u → a'.tbl t = a.tbl t) (ht_u : a'.tbl u = (k, ⟨u + 1, c⟩) :: a.tbl u)
    (hac_ne : ∀ t, t ≠ u → a'.actr t = a.actr t) (hac_u : a'.actr u = some (c + 1)) :
    Inv a' := by
  have F := h.fresh u c c hc (Nat.le_refl _)
  -- a node with an owner is not the new one
  have hne_of_mem : ∀ x tok, tok ∈ (a.arcs x).owners → x ≠ ⟨u + 1, c⟩ := by
    intro x tok hm hx; subst hx; rw [F.noowners] at hm; cases hm
  have hold : ∀ id tok, Refs a id tok → tok ∈ (a'.arcs id).owners := by
    intro id tok r
    have hm := h.counted id tok r
    rw [harc_ne id (hne_of_mem id tok hm)]; exact hm
  refine ⟨?_, ?_, ?_, ?_, ?_, ?_, ?_, ?_⟩
  · intro id tok r
    cases r with
    | root hi => rw [hro] at hi; exact hold _ _ (.root hi)
    | handle hk =>
      rename_i t k'
      by_cases htu : t = u
      · subst htu
        rw [ht_u] at hk
        rcases List.mem_cons.1 hk with heq | hk
        · cases heq; rw [harc_new]; exact List.mem_cons_self
        · exact hold _ _ (.handle hk)
      · rw [ht_ne t htu] at hk; exact hold _ _ (.handle hk)
    | link hp hn hfr =>
      rename_i q f'
      by_cases hq : q = ⟨u + 1, c⟩
      · subst hq
        rw [hf_new] at hp; cases hp
        have hm := hnext id hn
        rw [harc_ne id (hne_of_mem id _ hm)]; exact hm
      · rw [hf_ne q hq] at hp; rw [harc_ne q hq] at hfr
        exact hold _ _ (.link hp hn hfr)
    | pending hp => rw [hrel] at hp; exact hold _ _ (.pending hp)
  · intro x hx
    by_cases hxn : x = ⟨u + 1, c⟩
    · subst hxn; rw [harc_new] at hx; cases hx
    · rw [harc_ne x hxn] at hx ⊢; exact h.freedEmpty x hx
  · intro t j v k' hr
    rw [hrel] at hr
    have htu : t ≠ u := by intro htu; subst htu; rw [hidle] at hr; cases hr
    rw [ht_ne t htu]; exact h.pendH t j v k' hr
  · intro t j q hr
    rw [hrel] at hr
    have := h.pendN t j q hr
    have hq : q ≠ ⟨u + 1, c⟩ := by intro hq; subst hq; rw [F.notfreed] at this; cases this
    rw [harc_ne q hq]; exact this
  · intro t j i hr; rw [hrel] at hr; exact h.pendR t j i hr
  · intro t q hr
    rw [hrel] at hr
    have hq : q ≠ ⟨u + 1, c⟩ := by intro hq; subst hq; exact F.nofree t hr
    rw [harc_ne q hq]; exact h.freeing t q hr
  · intro t v q htv h1 h2
    rw [hrel] at h1 h2; exact h.uniq t v q htv h1 h2
  · intro t c' i hc' hci
    have hF : Fresh a ⟨t + 1, i⟩ ∧ (⟨t + 1, i⟩ : NodeId) ≠ ⟨u + 1, c⟩ := by
      by_cases htu : t = u
      · subst htu
        rw [hac_u] at hc'; cases hc'
        exact ⟨h.fresh t c i hc (by omega), by intro he; cases he; omega⟩
      · rw [hac_ne t htu] at hc'
        exact ⟨h.fresh t c' i hc' hci, by intro he; cases he; exact htu rfl⟩
    obtain ⟨F', hne⟩ := hF
    exact ⟨by rw [hf_ne _ hne]; exact F'.nofields, by rw [harc_ne _ hne]; exact F'.noowners,
      by rw [harc_ne _ hne]; exact F'.notfreed, by rw [hrel]; exact F'.nofree⟩

/-- `drop`: the handle `key` leaves the table of thread `u`, which starts releasing it -/
theorem inv_release {a a' : AState} (h : Inv a) {u key : Nat} {id0 : NodeId} (hidle : a.rel u = .idle)
    (hmem : (key, id0) ∈ a.tbl u)
    (hf : a'.fields = a.fields) (hro : a'.roots = a.roots) (harcs : a'.arcs = a.arcs) (hac : a'.actr = a.actr)
    (ht_ne : ∀ t, t ≠ u → a'.tbl t = a.tbl t) (ht_u : a'.tbl u = (a.tbl u).filter (fun p => p.1 != key))
    (hrel_ne : ∀ t, t ≠ u → a'.rel t = a.rel t) (hrel_u : a'.rel u = .dec id0 (.handle u key)) :
    Inv a' := by
  have hrel_cases : ∀ t, (t ≠ u ∧ a'.rel t = a.rel t ∧ a'.tbl t = a.tbl t) ∨
      (t = u ∧ a'.rel t = .dec id0 (.handle u key)) := by
    intro t
    by_cases htu : t = u
    · subst htu; exact .inr ⟨rfl, hrel_u⟩
    · exact .inl ⟨htu, hrel_ne t htu, ht_ne t htu⟩
  have hrn : ∀ t, relNode (a'.rel t) = relNode (a.rel t) := by
    intro t
    rcases hrel_cases t with ⟨_, he, _⟩ | ⟨htu, he⟩
    · rw [he]
    · rw [he, htu, hidle]; rfl
  refine ⟨?_, ?_, ?_, ?_, ?_, ?_, ?_, ?_⟩
  · intro id tok r
    rw [harcs]
    cases r with
    | root hi => rw [hro] at hi; exact h.counted _ _ (.root hi)
    | handle hk =>
      rename_i t k'
      by_cases htu : t = u
      · subst htu
        rw [ht_u] at hk
        exact h.counted _ _ (.handle (List.mem_filter.1 hk).1)
      · rw [ht_ne t htu] at hk; exact h.counted _ _ (.handle hk)
    | link hp hn hfr => rw [hf] at hp; rw [harcs] at hfr; exact h.counted _ _ (.link hp hn hfr)
    | pending hp =>
      rename_i t
      rcases hrel_cases t with ⟨_, he, _⟩ | ⟨_, he⟩
      · rw [he] at hp; exact h.counted _ _ (.pending hp)
      · rw [he] at hp; cases hp; exact h.counted _ _ (.handle hmem)
  · intro x hx; rw [harcs] at hx ⊢; exact h.freedEmpty x hx
  · intro t j v k' hr
    rcases hrel_cases t with ⟨_, he, he'⟩ | ⟨htu, he⟩
    · rw [he] at hr; rw [he']; exact h.pendH t j v k' hr
    · rw [he] at hr; cases hr
      refine ⟨htu.symm, ?_⟩
      intro id hm
      subst htu
      rw [ht_u] at hm
      have := (List.mem_filter.1 hm).2
      simp at this
  · intro t j q hr
    rcases hrel_cases t with ⟨_, he, _⟩ | ⟨_, he⟩
    · rw [he] at hr; rw [harcs]; exact h.pendN t j q hr
    · rw [he] at hr; cases hr
  · intro t j i hr
    rcases hrel_cases t with ⟨_, he, _⟩ | ⟨_, he⟩
    · rw [he] at hr; exact h.pendR t j i hr
    · rw [he] at hr; cases hr
  · intro t q hr
    rcases hrel_cases t with ⟨_, he, _⟩ | ⟨_, he⟩
    · rw [he] at hr; rw [harcs]; exact h.freeing t q hr
    · rw [he] at hr; cases hr
  · intro t v q htv h1 h2
    rw [hrn] at h1 h2; exact h.uniq t v q htv h1 h2
  · intro t c i hc hci
    rw [hac] at hc
    have F := h.fresh t c i hc hci
    refine ⟨by rw [hf]; exact F.nofields, by rw [harcs]; exact F.noowners, by rw [harcs]; exact F.notfreed, ?_⟩
    intro v hr
    rcases hrel_cases v with ⟨_, he, _⟩ | ⟨_, he⟩
    · rw [he] at hr; exact F.nofree v hr
    · rw [he] at hr; cases hr

/-! ### from the abstract steps to `step` -/

theorem tableOf_of {ths : List Thread} {u : Nat} {th : Thread} (hu : ths[u]? = some th) :
    tableOf ths u = th.loc.table := by simp only [tableOf, hu]

theorem relOf_of {ths : List Thread} {u : Nat} {th : Thread} (hu : ths[u]? = some th) :
    relOf ths u = th.rel := by simp only [relOf, hu]

theorem actrOf_of {ths : List Thread} {u : Nat} {th : Thread} (hu : ths[u]? = some th) :
    actrOf ths u = some th.loc.actr := by simp only [actrOf, hu]

theorem lt_of_get {ths : List Thread} {u : Nat} {th : Thread} (hu : ths[u]? = some th) : u < ths.length :=
  (List.getElem?_eq_some_iff.1 hu).1

theorem tableOf_set_ne {ths : List Thread} {u t : Nat} (x : Thread) (h : t ≠ u) :
    tableOf (ths.set u x) t = tableOf ths t := by
  simp only [tableOf]; rw [List.getElem?_set_ne (Ne.symm h)]

theorem relOf_set_ne {ths : List Thread} {u t : Nat} (x : Thread) (h : t ≠ u) :
    relOf (ths.set u x) t = relOf ths t := by
  simp only [relOf]; rw [List.getElem?_set_ne (Ne.symm h)]

theorem actrOf_set_ne {ths : List Thread} {u t : Nat} (x : Thread) (h : t ≠ u) :
    actrOf (ths.set u x) t = actrOf ths t := by
  simp only [actrOf]; rw [List.getElem?_set_ne (Ne.symm h)]

theorem tableOf_set_self {ths : List Thread} {u : Nat} {th : Thread} (hu : ths[u]? = some th) (x : Thread) :
    tableOf (ths.set u x) u = x.loc.table := by
  simp only [tableOf]; rw [List.getElem?_set_self (lt_of_get hu)]

theorem relOf_set_self {ths : List Thread} {u : Nat} {th : Thread} (hu : ths[u]? = some th) (x : Thread) :
    relOf (ths.set u x) u = x.rel := by
  simp only [relOf]; rw [List.getElem?_set_self (lt_of_get hu)]

theorem actrOf_set_self {ths : List Thread} {u : Nat} {th : Thread} (hu : ths[u]? = some th) (x : Thread) :
    actrOf (ths.set u x) u = some x.loc.actr := by
  simp only [actrOf]; rw [List.getElem?_set_self (lt_of_get hu)]

theorem tableOf_set_same {ths : List Thread} {u : Nat} {th : Thread} (hu : ths[u]? = some th) {x : Thread}
    (hx : x.loc.table = th.loc.table) : tableOf (ths.set u x) = tableOf ths := by
  funext t
  by_cases htu : t = u
  · subst htu; rw [tableOf_set_self hu, tableOf_of hu, hx]
  · exact tableOf_set_ne x htu

theorem relOf_set_same {ths : List Thread} {u : Nat} {th : Thread} (hu : ths[u]? = some th) {x : Thread}
    (hx : x.rel = th.rel) : relOf (ths.set u x) = relOf ths := by
  funext t
  by_cases htu : t = u
  · subst htu; rw [relOf_set_self hu, relOf_of hu, hx]
  · exact relOf_set_ne x htu

theorem actrOf_set_same {ths : List Thread} {u : Nat} {th : Thread} (hu : ths[u]? = some th) {x : Thread}
    (hx : x.loc.actr = th.loc.actr) : actrOf (ths.set u x) = actrOf ths := by
  funext t
  by_cases htu : t = u
  · subst htu; rw [actrOf_set_self hu, actrOf_of hu, hx]
  · exact actrOf_set_ne x htu

theorem addOwner_freed (arcs : NodeId → Meta) (j : NodeId) (tok : Owner) (x : NodeId) :
    (addOwner arcs j tok x).freed = (arcs x).freed := by
  simp only [addOwner, upd]; split
  · rename_i hx; subst hx; rfl
  · rfl

theorem addOwner_ne (arcs : NodeId → Meta) (j : NodeId) (tok : Owner) (x : NodeId) (h : x ≠ j) :
    addOwner arcs j tok x = arcs x := by
  simp only [addOwner, upd, h, if_false]

theorem addOwner_self (arcs : NodeId → Meta) (j : NodeId) (tok : Owner) :
    (addOwner arcs j tok j).owners = tok :: (arcs j).owners := by
  simp only [addOwner, upd, if_true]

theorem upd_self {β : Type} (f : NodeId → β) (a : NodeId) (b : β) : upd f a b a = b := by simp [upd]

theorem upd_ne {β : Type} (f : NodeId → β) (a : NodeId) (b : β) (x : NodeId) (h : x ≠ a) : upd f a b x = f x := by
  simp [upd, h]

/-- the first half of `clone` / `append`: an additional owner of a live node -/
theorem inv_addOwner_abs {s : State} (h : Inv (abs s)) {j : NodeId} (tok : Owner) (hal : (s.arcs j).owners ≠ []) :
    Inv { abs s with arcs := addOwner s.arcs j tok } := by
  refine inv_extraOwner h (j := j) hal rfl rfl rfl rfl rfl (fun x => addOwner_freed _ _ _ x)
    (fun x hx => by show (addOwner s.arcs j tok x).owners = (s.arcs x).owners; rw [addOwner_ne _ _ _ _ hx]) ?_
  intro tk hm
  show tk ∈ (addOwner s.arcs j tok j).owners
  rw [addOwner_self]; exact List.mem_cons_of_mem _ hm

/-- **every atomic step of every thread preserves the count invariant** -/
theorem inv_step (s : State) (u : Nat) (h : Inv (abs s)) : Inv (abs (step s u)) := by
  cases hu : s.threads[u]? with
  | none => rw [step_oob hu]; exact h
  | some th =>
    cases hrel : th.rel with
    | dec id tok =>
      rw [step_dec hu hrel]
      have hru : (abs s).rel u = .dec id tok := by show relOf s.threads u = _; rw [relOf_of hu, hrel]
      refine inv_dec h hru rfl rfl (tableOf_set_same hu rfl) (actrOf_set_same hu rfl) ?_ ?_ ?_ ?_ ?_
      · intro x
        show (upd s.arcs id _ x).freed = (s.arcs x).freed
        by_cases hx : x = id
        · subst hx; rw [upd_self]
        · rw [upd_ne _ _ _ _ hx]
      · intro x hx
        show (upd s.arcs id _ x).owners = (s.arcs x).owners
        rw [upd_ne _ _ _ _ hx]
      · show (upd s.arcs id _ id).owners = _
        rw [upd_self]; rfl
      · intro t htu; exact relOf_set_ne _ htu
      · exact relOf_set_self hu _
    | free p =>
      have hru : (abs s).rel u = .free p := by show relOf s.threads u = _; rw [relOf_of hu, hrel]
      have hfreed_p : ∀ m : Meta, (upd s.arcs p { m with freed := true } p).freed = true := by
        intro m; rw [upd_self]
      cases hn : (s.fields p).bind (·.next) with
      | none =>
        rw [step_free_none hu hrel hn]
        refine inv_free h hru rfl rfl (tableOf_set_same hu rfl) (actrOf_set_same hu rfl) ?_ (hfreed_p _) ?_ ?_ ?_
        · intro x
          show (upd s.arcs p _ x).owners = (s.arcs x).owners
          by_cases hx : x = p
          · subst hx; rw [upd_self]
          · rw [upd_ne _ _ _ _ hx]
        · intro x hx
          show (upd s.arcs p _ x).freed = (s.arcs x).freed
          rw [upd_ne _ _ _ _ hx]
        · intro t htu; exact relOf_set_ne _ htu
        · exact .inl (relOf_set_self hu _)
      | some j =>
        rw [step_free_some hu hrel hn]
        refine inv_free h hru rfl rfl (tableOf_set_same hu rfl) (actrOf_set_same hu rfl) ?_ (hfreed_p _) ?_ ?_ ?_
        · intro x
          show (upd s.arcs p _ x).owners = (s.arcs x).owners
          by_cases hx : x = p
          · subst hx; rw [upd_self]
          · rw [upd_ne _ _ _ _ hx]
        · intro x hx
          show (upd s.arcs p _ x).freed = (s.arcs x).freed
          rw [upd_ne _ _ _ _ hx]
        · intro t htu; exact relOf_set_ne _ htu
        · right
          cases hfp : s.fields p with
          | none => rw [hfp] at hn; cases hn
          | some f =>
            rw [hfp] at hn
            exact ⟨f, j, hfp, hn, relOf_set_self hu _⟩
    | idle =>
      have hidle : (abs s).rel u = .idle := by show relOf s.threads u = _; rw [relOf_of hu, hrel]
      cases hI : instr u s.roots (view u s.fields) th.loc with
      | mk L eff =>
        cases eff with
        | none =>
          rw [step_instr_none hu hrel hI]
          obtain ⟨h1, h2⟩ := instr_none_inv hI
          have : abs { s with threads := s.threads.set u { th with loc := L } } = abs s := by
            simp only [abs]
            rw [tableOf_set_same hu h1, relOf_set_same (x := { th with loc := L }) hu rfl, actrOf_set_same hu h2]
          rw [this]; exact h
        | addOwner id tok =>
          rw [step_instr_addOwner hu hrel hI]
          obtain ⟨⟨r, hres⟩, htok, h1, h2⟩ := instr_addOwner_inv hI
          subst htok
          have h' := inv_addOwner_abs h (.handle u th.loc.ctr) (resolve_alive h hu hres).1
          refine inv_addHandle h' (u := u) (k := th.loc.ctr) (id0 := id) hidle ?_ rfl rfl rfl
            (actrOf_set_same hu h2) (relOf_set_same hu rfl) ?_ ?_
          · show _ ∈ (addOwner s.arcs id _ id).owners
            rw [addOwner_self]; exact List.mem_cons_self
          · intro t htu; exact tableOf_set_ne _ htu
          · show tableOf (s.threads.set u _) u = _ :: tableOf s.threads u
            rw [tableOf_set_self hu, tableOf_of hu]; exact h1
        | release id tok =>
          rw [step_instr_release hu hrel hI]
          obtain ⟨key, htok, hmem, h1, h2⟩ := instr_release_inv hI
          subst htok
          refine inv_release h (u := u) (key := key) (id0 := id) hidle ?_ rfl rfl rfl
            (actrOf_set_same hu h2) ?_ ?_ ?_ ?_
          · show (key, id) ∈ tableOf s.threads u
            rw [tableOf_of hu]; exact hmem
          · intro t htu; exact tableOf_set_ne _ htu
          · show tableOf (s.threads.set u _) u = (tableOf s.threads u).filter _
            rw [tableOf_set_self hu, tableOf_of hu]; exact h1
          · intro t htu; exact relOf_set_ne _ htu
          · exact relOf_set_self hu _
        | alloc newid f tok =>
          obtain ⟨hnew, htok, h1, h2, hnx⟩ := instr_alloc_inv hI
          subst htok
          have hc : (abs s).actr u = some th.loc.actr := actrOf_of hu
          have F := h.fresh u th.loc.actr th.loc.actr hc (Nat.le_refl _)
          rw [← hnew] at F
          cases hn : f.next with
          | none =>
            rw [step_instr_alloc_none hu hrel hI hn]
            subst hnew
            refine inv_alloc h (u := u) (c := th.loc.actr) (k := th.loc.ctr) (f := f) hidle hc ?_ rfl
              (relOf_set_same hu rfl) ?_ ?_ ?_ ?_ ?_ ?_ ?_ ?_
            · intro j hj; rw [hn] at hj; cases hj
            · exact upd_self _ _ _
            · intro x hx; exact upd_ne _ _ _ _ hx
            · exact upd_self _ _ _
            · intro x hx; exact upd_ne _ _ _ _ hx
            · intro t htu; exact tableOf_set_ne _ htu
            · show tableOf (s.threads.set u _) u = _ :: tableOf s.threads u
              rw [tableOf_set_self hu, tableOf_of hu]; exact h1
            · intro t htu; exact actrOf_set_ne _ htu
            · show actrOf (s.threads.set u _) u = _
              rw [actrOf_set_self hu, h2]
          | some j =>
            rw [step_instr_alloc_some hu hrel hI hn]
            obtain ⟨r, hres⟩ := hnx j hn
            have hal := (resolve_alive h hu hres).1
            have hjne : j ≠ newid := by
              intro hj; subst hj; exact hal F.noowners
            have h' := inv_addOwner_abs h (.node newid) hal
            subst hnew
            refine inv_alloc h' (u := u) (c := th.loc.actr) (k := th.loc.ctr) (f := f) hidle hc ?_ rfl
              (relOf_set_same hu rfl) ?_ ?_ ?_ ?_ ?_ ?_ ?_ ?_
            · intro j' hj'
              rw [hn] at hj'; cases hj'
              show _ ∈ (addOwner s.arcs j _ j).owners
              rw [addOwner_self]; exact List.mem_cons_self
            · exact upd_self _ _ _
            · intro x hx; exact upd_ne _ _ _ _ hx
            · show addOwner (upd s.arcs _ _) j _ _ = _
              rw [addOwner_ne _ _ _ _ (Ne.symm hjne), upd_self]
            · intro x hx
              show addOwner (upd s.arcs _ _) j _ x = addOwner s.arcs j _ x
              by_cases hxj : x = j
              · subst hxj
                simp only [addOwner, upd_self, upd_ne _ _ _ _ hjne]
              · rw [addOwner_ne _ _ _ _ hxj, addOwner_ne _ _ _ _ hxj, upd_ne _ _ _ _ hx]
            · intro t htu; exact tableOf_set_ne _ htu
            · show tableOf (s.threads.set u _) u = _ :: tableOf s.threads u
              rw [tableOf_set_self hu, tableOf_of hu]; exact h1
            · intro t htu; exact actrOf_set_ne _ htu
            · show actrOf (s.threads.set u _) u = _
              rw [actrOf_set_self hu, h2]

/-- **… hence every schedule does** -/
theorem inv_run (sched : List Nat) : ∀ s : State, Inv (abs s) → Inv (abs (run s sched)) := by
  induction sched with
  | nil => intro s h; exact h
  | cons u us ih => intro s h; exact ih _ (inv_step s u h)

/-! ### well-formed initial states -/

/-- **what is assumed of the state in which the threads start**: nobody is in the middle of a drop; the
counts cover the root handles, the handles the threads were given and the `next` links of the nodes that
have not been freed; a freed node has count 0; the unused part of every thread's arena is unused. -/
structure WellFormed (s : State) : Prop where
  idle : ∀ (t : Nat) (th : Thread), s.threads[t]? = some th → th.rel = .idle
  roots : ∀ (i : Nat) (id : NodeId), s.roots[i]? = some id → Owner.root i ∈ (s.arcs id).owners
  handles : ∀ (t : Nat) (th : Thread) (k : Nat) (id : NodeId), s.threads[t]? = some th → (k, id) ∈ th.loc.table → Owner.handle t k ∈ (s.arcs id).owners
  links : ∀ p f id, s.fields p = some f → f.next = some id → (s.arcs p).freed = false →
    Owner.node p ∈ (s.arcs id).owners
  freedEmpty : ∀ id, (s.arcs id).freed = true → (s.arcs id).owners = []
  fresh : ∀ (t : Nat) (th : Thread) (i : Nat), s.threads[t]? = some th → th.loc.actr ≤ i →
    s.fields ⟨t + 1, i⟩ = none ∧ (s.arcs ⟨t + 1, i⟩).owners = [] ∧ (s.arcs ⟨t + 1, i⟩).freed = false

theorem relOf_idle {s : State} (hidle : ∀ (t : Nat) (th : Thread), s.threads[t]? = some th → th.rel = .idle) (t : Nat) :
    relOf s.threads t = .idle := by
  simp only [relOf]
  cases ht : s.threads[t]? with
  | none => rfl
  | some th => exact hidle t th ht

theorem WellFormed.inv {s : State} (w : WellFormed s) : Inv (abs s) := by
  have hrel : ∀ t, (abs s).rel t = .idle := relOf_idle w.idle
  refine ⟨?_, w.freedEmpty, ?_, ?_, ?_, ?_, ?_, ?_⟩
  · intro id tok r
    cases r with
    | root hi => exact w.roots _ _ hi
    | handle hk =>
      rename_i t k
      change (k, id) ∈ tableOf s.threads t at hk
      simp only [tableOf] at hk
      cases ht : s.threads[t]? with
      | none => rw [ht] at hk; cases hk
      | some th => rw [ht] at hk; exact w.handles t th k id ht hk
    | link hp hn hfr => exact w.links _ _ _ hp hn hfr
    | pending hp => rw [hrel] at hp; cases hp
  · intro t j v k hr; rw [hrel] at hr; cases hr
  · intro t j p hr; rw [hrel] at hr; cases hr
  · intro t j i hr; rw [hrel] at hr; cases hr
  · intro t p hr; rw [hrel] at hr; cases hr
  · intro t v p _ h1; rw [hrel] at h1; simp [relNode] at h1
  · intro t c i hc hci
    change actrOf s.threads t = some c at hc
    simp only [actrOf] at hc
    cases ht : s.threads[t]? with
    | none => rw [ht] at hc; cases hc
    | some th =>
      rw [ht] at hc; cases hc
      obtain ⟨h1, h2, h3⟩ := w.fresh t th i ht hci
      exact ⟨h1, h2, h3, fun v hv => by rw [hrel] at hv; cases hv⟩

/-! ### handles, and what the count discipline gives for them -/

/-- `h` is the target of a live handle: a root handle of the shared state, or a handle in some thread's table
(shared or created by the thread itself with `clone` / `append`, and not yet dropped) -/
def Held (s : State) (h : NodeId) : Prop :=
  (∃ i : Nat, s.roots[i]? = some h) ∨ (∃ (t : Nat) (th : Thread) (k : Nat), s.threads[t]? = some th ∧ (k, h) ∈ th.loc.table)

theorem Held.refs {s : State} {h : NodeId} (hh : Held s h) : ∃ tok, Refs (abs s) h tok := by
  rcases hh with ⟨i, hi⟩ | ⟨t, th, k, ht, hk⟩
  · exact ⟨_, .root hi⟩
  · refine ⟨.handle t k, .handle ?_⟩
    show (k, h) ∈ tableOf s.threads t
    rw [tableOf_of ht]; exact hk

/-- computable form of the second disjunct of `Held` -/
theorem held_of_tableOf {s : State} {t k : Nat} {h : NodeId} (hk : (k, h) ∈ tableOf s.threads t) : Held s h := by
  simp only [tableOf] at hk
  cases ht : s.threads[t]? with
  | none => rw [ht] at hk; cases hk
  | some th => rw [ht] at hk; exact .inr ⟨t, th, k, ht, hk⟩

/-- under the invariant, a node reachable from a live handle is not freed and has a positive count -/
theorem Inv.held_alive {s : State} (h : Inv (abs s)) {x id : NodeId} (hx : Held s x) (hr : Reach s.fields x id) :
    (s.arcs id).freed = false ∧ 0 < (s.arcs id).count := by
  obtain ⟨tok, r⟩ := hx.refs
  obtain ⟨tok', r'⟩ := h.refs_of_reach r hr
  have := h.alive r'
  exact ⟨this.2, List.length_pos_iff.2 this.1⟩

/-- the `freed` flag of a node is only ever set by the thread that is in `Rel.free` for it -/
theorem step_freed {s : State} {u : Nat} {id : NodeId} (h1 : ((step s u).arcs id).freed = true) :
    (s.arcs id).freed = true ∨ relOf s.threads u = .free id := by
  cases hu : s.threads[u]? with
  | none => rw [step_oob hu] at h1; exact .inl h1
  | some th =>
    cases hrel : th.rel with
    | dec j tok =>
      rw [step_dec hu hrel] at h1
      left
      change (upd s.arcs j _ id).freed = true at h1
      by_cases hx : id = j
      · subst hx; rw [upd_self] at h1; exact h1
      · rw [upd_ne _ _ _ _ hx] at h1; exact h1
    | free p =>
      by_cases hx : id = p
      · subst hx; right; rw [relOf_of hu, hrel]
      · left
        cases hn : (s.fields p).bind (·.next) with
        | none =>
          rw [step_free_none hu hrel hn] at h1
          change (upd s.arcs p _ id).freed = true at h1
          rw [upd_ne _ _ _ _ hx] at h1; exact h1
        | some j =>
          rw [step_free_some hu hrel hn] at h1
          change (upd s.arcs p _ id).freed = true at h1
          rw [upd_ne _ _ _ _ hx] at h1; exact h1
    | idle =>
      left
      cases hI : instr u s.roots (view u s.fields) th.loc with
      | mk L eff =>
        cases eff with
        | none => rw [step_instr_none hu hrel hI] at h1; exact h1
        | release j tok => rw [step_instr_release hu hrel hI] at h1; exact h1
        | addOwner j tok =>
          rw [step_instr_addOwner hu hrel hI] at h1
          change (addOwner s.arcs j tok id).freed = true at h1
          rw [addOwner_freed] at h1; exact h1
        | alloc newid f tok =>
          cases hn : f.next with
          | none =>
            rw [step_instr_alloc_none hu hrel hI hn] at h1
            change (upd s.arcs newid _ id).freed = true at h1
            by_cases hx : id = newid
            · subst hx; rw [upd_self] at h1; cases h1
            · rw [upd_ne _ _ _ _ hx] at h1; exact h1
          | some j =>
            rw [step_instr_alloc_some hu hrel hI hn] at h1
            change (addOwner (upd s.arcs newid _) j _ id).freed = true at h1
            rw [addOwner_freed] at h1
            by_cases hx : id = newid
            · subst hx; rw [upd_self] at h1; cases h1
            · rw [upd_ne _ _ _ _ hx] at h1; exact h1

end Arimaa.Conc
