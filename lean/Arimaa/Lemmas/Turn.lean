import Arimaa.Impl.Text

/-!
Helper lemmas about the turn bookkeeping of `GameState.movePiece`, `GameState.pass`,
`GameState.place` (used by `Props/C03.lean` and `Props/C14.lean`).  No bit-level reasoning.
-/
namespace Arimaa
namespace GameState

/-- Turn-bookkeeping invariant: in the play phase the step counter is at most 3 and at the start of
a turn nothing is pending and no capture is recorded. -/
def TurnInv (s : GameState) : Prop :=
  match s.phase with
  | .play pp => pp.step ≤ 3 ∧ (pp.step = 0 → pp.pps = .none ∧ pp.trapped = false)
  | .place => True

/-- An action that is a step or a pass (not a setup placement). -/
def _root_.Arimaa.Action.isTurnAction : Action → Bool
  | .move _ _ => true
  | .pass => true
  | .place _ => false

/-- "This action ends the turn": a pass, or a step made when three steps were already made. -/
def endsTurn (pp : PlayPhase) : Action → Bool
  | .pass => true
  | .move _ _ => decide (pp.step ≥ 3)
  | .place _ => false

/-- Run a list of actions. -/
def run (s : GameState) (as : List Action) : GameState := as.foldl takeAction s

/-- Run a list of steps (square, direction). -/
def runMoves (s : GameState) (ms : List (Nat × Dir)) : GameState :=
  ms.foldl (fun s m => s.movePiece m.1 m.2) s

@[simp] theorem run_nil (s : GameState) : s.run [] = s := rfl
@[simp] theorem run_cons (s : GameState) (a : Action) (as : List Action) :
    s.run (a :: as) = (s.takeAction a).run as := rfl
theorem run_append (s : GameState) (as bs : List Action) :
    s.run (as ++ bs) = (s.run as).run bs := by simp [run, List.foldl_append]

@[simp] theorem runMoves_nil (s : GameState) : s.runMoves [] = s := rfl
@[simp] theorem runMoves_cons (s : GameState) (m : Nat × Dir) (ms : List (Nat × Dir)) :
    s.runMoves (m :: ms) = (s.movePiece m.1 m.2).runMoves ms := rfl
theorem runMoves_snoc (s : GameState) (ms : List (Nat × Dir)) (m : Nat × Dir) :
    s.runMoves (ms ++ [m]) = (s.runMoves ms).movePiece m.1 m.2 := by
  simp [runMoves, List.foldl_append]

theorem runMoves_eq_run (s : GameState) (ms : List (Nat × Dir)) :
    s.runMoves ms = s.run (ms.map fun m => Action.move m.1 m.2) := by
  induction ms generalizing s with
  | nil => rfl
  | cons m ms ih => simp [ih, takeAction]

/-! ### `movePiece` before the fourth step -/

/-- Field-by-field description of a step that is not the fourth one. -/
theorem movePiece_lt3 (s : GameState) (pp : PlayPhase) (sq : Nat) (d : Dir)
    (hph : s.phase = .play pp) (hlt : pp.step < 3) :
    s.movePiece sq d =
      { p1Turn := s.p1Turn
        moveNo := s.moveNo
        phase := .play
          { initHash := pp.initHash
            pps := s.nextPushPullState pp sq d
            hist := if (s.board.takeMove sq d).2 then [] else pp.hist
            prev := pp.prev ++ [s.board]
            trapped := pp.trapped || (s.board.takeMove sq d).2 }
        board := (s.board.takeMove sq d).1
        hash := zMovePiece s.hash s.p1Turn s.board pp.step (s.board.takeMove sq d).1
          (pp.step + 1) s.p1Turn } := by
  have h3 : ¬ pp.step ≥ 3 := by omega
  simp [movePiece, hph, h3]

/-- Field-by-field description of a fourth step (`step ≥ 3`). -/
theorem movePiece_ge3 (s : GameState) (pp : PlayPhase) (sq : Nat) (d : Dir)
    (hph : s.phase = .play pp) (hge : pp.step ≥ 3) :
    s.movePiece sq d =
      { p1Turn := !s.p1Turn
        moveNo := s.moveNo + (if s.p1Turn then 0 else 1)
        phase := .play (PlayPhase.initial
          (zMovePiece s.hash s.p1Turn s.board pp.step (s.board.takeMove sq d).1 0 (!s.p1Turn))
          (zMovePiece s.hash s.p1Turn s.board pp.step (s.board.takeMove sq d).1 0 (!s.p1Turn) ::
            (if (s.board.takeMove sq d).2 then [] else pp.hist)))
        board := (s.board.takeMove sq d).1
        hash := zMovePiece s.hash s.p1Turn s.board pp.step (s.board.takeMove sq d).1 0
          (!s.p1Turn) } := by
  cases hp : s.p1Turn <;> simp [movePiece, hph, hge, hp]

/-- Field-by-field description of a pass. -/
theorem pass_play (s : GameState) (pp : PlayPhase) (hph : s.phase = .play pp) :
    s.pass =
      { p1Turn := !s.p1Turn
        moveNo := s.moveNo + (if s.p1Turn then 0 else 1)
        phase := .play (PlayPhase.initial (zPass s.hash pp.step)
          (zPass s.hash pp.step :: (if pp.trapped then [] else pp.hist)))
        board := s.board
        hash := zPass s.hash pp.step } := by
  simp [pass, hph]

theorem step_initial (h : BB) (hist : List BB) : (PlayPhase.initial h hist).step = 0 := rfl

/-! ### `TurnInv` -/

theorem turnInv_of_initial (s : GameState) (h : BB) (hist : List BB)
    (hph : s.phase = .play (PlayPhase.initial h hist)) : TurnInv s := by
  simp [TurnInv, hph, PlayPhase.initial, PlayPhase.step]

theorem turnInv_of_place (s : GameState) (hph : s.phase = .place) : TurnInv s := by
  simp [TurnInv, hph]

theorem turnInv_initial : TurnInv GameState.initial := turnInv_of_place _ rfl

/-- After a placement the invariant holds whatever the state was before. -/
theorem turnInv_place (s : GameState) (p : Piece) : TurnInv (s.place p) := by
  by_cases h : (s.board.placementBit == Gen.LAST_P2_PLACEMENT_MASK) = true
  · simp [TurnInv, place, h, PlayPhase.initial, PlayPhase.step]
  · simp [TurnInv, place, h]

theorem turnInv_pass (s : GameState) (h : TurnInv s) : TurnInv s.pass := by
  cases hph : s.phase with
  | place => simpa [pass, hph] using h
  | play pp => rw [pass_play s pp hph]; exact turnInv_of_initial _ _ _ rfl

theorem turnInv_movePiece (s : GameState) (sq : Nat) (d : Dir) (h : TurnInv s) :
    TurnInv (s.movePiece sq d) := by
  cases hph : s.phase with
  | place => simpa [movePiece, hph] using h
  | play pp =>
    by_cases hlt : pp.step < 3
    · rw [movePiece_lt3 s pp sq d hph hlt]
      simp only [TurnInv, PlayPhase.step, List.length_append, List.length_cons, List.length_nil]
      simp only [PlayPhase.step] at hlt
      omega
    · rw [movePiece_ge3 s pp sq d hph (by omega)]; exact turnInv_of_initial _ _ _ rfl

theorem turnInv_takeAction (s : GameState) (a : Action) (h : TurnInv s) :
    TurnInv (s.takeAction a) := by
  cases a with
  | pass => exact turnInv_pass s h
  | place p => exact turnInv_place s p
  | move sq d => exact turnInv_movePiece s sq d h

theorem turnInv_run (s : GameState) (as : List Action) (h : TurnInv s) : TurnInv (s.run as) := by
  induction as generalizing s with
  | nil => exact h
  | cons a as ih => exact ih _ (turnInv_takeAction s a h)

/-- A successfully parsed position satisfies the invariant. -/
theorem turnInv_parseState (t : List Char) (s : GameState) (h : parseState t = .ok s) :
    TurnInv s := by
  unfold parseState at h
  simp only at h
  split at h
  · cases h
  · split at h
    · cases h
    · injection h with h
      subst h
      exact turnInv_of_initial _ _ _ rfl

/-! ### snoc induction for lists -/

theorem _root_.List.snoc_induction' {α : Type _} {P : List α → Prop} (nil : P [])
    (snoc : ∀ l a, P l → P (l ++ [a])) : ∀ l, P l := by
  intro l
  rw [← List.reverse_reverse l]
  generalize l.reverse = r
  induction r with
  | nil => exact nil
  | cons a r ih => rw [List.reverse_cons]; exact snoc _ _ ih

/-! ### the boards of the current turn (C14) -/

/-- The state after the first `i` steps of `ms` from `s0` (ghost: obtained by re-running). -/
def stateAfter (s0 : GameState) (ms : List (Nat × Dir)) (i : Nat) : GameState :=
  s0.runMoves (ms.take i)

theorem stateAfter_length (s0 : GameState) (ms : List (Nat × Dir)) :
    s0.stateAfter ms ms.length = s0.runMoves ms := by simp [stateAfter]

theorem stateAfter_zero (s0 : GameState) (ms : List (Nat × Dir)) :
    s0.stateAfter ms 0 = s0 := by simp [stateAfter]

/-- After `k ≤ 3` steps from a turn-start state the recorded list is exactly the list of boards of
the states after `0, …, k-1` steps. -/
theorem prev_runMoves (s0 : GameState) (pp0 : PlayPhase) (hph : s0.phase = .play pp0)
    (h0 : pp0.prev = []) (ms : List (Nat × Dir)) :
    ms.length ≤ 3 → ∃ ppk, (s0.runMoves ms).phase = .play ppk ∧
      ppk.prev = (List.range ms.length).map (fun i => (s0.stateAfter ms i).board) := by
  induction ms using List.snoc_induction' with
  | nil => intro _; exact ⟨pp0, hph, by simp [h0]⟩
  | snoc ms m ih =>
    intro hk
    rw [List.length_append, List.length_singleton] at hk
    obtain ⟨ppk, hk1, hk2⟩ := ih (by omega)
    have hstep : ppk.step < 3 := by
      simp only [PlayPhase.step, hk2, List.length_map, List.length_range]; omega
    rw [runMoves_snoc, movePiece_lt3 _ ppk _ _ hk1 hstep]
    refine ⟨_, rfl, ?_⟩
    simp only
    rw [hk2, List.length_append, List.length_singleton, List.range_succ, List.map_append]
    congr 1
    · apply List.map_congr_left
      intro i hi
      rw [List.mem_range] at hi
      simp only [stateAfter]
      rw [List.take_append_of_le_length (by omega)]
    · simp [stateAfter]

end GameState
end Arimaa
