import Arimaa.Lemmas.Reach

/-!
No action is listed twice in the rule-only list.
-/
namespace Arimaa
open Gen Spec GameState

theorem move_inj_pairwise (l : List Nat) (d : Dir) (h : l.Nodup) :
    (l.map (fun s => Action.move s d)).Nodup := by
  unfold List.Nodup
  rw [List.pairwise_map]
  exact h.imp (fun hne h => hne (by cases h; rfl))

theorem flatMap_dirs_nodup (f : Dir → List Nat) (hf : ∀ d, (f d).Nodup) :
    (Dir_ALL.flatMap fun d => (f d).map (fun s => Action.move s d)).Nodup := by
  unfold List.Nodup
  rw [List.pairwise_flatMap]
  refine ⟨fun d _ => move_inj_pairwise _ d (hf d), ?_⟩
  have hd : Dir_ALL.Pairwise (· ≠ ·) := by decide
  refine hd.imp ?_
  intro d d' hne x hx y hy hxy
  simp only [List.mem_map] at hx hy
  obtain ⟨_, _, rfl⟩ := hx
  obtain ⟨_, _, h2⟩ := hy
  rw [← hxy] at h2
  cases h2
  exact hne rfl

theorem ownMoves_nodup (s : GameState) (b : Board) : (s.ownMoves b).Nodup := by
  unfold ownMoves
  exact flatMap_dirs_nodup _ (fun _ => squaresOf_nodup _)

theorem pushActions_nodup (s : GameState) (pp : PlayPhase) (b : Board) : (s.pushActions pp b).Nodup := by
  simp only [pushActions]
  split
  · split
    · exact flatMap_dirs_nodup _ (fun _ => squaresOf_nodup _)
    · exact List.nodup_nil
  · exact List.nodup_nil

theorem nodup_foldl_addIfNew {α β : Type} [BEq α] [LawfulBEq α] (c : β → Bool) (g : β → α)
    (l : List β) (acc : List α) (h : acc.Nodup) :
    (l.foldl (fun acc d => if c d then (if acc.contains (g d) then acc else acc ++ [g d])
      else acc) acc).Nodup := by
  induction l generalizing acc with
  | nil => exact h
  | cons d l ih =>
    simp only [List.foldl_cons]
    apply ih
    cases c d
    · simpa using h
    · cases hm : acc.contains (g d)
      · have : g d ∉ acc := by simpa using hm
        simp only [Bool.false_eq_true, if_false, if_true]
        rw [List.nodup_append]
        refine ⟨h, by simp, ?_⟩
        intro a ha b hb
        simp only [List.mem_singleton] at hb
        subst hb
        intro e; subst e; exact this ha
      · simpa using h

theorem pullExtend_nodup (s : GameState) (pp : PlayPhase) (b : Board) (acc : List Action)
    (h : acc.Nodup) : (s.pullExtend pp b acc).Nodup := by
  unfold pullExtend
  split
  · exact nodup_foldl_addIfNew _ _ _ _ h
  · exact h

theorem mcp_nodup (s : GameState) (pp : PlayPhase) (b : Board) :
    (s.mustCompletePushActions pp b).Nodup := by
  simp only [mustCompletePushActions]
  split
  · unfold List.Nodup
    rw [List.pairwise_flatMap]
    refine ⟨fun d _ => by split <;> simp, ?_⟩
    have hd : Dir_ALL.Pairwise (· ≠ ·) := by decide
    refine hd.imp ?_
    intro d d' hne x hx y hy hxy
    split at hx <;> split at hy <;> simp at hx hy
    subst hx hy
    have : d = d' := by injection hxy
    exact hne this
  · exact List.nodup_nil

/-- an own step and a displacement of an enemy piece are never the same action -/
theorem ownStep_not_enemy (b : Spec.Board) (gold : Bool) (step : Nat) (pend : Pending) (i : Nat) (d : Spec.Dir)
    (h1 : ownStep b gold i d = true) : pushStart b gold step i d = false ∧ pullEnd b gold pend i d = false := by
  unfold ownStep at h1
  unfold pushStart pullEnd
  cases hc : b i with
  | none => rw [hc] at h1; simp at h1
  | some c =>
    cases hn : nbr i d with
    | none => rw [hc, hn] at h1; simp at h1
    | some j =>
      rw [hc, hn] at h1
      simp only [Bool.and_eq_true, beq_iff_eq] at h1
      have hg : c.gold = gold := h1.1.1.1
      cases pend <;> simp [hg]

/-- **no action is listed twice** -/
theorem validActionsNoRep_nodup (s : GameState) (pp : PlayPhase) (h : PlayInv s pp) :
    s.validActionsNoRep.Nodup := by
  unfold validActionsNoRep
  cases hm : pp.pps.isMustCompletePush
  · rw [validActions__free s pp h.phase hm false]
    simp only [Bool.false_eq_true, if_false]
    rw [List.nodup_append]
    refine ⟨?_, by cases s.canPass false <;> simp, ?_⟩
    · unfold stepList
      rw [List.nodup_append]
      refine ⟨pullExtend_nodup s pp s.board _ (pushActions_nodup s pp s.board), ownMoves_nodup s s.board, ?_⟩
      intro a ha b hb e
      subst e
      have hmv := isMove_of_mem_ownMoves s s.board a hb
      obtain ⟨i, d, rfl⟩ := (Action.isMove_iff a).mp hmv
      obtain ⟨hi, hos⟩ := (ownMoves_iff s s.board h.wf i d).mp hb
      obtain ⟨hps, hpe⟩ := ownStep_not_enemy _ _ pp.step (absPend pp.pps) _ _ hos
      rw [mem_pullExtend] at ha
      rcases ha with ha | ha
      · have := ((pushActions_iff s pp s.board h.wf i d).mp ha).2.2
        rw [hps] at this; cases this
      · have := ((pullExtend_iff s pp s.board h.wf h.pend i d).mp ha).2
        rw [hpe] at this; cases this
    · intro a ha b hb e
      subst e
      have hmv := isMove_of_mem_stepList s pp a ha
      cases hcp : s.canPass false <;> rw [hcp] at hb <;> simp at hb
      subst hb
      simp [Action.isMove] at hmv
  · rw [validActions__mcp s pp h.phase hm false]
    simp only [Bool.false_eq_true, if_false]
    exact mcp_nodup s pp s.board

end Arimaa
