import Arimaa.Lemmas.RsAgreeHash
import Arimaa.Lemmas.RsAgreeNotation
import Arimaa.Lemmas.NoPanic
import Arimaa.Gen.BridgeTac

/-!
Agreement of the regenerated model with the hand model: `FromStr for GameState` (display.rs), the diagram parser.

The regular expression of the header is not translated: `Regex::new(r"^\s*(\d+)([gswb])")` is recognised as THE
pattern the hand-written matcher `matchHeader` (over the regex crate's own Unicode tables, regenerated) implements,
and `captures` is rendered as a call of it.  Everything else is the translation of the Rust text: `split('|')`, the
`enumerate / filter / map` chains that pick the odd segments and the odd characters, the two nested loops with
their early `return Err(..)` for a piece outside the 8×8 grid (`Rt.forRetM`), `parse()?`, the seven accumulators.
The theorem holds for texts shorter than 2^60 characters (the cell index `row * 8 + col` is a `usize` in the code).
-/
namespace Arimaa.RsAgree
open Arimaa Arimaa.Gen Arimaa.Gen.RsBase Arimaa.Rt

/-! ### splitting and picking the odd elements -/

theorem splitOn_bar (t : List Char) : Rt.splitOn '|' t = splitBar t := by
  induction t with
  | nil => rfl
  | cons x xs ih =>
    have h1 : Rt.splitOn '|' (x :: xs) = (if x = '|' then [] :: Rt.splitOn '|' xs
        else match Rt.splitOn '|' xs with
          | seg :: rest => (x :: seg) :: rest
          | [] => [[x]]) := rfl
    have h2 : splitBar (x :: xs) = (if x = '|' then [] :: splitBar xs
        else match splitBar xs with
          | seg :: rest => (x :: seg) :: rest
          | [] => [[x]]) := rfl
    rw [h1, h2, ih]

theorem splitBar_ne_nil (t : List Char) : splitBar t ≠ [] := by
  induction t with
  | nil => simp [splitBar]
  | cons x xs ih =>
    unfold splitBar
    split
    · simp
    · split <;> simp

def oddFrom {α : Type} (n : Nat) (l : List α) : List α :=
  List.map (fun (p : Nat × α) => p.2) (List.filter (fun (p : Nat × α) => (p.1 % 2) == 1) (Rt.enumerateFrom n l))

theorem oddFrom_cons {α : Type} (n : Nat) (a : α) (l : List α) :
    oddFrom n (a :: l) = (if n % 2 = 1 then [a] else []) ++ oddFrom (n + 1) l := by
  have he : Rt.enumerateFrom n (a :: l) = (n, a) :: Rt.enumerateFrom (n + 1) l := rfl
  unfold oddFrom
  rw [he]
  by_cases h : n % 2 = 1
  · simp [List.filter_cons, h]
  · simp [List.filter_cons, h]

theorem oddFrom_spec {α : Type} (l : List α) :
    (∀ n, n % 2 = 0 → oddFrom n l = oddElems l) ∧
    (∀ n, n % 2 = 1 → oddFrom n l = match l with | [] => [] | a :: r => a :: oddElems r) := by
  induction l with
  | nil => exact ⟨fun _ _ => rfl, fun _ _ => rfl⟩
  | cons a r ih =>
    constructor
    · intro n hn
      rw [oddFrom_cons]
      have : ¬ n % 2 = 1 := by omega
      rw [if_neg this, List.nil_append, ih.2 (n + 1) (by omega)]
      cases r <;> rfl
    · intro n hn
      rw [oddFrom_cons, if_pos hn, ih.1 (n + 1) (by omega)]
      rfl

theorem odd_chain {α : Type} (l : List α) :
    List.map (fun (x : Nat × α) => match x with | (_, s) => s)
      (List.filter (fun (x : Nat × α) => match x with | (i, _) => ((i % 2) == 1)) (Rt.enumerate l)) = oddElems l :=
  (oddFrom_spec l).1 0 rfl

/-! ### the header -/

theorem isPerlDigit_plus : isPerlDigit '+' = false := by decide

theorem parseUsize_digits (ds : List Char) (hne : ds ≠ []) (hd : ∀ c ∈ ds, isPerlDigit c = true) :
    Rt.parseUsize ds = Arimaa.parseUsize ds := by
  unfold Rt.parseUsize Arimaa.parseUsize
  have hstrip : Rt.stripPlus ds = ds := by
    unfold Rt.stripPlus
    split
    · rename_i rest
      have := hd '+' (List.mem_cons_self ..)
      rw [isPerlDigit_plus] at this; cases this
    · rfl
  have hemp : ds.isEmpty = false := by cases ds <;> simp_all
  have hall : (ds.all Rt.isAsciiDigit) = (ds.all fun c => decide ('0' ≤ c ∧ c ≤ '9')) := by
    congr 1
    funext c
    unfold Rt.isAsciiDigit
    have h1 : ('0' ≤ c) ↔ (48 ≤ c.toNat) := Iff.rfl
    have h2 : (c ≤ '9') ↔ (c.toNat ≤ 57) := Iff.rfl
    have e1 : Nat.ble 48 c.toNat = decide (48 ≤ c.toNat) := Arimaa.Gen.Bridge.nat_ble_eq_decide _ _
    have e2 : Nat.ble c.toNat 57 = decide (c.toNat ≤ 57) := Arimaa.Gen.Bridge.nat_ble_eq_decide _ _
    rw [e1, e2]
    by_cases ha : 48 ≤ c.toNat <;> by_cases hb : c.toNat ≤ 57 <;> simp [ha, hb, h1, h2]
  simp only [hstrip, hemp, Bool.false_eq_true, if_false, hall]
  have hv : Rt.usizeMax = Arimaa.usizeMax := rfl
  have h0 : '0'.toNat = 48 := rfl
  simp only [hv, h0]

/-! ### the cell loop and the row loop -/

abbrev Acc := BB × BB × BB × BB × BB × BB × BB

@[reducible] def tup (cs : Cells) : Acc := (cs.e, cs.m, cs.h, cs.d, cs.c, cs.r, cs.p1)

def cellStep (row : Nat) (cs : Cells) (col : Nat) (ch : Char) : Res (Option GameState ⊕ Acc) :=
  match charToPiece ch with
  | some p =>
    if row ≥ BOARD_HEIGHT ∨ col ≥ BOARD_WIDTH then .ok (.inl none)
    else .ok (.inr (tup (cs.add p ch.isUpper (sqBit ((row * BOARD_WIDTH + col) % 256)))))
  | none => .ok (.inr (tup cs))

theorem cells_loop (B row : Nat) (F : Acc → Nat × Char → Res (Option GameState ⊕ Acc))
    (hF : ∀ cs col ch, col < B → F (tup cs) (col, ch) = cellStep row cs col ch)
    (cells : List Char) (k : Nat) (cs : Cells) (hk : k + cells.length ≤ B) :
    Rt.forRetM (Rt.enumerateFrom k cells) (tup cs) F =
      match parseRowCells row cells k cs with
      | some cs' => .ok (.inr (tup cs'))
      | none => .ok (.inl none) := by
  induction cells generalizing k cs with
  | nil => rfl
  | cons ch rest ih =>
    unfold Rt.enumerateFrom Rt.forRetM parseRowCells
    simp only [List.length_cons] at hk
    rw [hF cs k ch (by omega)]
    unfold cellStep
    cases hp : charToPiece ch with
    | none =>
      simp only [Res.bind_ok]
      exact ih (k + 1) cs (by omega)
    | some p =>
      simp only []
      by_cases hb : k ≥ BOARD_WIDTH ∨ row ≥ BOARD_HEIGHT
      · have hb' : row ≥ BOARD_HEIGHT ∨ k ≥ BOARD_WIDTH := hb.symm
        simp only [if_pos hb', Res.bind_ok]
      · have hb' : ¬ (row ≥ BOARD_HEIGHT ∨ k ≥ BOARD_WIDTH) := fun h => hb h.symm
        simp only [if_neg hb', Res.bind_ok]
        exact ih (k + 1) _ (by omega)

def rowStep (cs : Cells) (row : Nat) (line : List Char) : Res (Option GameState ⊕ Acc) :=
  match parseRowCells row (oddElems line) 0 cs with
  | some cs' => .ok (.inr (tup cs'))
  | none => .ok (.inl none)

theorem rows_loop (B : Nat) (F : Acc → Nat × List Char → Res (Option GameState ⊕ Acc))
    (P : List Char → Prop)
    (hF : ∀ cs row line, row < B → P line → F (tup cs) (row, line) = rowStep cs row line)
    (lines : List (List Char)) (hP : ∀ l ∈ lines, P l) (k : Nat) (cs : Cells) (hk : k + lines.length ≤ B) :
    Rt.forRetM (Rt.enumerateFrom k lines) (tup cs) F =
      match parseRows lines k cs with
      | some cs' => .ok (.inr (tup cs'))
      | none => .ok (.inl none) := by
  induction lines generalizing k cs with
  | nil => rfl
  | cons line rest ih =>
    unfold Rt.enumerateFrom Rt.forRetM parseRows
    simp only [List.length_cons] at hk
    rw [hF cs k line (by omega) (hP line (List.mem_cons_self ..))]
    unfold rowStep
    cases parseRowCells k (oddElems line) 0 cs with
    | none => rfl
    | some cs' =>
      simp only [Res.bind_ok]
      exact ih (fun l hl => hP l (List.mem_cons_of_mem _ hl)) (k + 1) cs' (by omega)

/-! ### the pieces of the main theorem -/

theorem find_first {α : Type} (l : List α) (h : l ≠ []) (d : α) :
    Rt.unwrap (List.find? (fun _ => true) l) = .ok (l.headD d) := by
  cases l with
  | nil => exact absurd rfl h
  | cons a r => rfl

theorem matchHeader_spec (seg ds : List Char) (side : Char) (h : matchHeader seg = some (ds, side)) :
    ds ≠ [] ∧ ∀ c ∈ ds, isPerlDigit c = true := by
  unfold matchHeader at h
  dsimp only at h
  split at h
  · rename_i c rest hdrop
    split at h
    · rename_i hc
      simp only [Option.some.injEq, Prod.mk.injEq] at h
      obtain ⟨h1, _⟩ := h
      subst h1
      refine ⟨?_, ?_⟩
      · intro h0
        simp [h0] at hc
      · intro c hc'
        have hall := List.all_takeWhile (p := isPerlDigit) (l := List.dropWhile isPerlSpace seg)
        exact List.all_eq_true.mp hall c hc'
    · cases h
  · cases h

theorem convert_char_to_piece_eq (ch : Char) :
    convert_char_to_piece ch = (charToPiece ch).map (fun p => (p, ch.isUpper)) := by
  unfold convert_char_to_piece
  have : (match ch with
        | 'E' | 'e' => some Piece.elephant | 'M' | 'm' => some Piece.camel | 'H' | 'h' => some Piece.horse
        | 'D' | 'd' => some Piece.dog | 'C' | 'c' => some Piece.cat | 'R' | 'r' => some Piece.rabbit
        | _ => none) = charToPiece ch := by
    have h := piece_char ch
    have e : pieceOfChar = charToPiece := by funext c; unfold pieceOfChar charToPiece; rfl
    rw [e] at h; exact h
  show (match (match ch with
        | 'E' | 'e' => some Piece.elephant | 'M' | 'm' => some Piece.camel | 'H' | 'h' => some Piece.horse
        | 'D' | 'd' => some Piece.dog | 'C' | 'c' => some Piece.cat | 'R' | 'r' => some Piece.rabbit
        | _ => none) with
      | some p => some (p, Char.isUpper ch)
      | none => none) = _
  rw [this]
  cases charToPiece ch <;> rfl

theorem length_oddElems_le {α : Type} (l : List α) : (oddElems l).length ≤ l.length := by
  induction l using oddElems.induct with
  | case1 a b rest ih => simp [oddElems]; omega
  | case2 l h => 
    unfold oddElems
    split
    · exact absurd rfl (h _ _ _)
    · simp

theorem splitBar_length_le (t : List Char) : (splitBar t).length ≤ t.length + 1 := by
  induction t with
  | nil => simp [splitBar]
  | cons x xs ih =>
    unfold splitBar
    split
    · simp; omega
    · split
      · rename_i seg rest heq
        rw [heq] at ih
        simp at ih ⊢; omega
      · simp

theorem mem_oddElems {α : Type} {l : List α} {a : α} (h : a ∈ oddElems l) : a ∈ l := by
  induction l using oddElems.induct with
  | case1 x b rest ih =>
    simp only [oddElems, List.mem_cons] at h
    rcases h with h | h
    · subst h; simp
    · have := ih h; simp [this]
  | case2 l hnot =>
    unfold oddElems at h
    split at h
    · exact absurd rfl (hnot _ _ _)
    · cases h

theorem splitBar_seg_length (t : List Char) (seg : List Char) (h : seg ∈ splitBar t) : seg.length ≤ t.length := by
  induction t generalizing seg with
  | nil => simp [splitBar] at h; subst h; simp
  | cons x xs ih =>
    unfold splitBar at h
    split at h
    · rcases List.mem_cons.mp h with h | h
      · subst h; simp
      · have := ih seg h; simp; omega
    · split at h
      · rename_i s0 rest heq
        rcases List.mem_cons.mp h with h | h
        · subst h
          have := ih s0 (by rw [heq]; exact List.mem_cons_self ..)
          simp; omega
        · have := ih seg (by rw [heq]; exact List.mem_cons_of_mem _ h)
          simp; omega
      · simp at h; subst h; simp

theorem game_state_from_str (t : List Char) (hlen : t.length < 2 ^ 60) :
    GameState_from_str t = ofOutcome (parseState t) := by
  unfold GameState_from_str parseState
  dsimp only
  rw [splitOn_bar, odd_chain, find_first (splitBar t) (splitBar_ne_nil t) []]
  simp only [Res.bind_ok]
  have hsegs : 0 + (oddElems (splitBar t)).length ≤ 2 ^ 60 := by
    have h1 := length_oddElems_le (splitBar t)
    have h2 : (splitBar t).length ≤ t.length + 1 := splitBar_length_le t
    omega
  have henum : Rt.enumerate (oddElems (splitBar t)) = Rt.enumerateFrom 0 (oddElems (splitBar t)) := rfl
  rw [henum, rows_loop (2 ^ 60) _ (fun l => l.length ≤ t.length) ?hF (oddElems (splitBar t))
    (fun l hl => splitBar_seg_length t l (mem_oddElems hl)) 0 {} hsegs]
  case hF =>
    intro cs row line hrow hline
    dsimp only
    rw [odd_chain]
    have hcells : 0 + (oddElems line).length ≤ 2 ^ 60 := by
      have := length_oddElems_le line
      omega
    have henum2 : Rt.enumerate (oddElems line) = Rt.enumerateFrom 0 (oddElems line) := rfl
    rw [henum2, cells_loop (2 ^ 60) row _ ?hC (oddElems line) 0 cs hcells]
    case hC =>
      intro cs2 col ch hcol
      dsimp only
      have hm1 : Rt.mulUsize row BOARD_WIDTH = .ok (row * BOARD_WIDTH) := by
        unfold Rt.mulUsize BOARD_WIDTH Rt.usizeMax
        have : ¬ row * 8 > 2 ^ 64 - 1 := by omega
        simp [this]
      have ha1 : Rt.addUsize (row * BOARD_WIDTH) col = .ok (row * BOARD_WIDTH + col) := by
        unfold Rt.addUsize BOARD_WIDTH Rt.usizeMax
        have : ¬ row * 8 + col > 2 ^ 64 - 1 := by omega
        simp [this]
      simp only [hm1, ha1, Res.bind_ok, convert_char_to_piece_eq]
      unfold cellStep
      cases hpc : charToPiece ch with
      | none => rfl
      | some p =>
        simp only [Option.map]
        by_cases hb : row ≥ BOARD_HEIGHT ∨ col ≥ BOARD_WIDTH
        · have hbb : (Nat.ble BOARD_HEIGHT row || Nat.ble BOARD_WIDTH col) = true := by
            rcases hb with h | h
            · simp [Nat.ble_eq.mpr h]
            · simp [Nat.ble_eq.mpr h]
          simp only [hbb, cond_true, if_pos hb]
        · have h1 : ¬ row ≥ BOARD_HEIGHT := fun h => hb (Or.inl h)
          have h2 : ¬ col ≥ BOARD_WIDTH := fun h => hb (Or.inr h)
          have hbb : (Nat.ble BOARD_HEIGHT row || Nat.ble BOARD_WIDTH col) = false := by
            have e1 : Nat.ble BOARD_HEIGHT row = false := by
              cases hx : Nat.ble BOARD_HEIGHT row
              · rfl
              · exact absurd (Nat.ble_eq.mp hx) h1
            have e2 : Nat.ble BOARD_WIDTH col = false := by
              cases hx : Nat.ble BOARD_WIDTH col
              · rfl
              · exact absurd (Nat.ble_eq.mp hx) h2
            simp [e1, e2]
          have hidx : (row * BOARD_WIDTH + col) % 256 < 64 := by
            unfold BOARD_WIDTH BOARD_HEIGHT at *
            omega
          have hbit : Rt.asBitBoard ((row * BOARD_WIDTH + col) % 256) = .ok (sqBit ((row * BOARD_WIDTH + col) % 256)) := by
            unfold Rt.asBitBoard
            have : ¬ (row * BOARD_WIDTH + col) % 256 ≥ 64 := by omega
            simp [this]
          simp only [hbb, cond_false, if_neg hb, hbit, Res.bind_ok]
          cases p <;> cases ch.isUpper <;> rfl
    unfold rowStep
    cases parseRowCells row (oddElems line) 0 cs <;> rfl
  have hstep0 : zFromPieceBoardPanics = fun b step => stepValuePanics step := by
    funext b step; exact zFromPieceBoardPanics_eq b step
  have hsv : stepValuePanics 0 = false := by decide
  cases hm : matchHeader ((splitBar t).headD []) with
  | none =>
    simp only [Res.bind_ok]
    cases hpr : parseRows (oddElems (splitBar t)) 0 {} with
    | none => rfl
    | some cs =>
      simp only [Res.bind_ok, tup, piece_board_new, from_piece_board_eq, hstep0, hsv, Res.guard_false,
        play_phase_initial, game_state_new, PieceBoard_piece_board]
      rfl
  | some c =>
    obtain ⟨ds, side⟩ := c
    obtain ⟨hne, hd⟩ := matchHeader_spec _ ds side hm
    simp only [Rt.unwrap, Res.bind_ok, parseUsize_digits ds hne hd]
    cases hp : Arimaa.parseUsize ds with
    | none => rfl
    | some n =>
      simp only [Res.bind_ok]
      cases hpr : parseRows (oddElems (splitBar t)) 0 {} with
      | none =>
        cases h1 : ([side] != "s".toList) <;> simp [h1, ofOutcome, Res.bind]
      | some cs =>
        have hside : (bif ([side] != "s".toList) then (Res.ok ([side] != "b".toList) : Res Bool) else Res.ok false) =
            Res.ok (side != 's' && side != 'b') := by
          by_cases e1 : side = 's'
          · subst e1; rfl
          · by_cases e2 : side = 'b'
            · subst e2; rfl
            · have a1 : ([side] != "s".toList) = true := by
                simp only [bne_iff_ne, ne_eq]; intro h; apply e1; simpa using h
              have a2 : ([side] != "b".toList) = true := by
                simp only [bne_iff_ne, ne_eq]; intro h; apply e2; simpa using h
              have b1 : (side != 's') = true := by simpa using e1
              have b2 : (side != 'b') = true := by simpa using e2
              rw [a1, a2, b1, b2]; rfl
        simp only [hside, Res.bind_ok, tup, piece_board_new, from_piece_board_eq, hstep0, hsv, Res.guard_false,
          play_phase_initial, game_state_new, PieceBoard_piece_board]
        rfl

end Arimaa.RsAgree
