import Arimaa.Lemmas.Dirs

/-!
Piece types read through the generated tables: `piece_type_at_bit`, `lesser_pieces`,
`piece_type_at_square`, under well-formedness.
-/
namespace Arimaa
open Gen Spec

theorem and_sqBit_ne_zero (x : BB) (j : Nat) (hj : j < 64) : ((x &&& sqBit j) != 0) = bit x j := by
  cases hb : bit x j
  · have : x &&& sqBit j = 0 := by
      apply bb_ext; intro i hi
      rw [bit_and, sqBit_bit]
      by_cases e : i = j
      · subst e; simp [hb]
      · simp [e]
    simp [this]
  · have : x &&& sqBit j ≠ 0 := by
      rw [bb_ne_zero_iff]
      exact ⟨j, hj, by rw [bit_and, sqBit_bit]; simp [hb, hj]⟩
    have h2 : ¬ (x &&& sqBit j = 0#64) := this
    simp [h2]

theorem sqBit_and_ne_zero (x : BB) (j : Nat) (hj : j < 64) : ((sqBit j &&& x) != 0) = bit x j := by
  rw [BitVec.and_comm]; exact and_sqBit_ne_zero x j hj

/-- the type bits at `j` in terms of `typeAt` under exclusivity -/
theorem typeAt_some_bits (b : Board) (hw : WF b) (j : Nat) (hj : j < 64) (t : Piece)
    (ht : typeAt b j = some t) : ∀ f : Piece, bit (b.typeBits f) j = decide (f = t) := by
  have hx := hw.excl j hj
  intro f
  unfold typeAt at ht
  revert hx ht
  cases f <;> simp only [Board.typeBits] <;>
  cases bit b.elephants j <;> cases bit b.camels j <;> cases bit b.horses j <;>
    cases bit b.dogs j <;> cases bit b.cats j <;> cases bit b.rabbits j <;>
    simp <;> intro h <;> (try subst h) <;> simp_all

theorem typeAt_none_bits (b : Board) (j : Nat) (ht : typeAt b j = none) :
    ∀ f : Piece, bit (b.typeBits f) j = false := by
  intro f
  unfold typeAt at ht
  revert ht
  cases f <;> simp only [Board.typeBits] <;>
  cases bit b.elephants j <;> cases bit b.camels j <;> cases bit b.horses j <;>
    cases bit b.dogs j <;> cases bit b.cats j <;> cases bit b.rabbits j <;> simp

/-- `piece_type_at_bit` on the bit of an occupied square returns the type on that square -/
theorem pieceTypeAtBit_sqBit (b : Board) (hw : WF b) (j : Nat) (hj : j < 64) (t : Piece)
    (ht : typeAt b j = some t) : pieceTypeAtBit (sqBit j) b = t := by
  have hb := typeAt_some_bits b hw j hj t ht
  unfold pieceTypeAtBit
  simp only [pieceTypeAtBitChain, pieceTypeAtBitDefault, List.find?, and_sqBit_ne_zero _ j hj, hb]
  cases t <;> simp

/-- `lesser_pieces(p)` pointwise: the piece on `j` is strictly weaker than `p` -/
theorem lesserPieces_bit (b : Board) (hw : WF b) (p : Piece) (j : Nat) (hj : j < 64) :
    bit (GameState.lesserPieces p b) j =
      (match typeAt b j with
       | some t => Piece.lt t p
       | none => false) := by
  unfold GameState.lesserPieces
  cases ht : typeAt b j with
  | none =>
    have hb := typeAt_none_bits b j ht
    cases p <;> simp [lesserPiecesFields, List.foldl, bit_or, hb]
  | some t =>
    have hb := typeAt_some_bits b hw j hj t ht
    cases p <;> cases t <;> simp [lesserPiecesFields, List.foldl, bit_or, hb, Piece.lt, Piece.idx] <;> decide

theorem absBoard_eq_of_typeAt (b : Board) (j : Nat) (t : Piece) (ht : typeAt b j = some t) :
    absBoard b j = some ⟨bit b.p1 j, toSpec t⟩ := by
  unfold absBoard; rw [ht]

theorem typeAt_of_abs (b : Board) (j : Nat) (c : Cell) (hc : absBoard b j = some c) :
    ∃ t, typeAt b j = some t ∧ toSpec t = c.piece ∧ c.gold = bit b.p1 j := by
  unfold absBoard at hc
  cases ht : typeAt b j with
  | none => rw [ht] at hc; cases hc
  | some t => rw [ht] at hc; simp at hc; exact ⟨t, rfl, by rw [← hc], by rw [← hc]⟩

theorem str_eq_strength (b : Board) (j : Nat) (t : Piece) (ht : typeAt b j = some t) :
    str b j = (toSpec t).strength :=
  (abs_strength b j _ (absBoard_eq_of_typeAt b j t ht)).symm

/-- `piece_type_at_square` -/
theorem pieceTypeAtSquare_eq (b : Board) (hw : WF b) (j : Nat) (hj : j < 64) :
    b.pieceTypeAtSquare j = typeAt b j := by
  unfold Board.pieceTypeAtSquare
  rw [sqBit_and_ne_zero _ j hj, ← typeAt_isSome b hw j hj]
  cases ht : typeAt b j with
  | none => simp
  | some t => simp [pieceTypeAtBit_sqBit b hw j hj t ht]

end Arimaa
