import Arimaa.Lemmas.ConcCount
import Arimaa.Lemmas.ConcExact
import Arimaa.Lemmas.ConcExample

/-! The concrete instance of `Lemmas/ConcExample.lean` (two threads, one shared three-node history) is a
well-formed initial state in the sense of `Lemmas/ConcCount.lean`. -/

namespace Arimaa.Conc.Example
open Arimaa.Conc

theorem init_thread {t : Nat} {th : Thread} (h : init.threads[t]? = some th) :
    t < 2 ∧ th.rel = .idle ∧ th.loc.table = [] ∧ th.loc.actr = 0 := by
  match t, h with
  | 0, h => simp [init] at h; subst h; exact ⟨by omega, rfl, rfl, rfl⟩
  | 1, h => simp [init] at h; subst h; exact ⟨by omega, rfl, rfl, rfl⟩
  | t + 2, h => simp [init] at h

theorem fields0_cases {p : NodeId} {f : Fields} (h : fields0 p = some f) :
    (p = n0 ∧ f = ⟨7, none, 1⟩) ∨ (p = n1 ∧ f = ⟨8, some n0, 2⟩) ∨ (p = n2 ∧ f = ⟨9, some n1, 3⟩) := by
  simp only [fields0] at h
  split at h
  · rename_i hp; cases h; exact .inl ⟨hp, rfl⟩
  · split at h
    · rename_i hp; cases h; exact .inr (.inl ⟨hp, rfl⟩)
    · split at h
      · rename_i hp; cases h; exact .inr (.inr ⟨hp, rfl⟩)
      · cases h

theorem arena_pos_fresh (a i : Nat) :
    fields0 ⟨a + 1, i⟩ = none ∧ (arcs0 ⟨a + 1, i⟩).owners = [] ∧ (arcs0 ⟨a + 1, i⟩).freed = false := by
  simp [fields0, arcs0, n0, n1, n2]

theorem arcs0_not_freed (id : NodeId) : (arcs0 id).freed = false := by
  simp only [arcs0]
  split
  · rfl
  · split
    · rfl
    · split <;> rfl

/-- the hypothesis of `C18_no_live_node_freed` / `C18_interleaving` holds for the example -/
theorem init_wellFormed : WellFormed init := by
  refine ⟨?_, ?_, ?_, ?_, ?_, ?_⟩
  · intro t th h; exact (init_thread h).2.1
  · intro i id h
    match i, h with
    | 0, h => simp [init] at h; subst h; decide
    | i + 1, h => simp [init] at h
  · intro t th k id h hk
    rw [(init_thread h).2.2.1] at hk; cases hk
  · intro p f id hp hn _
    rcases fields0_cases hp with ⟨rfl, rfl⟩ | ⟨rfl, rfl⟩ | ⟨rfl, rfl⟩
    · cases hn
    · cases hn; decide
    · cases hn; decide
  · intro id h
    have := arcs0_not_freed id
    change (arcs0 id).freed = true at h
    rw [this] at h; cases h
  · intro t th i h _
    exact arena_pos_fresh t i

theorem arcs0_cases (id : NodeId) :
    (id = n0 ∧ (arcs0 id).owners = [.node n1]) ∨ (id = n1 ∧ (arcs0 id).owners = [.node n2]) ∨
    (id = n2 ∧ (arcs0 id).owners = [.root 0]) ∨ (arcs0 id).owners = [] := by
  simp only [arcs0]
  split
  · rename_i h; exact .inl ⟨h, rfl⟩
  · split
    · rename_i h; exact .inr (.inl ⟨h, rfl⟩)
    · split
      · rename_i h; exact .inr (.inr (.inl ⟨h, rfl⟩))
      · exact .inr (.inr (.inr rfl))

/-- … and so does the hypothesis of `C18_count_exact` -/
theorem init_wellFormedX : WellFormedX init := by
  refine { toWellFormed := init_wellFormed, nodup := ?_, onlyRefs := ?_, keysFunc := ?_, keysLt := ?_ }
  · intro id
    change (arcs0 id).owners.Nodup
    rcases arcs0_cases id with ⟨_, h⟩ | ⟨_, h⟩ | ⟨_, h⟩ | h <;> rw [h] <;> simp
  · intro id tok hm
    change tok ∈ (arcs0 id).owners at hm
    rcases arcs0_cases id with ⟨rfl, h⟩ | ⟨rfl, h⟩ | ⟨rfl, h⟩ | h <;> rw [h] at hm
    · simp at hm; subst hm
      exact .inr (.inr ⟨n1, ⟨8, some n0, 2⟩, rfl, by decide, rfl, by decide⟩)
    · simp at hm; subst hm
      exact .inr (.inr ⟨n2, ⟨9, some n1, 3⟩, rfl, by decide, rfl, by decide⟩)
    · simp at hm; subst hm
      exact .inl ⟨0, rfl, by decide⟩
    · cases hm
  · intro t th k x y h hk
    rw [(init_thread h).2.2.1] at hk; cases hk
  · intro t th h k id hk
    rw [(init_thread h).2.2.1] at hk; cases hk

end Arimaa.Conc.Example
