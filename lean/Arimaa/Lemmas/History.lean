import Arimaa.Lemmas.HashInv
import Arimaa.Lemmas.HashPlace
import Arimaa.Lemmas.Reach
import Arimaa.Props.C06

/-!
Ghost history of start-of-turn positions and the invariant `HistInv` that ties the engine's hash
bookkeeping (`hash`, `initHash`, `hist`, `trapped`) to it (used by `Props/C05.lean`, `Props/C06b.lean`).

* `zPos b side` : the hash a start-of-turn position has (`from_piece_board(b, side, 0)`).
* `pc b` : number of pieces (`popcount b.all`); a step never increases it, a capture decreases it.
* `turnStarts s0 as` : the exact (board, side) pairs at every start of turn of the game `as` from `s0`.
* `HistInv G s pp` : invariant, preserved by every action of the rule-only list.
-/
namespace Arimaa
open Gen Spec GameState

/-! ### hashes of start-of-turn positions -/

/-- hash of the start-of-turn position "board `b`, `side` to move" -/
def zPos (b : Board) (side : Bool) : BB := zFromPieceBoard b side 0

/-- `zPos` of a (board, side) pair -/
def zPosP (p : Board × Bool) : BB := zPos p.1 p.2

/-- `Zobrist::exclude_step` turns the from-scratch hash at `step` into the one at step 0 -/
theorem zExcludeStep_scratch (b : Board) (side : Bool) (step : Nat) :
    zExcludeStep (zFromPieceBoard b side step) step = zPos b side := by
  unfold zExcludeStep zPos
  rw [zFromPieceBoard_eq, zFromPieceBoard_eq]
  generalize Z_INITIAL = i; generalize stepValueAt step = v; generalize stepValueAt 0 = v'
  generalize boardPart b = x
  generalize (if side = true then (0 : BB) else Z_PLAYER_TO_MOVE) = t
  have : i ^^^ t ^^^ v ^^^ x ^^^ v' ^^^ v = (v ^^^ v) ^^^ (i ^^^ t ^^^ v' ^^^ x) := by ac_rfl
  rw [this]; simp

theorem zPass_zPos (b : Board) (side : Bool) (step : Nat) :
    zPass (zFromPieceBoard b side step) step = zPos b (!side) := zPass_scratch b side step

theorem zMovePiece_zPos (b nb : Board) (side newSide : Bool) (step : Nat) :
    zMovePiece (zFromPieceBoard b side step) side b step nb 0 newSide = zPos nb newSide :=
  zMovePiece_scratch b nb side newSide step 0

/-! ### material: `popcount all` along steps -/

/-- number of pieces on the board -/
def pc (b : Board) : Nat := popcount b.all

theorem popcount_eq_countP (x : BB) : popcount x = (List.range 64).countP (fun i => bit x i) := by
  unfold popcount squaresOf
  rw [← List.countP_eq_length_filter]
  rfl

theorem countP_balance (l : List Nat) (p p' : Nat → Bool) (sq j : Nat)
    (h : ∀ k ∈ l, (p' k).toNat + (if k = sq then 1 else 0) = (p k).toNat + (if k = j then 1 else 0)) :
    l.countP p' + l.count sq = l.countP p + l.count j := by
  induction l with
  | nil => simp
  | cons a l ih =>
    have h1 := h a (by simp)
    have h2 := ih (fun k hk => h k (by simp [hk]))
    rw [List.countP_cons, List.countP_cons, List.count_cons, List.count_cons]
    have e1 : (if (a == sq) = true then 1 else 0) = (if a = sq then 1 else 0) := by simp
    have e2 : (if (a == j) = true then 1 else 0) = (if a = j then 1 else 0) := by simp
    have e3 : (if p' a = true then 1 else 0) = (p' a).toNat := by cases p' a <;> rfl
    have e4 : (if p a = true then 1 else 0) = (p a).toNat := by cases p a <;> rfl
    rw [e1, e2, e3, e4]
    omega

theorem countP_lt_of_witness (l : List Nat) (p p' : Nat → Bool)
    (hsub : ∀ k ∈ l, p' k = true → p k = true) (k0 : Nat) (hk0 : k0 ∈ l) (h1 : p k0 = true)
    (h2 : p' k0 = false) : l.countP p' < l.countP p := by
  induction l with
  | nil => cases hk0
  | cons a l ih =>
    rw [List.countP_cons, List.countP_cons]
    have hsub' : ∀ k ∈ l, p' k = true → p k = true := fun k hk => hsub k (by simp [hk])
    rcases List.mem_cons.mp hk0 with rfl | hk
    · have := List.countP_mono_left (l := l) (p := p') (q := p) hsub'
      simp only [h1, h2, if_true, Bool.false_eq_true, if_false]
      omega
    · have := ih hsub' hk
      have ha := hsub a (by simp)
      cases hp' : p' a <;> cases hp : p a <;> simp_all <;> omega

/-- moving a piece onto an empty neighbour square keeps the number of pieces -/
theorem pc_movePiece (b : Board) (sq : Nat) (d : Dir) (j : Nat) (hsq : sq < 64)
    (hn : nbr sq (dirSpec d) = some j) (hempty : bit b.all j = false) (hocc : bit b.all sq = true) :
    pc (b.movePiece sq d) = pc b := by
  have hj := nbr_lt sq _ j hsq hn
  have hne := nbr_ne sq _ j hn
  unfold pc
  rw [popcount_eq_countP, popcount_eq_countP]
  have hb := countP_balance (List.range 64) (fun i => bit b.all i)
    (fun i => bit (b.movePiece sq d).all i) sq j (by
      intro k hk
      rw [List.mem_range] at hk
      obtain ⟨_, ha, _⟩ := movePiece_bits b sq d j hsq hn k hk
      simp only [ha]
      by_cases ekj : k = j
      · subst ekj
        rw [movedBit_dest sq k _ hne, hocc, hempty]
        simp [hne]
      · by_cases eks : k = sq
        · subst eks
          rw [movedBit_src k j _ hne, hocc]
          simp [ekj]
        · rw [movedBit_other sq j k _ ekj eks]
          simp [ekj, eks])
  have c1 : (List.range 64).count sq = 1 := by
    rw [List.nodup_range.count]; simp [hsq]
  have c2 : (List.range 64).count j = 1 := by
    rw [List.nodup_range.count]; simp [hj]
  omega

/-- removing the trapped pieces never adds a piece, and removes one if the flag is set -/
theorem pc_removeTrapped (b : Board) :
    pc (b.removeTrappedPieces).1 ≤ pc b ∧
      ((b.removeTrappedPieces).2 = true → pc (b.removeTrappedPieces).1 < pc b) := by
  unfold pc
  rw [popcount_eq_countP, popcount_eq_countP]
  have hsub : ∀ k ∈ List.range 64, bit (b.removeTrappedPieces).1.all k = true → bit b.all k = true := by
    intro k hk h
    rw [List.mem_range] at hk
    obtain ⟨_, ha, _⟩ := removeTrapped_bits b k hk
    simp only [ha, Bool.and_eq_true] at h
    exact h.1
  refine ⟨List.countP_mono_left hsub, ?_⟩
  intro hflag
  rw [removeTrapped_flag] at hflag
  have hne : b.trappedPieceBits ≠ 0 := by simpa using hflag
  obtain ⟨k, hk, hb⟩ := (bb_ne_zero_iff _).mp hne
  have ht := trapped_bit b k hk
  rw [hb] at ht
  have hall : bit b.all k = true := by
    cases h : bit b.all k
    · rw [h] at ht; simp at ht
    · rfl
  apply countP_lt_of_witness _ _ _ hsub k (List.mem_range.mpr hk) hall
  obtain ⟨_, ha, _⟩ := removeTrapped_bits b k hk
  simp only [ha, hb]; simp

/-- a step onto an empty neighbour square never adds a piece, and removes one if it captures -/
theorem pc_takeMove (b : Board) (sq : Nat) (d : Dir) (j : Nat) (hsq : sq < 64)
    (hn : nbr sq (dirSpec d) = some j) (hempty : bit b.all j = false) (hocc : bit b.all sq = true) :
    pc (b.takeMove sq d).1 ≤ pc b ∧ ((b.takeMove sq d).2 = true → pc (b.takeMove sq d).1 < pc b) := by
  unfold Board.takeMove
  rw [← pc_movePiece b sq d j hsq hn hempty hocc]
  exact pc_removeTrapped _

/-- the same for a step of the rule-only list of a state satisfying the play invariant -/
theorem pc_offered_step (s : GameState) (pp : PlayPhase) (h : PlayInv s pp) (sq : Nat) (d : Dir)
    (ha : Action.move sq d ∈ s.validActionsNoRep) :
    pc (s.board.takeMove sq d).1 ≤ pc s.board ∧
      ((s.board.takeMove sq d).2 = true → pc (s.board.takeMove sq d).1 < pc s.board) := by
  obtain ⟨hi, j, hn, _, hej, hocc⟩ := offered_step_facts s pp h sq d ha
  exact pc_takeMove s.board sq d j hi hn hej hocc

/-! ### the ghost history -/

/-- "this action, taken in `s`, ends the turn": a pass, or a step when three steps were made -/
def endsTurnAt (s : GameState) (a : Action) : Bool :=
  match s.phase with
  | .play pp => endsTurn pp a
  | .place => false

theorem endsTurnAt_play (s : GameState) (pp : PlayPhase) (hph : s.phase = .play pp) (a : Action) :
    endsTurnAt s a = endsTurn pp a := by
  unfold endsTurnAt; rw [hph]

/-- the position (board, side to move) of a state -/
def posOf (s : GameState) : Board × Bool := (s.board, s.p1Turn)

/-- one action on the ghost list: a turn-ending action appends the position it leads to -/
def ghostStep (s : GameState) (G : List (Board × Bool)) (a : Action) : List (Board × Bool) :=
  if endsTurnAt s a then G ++ [posOf (s.takeAction a)] else G

/-- re-run the actions from `s`, extending the list `G` of start-of-turn positions (oldest first) -/
def turnStartsFrom (s : GameState) (G : List (Board × Bool)) : List Action → List (Board × Bool)
  | [] => G
  | a :: as => turnStartsFrom (s.takeAction a) (ghostStep s G a) as

/-- the (board, side) at every start of turn of the game `as` played from `s0`, oldest first:
`s0`'s own position, then the position after every turn-ending action (so if the last action ended a
turn, the last entry is the current position) -/
def turnStarts (s0 : GameState) (as : List Action) : List (Board × Bool) :=
  turnStartsFrom s0 [posOf s0] as

/-- board of the last entry of a list of positions -/
def tsb (G : List (Board × Bool)) : Board :=
  match G.getLast? with
  | some p => p.1
  | none => default

/-- the board at the start of the current turn after the game `as` from `s0` -/
def turnStartBoard (s0 : GameState) (as : List Action) : Board := tsb (turnStarts s0 as)

theorem turnStartsFrom_snoc (s : GameState) (G : List (Board × Bool)) (as : List Action) (a : Action) :
    turnStartsFrom s G (as ++ [a]) = ghostStep (s.run as) (turnStartsFrom s G as) a := by
  induction as generalizing s G with
  | nil => rfl
  | cons b as ih => exact ih _ _

theorem turnStarts_nil (s0 : GameState) : turnStarts s0 [] = [posOf s0] := rfl

theorem turnStarts_snoc (s0 : GameState) (as : List Action) (a : Action) :
    turnStarts s0 (as ++ [a]) =
      if endsTurnAt (s0.run as) a then turnStarts s0 as ++ [posOf (s0.run (as ++ [a]))]
      else turnStarts s0 as := by
  unfold turnStarts
  rw [turnStartsFrom_snoc, ghostStep, run_append]
  rfl

theorem tsb_concat (G : List (Board × Bool)) (p : Board × Bool) : tsb (G ++ [p]) = p.1 := by
  unfold tsb; rw [List.getLast?_concat]

theorem offered_append (s : GameState) (as bs : List Action) :
    Offered s (as ++ bs) ↔ Offered s as ∧ Offered (s.run as) bs := by
  induction as generalizing s with
  | nil => simp [Offered]
  | cons a as ih => simp [Offered, ih, and_assoc]

/-! ### the invariant -/

/-- `HistInv G s pp`: `G` is the list of start-of-turn positions so far (oldest first, the last one
is the start of the current turn) and the state's hash bookkeeping describes it:
(i) `hash` is the from-scratch hash; (ii) `initHash` is the hash of the current turn's start;
(iii) `hist` lists, newest first, the hashes of a suffix `recent` of `G` — the positions since the
last capture — and is empty once a capture happened in the current turn (`trapped`); (iv) every
position of `G` outside `recent` has strictly more pieces than the current board, every position of
`recent` at least as many.  Also: the first board recorded for this turn is the last board of `G`. -/
structure HistInv (G : List (Board × Bool)) (s : GameState) (pp : PlayPhase) : Prop where
  inv : PlayInv s pp
  hash : s.hash = zFromPieceBoard s.board s.p1Turn pp.step
  last : G.getLast? = some (tsb G, s.p1Turn)
  init : pp.initHash = zPos (tsb G) s.p1Turn
  first : (pp.prev ++ [s.board]).head? = some (tsb G)
  split : ∃ old recent, G = old ++ recent ∧ pp.hist = (recent.map zPosP).reverse ∧
    (∀ p ∈ old, pc s.board < pc p.1) ∧ (∀ p ∈ recent, pc s.board ≤ pc p.1) ∧
    (pp.trapped = true → recent = [])

/-- a start state: play phase, step 0, fresh record whose only history entry is the state's hash,
which is the from-scratch hash (what `from_str` and the 32nd placement produce), board well-formed -/
structure StartOk (s0 : GameState) : Prop where
  wf : WF s0.board
  phase : s0.phase = .play (PlayPhase.initial s0.hash [s0.hash])
  hash : s0.hash = zPos s0.board s0.p1Turn

theorem histInv_start (s0 : GameState) (h : StartOk s0) :
    HistInv [posOf s0] s0 (PlayPhase.initial s0.hash [s0.hash]) := by
  refine ⟨⟨h.phase, h.wf, trivial, by simp [PlayPhase.initial, PlayPhase.step]⟩, h.hash, rfl, h.hash,
    rfl, [], [posOf s0], rfl, ?_, by simp, by simp [posOf], by simp [PlayPhase.initial]⟩
  simp [PlayPhase.initial, zPosP, posOf, ← h.hash]

theorem HistInv.tsb_mem {G : List (Board × Bool)} {s : GameState} {pp : PlayPhase}
    (h : HistInv G s pp) : (tsb G, s.p1Turn) ∈ G := List.mem_of_getLast? h.last

theorem HistInv.all_ge {G : List (Board × Bool)} {s : GameState} {pp : PlayPhase}
    (h : HistInv G s pp) : ∀ p ∈ G, pc s.board ≤ pc p.1 := by
  obtain ⟨old, recent, hG, _, ho, hr, _⟩ := h.split
  intro p hp
  rw [hG, List.mem_append] at hp
  rcases hp with hp | hp
  · exact Nat.le_of_lt (ho p hp)
  · exact hr p hp

theorem head?_snoc_snoc {α : Type} (l : List α) (a b : α) :
    (l ++ [a] ++ [b]).head? = (l ++ [a]).head? := by cases l <;> rfl

/-- an action of the rule-only list of a play-phase state is not a placement -/
theorem not_place_of_mem (s : GameState) (pp : PlayPhase) (hph : s.phase = .play pp) (p : Piece) :
    Action.place p ∉ s.validActionsNoRep := by
  intro ha
  unfold validActionsNoRep at ha
  cases hm : pp.pps.isMustCompletePush
  · rw [validActions__free s pp hph hm false] at ha
    simp only [Bool.false_eq_true, if_false, List.mem_append] at ha
    rcases ha with ha | ha
    · have := isMove_of_mem_stepList s pp _ ha
      simp [Action.isMove] at this
    · cases s.canPass false <;> simp at ha
  · rw [validActions__mcp s pp hph hm false] at ha
    simp only [Bool.false_eq_true, if_false] at ha
    have := isMove_of_mem_mustCompletePushActions s pp s.board _ ha
    simp [Action.isMove] at this

theorem playInv_of_step (s : GameState) (pp : PlayPhase) (h : PlayInv s pp) (a : Action)
    (ha : a ∈ s.validActionsNoRep) (pp' : PlayPhase) (hph : (s.takeAction a).phase = .play pp') :
    PlayInv (s.takeAction a) pp' := by
  obtain ⟨pp1, h1⟩ := playInv_step s pp h a ha
  have := h1.phase
  rw [hph] at this
  injection this with this
  subst this
  exact h1

/-- **the invariant is preserved by every action of the rule-only list** -/
theorem histInv_step (G : List (Board × Bool)) (s : GameState) (pp : PlayPhase) (h : HistInv G s pp)
    (a : Action) (ha : a ∈ s.validActionsNoRep) :
    ∃ pp', HistInv (ghostStep s G a) (s.takeAction a) pp' := by
  have hph := h.inv.phase
  obtain ⟨old, recent, hG, hhist, hold, hrec, htr⟩ := h.split
  cases a with
  | place p => exact absurd ha (not_place_of_mem s pp hph p)
  | pass =>
    have hst : s.takeAction .pass = s.pass := rfl
    have hends : endsTurnAt s .pass = true := by rw [endsTurnAt_play s pp hph]; rfl
    have hpass := GameState.pass_play s pp hph
    have hb : s.pass.board = s.board := by rw [hpass]
    have ht : s.pass.p1Turn = !s.p1Turn := by rw [hpass]
    have hh : s.pass.hash = zPos s.board (!s.p1Turn) := by rw [hpass]; simp only; rw [h.hash, zPass_zPos]
    have hkeep : (if pp.trapped then [] else pp.hist) = pp.hist := by
      cases hT : pp.trapped
      · simp
      · rw [hhist, htr hT]; simp
    have hphase : s.pass.phase = .play (PlayPhase.initial s.pass.hash (s.pass.hash :: pp.hist)) := by
      rw [hpass]; simp only; rw [hkeep]
    have hgs : ghostStep s G .pass = G ++ [(s.board, !s.p1Turn)] := by
      unfold ghostStep; rw [hends, hst]; simp [posOf, hb, ht]
    rw [hst, hgs]
    refine ⟨_, playInv_of_step s pp h.inv .pass ha _ hphase, ?_, ?_, ?_, ?_, ?_⟩
    · rw [hh, hb, ht]; rfl
    · rw [List.getLast?_concat, tsb_concat, ht]
    · rw [tsb_concat, ht]; exact hh
    · rw [tsb_concat, hb]; rfl
    · refine ⟨old, recent ++ [(s.board, !s.p1Turn)], by rw [hG, List.append_assoc], ?_, ?_, ?_, ?_⟩
      · simp only [PlayPhase.initial, List.map_append, List.reverse_append, List.map_cons, List.map_nil,
          List.reverse_cons, List.reverse_nil, List.nil_append, List.cons_append]
        rw [hhist, hh]; rfl
      · rw [hb]; exact hold
      · rw [hb]
        intro p hp
        rw [List.mem_append] at hp
        rcases hp with hp | hp
        · exact hrec p hp
        · simp only [List.mem_singleton] at hp; subst hp; exact Nat.le_refl _
      · intro hT; simp [PlayPhase.initial] at hT
  | move sq d =>
    have hst : s.takeAction (.move sq d) = s.movePiece sq d := rfl
    obtain ⟨hle, hlt⟩ := pc_offered_step s pp h.inv sq d ha
    by_cases hstep : pp.step < 3
    · have hends : endsTurnAt s (.move sq d) = false := by
        rw [endsTurnAt_play s pp hph]; simp [endsTurn]; omega
      have hmv := movePiece_lt3 s pp sq d hph hstep
      have hb : (s.movePiece sq d).board = (s.board.takeMove sq d).1 := by rw [hmv]
      have ht : (s.movePiece sq d).p1Turn = s.p1Turn := by rw [hmv]
      have hh : (s.movePiece sq d).hash =
          zFromPieceBoard (s.board.takeMove sq d).1 s.p1Turn (pp.step + 1) := by
        rw [hmv]; simp only; rw [h.hash]; exact zMovePiece_scratch _ _ _ _ _ _
      have hphase : (s.movePiece sq d).phase = .play
          { initHash := pp.initHash
            pps := s.nextPushPullState pp sq d
            hist := if (s.board.takeMove sq d).2 then [] else pp.hist
            prev := pp.prev ++ [s.board]
            trapped := pp.trapped || (s.board.takeMove sq d).2 } := by rw [hmv]
      have hgs : ghostStep s G (.move sq d) = G := by unfold ghostStep; rw [hends]; rfl
      have hinv' := playInv_of_step s pp h.inv (.move sq d) ha _ hphase
      rw [hgs]
      refine ⟨_, hinv', ?_, ?_, ?_, ?_, ?_⟩
      · rw [hst, hh, hb, ht]
        simp [PlayPhase.step]
      · rw [hst, ht]; exact h.last
      · rw [hst, ht]; exact h.init
      · rw [hst, hb]
        simp only
        rw [head?_snoc_snoc]; exact h.first
      · rw [hst, hb]
        simp only
        cases hcap : (s.board.takeMove sq d).2
        · refine ⟨old, recent, hG, by simpa using hhist, ?_, ?_, by simpa using htr⟩
          · intro p hp; exact Nat.lt_of_le_of_lt hle (hold p hp)
          · intro p hp; exact Nat.le_trans hle (hrec p hp)
        · refine ⟨G, [], by simp, by simp, ?_, by simp, by simp⟩
          intro p hp
          exact Nat.lt_of_lt_of_le (hlt hcap) (h.all_ge p hp)
    · have hge : pp.step ≥ 3 := by omega
      have hends : endsTurnAt s (.move sq d) = true := by
        rw [endsTurnAt_play s pp hph]; simp [endsTurn]; omega
      have hmv := movePiece_ge3 s pp sq d hph hge
      have hz : zMovePiece s.hash s.p1Turn s.board pp.step (s.board.takeMove sq d).1 0 (!s.p1Turn) =
          zPos (s.board.takeMove sq d).1 (!s.p1Turn) := by rw [h.hash]; exact zMovePiece_zPos _ _ _ _ _
      rw [hz] at hmv
      have hb : (s.movePiece sq d).board = (s.board.takeMove sq d).1 := by rw [hmv]
      have ht : (s.movePiece sq d).p1Turn = !s.p1Turn := by rw [hmv]
      have hh : (s.movePiece sq d).hash = zPos (s.board.takeMove sq d).1 (!s.p1Turn) := by rw [hmv]
      have hphase : (s.movePiece sq d).phase = .play (PlayPhase.initial
          (zPos (s.board.takeMove sq d).1 (!s.p1Turn))
          (zPos (s.board.takeMove sq d).1 (!s.p1Turn) ::
            (if (s.board.takeMove sq d).2 then [] else pp.hist))) := by rw [hmv]
      have hgs : ghostStep s G (.move sq d) = G ++ [((s.board.takeMove sq d).1, !s.p1Turn)] := by
        unfold ghostStep; rw [hends, hst]; simp [posOf, hb, ht]
      have hinv' := playInv_of_step s pp h.inv (.move sq d) ha _ hphase
      rw [hgs]
      refine ⟨_, hinv', ?_, ?_, ?_, ?_, ?_⟩
      · rw [hst, hh, hb, ht]; rfl
      · rw [hst, ht, List.getLast?_concat, tsb_concat]
      · rw [hst, ht, tsb_concat]; rfl
      · rw [hst, hb, tsb_concat]; rfl
      · rw [hst, hb]
        cases hcap : (s.board.takeMove sq d).2
        · refine ⟨old, recent ++ [((s.board.takeMove sq d).1, !s.p1Turn)],
            by rw [hG, List.append_assoc], ?_, ?_, ?_, ?_⟩
          · simp only [PlayPhase.initial, List.map_append, List.reverse_append, List.map_cons,
              List.map_nil, List.reverse_cons, List.reverse_nil, List.nil_append, List.cons_append,
              Bool.false_eq_true, if_false]
            rw [hhist]; rfl
          · intro p hp; exact Nat.lt_of_le_of_lt hle (hold p hp)
          · intro p hp
            rw [List.mem_append] at hp
            rcases hp with hp | hp
            · exact Nat.le_trans hle (hrec p hp)
            · simp only [List.mem_singleton] at hp; subst hp; exact Nat.le_refl _
          · intro hT; simp [PlayPhase.initial] at hT
        · refine ⟨G, [((s.board.takeMove sq d).1, !s.p1Turn)], rfl, ?_, ?_, ?_, ?_⟩
          · simp [PlayPhase.initial, zPosP]
          · intro p hp
            exact Nat.lt_of_lt_of_le (hlt hcap) (h.all_ge p hp)
          · intro p hp
            simp only [List.mem_singleton] at hp; subst hp; exact Nat.le_refl _
          · intro hT; simp [PlayPhase.initial] at hT

/-- the invariant along a run of rule-only-list actions -/
theorem histInv_run (G : List (Board × Bool)) (s : GameState) (pp : PlayPhase) (h : HistInv G s pp)
    (as : List Action) (ho : OfferedNR s as) :
    ∃ pp', HistInv (turnStartsFrom s G as) (s.run as) pp' := by
  induction as generalizing s G pp with
  | nil => exact ⟨pp, h⟩
  | cons a as ih =>
    obtain ⟨pp1, h1⟩ := histInv_step G s pp h a ho.1
    exact ih _ _ pp1 h1 ho.2

theorem histInv_game (s0 : GameState) (h0 : StartOk s0) (as : List Action) (ho : OfferedNR s0 as) :
    ∃ pp, HistInv (turnStarts s0 as) (s0.run as) pp :=
  histInv_run _ s0 _ (histInv_start s0 h0) as ho

/-! ### the engine's tests against the ghost history -/

theorem histContainsTwice_iff (hist : List BB) (x : BB) :
    histContainsTwice hist x = true ↔ 2 ≤ hist.count x := by
  unfold histContainsTwice
  rw [List.count_eq_length_filter]
  simp

/-- equal positions have equal hashes: occurrences in `recent` are occurrences in the hash list -/
theorem count_le_hist (recent : List (Board × Bool)) (q : Board × Bool) :
    recent.count q ≤ ((recent.map zPosP).reverse).count (zPosP q) := by
  rw [List.count_reverse]; exact List.count_le_count_map

/-- the converse needs that no entry of `recent` collides with `q` -/
theorem hist_le_count (recent : List (Board × Bool)) (q : Board × Bool)
    (hinj : ∀ p ∈ recent, zPosP p = zPosP q → p = q) :
    ((recent.map zPosP).reverse).count (zPosP q) ≤ recent.count q := by
  rw [List.count_reverse, List.count, List.countP_map, List.count]
  apply List.countP_mono_left
  intro p hp hpq
  simp only [Function.comp, beq_iff_eq] at hpq
  simp [hinj p hp hpq]

/-- a position with at most as many pieces as the current board occurs in `G` only inside `recent` -/
theorem count_old_zero (old : List (Board × Bool)) (n : Nat) (hold : ∀ p ∈ old, n < pc p.1)
    (q : Board × Bool) (hq : pc q.1 ≤ n) : old.count q = 0 := by
  apply List.count_eq_zero_of_not_mem
  intro hm
  have := hold q hm
  omega

theorem endsTurn_move_step (pp : PlayPhase) (hle : pp.step ≤ 3) (sq : Nat) (d : Dir)
    (he : endsTurn pp (.move sq d) = true) : pp.step = 3 := by
  simp [endsTurn] at he; omega

/-- board and side after a turn-ending action -/
theorem result_pass (s : GameState) (pp : PlayPhase) (hph : s.phase = .play pp) :
    posOf (s.takeAction .pass) = (s.board, !s.p1Turn) := by
  show posOf s.pass = _
  rw [GameState.pass_play s pp hph]; rfl

theorem result_fourth (s : GameState) (pp : PlayPhase) (hph : s.phase = .play pp) (h3 : pp.step = 3)
    (sq : Nat) (d : Dir) :
    posOf (s.takeAction (.move sq d)) = ((s.board.takeMove sq d).1, !s.p1Turn) := by
  show posOf (s.movePiece sq d) = _
  rw [movePiece_ge3 s pp sq d hph (by omega)]; rfl

/-- **soundness of the engine's repetition test**: a turn-ending action of the rule-only list whose
result restores the turn-start board, or whose resulting position already occurred twice at a start
of turn, is withheld (needs only "equal positions have equal hashes") -/
theorem withheld_of_repeat (G : List (Board × Bool)) (s : GameState) (pp : PlayPhase)
    (h : HistInv G s pp) (a : Action) (ha : a ∈ s.validActionsNoRep) (he : endsTurn pp a = true)
    (hrep : (posOf (s.takeAction a)).1 = tsb G ∨ 2 ≤ G.count (posOf (s.takeAction a))) :
    s.withheld pp a = true := by
  have hph := h.inv.phase
  obtain ⟨old, recent, hG, hhist, hold, hrec, htr⟩ := h.split
  cases a with
  | place p => exact absurd ha (not_place_of_mem s pp hph p)
  | pass =>
    have hcf : s.canPass false = true := (pass_mem_validActions__iff s false).mp ha
    rw [withheld_pass, hcf]
    have hcf' := hcf
    rw [canPass_play s pp hph false] at hcf'
    simp only [Bool.not_false, Bool.true_or, Bool.and_true] at hcf'
    rw [canPass_play s pp hph true, hcf', h.hash, zExcludeStep_scratch, zPass_zPos, h.init]
    rw [result_pass s pp hph] at hrep
    rcases hrep with hrep | hrep
    · simp only at hrep
      rw [hrep]; simp
    · have h0 := count_old_zero old (pc s.board) hold (s.board, !s.p1Turn) (Nat.le_refl _)
      rw [hG, List.count_append, h0, Nat.zero_add] at hrep
      have h2 := Nat.le_trans hrep (count_le_hist recent _)
      rw [← hhist] at h2
      have := (histContainsTwice_iff _ _).mpr h2
      simp only [zPosP] at this
      rw [this]; simp
  | move sq d =>
    have h3 := endsTurn_move_step pp h.inv.step_le sq d he
    obtain ⟨hle, _⟩ := pc_offered_step s pp h.inv sq d ha
    rw [result_fourth s pp hph h3] at hrep
    simp only at hrep
    cases hT : pp.trapped
    · have hpl : s.isPassingLikeAction pp (.move sq d) = true := by
        unfold isPassingLikeAction
        simp only
        rw [h.hash, zMovePiece_zPos, zMovePiece_zPos, h.init]
        rcases hrep with hrep | hrep
        · rw [hrep]; simp
        · have h0 := count_old_zero old (pc s.board) hold ((s.board.takeMove sq d).1, !s.p1Turn) hle
          rw [hG, List.count_append, h0, Nat.zero_add] at hrep
          have h2 := Nat.le_trans hrep (count_le_hist recent _)
          rw [← hhist] at h2
          have := (histContainsTwice_iff _ _).mpr h2
          simp only [zPosP] at this
          rw [this]; simp
      simp [withheld, h3, hT, hpl]
    · exfalso
      have hrn := htr hT
      subst hrn
      rw [List.append_nil] at hG
      subst hG
      rcases hrep with hrep | hrep
      · have := hold _ h.tsb_mem
        simp only at this
        rw [← hrep] at this
        omega
      · have h0 := count_old_zero G (pc s.board) hold ((s.board.takeMove sq d).1, !s.p1Turn) hle
        omega

/-- **consequence for offered actions** (C05 at the level of one state) -/
theorem no_repeat_of_offered (G : List (Board × Bool)) (s : GameState) (pp : PlayPhase)
    (h : HistInv G s pp) (a : Action) (ha : a ∈ s.validActions) (he : endsTurn pp a = true) :
    (posOf (s.takeAction a)).1 ≠ tsb G ∧ G.count (posOf (s.takeAction a)) ≤ 1 := by
  obtain ⟨hin, hw⟩ := (C06_mem_iff s pp h.inv.phase a).mp ha
  constructor
  · intro hc
    rw [withheld_of_repeat G s pp h a hin he (Or.inl hc)] at hw
    cases hw
  · apply Classical.byContradiction
    intro hc
    rw [withheld_of_repeat G s pp h a hin he (Or.inr (by omega))] at hw
    cases hw

/-- **exactness under a no-collision hypothesis**: if no position of `G` has the hash of the
resulting board taken with either side to move (unless it IS that board with that side), then a
withheld turn-ending action restores the turn-start board or makes a third occurrence -/
theorem repeat_of_withheld (G : List (Board × Bool)) (s : GameState) (pp : PlayPhase)
    (h : HistInv G s pp) (a : Action) (he : endsTurn pp a = true)
    (hcf : ∀ p ∈ G, ∀ sd, zPos p.1 p.2 = zPos (posOf (s.takeAction a)).1 sd →
      p = ((posOf (s.takeAction a)).1, sd))
    (hw : s.withheld pp a = true) :
    (posOf (s.takeAction a)).1 = tsb G ∨ 2 ≤ G.count (posOf (s.takeAction a)) := by
  have hph := h.inv.phase
  obtain ⟨old, recent, hG, hhist, hold, hrec, htr⟩ := h.split
  have hcount : ∀ q : Board × Bool, q.1 = (posOf (s.takeAction a)).1 →
      2 ≤ pp.hist.count (zPosP q) → 2 ≤ G.count q := by
    intro q hq h2
    rw [hhist] at h2
    have := hist_le_count recent q (by
      intro p hp hpq
      have := hcf p (by rw [hG]; exact List.mem_append_right _ hp) q.2 (by rw [← hq]; exact hpq)
      rw [this, ← hq])
    rw [hG, List.count_append]
    omega
  cases a with
  | place p => simp [endsTurn] at he
  | pass =>
    obtain ⟨_, hm⟩ := (C06_withheld_pass_meaning s pp hph).mp hw
    have hres := result_pass s pp hph
    have hhash : (s.takeAction .pass).hash = zPos s.board (!s.p1Turn) := by
      show s.pass.hash = _
      rw [GameState.pass_play s pp hph]; simp only; rw [h.hash, zPass_zPos]
    rw [hres] at hcf ⊢
    simp only at hcf ⊢
    rcases hm with hm | hm
    · left
      rw [h.init, h.hash, zExcludeStep_scratch] at hm
      have := hcf _ h.tsb_mem s.p1Turn hm
      exact (congrArg Prod.fst this).symm
    · right
      rw [hhash] at hm
      refine hcount (s.board, !s.p1Turn) (by rw [hres]) ((histContainsTwice_iff _ _).mp hm)
  | move sq d =>
    have h3 := endsTurn_move_step pp h.inv.step_le sq d he
    obtain ⟨_, hm⟩ := (C06_withheld_step_meaning s pp hph h3 sq d).mp hw
    have hres := result_fourth s pp hph h3 sq d
    have hhash : (s.takeAction (.move sq d)).hash = zPos (s.board.takeMove sq d).1 (!s.p1Turn) := by
      show (s.movePiece sq d).hash = _
      rw [movePiece_ge3 s pp sq d hph (by omega)]; simp only; rw [h.hash, zMovePiece_zPos]
    rw [hres] at hcf ⊢
    simp only at hcf ⊢
    rcases hm with hm | hm
    · left
      rw [h.init, h.hash, zMovePiece_zPos] at hm
      have := hcf _ h.tsb_mem s.p1Turn hm.symm
      exact (congrArg Prod.fst this).symm
    · right
      rw [hhash] at hm
      refine hcount ((s.board.takeMove sq d).1, !s.p1Turn) (by rw [hres]) ((histContainsTwice_iff _ _).mp hm)

/-! ### the ghost turn-start board is the engine's own `piece_board_for_step(0)` -/

theorem pieceBoardForStep_aux (prev : List Board) (b x : Board)
    (hf : (prev ++ [b]).head? = some x) : (if 0 = prev.length then b else prev.getD 0 b) = x := by
  cases prev <;> simpa using hf

theorem HistInv.pieceBoardForStep_zero {G : List (Board × Bool)} {s : GameState} {pp : PlayPhase}
    (h : HistInv G s pp) : s.pieceBoardForStep 0 = tsb G := by
  unfold pieceBoardForStep
  rw [h.inv.phase]
  exact pieceBoardForStep_aux _ _ _ h.first

/-! ### the variant that never forgets the history -/

/-- the play-phase record with the full hash history (all of `G`) and the capture flag cleared -/
def neverForgetPP (pp : PlayPhase) (G : List (Board × Bool)) : PlayPhase :=
  { pp with hist := (G.map zPosP).reverse, trapped := false }

/-- the state as it would be if the engine never cleared `hash_history` at a capture (and hence
never needed `piece_trapped_this_turn`): same board, side, step, status, hash, turn-start hash -/
def neverForget (s : GameState) (pp : PlayPhase) (G : List (Board × Bool)) : GameState :=
  { s with phase := .play (neverForgetPP pp G) }

theorem HistInv.neverForget {G : List (Board × Bool)} {s : GameState} {pp : PlayPhase}
    (h : HistInv G s pp) : HistInv G (neverForget s pp G) (neverForgetPP pp G) := by
  refine ⟨⟨rfl, h.inv.wf, h.inv.pend, h.inv.step_le⟩, h.hash, h.last, h.init, h.first,
    [], G, rfl, rfl, by simp, h.all_ge, by simp [neverForgetPP]⟩

theorem validActionsNoRep_neverForget (s : GameState) (pp : PlayPhase) (hph : s.phase = .play pp)
    (G : List (Board × Bool)) : (neverForget s pp G).validActionsNoRep = s.validActionsNoRep := by
  have hc : (neverForget s pp G).canPass false = s.canPass false := by
    rw [canPass_play s pp hph, canPass_play (neverForget s pp G) (neverForgetPP pp G) rfl]; rfl
  unfold validActionsNoRep
  cases hm : pp.pps.isMustCompletePush
  · rw [validActions__free s pp hph hm, validActions__free (neverForget s pp G) (neverForgetPP pp G) rfl hm,
      hc]
    rfl
  · rw [validActions__mcp s pp hph hm, validActions__mcp (neverForget s pp G) (neverForgetPP pp G) rfl hm]
    rfl

theorem posOf_takeAction_neverForget (s : GameState) (pp : PlayPhase) (hph : s.phase = .play pp)
    (G : List (Board × Bool)) (a : Action) (hnp : a.isPlace = false) :
    posOf ((neverForget s pp G).takeAction a) = posOf (s.takeAction a) := by
  cases a with
  | place p => cases hnp
  | pass => simp [takeAction, pass, hph, neverForget, posOf]
  | move sq d =>
    by_cases h3 : 3 ≤ pp.prev.length <;>
      simp [takeAction, movePiece, hph, neverForget, neverForgetPP, posOf, PlayPhase.step, h3]

theorem withheld_false_of_not_endsTurn (s : GameState) (pp : PlayPhase) (a : Action)
    (he : endsTurn pp a = false) : s.withheld pp a = false := by
  cases a with
  | pass => cases he
  | place p => simp [withheld, isPassingLikeAction]
  | move sq d =>
    have : ¬ pp.step = 3 := by simp [endsTurn] at he; omega
    simp [withheld, this]

/-- no position of `G` has the hash of one of the boards `results` taken with either side to move,
unless it is that board with that side -/
def CollisionFree (G : List (Board × Bool)) (results : List Board) : Prop :=
  ∀ nb ∈ results, ∀ p ∈ G, ∀ sd, zPos p.1 p.2 = zPos nb sd → p = (nb, sd)

/-- the boards the turn-ending actions of the rule-only list lead to -/
def turnEndResults (s : GameState) (pp : PlayPhase) : List Board :=
  (s.validActionsNoRep.filter (endsTurn pp)).map (fun a => (s.takeAction a).board)

theorem mem_turnEndResults (s : GameState) (pp : PlayPhase) (a : Action)
    (ha : a ∈ s.validActionsNoRep) (he : endsTurn pp a = true) :
    (s.takeAction a).board ∈ turnEndResults s pp :=
  List.mem_map.mpr ⟨a, List.mem_filter.mpr ⟨ha, he⟩, rfl⟩

/-- `zPos` injective on boards × sides implies `CollisionFree` -/
theorem collisionFree_of_injective (G : List (Board × Bool)) (results : List Board)
    (hinj : ∀ b sd b' sd', zPos b sd = zPos b' sd' → b = b' ∧ sd = sd') : CollisionFree G results := by
  intro nb _ p _ sd h
  obtain ⟨h1, h2⟩ := hinj _ _ _ _ h
  exact Prod.ext h1 h2

/-- exactness at one state: withheld iff board-level repetition -/
theorem withheld_iff_repeat (G : List (Board × Bool)) (s : GameState) (pp : PlayPhase)
    (h : HistInv G s pp) (a : Action) (ha : a ∈ s.validActionsNoRep) (he : endsTurn pp a = true)
    (hcf : CollisionFree G (turnEndResults s pp)) :
    s.withheld pp a = true ↔
      ((posOf (s.takeAction a)).1 = tsb G ∨ 2 ≤ G.count (posOf (s.takeAction a))) :=
  ⟨repeat_of_withheld G s pp h a he (hcf _ (mem_turnEndResults s pp a ha he)),
    withheld_of_repeat G s pp h a ha he⟩

/-- forgetting at captures does not change the offered list (under `CollisionFree`) -/
theorem validActions_neverForget (G : List (Board × Bool)) (s : GameState) (pp : PlayPhase)
    (h : HistInv G s pp) (hcf : CollisionFree G (turnEndResults s pp)) :
    s.validActions = (neverForget s pp G).validActions := by
  have hph := h.inv.phase
  have h' := h.neverForget
  have hnr := validActionsNoRep_neverForget s pp hph G
  rw [C06_filter_shape s pp hph, C06_filter_shape _ _ h'.inv.phase, hnr]
  apply List.filter_congr
  intro a ha
  congr 1
  have hee : endsTurn (neverForgetPP pp G) a = endsTurn pp a := rfl
  cases he : endsTurn pp a
  · rw [withheld_false_of_not_endsTurn s pp a he,
      withheld_false_of_not_endsTurn (neverForget s pp G) (neverForgetPP pp G) a (hee.trans he)]
  · have hnp : a.isPlace = false := by
      cases a with
      | place p => cases he
      | _ => rfl
    have hres : turnEndResults (neverForget s pp G) (neverForgetPP pp G) = turnEndResults s pp := by
      unfold turnEndResults
      rw [hnr]
      apply List.map_congr_left
      intro b hb
      have hb' := (List.mem_filter.mp hb).2
      have hnp' : b.isPlace = false := by
        cases b with
        | place p => cases hb'
        | _ => rfl
      exact congrArg Prod.fst (posOf_takeAction_neverForget s pp hph G b hnp')
    have e1 := withheld_iff_repeat G s pp h a ha he hcf
    have e2 := withheld_iff_repeat G _ _ h' a (by rw [hnr]; exact ha) (hee.trans he)
      (by rw [hres]; exact hcf)
    rw [posOf_takeAction_neverForget s pp hph G a hnp] at e2
    rw [Bool.eq_iff_iff, e1, e2]

/-! ### run-level access, start states, a Boolean rendering of `Offered` for examples -/

theorem histInv_game_pp (s0 : GameState) (h0 : StartOk s0) (as : List Action) (ho : OfferedNR s0 as)
    (pp : PlayPhase) (hph : (s0.run as).phase = .play pp) :
    HistInv (turnStarts s0 as) (s0.run as) pp := by
  obtain ⟨pp', h⟩ := histInv_game s0 h0 as ho
  have := h.inv.phase
  rw [hph] at this
  injection this with this
  subst this
  exact h

/-- a successfully parsed position with a well-formed board is a start state -/
theorem startOk_of_parse (t : List Char) (s : GameState) (h : parseState t = .ok s) (hw : WF s.board) :
    StartOk s := by
  obtain ⟨h1, h2⟩ := parseState_ok t s h
  exact ⟨hw, h2, h1⟩

/-- the state after the 32nd offered placement is a start state, provided its hash is the
from-scratch hash (`C08_setup_eq_parse` gives this from its `PlaceReady` hypotheses) -/
theorem startOk_of_setup {ps : List Piece} {s : GameState} (hr : SetupRun ps s) (h32 : ps.length = 32)
    (hh : s.hash = zFromPieceBoard s.board s.p1Turn 0) : StartOk s := by
  obtain ⟨pp, hinv, _⟩ := playInv_of_setup hr h32
  obtain ⟨_, _, _, _, hp⟩ := setupRun_final hr h32
  exact ⟨hinv.wf, hp, hh⟩

/-! ### the end of setup is a start state (discharging `PlaceReady` from the setup invariants) -/

theorem placeReady_of_shape {k : Nat} {s : GameState} (h : SetupShape k s) : PlaceReady s := by
  obtain ⟨hpb, hsq, hq, hfree, _⟩ := C09_placement_bit h
  refine ⟨⟨by rw [hsq]; exact hq, by rw [hsq]; exact hpb⟩, ?_, ?_, ?_, ?_, ?_⟩
  · rw [hpb]
    apply bb_ext
    intro i hi
    rw [bit_and, sqBit_bit]
    by_cases e : i = placementSquare k
    · subst e; rw [hfree]; simp
    · simp [e]
  · intro g
    apply bb_ext
    intro i hi
    rw [bit_and, h.board.union]
    simp only [bit_or]
    cases g <;> simp only [Board.typeBits] <;>
      cases bit s.board.elephants i <;> cases bit s.board.camels i <;> cases bit s.board.horses i <;>
      cases bit s.board.dogs i <;> cases bit s.board.cats i <;> cases bit s.board.rabbits i <;> rfl
  · apply bb_ext
    intro i hi
    rw [bit_and]
    cases hp : bit s.board.p1 i
    · rfl
    · have := (h.board.p1_iff i hi).mp hp
      rw [(h.board.all_iff i hi).mpr (Or.inl this)]; rfl
  · intro he
    rw [hpb, ← sqBit_63] at he
    have := sqBit_inj _ _ hq he
    rw [placementSquare_eq_63 k h.lt] at this
    rw [h.turn, this]; rfl
  · intro he
    rw [hpb, ← sqBit_15] at he
    have := sqBit_inj _ _ hq he
    rw [placementSquare_eq_15 k h.lt] at this
    rw [h.turn, this]; rfl

/-- along the setup the hash is the setup-form from-scratch hash; after the 32nd placement it is
the play-form from-scratch hash -/
theorem setupRun_hash {ps : List Piece} {s : GameState} (hr : SetupRun ps s) :
    (ps.length < 32 → SetupHashOk s) ∧
      (ps.length = 32 → s.hash = zFromPieceBoard s.board true 0) := by
  induction hr with
  | init => exact ⟨fun _ => SetupHashOk_initial, fun h => by cases h⟩
  | @step ps s p hr _ ih =>
    rw [List.length_append, List.length_singleton]
    have key : ps.length < 32 →
        (ps.length ≠ 31 → SetupHashOk (s.place p)) ∧
        (ps.length = 31 → (s.place p).hash = zFromPieceBoard (s.place p).board true 0) := by
      intro hlt
      obtain ⟨hs, _, _⟩ := setupRun_shape hr hlt
      obtain ⟨hpb, _, hq, _, _⟩ := C09_placement_bit hs
      obtain ⟨h1, h2⟩ := SetupHashOk_place s (ih.1 hlt) (placeReady_of_shape hs) p
      have hiff : s.board.placementBit = LAST_P2_PLACEMENT_MASK ↔ ps.length = 31 := by
        rw [hpb, ← sqBit_15, ← placementSquare_eq_15 _ hlt]
        exact ⟨fun e => sqBit_inj _ _ hq e, fun e => by rw [e]⟩
      exact ⟨fun hne => (h1 (fun e => hne (hiff.mp e))).2, fun e => (h2 (hiff.mpr e)).2.1⟩
    exact ⟨fun h => (key (by omega)).1 (by omega), fun h => (key (by omega)).2 (by omega)⟩

/-- **the state after the 32nd offered placement is a start state** -/
theorem startOk_of_setupRun {ps : List Piece} {s : GameState} (hr : SetupRun ps s)
    (h32 : ps.length = 32) : StartOk s := by
  obtain ⟨_, _, ht, _, _⟩ := setupRun_final hr h32
  exact startOk_of_setup hr h32 (by rw [ht]; exact (setupRun_hash hr).2 h32)

def offeredB (s : GameState) : List Action → Bool
  | [] => true
  | a :: as => decide (a ∈ s.validActions) && offeredB (s.takeAction a) as

theorem offered_of_offeredB (s : GameState) (as : List Action) (h : offeredB s as = true) :
    Offered s as := by
  induction as generalizing s with
  | nil => trivial
  | cons a as ih =>
    simp only [offeredB, Bool.and_eq_true, decide_eq_true_eq] at h
    exact ⟨h.1, ih _ h.2⟩

/-- a decidable rendering of `WF` used only for examples -/
def wfCheck (b : Board) : Bool :=
  (List.range 64).all fun i =>
    decide ((bit b.elephants i).toNat + (bit b.camels i).toNat + (bit b.horses i).toNat +
      (bit b.dogs i).toNat + (bit b.cats i).toNat + (bit b.rabbits i).toNat ≤ 1) &&
    (bit b.all i == (bit b.elephants i || bit b.camels i || bit b.horses i || bit b.dogs i ||
      bit b.cats i || bit b.rabbits i)) &&
    (!bit b.p1 i || bit b.all i)

theorem wf_of_wfCheck (b : Board) (h : wfCheck b = true) : WF b := by
  unfold wfCheck at h
  rw [List.all_eq_true] at h
  refine ⟨fun i hi => ?_, fun i hi => ?_, fun i hi hp => ?_⟩ <;>
    have := h i (List.mem_range.2 hi) <;> simp_all

end Arimaa
