import Arimaa.Gen.RsBase
import Arimaa.Impl.Engine

/-!
Agreement of the REGENERATED model (`Gen/Rs.lean`, written by `tools/rs2lean2.py` from engine.rs and
zobrist.rs on every run) with the hand-written model (`Impl/*.lean`) that all property theorems are about.
Part 1: the functions that cannot panic.  A change of the Rust text of any of them changes `Gen/Rs.lean`
and the corresponding theorem here is re-checked against the new text.
-/
namespace Arimaa.RsAgree
open Arimaa Arimaa.Gen Arimaa.Gen.RsBase Arimaa.Rt

theorem blt_eq_decide (a b : Nat) : Nat.blt a b = decide (a < b) := by
  cases h : Nat.blt a b
  · have : ¬ a < b := by intro hlt; rw [Nat.blt_eq.mpr hlt] at h; cases h
    simp [this]
  · simp [Nat.blt_eq.mp h]

theorem ble_eq_decide (a b : Nat) : Nat.ble a b = decide (a ≤ b) := by
  cases h : Nat.ble a b
  · have : ¬ a ≤ b := by intro hle; rw [Nat.ble_eq.mpr hle] at h; cases h
    simp [this]
  · simp [Nat.ble_eq.mp h]

theorem bits_by_piece_type (b : Board) (p : Piece) :
    PieceBoardState_bits_by_piece_type b p = b.bitsByPieceType p := by
  cases p <;> rfl

theorem player_piece_mask (b : Board) (p1 : Bool) :
    PieceBoardState_player_piece_mask b p1 = b.playerPieceMask p1 := by
  cases p1 <;> rfl

theorem bits_for_piece (b : Board) (p : Piece) (p1 : Bool) :
    PieceBoardState_bits_for_piece b p p1 = b.bitsForPiece p p1 := by
  simp only [PieceBoardState_bits_for_piece, Board.bitsForPiece, bits_by_piece_type, Board.playerPieceMask,
    Bool.cond_eq_ite]

theorem animal_is_on_trap_eq (b : Board) : animal_is_on_trap b = animalIsOnTrap b := rfl

theorem supported_pieces_eq (x : BB) : supported_pieces x = supportedPieces x := rfl

theorem both_player_supported_pieces_eq (b : Board) :
    both_player_supported_pieces b = bothPlayerSupportedPieces b := rfl

theorem both_player_unsupported_piece_bits_eq (b : Board) :
    both_player_unsupported_piece_bits b = bothPlayerUnsupportedPieceBits b := rfl

theorem trapped_piece_bits (b : Board) : PieceBoardState_trapped_piece_bits b = b.trappedPieceBits := by
  simp only [PieceBoardState_trapped_piece_bits, Board.trappedPieceBits, Bool.cond_eq_ite, animal_is_on_trap_eq,
    both_player_unsupported_piece_bits_eq]

theorem piece_type_at_bit_eq (bit : BB) (b : Board) : piece_type_at_bit bit b = pieceTypeAtBit bit b := by
  unfold piece_type_at_bit pieceTypeAtBit
  simp only [pieceTypeAtBitChain, pieceTypeAtBitDefault, List.find?, Board.typeBits]
  generalize (b.rabbits &&& bit != 0) = c1
  generalize (b.elephants &&& bit != 0) = c2
  generalize (b.camels &&& bit != 0) = c3
  generalize (b.horses &&& bit != 0) = c4
  generalize (b.dogs &&& bit != 0) = c5
  cases c1 <;> cases c2 <;> cases c3 <;> cases c4 <;> cases c5 <;> rfl

theorem piece_board_new (p1 e m h d c r : BB) : PieceBoard_new p1 e m h d c r = Board.new p1 e m h d c r := rfl

theorem piece_board_initial : PieceBoard_initial = Board.empty := rfl

theorem shift_in_direction_eq (x : BB) (d : Dir) : shift_in_direction x d = shiftInDirection d x := by
  cases d <;> rfl

theorem shift_pieces_in_direction_eq (x : BB) (d : Dir) :
    shift_pieces_in_direction x d = shiftPiecesInDirection d x := by
  cases d <;> rfl

theorem shift_pieces_in_opp_direction_eq (x : BB) (d : Dir) :
    shift_pieces_in_opp_direction x d = shiftPiecesInOppDirection d x := by
  cases d <;> rfl

theorem shift_piece_in_direction_eq (x src : BB) (d : Dir) :
    shift_piece_in_direction x src d = shiftPieceInDirection x src d := by
  simp only [shift_piece_in_direction, shiftPieceInDirection, shift_in_direction_eq]

theorem remove_trapped_pieces (b : Board) :
    PieceBoard_remove_trapped_pieces b = (b.removeTrappedPieces.2, b.removeTrappedPieces.1) := by
  simp only [PieceBoard_remove_trapped_pieces, Board.removeTrappedPieces, trapped_piece_bits]
  cases h : (b.trappedPieceBits != 0) <;> simp [h]

theorem as_play_phase (s : GameState) : GameState_as_play_phase s = s.playPhase? := by
  unfold GameState_as_play_phase GameState.playPhase?
  cases s.phase <;> rfl

theorem play_phase_step (pp : PlayPhase) : PlayPhase_step pp = pp.step := rfl

theorem play_phase_initial (h : BB) (hist : List BB) : PlayPhase_initial h hist = PlayPhase.initial h hist := rfl

theorem is_must_complete_push (p : PPS) : PushPullState_is_must_complete_push p = p.isMustCompletePush := by
  cases p <;> rfl

theorem can_push (p : PPS) : PushPullState_can_push p = p.canPush := by
  cases p <;> rfl

theorem as_possible_pull (p : PPS) : PushPullState_as_possible_pull p =
    match p with
    | .possiblePull sq x => some (sq, x)
    | _ => none := by
  cases p <;> rfl

theorem is_their_piece (s : GameState) (bit : BB) (b : Board) :
    GameState_is_their_piece s bit b = s.isTheirPiece bit b := rfl

theorem game_state_piece_board (s : GameState) : GameState_piece_board s = s.board := rfl

theorem is_p1_turn_to_move (s : GameState) : GameState_is_p1_turn_to_move s = s.p1Turn := rfl

theorem move_number (s : GameState) : GameState_move_number s = s.moveNo := rfl

theorem is_play_phase (s : GameState) : GameState_is_play_phase s = s.isPlay := by
  unfold GameState_is_play_phase GameState.isPlay GameState.playPhase?
  cases s.phase <;> rfl

theorem game_state_initial : GameState_initial = GameState.initial := rfl

theorem game_state_eq (a b : GameState) : GameState_eq a b = (a.hash == b.hash) := rfl

/-- `impl Hash for GameState` (the hasher is the list of words written to it): exactly the board-state hash -/
theorem game_state_hash (s : GameState) (st : List BB) : GameState_hash s st = st ++ [s.hash] := rfl

theorem zobrist_board_state_hash (h : BB) : Zobrist_board_state_hash h = h := rfl

theorem hash_history_contains_hash_twice_eq (hist : List BB) (h : BB) :
    hash_history_contains_hash_twice hist h = GameState.histContainsTwice hist h := by
  simp only [hash_history_contains_hash_twice, GameState.histContainsTwice, ble_eq_decide]

theorem lesser_pieces (s : GameState) (p : Piece) (b : Board) :
    GameState_lesser_pieces s p b = GameState.lesserPieces p b := by
  cases p <;> simp [GameState_lesser_pieces, GameState.lesserPieces, lesserPiecesFields, List.foldl, Board.typeBits]

theorem opponent_piece_mask (s : GameState) (b : Board) :
    GameState_opponent_piece_mask s b = s.opponentPieceMask b := by
  simp only [GameState_opponent_piece_mask, GameState.opponentPieceMask, Bool.cond_eq_ite]

theorem curr_player_piece_mask (s : GameState) (b : Board) :
    GameState_curr_player_piece_mask s b = s.currPlayerPieceMask b := by
  simp only [GameState_curr_player_piece_mask, GameState.currPlayerPieceMask, Bool.cond_eq_ite]

theorem influenced_squares_eq (x : BB) : influenced_squares x = influencedSquares x := rfl

theorem threatened_pieces (s : GameState) (pred prey : BB) (b : Board) :
    GameState_threatened_pieces s pred prey b = GameState.threatenedPieces pred prey b := rfl

theorem curr_player_non_frozen_pieces (s : GameState) (b : Board) :
    GameState_curr_player_non_frozen_pieces s b = s.currPlayerNonFrozenPieces b := by
  simp only [GameState_curr_player_non_frozen_pieces, GameState.currPlayerNonFrozenPieces, opponent_piece_mask,
    threatened_pieces, supported_pieces_eq]

theorem can_move_in_direction_eq (d : Dir) (b : Board) : can_move_in_direction d b = canMoveInDirection d b := by
  simp only [can_move_in_direction, canMoveInDirection, shift_pieces_in_opp_direction_eq]

theorem invalid_rabbit_moves (s : GameState) (d : Dir) (b : Board) :
    GameState_invalid_rabbit_moves s d b = s.invalidRabbitMoves d b := by
  unfold GameState_invalid_rabbit_moves GameState.invalidRabbitMoves
  simp only [backwardDirP1, backwardDirP2]
  cases s.p1Turn <;> cases d <;> rfl

theorem rabbit_at_goal (s : GameState) (b : Board) : GameState_rabbit_at_goal s b = s.rabbitAtGoal b := by
  simp only [GameState_rabbit_at_goal, GameState.rabbitAtGoal, Bool.cond_eq_ite]

theorem lost_all_rabbits (s : GameState) (b : Board) : GameState_lost_all_rabbits s b = s.lostAllRabbits b := by
  simp only [GameState_lost_all_rabbits, GameState.lostAllRabbits, Bool.cond_eq_ite]

theorem squaresOf_zero : squaresOf 0#64 = [] := by
  unfold squaresOf
  rw [List.filter_eq_nil_iff]
  intro a _
  simp

theorem map_squares_guard (x : BB) (d : Dir) (acc : List Action) :
    (bif (x != 0) then acc ++ (squaresOf x).map (fun s => Action.move s d) else acc) =
      acc ++ (squaresOf x).map (Action.move · d) := by
  cases h : (x != 0)
  · have : x = 0#64 := by simpa using h
    subst this
    rw [squaresOf_zero]; simp
  · rfl

theorem extend_with_valid_curr_player_piece_moves (s : GameState) (acc : List Action) (b : Board) :
    GameState_extend_with_valid_curr_player_piece_moves s acc b = acc ++ s.ownMoves b := by
  simp only [GameState_extend_with_valid_curr_player_piece_moves, GameState.ownMoves, Dir_ALL, List.foldl,
    List.flatMap_cons, List.flatMap_nil, map_squares_guard, curr_player_non_frozen_pieces,
    can_move_in_direction_eq, invalid_rabbit_moves, List.append_assoc, List.append_nil]

theorem extend_with_push_piece_actions (s : GameState) (pp : PlayPhase) (acc : List Action) (b : Board)
    (h : s.phase = .play pp) :
    GameState_extend_with_push_piece_actions s acc b = acc ++ s.pushActions pp b := by
  simp only [GameState_extend_with_push_piece_actions, GameState.pushActions, as_play_phase,
    GameState.playPhase?, h, can_push, play_phase_step, curr_player_non_frozen_pieces, opponent_piece_mask,
    threatened_pieces, blt_eq_decide]
  cases hc : (pp.pps.canPush && decide (pp.step < 3))
  · simp
  · cases ht : (GameState.threatenedPieces (s.currPlayerNonFrozenPieces b) (s.opponentPieceMask b) b != 0)
    · simp
    · simp only [cond_true, if_true, Dir_ALL, List.foldl, List.flatMap_cons, List.flatMap_nil, map_squares_guard,
        can_move_in_direction_eq, List.append_assoc, List.append_nil]

theorem extend_with_push_piece_actions_place (s : GameState) (acc : List Action) (b : Board)
    (h : s.phase = .place) : GameState_extend_with_push_piece_actions s acc b = acc := by
  simp only [GameState_extend_with_push_piece_actions, as_play_phase, GameState.playPhase?, h]

theorem beq_zero_eq_popcount (x : BB) : (x == 0) = decide (popcount x < 1) := by
  unfold popcount
  by_cases hx : x = 0#64
  · subst hx; rw [squaresOf_zero]; rfl
  · have : squaresOf x ≠ [] := by
      intro h0
      apply hx
      apply BitVec.eq_of_getLsbD_eq
      intro i hi
      unfold squaresOf at h0
      rw [List.filter_eq_nil_iff] at h0
      have := h0 i (List.mem_range.mpr hi)
      simpa using this
    have hl : 0 < (squaresOf x).length := List.length_pos_iff.mpr this
    have h1 : (x == 0) = false := by simpa using hx
    rw [h1]
    symm
    simp only [decide_eq_false_iff_not]
    omega

theorem valid_placement (s : GameState) : GameState_valid_placement s = s.validPlacement := by
  simp only [GameState_valid_placement, GameState.validPlacement, placementTable, List.filterMap,
    game_state_piece_board, curr_player_piece_mask, Board.typeBits, beq_zero_eq_popcount, blt_eq_decide,
    Bool.cond_eq_ite, decide_eq_true_eq]
  by_cases h1 : popcount (s.board.elephants &&& s.currPlayerPieceMask s.board) < 1 <;>
  by_cases h2 : popcount (s.board.camels &&& s.currPlayerPieceMask s.board) < 1 <;>
  by_cases h3 : popcount (s.board.horses &&& s.currPlayerPieceMask s.board) < 2 <;>
  by_cases h4 : popcount (s.board.dogs &&& s.currPlayerPieceMask s.board) < 2 <;>
  by_cases h5 : popcount (s.board.cats &&& s.currPlayerPieceMask s.board) < 2 <;>
  by_cases h6 : popcount (s.board.rabbits &&& s.currPlayerPieceMask s.board) < 8 <;>
  simp only [h1, h2, h3, h4, h5, h6, if_true, if_false, List.nil_append, List.cons_append]

theorem play_phase_new (h : BB) (hist : List BB) (prev : List Board) (pps : PPS) (t : Bool) :
    PlayPhase_new h hist prev pps t = { prev := prev, pps := pps, initHash := h, hist := hist, trapped := t } := rfl

theorem play_phase_getters (pp : PlayPhase) :
    PlayPhase_previous_piece_boards pp = pp.prev ∧ PlayPhase_push_pull_state pp = pp.pps ∧
      PlayPhase_piece_trapped_this_turn pp = pp.trapped ∧ PlayPhase_hash_history pp = pp.hist :=
  ⟨rfl, rfl, rfl, rfl⟩

theorem game_state_new (p1 : Bool) (n : Nat) (ph : Phase) (b : Board) (h : BB) :
    GameState_new p1 n ph b h = { p1Turn := p1, moveNo := n, phase := ph, board := b, hash := h } := rfl

end Arimaa.RsAgree
