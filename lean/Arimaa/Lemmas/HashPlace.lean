import Arimaa.Lemmas.HashInv

/-!
The hash invariant in the setup phase (C08, placements): the incrementally maintained hash is
`INITIAL ^^^ side ^^^ boardPart board` (no step constant yet); the last placement adds the step
constant of step 0 and yields a play-phase state with the from-scratch hash.
-/
namespace Arimaa
open Gen

/-- setup-phase invariant: initial constant, side constant, pieces — no step constant -/
def SetupHashOk (s : GameState) : Prop :=
  s.hash = Z_INITIAL ^^^ (if s.p1Turn then 0 else Z_PLAYER_TO_MOVE) ^^^ boardPart s.board

/-- what `place` needs from the board (all of it follows from the setup invariants of C09/C10):
the placement bit is a single on-board bit, its square is empty, every type board and the gold
board lie inside `all`, and the side to move is the one whose home rows are being filled -/
structure PlaceReady (s : GameState) : Prop where
  single : sqOfBit s.board.placementBit < 64 ∧
    s.board.placementBit = sqBit (sqOfBit s.board.placementBit)
  free : s.board.all &&& s.board.placementBit = 0
  typesInAll : ∀ g : Piece, s.board.typeBits g &&& s.board.all = s.board.typeBits g
  p1InAll : s.board.p1 &&& s.board.all = s.board.p1
  turnP1 : s.board.placementBit = LAST_P1_PLACEMENT_MASK → s.p1Turn = true
  turnP2 : s.board.placementBit = LAST_P2_PLACEMENT_MASK → s.p1Turn = false

theorem mem_Piece_ALL (g : Piece) : g ∈ Piece_ALL := by cases g <;> decide

instance (s : GameState) : Decidable (PlaceReady s) :=
  decidable_of_iff
    ((sqOfBit s.board.placementBit < 64 ∧
        s.board.placementBit = sqBit (sqOfBit s.board.placementBit)) ∧
      s.board.all &&& s.board.placementBit = 0 ∧
      (∀ g ∈ Piece_ALL, s.board.typeBits g &&& s.board.all = s.board.typeBits g) ∧
      s.board.p1 &&& s.board.all = s.board.p1 ∧
      (s.board.placementBit = LAST_P1_PLACEMENT_MASK → s.p1Turn = true) ∧
      (s.board.placementBit = LAST_P2_PLACEMENT_MASK → s.p1Turn = false))
    ⟨fun ⟨a, b, c, d, e, f⟩ => ⟨a, b, fun g => c g (mem_Piece_ALL g), d, e, f⟩,
     fun h => ⟨h.single, h.free, fun g _ => h.typesInAll g, h.p1InAll, h.turnP1, h.turnP2⟩⟩

/-- the board after `place` -/
def placeBoard (b : Board) (p1Turn : Bool) (p : Piece) : Board :=
  let pb := b.placementBit
  let f := placeField p
  let add (g : Piece) (x : BB) : BB := if g = f then x ||| pb else x
  Board.new (b.p1 ||| (if p1Turn then pb else 0))
    (add .elephant b.elephants) (add .camel b.camels) (add .horse b.horses) (add .dog b.dogs)
    (add .cat b.cats) (add .rabbit b.rabbits)

theorem place_board (s : GameState) (p : Piece) : (s.place p).board = placeBoard s.board s.p1Turn p :=
  rfl

theorem placeBoard_typeBits (b : Board) (t : Bool) (p g : Piece) :
    (placeBoard b t p).typeBits g = if g = p then b.typeBits g ||| b.placementBit else b.typeBits g := by
  cases g <;> cases p <;> rfl

theorem placeBoard_p1 (b : Board) (t : Bool) (p : Piece) :
    (placeBoard b t p).p1 = b.p1 ||| (if t then b.placementBit else 0) := rfl

theorem new_typeBits_in_all (p1 e m h d c r : BB) (g : Piece) :
    (Board.new p1 e m h d c r).typeBits g &&& (Board.new p1 e m h d c r).all =
      (Board.new p1 e m h d c r).typeBits g := by
  apply bb_ext
  intro i _
  cases g <;> simp only [Board.new, Board.typeBits, bit_and, bit_or] <;>
    cases bit e i <;> cases bit m i <;> cases bit h i <;> cases bit d i <;> cases bit c i <;>
    cases bit r i <;> rfl

theorem placeBoard_typeBits_in_all (b : Board) (t : Bool) (p g : Piece) :
    (placeBoard b t p).typeBits g &&& (placeBoard b t p).all = (placeBoard b t p).typeBits g :=
  new_typeBits_in_all _ _ _ _ _ _ _ g

theorem bitsByPieceType_eq_hp (b : Board) (p : Piece) : b.bitsByPieceType p = b.typeBits p := by
  cases p <;> rfl

/-- pointwise form of `bits_for_piece` -/
theorem bitsForPiece_planeBit (b : Board) (p : Piece) (o : Bool) (i : Nat) (hi : i < 64) :
    bit (b.bitsForPiece p o) i =
      (bit (b.typeBits p) i && (if o then bit b.p1 i else (!bit b.p1 i && bit b.all i))) := by
  unfold Board.bitsForPiece Board.playerPieceMask
  rw [bitsByPieceType_eq_hp, bit_and]
  cases o
  · simp [bit_and, bit_not, hi]
  · simp

/-- `place` changes exactly the plane of the placed (owner, piece), exactly at the placement bit -/
theorem placeBoard_planes (b : Board) (t : Bool) (p : Piece)
    (hfree : b.all &&& b.placementBit = 0)
    (htypes : ∀ g : Piece, b.typeBits g &&& b.all = b.typeBits g)
    (hp1 : b.p1 &&& b.all = b.p1) (o : Bool) (g : Piece) :
    (placeBoard b t p).bitsForPiece g o =
      b.bitsForPiece g o ^^^ (if (o, g) = (t, p) then b.placementBit else 0) := by
  apply bb_ext
  intro i hi
  have h1 : (bit b.all i && bit b.placementBit i) = false := by
    rw [← bit_and, hfree]; simp
  have h2 : (bit (b.typeBits g) i && bit b.all i) = bit (b.typeBits g) i := by
    rw [← bit_and, htypes]
  have h3 : (bit b.p1 i && bit b.all i) = bit b.p1 i := by
    rw [← bit_and, hp1]
  have h4 : (bit ((placeBoard b t p).typeBits g) i && bit (placeBoard b t p).all i) =
      bit ((placeBoard b t p).typeBits g) i := by
    rw [← bit_and, placeBoard_typeBits_in_all]
  have h5 : bit (if (o, g) = (t, p) then b.placementBit else 0) i =
      (decide (o = t) && decide (g = p) && bit b.placementBit i) := by
    by_cases ho : o = t <;> by_cases hg : g = p <;> simp [ho, hg]
  rw [bit_xor, h5, bitsForPiece_planeBit _ _ _ _ hi, bitsForPiece_planeBit _ _ _ _ hi, placeBoard_p1] at *
  rw [placeBoard_typeBits] at h4 ⊢
  have h6 : bit (if g = p then b.typeBits g ||| b.placementBit else b.typeBits g) i =
      (bit (b.typeBits g) i || (decide (g = p) && bit b.placementBit i)) := by
    by_cases hg : g = p <;> simp [hg, bit_or]
  have h7 : bit (b.p1 ||| if t = true then b.placementBit else 0) i =
      (bit b.p1 i || (t && bit b.placementBit i)) := by
    cases t <;> simp [bit_or]
  rw [h6] at h4 ⊢
  rw [h7]
  generalize bit (placeBoard b t p).all i = A' at *
  generalize bit b.all i = A at *
  generalize bit b.placementBit i = P at *
  generalize bit (b.typeBits g) i = T at *
  generalize bit b.p1 i = G at *
  generalize decide (g = p) = e at *
  have h8 : decide (o = t) = (o == t) := by cases o <;> cases t <;> rfl
  rw [h8]
  clear h5 h6 h7 h8 hfree htypes hp1
  revert h1 h2 h3 h4
  revert o t A' A P T G e
  decide

end Arimaa

namespace Arimaa
open Gen

theorem boardPart_place (s : GameState) (hr : PlaceReady s) (p : Piece) :
    boardPart (s.place p).board =
      boardPart s.board ^^^ pieceValue (sqOfBit s.board.placementBit) p s.p1Turn := by
  rw [place_board]
  apply boardPart_plane_delta s.board _ s.p1Turn p _ hr.single.1
  · intro op hne
    rw [placeBoard_planes s.board s.p1Turn p hr.free hr.typesInAll hr.p1InAll, if_neg hne]
    simp
  · rw [placeBoard_planes s.board s.p1Turn p hr.free hr.typesInAll hr.p1InAll, if_pos rfl]
    exact congrArg _ hr.single.2

theorem lastMasks_ne : LAST_P1_PLACEMENT_MASK ≠ LAST_P2_PLACEMENT_MASK := by decide

theorem place_hash (s : GameState) (p : Piece) :
    (s.place p).hash = zPlacePiece s.hash p (sqOfBit s.board.placementBit) s.p1Turn
      (s.board.placementBit == LAST_P1_PLACEMENT_MASK) (s.board.placementBit == LAST_P2_PLACEMENT_MASK) :=
  rfl

theorem place_p1Turn (s : GameState) (p : Piece) :
    (s.place p).p1Turn = (if s.board.placementBit == LAST_P1_PLACEMENT_MASK then false
      else if s.board.placementBit == LAST_P2_PLACEMENT_MASK then true else s.p1Turn) := rfl

theorem place_phase (s : GameState) (p : Piece) :
    (s.place p).phase = (if s.board.placementBit == LAST_P2_PLACEMENT_MASK then
      .play (PlayPhase.initial (s.place p).hash [(s.place p).hash]) else .place) := rfl

/-- one placement: while setup continues the setup invariant is kept; the last placement
(`LAST_P2_PLACEMENT_MASK`) produces a play-phase state, Gold to move, step 0, carrying the
from-scratch hash of its board, with that hash as `initHash` and as the only history entry -/
theorem SetupHashOk_place (s : GameState) (hs : SetupHashOk s) (hr : PlaceReady s) (p : Piece) :
    (s.board.placementBit ≠ LAST_P2_PLACEMENT_MASK →
      (s.place p).phase = .place ∧ SetupHashOk (s.place p)) ∧
    (s.board.placementBit = LAST_P2_PLACEMENT_MASK →
      (s.place p).p1Turn = true ∧
      (s.place p).hash = zFromPieceBoard (s.place p).board true 0 ∧
      (s.place p).phase = .play (PlayPhase.initial (s.place p).hash [(s.place p).hash])) := by
  have hbp := boardPart_place s hr p
  unfold SetupHashOk at *
  rw [place_phase, place_p1Turn, place_hash, zFromPieceBoard_eq, hbp, hs]
  unfold zPlacePiece
  generalize pieceValue (sqOfBit s.board.placementBit) p s.p1Turn = pv
  generalize boardPart s.board = x
  generalize Z_INITIAL = i
  have hm : ∀ m : BB, i ^^^ m ^^^ x ^^^ m ^^^ pv = i ^^^ (x ^^^ pv) := by
    intro m
    have : i ^^^ m ^^^ x ^^^ m ^^^ pv = (m ^^^ m) ^^^ (i ^^^ (x ^^^ pv)) := by ac_rfl
    rw [this]; simp
  constructor
  · intro h2
    have h2' : (s.board.placementBit == LAST_P2_PLACEMENT_MASK) = false := by simpa using h2
    by_cases h1 : s.board.placementBit = LAST_P1_PLACEMENT_MASK
    · have h1' : (s.board.placementBit == LAST_P1_PLACEMENT_MASK) = true := by simpa using h1
      rw [h1', h2', hr.turnP1 h1]
      simp only [Bool.or_false, if_true, Bool.false_eq_true, if_false]
      refine ⟨trivial, ?_⟩
      simp only [bb_xor_zero]
      ac_rfl
    · have h1' : (s.board.placementBit == LAST_P1_PLACEMENT_MASK) = false := by simpa using h1
      rw [h1', h2']
      simp only [Bool.or_false, Bool.false_eq_true, if_false]
      refine ⟨trivial, ?_⟩
      simp only [bb_xor_zero]
      ac_rfl
  · intro h2
    have h1 : s.board.placementBit ≠ LAST_P1_PLACEMENT_MASK := by
      rw [h2]; exact lastMasks_ne.symm
    have h1' : (s.board.placementBit == LAST_P1_PLACEMENT_MASK) = false := by simpa using h1
    have h2' : (s.board.placementBit == LAST_P2_PLACEMENT_MASK) = true := by simpa using h2
    rw [h1', h2', hr.turnP2 h2]
    simp only [Bool.false_or, if_true, Bool.false_eq_true, if_false, bb_xor_zero]
    refine ⟨trivial, ?_, trivial⟩
    generalize stepValueAt 0 = v
    generalize Z_PLAYER_TO_MOVE = m
    rw [hm]
    ac_rfl

end Arimaa

namespace Arimaa
open Gen

theorem boardPart_empty : boardPart Board.empty = 0 := by decide +kernel

theorem SetupHashOk_initial : SetupHashOk GameState.initial := by
  unfold SetupHashOk
  show Z_INITIAL = Z_INITIAL ^^^ 0 ^^^ boardPart Board.empty
  rw [boardPart_empty]; simp

/-- a whole setup: from a state satisfying the setup invariant, a non-empty list of placements such
that `PlaceReady` holds before each of them and exactly the last one fills `LAST_P2_PLACEMENT_MASK`
ends in a play-phase state, Gold to move, with the from-scratch hash, `initHash` and history -/
theorem setup_run (ps : List Piece) : ∀ (s0 : GameState), SetupHashOk s0 → ps ≠ [] →
    (∀ k, k < ps.length → PlaceReady ((ps.take k).foldl GameState.place s0)) →
    (∀ k, k < ps.length →
      (((ps.take k).foldl GameState.place s0).board.placementBit = LAST_P2_PLACEMENT_MASK ↔
        k + 1 = ps.length)) →
    (ps.foldl GameState.place s0).p1Turn = true ∧
    (ps.foldl GameState.place s0).hash = zFromPieceBoard (ps.foldl GameState.place s0).board true 0 ∧
    (ps.foldl GameState.place s0).phase =
      .play (PlayPhase.initial (ps.foldl GameState.place s0).hash [(ps.foldl GameState.place s0).hash]) := by
  induction ps with
  | nil => intro _ _ h; exact absurd rfl h
  | cons p ps ih =>
    intro s0 hs _ hready hlast
    have hr0 : PlaceReady s0 := hready 0 (by simp)
    have hl0 := hlast 0 (by simp)
    simp only [List.take_zero, List.foldl_nil, List.length_cons] at hl0
    obtain ⟨hA, hB⟩ := SetupHashOk_place s0 hs hr0 p
    cases ps with
    | nil => exact hB (hl0.mpr rfl)
    | cons p' ps' =>
      have hne : s0.board.placementBit ≠ LAST_P2_PLACEMENT_MASK := by
        intro h; have := hl0.mp h; simp at this
      rw [List.foldl_cons]
      apply ih (s0.place p) (hA hne).2 (by simp)
      · intro k hk
        have := hready (k + 1) (by simpa using hk)
        simpa using this
      · intro k hk
        have := hlast (k + 1) (by simpa using hk)
        simpa using this

end Arimaa
