import Arimaa.Lemmas.RsAgreeBoard

/-!
Agreement of the regenerated model with the hand model: `piece_board_for_step`.
-/
namespace Arimaa.RsAgree
open Arimaa Arimaa.Gen Arimaa.Gen.RsBase Arimaa.Rt

theorem piece_board_for_step_eq (s : GameState) (i : Nat) :
    GameState_piece_board_for_step s i = Res.guard (s.pieceBoardForStepPanics i) (s.pieceBoardForStep i) := by
  unfold GameState_piece_board_for_step GameState.pieceBoardForStepPanics GameState.pieceBoardForStep
  cases hp : s.phase with
  | place => simp only [current_step_place s hp, Res.bind_panic]; rfl
  | play pp =>
    simp only [current_step_play s pp hp, Res.bind_ok, unwrap_play_phase s pp hp, index_eq _ _ s.board,
      bind_guard_ok]
    by_cases h : i = pp.step
    · simp [h, Res.guard, PieceBoard_piece_board]
    · have h' : (i == pp.step) = false := by simpa using h
      simp [h, h', Res.guard, PieceBoard_piece_board]

end Arimaa.RsAgree
