import Arimaa.Lemmas.Status
import Arimaa.Spec.Symmetry

/-!
Helper lemmas for the transfer of C11 from the specification to the implementation model: the
abstraction of a play-phase model state to a turn state of the specification machine
(`absState`), of a model action to an action of that machine (`absAct`), the statement that the
model's rule-only list and `takeAction` simulate the machine (`offered_iff_enabled`,
`absState_takeAction`), and the action of the symmetries on the model's directions and actions.
-/
namespace Arimaa
open Gen Spec GameState

/-- the turn state of the specification described by a play-phase model state -/
def absState (s : GameState) (pp : PlayPhase) : Spec.State :=
  ⟨absBoard s.board, s.p1Turn, pp.step, absPend pp.pps⟩

/-- the action of the specification machine named by a model action (placements have none) -/
def absAct : Action → Option Spec.Act
  | .move i d => some (.move i (dirSpec d))
  | .pass => some .pass
  | .place _ => none

/-- the symmetries on the model's directions -/
def Spec.Sym.idir : Spec.Sym → Arimaa.Dir → Arimaa.Dir
  | .mirror, .up => .up | .mirror, .right => .left | .mirror, .down => .down | .mirror, .left => .right
  | .swap, .up => .down | .swap, .right => .right | .swap, .down => .up | .swap, .left => .left
  | .both, .up => .down | .both, .right => .left | .both, .down => .up | .both, .left => .right

/-- the symmetries on the model's actions (setup placements are not actions of the play phase) -/
def Spec.Sym.iact (σ : Spec.Sym) : Action → Action
  | .move i d => .move (σ.sq i) (σ.idir d)
  | .pass => .pass
  | .place p => .place p

theorem dirSpec_idir (σ : Spec.Sym) (d : Dir) : dirSpec (σ.idir d) = σ.dir (dirSpec d) := by
  cases σ <;> cases d <;> rfl

theorem idir_idir (σ : Spec.Sym) (d : Dir) : σ.idir (σ.idir d) = d := by
  cases σ <;> cases d <;> rfl

theorem iact_iact (σ : Spec.Sym) (a : Action) : σ.iact (σ.iact a) = a := by
  cases a <;> simp only [Spec.Sym.iact, Spec.Sym.sq_sq, idir_idir]

theorem absAct_iact (σ : Spec.Sym) (a : Action) : absAct (σ.iact a) = (absAct a).map σ.act := by
  cases a <;> simp only [Spec.Sym.iact, absAct, Option.map, Spec.Sym.act, dirSpec_idir]

/-- in the play phase no placement is in the rule-only list -/
theorem place_not_mem_noRep (s : GameState) (pp : PlayPhase) (hph : s.phase = .play pp) (p : Piece) :
    Action.place p ∉ s.validActionsNoRep := by
  intro ha
  unfold validActionsNoRep at ha
  cases hm : pp.pps.isMustCompletePush
  · rw [validActions__free s pp hph hm false] at ha
    simp only [Bool.false_eq_true, if_false, List.mem_append] at ha
    rcases ha with ha | ha
    · have := isMove_of_mem_stepList s pp _ ha
      simp [Action.isMove] at this
    · cases s.canPass false <;> simp at ha
  · rw [validActions__mcp s pp hph hm false] at ha
    simp only [Bool.false_eq_true, if_false] at ha
    have := isMove_of_mem_mustCompletePushActions s pp s.board _ ha
    simp [Action.isMove] at this

/-- the pass is in the rule-only list exactly when the specification allows ending the turn -/
theorem pass_iff_passEnabled (s : GameState) (pp : PlayPhase) (hph : s.phase = .play pp) :
    Action.pass ∈ s.validActionsNoRep ↔ passEnabled pp.step (absPend pp.pps) = true := by
  unfold validActionsNoRep
  rw [pass_mem_validActions__iff, canPass_play s pp hph, passEnabled, absPend_isPush]
  simp

/-- **the rule-only list is the enabled set of the specification machine** -/
theorem offered_iff_enabled (s : GameState) (pp : PlayPhase) (h : PlayInv s pp) (a : Action) :
    a ∈ s.validActionsNoRep ↔ ∃ a', absAct a = some a' ∧ (absState s pp).enabled a' = true := by
  cases a with
  | place p =>
    constructor
    · intro ha; exact absurd ha (place_not_mem_noRep s pp h.phase p)
    · rintro ⟨a', ha', _⟩; simp only [absAct, reduceCtorEq] at ha'
  | pass =>
    rw [pass_iff_passEnabled s pp h.phase]
    constructor
    · intro hp; exact ⟨.pass, rfl, hp⟩
    · rintro ⟨a', ha', he⟩
      simp only [absAct, Option.some.injEq] at ha'
      subst ha'; exact he
  | move i d =>
    rw [enabled_iff s pp h.phase h.wf h.pend i d]
    constructor
    · rintro ⟨hi, he⟩
      refine ⟨.move i (dirSpec d), rfl, ?_⟩
      simp only [State.enabled, absState, hi, decide_true, Bool.true_and]; exact he
    · rintro ⟨a', ha', he⟩
      simp only [absAct, Option.some.injEq] at ha'
      subst ha'
      simpa only [State.enabled, absState, Bool.and_eq_true, decide_eq_true_eq] using he

/-- **`takeAction` on an offered action is the step of the specification machine** -/
theorem absState_takeAction (s : GameState) (pp : PlayPhase) (h : PlayInv s pp) (a : Action)
    (ha : a ∈ s.validActionsNoRep) (pp1 : PlayPhase) (h1 : (s.takeAction a).phase = .play pp1) :
    ∃ a', absAct a = some a' ∧ absState (s.takeAction a) pp1 = (absState s pp).next a' := by
  cases a with
  | place p => exact absurd ha (place_not_mem_noRep s pp h.phase p)
  | pass =>
    refine ⟨.pass, rfl, ?_⟩
    simp only [takeAction] at h1 ⊢
    rw [pass_play s pp h.phase] at h1 ⊢
    simp only [Phase.play.injEq] at h1
    subst h1
    rfl
  | move i d =>
    refine ⟨.move i (dirSpec d), rfl, ?_⟩
    obtain ⟨hi, j, hn, hj, hej, _⟩ := offered_step_facts s pp h i d ha
    obtain ⟨hab, _⟩ := abs_takeMove s.board h.wf i d j hi hn hej
    have hst := nextStatus_eq s pp h i d ha
    simp only [takeAction] at h1 ⊢
    by_cases hlt : pp.step < 3
    · rw [movePiece_lt3 s pp i d h.phase hlt] at h1 ⊢
      simp only [Phase.play.injEq] at h1
      subst h1
      simp only [absState, State.next, hab, hst, PlayPhase.step, List.length_append,
        List.length_cons, List.length_nil]
      unfold PlayPhase.step at hlt
      simp only [hlt, if_true]
    · rw [movePiece_ge3 s pp i d h.phase (by omega)] at h1 ⊢
      simp only [Phase.play.injEq] at h1
      subst h1
      simp only [absState, State.next, hlt, if_false, hab]
      rfl

/-- two play-phase model states describe turn states that are images of each other under `σ`:
image board, image side to move, the same step number, image push/pull status -/
structure SymRel (σ : Spec.Sym) (s : GameState) (pp : PlayPhase) (s' : GameState) (pp' : PlayPhase) :
    Prop where
  board : absBoard s'.board = σ.board (absBoard s.board)
  turn : s'.p1Turn = σ.col s.p1Turn
  step : pp'.step = pp.step
  pend : absPend pp'.pps = σ.pend (absPend pp.pps)

theorem symRel_iff (σ : Spec.Sym) (s : GameState) (pp : PlayPhase) (s' : GameState) (pp' : PlayPhase) :
    SymRel σ s pp s' pp' ↔ absState s' pp' = σ.state (absState s pp) := by
  simp only [absState, Spec.Sym.state, State.mk.injEq]
  exact ⟨fun h => ⟨h.board, h.turn, h.step, h.pend⟩, fun h => ⟨h.1, h.2.1, h.2.2.1, h.2.2.2⟩⟩

/-- a list of actions each of which is in the rule-only list of the state reached so far -/
def PlayableNoRep (s : GameState) : List Action → Prop
  | [] => True
  | a :: as => a ∈ s.validActionsNoRep ∧ PlayableNoRep (s.takeAction a) as

end Arimaa
