import Arimaa.Lemmas.RsAgreeGen
import Arimaa.Lemmas.RsAgreeRep

/-!
Agreement of the regenerated model with the hand model: `has_move`, `is_terminal`.
-/
namespace Arimaa.RsAgree
open Arimaa Arimaa.Gen Arimaa.Gen.RsBase Arimaa.Rt

theorem has_move_eq (s : GameState) (b : Board) :
    GameState_has_move s b = Res.guard (s.hasMovePanics b) (s.hasMove b) := by
  unfold GameState_has_move GameState.hasMovePanics GameState.hasMove
  cases hp : s.phase with
  | place => cases s.p1Turn <;> rfl
  | play pp =>
    simp only [is_must_complete_push, must_complete_push_actions_eq s pp hp, has_non_passing_like_action_eq s pp hp,
      can_pass_eq, extend_with_valid_curr_player_piece_moves, extend_with_pull_piece_actions_eq s pp hp,
      extend_with_push_piece_actions s pp _ _ hp, List.nil_append, Res.bind_guard]
    rcases Bool.eq_false_or_eq_true pp.pps.isMustCompletePush with h0 | h0
    rotate_left
    · simp only [h0, cond_false, Bool.false_eq_true, if_false]
      rcases Bool.eq_false_or_eq_true (s.canPassPanics true) with h1 | h1
      · simp [h1, Res.guard]
      · rcases Bool.eq_false_or_eq_true (s.canPass true) with h2 | h2
        · simp [h1, h2, Res.guard, Res.bind]
        · rcases Bool.eq_false_or_eq_true (s.hasNonPassingLikeActionPanics pp (s.ownMoves b)) with h3 | h3
          · simp [h1, h2, h3, Res.guard, Res.bind]
          · rcases Bool.eq_false_or_eq_true (s.hasNonPassingLikeAction pp (s.ownMoves b)) with h4 | h4
            · simp [h1, h2, h3, h4, Res.guard, Res.bind]
            · rcases Bool.eq_false_or_eq_true (GameState.pullExtendPanics pp) with h5 | h5
              · simp [h1, h2, h3, h4, h5, Res.guard, Res.bind]
              · rcases Bool.eq_false_or_eq_true
                  (s.hasNonPassingLikeActionPanics pp (s.pullExtend pp b [])) with h6 | h6
                · simp [h1, h2, h3, h4, h5, h6, Res.guard, Res.bind]
                · rcases Bool.eq_false_or_eq_true (s.hasNonPassingLikeAction pp (s.pullExtend pp b [])) with h7 | h7
                  · simp [h1, h2, h3, h4, h5, h6, h7, Res.guard, Res.bind]
                  · rcases Bool.eq_false_or_eq_true
                      (s.hasNonPassingLikeActionPanics pp (s.pushActions pp b)) with h8 | h8
                    · simp [h1, h2, h3, h4, h5, h6, h7, h8, Res.guard, Res.bind]
                    · simp [h1, h2, h3, h4, h5, h6, h7, h8, Res.guard, Res.bind]
                      cases s.hasNonPassingLikeAction pp (s.pushActions pp b) <;> cases s.p1Turn <;> rfl
    · simp only [h0, cond_true, if_true]
      rcases Bool.eq_false_or_eq_true (GameState.mustCompletePushActionsPanics pp) with h1 | h1
      · simp [h1, Res.guard, Res.bind]
      · rcases Bool.eq_false_or_eq_true
          (s.hasNonPassingLikeActionPanics pp (s.mustCompletePushActions pp b)) with h2 | h2
        · simp [h1, h2, Res.guard, Res.bind]
        · simp [h1, h2, Res.guard, Res.bind]
          cases s.hasNonPassingLikeAction pp (s.mustCompletePushActions pp b) <;> cases s.p1Turn <;> rfl

theorem is_terminal_eq (s : GameState) : GameState_is_terminal s = Res.guard s.isTerminalPanics s.isTerminal := by
  unfold GameState_is_terminal GameState.isTerminalPanics GameState.isTerminal
  rw [as_play_phase]
  unfold GameState.playPhase?
  cases hp : s.phase with
  | place => rfl
  | play pp =>
    simp only [game_state_piece_board, play_phase_step, blt_eq_decide, has_move_eq, rabbit_at_goal,
      lost_all_rabbits]
    by_cases h0 : pp.step > 0
    · simp [h0]
    · simp only [h0, decide_false, cond_false, if_false]
      cases h1 : s.rabbitAtGoal s.board with
      | some t => simp [Res.guard, Option.orElse]
      | none =>
        cases h2 : s.lostAllRabbits s.board with
        | some t => simp [Res.guard, Option.orElse]
        | none => simp [Option.orElse]

end Arimaa.RsAgree
