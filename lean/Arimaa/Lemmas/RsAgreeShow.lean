import Arimaa.Lemmas.RsAgreeBoard

/-!
Agreement of the regenerated model with the hand model: `Display for GameState` (display.rs) — the text the
regenerated `fmt` appends to the formatter is `showState` of `Impl/Text.lean`, and it never panics.
(`write!` / `writeln!` are rendered as appending the formatted pieces to the text written so far.)
-/
namespace Arimaa.RsAgree
open Arimaa Arimaa.Gen Arimaa.Gen.RsBase Arimaa.Rt

theorem is_p1_piece_eq (bit : BB) (b : Board) : is_p1_piece bit b = isP1Piece bit b := by
  simp only [is_p1_piece, isP1Piece, player_piece_mask]

theorem convert_piece_to_letter_eq (p : Piece) (g : Bool) : convert_piece_to_letter p g = [pieceToLetter p g] := by
  cases p <;> cases g <;> decide

theorem foldl_append_flatMap {α β : Type} (l : List α) (g : α → List β) (init : List β) :
    l.foldl (fun acc a => acc ++ g a) init = init ++ l.flatMap g := by
  induction l generalizing init with
  | nil => simp
  | cons a l ih => simp [List.foldl_cons, List.flatMap_cons, ih, List.append_assoc]

theorem range'_zero (n : Nat) : List.range' 0 (n - 0) = List.range n := by
  simp [List.range_eq_range']

/-- one cell -/
theorem fmt_cell (b : Board) (row col : Nat) (hr : row < 8) (hc : col < 8) (f : List Char) :
    Res.bind (Rt.mulUsize row BOARD_WIDTH) (fun t2 =>
      Res.bind (Rt.addUsize t2 col) (fun t3 =>
        Res.bind (PieceBoardState_piece_type_at_square b (t3 % 256)) (fun t4 =>
          Res.bind (match t4 with
            | some piece => Res.bind (Rt.asBitBoard (t3 % 256)) (fun t5 =>
                Res.ok (convert_piece_to_letter piece (is_p1_piece t5 b)))
            | _ => Res.ok (bif (((t3 % 256 == 18) || (t3 % 256 == 21)) || (t3 % 256 == 42)) || (t3 % 256 == 45)
                then ("x").toList else (" ").toList)) (fun letter =>
            Res.ok (f ++ (" ").toList ++ letter))))) =
      Res.ok (f ++ [' ', cellChar b (row * BOARD_WIDTH + col)]) := by
  have hm : Rt.mulUsize row BOARD_WIDTH = .ok (row * BOARD_WIDTH) := by
    unfold Rt.mulUsize BOARD_WIDTH Rt.usizeMax
    have : ¬ row * 8 > 2 ^ 64 - 1 := by omega
    simp [this]
  have ha : Rt.addUsize (row * BOARD_WIDTH) col = .ok (row * BOARD_WIDTH + col) := by
    unfold Rt.addUsize BOARD_WIDTH Rt.usizeMax
    have : ¬ row * 8 + col > 2 ^ 64 - 1 := by omega
    simp [this]
  have hidx : row * BOARD_WIDTH + col < 64 := by unfold BOARD_WIDTH; omega
  have hmod : (row * BOARD_WIDTH + col) % 256 = row * BOARD_WIDTH + col := by omega
  simp only [hm, ha, Res.bind_ok, hmod, piece_type_at_square, asBitBoard_eq]
  have hp : Board.pieceTypeAtSquarePanics b (row * BOARD_WIDTH + col) = false := by
    simp [Board.pieceTypeAtSquarePanics, sqBitPanics]; omega
  have hs : sqBitPanics (row * BOARD_WIDTH + col) = false := by simp [sqBitPanics]; omega
  simp only [hp, hs, Res.guard_false, Res.bind_ok]
  unfold cellChar
  cases hpt : b.pieceTypeAtSquare (row * BOARD_WIDTH + col) with
  | some p =>
    simp only [Res.bind_ok, convert_piece_to_letter_eq, is_p1_piece_eq]
    simp
  | none =>
    simp only [Res.bind_ok]
    generalize row * BOARD_WIDTH + col = idx
    have : displayTrapIdx.contains idx = ((((idx == 18) || (idx == 21)) || (idx == 42)) || (idx == 45)) := by
      simp only [displayTrapIdx, List.contains_cons, List.contains_nil, Bool.or_false, Bool.or_assoc]
    rw [this]
    cases ((((idx == 18) || (idx == 21)) || (idx == 42)) || (idx == 45)) <;> simp

/-- a loop over `0..8` whose body appends a piece of text that depends on the index only -/
theorem forM_append (g : Nat → List Char) (F : List Char → Nat → Res (List Char))
    (hF : ∀ st a, a < 8 → F st a = .ok (st ++ g a)) (L : List Nat) (hL : ∀ a ∈ L, a < 8) (init : List Char) :
    Rt.forM L init F = .ok (init ++ L.flatMap g) := by
  rw [Rt.forM_ok L init F (fun st a => st ++ g a) (fun st a ha => hF st a (hL a ha))]
  rw [foldl_append_flatMap]

theorem range8 (a : Nat) (h : a ∈ List.range' 0 (8 - 0)) : a < 8 := by
  rw [range'_zero] at h
  exact List.mem_range.mp h

/-- one row -/
theorem fmt_row (b : Board) (row : Nat) (hr : row < 8) (f : List Char) :
    Res.bind (Rt.subUsize BOARD_HEIGHT row) (fun t1 =>
      Res.bind (Rt.forM (List.range' (0, BOARD_WIDTH).1 ((0, BOARD_WIDTH).2 - (0, BOARD_WIDTH).1))
          (f ++ (toString t1).toList ++ ("|").toList) (fun f col_idx =>
        Res.bind (Rt.mulUsize row BOARD_WIDTH) (fun t2 =>
          Res.bind (Rt.addUsize t2 col_idx) (fun t3 =>
            Res.bind (PieceBoardState_piece_type_at_square b (t3 % 256)) (fun t4 =>
              Res.bind (match t4 with
                | some piece => Res.bind (Rt.asBitBoard (t3 % 256)) (fun t5 =>
                    Res.ok (convert_piece_to_letter piece (is_p1_piece t5 b)))
                | _ => Res.ok (bif (((t3 % 256 == 18) || (t3 % 256 == 21)) || (t3 % 256 == 42)) || (t3 % 256 == 45)
                    then ("x").toList else (" ").toList)) (fun letter =>
                Res.ok (f ++ (" ").toList ++ letter)))))))
        (fun f => Res.ok (f ++ (" |").toList ++ ['\n']))) =
      Res.ok (f ++ showRow b row) := by
  have hsub : Rt.subUsize BOARD_HEIGHT row = .ok (BOARD_HEIGHT - row) := by
    unfold Rt.subUsize BOARD_HEIGHT
    have : ¬ 8 < row := by omega
    simp [this]
  rw [hsub, Res.bind_ok]
  rw [forM_append (fun col => [' ', cellChar b (row * BOARD_WIDTH + col)])]
  rotate_left
  · exact fun st a ha => fmt_cell b row a hr ha st
  · exact range8
  simp only [Res.bind_ok]
  show Res.ok _ = Res.ok _
  congr 1
  unfold showRow natDigits
  have : List.range' (0, BOARD_WIDTH).1 ((0, BOARD_WIDTH).2 - (0, BOARD_WIDTH).1) = List.range BOARD_WIDTH :=
    range'_zero BOARD_WIDTH
  rw [this]
  simp [List.append_assoc]

theorem game_state_fmt (s : GameState) (f : List Char) : GameState_fmt s f = .ok (f ++ showState s) := by
  unfold GameState_fmt
  dsimp only
  rw [forM_append (showRow s.board)]
  rotate_left
  · exact fun st a ha => fmt_row s.board a ha st
  · exact range8
  simp only [Res.bind_ok, move_number, is_p1_turn_to_move]
  show Res.ok _ = Res.ok _
  congr 1
  unfold showState natDigits border
  have : List.range' 0 (8 - 0) = List.range BOARD_HEIGHT := range'_zero 8
  cases s.p1Turn <;> simp [List.append_assoc, this, BOARD_HEIGHT]

end Arimaa.RsAgree
