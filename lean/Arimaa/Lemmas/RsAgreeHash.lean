import Arimaa.Lemmas.RsAgreeBoard
import Arimaa.Lemmas.Xor

/-!
Agreement of the regenerated model with the hand model, part 3: the loops of zobrist.rs
(`piece_board_value`, `Zobrist::from_piece_board`, `Zobrist::move_piece`).
-/
namespace Arimaa.RsAgree
open Arimaa Arimaa.Gen Arimaa.Gen.RsBase Arimaa.Rt

/-- the innermost loop: XOR the table entries of the set bits of `x` into `v` -/
theorem xor_loop (x : BB) (p : Piece) (o : Bool) (v : BB) :
    Rt.forM (squaresOf x) v (fun value square => Res.bind (piece_value square p o) (fun t => Res.ok (value ^^^ t))) =
      Res.guard (xorOverPanics x p o) (v ^^^ xorOver x (fun sq => pieceValue sq p o)) := by
  rw [Rt.forM_guard (squaresOf x) v _ (fun sq => pieceValuePanics sq p o) (fun acc sq => acc ^^^ pieceValue sq p o)]
  · rw [foldl_xor_init]; rfl
  · intro s a _
    rw [piece_value_eq, bind_guard_ok]

theorem xor_loop_guarded (x : BB) (p : Piece) (o : Bool) (v : BB) :
    (bif (x != 0) then
        Rt.forM (squaresOf x) v (fun value square => Res.bind (piece_value square p o) (fun t => Res.ok (value ^^^ t)))
      else Res.ok v) =
      Res.guard (xorOverPanics x p o) (v ^^^ xorOver x (fun sq => pieceValue sq p o)) := by
  cases h : (x != 0)
  · have : x = 0#64 := by simpa using h
    subst this
    simp only [cond_false, xorOverPanics, xorOver]
    rw [RsAgree.squaresOf_zero]
    simp [Res.guard]
  · exact xor_loop x p o v

theorem piece_board_value_eq (prev new : Board) :
    piece_board_value prev new = Res.guard (pieceBoardValuePanics prev new) (pieceBoardValue prev new) := by
  unfold piece_board_value
  simp only [bits_for_piece, xor_loop_guarded]
  have inner : ∀ (o : Bool) (v : BB),
      Rt.forM Piece_ALL v (fun value piece =>
          Res.guard (xorOverPanics (prev.bitsForPiece piece o ^^^ new.bitsForPiece piece o) piece o)
            (value ^^^ xorOver (prev.bitsForPiece piece o ^^^ new.bitsForPiece piece o) (fun sq => pieceValue sq piece o))) =
        Res.guard (Piece_ALL.any fun piece =>
            xorOverPanics (prev.bitsForPiece piece o ^^^ new.bitsForPiece piece o) piece o)
          (Piece_ALL.foldl (fun value piece =>
            value ^^^ xorOver (prev.bitsForPiece piece o ^^^ new.bitsForPiece piece o) (fun sq => pieceValue sq piece o)) v) := by
    intro o v
    exact Rt.forM_guard _ _ _ _ _ (fun _ _ _ => rfl)
  simp only [inner]
  rw [Rt.forM_guard [true, false] 0 _ _ _ (fun _ _ _ => rfl)]
  apply guard_congr
  · simp [pieceBoardValuePanics, planes, Piece_ALL, List.any, Bool.or_assoc]
  · intro _
    simp [pieceBoardValue, planes, Piece_ALL, List.foldl]

theorem from_piece_board_eq (b : Board) (p1 : Bool) (step : Nat) :
    Zobrist_from_piece_board b p1 step = Res.guard (zFromPieceBoardPanics b step) (zFromPieceBoard b p1 step) := by
  unfold Zobrist_from_piece_board
  simp only [bits_for_piece, xor_loop, step_values_index, Res.bind_guard]
  have inner : ∀ (o : Bool) (v : BB),
      Rt.forM Piece_ALL v (fun value piece =>
          Res.guard (xorOverPanics (b.bitsForPiece piece o) piece o)
            (value ^^^ xorOver (b.bitsForPiece piece o) (fun sq => pieceValue sq piece o))) =
        Res.guard (Piece_ALL.any fun piece => xorOverPanics (b.bitsForPiece piece o) piece o)
          (Piece_ALL.foldl (fun value piece =>
            value ^^^ xorOver (b.bitsForPiece piece o) (fun sq => pieceValue sq piece o)) v) := by
    intro o v
    exact Rt.forM_guard _ _ _ _ _ (fun _ _ _ => rfl)
  simp only [inner]
  cases hs : stepValuePanics step
  · simp only [Bool.false_eq_true, if_false]
    rw [Rt.forM_guard [true, false] _ _ _ _ (fun _ _ _ => rfl)]
    apply guard_congr
    · simp [zFromPieceBoardPanics, hs, planes, Piece_ALL, List.any, Bool.or_assoc]
    · intro _
      cases p1 <;> simp [zFromPieceBoard, planes, Piece_ALL, List.foldl]
  · simp [zFromPieceBoardPanics, hs, Res.guard]

theorem zobrist_move_piece (h : BB) (s : GameState) (pp : PlayPhase) (hp : s.phase = .play pp)
    (nb : Board) (newStep : Nat) (newP1 : Bool) :
    Zobrist_move_piece h s nb newStep newP1 =
      Res.guard (zMovePiecePanics s.board pp.step nb newStep)
        (zMovePiece h s.p1Turn s.board pp.step nb newStep newP1) := by
  have hstep : GameState_current_step s = .ok pp.step := by
    rw [current_step]
    simp [GameState.stepPanics, GameState.unwrapPlayPhasePanics, GameState.isPlay, GameState.playPhase?, hp,
      GameState.step, Res.guard, PlayPhase.step]
  simp only [Zobrist_move_piece, is_p1_turn_to_move, game_state_piece_board, piece_board_value_eq, hstep,
    Res.bind_ok, step_value_eq, Res.bind_guard, zMovePiecePanics, zMovePiece]
  cases pieceBoardValuePanics s.board nb <;> cases stepValue2Panics pp.step newStep <;>
    cases (s.p1Turn != newP1) <;> rfl

end Arimaa.RsAgree
