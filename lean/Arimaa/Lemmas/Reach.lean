import Arimaa.Lemmas.Status
import Arimaa.Lemmas.Setup
import Arimaa.Props.C09

/-!
Reachability: action lists all of whose actions are offered, the play invariant along them, and
the end of setup as a starting point.
-/
namespace Arimaa
open Gen Spec GameState

/-- every action of the list is in the rule-only list of the state at which it is taken -/
def OfferedNR (s : GameState) : List Action → Prop
  | [] => True
  | a :: as => a ∈ s.validActionsNoRep ∧ OfferedNR (s.takeAction a) as

/-- every action of the list is offered (repetition rules on) where it is taken -/
def Offered (s : GameState) : List Action → Prop
  | [] => True
  | a :: as => a ∈ s.validActions ∧ Offered (s.takeAction a) as

theorem mem_validActions_noRep (s : GameState) (a : Action) (h : a ∈ s.validActions) :
    a ∈ s.validActionsNoRep := by
  cases hph : s.phase with
  | place => rw [validActions, validActions__place s hph] at h; rw [validActionsNoRep, validActions__place s hph]; exact h
  | play pp =>
    rw [validActions_filter_shape s pp hph] at h
    exact (List.mem_filter.mp h).1

theorem offered_offeredNR (s : GameState) (as : List Action) (h : Offered s as) : OfferedNR s as := by
  induction as generalizing s with
  | nil => trivial
  | cons a as ih => exact ⟨mem_validActions_noRep s a h.1, ih _ h.2⟩

theorem offeredNR_append (s : GameState) (as bs : List Action) :
    OfferedNR s (as ++ bs) ↔ OfferedNR s as ∧ OfferedNR (s.run as) bs := by
  induction as generalizing s with
  | nil => simp [OfferedNR]
  | cons a as ih => simp [OfferedNR, ih, and_assoc]

/-- **the play invariant holds at every state of an offered run** -/
theorem playInv_run (s : GameState) (pp : PlayPhase) (h : PlayInv s pp) (as : List Action)
    (ho : OfferedNR s as) : ∃ pp', PlayInv (s.run as) pp' := by
  induction as generalizing s pp with
  | nil => exact ⟨pp, h⟩
  | cons a as ih =>
    obtain ⟨pp1, h1⟩ := playInv_step s pp h a ho.1
    exact ih _ pp1 h1 ho.2

/-- a board of the setup shape is well-formed -/
theorem wf_of_union_disjoint (b : Board)
    (hu : b.all = b.elephants ||| b.camels ||| b.horses ||| b.dogs ||| b.cats ||| b.rabbits)
    (hd : ∀ t u, t ≠ u → b.typeBits t &&& b.typeBits u = 0)
    (hp : ∀ i, i < 64 → bit b.p1 i = true → bit b.all i = true) : WF b := by
  refine ⟨?_, ?_, hp⟩
  · intro i hi
    have d := fun t u (h : t ≠ u) => by
      have := hd t u h
      have h2 : bit (b.typeBits t &&& b.typeBits u) i = false := by rw [this]; simp
      rw [bit_and] at h2
      exact h2
    have d1 := d .elephant .camel (by decide)
    have d2 := d .elephant .horse (by decide)
    have d3 := d .elephant .dog (by decide)
    have d4 := d .elephant .cat (by decide)
    have d5 := d .elephant .rabbit (by decide)
    have d6 := d .camel .horse (by decide)
    have d7 := d .camel .dog (by decide)
    have d8 := d .camel .cat (by decide)
    have d9 := d .camel .rabbit (by decide)
    have d10 := d .horse .dog (by decide)
    have d11 := d .horse .cat (by decide)
    have d12 := d .horse .rabbit (by decide)
    have d13 := d .dog .cat (by decide)
    have d14 := d .dog .rabbit (by decide)
    have d15 := d .cat .rabbit (by decide)
    simp only [Board.typeBits] at d1 d2 d3 d4 d5 d6 d7 d8 d9 d10 d11 d12 d13 d14 d15
    revert d1 d2 d3 d4 d5 d6 d7 d8 d9 d10 d11 d12 d13 d14 d15
    cases bit b.elephants i <;> cases bit b.camels i <;> cases bit b.horses i <;>
      cases bit b.dogs i <;> cases bit b.cats i <;> cases bit b.rabbits i <;> simp
  · intro i _
    rw [hu]; simp only [bit_or]

/-- the state after the 32nd offered placement satisfies the play invariant -/
theorem playInv_of_setup {ps : List Piece} {s : GameState} (hr : SetupRun ps s) (h32 : ps.length = 32) :
    ∃ pp, PlayInv s pp ∧ pp.step = 0 := by
  obtain ⟨_, _, ⟨pp, hph, hstep, hpps, _, _⟩, _, _⟩ := C09_reachable_play hr h32
  obtain ⟨hall, hp1, hu, hd, _⟩ := C09_board_shape hr
  refine ⟨pp, ⟨hph, ?_, ?_, by omega⟩, hstep⟩
  · apply wf_of_union_disjoint _ hu hd
    intro i hi h
    exact (hall i hi).mpr (Or.inl ((hp1 i hi).mp h))
  · rw [hpps]; trivial

end Arimaa
