import Arimaa.Lemmas.SpecCapture
import Arimaa.Spec.Turns
import Arimaa.Spec.Symmetry

/-!
Pure specification lemmas relating the L2 step machine (`Spec.runTurn`) to the declarative L3
turn (`Spec.legalTurn`).  Nothing here mentions the implementation model.  All names live in `Arimaa.TurnLemmas`.
-/
namespace Arimaa.TurnLemmas
open Spec

/-! ### moving a piece and the capture rule, square by square -/

theorem move_src (b : Spec.Board) (i j : Nat) (h : i ≠ j) : move b i j i = none := by
  simp [move, h]

theorem move_dst (b : Spec.Board) (i j : Nat) : move b i j j = b i := by
  simp [move]

theorem move_other (b : Spec.Board) (i j k : Nat) (h1 : k ≠ i) (h2 : k ≠ j) : move b i j k = b k := by
  simp [move, h1, h2]

theorem capture_none (b : Spec.Board) (k : Nat) (h : b k = none) : capture b k = none := by
  unfold capture; rw [h]

theorem capture_keep (b : Spec.Board) (k : Nat) (c : Cell) (h : b k = some c)
    (hf : isTrap k = true → hasFriend b k c.gold = true) : capture b k = some c := by
  unfold capture
  rw [h]
  simp only
  split
  · rename_i hh
    simp only [Bool.and_eq_true, Bool.not_eq_eq_eq_not, Bool.not_true] at hh
    rw [hf hh.1] at hh
    exact absurd hh.2 (by decide)
  · rfl

theorem applyStep_eq (b : Spec.Board) (i j : Nat) (d : Spec.Dir) (hn : nbr i d = some j) :
    applyStep b i d = capture (move b i j) := by
  unfold applyStep; rw [hn]

theorem noHanging_applyStep (b : Spec.Board) (hb : NoHanging b) (i : Nat) (d : Spec.Dir) :
    NoHanging (applyStep b i d) := by
  unfold applyStep
  cases nbr i d with
  | none => exact hb
  | some j => exact noHanging_capture _

theorem hasFriend_iff (b : Spec.Board) (k : Nat) (g : Bool) :
    hasFriend b k g = true ↔ ∃ d f cf, nbr k d = some f ∧ b f = some cf ∧ cf.gold = g := by
  unfold hasFriend
  rw [nbAny_iff]
  constructor
  · rintro ⟨d, f, hn, ho⟩
    unfold ownedBy at ho
    cases hf : b f with
    | none => rw [hf] at ho; cases ho
    | some cf => rw [hf] at ho; exact ⟨d, f, cf, hn, hf, by simpa using ho⟩
  · rintro ⟨d, f, cf, hn, hf, hg⟩
    refine ⟨d, f, hn, ?_⟩
    unfold ownedBy; rw [hf]; simpa using hg

theorem hasStrongerEnemy_iff (b : Spec.Board) (x : Nat) (g : Bool) (s : Nat) :
    hasStrongerEnemy b x g s = true ↔
      ∃ d k ck, nbr x d = some k ∧ b k = some ck ∧ ck.gold ≠ g ∧ s < ck.piece.strength := by
  unfold hasStrongerEnemy
  rw [nbAny_iff]
  constructor
  · rintro ⟨d, k, hn, ho⟩
    cases hk : b k with
    | none => rw [hk] at ho; cases ho
    | some ck =>
      rw [hk] at ho
      simp only [Bool.and_eq_true, bne_iff_ne, ne_eq, decide_eq_true_eq] at ho
      exact ⟨d, k, ck, hn, hk, ho.1, ho.2⟩
  · rintro ⟨d, k, ck, hn, hk, hg, hs⟩
    refine ⟨d, k, hn, ?_⟩
    rw [hk]
    simp only [Bool.and_eq_true, bne_iff_ne, ne_eq, decide_eq_true_eq]
    exact ⟨hg, hs⟩

theorem hasPusher_iff (b : Spec.Board) (gold : Bool) (i : Nat) (s : Nat) :
    hasPusher b gold i s = true ↔
      ∃ d x cx, nbr i d = some x ∧ b x = some cx ∧ cx.gold = gold ∧ frozen b x = false ∧
        s < cx.piece.strength := by
  unfold hasPusher
  rw [nbAny_iff]
  constructor
  · rintro ⟨d, k, hn, ho⟩
    cases hk : b k with
    | none => rw [hk] at ho; cases ho
    | some ck =>
      rw [hk] at ho
      simp only [Bool.and_eq_true, beq_iff_eq, Bool.not_eq_true', decide_eq_true_eq] at ho
      exact ⟨d, k, ck, hn, hk, ho.1.1, ho.1.2, ho.2⟩
  · rintro ⟨d, k, ck, hn, hk, hg, hf, hs⟩
    refine ⟨d, k, hn, ?_⟩
    rw [hk]
    simp only [Bool.and_eq_true, beq_iff_eq, Bool.not_eq_true', decide_eq_true_eq]
    exact ⟨⟨hg, hf⟩, hs⟩

theorem frozen_some (b : Spec.Board) (x : Nat) (cx : Cell) (h : b x = some cx) :
    frozen b x = (!hasFriend b x cx.gold && hasStrongerEnemy b x cx.gold cx.piece.strength) := by
  unfold frozen; rw [h]

/-! ### the four kinds of step, as propositions -/

theorem ownStep_iff (b : Spec.Board) (gold : Bool) (i : Nat) (d : Spec.Dir) :
    ownStep b gold i d = true ↔
      ∃ c j, b i = some c ∧ nbr i d = some j ∧ c.gold = gold ∧ frozen b i = false ∧ b j = none ∧
        ¬ (c.piece = .rabbit ∧ d = backward gold) := by
  unfold ownStep
  cases hb : b i with
  | none => simp
  | some c =>
    cases hn : nbr i d with
    | none => simp
    | some j =>
      simp [Option.isNone_iff_eq_none, and_assoc]
      try (intros; by_cases hr : c.piece = Spec.Piece.rabbit <;> simp [hr])

theorem pushStart_iff (b : Spec.Board) (gold : Bool) (s i : Nat) (d : Spec.Dir) :
    pushStart b gold s i d = true ↔
      s < 3 ∧ ∃ c j, b i = some c ∧ nbr i d = some j ∧ c.gold ≠ gold ∧ b j = none ∧
        hasPusher b gold i c.piece.strength = true := by
  unfold pushStart
  cases hb : b i with
  | none => simp
  | some c =>
    cases hn : nbr i d with
    | none => simp
    | some j =>
      simp [Option.isNone_iff_eq_none, and_assoc]
      try (intros; by_cases hr : c.piece = Spec.Piece.rabbit <;> simp [hr])

theorem pullEnd_iff (b : Spec.Board) (gold : Bool) (q : Nat) (x : Spec.Piece) (e : Nat) (de : Spec.Dir) :
    pullEnd b gold (.pull q x) e de = true ↔
      ∃ ce, b e = some ce ∧ nbr e de = some q ∧ b q = none ∧ ce.gold ≠ gold ∧
        ce.piece.strength < x.strength := by
  unfold pullEnd
  cases hb : b e with
  | none => simp
  | some c =>
    cases hn : nbr e de with
    | none => simp
    | some j =>
      simp only [Bool.and_eq_true, bne_iff_ne, ne_eq, beq_iff_eq, Option.isNone_iff_eq_none,
        decide_eq_true_eq, Option.some.injEq, exists_eq_left']
      constructor
      · rintro ⟨⟨⟨h1, h2⟩, h3⟩, h4⟩; subst h2; exact ⟨rfl, h3, h1, h4⟩
      · rintro ⟨h2, h3, h1, h4⟩; subst h2; exact ⟨⟨⟨h1, rfl⟩, h3⟩, h4⟩

theorem pullEnd_none (b : Spec.Board) (gold : Bool) (i : Nat) (d : Spec.Dir) :
    pullEnd b gold .none i d = false := by
  unfold pullEnd; rfl

theorem pullEnd_push (b : Spec.Board) (gold : Bool) (q : Nat) (t : Spec.Piece) (i : Nat) (d : Spec.Dir) :
    pullEnd b gold (.push q t) i d = false := by
  unfold pullEnd; rfl

theorem pushEnd_iff (b : Spec.Board) (gold : Bool) (q : Nat) (v : Spec.Piece) (x : Nat) (dx : Spec.Dir) :
    pushEnd b gold (.push q v) x dx = true ↔
      ∃ cx, b x = some cx ∧ nbr x dx = some q ∧ b q = none ∧ cx.gold = gold ∧ frozen b x = false ∧
        v.strength < cx.piece.strength := by
  unfold pushEnd
  cases hb : b x with
  | none => simp
  | some c =>
    cases hn : nbr x dx with
    | none => simp
    | some j =>
      simp only [Bool.and_eq_true, beq_iff_eq, Option.isNone_iff_eq_none, Bool.not_eq_true',
        decide_eq_true_eq, Option.some.injEq, exists_eq_left']
      constructor
      · rintro ⟨⟨⟨⟨h1, h2⟩, h3⟩, h4⟩, h5⟩; subst h1; exact ⟨rfl, h2, h3, h4, h5⟩
      · rintro ⟨h1, h2, h3, h4, h5⟩; subst h1; exact ⟨⟨⟨⟨rfl, h2⟩, h3⟩, h4⟩, h5⟩

theorem strength_pos_not_rabbit (p : Spec.Piece) (n : Nat) (h : n < p.strength) : p ≠ .rabbit := by
  intro e; subst e; simp [Piece.strength] at h

/-! ### what one step does to the other pieces -/

/-- a piece seen after a step either is the piece that moved, on its destination, or stood there
before -/
theorem step_before (b : Spec.Board) (i j k : Nat) (c ck : Cell) (hi : b i = some c) (hj : b j = none)
    (h : capture (move b i j) k = some ck) : (k = j ∧ ck = c) ∨ (k ≠ i ∧ k ≠ j ∧ b k = some ck) := by
  have hij : i ≠ j := by intro e; rw [e, hj] at hi; cases hi
  have hm := (capture_some _ k ck h).1
  by_cases ekj : k = j
  · subst ekj
    rw [move_dst, hi] at hm
    exact Or.inl ⟨rfl, by cases hm; rfl⟩
  · by_cases eki : k = i
    · subst eki
      rw [move_src _ _ _ hij] at hm; cases hm
    · rw [move_other _ _ _ _ eki ekj] at hm
      exact Or.inr ⟨eki, ekj, hm⟩

theorem step_src_none (b : Spec.Board) (i j : Nat) (c : Cell) (hi : b i = some c) (hj : b j = none) :
    capture (move b i j) i = none := by
  have hij : i ≠ j := by intro e; rw [e, hj] at hi; cases hi
  exact capture_none _ _ (move_src _ _ _ hij)

/-- a step never removes a piece of the other colour (from a board without unsupported trap
pieces): its supporters are of its own colour and do not move -/
theorem other_survives (b : Spec.Board) (hb : NoHanging b) (i j k : Nat) (c ck : Cell) (hk : k < 64)
    (hi : b i = some c) (hj : b j = none) (hck : b k = some ck) (hcol : ck.gold ≠ c.gold) :
    capture (move b i j) k = some ck := by
  have eki : k ≠ i := by intro e; subst e; rw [hi] at hck; cases hck; exact hcol rfl
  have ekj : k ≠ j := by intro e; subst e; rw [hj] at hck; cases hck
  apply capture_keep
  · rw [move_other _ _ _ _ eki ekj]; exact hck
  · intro ht
    have hf := hb k ck hk hck ht
    rw [hasFriend_iff] at hf ⊢
    obtain ⟨d, f, cf, hn, hbf, hg⟩ := hf
    have efi : f ≠ i := by intro e; subst e; rw [hi] at hbf; cases hbf; exact hcol hg.symm
    have efj : f ≠ j := by intro e; subst e; rw [hj] at hbf; cases hbf
    exact ⟨d, f, cf, hn, by rw [move_other _ _ _ _ efi efj]; exact hbf, hg⟩

/-- neighbouring squares have opposite colour on the chequerboard -/
theorem nbr_parity (i j : Nat) (d : Spec.Dir) (h : nbr i d = some j) :
    (j / 8 + j % 8) % 2 ≠ (i / 8 + i % 8) % 2 := by
  cases d <;> simp only [nbr] at h <;> split at h <;> simp at h <;> omega

/-- three squares are never pairwise adjacent -/
theorem no_triangle (x i k : Nat) (d1 d2 d3 : Spec.Dir) (h1 : nbr x d1 = some i) (h2 : nbr x d2 = some k)
    (h3 : nbr k d3 = some i) : False := by
  have p1 := nbr_parity _ _ _ h1
  have p2 := nbr_parity _ _ _ h2
  have p3 := nbr_parity _ _ _ h3
  omega

/-! ### the pusher across the displacement of its victim

`b1 = capture (move b i j)` is the board after the enemy piece `c` on `i` has been displaced to
the empty square `j`; `x` holds a piece `cx` of the other colour that is stronger than `c`. -/

section Pusher
variable (b : Spec.Board) (hb : NoHanging b) (i j x : Nat) (c cx : Cell)
  (hx64 : x < 64) (hi : b i = some c) (hj : b j = none) (hx : b x = some cx)
  (hcol : cx.gold ≠ c.gold) (hs : c.piece.strength < cx.piece.strength)
include hb hx64 hi hj hx hcol

omit hx in
theorem friend_kept : hasFriend b x cx.gold = true → hasFriend (capture (move b i j)) x cx.gold = true := by
  intro h
  rw [hasFriend_iff] at h ⊢
  obtain ⟨d, f, cf, hn, hbf, hg⟩ := h
  exact ⟨d, f, cf, hn,
    other_survives b hb i j f c cf (nbr_lt x d f hx64 hn) hi hj hbf (by rw [hg]; exact hcol), hg⟩

omit hb hx64 hx in
theorem friend_before : hasFriend (capture (move b i j)) x cx.gold = true → hasFriend b x cx.gold = true := by
  intro h
  rw [hasFriend_iff] at h ⊢
  obtain ⟨d, f, cf, hn, hbf, hg⟩ := h
  rcases step_before b i j f c cf hi hj hbf with ⟨_, e⟩ | ⟨_, _, h3⟩
  · subst e; exact absurd hg.symm hcol
  · exact ⟨d, f, cf, hn, h3, hg⟩

include hs in
omit hb hx64 hx hcol in
theorem stronger_before :
    hasStrongerEnemy (capture (move b i j)) x cx.gold cx.piece.strength = true →
      hasStrongerEnemy b x cx.gold cx.piece.strength = true := by
  intro h
  rw [hasStrongerEnemy_iff] at h ⊢
  obtain ⟨d, k, ck, hn, hbk, hg, hst⟩ := h
  rcases step_before b i j k c ck hi hj hbk with ⟨_, e⟩ | ⟨_, _, h3⟩
  · subst e; omega
  · exact ⟨d, k, ck, hn, h3, hg, hst⟩

include hs in
omit hcol hx in
/-- needs that `x` is next to `i`: an enemy piece next to `x` that loses its last supporter `c`
would be next to `i` as well -/
theorem stronger_kept (dx : Spec.Dir) (hnx : nbr x dx = some i) :
    hasStrongerEnemy b x cx.gold cx.piece.strength = true →
      hasStrongerEnemy (capture (move b i j)) x cx.gold cx.piece.strength = true := by
  intro h
  rw [hasStrongerEnemy_iff] at h ⊢
  obtain ⟨d, k, ck, hn, hbk, hg, hst⟩ := h
  refine ⟨d, k, ck, hn, ?_, hg, hst⟩
  have hk64 := nbr_lt x d k hx64 hn
  have eki : k ≠ i := by intro e; subst e; rw [hi] at hbk; cases hbk; omega
  have ekj : k ≠ j := by intro e; subst e; rw [hj] at hbk; cases hbk
  apply capture_keep
  · rw [move_other _ _ _ _ eki ekj]; exact hbk
  · intro ht
    have hf := hb k ck hk64 hbk ht
    rw [hasFriend_iff] at hf ⊢
    obtain ⟨d', f, cf, hn', hbf, hg'⟩ := hf
    have efi : f ≠ i := by
      intro e; subst e
      exact no_triangle x f k dx d d' hnx hn hn'
    have efj : f ≠ j := by intro e; subst e; rw [hj] at hbf; cases hbf
    exact ⟨d', f, cf, hn', by rw [move_other _ _ _ _ efi efj]; exact hbf, hg'⟩

include hs in
/-- **the pusher survives the displacement**: still there, and not frozen if it was not -/
theorem pusher_survives (hfz : frozen b x = false) :
    capture (move b i j) x = some cx ∧ frozen (capture (move b i j)) x = false := by
  have h1 : capture (move b i j) x = some cx := other_survives b hb i j x c cx hx64 hi hj hx hcol
  refine ⟨h1, ?_⟩
  rw [frozen_some _ _ _ hx] at hfz
  rw [frozen_some _ _ _ h1]
  cases hf1 : hasFriend (capture (move b i j)) x cx.gold with
  | true => rfl
  | false =>
    cases hs1 : hasStrongerEnemy (capture (move b i j)) x cx.gold cx.piece.strength with
    | false => rfl
    | true =>
      exfalso
      have h2 := stronger_before b i j x c cx hi hj hs hs1
      rw [h2] at hfz
      cases hf0 : hasFriend b x cx.gold with
      | false => rw [hf0] at hfz; cases hfz
      | true =>
        have := friend_kept b hb i j x c cx hx64 hi hj hcol hf0
        rw [this] at hf1; cases hf1

end Pusher

/-- a piece that can complete the push after the displacement was an unfrozen stronger neighbour
before it -/
theorem pusher_before (b : Spec.Board) (hb : NoHanging b) (i j x : Nat) (c cx : Cell) (dx : Spec.Dir)
    (hx64 : x < 64) (hi : b i = some c) (hj : b j = none) (hnx : nbr x dx = some i)
    (hx1 : capture (move b i j) x = some cx) (hcol : cx.gold ≠ c.gold)
    (hs : c.piece.strength < cx.piece.strength) (hfz : frozen (capture (move b i j)) x = false) :
    b x = some cx ∧ frozen b x = false := by
  have hx : b x = some cx := by
    rcases step_before b i j x c cx hi hj hx1 with ⟨_, e⟩ | ⟨_, _, h3⟩
    · subst e; exact absurd rfl hcol
    · exact h3
  refine ⟨hx, ?_⟩
  rw [frozen_some _ _ _ hx1] at hfz
  rw [frozen_some _ _ _ hx]
  cases hf0 : hasFriend b x cx.gold with
  | true => rfl
  | false =>
    cases hs0 : hasStrongerEnemy b x cx.gold cx.piece.strength with
    | false => rfl
    | true =>
      exfalso
      have h2 := stronger_kept b hb i j x c cx hx64 hi hj hs dx hnx hs0
      rw [h2] at hfz
      cases hf1 : hasFriend (capture (move b i j)) x cx.gold with
      | false => rw [hf1] at hfz; cases hfz
      | true =>
        have := friend_before b i j x c cx hi hj hcol hf1
        rw [this] at hf0; cases hf0

/-! ### the machine run as a Boolean

`acc fin gold b step pend ms`: the moves `ms` are accepted from the turn state; with `fin = true`
also: no push is pending after the last of them. -/

def acc (fin gold : Bool) : Spec.Board → Nat → Pending → List Mv → Bool
  | _, _, pend, [] => !fin || !pend.isPush
  | b, step, pend, m :: ms =>
    decide (m.1 < 64) && enabledMove b gold step pend m.1 m.2 &&
      acc fin gold (applyStep b m.1 m.2) (step + 1) (nextPending b gold pend m.1 m.2) ms

theorem acc_eq_run (fin gold : Bool) : ∀ (ms : List Mv) (b : Spec.Board) (step : Nat) (pend : Pending),
    acc fin gold b step pend ms =
      match runTurn b gold step pend ms with
      | some p => !fin || !p.isPush
      | none => false := by
  intro ms
  induction ms with
  | nil => intro b step pend; rfl
  | cons m ms ih =>
    intro b step pend
    simp only [acc, runTurn]
    cases h : (decide (m.1 < 64) && enabledMove b gold step pend m.1 m.2) with
    | false => simp
    | true => simp [ih]

theorem acc_cons_iff (fin gold : Bool) (b : Spec.Board) (s : Nat) (p : Pending) (i : Nat) (d : Spec.Dir)
    (ms : List Mv) :
    acc fin gold b s p ((i, d) :: ms) = true ↔
      i < 64 ∧ enabledMove b gold s p i d = true ∧
        acc fin gold (applyStep b i d) (s + 1) (nextPending b gold p i d) ms = true := by
  simp only [acc, Bool.and_eq_true, decide_eq_true_eq, and_assoc]

theorem acc_nil_none (fin gold : Bool) (b : Spec.Board) (s : Nat) : acc fin gold b s .none [] = true := by
  simp [acc, Pending.isPush]

theorem acc_nil_pull (fin gold : Bool) (b : Spec.Board) (s q : Nat) (x : Spec.Piece) :
    acc fin gold b s (.pull q x) [] = true := by
  simp [acc, Pending.isPush]

theorem acc_nil_push (fin gold : Bool) (b : Spec.Board) (s q : Nat) (x : Spec.Piece) :
    acc fin gold b s (.push q x) [] = !fin := by
  simp [acc, Pending.isPush]

theorem enabledMove_none (b : Spec.Board) (gold : Bool) (s i : Nat) (d : Spec.Dir) :
    enabledMove b gold s .none i d = (ownStep b gold i d || pushStart b gold s i d) := by
  simp [enabledMove, Pending.isPush, pullEnd_none]

theorem enabledMove_pull (b : Spec.Board) (gold : Bool) (s i q : Nat) (x : Spec.Piece) (d : Spec.Dir) :
    enabledMove b gold s (.pull q x) i d =
      (ownStep b gold i d || pushStart b gold s i d || pullEnd b gold (.pull q x) i d) := by
  simp [enabledMove, Pending.isPush]

theorem enabledMove_push (b : Spec.Board) (gold : Bool) (s i q : Nat) (t : Spec.Piece) (d : Spec.Dir) :
    enabledMove b gold s (.push q t) i d = pushEnd b gold (.push q t) i d := by
  simp [enabledMove, Pending.isPush]

theorem ownStep_false_of_enemy (b : Spec.Board) (gold : Bool) (i : Nat) (d : Spec.Dir) (c : Cell)
    (hi : b i = some c) (hg : c.gold ≠ gold) : ownStep b gold i d = false := by
  cases h : ownStep b gold i d with
  | false => rfl
  | true =>
    obtain ⟨c', _, h1, _, h2, _⟩ := (ownStep_iff _ _ _ _).1 h
    rw [hi] at h1; cases h1; exact absurd h2 hg

theorem pushStart_false_of_friend (b : Spec.Board) (gold : Bool) (s i : Nat) (d : Spec.Dir) (c : Cell)
    (hi : b i = some c) (hg : c.gold = gold) : pushStart b gold s i d = false := by
  cases h : pushStart b gold s i d with
  | false => rfl
  | true =>
    obtain ⟨_, c', _, h1, _, h2, _⟩ := (pushStart_iff _ _ _ _ _).1 h
    rw [hi] at h1; cases h1; exact absurd hg h2

theorem no_move_of_empty (b : Spec.Board) (gold : Bool) (s i : Nat) (d : Spec.Dir) (hi : b i = none) :
    (ownStep b gold i d || pushStart b gold s i d) = false := by
  have h1 : ownStep b gold i d = false := by unfold ownStep; rw [hi]
  have h2 : pushStart b gold s i d = false := by unfold pushStart; rw [hi]; simp
  rw [h1, h2]; rfl

theorem nextPending_friend (b : Spec.Board) (gold : Bool) (pend : Pending) (i : Nat) (d : Spec.Dir) (c : Cell)
    (hi : b i = some c) (hg : c.gold = gold) (hp : pend.isPush = false) :
    nextPending b gold pend i d = if c.piece ≠ .rabbit then .pull i c.piece else .none := by
  unfold nextPending; rw [hi]; simp [hg, hp]

theorem nextPending_enemy (b : Spec.Board) (gold : Bool) (pend : Pending) (i : Nat) (d : Spec.Dir) (c : Cell)
    (hi : b i = some c) (hg : c.gold ≠ gold) :
    nextPending b gold pend i d = if pullEnd b gold pend i d then .none else .push i c.piece := by
  unfold nextPending; rw [hi]; simp [hg]

theorem nextPending_complete (b : Spec.Board) (gold : Bool) (pend : Pending) (i : Nat) (d : Spec.Dir) (c : Cell)
    (hi : b i = some c) (hg : c.gold = gold) (hp : pend.isPush = true) :
    nextPending b gold pend i d = .none := by
  unfold nextPending; rw [hi]; simp [hg, hp]

/-- (a) the greedy reading loses nothing: whatever is accepted with no obligation is accepted when
a pull is possible as well.  The enemy step that would have started a push is booked as the end of
the pull; the intended pusher then enters the vacated square by an ordinary step. -/
theorem acc_mono (fin gold : Bool) : ∀ (n : Nat) (ms : List Mv) (b : Spec.Board) (s q : Nat) (x : Spec.Piece),
    ms.length ≤ n → acc fin gold b s .none ms = true → acc fin gold b s (.pull q x) ms = true := by
  intro n
  induction n with
  | zero =>
    intro ms b s q x hl _
    have : ms = [] := List.length_eq_zero_iff.1 (by omega)
    subst this; exact acc_nil_pull ..
  | succ n ih =>
    intro ms b s q x hl h
    cases ms with
    | nil => exact acc_nil_pull ..
    | cons m rest =>
      obtain ⟨i, d⟩ := m
      have hl' : rest.length ≤ n := by simp only [List.length_cons] at hl; omega
      rw [acc_cons_iff] at h ⊢
      obtain ⟨hi64, hen, hacc⟩ := h
      rw [enabledMove_none] at hen
      cases hbi : b i with
      | none => rw [no_move_of_empty b gold s i d hbi] at hen; cases hen
      | some c =>
        by_cases hg : c.gold = gold
        · refine ⟨hi64, ?_, ?_⟩
          · rw [enabledMove_pull, hen]; rfl
          · rw [nextPending_friend b gold _ i d c hbi hg rfl] at hacc ⊢
            exact hacc
        · refine ⟨hi64, by rw [enabledMove_pull, hen]; rfl, ?_⟩
          rw [nextPending_enemy b gold _ i d c hbi hg] at hacc ⊢
          rw [pullEnd_none] at hacc
          simp only [Bool.false_eq_true, if_false] at hacc
          cases hpe : pullEnd b gold (.pull q x) i d with
          | false => simpa using hacc
          | true =>
            simp only [if_true]
            cases rest with
            | nil => exact acc_nil_none ..
            | cons m2 rest' =>
              obtain ⟨x2, dx⟩ := m2
              have hl2 : rest'.length ≤ n := by simp only [List.length_cons] at hl'; omega
              rw [acc_cons_iff] at hacc ⊢
              obtain ⟨hx64, hen2, hacc2⟩ := hacc
              rw [enabledMove_push, pushEnd_iff] at hen2
              obtain ⟨cx, hbx, hnx, hq, hgx, hfz, hst⟩ := hen2
              have hnr : cx.piece ≠ .rabbit := strength_pos_not_rabbit _ _ hst
              rw [nextPending_complete _ gold _ x2 dx cx hbx hgx rfl] at hacc2
              refine ⟨hx64, ?_, ?_⟩
              · rw [enabledMove_none]
                have : ownStep (applyStep b i d) gold x2 dx = true := by
                  rw [ownStep_iff]
                  exact ⟨cx, i, hbx, hnx, hgx, hfz, hq, fun h => hnr h.1⟩
                rw [this]; rfl
              · rw [nextPending_friend _ gold _ x2 dx cx hbx hgx rfl]
                simp only [ne_eq, hnr, not_false_eq_true, if_true]
                exact ih rest' _ _ _ _ hl2 hacc2

theorem acc_mono' (fin gold : Bool) (ms : List Mv) (b : Spec.Board) (s : Nat) (p : Pending)
    (hp : p.isPush = false) (h : acc fin gold b s .none ms = true) : acc fin gold b s p ms = true := by
  cases p with
  | none => exact h
  | pull q x => exact acc_mono fin gold ms.length ms b s q x (Nat.le_refl _) h
  | push q t => cases hp

/-- if the first move is not the end of the possible pull, the possibility played no role -/
theorem acc_pull_to_none (fin gold : Bool) (b : Spec.Board) (s q : Nat) (x : Spec.Piece) (i : Nat) (d : Spec.Dir)
    (rest : List Mv) (hpe : pullEnd b gold (.pull q x) i d = false)
    (h : acc fin gold b s (.pull q x) ((i, d) :: rest) = true) :
    acc fin gold b s .none ((i, d) :: rest) = true := by
  rw [acc_cons_iff] at h ⊢
  obtain ⟨h1, h2, h3⟩ := h
  rw [enabledMove_pull, hpe, Bool.or_false] at h2
  have e : nextPending b gold (.pull q x) i d = nextPending b gold .none i d := by
    unfold nextPending; rw [hpe, pullEnd_none]; rfl
  exact ⟨h1, by rw [enabledMove_none]; exact h2, by rw [← e]; exact h3⟩

/-! ### legality of the two-step units, as propositions -/

theorem legal_push_iff (b : Spec.Board) (gold : Bool) (i : Nat) (d : Spec.Dir) (x : Nat) (dx : Spec.Dir) :
    TUnit.legal b gold (.push i d x dx) = true ↔
      i < 64 ∧ x < 64 ∧ nbr x dx = some i ∧ ∃ c j cx, b i = some c ∧ nbr i d = some j ∧ b x = some cx ∧
        c.gold ≠ gold ∧ b j = none ∧ cx.gold = gold ∧ frozen b x = false ∧
        c.piece.strength < cx.piece.strength := by
  unfold TUnit.legal
  cases hb : b i with
  | none => simp [hb]
  | some c =>
    cases hn : nbr i d with
    | none => simp [hb, hn]
    | some j =>
      cases hx : b x with
      | none => simp [hb, hn, hx]
      | some cx => simp [hb, hn, hx, Option.isNone_iff_eq_none, and_assoc]

theorem legal_pull_iff (b : Spec.Board) (gold : Bool) (i : Nat) (d : Spec.Dir) (e : Nat) (de : Spec.Dir) :
    TUnit.legal b gold (.pull i d e de) = true ↔
      i < 64 ∧ e < 64 ∧ ownStep b gold i d = true ∧ nbr e de = some i ∧ ∃ c ce, b i = some c ∧ b e = some ce ∧
        ce.gold ≠ gold ∧ ce.piece.strength < c.piece.strength := by
  unfold TUnit.legal
  cases hb : b i with
  | none => simp [hb]
  | some c =>
    cases hx : b e with
    | none => simp [hb, hx]
    | some ce => simp [hb, hx, and_assoc]

theorem legal_single_iff (b : Spec.Board) (gold : Bool) (i : Nat) (d : Spec.Dir) :
    TUnit.legal b gold (.single i d) = true ↔ i < 64 ∧ ownStep b gold i d = true := by
  simp [TUnit.legal]

/-! ### (→) every accepted move list is a prefix of the steps of legal units -/

theorem acc_to_units (fin gold : Bool) : ∀ (n : Nat) (ms : List Mv) (b : Spec.Board) (s : Nat),
    NoHanging b → ms.length ≤ n → s + ms.length ≤ 4 → acc fin gold b s .none ms = true →
    ∃ us, unitsLegal b gold us = true ∧ s + (steps us).length ≤ 4 ∧ ms <+: steps us ∧
      (fin = true → ms = steps us) := by
  intro n
  induction n with
  | zero =>
    intro ms b s _ hl h4 _
    have : ms = [] := List.length_eq_zero_iff.1 (by omega)
    subst this
    exact ⟨[], rfl, by simpa [steps] using h4, List.nil_prefix, fun _ => rfl⟩
  | succ n ih =>
    intro ms b s hb hl h4 h
    cases ms with
    | nil => exact ⟨[], rfl, by simpa [steps] using h4, List.nil_prefix, fun _ => rfl⟩
    | cons m rest =>
      obtain ⟨i, d⟩ := m
      have hl' : rest.length ≤ n := by simp only [List.length_cons] at hl; omega
      have h4' : s + 1 + rest.length ≤ 4 := by simp only [List.length_cons] at h4; omega
      rw [acc_cons_iff] at h
      obtain ⟨hi64, hen, hacc⟩ := h
      rw [enabledMove_none] at hen
      have hb1 := noHanging_applyStep b hb i d
      cases hbi : b i with
      | none => rw [no_move_of_empty b gold s i d hbi] at hen; cases hen
      | some c =>
        by_cases hg : c.gold = gold
        · -- a friendly piece steps
          have hown : ownStep b gold i d = true := by
            rw [pushStart_false_of_friend b gold s i d c hbi hg, Bool.or_false] at hen; exact hen
          obtain ⟨c', j, hbi', hn, _, _, hj, _⟩ := (ownStep_iff _ _ _ _).1 hown
          rw [hbi] at hbi'; cases hbi'
          have key : (∃ e de rest', rest = (e, de) :: rest' ∧ e < 64 ∧
                pullEnd (applyStep b i d) gold (.pull i c.piece) e de = true ∧
                acc fin gold (applyStep (applyStep b i d) e de) (s + 1 + 1) .none rest' = true) ∨
              acc fin gold (applyStep b i d) (s + 1) .none rest = true := by
            rw [nextPending_friend b gold .none i d c hbi hg rfl] at hacc
            by_cases hr : c.piece = .rabbit
            · right; simpa [hr] using hacc
            · have hacc' : acc fin gold (applyStep b i d) (s + 1) (.pull i c.piece) rest = true := by
                simpa [hr] using hacc
              cases rest with
              | nil => right; exact acc_nil_none ..
              | cons m2 rest' =>
                obtain ⟨e, de⟩ := m2
                cases hpe : pullEnd (applyStep b i d) gold (.pull i c.piece) e de with
                | false => right; exact acc_pull_to_none _ _ _ _ _ _ _ _ _ hpe hacc'
                | true =>
                  left
                  rw [acc_cons_iff] at hacc'
                  obtain ⟨he64, _, hacc2⟩ := hacc'
                  obtain ⟨ce, hbe, _, _, hge, _⟩ := (pullEnd_iff _ _ _ _ _ _).1 hpe
                  rw [nextPending_enemy _ gold _ e de ce hbe hge, hpe] at hacc2
                  exact ⟨e, de, rest', rfl, he64, hpe, hacc2⟩
          rcases key with ⟨e, de, rest', rfl, he64, hpe, hacc2⟩ | hacc1
          · -- ... and a weaker enemy piece follows it: a pull
            have hb2 := noHanging_applyStep _ hb1 e de
            have hl2 : rest'.length ≤ n := by simp only [List.length_cons] at hl'; omega
            have h42 : s + 1 + 1 + rest'.length ≤ 4 := by simp only [List.length_cons] at h4'; omega
            obtain ⟨us, hul, hlen, hpre, hfin⟩ := ih rest' _ (s + 1 + 1) hb2 hl2 h42 hacc2
            refine ⟨.pull i d e de :: us, ?_, ?_, ?_, ?_⟩
            · simp only [unitsLegal, TUnit.steps, applySteps, Bool.and_eq_true]
              refine ⟨?_, hul⟩
              rw [legal_pull_iff]
              obtain ⟨ce, hbe, hne, _, hge, hst⟩ := (pullEnd_iff _ _ _ _ _ _).1 hpe
              rw [applyStep_eq b i j d hn] at hbe
              refine ⟨hi64, he64, hown, hne, c, ce, hbi, ?_, hge, hst⟩
              rcases step_before b i j e c ce hbi hj hbe with ⟨_, e2⟩ | ⟨_, _, h3⟩
              · subst e2; exact absurd hg hge
              · exact h3
            · simp only [steps, TUnit.steps, List.length_append, List.length_cons, List.length_nil]; omega
            · simp only [steps, TUnit.steps, List.cons_append, List.nil_append]
              exact List.cons_prefix_cons.2 ⟨rfl, List.cons_prefix_cons.2 ⟨rfl, hpre⟩⟩
            · intro hf
              simp only [steps, TUnit.steps, List.cons_append, List.nil_append]
              rw [← hfin hf]
          · -- ... on its own: a single step
            obtain ⟨us, hul, hlen, hpre, hfin⟩ := ih rest _ (s + 1) hb1 hl' h4' hacc1
            refine ⟨.single i d :: us, ?_, ?_, ?_, ?_⟩
            · simp only [unitsLegal, TUnit.steps, applySteps, Bool.and_eq_true]
              exact ⟨(legal_single_iff _ _ _ _).2 ⟨hi64, hown⟩, hul⟩
            · simp only [steps, TUnit.steps, List.length_append, List.length_cons, List.length_nil]; omega
            · simp only [steps, TUnit.steps, List.cons_append, List.nil_append]
              exact List.cons_prefix_cons.2 ⟨rfl, hpre⟩
            · intro hf
              simp only [steps, TUnit.steps, List.cons_append, List.nil_append]
              rw [← hfin hf]
        · -- an enemy piece is displaced: a push
          rw [ownStep_false_of_enemy b gold i d c hbi hg, Bool.false_or] at hen
          obtain ⟨hs3, c', j, hbi', hn, _, hj, hpu⟩ := (pushStart_iff _ _ _ _ _).1 hen
          rw [hbi] at hbi'; cases hbi'
          rw [nextPending_enemy b gold _ i d c hbi hg, pullEnd_none] at hacc
          simp only [Bool.false_eq_true, if_false] at hacc
          cases rest with
          | nil =>
            -- only the first half has been played: any available pusher completes it
            rw [acc_nil_push] at hacc
            obtain ⟨d0, x, cx, hnx, hbx, hgx, hfz, hst⟩ := (hasPusher_iff _ _ _ _).1 hpu
            have hx64 := nbr_lt i d0 x hi64 hnx
            refine ⟨[.push i d x d0.opp], ?_, ?_, ?_, ?_⟩
            · simp only [unitsLegal, Bool.and_true]
              rw [legal_push_iff]
              exact ⟨hi64, hx64, nbr_opp i x d0 hi64 hnx, c, j, cx, hbi, hn, hbx, hg, hj, hgx, hfz, hst⟩
            · simp only [steps, TUnit.steps, List.length_append, List.length_cons, List.length_nil]; omega
            · simp only [steps, TUnit.steps, List.cons_append, List.nil_append]
              exact List.cons_prefix_cons.2 ⟨rfl, List.nil_prefix⟩
            · intro hf; rw [hf] at hacc; cases hacc
          | cons m2 rest' =>
            obtain ⟨x, dx⟩ := m2
            rw [acc_cons_iff] at hacc
            obtain ⟨hx64, hen2, hacc2⟩ := hacc
            rw [enabledMove_push, pushEnd_iff] at hen2
            obtain ⟨cx, hbx, hnx, _, hgx, hfz, hst⟩ := hen2
            rw [nextPending_complete _ gold _ x dx cx hbx hgx rfl] at hacc2
            have hb2 := noHanging_applyStep _ hb1 x dx
            have hl2 : rest'.length ≤ n := by simp only [List.length_cons] at hl'; omega
            have h42 : s + 1 + 1 + rest'.length ≤ 4 := by simp only [List.length_cons] at h4'; omega
            obtain ⟨us, hul, hlen, hpre, hfin⟩ := ih rest' _ (s + 1 + 1) hb2 hl2 h42 hacc2
            refine ⟨.push i d x dx :: us, ?_, ?_, ?_, ?_⟩
            · simp only [unitsLegal, TUnit.steps, applySteps, Bool.and_eq_true]
              refine ⟨?_, hul⟩
              rw [legal_push_iff]
              rw [applyStep_eq b i j d hn] at hbx hfz
              have hcol : cx.gold ≠ c.gold := by rw [hgx]; exact fun e => hg e.symm
              obtain ⟨hx0, hfz0⟩ := pusher_before b hb i j x c cx dx hx64 hbi hj hnx hbx hcol hst hfz
              exact ⟨hi64, hx64, hnx, c, j, cx, hbi, hn, hx0, hg, hj, hgx, hfz0, hst⟩
            · simp only [steps, TUnit.steps, List.length_append, List.length_cons, List.length_nil]; omega
            · simp only [steps, TUnit.steps, List.cons_append, List.nil_append]
              exact List.cons_prefix_cons.2 ⟨rfl, List.cons_prefix_cons.2 ⟨rfl, hpre⟩⟩
            · intro hf
              simp only [steps, TUnit.steps, List.cons_append, List.nil_append]
              rw [← hfin hf]

/-! ### (←) every prefix of the steps of legal units is accepted -/

theorem units_to_acc (fin gold : Bool) : ∀ (us : List TUnit) (b : Spec.Board) (s : Nat) (ms : List Mv),
    NoHanging b → unitsLegal b gold us = true → s + (steps us).length ≤ 4 → ms <+: steps us →
    (fin = true → ms = steps us) → acc fin gold b s .none ms = true := by
  intro us
  induction us with
  | nil =>
    intro b s ms _ _ _ hpre _
    have : ms = [] := List.prefix_nil.1 (by simpa [steps] using hpre)
    subst this; exact acc_nil_none ..
  | cons u us ih =>
    intro b s ms hb hul h4 hpre hfin
    cases ms with
    | nil => exact acc_nil_none ..
    | cons m rest =>
      simp only [unitsLegal, Bool.and_eq_true] at hul
      obtain ⟨hleg, hul'⟩ := hul
      cases u with
      | single i d =>
        simp only [steps, TUnit.steps, List.cons_append, List.nil_append, List.length_cons] at h4 hpre hfin
        obtain ⟨rfl, hpre'⟩ := List.cons_prefix_cons.1 hpre
        obtain ⟨hi64, hown⟩ := (legal_single_iff _ _ _ _).1 hleg
        obtain ⟨c, j, hbi, hn, hg, _, hj, _⟩ := (ownStep_iff _ _ _ _).1 hown
        have hb1 := noHanging_applyStep b hb i d
        simp only [TUnit.steps, applySteps] at hul'
        have hrec := ih (applyStep b i d) (s + 1) rest hb1 hul' (by omega) hpre'
          (fun hf => (List.cons.inj (hfin hf)).2)
        rw [acc_cons_iff]
        refine ⟨hi64, by rw [enabledMove_none, hown]; rfl, ?_⟩
        rw [nextPending_friend b gold .none i d c hbi hg rfl]
        apply acc_mono' _ _ _ _ _ _ ?_ hrec
        split <;> rfl
      | push i d x dx =>
        simp only [steps, TUnit.steps, List.cons_append, List.nil_append, List.length_cons] at h4 hpre hfin
        obtain ⟨rfl, hpre'⟩ := List.cons_prefix_cons.1 hpre
        obtain ⟨hi64, hx64, hnx, c, j, cx, hbi, hn, hbx, hg, hj, hgx, hfz, hst⟩ :=
          (legal_push_iff _ _ _ _ _ _).1 hleg
        have hcol : cx.gold ≠ c.gold := by rw [hgx]; exact fun e => hg e.symm
        obtain ⟨hx1, hfz1⟩ := pusher_survives b hb i j x c cx hx64 hbi hj hbx hcol hst hfz
        rw [← applyStep_eq b i j d hn] at hx1 hfz1
        have hb1 := noHanging_applyStep b hb i d
        have hps : pushStart b gold s i d = true := by
          rw [pushStart_iff]
          refine ⟨by omega, c, j, hbi, hn, hg, hj, ?_⟩
          rw [hasPusher_iff]
          exact ⟨dx.opp, x, cx, nbr_opp x i dx hx64 hnx, hbx, hgx, hfz, hst⟩
        rw [acc_cons_iff]
        refine ⟨hi64, by rw [enabledMove_none, hps, Bool.or_true], ?_⟩
        rw [nextPending_enemy b gold _ i d c hbi hg, pullEnd_none]
        simp only [Bool.false_eq_true, if_false]
        cases rest with
        | nil =>
          rw [acc_nil_push]
          cases fin with
          | false => rfl
          | true => have := hfin rfl; simp at this
        | cons m2 rest' =>
          obtain ⟨rfl, hpre2⟩ := List.cons_prefix_cons.1 hpre'
          have hi1 : applyStep b i d i = none := by
            rw [applyStep_eq b i j d hn]; exact step_src_none b i j c hbi hj
          rw [acc_cons_iff]
          refine ⟨hx64, ?_, ?_⟩
          · rw [enabledMove_push, pushEnd_iff]; exact ⟨cx, hx1, hnx, hi1, hgx, hfz1, hst⟩
          · rw [nextPending_complete _ gold _ x dx cx hx1 hgx rfl]
            simp only [TUnit.steps, applySteps] at hul'
            exact ih _ (s + 1 + 1) rest' (noHanging_applyStep _ hb1 x dx) hul' (by omega) hpre2
              (fun hf => (List.cons.inj (List.cons.inj (hfin hf)).2).2)
      | pull i d e de =>
        simp only [steps, TUnit.steps, List.cons_append, List.nil_append, List.length_cons] at h4 hpre hfin
        obtain ⟨rfl, hpre'⟩ := List.cons_prefix_cons.1 hpre
        obtain ⟨hi64, he64, hown, hne, c, ce, hbi, hbe, hge, hst⟩ := (legal_pull_iff _ _ _ _ _ _).1 hleg
        obtain ⟨c', j, hbi', hn, hg, _, hj, _⟩ := (ownStep_iff _ _ _ _).1 hown
        obtain rfl : c' = c := by rw [hbi] at hbi'; exact (Option.some.inj hbi').symm
        have hnr : c'.piece ≠ .rabbit := strength_pos_not_rabbit _ _ hst
        have hcol : ce.gold ≠ c'.gold := by rw [hg]; exact hge
        have hb1 := noHanging_applyStep b hb i d
        have he1 : applyStep b i d e = some ce := by
          rw [applyStep_eq b i j d hn]; exact other_survives b hb i j e c' ce he64 hbi hj hbe hcol
        have hi1 : applyStep b i d i = none := by
          rw [applyStep_eq b i j d hn]; exact step_src_none b i j c' hbi hj
        rw [acc_cons_iff]
        refine ⟨hi64, by rw [enabledMove_none, hown]; rfl, ?_⟩
        rw [nextPending_friend b gold .none i d c' hbi hg rfl]
        simp only [ne_eq, hnr, not_false_eq_true, if_true]
        cases rest with
        | nil => exact acc_nil_pull ..
        | cons m2 rest' =>
          obtain ⟨rfl, hpre2⟩ := List.cons_prefix_cons.1 hpre'
          have hpe : pullEnd (applyStep b i d) gold (.pull i c'.piece) e de = true := by
            rw [pullEnd_iff]; exact ⟨ce, he1, hne, hi1, hge, hst⟩
          rw [acc_cons_iff]
          refine ⟨he64, by rw [enabledMove_pull, hpe, Bool.or_true], ?_⟩
          rw [nextPending_enemy _ gold _ e de ce he1 hge, hpe]
          simp only [if_true]
          simp only [TUnit.steps, applySteps] at hul'
          exact ih _ (s + 1 + 1) rest' (noHanging_applyStep _ hb1 e de) hul' (by omega) hpre2
            (fun hf => (List.cons.inj (List.cons.inj (hfin hf)).2).2)

/-! ### the two readings of the machine run used in the property -/

theorem accepted_eq_acc (b : Spec.Board) (gold : Bool) (ms : List Mv) :
    accepted b gold ms = acc false gold b 0 .none ms := by
  rw [acc_eq_run]; unfold accepted
  cases runTurn b gold 0 .none ms <;> rfl

theorem mayEnd_eq_acc (b : Spec.Board) (gold : Bool) (ms : List Mv) (hne : ms ≠ []) :
    mayEnd b gold ms = acc true gold b 0 .none ms := by
  rw [acc_eq_run]; unfold mayEnd
  cases runTurn b gold 0 .none ms with
  | none => rfl
  | some p =>
    have : 1 ≤ ms.length := by
      cases ms with
      | nil => exact absurd rfl hne
      | cons _ _ => simp
    simp [passEnabled, this]

/-- a Boolean test for `NoHanging`, for concrete boards -/
def noHangingB (b : Spec.Board) : Bool := (List.range 64).all fun k => !hanging b k

theorem noHanging_of_check (b : Spec.Board) (h : noHangingB b = true) : NoHanging b := by
  intro k c hk hc ht
  unfold noHangingB at h
  rw [List.all_eq_true] at h
  have hk' := h k (List.mem_range.2 hk)
  cases hf : hasFriend b k c.gold with
  | true => rfl
  | false =>
    have : hanging b k = true := (hanging_iff b k).2 ⟨c, hc, ht, hf⟩
    rw [this] at hk'; cases hk'

/-! ### the same run in the shared L2 game machine `Spec.State` -/

/-- inside one turn, `runTurn` is the game machine `State.run` on the corresponding step actions -/
theorem run_isSome_eq_runTurn : ∀ (ms : List Mv) (b : Spec.Board) (gold : Bool) (step : Nat) (pend : Pending),
    step + ms.length ≤ 4 →
    (State.run ⟨b, gold, step, pend⟩ (ms.map fun m => Act.move m.1 m.2)).isSome =
      (runTurn b gold step pend ms).isSome := by
  intro ms
  induction ms with
  | nil => intro b gold step pend _; rfl
  | cons m ms ih =>
    intro b gold step pend h
    simp only [List.length_cons] at h
    have e1 : State.run ⟨b, gold, step, pend⟩ ((m :: ms).map fun m => Act.move m.1 m.2) =
        if (decide (m.1 < 64) && enabledMove b gold step pend m.1 m.2) = true then
          State.run (State.next ⟨b, gold, step, pend⟩ (.move m.1 m.2)) (ms.map fun m => Act.move m.1 m.2)
        else none := rfl
    have e2 : runTurn b gold step pend (m :: ms) =
        if (decide (m.1 < 64) && enabledMove b gold step pend m.1 m.2) = true then
          runTurn (applyStep b m.1 m.2) gold (step + 1) (nextPending b gold pend m.1 m.2) ms
        else none := rfl
    rw [e1, e2]
    by_cases he : (decide (m.1 < 64) && enabledMove b gold step pend m.1 m.2) = true
    · rw [if_pos he, if_pos he]
      by_cases h3 : step < 3
      · have e3 : State.next ⟨b, gold, step, pend⟩ (.move m.1 m.2) =
            ⟨applyStep b m.1 m.2, gold, step + 1, nextPending b gold pend m.1 m.2⟩ := by
          simp only [State.next, h3, if_true]
        rw [e3]
        exact ih _ _ _ _ (by omega)
      · have : ms = [] := List.length_eq_zero_iff.1 (by omega)
        subst this
        rfl
    · rw [if_neg he, if_neg he]; rfl

end Arimaa.TurnLemmas
