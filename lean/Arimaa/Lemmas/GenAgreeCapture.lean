import Arimaa.Lemmas.GenAgreeFrozen

/-! Agreement of the hand-written model with the regenerated translation of engine.rs: support of both players, unsupported pieces, trap occupancy, the pieces a step captures. -/
namespace Arimaa
open Gen GameState

set_option linter.unusedSimpArgs false

theorem agree_both_player_supported_pieces (b : Board) :
    Gen.Fn.both_player_supported_pieces b = bothPlayerSupportedPieces b := by
  first
    | rfl
    | (simp only [Gen.Fn.both_player_supported_pieces, bothPlayerSupportedPieces, agree_supported_pieces] <;> first | rfl | ac_rfl)
    | bitwise_agree

theorem agree_both_player_unsupported_piece_bits (b : Board) :
    Gen.Fn.both_player_unsupported_piece_bits b = bothPlayerUnsupportedPieceBits b := by
  first
    | rfl
    | (simp only [Gen.Fn.both_player_unsupported_piece_bits, bothPlayerUnsupportedPieceBits, agree_both_player_supported_pieces] <;> first | rfl | ac_rfl)
    | bitwise_agree

theorem agree_animal_is_on_trap (b : Board) :
    Gen.Fn.animal_is_on_trap b = animalIsOnTrap b := by
  first
    | rfl
    | (simp only [Gen.Fn.animal_is_on_trap, animalIsOnTrap] <;> first | rfl | ac_rfl)
    | bitwise_agree

theorem agree_trapped_piece_bits (b : Board) :
    Gen.Fn.trapped_piece_bits b = b.trappedPieceBits := by
  first
    | rfl
    | (simp only [Gen.Fn.trapped_piece_bits, Board.trappedPieceBits, agree_animal_is_on_trap, agree_both_player_unsupported_piece_bits] <;> first | rfl | ac_rfl)
    | bitwise_agree

end Arimaa
