import Arimaa.Lemmas.Enabled
import Arimaa.Lemmas.GenAgreeResult

/-!
Helper lemmas for C04: the goal-rank and elimination tests of `rabbit_at_goal` / `lost_all_rabbits`
read through the abstraction `absBoard`, their last-mover-first encoding as the first four lines of
`Spec.result`, and `has_move` at the start of a turn as `Spec.hasStep`.
-/
namespace Arimaa
open Gen Spec GameState

/-- the obvious map from the specification's results to the code's `Terminal` -/
def terminalOf : Spec.Result → Terminal
  | .goldWin => .goldWin
  | .silverWin => .silverWin

/-- the obvious map from the code's `Terminal` to the specification's results -/
def toSpecResult : Terminal → Spec.Result
  | .goldWin => .goldWin
  | .silverWin => .silverWin

theorem toSpecResult_terminalOf (r : Spec.Result) : toSpecResult (terminalOf r) = r := by
  cases r <;> rfl

theorem terminalOf_toSpecResult (t : Terminal) : terminalOf (toSpecResult t) = t := by
  cases t <;> rfl

theorem map_toSpecResult_map_terminalOf (o : Option Spec.Result) :
    (o.map terminalOf).map toSpecResult = o := by
  cases o <;> simp [toSpecResult_terminalOf]

/-! ### a bitboard is non-zero iff some square below 64 carries a bit -/

theorem ne_zero_eq_any (x : BB) (f : Nat → Bool) (h : ∀ i, i < 64 → bit x i = f i) :
    (x != 0) = (List.range 64).any f := by
  rw [Bool.eq_iff_iff, bne_iff_ne, bb_ne_zero_iff, List.any_eq_true]
  constructor
  · rintro ⟨i, hi, hb⟩
    exact ⟨i, List.mem_range.2 hi, by rw [← h i hi]; exact hb⟩
  · rintro ⟨i, hi, hb⟩
    have hi' := List.mem_range.1 hi
    exact ⟨i, hi', by rw [h i hi']; exact hb⟩

theorem eq_zero_eq_not_any (x : BB) (f : Nat → Bool) (h : ∀ i, i < 64 → bit x i = f i) :
    (x == 0) = !(List.range 64).any f := by
  rw [← ne_zero_eq_any x f h]
  simp [bne]

/-! ### rabbits of one colour, pointwise -/

/-- under well-formedness the abstract board shows a rabbit of colour `g` on `i` exactly when the
rabbit board has bit `i` and the owner bit equals `g` -/
theorem abs_rabbit (b : Board) (hw : WF b) (i : Nat) (h : i < 64) (g : Bool) :
    (absBoard b i == some ⟨g, .rabbit⟩) = (bit b.rabbits i && (bit b.p1 i == g)) := by
  have hx := hw.excl i h
  unfold absBoard typeAt
  revert hx
  cases bit b.elephants i <;> cases bit b.camels i <;> cases bit b.horses i <;>
    cases bit b.dogs i <;> cases bit b.cats i <;> cases bit b.rabbits i <;>
    cases bit b.p1 i <;> cases g <;> simp [toSpec] <;> decide

theorem goldRabbit_bit (b : Board) (hw : WF b) (i : Nat) (h : i < 64) :
    bit (b.p1 &&& b.rabbits) i = (absBoard b i == some ⟨true, .rabbit⟩) := by
  rw [abs_rabbit b hw i h, bit_and]
  cases bit b.p1 i <;> cases bit b.rabbits i <;> rfl

theorem silverRabbit_bit (b : Board) (hw : WF b) (i : Nat) (h : i < 64) :
    bit (~~~b.p1 &&& b.rabbits) i = (absBoard b i == some ⟨false, .rabbit⟩) := by
  rw [abs_rabbit b hw i h, bit_and, bit_not]
  cases bit b.p1 i <;> cases bit b.rabbits i <;> simp [h]

/-- Gold's goal test: rank 8 = squares 0..7 -/
theorem p1Met_eq (b : Board) (hw : WF b) :
    ((b.p1 &&& b.rabbits &&& P1_OBJECTIVE_MASK) != 0) = rabbitOnGoal (absBoard b) true := by
  unfold rabbitOnGoal
  apply ne_zero_eq_any
  intro i hi
  rw [bit_and, goldRabbit_bit b hw i hi, p1_objective_bit i hi]
  simp [onGoalRank]

/-- Silver's goal test: rank 1 = squares 56..63 -/
theorem p2Met_eq (b : Board) (hw : WF b) :
    ((~~~b.p1 &&& b.rabbits &&& P2_OBJECTIVE_MASK) != 0) = rabbitOnGoal (absBoard b) false := by
  unfold rabbitOnGoal
  apply ne_zero_eq_any
  intro i hi
  rw [bit_and, silverRabbit_bit b hw i hi, p2_objective_bit i hi]
  simp [onGoalRank]

theorem p1Lost_eq (b : Board) (hw : WF b) :
    ((b.p1 &&& b.rabbits) == 0) = !hasRabbit (absBoard b) true := by
  unfold hasRabbit
  exact eq_zero_eq_not_any _ _ (goldRabbit_bit b hw)

theorem p2Lost_eq (b : Board) (hw : WF b) :
    ((~~~b.p1 &&& b.rabbits) == 0) = !hasRabbit (absBoard b) false := by
  unfold hasRabbit
  exact eq_zero_eq_not_any _ _ (silverRabbit_bit b hw)

/-! ### the last-mover-first encoding -/

/-- `rabbit_at_goal` is lines 1–2 of `Spec.result`: the player who just moved first -/
theorem rabbitAtGoal_eq (s : GameState) (b : Board) (hw : WF b) :
    s.rabbitAtGoal b =
      if rabbitOnGoal (absBoard b) (!s.p1Turn) then some (terminalOf (win (!s.p1Turn)))
      else if rabbitOnGoal (absBoard b) s.p1Turn then some (terminalOf (win s.p1Turn))
      else none := by
  unfold rabbitAtGoal
  simp only [p1Met_eq b hw, p2Met_eq b hw]
  cases s.p1Turn <;> cases h1 : rabbitOnGoal (absBoard b) true <;>
    cases h2 : rabbitOnGoal (absBoard b) false <;> simp [terminalOf, win, h1, h2]

/-- `lost_all_rabbits` is lines 3–4 of `Spec.result`: the mover's elimination is looked at first -/
theorem lostAllRabbits_eq (s : GameState) (b : Board) (hw : WF b) :
    s.lostAllRabbits b =
      if !hasRabbit (absBoard b) s.p1Turn then some (terminalOf (win (!s.p1Turn)))
      else if !hasRabbit (absBoard b) (!s.p1Turn) then some (terminalOf (win s.p1Turn))
      else none := by
  unfold lostAllRabbits
  simp only [p1Lost_eq b hw, p2Lost_eq b hw]
  cases s.p1Turn <;> cases h1 : hasRabbit (absBoard b) true <;>
    cases h2 : hasRabbit (absBoard b) false <;> simp [terminalOf, win, h1, h2]

/-! ### `has_move` at the start of a turn -/

theorem dirSpec_surj (d : Spec.Dir) : ∃ d', dirSpec d' = d := by
  cases d
  · exact ⟨.up, rfl⟩
  · exact ⟨.right, rfl⟩
  · exact ⟨.down, rfl⟩
  · exact ⟨.left, rfl⟩

theorem dirSpec_mem_all (d : Dir) : dirSpec d ∈ Spec.Dir.all := by
  cases d <;> simp [Spec.Dir.all, dirSpec]

/-- at the start of a turn the pass is not available, with or without the repetition check -/
theorem canPass_step0 (s : GameState) (pp : PlayPhase) (hph : s.phase = .play pp)
    (h0 : pp.step = 0) (r : Bool) : s.canPass r = false := by
  rw [canPass_play s pp hph, h0]; simp

/-- at the start of a turn the repetition rules withhold nothing -/
theorem validActions_eq_noRep_step0 (s : GameState) (pp : PlayPhase) (hph : s.phase = .play pp)
    (h0 : pp.step = 0) : s.validActions = s.validActionsNoRep := by
  rw [validActions_filter_shape s pp hph]
  apply List.filter_eq_self.2
  intro a _
  simp [withheld, canPass_step0 s pp hph h0, h0]

/-- at the start of a turn every offered action is a step -/
theorem isMove_of_mem_noRep_step0 (s : GameState) (pp : PlayPhase) (hph : s.phase = .play pp)
    (h0 : pp.step = 0) (hpps : pp.pps = .none) (a : Action) (ha : a ∈ s.validActionsNoRep) :
    a.isMove = true := by
  unfold validActionsNoRep at ha
  have hm : pp.pps.isMustCompletePush = false := by rw [hpps]; rfl
  rw [validActions__free s pp hph hm false, canPass_step0 s pp hph h0] at ha
  simp only [Bool.false_eq_true, if_false, List.append_nil] at ha
  exact isMove_of_mem_stepList s pp a ha

/-- at the start of a turn the rule-only list is non-empty exactly when the specification says the
mover has a step -/
theorem noRep_ne_nil_iff_step0 (s : GameState) (pp : PlayPhase) (hph : s.phase = .play pp)
    (hw : WF s.board) (h0 : pp.step = 0) (hpps : pp.pps = .none) :
    s.validActionsNoRep ≠ [] ↔ hasStep (absBoard s.board) s.p1Turn = true := by
  have hp : PendOk s.board pp.pps := by rw [hpps]; trivial
  unfold hasStep
  rw [List.any_eq_true]
  constructor
  · intro hne
    obtain ⟨a, ha⟩ := List.exists_mem_of_ne_nil _ hne
    have hmove := isMove_of_mem_noRep_step0 s pp hph h0 hpps a ha
    obtain ⟨i, d, rfl⟩ := (Action.isMove_iff a).1 hmove
    obtain ⟨hi, he⟩ := (enabled_iff s pp hph hw hp i d).1 ha
    rw [h0, hpps] at he
    exact ⟨i, List.mem_range.2 hi, List.any_eq_true.2 ⟨dirSpec d, dirSpec_mem_all d, he⟩⟩
  · rintro ⟨i, hi, hd⟩
    obtain ⟨d, _, he⟩ := List.any_eq_true.1 hd
    obtain ⟨d', rfl⟩ := dirSpec_surj d
    have hmem := (enabled_iff s pp hph hw hp i d').2
      ⟨List.mem_range.1 hi, by rw [h0, hpps]; exact he⟩
    exact List.ne_nil_of_mem hmem

/-- `has_move` at the start of a turn: "has a move" iff some step is enabled -/
theorem hasMove_step0_iff (s : GameState) (pp : PlayPhase) (hph : s.phase = .play pp)
    (hw : WF s.board) (h0 : pp.step = 0) (hpps : pp.pps = .none) :
    s.hasMove s.board = none ↔ hasStep (absBoard s.board) s.p1Turn = true := by
  rw [← validActions_ne_nil_iff s pp hph (by omega), validActions_eq_noRep_step0 s pp hph h0]
  exact noRep_ne_nil_iff_step0 s pp hph hw h0 hpps

/-- the value of `has_move` at the start of a turn: line 5 of `Spec.result` -/
theorem hasMove_step0_eq (s : GameState) (pp : PlayPhase) (hph : s.phase = .play pp)
    (hw : WF s.board) (h0 : pp.step = 0) (hpps : pp.pps = .none) :
    s.hasMove s.board =
      if !hasStep (absBoard s.board) s.p1Turn then some (terminalOf (win (!s.p1Turn)))
      else none := by
  have h := hasMove_step0_iff s pp hph hw h0 hpps
  cases hs : hasStep (absBoard s.board) s.p1Turn
  · have hne : s.hasMove s.board ≠ none := fun e => by
      have := h.1 e; rw [hs] at this; cases this
    rw [hasMove_eq_some s s.board hne]
    cases s.p1Turn <;> simp [terminalOf, win]
  · simpa using h.2 hs

/-! ### play-phase states reached by offered actions -/

/-- `OfferedRun s0 s`: `s` is reached from `s0` by actions each of which is in the rule-only list
(`validActionsNoRep`, a superset of the offered list `validActions`) of the state it is applied
to. -/
inductive OfferedRun (s0 : GameState) : GameState → Prop
  | refl : OfferedRun s0 s0
  | step {s : GameState} {a : Action} : OfferedRun s0 s → a ∈ s.validActionsNoRep →
      OfferedRun s0 (s.takeAction a)

theorem mem_noRep_of_mem_validActions (s : GameState) (a : Action) (h : a ∈ s.validActions) :
    a ∈ s.validActionsNoRep := by
  cases hph : s.phase with
  | place =>
    unfold validActions at h; unfold validActionsNoRep
    rw [validActions__place s hph] at *; exact h
  | play pp =>
    rw [validActions_filter_shape s pp hph] at h
    exact (List.mem_filter.1 h).1

/-- the play-phase invariant and the turn invariant hold along every run of offered actions -/
theorem offeredRun_inv (s0 : GameState) (pp0 : PlayPhase) (h0 : PlayInv s0 pp0) (ht : TurnInv s0)
    (s : GameState) (hr : OfferedRun s0 s) : (∃ pp, PlayInv s pp) ∧ TurnInv s := by
  induction hr with
  | refl => exact ⟨⟨pp0, h0⟩, ht⟩
  | step _ ha ih =>
    obtain ⟨⟨pp, hpi⟩, hti⟩ := ih
    exact ⟨playInv_step _ pp hpi _ ha, turnInv_takeAction _ _ hti⟩

end Arimaa
