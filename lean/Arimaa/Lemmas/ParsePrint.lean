import Arimaa.Lemmas.Types
import Arimaa.Lemmas.HashInv
import Arimaa.Lemmas.Notation
import Arimaa.Lemmas.Turn

/-!
Helper lemmas for C15: the diagram parser `parseState` and the printer `showState`.

Part 1: the cell loop keeps the accumulated boards "exclusive" (`CellsInv`), hence every parsed
board is well-formed.
-/
namespace Arimaa
open Gen

/-! ### Part 1: the accumulated cell boards stay exclusive -/

/-- "some type board has bit `i`" -/
def Cells.occ (cs : Cells) (i : Nat) : Bool :=
  bit cs.e i || bit cs.m i || bit cs.h i || bit cs.d i || bit cs.c i || bit cs.r i

/-- invariant of the cell loop: all bits set so far are at squares `< B`, every square carries at
most one type, and the gold board is inside the union of the type boards -/
structure CellsInv (cs : Cells) (B : Nat) : Prop where
  excl : ∀ i, i < 64 →
    (bit cs.e i).toNat + (bit cs.m i).toNat + (bit cs.h i).toNat +
      (bit cs.d i).toNat + (bit cs.c i).toNat + (bit cs.r i).toNat ≤ 1
  p1_sub : ∀ i, i < 64 → bit cs.p1 i = true → cs.occ i = true
  below : ∀ i, i < 64 → B ≤ i → cs.occ i = false

theorem CellsInv.empty : CellsInv {} 0 := by
  constructor <;> intros <;> simp_all [Cells.occ]

theorem CellsInv.mono {cs : Cells} {B B' : Nat} (h : CellsInv cs B) (hb : B ≤ B') : CellsInv cs B' :=
  ⟨h.excl, h.p1_sub, fun i hi hbi => h.below i hi (by omega)⟩

/-- one cell: the bit of a fresh square goes to exactly one type board -/
theorem CellsInv.add {cs : Cells} {j : Nat} (h : CellsInv cs j) (p : Piece) (u : Bool) :
    CellsInv (cs.add p u (sqBit j)) (j + 1) := by
  constructor
  · intro i hi
    have h1 := h.excl i hi
    have h3 := h.below i hi
    by_cases e : i = j
    · subst e
      have h3 := h3 (Nat.le_refl _)
      simp only [Cells.occ, Bool.or_eq_false_iff] at h3
      obtain ⟨⟨⟨⟨⟨a1, a2⟩, a3⟩, a4⟩, a5⟩, a6⟩ := h3
      cases p <;> cases u <;> simp [Cells.add, bit_or, sqBit_bit, *]
    · cases p <;> cases u <;> simpa [Cells.add, bit_or, sqBit_bit, e] using h1
  · intro i hi
    have h2 := h.p1_sub i hi
    by_cases e : i = j
    · subst e
      intro _
      cases p <;> cases u <;> simp [Cells.add, Cells.occ, bit_or, sqBit_bit, hi]
    · cases p <;> cases u <;> simpa [Cells.add, Cells.occ, bit_or, sqBit_bit, e] using h2
  · intro i hi hb
    have h3 := h.below i hi (by omega)
    have e : i ≠ j := by omega
    cases p <;> cases u <;> simpa [Cells.add, Cells.occ, bit_or, sqBit_bit, e] using h3

theorem parseRowCells_inv (rowIdx : Nat) (l : List Char) (colIdx : Nat) (cs cs' : Cells)
    (h : CellsInv cs (rowIdx * 8 + min colIdx 8))
    (hp : parseRowCells rowIdx l colIdx cs = some cs') : CellsInv cs' (rowIdx * 8 + 8) := by
  induction l generalizing colIdx cs with
  | nil =>
    simp only [parseRowCells, Option.some.injEq] at hp
    subst hp
    exact h.mono (by omega)
  | cons ch rest ih =>
    rw [parseRowCells] at hp
    split at hp
    · rename_i p _
      split at hp
      · cases hp
      · rename_i hn
        simp only [board_width_eq, board_height_eq] at hn hp
        have hc : colIdx < 8 := by omega
        have hr : rowIdx < 8 := by omega
        have hm : (rowIdx * 8 + colIdx) % 256 = rowIdx * 8 + colIdx := by omega
        rw [hm] at hp
        refine ih (colIdx + 1) _ ?_ hp
        have : min colIdx 8 = colIdx := by omega
        rw [this] at h
        have h' := h.add p ch.isUpper
        exact h'.mono (by omega)
    · exact ih (colIdx + 1) cs (h.mono (by omega)) hp

theorem parseRows_inv (ls : List (List Char)) (rowIdx : Nat) (cs cs' : Cells)
    (h : CellsInv cs (rowIdx * 8)) (hp : parseRows ls rowIdx cs = some cs') :
    ∃ B, CellsInv cs' B := by
  induction ls generalizing rowIdx cs with
  | nil =>
    simp only [parseRows, Option.some.injEq] at hp
    subst hp
    exact ⟨_, h⟩
  | cons line rest ih =>
    rw [parseRows] at hp
    split at hp
    · rename_i cs1 h1
      have := parseRowCells_inv rowIdx _ 0 cs cs1 (by simpa using h) h1
      exact ih (rowIdx + 1) cs1 (by rw [Nat.add_mul]; simpa using this) hp
    · cases hp

/-- `PieceBoard::new` on exclusive cell boards is a well-formed board -/
theorem WF_of_cellsInv (cs : Cells) (B : Nat) (h : CellsInv cs B) :
    WF (Board.new cs.p1 cs.e cs.m cs.h cs.d cs.c cs.r) := by
  constructor
  · intro i hi; exact h.excl i hi
  · intro i hi; simp [Board.new, bit_or]
  · intro i hi hp
    have := h.p1_sub i hi hp
    simpa [Board.new, bit_or, Cells.occ] using this

/-- the shape of a successful parse -/
theorem parseState_ok_shape (t : List Char) (s : GameState) (h : parseState t = .ok s) :
    ∃ cs, parseRows (oddElems (splitBar t)) 0 {} = some cs ∧
      s.board = Board.new cs.p1 cs.e cs.m cs.h cs.d cs.c cs.r := by
  unfold parseState at h
  simp only at h
  split at h
  · cases h
  · split at h
    · cases h
    · rename_i cs hcs
      injection h with h
      subst h
      exact ⟨cs, hcs, rfl⟩

theorem parseState_wf (t : List Char) (s : GameState) (h : parseState t = .ok s) : WF s.board := by
  obtain ⟨cs, hcs, hb⟩ := parseState_ok_shape t s h
  obtain ⟨B, hB⟩ := parseRows_inv _ 0 {} cs (by simpa using CellsInv.empty) hcs
  rw [hb]
  exact WF_of_cellsInv cs B hB

/-! ### Part 2: the header -/

theorem splitBar_ne_nil (t : List Char) : splitBar t ≠ [] := by
  cases t with
  | nil => simp [splitBar]
  | cons c cs =>
    unfold splitBar
    split
    · simp
    · split <;> simp

/-- the first `'|'`-separated segment is the text before the first bar -/
theorem splitBar_head (t : List Char) : (splitBar t).headD [] = t.takeWhile (· != '|') := by
  induction t with
  | nil => simp [splitBar]
  | cons c cs ih =>
    unfold splitBar
    by_cases hc : c = '|'
    · simp [hc]
    · cases hs : splitBar cs with
      | nil => exact absurd hs (splitBar_ne_nil cs)
      | cons seg rest =>
        rw [hs] at ih
        simp only [List.headD_cons] at ih
        simp [hc, ih]

theorem takeDropWhile_append {α : Type} (p : α → Bool) (a m : List α) (ha : ∀ x ∈ a, p x = true)
    (hm : ∀ x, m.head? = some x → p x = false) :
    (a ++ m).dropWhile p = m ∧ (a ++ m).takeWhile p = a := by
  induction a with
  | nil =>
    cases m with
    | nil => simp
    | cons y ys => simp [hm y rfl]
  | cons x xs ih =>
    have hx := ha x (by simp)
    have := ih (fun y hy => ha y (by simp [hy]))
    simp [hx, this.1, this.2]

theorem mem_takeWhile_imp' {α : Type} {p : α → Bool} {l : List α} {x : α}
    (h : x ∈ l.takeWhile p) : p x = true :=
  List.all_eq_true.mp (List.all_takeWhile (l := l) (p := p)) x h

/-- the two range tables are disjoint (checked against the generated tables) -/
theorem perl_tables_disjoint :
    ∀ r ∈ perlSpace, ∀ q ∈ perlDigit, r.2 < q.1 ∨ q.2 < r.1 := by decide

theorem not_space_of_digit (c : Char) (h : isPerlDigit c = true) : isPerlSpace c = false := by
  cases hs : isPerlSpace c with
  | false => rfl
  | true =>
    simp only [isPerlSpace, isPerlDigit, inRanges, List.any_eq_true, Bool.and_eq_true,
      decide_eq_true_eq] at h hs
    obtain ⟨q, hq, h1, h2⟩ := h
    obtain ⟨r, hr, h3, h4⟩ := hs
    have := perl_tables_disjoint r hr q hq
    omega

theorem side_not_digit (c : Char) (h : c ∈ headerSideChars) : isPerlDigit c = false := by
  simp only [headerSideChars, List.mem_cons, List.not_mem_nil, or_false] at h
  rcases h with rfl | rfl | rfl | rfl <;> decide

/-- `seg` matches `^\s*(\d+)([gswb])` with capture groups `ds` and `c` -/
def HeaderMatch (seg ds : List Char) (c : Char) : Prop :=
  ∃ sp rest, seg = sp ++ ds ++ c :: rest ∧ (∀ x ∈ sp, isPerlSpace x = true) ∧ ds ≠ [] ∧
    (∀ x ∈ ds, isPerlDigit x = true) ∧ c ∈ headerSideChars

theorem matchHeader_of_match (seg ds : List Char) (c : Char) (h : HeaderMatch seg ds c) :
    matchHeader seg = some (ds, c) := by
  obtain ⟨sp, rest, rfl, hsp, hne, hds, hc⟩ := h
  cases ds with
  | nil => exact absurd rfl hne
  | cons d ds' =>
    have h1 := takeDropWhile_append isPerlSpace sp ((d :: ds') ++ c :: rest) hsp (by
      intro x hx
      simp only [List.cons_append, List.head?_cons, Option.some.injEq] at hx
      subst hx
      exact not_space_of_digit _ (hds _ (by simp)))
    have h2 := takeDropWhile_append isPerlDigit (d :: ds') (c :: rest) hds (by
      intro x hx
      simp only [List.head?_cons, Option.some.injEq] at hx
      subst hx
      exact side_not_digit _ hc)
    unfold matchHeader
    simp only [List.append_assoc, h1.1, h2.1, h2.2]
    simp [hc]

theorem match_of_matchHeader (seg ds : List Char) (c : Char) (h : matchHeader seg = some (ds, c)) :
    HeaderMatch seg ds c := by
  unfold matchHeader at h
  simp only at h
  split at h
  · rename_i c' tail hd
    split at h
    · rename_i hcond
      simp only [Option.some.injEq, Prod.mk.injEq] at h
      obtain ⟨h1, h2⟩ := h
      subst h2
      simp only [Bool.and_eq_true, Bool.not_eq_eq_eq_not, Bool.not_true] at hcond
      refine ⟨seg.takeWhile isPerlSpace, tail, ?_, ?_, ?_, ?_, ?_⟩
      · rw [List.append_assoc, ← h1, ← hd, List.takeWhile_append_dropWhile,
          List.takeWhile_append_dropWhile]
      · intro x hx; exact mem_takeWhile_imp' hx
      · intro e; rw [h1, e] at hcond; simp at hcond
      · intro x hx; rw [← h1] at hx; exact mem_takeWhile_imp' hx
      · simpa using hcond.2
    · cases h
  · cases h

theorem matchHeader_some_iff (seg ds : List Char) (c : Char) :
    matchHeader seg = some (ds, c) ↔ HeaderMatch seg ds c :=
  ⟨match_of_matchHeader seg ds c, matchHeader_of_match seg ds c⟩

theorem matchHeader_none_iff (seg : List Char) :
    matchHeader seg = none ↔ ¬ ∃ ds c, HeaderMatch seg ds c := by
  constructor
  · rintro h ⟨ds, c, hm⟩
    rw [matchHeader_of_match seg ds c hm] at h
    cases h
  · intro h
    cases hm : matchHeader seg with
    | none => rfl
    | some dc => exact absurd ⟨dc.1, dc.2, match_of_matchHeader seg dc.1 dc.2 hm⟩ h

/-- decimal value of a digit string -/
def decimalValue (ds : List Char) : Nat :=
  ds.foldl (fun acc c => acc * 10 + (c.toNat - '0'.toNat)) 0

theorem parseUsize_eq (ds : List Char) :
    parseUsize ds =
      if (∀ c ∈ ds, '0' ≤ c ∧ c ≤ '9') ∧ decimalValue ds ≤ usizeMax then some (decimalValue ds)
      else none := by
  unfold parseUsize decimalValue
  by_cases h1 : ∀ c ∈ ds, '0' ≤ c ∧ c ≤ '9'
  · have : (ds.all fun c => decide ('0' ≤ c ∧ c ≤ '9')) = true := by
      simpa [List.all_eq_true] using h1
    rw [if_pos this]
    have h1' : (∀ c ∈ ds, '0' ≤ c ∧ c ≤ '9') = True := eq_true h1
    simp only [h1', true_and]
  · have : ¬ (ds.all fun c => decide ('0' ≤ c ∧ c ≤ '9')) = true := by
      simpa [List.all_eq_true] using h1
    rw [if_neg this]
    simp [h1]

/-- the outcome of `parseState` in terms of the header match -/
theorem parseState_header (t : List Char) :
    (∀ ds c, matchHeader ((splitBar t).headD []) = some (ds, c) →
      (parseUsize ds = none → parseState t = .err) ∧
      (∀ n, parseUsize ds = some n → ∀ s, parseState t = .ok s →
        s.moveNo = n ∧ s.p1Turn = (c != 's' && c != 'b'))) ∧
    (matchHeader ((splitBar t).headD []) = none → ∀ s, parseState t = .ok s →
      s.moveNo = 2 ∧ s.p1Turn = true) := by
  refine ⟨fun ds c hm => ⟨fun hn => ?_, fun n hn s hs => ?_⟩, fun hm s hs => ?_⟩
  · unfold parseState; simp only [hm, hn]
  · unfold parseState at hs
    simp only [hm, hn] at hs
    split at hs
    · cases hs
    · injection hs with hs; subst hs; exact ⟨rfl, rfl⟩
  · unfold parseState at hs
    simp only [hm] at hs
    split at hs
    · cases hs
    · injection hs with hs; subst hs; exact ⟨rfl, rfl⟩

theorem parseState_no_panic (t : List Char) : parseState t ≠ .panic := by
  unfold parseState
  simp only
  split
  · intro h; cases h
  · split <;> intro h <;> cases h

/-! ### Part 3: digits -/

theorem natDigits_eq (n : Nat) : natDigits n = Nat.toDigits 10 n := by
  simp [natDigits]

theorem natDigits_ne_nil (n : Nat) : natDigits n ≠ [] := by
  rw [natDigits_eq]; exact Nat.toDigits_ne_nil

theorem natDigits_ascii (n : Nat) (c : Char) (h : c ∈ natDigits n) : 48 ≤ c.toNat ∧ c.toNat ≤ 57 := by
  rw [natDigits_eq] at h
  have hd := Nat.isDigit_of_mem_toDigits (by decide) (by decide) h
  simp [Char.isDigit] at hd
  obtain ⟨h1, h2⟩ := hd
  rw [UInt32.le_iff_toNat_le] at h1 h2
  exact ⟨h1, h2⟩

theorem natDigits_le (n : Nat) (c : Char) (h : c ∈ natDigits n) : '0' ≤ c ∧ c ≤ '9' := by
  have := natDigits_ascii n c h
  rw [char_le_iff, char_le_iff]
  exact this

theorem natDigits_no_bar (n : Nat) : '|' ∉ natDigits n := by
  intro h
  have := natDigits_ascii n _ h
  simp at this

theorem natDigits_perlDigit (n : Nat) (c : Char) (h : c ∈ natDigits n) : isPerlDigit c = true := by
  have := natDigits_ascii n c h
  unfold isPerlDigit inRanges perlDigit
  rw [List.any_cons]
  simp [this.1, this.2]

theorem decimalValue_natDigits (n : Nat) : decimalValue (natDigits n) = n := by
  have h := Nat.ofDigitChars_ten_toDigits (n := n)
  rw [Nat.ofDigitChars_eq_foldl] at h
  rw [natDigits_eq]
  unfold decimalValue
  have : (fun (acc : Nat) (c : Char) => acc * 10 + (c.toNat - '0'.toNat)) =
      (fun sofar c => 10 * sofar + (c.toNat - '0'.toNat)) := by
    funext a c; rw [Nat.mul_comm]
  rw [this]; exact h

/-- the digit round trip: a printed number that fits `usize` parses back to itself -/
theorem parseUsize_natDigits (n : Nat) (h : n ≤ usizeMax) : parseUsize (natDigits n) = some n := by
  rw [parseUsize_eq, decimalValue_natDigits]
  rw [if_pos ⟨natDigits_le n, h⟩]

/-- a printed number that does not fit `usize` is rejected -/
theorem parseUsize_natDigits_big (n : Nat) (h : usizeMax < n) : parseUsize (natDigits n) = none := by
  rw [parseUsize_eq, decimalValue_natDigits]
  rw [if_neg (by omega)]

/-! ### Part 4: cells -/

theorem isP1Piece_sqBit (b : Board) (i : Nat) (hi : i < 64) : isP1Piece (sqBit i) b = bit b.p1 i := by
  show ((sqBit i &&& b.p1) != 0) = bit b.p1 i
  exact sqBit_and_ne_zero _ i hi

theorem cellChar_eq (b : Board) (hw : WF b) (i : Nat) (hi : i < 64) :
    cellChar b i =
      match typeAt b i with
      | some p => pieceToLetter p (bit b.p1 i)
      | none => if displayTrapIdx.contains i then 'x' else ' ' := by
  unfold cellChar
  rw [pieceTypeAtSquare_eq b hw i hi, isP1Piece_sqBit b i hi]
  cases typeAt b i <;> rfl

theorem charToPiece_letter (p : Piece) (u : Bool) :
    charToPiece (pieceToLetter p u) = some p ∧ (pieceToLetter p u).isUpper = u := by
  cases p <;> cases u <;> decide

theorem cellChar_ne_bar (b : Board) (i : Nat) : cellChar b i ≠ '|' := by
  unfold cellChar
  split
  · rename_i p _
    generalize isP1Piece (sqBit i) b = u
    cases p <;> cases u <;> decide
  · split <;> decide

/-- the accumulated cell boards agree with `b` on all squares below `B` and are empty above -/
structure CellsAgree (b : Board) (cs : Cells) (B : Nat) : Prop where
  e : ∀ i, i < 64 → bit cs.e i = (decide (i < B) && bit b.elephants i)
  m : ∀ i, i < 64 → bit cs.m i = (decide (i < B) && bit b.camels i)
  h : ∀ i, i < 64 → bit cs.h i = (decide (i < B) && bit b.horses i)
  d : ∀ i, i < 64 → bit cs.d i = (decide (i < B) && bit b.dogs i)
  c : ∀ i, i < 64 → bit cs.c i = (decide (i < B) && bit b.cats i)
  r : ∀ i, i < 64 → bit cs.r i = (decide (i < B) && bit b.rabbits i)
  p1 : ∀ i, i < 64 → bit cs.p1 i = (decide (i < B) && bit b.p1 i)

theorem CellsAgree.empty (b : Board) : CellsAgree b {} 0 := by
  constructor <;> intros <;> simp

theorem CellsAgree.add {b : Board} (hw : WF b) {cs : Cells} {j : Nat} (h : CellsAgree b cs j)
    (hj : j < 64) (p : Piece) (ht : typeAt b j = some p) :
    CellsAgree b (cs.add p (bit b.p1 j) (sqBit j)) (j + 1) := by
  have hb := typeAt_some_bits b hw j hj p ht
  have he := hb .elephant; have hm := hb .camel; have hh := hb .horse
  have hd := hb .dog; have hc := hb .cat; have hr := hb .rabbit
  simp only [Board.typeBits] at he hm hh hd hc hr
  have key : ∀ i, i ≠ j → decide (i < j + 1) = decide (i < j) := by
    intro i hne; simp; omega
  constructor
  all_goals
    intro i hi
    by_cases e : i = j
    · subst e
      cases p <;> cases hu : bit b.p1 i <;>
        simp [Cells.add, bit_or, sqBit_bit, h.e i hi, h.m i hi, h.h i hi, h.d i hi, h.c i hi,
          h.r i hi, h.p1 i hi, he, hm, hh, hd, hc, hr, hu, hi]
    · cases p <;> cases hu : bit b.p1 j <;>
        simp [Cells.add, bit_or, sqBit_bit, h.e i hi, h.m i hi, h.h i hi, h.d i hi, h.c i hi,
          h.r i hi, h.p1 i hi, e, key i e]

theorem CellsAgree.skip {b : Board} (hw : WF b) {cs : Cells} {j : Nat} (h : CellsAgree b cs j)
    (hj : j < 64) (ht : typeAt b j = none) : CellsAgree b cs (j + 1) := by
  have hb := typeAt_none_bits b j ht
  have he := hb .elephant; have hm := hb .camel; have hh := hb .horse
  have hd := hb .dog; have hc := hb .cat; have hr := hb .rabbit
  simp only [Board.typeBits] at he hm hh hd hc hr
  have hp : bit b.p1 j = false := by
    cases hp : bit b.p1 j with
    | false => rfl
    | true =>
      have := hw.p1_sub j hj hp
      rw [hw.all_eq j hj] at this
      simp [he, hm, hh, hd, hc, hr] at this
  have key : ∀ i, i ≠ j → decide (i < j + 1) = decide (i < j) := by
    intro i hne; simp; omega
  constructor
  all_goals
    intro i hi
    by_cases e : i = j
    · subst e
      simp [h.e i hi, h.m i hi, h.h i hi, h.d i hi, h.c i hi, h.r i hi, h.p1 i hi,
        he, hm, hh, hd, hc, hr, hp]
    · simp [h.e i hi, h.m i hi, h.h i hi, h.d i hi, h.c i hi, h.r i hi, h.p1 i hi, key i e]

theorem board_of_agree {b : Board} (hw : WF b) {cs : Cells} (h : CellsAgree b cs 64) :
    Board.new cs.p1 cs.e cs.m cs.h cs.d cs.c cs.r = b := by
  have he : cs.e = b.elephants := bb_ext _ _ (fun i hi => by rw [h.e i hi]; simp [hi])
  have hm : cs.m = b.camels := bb_ext _ _ (fun i hi => by rw [h.m i hi]; simp [hi])
  have hh : cs.h = b.horses := bb_ext _ _ (fun i hi => by rw [h.h i hi]; simp [hi])
  have hd : cs.d = b.dogs := bb_ext _ _ (fun i hi => by rw [h.d i hi]; simp [hi])
  have hc : cs.c = b.cats := bb_ext _ _ (fun i hi => by rw [h.c i hi]; simp [hi])
  have hr : cs.r = b.rabbits := bb_ext _ _ (fun i hi => by rw [h.r i hi]; simp [hi])
  have hp : cs.p1 = b.p1 := bb_ext _ _ (fun i hi => by rw [h.p1 i hi]; simp [hi])
  have hall : b.elephants ||| b.camels ||| b.horses ||| b.dogs ||| b.cats ||| b.rabbits = b.all :=
    bb_ext _ _ (fun i hi => by rw [hw.all_eq i hi]; simp [bit_or])
  unfold Board.new
  rw [he, hm, hh, hd, hc, hr, hp, hall]

/-- the cell loop over the printed cells `c .. c+k-1` of row `r` -/
theorem parseRowCells_print (b : Board) (hw : WF b) (r : Nat) (hr : r < 8) :
    ∀ (k c : Nat) (cs : Cells), c + k ≤ 8 → CellsAgree b cs (r * 8 + c) →
      ∃ cs', parseRowCells r ((List.range' c k).map (fun col => cellChar b (r * 8 + col))) c cs =
          some cs' ∧ CellsAgree b cs' (r * 8 + c + k) := by
  intro k
  induction k with
  | zero => intro c cs _ h; exact ⟨cs, by simp [parseRowCells], h⟩
  | succ k ih =>
    intro c cs hck h
    have hj : r * 8 + c < 64 := by omega
    rw [List.range'_succ, List.map_cons, parseRowCells, cellChar_eq b hw _ hj]
    have hnext : r * 8 + c + (k + 1) = r * 8 + (c + 1) + k := by omega
    rw [hnext]
    cases ht : typeAt b (r * 8 + c) with
    | none =>
      have h' := h.skip hw hj ht
      have hn : charToPiece (if displayTrapIdx.contains (r * 8 + c) then 'x' else ' ') = none := by
        split <;> decide
      simp only [hn]
      exact ih (c + 1) cs (by omega) h'
    | some p =>
      have h' := h.add hw hj p ht
      obtain ⟨h1, h2⟩ := charToPiece_letter p (bit b.p1 (r * 8 + c))
      simp only [h1, h2]
      have hcond : ¬ (r ≥ BOARD_HEIGHT ∨ c ≥ BOARD_WIDTH) := by
        rw [board_width_eq, board_height_eq]; omega
      rw [if_neg hcond]
      have hm : (r * BOARD_WIDTH + c) % 256 = r * 8 + c := by rw [board_width_eq]; omega
      rw [hm]
      exact ih (c + 1) _ (by omega) h'

/-! ### Part 5: the text level -/

theorem oddElems_cells (f : Nat → Char) (l : List Nat) :
    oddElems (l.flatMap (fun col => [' ', f col]) ++ [' ']) = l.map f := by
  induction l with
  | nil => rfl
  | cons a l ih => simp [List.flatMap_cons, oddElems, ih]

/-- the text between the two bars of a printed row -/
def rowBody (b : Board) (row : Nat) : List Char :=
  (List.range 8).flatMap (fun col => [' ', cellChar b (row * 8 + col)]) ++ [' ']

theorem oddElems_rowBody (b : Board) (row : Nat) :
    oddElems (rowBody b row) = (List.range' 0 8).map (fun col => cellChar b (row * 8 + col)) := by
  unfold rowBody
  rw [oddElems_cells (fun col => cellChar b (row * 8 + col)), List.range_eq_range']

theorem rowBody_no_bar (b : Board) (row : Nat) : '|' ∉ rowBody b row := by
  unfold rowBody
  simp only [List.mem_append, List.mem_flatMap, List.mem_cons, List.not_mem_nil, or_false]
  rintro (⟨col, _, h | h⟩ | h)
  · exact absurd h (by decide)
  · exact cellChar_ne_bar _ _ h.symm
  · exact absurd h (by decide)

theorem showRow_eq (b : Board) (row : Nat) :
    showRow b row = natDigits (8 - row) ++ '|' :: (rowBody b row ++ '|' :: ['\n']) := by
  have : " |\n".toList = [' ', '|', '\n'] := by decide
  simp [showRow, rowBody, board_width_eq, board_height_eq, this]

theorem splitBar_nobar (a : List Char) (h : '|' ∉ a) : splitBar a = [a] := by
  induction a with
  | nil => rfl
  | cons c cs ih =>
    have hc : c ≠ '|' := fun e => h (by simp [e])
    have := ih (fun hm => h (by simp [hm]))
    unfold splitBar
    simp [hc, this]

theorem splitBar_append_bar (a rest : List Char) (h : '|' ∉ a) :
    splitBar (a ++ '|' :: rest) = a :: splitBar rest := by
  induction a with
  | nil => simp [splitBar]
  | cons c cs ih =>
    have hc : c ≠ '|' := fun e => h (by simp [e])
    have := ih (fun hm => h (by simp [hm]))
    rw [List.cons_append, splitBar]
    simp [hc, this]

/-- splitting `pre ++ (printed rows r .. r+k-1) ++ F` on bars: the odd segments are exactly the
row bodies, the first segment starts with `pre` -/
theorem split_rows (b : Board) (F : List Char) (hF : '|' ∉ F) :
    ∀ (k r : Nat) (pre : List Char), '|' ∉ pre →
      ∃ suf rest, splitBar (pre ++ ((List.range' r k).flatMap (showRow b) ++ F)) = (pre ++ suf) :: rest ∧
        oddElems ((pre ++ suf) :: rest) = (List.range' r k).map (rowBody b) := by
  intro k
  induction k with
  | zero =>
    intro r pre hpre
    refine ⟨F, [], ?_, rfl⟩
    simp only [List.range'_zero, List.flatMap_nil, List.nil_append]
    exact splitBar_nobar _ (by simp [hpre, hF])
  | succ k ih =>
    intro r pre hpre
    obtain ⟨suf, rest, h1, h2⟩ := ih (r + 1) ['\n'] (by decide)
    refine ⟨natDigits (8 - r), rowBody b r :: (['\n'] ++ suf) :: rest, ?_, ?_⟩
    · rw [List.range'_succ, List.flatMap_cons, showRow_eq]
      have : ∀ X : List Char,
          pre ++ ((natDigits (8 - r) ++ '|' :: (rowBody b r ++ '|' :: ['\n']) ++ X) ++ F) =
          (pre ++ natDigits (8 - r)) ++ '|' :: (rowBody b r ++ '|' :: (['\n'] ++ (X ++ F))) := by
        intro X; simp [List.append_assoc]
      rw [this, splitBar_append_bar _ _ (by
        simp only [List.mem_append, not_or]; exact ⟨hpre, natDigits_no_bar _⟩),
        splitBar_append_bar _ _ (rowBody_no_bar b r), h1]
    · rw [List.range'_succ, List.map_cons, oddElems, h2]

/-- the rows loop over the printed row bodies `r .. r+k-1` -/
theorem parseRows_print (b : Board) (hw : WF b) :
    ∀ (k r : Nat) (cs : Cells), r + k ≤ 8 → CellsAgree b cs (r * 8) →
      ∃ cs', parseRows ((List.range' r k).map (rowBody b)) r cs = some cs' ∧
        CellsAgree b cs' ((r + k) * 8) := by
  intro k
  induction k with
  | zero => intro r cs _ h; exact ⟨cs, by simp [parseRows], h⟩
  | succ k ih =>
    intro r cs hrk h
    rw [List.range'_succ, List.map_cons, parseRows, oddElems_rowBody]
    obtain ⟨cs1, h1, h2⟩ := parseRowCells_print b hw r (by omega) 8 0 cs (by omega) (by simpa using h)
    rw [h1]
    simp only
    have : r + (k + 1) = r + 1 + k := by omega
    rw [this]
    exact ih (r + 1) cs1 (by omega) (by rw [Nat.add_mul]; simpa using h2)

/-! ### Part 6: the round trip -/

def footer : List Char := "   a b c d e f g h\n".toList

theorem showState_eq (s : GameState) :
    showState s =
      (natDigits s.moveNo ++ [if s.p1Turn then 'g' else 's', '\n'] ++ border) ++
        ((List.range' 0 8).flatMap (showRow s.board) ++ (border ++ footer)) := by
  unfold showState footer
  rw [board_height_eq, List.range_eq_range']
  simp only [List.append_assoc]

/-- the printed form depends only on move number, side and board -/
theorem showState_congr (s s' : GameState) (hb : s'.board = s.board) (ht : s'.p1Turn = s.p1Turn)
    (hm : s'.moveNo = s.moveNo) : showState s' = showState s := by
  unfold showState; rw [hb, ht, hm]

/-- the segments of a printed state: the header segment matches the regex with the printed digits
and side letter, the odd segments are the eight row bodies -/
theorem showState_segments (s : GameState) :
    ∃ seg0 rest, splitBar (showState s) = seg0 :: rest ∧
      matchHeader seg0 = some (natDigits s.moveNo, if s.p1Turn then 'g' else 's') ∧
      oddElems (seg0 :: rest) = (List.range' 0 8).map (rowBody s.board) := by
  have hF : '|' ∉ border ++ footer := by decide
  have hpre : '|' ∉ natDigits s.moveNo ++ [if s.p1Turn then 'g' else 's', '\n'] ++ border := by
    have hb : '|' ∉ border := by decide
    have := natDigits_no_bar s.moveNo
    cases s.p1Turn <;> simp [this, hb]
  obtain ⟨suf, rest, h1, h2⟩ := split_rows s.board _ hF 8 0 _ hpre
  refine ⟨_, rest, by rw [showState_eq]; exact h1, ?_, h2⟩
  apply matchHeader_of_match
  refine ⟨[], '\n' :: (border ++ suf), by simp [List.append_assoc], by simp, natDigits_ne_nil _,
    natDigits_perlDigit _, ?_⟩
  cases s.p1Turn <;> decide

theorem parseState_showState (s : GameState) (hw : WF s.board) (hn : s.moveNo ≤ usizeMax) :
    ∃ s', parseState (showState s) = .ok s' ∧ s'.board = s.board ∧ s'.p1Turn = s.p1Turn ∧
      s'.moveNo = s.moveNo := by
  obtain ⟨seg0, rest, h1, hmatch, h2⟩ := showState_segments s
  obtain ⟨cs, h3, h4⟩ := parseRows_print s.board hw 8 0 {} (by omega)
    (by simpa using CellsAgree.empty s.board)
  unfold parseState
  rw [h1]
  simp only [List.headD_cons, hmatch, parseUsize_natDigits _ hn, h2, h3]
  refine ⟨_, rfl, board_of_agree hw (by simpa using h4), ?_, rfl⟩
  show ((if s.p1Turn then 'g' else 's') != 's' && (if s.p1Turn then 'g' else 's') != 'b') = s.p1Turn
  cases s.p1Turn <;> decide

/-- finding F4: a printed move number above `usize::MAX` is rejected (by an error, not a panic) -/
theorem parseState_showState_big (s : GameState) (hn : usizeMax < s.moveNo) :
    parseState (showState s) = .err := by
  obtain ⟨seg0, rest, h1, hmatch, _⟩ := showState_segments s
  unfold parseState
  rw [h1]
  simp only [List.headD_cons, hmatch, parseUsize_natDigits_big _ hn]

/-! ### Part 7: what the parser computes on arbitrary text -/

def Cells.typeBits (cs : Cells) : Piece → BB
  | .elephant => cs.e | .camel => cs.m | .horse => cs.h | .dog => cs.d | .cat => cs.c
  | .rabbit => cs.r

theorem Cells.add_typeBits (cs : Cells) (p : Piece) (u : Bool) (x : BB) (f : Piece) (i : Nat) :
    bit ((cs.add p u x).typeBits f) i = (bit (cs.typeBits f) i || (decide (f = p) && bit x i)) := by
  cases p <;> cases f <;> cases u <;> simp [Cells.add, Cells.typeBits, bit_or]

theorem Cells.add_p1 (cs : Cells) (p : Piece) (u : Bool) (x : BB) (i : Nat) :
    bit (cs.add p u x).p1 i = (bit cs.p1 i || (u && bit x i)) := by
  cases p <;> cases u <;> simp [Cells.add, bit_or]

theorem exists_cons_index {α : Type} (a : α) (l : List α) (P : Nat → α → Prop) :
    (∃ k ch, (a :: l)[k]? = some ch ∧ P k ch) ↔ P 0 a ∨ ∃ k ch, l[k]? = some ch ∧ P (k + 1) ch := by
  constructor
  · rintro ⟨k, ch, h1, h2⟩
    cases k with
    | zero => simp at h1; subst h1; exact Or.inl h2
    | succ k => exact Or.inr ⟨k, ch, by simpa using h1, h2⟩
  · rintro (h | ⟨k, ch, h1, h2⟩)
    · exact ⟨0, a, by simp, h⟩
    · exact ⟨k + 1, ch, by simpa using h1, h2⟩

/-- the cell loop fails exactly when some piece letter lies outside the 8×8 grid -/
theorem parseRowCells_none_iff (r : Nat) (l : List Char) (c : Nat) (cs : Cells) :
    parseRowCells r l c cs = none ↔
      ∃ k ch, l[k]? = some ch ∧ ((charToPiece ch).isSome = true ∧ (8 ≤ r ∨ 8 ≤ c + k)) := by
  induction l generalizing c cs with
  | nil => simp [parseRowCells]
  | cons a rest ih =>
    rw [parseRowCells, exists_cons_index a rest (fun k ch => (charToPiece ch).isSome = true ∧ (8 ≤ r ∨ 8 ≤ c + k))]
    have hshift : ∀ k, c + 1 + k = c + (k + 1) := by intro k; omega
    cases hcp : charToPiece a with
    | none =>
      simp only [ih (c + 1) cs, hshift]
      simp
    | some p =>
      simp only [board_width_eq, board_height_eq]
      by_cases hcond : r ≥ 8 ∨ c ≥ 8
      · rw [if_pos hcond]
        simp only [true_iff]
        exact Or.inl ⟨by simp, by simpa using hcond⟩
      · rw [if_neg hcond, ih, ]
        simp only [hshift]
        constructor
        · intro h; exact Or.inr h
        · rintro (⟨_, h⟩ | h)
          · exact absurd (by simpa using h) hcond
          · exact h

/-- on success the cell loop adds, for every piece letter of the row, the bit of its square to the
board of its type (and to the gold board iff the letter is upper case) — and nothing else -/
theorem parseRowCells_some_spec (r : Nat) (l : List Char) (c : Nat) (cs cs' : Cells)
    (h : parseRowCells r l c cs = some cs') (i : Nat) :
    (∀ f, bit (cs'.typeBits f) i = true ↔ bit (cs.typeBits f) i = true ∨
      ∃ k ch, l[k]? = some ch ∧ (charToPiece ch = some f ∧ i = r * 8 + (c + k))) ∧
    (bit cs'.p1 i = true ↔ bit cs.p1 i = true ∨
      ∃ k ch, l[k]? = some ch ∧ ((charToPiece ch).isSome = true ∧ ch.isUpper = true ∧
        i = r * 8 + (c + k))) := by
  induction l generalizing c cs with
  | nil =>
    simp only [parseRowCells, Option.some.injEq] at h
    subst h
    simp
  | cons a rest ih =>
    rw [parseRowCells] at h
    have hshift : ∀ k, c + 1 + k = c + (k + 1) := by intro k; omega
    cases hcp : charToPiece a with
    | none =>
      rw [hcp] at h
      simp only at h
      obtain ⟨h1, h2⟩ := ih (c + 1) cs h
      constructor
      · intro f
        rw [h1 f, exists_cons_index a rest (fun k ch => charToPiece ch = some f ∧ i = r * 8 + (c + k))]
        simp [hcp, hshift]
      · rw [h2, exists_cons_index a rest (fun k ch => (charToPiece ch).isSome = true ∧
            ch.isUpper = true ∧ i = r * 8 + (c + k))]
        simp [hcp, hshift]
    | some p =>
      rw [hcp] at h
      simp only [board_width_eq, board_height_eq] at h
      by_cases hcond : r ≥ 8 ∨ c ≥ 8
      · rw [if_pos hcond] at h; cases h
      · rw [if_neg hcond] at h
        have hm : (r * 8 + c) % 256 = r * 8 + c := by omega
        have hlt : r * 8 + c < 64 := by omega
        rw [hm] at h
        obtain ⟨h1, h2⟩ := ih (c + 1) _ h
        constructor
        · intro f
          rw [h1 f, exists_cons_index a rest (fun k ch => charToPiece ch = some f ∧ i = r * 8 + (c + k)),
            Cells.add_typeBits, sqBit_bit]
          simp only [hcp, hshift, Option.some.injEq, Nat.add_zero, Bool.or_eq_true,
            Bool.and_eq_true, decide_eq_true_eq]
          constructor
          · rintro ((h | ⟨rfl, _, rfl⟩) | h)
            · exact Or.inl h
            · exact Or.inr (Or.inl ⟨rfl, rfl⟩)
            · exact Or.inr (Or.inr h)
          · rintro (h | ⟨rfl, rfl⟩ | h)
            · exact Or.inl (Or.inl h)
            · exact Or.inl (Or.inr ⟨rfl, hlt, rfl⟩)
            · exact Or.inr h
        · rw [h2, exists_cons_index a rest (fun k ch => (charToPiece ch).isSome = true ∧
            ch.isUpper = true ∧ i = r * 8 + (c + k)), Cells.add_p1, sqBit_bit]
          simp only [hcp, hshift, Option.isSome_some, true_and, Nat.add_zero, Bool.or_eq_true,
            Bool.and_eq_true, decide_eq_true_eq]
          constructor
          · rintro ((h | ⟨hu, _, rfl⟩) | h)
            · exact Or.inl h
            · exact Or.inr (Or.inl ⟨hu, rfl⟩)
            · exact Or.inr (Or.inr h)
          · rintro (h | ⟨hu, rfl⟩ | h)
            · exact Or.inl (Or.inl h)
            · exact Or.inl (Or.inr ⟨hu, hlt, rfl⟩)
            · exact Or.inr h

/-- the rows loop fails exactly when some piece letter lies outside the 8×8 grid -/
theorem parseRows_none_iff (ls : List (List Char)) (r : Nat) (cs : Cells) :
    parseRows ls r cs = none ↔
      ∃ j line, ls[j]? = some line ∧ ∃ k ch, (oddElems line)[k]? = some ch ∧
        ((charToPiece ch).isSome = true ∧ (8 ≤ r + j ∨ 8 ≤ k)) := by
  induction ls generalizing r cs with
  | nil => simp [parseRows]
  | cons line rest ih =>
    rw [parseRows, exists_cons_index line rest (fun j line => ∃ k ch, (oddElems line)[k]? = some ch ∧
        ((charToPiece ch).isSome = true ∧ (8 ≤ r + j ∨ 8 ≤ k)))]
    have hshift : ∀ j, r + 1 + j = r + (j + 1) := by intro j; omega
    have hrow := parseRowCells_none_iff r (oddElems line) 0 cs
    simp only [Nat.zero_add] at hrow
    cases hc : parseRowCells r (oddElems line) 0 cs with
    | none =>
      simp only [true_iff]
      exact Or.inl (by simpa using hrow.mp hc)
    | some cs1 =>
      simp only [ih (r + 1) cs1, hshift]
      constructor
      · intro h; exact Or.inr h
      · rintro (h | h)
        · have := hrow.mpr (by simpa using h)
          rw [hc] at this; cases this
        · exact h

/-- on success the rows loop adds exactly the bits of the piece letters of the grid -/
theorem parseRows_some_spec (ls : List (List Char)) (r : Nat) (cs cs' : Cells)
    (h : parseRows ls r cs = some cs') (i : Nat) :
    (∀ f, bit (cs'.typeBits f) i = true ↔ bit (cs.typeBits f) i = true ∨
      ∃ j line, ls[j]? = some line ∧ ∃ k ch, (oddElems line)[k]? = some ch ∧
        (charToPiece ch = some f ∧ i = (r + j) * 8 + k)) ∧
    (bit cs'.p1 i = true ↔ bit cs.p1 i = true ∨
      ∃ j line, ls[j]? = some line ∧ ∃ k ch, (oddElems line)[k]? = some ch ∧
        ((charToPiece ch).isSome = true ∧ ch.isUpper = true ∧ i = (r + j) * 8 + k)) := by
  induction ls generalizing r cs with
  | nil =>
    simp only [parseRows, Option.some.injEq] at h
    subst h
    simp
  | cons line rest ih =>
    rw [parseRows] at h
    have hshift : ∀ j, r + 1 + j = r + (j + 1) := by intro j; omega
    cases hc : parseRowCells r (oddElems line) 0 cs with
    | none => rw [hc] at h; cases h
    | some cs1 =>
      rw [hc] at h
      simp only at h
      obtain ⟨h1, h2⟩ := ih (r + 1) cs1 h
      obtain ⟨g1, g2⟩ := parseRowCells_some_spec r (oddElems line) 0 cs cs1 hc i
      simp only [Nat.zero_add] at g1 g2
      constructor
      · intro f
        rw [h1 f, g1 f, exists_cons_index line rest (fun j line => ∃ k ch, (oddElems line)[k]? = some ch ∧
          (charToPiece ch = some f ∧ i = (r + j) * 8 + k))]
        simp only [hshift, Nat.add_zero, or_assoc]
      · rw [h2, g2, exists_cons_index line rest (fun j line => ∃ k ch, (oddElems line)[k]? = some ch ∧
          ((charToPiece ch).isSome = true ∧ ch.isUpper = true ∧ i = (r + j) * 8 + k))]
        simp only [hshift, Nat.add_zero, or_assoc]

/-- the character in row `r`, column `c` of the grid the parser samples: odd bar-separated
segments are rows, odd characters of a row are cells -/
def cellAt (t : List Char) (r c : Nat) : Option Char :=
  ((oddElems (splitBar t))[r]?).bind (fun line => (oddElems line)[c]?)

theorem cellAt_eq_some (t : List Char) (r c : Nat) (ch : Char) :
    cellAt t r c = some ch ↔
      ∃ line, (oddElems (splitBar t))[r]? = some line ∧ (oddElems line)[c]? = some ch := by
  unfold cellAt
  rw [Option.bind_eq_some_iff]

/-- a piece letter outside the 8×8 grid -/
def PieceOutside (t : List Char) : Prop :=
  ∃ r c ch, cellAt t r c = some ch ∧ (charToPiece ch).isSome = true ∧ (8 ≤ r ∨ 8 ≤ c)

theorem parseRows_none_iff_outside (t : List Char) :
    parseRows (oddElems (splitBar t)) 0 {} = none ↔ PieceOutside t := by
  rw [parseRows_none_iff]
  unfold PieceOutside
  simp only [cellAt_eq_some, Nat.zero_add]
  constructor
  · rintro ⟨j, line, h1, k, ch, h2, h3, h4⟩
    exact ⟨j, k, ch, ⟨line, h1, h2⟩, h3, h4⟩
  · rintro ⟨j, k, ch, ⟨line, h1, h2⟩, h3, h4⟩
    exact ⟨j, line, h1, k, ch, h2, h3, h4⟩

/-- `parseState` returns `Err` exactly for an unparsable move number or a piece outside the grid -/
theorem parseState_err_iff (t : List Char) :
    parseState t = .err ↔
      (∃ ds c, matchHeader ((splitBar t).headD []) = some (ds, c) ∧ parseUsize ds = none) ∨
        PieceOutside t := by
  rw [← parseRows_none_iff_outside]
  unfold parseState
  simp only
  cases hm : matchHeader ((splitBar t).headD []) with
  | none =>
    cases hr : parseRows (oddElems (splitBar t)) 0 {} <;> simp
  | some dc =>
    obtain ⟨ds, c⟩ := dc
    cases hu : parseUsize ds with
    | none => simp [hu]
    | some n => cases hr : parseRows (oddElems (splitBar t)) 0 {} <;> simp [hu]

/-- the board of a successful parse, square by square: the type boards carry the piece letters of
the 8×8 grid, the gold board the upper-case ones -/
theorem parseState_board_spec (t : List Char) (s : GameState) (h : parseState t = .ok s)
    (i : Nat) :
    (∀ f, bit (s.board.typeBits f) i = true ↔
      ∃ ch, cellAt t (i / 8) (i % 8) = some ch ∧ charToPiece ch = some f) ∧
    (bit s.board.p1 i = true ↔
      ∃ ch, cellAt t (i / 8) (i % 8) = some ch ∧ (charToPiece ch).isSome = true ∧
        ch.isUpper = true) := by
  obtain ⟨cs, hcs, hb⟩ := parseState_ok_shape t s h
  have hno : ¬ PieceOutside t := by
    rw [← parseRows_none_iff_outside, hcs]; simp
  obtain ⟨h1, h2⟩ := parseRows_some_spec _ 0 {} cs hcs i
  have hty : ∀ f, s.board.typeBits f = cs.typeBits f := by
    intro f; rw [hb]; cases f <;> rfl
  have hp1 : s.board.p1 = cs.p1 := by rw [hb]; rfl
  have hempty : ∀ f, bit ((({} : Cells)).typeBits f) i = false := by
    intro f; cases f <;> simp [Cells.typeBits]
  have hempty1 : bit (({} : Cells)).p1 i = false := by simp
  constructor
  · intro f
    rw [hty f, h1 f, hempty f]
    simp only [Bool.false_eq_true, false_or, Nat.zero_add, cellAt_eq_some]
    constructor
    · rintro ⟨j, line, g1, k, ch, g2, g3, g4⟩
      have hk : k < 8 ∧ j < 8 := by
        apply Classical.byContradiction
        intro hn
        exact hno ⟨j, k, ch, (cellAt_eq_some t j k ch).mpr ⟨line, g1, g2⟩, by simp [g3], by omega⟩
      have e1 : i / 8 = j := by omega
      have e2 : i % 8 = k := by omega
      rw [e1, e2]
      exact ⟨ch, ⟨line, g1, g2⟩, g3⟩
    · rintro ⟨ch, ⟨line, g1, g2⟩, g3⟩
      exact ⟨i / 8, line, g1, i % 8, ch, g2, g3, by omega⟩
  · rw [hp1, h2, hempty1]
    simp only [Bool.false_eq_true, false_or, Nat.zero_add, cellAt_eq_some]
    constructor
    · rintro ⟨j, line, g1, k, ch, g2, g3, g4, g5⟩
      have hk : k < 8 ∧ j < 8 := by
        apply Classical.byContradiction
        intro hn
        exact hno ⟨j, k, ch, (cellAt_eq_some t j k ch).mpr ⟨line, g1, g2⟩, g3, by omega⟩
      have e1 : i / 8 = j := by omega
      have e2 : i % 8 = k := by omega
      rw [e1, e2]
      exact ⟨ch, ⟨line, g1, g2⟩, g3, g4⟩
    · rintro ⟨ch, ⟨line, g1, g2⟩, g3, g4⟩
      exact ⟨i / 8, line, g1, i % 8, ch, g2, g3, g4, by omega⟩

end Arimaa
