import Arimaa.Lemmas.GenAgree

/-! Agreement of the hand-written model with the regenerated translation of engine.rs: piece masks, influence, support, threat and freezing. -/
namespace Arimaa
open Gen GameState

set_option linter.unusedSimpArgs false

theorem agree_influenced_squares (x : BB) :
    Gen.Fn.influenced_squares x = influencedSquares x := by
  first
    | rfl
    | (simp only [Gen.Fn.influenced_squares, influencedSquares] <;> first | rfl | ac_rfl)
    | bitwise_agree

theorem agree_supported_pieces (x : BB) :
    Gen.Fn.supported_pieces x = supportedPieces x := by
  first
    | rfl
    | (simp only [Gen.Fn.supported_pieces, supportedPieces] <;> first | rfl | ac_rfl)
    | bitwise_agree

theorem agree_player_piece_mask (b : Board) (g : Bool) :
    Gen.Fn.player_piece_mask b g = b.playerPieceMask g := by
  first
    | rfl
    | (simp only [Gen.Fn.player_piece_mask, Board.playerPieceMask] <;> first | rfl | ac_rfl)
    | bitwise_agree

theorem agree_curr_player_piece_mask (s : GameState) (b : Board) :
    Gen.Fn.curr_player_piece_mask s.p1Turn b = s.currPlayerPieceMask b := by
  first
    | rfl
    | (simp only [Gen.Fn.curr_player_piece_mask, currPlayerPieceMask] <;> first | rfl | ac_rfl)
    | bitwise_agree

theorem agree_opponent_piece_mask (s : GameState) (b : Board) :
    Gen.Fn.opponent_piece_mask s.p1Turn b = s.opponentPieceMask b := by
  first
    | rfl
    | (simp only [Gen.Fn.opponent_piece_mask, opponentPieceMask] <;> first | rfl | ac_rfl)
    | bitwise_agree

theorem agree_threatened_pieces (g : Bool) (pred prey : BB) (b : Board) :
    Gen.Fn.threatened_pieces g pred prey b = threatenedPieces pred prey b := by
  first
    | rfl
    | (simp only [Gen.Fn.threatened_pieces, threatenedPieces, agree_influenced_squares] <;> first | rfl | ac_rfl)
    | bitwise_agree

theorem agree_curr_player_non_frozen_pieces (s : GameState) (b : Board) :
    Gen.Fn.curr_player_non_frozen_pieces s.p1Turn b = s.currPlayerNonFrozenPieces b := by
  first
    | rfl
    | (simp only [Gen.Fn.curr_player_non_frozen_pieces, currPlayerNonFrozenPieces, agree_opponent_piece_mask, agree_threatened_pieces, agree_supported_pieces] <;> first | rfl | ac_rfl)
    | bitwise_agree

end Arimaa
