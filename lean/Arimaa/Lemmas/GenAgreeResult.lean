import Arimaa.Lemmas.GenAgree

/-! Agreement of the hand-written model with the regenerated translation of engine.rs: rabbit on the goal rank, loss of all rabbits. -/
namespace Arimaa
open Gen GameState

set_option linter.unusedSimpArgs false

theorem agree_rabbit_at_goal (s : GameState) (b : Board) :
    Gen.Fn.rabbit_at_goal s.p1Turn b = s.rabbitAtGoal b := by
  first
    | rfl
    | (simp only [Gen.Fn.rabbit_at_goal, rabbitAtGoal] <;> first | rfl | ac_rfl)
    | bitwise_agree

theorem agree_lost_all_rabbits (s : GameState) (b : Board) :
    Gen.Fn.lost_all_rabbits s.p1Turn b = s.lostAllRabbits b := by
  first
    | rfl
    | (simp only [Gen.Fn.lost_all_rabbits, lostAllRabbits] <;> first | rfl | ac_rfl)
    | bitwise_agree

end Arimaa
