import Arimaa.Impl.Text
import Arimaa.Lemmas.Bits
import Arimaa.Lemmas.SquareBits

/-!
Helper lemmas for C16 (notation of actions, squares, pieces, directions).
Characters are compared through `Char.toNat`; the finite facts (64 squares, 8 files x 8 ranks,
6 pieces, 4 directions) are discharged by `decide`.
-/
namespace Arimaa
open Gen

/-! ### characters -/

theorem char_le_iff (a b : Char) : a ≤ b ↔ a.toNat ≤ b.toNat := by
  rw [Char.le_def, UInt32.le_iff_toNat_le]; rfl

/-- a character whose code lies in `[lo, lo + 8)` is `Char.ofNat (lo + i)` for an `i : Fin 8` -/
theorem char_of_range (c : Char) (lo : Nat) (h1 : lo ≤ c.toNat) (h2 : c.toNat < lo + 8) :
    ∃ i : Fin 8, c = Char.ofNat (lo + i.1) ∧ c.toNat = lo + i.1 := by
  refine ⟨⟨c.toNat - lo, by omega⟩, ?_, ?_⟩
  · have : lo + (c.toNat - lo) = c.toNat := by omega
    simp only [this, Char.ofNat_toNat]
  · simp only; omega

/-- decimal printing of a single digit -/
theorem natDigits_lt10 (n : Nat) (h : n < 10) : natDigits n = [Char.ofNat (48 + n)] := by
  have : ∀ n : Fin 10, natDigits n.1 = [Char.ofNat (48 + n.1)] := by decide
  exact this ⟨n, h⟩

/-! ### pieces and directions -/

theorem pieceOfChar_some (c : Char) (p : Piece) (h : pieceOfChar c = some p) :
    c = pieceLetter p ∨ c = (pieceLetter p).toUpper := by
  unfold pieceOfChar at h
  split at h <;> simp_all <;> subst h <;> decide

theorem dirOfChar_some (c : Char) (d : Dir) (h : dirOfChar c = some d) : c = dirLetter d := by
  unfold dirOfChar at h
  split at h <;> simp_all <;> subst h <;> decide

theorem pieceOfChar_letter (p : Piece) : pieceOfChar (pieceLetter p) = some p := by
  cases p <;> decide

theorem pieceOfChar_upper (p : Piece) : pieceOfChar (pieceLetter p).toUpper = some p := by
  cases p <;> decide

theorem pieceUpperLetter_eq (p : Piece) : pieceUpperLetter p = (pieceLetter p).toUpper := by
  cases p <;> decide

theorem dirOfChar_letter (d : Dir) : dirOfChar (dirLetter d) = some d := by
  cases d <;> decide

theorem pieceLetter_ne_p (p : Piece) : pieceLetter p ≠ 'p' := by cases p <;> decide

theorem parsePiece_showPiece (p : Piece) : parsePiece (showPiece p) = .ok p := by
  simp [parsePiece, showPiece, pieceOfChar_letter]

theorem parsePiece_upper (p : Piece) : parsePiece [(pieceLetter p).toUpper] = .ok p := by
  simp [parsePiece, pieceOfChar_upper]

theorem parseDir_showDir (d : Dir) : parseDir (showDir d) = .ok d := by
  simp [parseDir, showDir, dirOfChar_letter]

theorem parsePiece_ok (t : List Char) (p : Piece) (h : parsePiece t = .ok p) :
    t = showPiece p ∨ t = [(pieceLetter p).toUpper] := by
  unfold parsePiece at h
  split at h
  · rename_i c
    split at h
    · rename_i q hq
      cases h
      rcases pieceOfChar_some c p hq with h | h <;> simp [showPiece, h]
    · cases h
  · cases h

theorem parseDir_ok (t : List Char) (d : Dir) (h : parseDir t = .ok d) : t = showDir d := by
  unfold parseDir at h
  split at h
  · rename_i c
    split at h
    · rename_i q hq
      cases h
      simp [showDir, dirOfChar_some c d hq]
    · cases h
  · cases h

/-! ### squares -/

theorem showSquare_eq (sq : Nat) (h : sq < 64) :
    showSquare sq = [Char.ofNat (97 + sq % 8), Char.ofNat (48 + (8 - sq / 8))] := by
  have : ∀ s : Fin 64, showSquare s.1 = [Char.ofNat (97 + s.1 % 8), Char.ofNat (48 + (8 - s.1 / 8))] := by
    decide
  exact this ⟨sq, h⟩

theorem parseSquare_showSquare (sq : Nat) (h : sq < 64) : parseSquare (showSquare sq) = .ok sq := by
  have : ∀ s : Fin 64, parseSquare (showSquare s.1) = .ok s.1 := by decide
  exact this ⟨sq, h⟩

/-- the 8 x 8 table of printed squares, by file `i` and rank `j + 1` -/
theorem showSquare_file_rank (i j : Fin 8) :
    showSquare (i.1 + (7 - j.1) * 8) = [Char.ofNat (97 + i.1), Char.ofNat (49 + j.1)] := by
  revert i j; decide

/-- what a successful `parseSquare` says about its input -/
theorem parseSquare_ok_shape (t : List Char) (sq : Nat) (h : parseSquare t = .ok sq) :
    ∃ i j : Fin 8, t = [Char.ofNat (97 + i.1), Char.ofNat (49 + j.1)] ∧ sq = i.1 + (7 - j.1) * 8 := by
  unfold parseSquare at h
  split at h
  · rename_i column row
    split at h
    · rename_i r hr
      split at h
      · rename_i hc
        cases h
        unfold parseDigitChar at hr
        split at hr
        · rename_i hd
          cases hr
          simp only [char_le_iff] at hc hd
          have e1 : (Char.ofNat ASCII_LETTER_A).toNat = 97 := by decide
          have e2 : (Char.ofNat (ASCII_LETTER_A + BOARD_WIDTH - 1)).toNat = 104 := by decide
          have e3 : '0'.toNat = 48 := by decide
          have e4 : '9'.toNat = 57 := by decide
          have e5 : BOARD_HEIGHT = 8 := by decide
          rw [e1, e2, e3, e5] at hc
          rw [e3, e4] at hd
          obtain ⟨i, hi, hi'⟩ := char_of_range column 97 (by omega) (by omega)
          obtain ⟨j, hj, hj'⟩ := char_of_range row 49 (by omega) (by omega)
          refine ⟨i, j, by rw [← hi, ← hj], ?_⟩
          unfold sqNew
          have e6 : ASCII_LETTER_A = 97 := by decide
          rw [e3, e5, e6, hi', hj']
          omega
        · cases hr
      · cases h
    · cases h
  · cases h

theorem parseSquare_ok (t : List Char) (sq : Nat) (h : parseSquare t = .ok sq) :
    sq < 64 ∧ t = showSquare sq := by
  obtain ⟨i, j, ht, hs⟩ := parseSquare_ok_shape t sq h
  refine ⟨by omega, ?_⟩
  rw [ht, hs, showSquare_file_rank]

theorem sqNew_column_row (sq : Nat) (h : sq < 64) : sqNew (sqColumnChar sq) (sqRow sq) = sq := by
  have : ∀ s : Fin 64, sqNew (sqColumnChar s.1) (sqRow s.1) = s.1 := by decide
  exact this ⟨sq, h⟩

/-- `Square::new` on a file letter and a rank gives a board square with that file and rank -/
theorem sqNew_file_rank (i j : Fin 8) :
    sqNew (Char.ofNat (97 + i.1)) (j.1 + 1) = i.1 + (7 - j.1) * 8 ∧
    sqColumnChar (i.1 + (7 - j.1) * 8) = Char.ofNat (97 + i.1) ∧
    sqRow (i.1 + (7 - j.1) * 8) = j.1 + 1 := by
  revert i j; decide

/-! ### actions -/

theorem parseAction_showAction (a : Action) (h : ∀ sq d, a = .move sq d → sq < 64) :
    parseAction (showAction a) = .ok a := by
  cases a with
  | pass => decide
  | place p => cases p <;> decide
  | move sq d =>
    have hs := h sq d rfl
    simp only [showAction, showSquare_eq sq hs, showDir, List.cons_append, List.nil_append, parseAction]
    rw [← showSquare_eq sq hs, parseSquare_showSquare sq hs]
    have := parseDir_showDir d
    simp only [showDir] at this
    simp only [this]

theorem parseAction_ok (t : List Char) (a : Action) (h : parseAction t = .ok a) :
    t = showAction a ∨ ∃ p, a = .place p ∧ t = [(pieceLetter p).toUpper] := by
  unfold parseAction at h
  split at h
  · rename_i c
    split at h
    · rename_i hc
      cases h; left; simp [showAction, hc]
    · split at h
      · rename_i p hp
        cases h
        rcases parsePiece_ok _ _ hp with h | h
        · left; simp [showAction, h]
        · right; exact ⟨p, rfl, h⟩
      · cases h
  · rename_i x y z
    split at h
    · rename_i sq hsq
      split at h
      · rename_i d hd
        cases h
        left
        have h1 := (parseSquare_ok _ _ hsq).2
        have h2 := parseDir_ok _ _ hd
        simp only [showAction, ← h1, ← h2]
        rfl
      · cases h
    · cases h
  · cases h

/-! ### no panic -/

theorem parsePiece_no_panic (t : List Char) : parsePiece t ≠ .panic := by
  unfold parsePiece; split
  · split <;> simp
  · simp

theorem parseDir_no_panic (t : List Char) : parseDir t ≠ .panic := by
  unfold parseDir; split
  · split <;> simp
  · simp

theorem parseSquare_no_panic (t : List Char) : parseSquare t ≠ .panic := by
  unfold parseSquare; split
  · split
    · split <;> simp
    · simp
  · simp

theorem parseAction_no_panic (t : List Char) : parseAction t ≠ .panic := by
  unfold parseAction; split
  · split
    · simp
    · split <;> simp
  · split
    · split <;> simp
    · simp
  · simp

end Arimaa
