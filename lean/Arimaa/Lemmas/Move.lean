import Arimaa.Lemmas.Frozen
import Arimaa.Lemmas.GenAgreeMove

/-!
`PieceBoard::move_piece` and `remove_trapped_pieces` pointwise, their abstraction to
`Spec.move` / `Spec.capture`, and preservation of well-formedness.
-/
namespace Arimaa
open Gen Spec

theorem nbr_lt (i : Nat) (d : Spec.Dir) (j : Nat) (hi : i < 64) (h : nbr i d = some j) : j < 64 := by
  cases d <;> simp only [nbr] at h <;> split at h <;> simp at h <;> omega

theorem nbr_ne (i : Nat) (d : Spec.Dir) (j : Nat) (h : nbr i d = some j) : j ≠ i := by
  cases d <;> simp only [nbr] at h <;> split at h <;> simp at h <;> omega

/-- `shift_piece_in_direction` on the source bit of square `sq` towards its neighbour `j` -/
theorem shiftPiece_bit (x : BB) (sq : Nat) (d : Dir) (j k : Nat) (hsq : sq < 64) (hk : k < 64)
    (hn : nbr sq (dirSpec d) = some j) :
    bit (shiftPieceInDirection x (sqBit sq) d) k =
      ((decide (k = j) && bit x sq) || (decide (k ≠ sq) && bit x k)) := by
  unfold shiftPieceInDirection
  rw [bit_or, bit_and, bit_not, sqBit_bit]
  have hrest : (bit x k && (decide (k < 64) && !(decide (k < 64) && decide (k = sq)))) =
      (decide (k ≠ sq) && bit x k) := by
    by_cases e : k = sq <;> simp [hk, e]
  rw [hrest]
  congr 1
  cases d <;> simp only [shiftInDirection, dirSpec, nbr] at hn ⊢ <;> split at hn <;> simp at hn <;> subst hn
  · -- up: j = sq - 8
    rw [shiftUp_bit, bit_and, sqBit_bit]
    by_cases e : k + 8 = sq
    · have e2 : k = sq - 8 := by omega
      rw [e, decide_eq_true hsq, decide_eq_true e2]; simp
    · have e2 : ¬ k = sq - 8 := by omega
      rw [decide_eq_false e, decide_eq_false e2]; simp
  · -- right: j = sq + 1
    rw [shiftRight_bit, bit_and, sqBit_bit]
    by_cases e : k = sq + 1
    · subst e
      simp [hk, hsq]
    · by_cases h0 : 1 ≤ k
      · have : ¬ k - 1 = sq := by omega
        simp [e, this]
      · simp [e, h0]
  · -- down: j = sq + 8
    rw [shiftDown_bit, bit_and, sqBit_bit]
    by_cases e : k = sq + 8
    · subst e
      simp [hk, hsq]
    · by_cases h0 : 8 ≤ k
      · have : ¬ k - 8 = sq := by omega
        simp [e, this]
      · simp [e, h0]
  · -- left: j = sq - 1
    rw [shiftLeft_bit, bit_and, sqBit_bit]
    by_cases e : k + 1 = sq
    · have e2 : k = sq - 1 := by omega
      rw [e, decide_eq_true hsq, decide_eq_true e2]; simp
    · have e2 : ¬ k = sq - 1 := by omega
      rw [decide_eq_false e, decide_eq_false e2]; simp

/-- the bit at `k` of a board after the piece on `sq` stepped to `j` -/
def movedBit (sq j k : Nat) (x : BB) : Bool := (decide (k = j) && bit x sq) || (decide (k ≠ sq) && bit x k)

theorem movedBit_dest (sq j : Nat) (x : BB) (h : j ≠ sq) : movedBit sq j j x = (bit x sq || bit x j) := by
  simp [movedBit, h]
theorem movedBit_src (sq j : Nat) (x : BB) (h : j ≠ sq) : movedBit sq j sq x = false := by
  have : ¬ sq = j := fun e => h e.symm
  simp [movedBit, this]
theorem movedBit_other (sq j k : Nat) (x : BB) (h1 : k ≠ j) (h2 : k ≠ sq) : movedBit sq j k x = bit x k := by
  simp [movedBit, h1, h2]

/-- every board of `move_piece` pointwise (source `sq`, destination `j`) -/
theorem movePiece_bits (b : Board) (sq : Nat) (d : Dir) (j : Nat) (hsq : sq < 64)
    (hn : nbr sq (dirSpec d) = some j) (k : Nat) (hk : k < 64) :
    let f := movedBit sq j k
    bit (b.movePiece sq d).p1 k = f b.p1 ∧ bit (b.movePiece sq d).all k = f b.all ∧
    bit (b.movePiece sq d).elephants k = f b.elephants ∧ bit (b.movePiece sq d).camels k = f b.camels ∧
    bit (b.movePiece sq d).horses k = f b.horses ∧ bit (b.movePiece sq d).dogs k = f b.dogs ∧
    bit (b.movePiece sq d).cats k = f b.cats ∧ bit (b.movePiece sq d).rabbits k = f b.rabbits := by
  simp only [Board.movePiece]
  exact ⟨shiftPiece_bit _ sq d j k hsq hk hn, shiftPiece_bit _ sq d j k hsq hk hn,
    shiftPiece_bit _ sq d j k hsq hk hn, shiftPiece_bit _ sq d j k hsq hk hn,
    shiftPiece_bit _ sq d j k hsq hk hn, shiftPiece_bit _ sq d j k hsq hk hn,
    shiftPiece_bit _ sq d j k hsq hk hn, shiftPiece_bit _ sq d j k hsq hk hn⟩

/-- moving onto an empty square keeps the board well-formed -/
theorem movePiece_wf (b : Board) (hw : WF b) (sq : Nat) (d : Dir) (j : Nat) (hsq : sq < 64)
    (hn : nbr sq (dirSpec d) = some j) (hempty : bit b.all j = false) : WF (b.movePiece sq d) := by
  have hj := nbr_lt sq _ j hsq hn
  have hne := nbr_ne sq _ j hn
  have hty := hw.all_eq j hj
  rw [hempty] at hty
  have hp1j : bit b.p1 j = false := by
    cases h : bit b.p1 j
    · rfl
    · have := hw.p1_sub j hj h; rw [hempty] at this; cases this
  have hty' : bit b.elephants j = false ∧ bit b.camels j = false ∧ bit b.horses j = false ∧
      bit b.dogs j = false ∧ bit b.cats j = false ∧ bit b.rabbits j = false := by
    revert hty
    cases bit b.elephants j <;> cases bit b.camels j <;> cases bit b.horses j <;>
      cases bit b.dogs j <;> cases bit b.cats j <;> cases bit b.rabbits j <;> simp
  obtain ⟨je, jm, jh, jd, jc, jr⟩ := hty'
  refine ⟨?_, ?_, ?_⟩
  · intro k hk
    obtain ⟨_, _, he, hm, hh, hd, hc, hr⟩ := movePiece_bits b sq d j hsq hn k hk
    rw [he, hm, hh, hd, hc, hr]
    by_cases ekj : k = j
    · subst ekj
      simp only [movedBit_dest sq k _ hne, je, jm, jh, jd, jc, jr, Bool.or_false]
      exact hw.excl sq hsq
    · by_cases eks : k = sq
      · subst eks
        simp [movedBit_src k j _ hne]
      · simp only [movedBit_other sq j k _ ekj eks]
        exact hw.excl k hk
  · intro k hk
    obtain ⟨_, ha, he, hm, hh, hd, hc, hr⟩ := movePiece_bits b sq d j hsq hn k hk
    rw [ha, he, hm, hh, hd, hc, hr]
    by_cases ekj : k = j
    · subst ekj
      simp only [movedBit_dest sq k _ hne, je, jm, jh, jd, jc, jr, Bool.or_false, hempty]
      exact hw.all_eq sq hsq
    · by_cases eks : k = sq
      · subst eks
        simp [movedBit_src k j _ hne]
      · simp only [movedBit_other sq j k _ ekj eks]
        exact hw.all_eq k hk
  · intro k hk
    obtain ⟨hp, ha, _⟩ := movePiece_bits b sq d j hsq hn k hk
    rw [hp, ha]
    by_cases ekj : k = j
    · subst ekj
      simp only [movedBit_dest sq k _ hne, hp1j, hempty, Bool.or_false]
      exact hw.p1_sub sq hsq
    · by_cases eks : k = sq
      · subst eks
        simp [movedBit_src k j _ hne]
      · simp only [movedBit_other sq j k _ ekj eks]
        exact hw.p1_sub k hk

end Arimaa
