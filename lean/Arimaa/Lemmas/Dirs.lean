import Arimaa.Lemmas.Capture
import Arimaa.Lemmas.SquareBits

/-!
Directions: the generated direction-indexed shifts against the specification's `nbr`.
-/
namespace Arimaa
open Gen Spec

def Spec.Dir.opp : Spec.Dir → Spec.Dir
  | .n => .s | .s => .n | .e => .w | .w => .e

theorem nbr_opp (i j : Nat) (d : Spec.Dir) (hi : i < 64) (h : nbr i d = some j) : nbr j d.opp = some i := by
  cases d <;> simp only [nbr, Spec.Dir.opp] at h ⊢ <;> split at h <;> simp at h <;> subst h
  · have : i - 8 + 8 < 64 := by omega
    simp [this]; omega
  · have : (i + 1) % 8 ≠ 0 := by omega
    simp [this]
  · have : 8 ≤ i + 8 := by omega
    simp [this]
  · have : (i - 1) % 8 ≠ 7 := by omega
    simp [this]; omega

theorem nbr_inj (i i' j : Nat) (d : Spec.Dir) (h : nbr i d = some j) (h' : nbr i' d = some j) : i = i' := by
  cases d <;> simp only [nbr] at h h' <;> split at h <;> split at h' <;> simp at h h' <;> omega

theorem dirSpec_opp_opp (d : Spec.Dir) : d.opp.opp = d := by cases d <;> rfl

/-- bit `i` of `x` shifted against `d` is `x` at the `d`-neighbour of `i` -/
theorem oppShift_bit (x : BB) (d : Dir) (i : Nat) (h : i < 64) :
    bit (shiftPiecesInOppDirection d x) i =
      (match nbr i (dirSpec d) with
       | some j => bit x j
       | none => false) := by
  cases d <;> simp only [shiftPiecesInOppDirection, dirSpec, nbr]
  · rw [down_bit x i h]; by_cases h8 : 8 ≤ i <;> simp [h8]
  · rw [left_shift_bit x i h]; by_cases h7 : i % 8 = 7 <;> simp [h7]
  · rw [up_bit x i h]; by_cases h8 : i + 8 < 64 <;> simp [h8]
  · rw [right_shift_bit x i h]; by_cases h0 : i % 8 = 0 <;> simp [h0]

/-- bit `i` of `x` shifted along `d` is `x` at the neighbour of `i` opposite to `d` -/
theorem dirShift_bit (x : BB) (d : Dir) (i : Nat) (h : i < 64) :
    bit (shiftPiecesInDirection d x) i =
      (match nbr i (dirSpec d).opp with
       | some j => bit x j
       | none => false) := by
  cases d <;> simp only [shiftPiecesInDirection, dirSpec, nbr, Spec.Dir.opp]
  · rw [up_bit x i h]; by_cases h8 : i + 8 < 64 <;> simp [h8]
  · rw [right_shift_bit x i h]; by_cases h0 : i % 8 = 0 <;> simp [h0]
  · rw [down_bit x i h]; by_cases h8 : 8 ≤ i <;> simp [h8]
  · rw [left_shift_bit x i h]; by_cases h7 : i % 8 = 7 <;> simp [h7]

/-- `can_move_in_direction`: the `d`-neighbour exists and is empty -/
theorem canMove_bit (d : Dir) (b : Board) (i : Nat) (h : i < 64) :
    bit (canMoveInDirection d b) i = true ↔ ∃ j, nbr i (dirSpec d) = some j ∧ bit b.all j = false := by
  unfold canMoveInDirection
  rw [oppShift_bit _ d i h]
  cases hn : nbr i (dirSpec d) with
  | none => simp
  | some j =>
    have hj := nbr_lt i _ j h hn
    simp [bit_not, hj]

/-- the single square from which a step in direction `d` reaches `q` -/
theorem oppShift_sqBit (d : Dir) (q j : Nat) (hj : j < 64) (hn : nbr j (dirSpec d) = some q) :
    shiftPiecesInOppDirection d (sqBit q) = sqBit j := by
  apply bb_ext
  intro i hi
  rw [oppShift_bit _ d i hi, sqBit_bit]
  cases hni : nbr i (dirSpec d) with
  | none =>
    have : i ≠ j := by intro e; subst e; rw [hn] at hni; cases hni
    simp [this]
  | some j' =>
    show bit (sqBit q) j' = _
    rw [sqBit_bit]
    have hj' := nbr_lt i _ j' hi hni
    by_cases e : j' = q
    · subst e
      have := nbr_inj i j j' _ hni hn
      simp [this, hj', hj]
    · have : i ≠ j := by intro e2; subst e2; rw [hn] at hni; cases hni; exact e rfl
      simp [e, this]

theorem oppShift_sqBit_none (d : Dir) (q : Nat) (hq : q < 64)
    (hn : ∀ j, j < 64 → nbr j (dirSpec d) ≠ some q) :
    shiftPiecesInOppDirection d (sqBit q) = 0 := by
  apply bb_ext
  intro i hi
  rw [oppShift_bit _ d i hi]
  cases hni : nbr i (dirSpec d) with
  | none => simp
  | some j' =>
    show bit (sqBit q) j' = _
    rw [sqBit_bit]
    have : j' ≠ q := by intro e; subst e; exact hn i hi hni
    simp [this]

end Arimaa
