import Arimaa.Lemmas.RsAgreeHash

/-!
Agreement of the regenerated model with the hand model: the repetition filter —
`is_passing_like_action`, `remove_passing_like_actions`, `has_non_passing_like_action` (with its early-return loop).
-/
namespace Arimaa.RsAgree
open Arimaa Arimaa.Gen Arimaa.Gen.RsBase Arimaa.Rt

theorem is_passing_like_action_eq (s : GameState) (pp : PlayPhase) (hp : s.phase = .play pp) (a : Action) :
    GameState_is_passing_like_action s a =
      Res.guard (s.isPassingLikeActionPanics pp a) (s.isPassingLikeAction pp a) := by
  unfold GameState_is_passing_like_action GameState.isPassingLikeActionPanics GameState.isPassingLikeAction
  simp only [unwrap_play_phase s pp hp, Res.bind_ok]
  cases a with
  | pass => rfl
  | place p => rfl
  | move sq d =>
    simp only [board_take_action_move, zobrist_move_piece _ s pp hp, is_p1_turn_to_move,
      hash_history_contains_hash_twice_eq, Res.bind_guard, Board.takeActionPanics, Board.movePiecePanics]
    cases sqBitPanics sq
    · cases h3 : zMovePiecePanics s.board pp.step (s.board.takeMove sq d).1 0
      · simp only [Bool.false_eq_true, if_false, Bool.false_or, Res.guard_false, h3]
        congr 1
        cases (zMovePiece s.hash s.p1Turn s.board pp.step (s.board.takeMove sq d).1 0 s.p1Turn == pp.initHash ||
          GameState.histContainsTwice pp.hist
            (zMovePiece s.hash s.p1Turn s.board pp.step (s.board.takeMove sq d).1 0 !s.p1Turn)) <;> rfl
      · simp [h3, Res.guard]
    · rfl

theorem remove_passing_like_actions_eq (s : GameState) (pp : PlayPhase) (hp : s.phase = .play pp)
    (va : List Action) :
    GameState_remove_passing_like_actions s va =
      Res.guard (s.removePassingLikeActionsPanics pp va) (s.removePassingLikeActions pp va) := by
  unfold GameState_remove_passing_like_actions GameState.removePassingLikeActionsPanics
    GameState.removePassingLikeActions
  simp only [unwrap_play_phase s pp hp, Res.bind_ok, play_phase_step]
  cases h : (pp.step == 3 && !pp.trapped)
  · rfl
  · simp only [cond_true, Bool.true_and, if_true]
    rw [Rt.filterM_guard va _ (fun a => s.isPassingLikeActionPanics pp a) (fun a => !s.isPassingLikeAction pp a)]
    intro a _
    rw [is_passing_like_action_eq s pp hp, bind_guard_ok]

theorem find_ret_loop (s : GameState) (pp : PlayPhase) (hp : s.phase = .play pp) (va : List Action) :
    Rt.findRet va (fun action => Res.bind (GameState_is_passing_like_action s action) (fun t =>
        Res.ok (bif !t then some true else none))) =
      Res.guard (GameState.hnplLoopPanics s pp va)
        (if va.any (fun a => !s.isPassingLikeAction pp a) then some true else none) := by
  induction va with
  | nil => rfl
  | cons a rest ih =>
    rw [Rt.findRet_cons, is_passing_like_action_eq s pp hp, Res.bind_guard, ih]
    simp only [GameState.hnplLoopPanics, List.any_cons]
    cases h1 : s.isPassingLikeActionPanics pp a
    · rcases Bool.eq_false_or_eq_true (s.isPassingLikeAction pp a) with h2 | h2
      · rcases Bool.eq_false_or_eq_true (GameState.hnplLoopPanics s pp rest) with h3 | h3 <;>
          simp [Res.guard, Res.bind, h2, h3]
      · simp [Res.guard, Res.bind, h2]
    · rfl

theorem has_non_passing_like_action_eq (s : GameState) (pp : PlayPhase) (hp : s.phase = .play pp)
    (va : List Action) :
    GameState_has_non_passing_like_action s va =
      Res.guard (s.hasNonPassingLikeActionPanics pp va) (s.hasNonPassingLikeAction pp va) := by
  unfold GameState_has_non_passing_like_action GameState.hasNonPassingLikeActionPanics
    GameState.hasNonPassingLikeAction
  cases h0 : va.isEmpty
  · simp only [cond_false, unwrap_play_phase s pp hp, Res.bind_ok, play_phase_step, blt_eq_decide,
      Bool.false_eq_true, if_false]
    cases h1 : (decide (pp.step < 3) || pp.trapped)
    · simp only [cond_false, Bool.false_eq_true, if_false, find_ret_loop s pp hp, Res.bind_guard]
      cases GameState.hnplLoopPanics s pp va
      · cases h2 : va.any (fun a => !s.isPassingLikeAction pp a) <;> simp [Res.guard, h2]
      · rfl
    · rfl
  · rfl

end Arimaa.RsAgree
