import Arimaa.Gen.RsSq
import Arimaa.Lemmas.Bits
import Arimaa.Impl.Panics

/-!
The externs of the engine translation, PROVED: `square.rs`, `bit_manip.rs` and
`action.rs::map_bit_board_to_squares` are translated too (`Gen/RsSq.lean`, same translator; the `while` loop of
`map_bit_board_to_squares` is a fuel-bounded `Rt.whileM`), and the rendering the engine translation assumes for
calls into them (`Rt.asBitBoard`, `sqOfBit`, `Rt.firstSetBit`, `squaresOf`, the identity for `index` /
`from_index`) is shown to be what the translated functions compute — for every argument.
-/
namespace Arimaa.RsAgree
open Arimaa Arimaa.Gen Arimaa.Rt

/-! ### engine-facing contracts -/

theorem square_as_bit_board (sq : Nat) : RsSq.Square_as_bit_board sq = Rt.asBitBoard sq := rfl

theorem square_index (sq : Nat) : RsSq.Square_index sq = sq := rfl

theorem square_from_index (i : Nat) : RsSq.Square_from_index i = i := rfl

theorem tz64_zero' : tz64 (0#64) = 64 := by decide

theorem tz64_eq_64_iff (x : BB) : tz64 x ≥ 64 ↔ x = 0#64 := by
  constructor
  · intro h
    by_cases hx : x = 0#64
    · exact hx
    · have := (tz64_spec x hx).1
      omega
  · intro h; subst h; rw [tz64_zero']; exact Nat.le_refl _

theorem first_set_bit (x : BB) : RsSq.first_set_bit x = Rt.firstSetBit x := by
  unfold RsSq.first_set_bit RsSq.single_bit_index_u64 Rt.shlU64 Rt.firstSetBit Arimaa.firstSetBit
  by_cases hx : x = 0#64
  · subst hx
    simp [tz64_zero']
  · have : ¬ tz64 x ≥ 64 := fun h => hx ((tz64_eq_64_iff x).mp h)
    have hx' : ¬ x = 0 := hx
    simp only [this, if_false, hx', if_false]
    rfl

/-- the lowest set bit found through the 128-bit widening is the one `tz64` finds -/
theorem tz128_toNat (x : BB) (hx : x ≠ 0) : Rt.tz128 x.toNat = tz64 x := by
  obtain ⟨hlt, hbit, hlow⟩ := tz64_spec x hx
  have hne : x.toNat ≠ 0 := by
    intro h0
    apply hx
    apply BitVec.eq_of_toNat_eq
    simpa using h0
  unfold Rt.tz128
  rw [if_neg hne]
  have hfind : (List.range 128).find? (fun i => x.toNat.testBit i) = some (tz64 x) := by
    rw [List.find?_eq_some_iff_append]
    refine ⟨by simpa [bit, BitVec.getLsbD] using hbit, List.range (tz64 x), List.range' (tz64 x + 1) (127 - tz64 x), ?_, ?_⟩
    · have : 128 = tz64 x + (1 + (127 - tz64 x)) := by omega
      rw [List.range_eq_range', this, ← List.range'_append_1, ← List.range'_append_1]
      simp [List.range_eq_range', Nat.add_comm]
    · intro a ha
      have := hlow a (List.mem_range.mp ha)
      simpa [bit, BitVec.getLsbD] using this
  rw [hfind]; rfl

theorem square_from_bit_board (x : BB) : RsSq.Square_from_bit_board x = sqOfBit x := by
  unfold RsSq.Square_from_bit_board RsSq.single_bit_index sqOfBit
  by_cases hx : x = 0
  · subst hx; simp [Rt.tz128]
  · rw [if_neg hx, tz128_toNat x hx]
    have := (tz64_spec x hx).1
    omega

/-! ### `map_bit_board_to_squares`: the loop clears the lowest set bit and records its index -/

theorem squaresOf_lowest (b : BB) (hb : b ≠ 0) :
    squaresOf b = tz64 b :: squaresOf (b ^^^ (1#64 <<< tz64 b)) := by
  obtain ⟨hlt, hbit, hlow⟩ := tz64_spec b hb
  have hmem : tz64 b ∈ squaresOf b := (mem_squaresOf b _).mpr ⟨hlt, hbit⟩
  -- the other word: same bits except the lowest one
  have hbits : ∀ i, i < 64 → bit (b ^^^ (1#64 <<< tz64 b)) i = (bit b i && !(i == tz64 b)) := by
    intro i hi
    have h1 : bit (1#64 <<< tz64 b) i = decide (i = tz64 b) := by
      have := sqBit_bit (tz64 b) i
      simpa [sqBit, hi] using this
    rw [bit_xor, h1]
    by_cases he : i = tz64 b
    · subst he; simp [hbit]
    · simp [he]
  have hfilter : squaresOf (b ^^^ (1#64 <<< tz64 b)) = (squaresOf b).filter (fun i => !(i == tz64 b)) := by
    unfold squaresOf
    rw [List.filter_filter]
    apply List.filter_congr
    intro i hi
    have hi' := List.mem_range.mp hi
    have := hbits i hi'
    simp only [bit] at this
    rw [this, Bool.and_comm]
  rw [hfilter]
  have hs := squaresOf_sorted b
  cases hl : squaresOf b with
  | nil => rw [hl] at hmem; cases hmem
  | cons h tl =>
    rw [hl] at hmem hs
    have hsort := List.pairwise_cons.mp hs
    have hh : h = tz64 b := by
      rcases List.mem_cons.mp hmem with h1 | h1
      · exact h1.symm
      · have hgt := hsort.1 _ h1
        have hhmem : h ∈ squaresOf b := by rw [hl]; exact List.mem_cons_self ..
        have hhb := ((mem_squaresOf b h).mp hhmem).2
        have := hlow h hgt
        rw [this] at hhb; cases hhb
    subst hh
    have htl : tl.filter (fun i => !(i == tz64 b)) = tl := by
      apply List.filter_eq_self.mpr
      intro a ha
      have := hsort.1 a ha
      have hne : a ≠ tz64 b := by omega
      simp [hne]
    rw [List.filter_cons]
    simp only [beq_self_eq_true, Bool.not_true, Bool.false_eq_true, if_false, htl]

theorem map_loop (cond : List Nat × BB → Bool) (body : List Nat × BB → Res (List Nat × BB))
    (hc : ∀ st, cond st = (st.2 != 0))
    (hbody : ∀ st, body st = Res.bind (Rt.shlU64 1 (tz64 st.2)) (fun t1 =>
      Res.ok (st.1 ++ [tz64 st.2 % 256], st.2 ^^^ t1)))
    (fuel : Nat) (acc : List Nat) (b : BB) (hf : (squaresOf b).length < fuel) :
    Rt.whileM fuel (acc, b) cond body = Res.ok (acc ++ squaresOf b, 0#64) := by
  induction fuel generalizing acc b with
  | zero => omega
  | succ n ih =>
    unfold Rt.whileM
    rw [hc]
    by_cases hb : b = 0#64
    · subst hb
      have h0 : squaresOf 0#64 = [] := squaresOf_zero
      simp [h0]
    · have hne : ((acc, b).2 != 0) = true := by simpa using hb
      simp only [hne, cond_true]
      obtain ⟨hlt, _, _⟩ := tz64_spec b hb
      have hshl : Rt.shlU64 1 (tz64 b) = .ok (1#64 <<< tz64 b) := by
        unfold Rt.shlU64
        have : ¬ tz64 b ≥ 64 := by omega
        simp [this]
      rw [hbody]
      simp only [hshl, Res.bind_ok]
      have hmod : tz64 b % 256 = tz64 b := by omega
      rw [hmod]
      have hstep := squaresOf_lowest b hb
      have hlen : (squaresOf (b ^^^ (1#64 <<< tz64 b))).length < n := by
        rw [hstep] at hf
        simp at hf
        omega
      rw [ih _ _ hlen, hstep]
      simp

theorem map_bit_board_to_squares_eq (x : BB) : RsSq.map_bit_board_to_squares x = .ok (squaresOf x) := by
  unfold RsSq.map_bit_board_to_squares
  have hlen : (squaresOf x).length < Rt.loopFuel := by
    have : (squaresOf x).length ≤ 64 := by
      unfold squaresOf
      exact Nat.le_trans (List.length_filter_le _ _) (by simp)
    unfold Rt.loopFuel; omega
  have h := map_loop
    (fun (x : List Nat × BB) => match x with | (squares, board) => board != 0)
    (fun (x : List Nat × BB) => match x with
      | (squares, board) =>
        Res.bind (Rt.shlU64 1 (tz64 board)) (fun t1 =>
          Res.ok (squares ++ [RsSq.Square_from_index (tz64 board % 256)], board ^^^ t1)))
    (fun st => by cases st; rfl) (fun st => by cases st; rfl) Rt.loopFuel [] x hlen
  simp only [List.nil_append] at h
  show Res.bind (Rt.whileM Rt.loopFuel ([], x) _ _) _ = _
  rw [h]
  rfl

end Arimaa.RsAgree
