import Arimaa.Lemmas.History

/-!
Strict replay of long concrete games for `decide +kernel`.

The kernel evaluates lazily and without sharing: after some dozens of actions the boards and hashes
of `s.run as` are towers of unevaluated updates and every look at them repeats the work.  The
functions below evaluate every field of a state to a literal before going on (`forceNat` does a case
split on the number, which makes the kernel compute it, and hands the literal on).  Each `force…` is
propositionally the identity (`force…_eq`), so `replayK` is `run` + `turnStartsFrom` + `offeredB`.
-/
namespace Arimaa
open GameState

variable {α : Type}

def forceNat (x : Nat) (k : Nat → α) : α :=
  match x with
  | 0 => k 0
  | n + 1 => k (Nat.succ n)

theorem forceNat_eq (x : Nat) (k : Nat → α) : forceNat x k = k x := by cases x <;> rfl

def forceBool (b : Bool) (k : Bool → α) : α :=
  match b with
  | true => k true
  | false => k false

theorem forceBool_eq (b : Bool) (k : Bool → α) : forceBool b k = k b := by cases b <;> rfl

def forceBB (x : BB) (k : BB → α) : α := forceNat x.toNat fun n => k (BitVec.ofNat 64 n)

theorem forceBB_eq (x : BB) (k : BB → α) : forceBB x k = k x := by
  unfold forceBB; rw [forceNat_eq, BitVec.ofNat_toNat, BitVec.setWidth_eq]

def forcePiece (p : Piece) (k : Piece → α) : α :=
  match p with
  | .elephant => k .elephant
  | .camel => k .camel
  | .horse => k .horse
  | .dog => k .dog
  | .cat => k .cat
  | .rabbit => k .rabbit

theorem forcePiece_eq (p : Piece) (k : Piece → α) : forcePiece p k = k p := by cases p <;> rfl

def forceBoard (b : Board) (k : Board → α) : α :=
  forceBB b.p1 fun p1 => forceBB b.all fun all => forceBB b.elephants fun e =>
  forceBB b.camels fun m => forceBB b.horses fun h => forceBB b.dogs fun d =>
  forceBB b.cats fun c => forceBB b.rabbits fun r => k ⟨p1, all, e, m, h, d, c, r⟩

theorem forceBoard_eq (b : Board) (k : Board → α) : forceBoard b k = k b := by
  unfold forceBoard; simp only [forceBB_eq]

def forceBBList : List BB → (List BB → α) → α
  | [], k => k []
  | x :: xs, k => forceBB x fun x' => forceBBList xs fun xs' => k (x' :: xs')

theorem forceBBList_eq (l : List BB) (k : List BB → α) : forceBBList l k = k l := by
  induction l generalizing k with
  | nil => rfl
  | cons x xs ih => simp only [forceBBList, forceBB_eq, ih]

def forceBoardList : List Board → (List Board → α) → α
  | [], k => k []
  | x :: xs, k => forceBoard x fun x' => forceBoardList xs fun xs' => k (x' :: xs')

theorem forceBoardList_eq (l : List Board) (k : List Board → α) : forceBoardList l k = k l := by
  induction l generalizing k with
  | nil => rfl
  | cons x xs ih => simp only [forceBoardList, forceBoard_eq, ih]

def forcePPS (p : PPS) (k : PPS → α) : α :=
  match p with
  | .none => k .none
  | .possiblePull sq pc => forceNat sq fun sq' => forcePiece pc fun pc' => k (.possiblePull sq' pc')
  | .mustCompletePush sq pc =>
    forceNat sq fun sq' => forcePiece pc fun pc' => k (.mustCompletePush sq' pc')

theorem forcePPS_eq (p : PPS) (k : PPS → α) : forcePPS p k = k p := by
  cases p <;> simp only [forcePPS, forceNat_eq, forcePiece_eq]

def forcePhase (ph : Phase) (k : Phase → α) : α :=
  match ph with
  | .place => k .place
  | .play pp =>
    forceBoardList pp.prev fun pv => forcePPS pp.pps fun q => forceBB pp.initHash fun ih =>
    forceBBList pp.hist fun hs => forceBool pp.trapped fun tr => k (.play ⟨pv, q, ih, hs, tr⟩)

theorem forcePhase_eq (ph : Phase) (k : Phase → α) : forcePhase ph k = k ph := by
  cases ph <;>
    simp only [forcePhase, forceBoardList_eq, forcePPS_eq, forceBB_eq, forceBBList_eq, forceBool_eq]

def forceState (s : GameState) (k : GameState → α) : α :=
  forceBool s.p1Turn fun t => forceNat s.moveNo fun m => forcePhase s.phase fun ph =>
  forceBoard s.board fun b => forceBB s.hash fun h => k ⟨t, m, ph, b, h⟩

theorem forceState_eq (s : GameState) (k : GameState → α) : forceState s k = k s := by
  unfold forceState
  simp only [forceBool_eq, forceNat_eq, forcePhase_eq, forceBoard_eq, forceBB_eq]

/-- the body of `move_piece` with the new board and the capture flag as parameters -/
def movePieceWith (s : GameState) (pp : PlayPhase) (sq : Nat) (d : Dir) (nb : Board)
    (trappedNow : Bool) : GameState :=
  let cur := pp.step
  let last := decide (cur ≥ 3)
  let newTurn := if last then !s.p1Turn else s.p1Turn
  let newStep := if last then 0 else cur + 1
  let newMoveNo := s.moveNo + (if last && newTurn then 1 else 0)
  let nh := zMovePiece s.hash s.p1Turn s.board cur nb newStep newTurn
  let hist := if trappedNow then [] else pp.hist
  let npp : PlayPhase :=
    if last then PlayPhase.initial nh (nh :: hist)
    else
      { initHash := pp.initHash
        pps := s.nextPushPullState pp sq d
        hist := hist
        prev := pp.prev ++ [s.board]
        trapped := pp.trapped || trappedNow }
  { p1Turn := newTurn, moveNo := newMoveNo, phase := .play npp, board := nb, hash := nh }

theorem movePiece_eq_with (s : GameState) (pp : PlayPhase) (hph : s.phase = .play pp) (sq : Nat)
    (d : Dir) :
    s.movePiece sq d = movePieceWith s pp sq d (s.board.takeMove sq d).1 (s.board.takeMove sq d).2 := by
  unfold movePiece movePieceWith
  rw [hph]

/-- `take_action`, evaluating the new board once and completely before anything else looks at it -/
def takeActionK (s : GameState) (a : Action) (k : GameState → α) : α :=
  match a with
  | .move sq d =>
    match s.phase with
    | .play pp =>
      match s.board.takeMove sq d with
      | (nb, tr) => forceBoard nb fun nb' => forceBool tr fun tr' =>
          forceState (movePieceWith s pp sq d nb' tr') k
    | .place => k s
  | a => forceState (s.takeAction a) k

theorem takeActionK_eq (s : GameState) (a : Action) (k : GameState → α) :
    takeActionK s a k = k (s.takeAction a) := by
  cases a with
  | move sq d =>
    unfold takeActionK
    cases hph : s.phase with
    | place =>
      simp only [takeAction, movePiece, hph]
    | play pp =>
      simp only [forceBoard_eq, forceBool_eq, forceState_eq]
      rw [takeAction, movePiece_eq_with s pp hph]
  | pass => simp only [takeActionK, forceState_eq]
  | place p => simp only [takeActionK, forceState_eq]

/-- a cheap test of "`a` is offered in `s`": membership in the rule-only list and the repetition
test for `a` alone (the offered list itself runs the repetition test on every fourth step) -/
def offeredFast (s : GameState) (a : Action) : Bool :=
  match s.phase with
  | .play pp => decide (a ∈ s.validActionsNoRep) && !s.withheld pp a
  | .place => decide (a ∈ s.validActions)

theorem offeredFast_eq (s : GameState) (a : Action) : offeredFast s a = decide (a ∈ s.validActions) := by
  unfold offeredFast
  cases hph : s.phase with
  | place => rfl
  | play pp =>
    simp only
    rw [Bool.eq_iff_iff]
    simp only [Bool.and_eq_true, decide_eq_true_eq, Bool.not_eq_true']
    exact (C06_mem_iff s pp hph a).symm

/-- strict replay: runs `as` from `s`, extends the ghost list `G`, checks that every action is
offered, and hands final state, final ghost list and the check to the continuation `k` -/
def replayK (s : GameState) (G : List (Board × Bool)) (ok : Bool) :
    List Action → (GameState → List (Board × Bool) → Bool → α) → α
  | [], k => k s G ok
  | a :: as, k =>
    forceBool (ok && offeredFast s a) fun ok' =>
    takeActionK s a fun s' =>
    replayK s' (if endsTurnAt s a then G ++ [posOf s'] else G) ok' as k

theorem replayK_eq (s : GameState) (G : List (Board × Bool)) (ok : Bool) (as : List Action)
    (k : GameState → List (Board × Bool) → Bool → α) :
    replayK s G ok as k = k (s.run as) (turnStartsFrom s G as) (ok && offeredB s as) := by
  induction as generalizing s G ok with
  | nil => simp [replayK, turnStartsFrom, offeredB]
  | cons a as ih =>
    simp only [replayK, forceBool_eq, takeActionK_eq, offeredFast_eq, ih, run_cons, turnStartsFrom, offeredB, ghostStep,
      Bool.and_assoc]

/-- the form used by examples: a Boolean check `c` of final state and turn-start list -/
theorem replay_check (s0 : GameState) (as : List Action)
    (c : GameState → List (Board × Bool) → Bool)
    (h : replayK s0 [posOf s0] true as (fun s G ok => ok && c s G) = true) :
    Offered s0 as ∧ c (s0.run as) (turnStarts s0 as) = true := by
  rw [replayK_eq] at h
  simp only [Bool.true_and, Bool.and_eq_true] at h
  exact ⟨offered_of_offeredB _ _ h.1, h.2⟩

end Arimaa
