import Arimaa.Lemmas.Move
import Arimaa.Lemmas.GenAgreeCapture

/-!
`trapped_piece_bits` / `remove_trapped_pieces` pointwise and their abstraction to `Spec.capture`;
abstraction of `move_piece` to `Spec.move`; together: `Board.takeMove` refines `Spec.applyStep`.
-/
namespace Arimaa
open Gen Spec

theorem isTrapIdx_eq (k : Nat) : isTrapIdx k = Spec.isTrap k := rfl

theorem and_comm_mask (b : Board) : b.all &&& ~~~b.p1 = sideMask b false := by
  unfold sideMask
  simp only [Bool.false_eq_true, if_false]
  exact BitVec.and_comm _ _

/-- the set of captured squares, pointwise -/
theorem trapped_bit (b : Board) (k : Nat) (hk : k < 64) :
    bit b.trappedPieceBits k =
      (bit b.all k && isTrapIdx k &&
        !((bit b.p1 k && nbAny (bit b.p1) k) ||
          (bit (sideMask b false) k && nbAny (bit (sideMask b false)) k))) := by
  unfold Board.trappedPieceBits animalIsOnTrap bothPlayerUnsupportedPieceBits bothPlayerSupportedPieces
  rw [and_comm_mask]
  by_cases h0 : (b.all &&& TRAP_MASK) = 0#64
  · have hz : bit (b.all &&& TRAP_MASK) k = false := by rw [h0]; simp
    rw [bit_and, trap_bit k hk] at hz
    have : ((b.all &&& TRAP_MASK) != 0) = false := by simp [h0]
    simp only [this, Bool.false_eq_true, if_false, bit_zero']
    cases h1 : bit b.all k <;> cases h2 : isTrapIdx k <;> simp_all
  · have : ((b.all &&& TRAP_MASK) != 0) = true := by simp [h0]
    simp only [this, if_true]
    rw [bit_and, bit_and, bit_not, bit_or, supported_bit _ k hk, supported_bit _ k hk, trap_bit k hk]
    simp only [hk, decide_true, Bool.true_and]
    generalize bit b.all k = a; generalize isTrapIdx k = t
    generalize (bit b.p1 k && nbAny (bit b.p1) k) = s1
    generalize (bit (sideMask b false) k && nbAny (bit (sideMask b false)) k) = s2
    revert a t s1 s2; decide

theorem removeTrapped_bits (b : Board) (k : Nat) (hk : k < 64) :
    let nb := (b.removeTrappedPieces).1
    let t := bit b.trappedPieceBits k
    bit nb.p1 k = (bit b.p1 k && !t) ∧ bit nb.all k = (bit b.all k && !t) ∧
    bit nb.elephants k = (bit b.elephants k && !t) ∧ bit nb.camels k = (bit b.camels k && !t) ∧
    bit nb.horses k = (bit b.horses k && !t) ∧ bit nb.dogs k = (bit b.dogs k && !t) ∧
    bit nb.cats k = (bit b.cats k && !t) ∧ bit nb.rabbits k = (bit b.rabbits k && !t) := by
  unfold Board.removeTrappedPieces
  by_cases h0 : b.trappedPieceBits = 0#64
  · simp [h0]
  · have : (b.trappedPieceBits != 0) = true := by simp [h0]
    simp only [this, if_true, bit_and, bit_not, hk, decide_true, Bool.true_and, and_self]

theorem removeTrapped_flag (b : Board) : (b.removeTrappedPieces).2 = (b.trappedPieceBits != 0) := by
  unfold Board.removeTrappedPieces
  by_cases h0 : b.trappedPieceBits = 0#64 <;> simp [h0]

theorem removeTrapped_wf (b : Board) (hw : WF b) : WF (b.removeTrappedPieces).1 := by
  refine ⟨?_, ?_, ?_⟩
  · intro k hk
    obtain ⟨_, _, he, hm, hh, hd, hc, hr⟩ := removeTrapped_bits b k hk
    rw [he, hm, hh, hd, hc, hr]
    have := hw.excl k hk
    cases bit b.trappedPieceBits k
    · simpa using this
    · simp
  · intro k hk
    obtain ⟨_, ha, he, hm, hh, hd, hc, hr⟩ := removeTrapped_bits b k hk
    rw [ha, he, hm, hh, hd, hc, hr, hw.all_eq k hk]
    cases bit b.trappedPieceBits k <;> simp
  · intro k hk
    obtain ⟨hp, ha, _⟩ := removeTrapped_bits b k hk
    rw [hp, ha]
    have := hw.p1_sub k hk
    cases bit b.trappedPieceBits k <;> simp_all

theorem absBoard_ge (b : Board) (k : Nat) (h : 64 ≤ k) : absBoard b k = none := by
  unfold absBoard typeAt; simp [bit_ge _ _ h]

/-- `remove_trapped_pieces` is the specification's capture rule -/
theorem abs_removeTrapped (b : Board) (hw : WF b) :
    absBoard (b.removeTrappedPieces).1 = capture (absBoard b) := by
  funext k
  by_cases hk : k < 64
  · obtain ⟨hp, ha, he, hm, hh, hd, hc, hr⟩ := removeTrapped_bits b k hk
    have ht := trapped_bit b k hk
    unfold capture
    cases hcell : absBoard b k with
    | none =>
      have hnone := (abs_none_iff b hw k hk).mp hcell
      have hty := hw.all_eq k hk
      rw [hnone] at hty
      unfold absBoard typeAt
      rw [he, hm, hh, hd, hc, hr]
      revert hty
      cases bit b.elephants k <;> cases bit b.camels k <;> cases bit b.horses k <;>
        cases bit b.dogs k <;> cases bit b.cats k <;> cases bit b.rabbits k <;> simp
    | some c =>
      have hall : bit b.all k = true := by
        have := abs_isSome b hw k hk; rw [hcell] at this; simpa using this.symm
      have hg := abs_gold b k c hcell
      have hfr : hasFriend (absBoard b) k c.gold =
          ((bit b.p1 k && nbAny (bit b.p1) k) ||
            (bit (sideMask b false) k && nbAny (bit (sideMask b false)) k)) := by
        rw [hasFriend_abs b hw, hg]
        have hs := sideMask_bit b hw false k hk
        rw [hall] at hs
        cases hp1 : bit b.p1 k
        · simp [hs, hp1]
        · have : sideMask b true = b.p1 := rfl
          simp [hs, hp1, this]
      have htk : bit b.trappedPieceBits k = (Spec.isTrap k && !hasFriend (absBoard b) k c.gold) := by
        rw [ht, hall, hfr, isTrapIdx_eq]; simp
      simp only [← htk]
      cases hb : bit b.trappedPieceBits k
      · -- not captured: every bit is unchanged
        have e : absBoard (b.removeTrappedPieces).1 k = absBoard b k := by
          unfold absBoard typeAt
          rw [hp, he, hm, hh, hd, hc, hr, hb]; simp
        rw [e, hcell]; simp
      · unfold absBoard typeAt
        rw [he, hm, hh, hd, hc, hr, hb]; simp
  · have hk' : 64 ≤ k := by omega
    rw [absBoard_ge _ k hk']
    unfold capture
    rw [absBoard_ge _ k hk']

/-- `move_piece` onto an empty neighbour is the specification's `move` -/
theorem abs_movePiece (b : Board) (hw : WF b) (sq : Nat) (d : Dir) (j : Nat) (hsq : sq < 64)
    (hn : nbr sq (dirSpec d) = some j) (hempty : bit b.all j = false) :
    absBoard (b.movePiece sq d) = move (absBoard b) sq j := by
  have hj := nbr_lt sq _ j hsq hn
  have hne := nbr_ne sq _ j hn
  have hty := hw.all_eq j hj
  rw [hempty] at hty
  have hp1j : bit b.p1 j = false := by
    cases h : bit b.p1 j
    · rfl
    · have := hw.p1_sub j hj h; rw [hempty] at this; cases this
  have hty' : bit b.elephants j = false ∧ bit b.camels j = false ∧ bit b.horses j = false ∧
      bit b.dogs j = false ∧ bit b.cats j = false ∧ bit b.rabbits j = false := by
    revert hty
    cases bit b.elephants j <;> cases bit b.camels j <;> cases bit b.horses j <;>
      cases bit b.dogs j <;> cases bit b.cats j <;> cases bit b.rabbits j <;> simp
  obtain ⟨je, jm, jh, jd, jc, jr⟩ := hty'
  funext k
  by_cases hk : k < 64
  · obtain ⟨hp, _, he, hm, hh, hd, hc, hr⟩ := movePiece_bits b sq d j hsq hn k hk
    unfold move
    by_cases ekj : k = j
    · subst ekj
      simp only [if_true]
      unfold absBoard typeAt
      rw [hp, he, hm, hh, hd, hc, hr]
      simp only [movedBit_dest sq k _ hne, je, jm, jh, jd, jc, jr, hp1j, Bool.or_false]
    · by_cases eks : k = sq
      · subst eks
        simp only [ekj, if_false, if_true]
        unfold absBoard typeAt
        rw [he, hm, hh, hd, hc, hr]
        simp [movedBit_src k j _ hne]
      · simp only [ekj, eks, if_false]
        unfold absBoard typeAt
        rw [hp, he, hm, hh, hd, hc, hr]
        simp only [movedBit_other sq j k _ ekj eks]
  · have hk' : 64 ≤ k := by omega
    rw [absBoard_ge _ k hk']
    unfold move
    have h1 : k ≠ j := by omega
    have h2 : k ≠ sq := by omega
    simp [h1, h2, absBoard_ge _ k hk']

/-- `PieceBoard::take_action` refines `Spec.applyStep` (source on the board, destination empty) -/
theorem abs_takeMove (b : Board) (hw : WF b) (sq : Nat) (d : Dir) (j : Nat) (hsq : sq < 64)
    (hn : nbr sq (dirSpec d) = some j) (hempty : bit b.all j = false) :
    absBoard (b.takeMove sq d).1 = applyStep (absBoard b) sq (dirSpec d) ∧ WF (b.takeMove sq d).1 := by
  have hw' := movePiece_wf b hw sq d j hsq hn hempty
  unfold Board.takeMove applyStep
  rw [hn]
  exact ⟨by rw [abs_removeTrapped _ hw', abs_movePiece b hw sq d j hsq hn hempty], removeTrapped_wf _ hw'⟩

end Arimaa
