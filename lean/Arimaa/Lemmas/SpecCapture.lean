import Arimaa.Lemmas.Nodup

/-!
Specification-level facts about captures: the capture rule leaves no unsupported trap piece
(traps are never adjacent), and a single step from a position without unsupported trap pieces
un-supports at most one square (no square is adjacent to two traps).
-/
namespace Arimaa
open Spec

/-- no piece stands on a trap square without a friendly neighbour -/
def NoHanging (b : Spec.Board) : Prop :=
  ∀ k c, k < 64 → b k = some c → isTrap k = true → hasFriend b k c.gold = true

/-- square `k` holds a piece that the capture rule removes -/
def hanging (b : Spec.Board) (k : Nat) : Bool :=
  match b k with
  | some c => isTrap k && !hasFriend b k c.gold
  | none => false

theorem trap_nbr_not_trap : ∀ k : Fin 64, ∀ d : Spec.Dir, isTrap k.1 = true →
    ∀ j, nbr k.1 d = some j → isTrap j = false := by
  intro k d hk j hj
  have hk4 : k.1 = 18 ∨ k.1 = 21 ∨ k.1 = 42 ∨ k.1 = 45 := by
    simp only [isTrap, Bool.or_eq_true, beq_iff_eq] at hk; omega
  rcases hk4 with h | h | h | h <;> rw [h] at hj <;> cases d <;> simp [nbr] at hj <;> subst hj <;> rfl

/-- no square is orthogonally adjacent to two different traps -/
theorem two_traps (i k1 k2 : Nat) (d1 d2 : Spec.Dir) (h1 : nbr i d1 = some k1) (h2 : nbr i d2 = some k2)
    (t1 : isTrap k1 = true) (t2 : isTrap k2 = true) : k1 = k2 := by
  have a1 : k1 = 18 ∨ k1 = 21 ∨ k1 = 42 ∨ k1 = 45 := by
    simp only [isTrap, Bool.or_eq_true, beq_iff_eq] at t1; omega
  have a2 : k2 = 18 ∨ k2 = 21 ∨ k2 = 42 ∨ k2 = 45 := by
    simp only [isTrap, Bool.or_eq_true, beq_iff_eq] at t2; omega
  cases d1 <;> cases d2 <;> simp only [nbr] at h1 h2 <;> split at h1 <;> split at h2 <;>
    simp at h1 h2 <;> omega

theorem capture_eq_of_not_trap (b : Spec.Board) (f : Nat) (h : isTrap f = false) : capture b f = b f := by
  unfold capture
  cases b f <;> simp [h]

theorem capture_some (b : Spec.Board) (k : Nat) (c : Cell) (h : capture b k = some c) :
    b k = some c ∧ (isTrap k = true → hasFriend b k c.gold = true) := by
  unfold capture at h
  cases hb : b k with
  | none => rw [hb] at h; cases h
  | some c' =>
    rw [hb] at h
    simp only at h
    split at h
    · cases h
    · rename_i hn
      cases h
      refine ⟨rfl, ?_⟩
      intro ht
      simp only [ht, Bool.true_and, Bool.not_eq_true', Bool.not_eq_false] at hn
      exact hn

/-- **the capture rule leaves no unsupported trap piece** -/
theorem noHanging_capture (b : Spec.Board) : NoHanging (capture b) := by
  intro k c hk hc ht
  obtain ⟨hbk, hfr⟩ := capture_some b k c hc
  have hf := hfr ht
  unfold hasFriend at hf ⊢
  rw [nbAny_iff] at hf ⊢
  obtain ⟨d, j, hn, ho⟩ := hf
  refine ⟨d, j, hn, ?_⟩
  have hjt := trap_nbr_not_trap ⟨k, hk⟩ d ht j hn
  unfold ownedBy at ho ⊢
  rw [capture_eq_of_not_trap b j hjt]
  exact ho

theorem hanging_iff (b : Spec.Board) (k : Nat) :
    hanging b k = true ↔ ∃ c, b k = some c ∧ isTrap k = true ∧ hasFriend b k c.gold = false := by
  unfold hanging
  cases b k with
  | none => simp
  | some c => simp

theorem capture_apply (b : Spec.Board) (k : Nat) : capture b k = if hanging b k then none else b k := by
  unfold capture hanging
  cases b k with
  | none => simp
  | some c => simp

/-- after moving one piece one square from a position without unsupported trap pieces, at most
one square is unsupported -/
theorem at_most_one_hanging (b : Spec.Board) (hb : NoHanging b) (i j : Nat) (d : Spec.Dir) (hi : i < 64)
    (hn : nbr i d = some j) (hej : b j = none) (k1 k2 : Nat) (hk1 : k1 < 64) (hk2 : k2 < 64)
    (h1 : hanging (move b i j) k1 = true) (h2 : hanging (move b i j) k2 = true) : k1 = k2 := by
  -- every unsupported square other than the destination is a trap next to the source
  have key : ∀ k, k < 64 → hanging (move b i j) k = true → k = j ∨ ∃ d', nbr i d' = some k := by
    intro k hk hh
    by_cases ekj : k = j
    · exact Or.inl ekj
    · right
      rw [hanging_iff] at hh
      obtain ⟨c, hc, ht, hf⟩ := hh
      have eki : k ≠ i := by
        intro e; subst e; simp [move, ekj] at hc
      have hbk : b k = some c := by simpa [move, ekj, eki] using hc
      have hfb := hb k c hk hbk ht
      unfold hasFriend at hfb hf
      rw [nbAny_iff] at hfb
      obtain ⟨d', f, hnf, hof⟩ := hfb
      -- that friend is no longer a friend after the move: it was the piece on `i`
      by_cases efi : f = i
      · subst efi
        exact ⟨d'.opp, by
          have := nbr_opp k f d' hk hnf
          exact this⟩
      · exfalso
        have hfj : f ≠ j := by
          intro e; subst e
          unfold ownedBy at hof; rw [hej] at hof; cases hof
        have : nbAny (ownedBy (move b i j) c.gold) k = true := by
          rw [nbAny_iff]
          refine ⟨d', f, hnf, ?_⟩
          unfold ownedBy at hof ⊢
          simpa [move, hfj, efi] using hof
        rw [this] at hf; cases hf
  have tr : ∀ k, hanging (move b i j) k = true → isTrap k = true := by
    intro k hh; rw [hanging_iff] at hh; obtain ⟨_, _, ht, _⟩ := hh; exact ht
  rcases key k1 hk1 h1 with e1 | ⟨d1, n1⟩ <;> rcases key k2 hk2 h2 with e2 | ⟨d2, n2⟩
  · rw [e1, e2]
  · subst e1; exact two_traps i k1 k2 d d2 hn n2 (tr _ h1) (tr _ h2)
  · subst e2; exact two_traps i k1 k2 d1 d n1 hn (tr _ h1) (tr _ h2)
  · exact two_traps i k1 k2 d1 d2 n1 n2 (tr _ h1) (tr _ h2)

end Arimaa
