import Arimaa.Lemmas.Bits

/-!
Single-bit boards: `sqBit`, `sqOfBit`, `squaresOf` on one square.  (Kept apart from the lemmas about
letters and notation, so that the move-generation proofs do not have the text tables in their closure.)
-/
namespace Arimaa
open Gen

/-! ### single-bit boards -/

theorem sqBit_bit' (sq i : Nat) (h : sq < 64) : bit (sqBit sq) i = decide (i = sq) := by
  rw [sqBit_bit]
  by_cases hi : i = sq
  · subst hi; simp [h]
  · simp [hi]

theorem sqBit_ne_zero (sq : Nat) (h : sq < 64) : sqBit sq ≠ 0 := by
  rw [bb_ne_zero_iff]
  exact ⟨sq, h, by simp [sqBit_bit' sq sq h]⟩

theorem sqOfBit_sqBit (sq : Nat) (h : sq < 64) : sqOfBit (sqBit sq) = sq := by
  have hz := sqBit_ne_zero sq h
  unfold sqOfBit
  rw [if_neg hz]
  obtain ⟨h1, h2, h3⟩ := tz64_spec _ hz
  rw [sqBit_bit' _ _ h] at h2
  simpa using h2

theorem sqBit_injective (s t : Nat) (hs : s < 64) (_ht : t < 64) (h : sqBit s = sqBit t) : s = t := by
  have := sqBit_bit' t s _ht
  rw [← h, sqBit_bit' s s hs] at this
  simpa using this

theorem squaresOf_sqBit (sq : Nat) (h : sq < 64) : squaresOf (sqBit sq) = [sq] := by
  have : ∀ s : Fin 64, squaresOf (sqBit s.1) = [s.1] := by decide
  exact this ⟨sq, h⟩

end Arimaa
