import Arimaa.Lemmas.SpecCapture

/-!
`trapped_animal_for_action` (C13) and the board views (C10) against the abstraction.
-/
namespace Arimaa
open Gen Spec GameState

theorem bitsByPieceTypeField_id (p : Piece) : bitsByPieceTypeField p = p := by cases p <;> rfl

theorem bitsByPieceType_eq (b : Board) (p : Piece) : b.bitsByPieceType p = b.typeBits p := by
  unfold Board.bitsByPieceType; rw [bitsByPieceTypeField_id]

theorem playerPieceMask_eq (b : Board) (g : Bool) : b.playerPieceMask g = sideMask b g := rfl

/-- the captured squares are the unsupported trap squares of the abstraction -/
theorem trapped_bit_hanging (b : Board) (hw : WF b) (k : Nat) (hk : k < 64) :
    bit b.trappedPieceBits k = hanging (absBoard b) k := by
  rw [trapped_bit b k hk]
  unfold hanging
  cases hcell : absBoard b k with
  | none =>
    have := (abs_none_iff b hw k hk).mp hcell
    simp [this]
  | some c =>
    have hall : bit b.all k = true := by
      have := abs_isSome b hw k hk; rw [hcell] at this; simpa using this.symm
    have hg := abs_gold b k c hcell
    simp only [hasFriend_abs b hw, hg, hall, isTrapIdx_eq, Bool.true_and]
    have hs := sideMask_bit b hw false k hk
    rw [hall] at hs
    cases hp1 : bit b.p1 k
    · simp [hs, hp1]
    · have : sideMask b true = b.p1 := rfl
      simp [hs, hp1, this]

/-- `bits_for_piece`, pointwise: the square holds that piece of that colour -/
theorem bitsForPiece_bit (b : Board) (hw : WF b) (p : Piece) (g : Bool) (k : Nat) (hk : k < 64) :
    bit (b.bitsForPiece p g) k = (absBoard b k == some ⟨g, toSpec p⟩) := by
  unfold Board.bitsForPiece
  rw [bit_and, bitsByPieceType_eq, playerPieceMask_eq, sideMask_bit b hw g k hk]
  cases ht : typeAt b k with
  | none =>
    have h0 := typeAt_none_bits b k ht p
    have : absBoard b k = none := by unfold absBoard; rw [ht]
    simp [h0, this]
  | some t =>
    have hb := typeAt_some_bits b hw k hk t ht p
    have hall : bit b.all k = true := by
      have := typeAt_isSome b hw k hk; rw [ht] at this; simpa using this.symm
    rw [absBoard_eq_of_typeAt b k t ht, hb, hall]
    by_cases e : p = t
    · subst e
      cases bit b.p1 k <;> cases g <;> simp
    · have : ¬ toSpec t = toSpec p := fun h => e (toSpec_injective _ _ h).symm
      simp [e, this]

/-- a word with exactly one set bit below 64 is that square's bit -/
theorem eq_sqBit_of_unique (t : BB) (k : Nat) (hk : k < 64) (hb : bit t k = true)
    (hu : ∀ k', k' < 64 → bit t k' = true → k' = k) : t = sqBit k := by
  apply bb_ext; intro i hi
  rw [sqBit_bit]
  by_cases e : i = k
  · subst e; simp [hb, hi]
  · cases h : bit t i
    · simp [e]
    · exact absurd (hu i hi h) e

/-- **the capture preview** of a step whose destination `j` is empty, from a well-formed board
without unsupported trap pieces -/
theorem preview_exact (s : GameState) (hw : WF s.board) (hno : NoHanging (absBoard s.board))
    (i : Nat) (d : Dir) (j : Nat) (hi : i < 64) (hn : nbr i (dirSpec d) = some j)
    (hej : bit s.board.all j = false) :
    let m := move (absBoard s.board) i j
    (s.trappedAnimalForAction (.move i d) = none ↔ ∀ k, k < 64 → hanging m k = false) ∧
    (∀ k p g, s.trappedAnimalForAction (.move i d) = some (k, p, g) →
      k < 64 ∧ m k = some ⟨g, toSpec p⟩ ∧ hanging m k = true ∧
        ∀ k', k' < 64 → hanging m k' = true → k' = k) := by
  have hj := nbr_lt i _ j hi hn
  have hwm := movePiece_wf s.board hw i d j hi hn hej
  have habs := abs_movePiece s.board hw i d j hi hn hej
  have hbit : ∀ k, k < 64 → bit (s.board.movePiece i d).trappedPieceBits k =
      hanging (move (absBoard s.board) i j) k := by
    intro k hk; rw [trapped_bit_hanging _ hwm k hk, habs]
  have hejs : absBoard s.board j = none := (abs_none_iff s.board hw j hj).mpr hej
  simp only [trappedAnimalForAction]
  by_cases h0 : (s.board.movePiece i d).trappedPieceBits = 0#64
  · have hall : ∀ k, k < 64 → hanging (move (absBoard s.board) i j) k = false := by
      intro k hk; rw [← hbit k hk, h0]; simp
    have hz : ((s.board.movePiece i d).trappedPieceBits != 0) = false := by simp [h0]
    simp only [hz, Bool.false_eq_true, if_false, true_iff]
    exact ⟨hall, by intro k p g h; cases h⟩
  · have hne : ((s.board.movePiece i d).trappedPieceBits != 0) = true := by simp [h0]
    obtain ⟨k, hk, hbk⟩ := (bb_ne_zero_iff _).mp h0
    have hhk : hanging (move (absBoard s.board) i j) k = true := by rw [← hbit k hk]; exact hbk
    have huniq : ∀ k', k' < 64 → hanging (move (absBoard s.board) i j) k' = true → k' = k :=
      fun k' hk' hh => at_most_one_hanging _ hno i j _ hi hn hejs k' k hk' hk hh hhk
    have ht : (s.board.movePiece i d).trappedPieceBits = sqBit k :=
      eq_sqBit_of_unique _ k hk hbk (fun k' hk' hb' => huniq k' hk' (by rw [← hbit k' hk']; exact hb'))
    obtain ⟨c, hc, _, _⟩ := (hanging_iff _ k).mp hhk
    rw [← habs] at hc
    obtain ⟨t, htt, hts, hg⟩ := typeAt_of_abs _ k c hc
    have hsq : sqOfBit (sqBit k) = k := sqOfBit_sqBit k hk
    have hpts : (s.board.movePiece i d).pieceTypeAtSquare k = some t := by
      rw [pieceTypeAtSquare_eq _ hwm k hk, htt]
    have hown : (((s.board.movePiece i d).bitsForPiece t true &&& sqBit k) != 0) = c.gold := by
      rw [and_sqBit_ne_zero _ k hk, bitsForPiece_bit _ hwm t true k hk, hc]
      cases hcg : c.gold
      · have : c ≠ ⟨true, toSpec t⟩ := by intro e; rw [e] at hcg; cases hcg
        simp [this]
      · have : c = ⟨true, toSpec t⟩ := by cases c; simp_all
        simp [this]
    simp only [hne, if_true]
    simp only [ht, hsq, hpts, Option.getD_some, hown]
    constructor
    · constructor
      · intro h; cases h
      · intro h; rw [h k hk] at hhk; cases hhk
    · intro k' p g h
      simp only [Option.some.injEq, Prod.mk.injEq] at h
      obtain ⟨rfl, rfl, rfl⟩ := h
      refine ⟨hk, ?_, hhk, huniq⟩
      rw [← habs, hc]
      cases c; simp_all

end Arimaa
