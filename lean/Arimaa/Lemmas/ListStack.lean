import Arimaa.Impl.ListStack

/-! Lemmas about the frame-stack model of the history list (`Impl/ListStack.lean`), for C20. -/

namespace Arimaa.ListStack

/-! ### running -/

theorem run_add (a b : Nat) (c : Cfg) : run (a + b) c = run b (run a c) := by
  induction a generalizing c with
  | zero => simp [run]
  | succ a ih => rw [Nat.succ_add]; simp [run, ih]

theorem run_succ' (k : Nat) (c : Cfg) : run (k + 1) c = step (run k c) := by
  rw [run_add]; rfl

theorem step_finished (c : Cfg) (h : finished c) : step c = c := by
  cases c with | mk hp st o => simp only [finished] at h; subst h; rfl

theorem run_finished (k : Nat) (c : Cfg) (h : finished c) : run k c = c := by
  induction k with
  | zero => rfl
  | succ k ih => rw [run, step_finished c h, ih]

theorem finished_run_add {c : Cfg} {k : Nat} (h : finished (run k c)) (j : Nat) : finished (run (k + j) c) := by
  rw [run_add, run_finished _ _ h]; exact h

theorem height_le_maxHeight (fuel k : Nat) (c : Cfg) (hk : k ≤ fuel) : height (run k c) ≤ maxHeight fuel c := by
  induction fuel generalizing k c with
  | zero => have : k = 0 := by omega
            subst this; simp [run, maxHeight]
  | succ f ih =>
    cases k with
    | zero => simp only [run, maxHeight]; exact Nat.le_max_left _ _
    | succ k => simp only [run, maxHeight]
                exact Nat.le_trans (ih k (step c) (by omega)) (Nat.le_max_right _ _)

theorem maxHeight_le (fuel : Nat) (c : Cfg) (b : Nat) (h : ∀ k, height (run k c) ≤ b) : maxHeight fuel c ≤ b := by
  induction fuel generalizing c with
  | zero => exact h 0
  | succ f ih =>
    simp only [maxHeight]
    exact Nat.max_le.2 ⟨h 0, ih (step c) (fun k => by simpa [run] using h (k + 1))⟩

/-! ### the shape invariant of the loop variant and of the non-drop operations -/

/-- frames that return without calling anything -/
def Frame.leaf : Frame → Bool
  | .intoInner _ => true
  | .prim _ => true
  | .iterNext _ => true
  | .dropLink none => true
  | _ => false

/-- loop / straight-line bodies that only call leaves -/
def Frame.body : Frame → Bool
  | .listDrop false _ => true
  | .op _ => true
  | .iter _ _ _ => true
  | _ => false

/-- a body frame, possibly with one leaf on top -/
def Shape : List Frame → Prop
  | [] => True
  | [b] => b.body = true
  | [l, b] => l.leaf = true ∧ b.body = true
  | _ => False

theorem Shape.length_le {s : List Frame} (h : Shape s) : s.length ≤ 2 := by
  match s, h with
  | [], _ => simp
  | [_], _ => simp
  | [_, _], _ => simp

theorem setLink_body (l : Link) (b : Frame) (hb : b.body = true) :
    ∃ b', setLink l [b] = [b'] ∧ b'.body = true := by
  cases b <;> simp [Frame.body] at hb <;> simp [setLink, Frame.body]
  case listDrop tu lk => cases tu <;> simp at hb ⊢

theorem iterAdvance_body (l : Link) (e : Nat) (b : Frame) (hb : b.body = true) :
    ∃ b', iterAdvance l e [b] = [b'] ∧ b'.body = true := by
  cases b <;> simp [Frame.body] at hb <;> simp [iterAdvance, Frame.body]
  case listDrop tu lk => cases tu <;> simp at hb ⊢

theorem shape_step (c : Cfg) (h : Shape c.stack) : Shape (step c).stack := by
  obtain ⟨hp, st, o⟩ := c
  match st, h with
  | [], _ => simp [step, stepCore, Shape]
  | [b], hb =>
    cases b <;> simp [Shape, Frame.body] at hb
    case listDrop tu l =>
      cases tu <;> simp at hb
      cases l <;> simp [step, stepCore, Shape, Frame.leaf, Frame.body]
    case op todo => cases todo <;> simp [step, stepCore, Shape, Frame.leaf, Frame.body]
    case iter cur t acc => cases cur <;> simp [step, stepCore, Shape, Frame.leaf, Frame.body]
  | [l, b], hlb =>
    obtain ⟨hl, hb⟩ := hlb
    cases l <;> simp [Frame.leaf] at hl
    case intoInner id =>
      simp only [step, stepCore]
      split
      · obtain ⟨b', e, hb'⟩ := setLink_body none b hb
        simp [e, Shape, hb']
      · rename_i n _
        split
        · obtain ⟨b', e, hb'⟩ := setLink_body n.next b hb
          simp [e, Shape, hb', Frame.leaf]
        · obtain ⟨b', e, hb'⟩ := setLink_body none b hb
          simp [e, Shape, hb']
    case prim p =>
      cases p with
      | len l => simpa [step, stepCore, Shape] using hb
      | cloneLink l =>
        cases l with
        | none => simpa [step, stepCore, Shape] using hb
        | some id => simp only [step, stepCore]; split <;> simpa [Shape] using hb
      | arcNew e n => simpa [step, stepCore, Shape] using hb
    case iterNext id =>
      simp only [step, stepCore]
      split
      · obtain ⟨b', e, hb'⟩ := iterAdvance_body none 0 b hb
        simp [e, Shape, hb']
      · rename_i n _
        obtain ⟨b', e, hb'⟩ := iterAdvance_body n.next n.elem b hb
        simp [e, Shape, hb']
    case dropLink l' =>
      cases l' <;> simp at hl
      simpa [step, stepCore, Shape] using hb

theorem shape_run (k : Nat) (c : Cfg) (h : Shape c.stack) : Shape (run k c).stack := by
  induction k generalizing c with
  | zero => exact h
  | succ k ih => exact ih _ (shape_step c h)

theorem shape_height_le (k : Nat) (c : Cfg) (h : Shape c.stack) : height (run k c) ≤ 2 :=
  (shape_run k c h).length_le

/-! ### heap updates -/

theorem getElem?_setRc_self {h : Heap} {id : NodeId} {n : Node} (hn : h[id]? = some n) (r : Nat) :
    (setRc h id n r)[id]? = some { n with rc := r } := by
  have hlt : id < h.length := (List.getElem?_eq_some_iff.1 hn).1
  simp only [setRc]
  rw [List.getElem?_set_self hlt]

theorem getElem?_setRc_ne {h : Heap} {id i : NodeId} (n : Node) (r : Nat) (hne : id ≠ i) :
    (setRc h id n r)[i]? = h[i]? := by
  simp only [setRc]
  rw [List.getElem?_set_ne hne]

theorem lenOf_setRc {h : Heap} {id : NodeId} {n : Node} (hn : h[id]? = some n) (r : Nat) (l : Link) :
    lenOf (setRc h id n r) l = lenOf h l := by
  cases l with
  | none => rfl
  | some j =>
    by_cases hj : id = j
    · subst hj; simp only [lenOf]; rw [getElem?_setRc_self hn, hn]
    · simp only [lenOf]; rw [getElem?_setRc_ne n r hj]

theorem length_setRc (h : Heap) (id : NodeId) (n : Node) (r : Nat) : (setRc h id n r).length = h.length := by
  simp [setRc]

theorem setRc_setRc (h : Heap) (id : NodeId) (n m : Node) (r r' : Nat) :
    setRc (setRc h id n r) id m r' = setRc h id m r' := by
  simp [setRc]

theorem setRc_self {h : Heap} {id : NodeId} {n : Node} (hn : h[id]? = some n) : setRc h id n n.rc = h := by
  obtain ⟨hlt, hget⟩ := List.getElem?_eq_some_iff.1 hn
  subst hget
  exact List.set_getElem_self hlt

theorem stepCore_dropLink_last {h : Heap} {id : NodeId} {n : Node} (rest : List Frame)
    (hn : h[id]? = some n) (h1 : n.rc = 1) :
    stepCore h (.dropLink (some id) :: rest) = (setRc h id n 0, .dropLink n.next :: .dropNodeWait id :: rest, none) := by
  simp [stepCore, hn, h1]

theorem stepCore_dropLink_shared {h : Heap} {id : NodeId} {n : Node} (rest : List Frame)
    (hn : h[id]? = some n) (h1 : n.rc ≠ 1) :
    stepCore h (.dropLink (some id) :: rest) = (setRc h id n (n.rc - 1), rest, none) := by
  simp [stepCore, hn, h1]

theorem stepCore_intoInner_shared {h : Heap} {id : NodeId} {n : Node} (rest : List Frame)
    (hn : h[id]? = some n) (h1 : n.rc ≠ 1) :
    stepCore h (.intoInner id :: rest) = (setRc h id n (n.rc - 1), setLink none rest, none) := by
  simp [stepCore, hn, h1]

theorem stepCore_tryUnwrap_fail {h : Heap} {id : NodeId} {n : Node} (rest : List Frame)
    (hn : h[id]? = some n) (h1 : n.rc ≠ 1) :
    stepCore h (.tryUnwrap id :: rest) = (h, .dropLink (some id) :: setLink none rest, none) := by
  simp [stepCore, hn, h1]

/-! ### the loop variant terminates on every heap -/

/-- number of nodes whose count is exactly 1 -/
def ones (h : Heap) : Nat := h.countP (fun n => n.rc = 1)

theorem ones_le_length (h : Heap) : ones h ≤ h.length := List.countP_le_length

theorem ones_set_zero (h : Heap) (id : NodeId) (n : Node) (hn : h[id]? = some n) (h1 : n.rc = 1) :
    ones (setRc h id n 0) + 1 = ones h := by
  induction h generalizing id with
  | nil => simp at hn
  | cons a t ih =>
    cases id with
    | zero =>
      simp at hn; subst hn
      simp [ones, setRc, h1]
    | succ id =>
      simp at hn
      have := ih id hn
      simp only [ones, setRc, List.set_cons_succ, List.countP_cons] at this ⊢
      omega

/-- the `Arc::into_inner` loop returns after at most `3 * (number of count-1 nodes) + 3` steps, on any heap -/
theorem loop_drop_terminates (m : Nat) : ∀ (h : Heap) (l : Link) (o : List Nat), ones h ≤ m →
    ∃ K, K ≤ 3 * m + 3 ∧ finished (run K ⟨h, [.listDrop false l], o⟩) := by
  induction m with
  | zero =>
    intro h l o hm
    cases l with
    | none => exact ⟨1, by omega, by simp [run, step, stepCore, finished]⟩
    | some id =>
      cases hn : h[id]? with
      | none =>
        refine ⟨3, by omega, ?_⟩
        simp [run, step, stepCore, hn, setLink, finished]
      | some n =>
        by_cases h1 : n.rc = 1
        · have hones := ones_set_zero h id n hn h1
          omega
        · refine ⟨3, by omega, ?_⟩
          simp [run, step, stepCore, hn, h1, setLink, finished]
  | succ m ih =>
    intro h l o hm
    cases l with
    | none => exact ⟨1, by omega, by simp [run, step, stepCore, finished]⟩
    | some id =>
      cases hn : h[id]? with
      | none =>
        refine ⟨3, by omega, ?_⟩
        simp [run, step, stepCore, hn, setLink, finished]
      | some n =>
        by_cases h1 : n.rc = 1
        · have hones := ones_set_zero h id n hn h1
          obtain ⟨K, hK, hfin⟩ := ih (setRc h id n 0) n.next o (by omega)
          refine ⟨3 + K, by omega, ?_⟩
          rw [run_add]
          simpa [run, step, stepCore, hn, h1, setLink] using hfin
        · refine ⟨3, by omega, ?_⟩
          simp [run, step, stepCore, hn, h1, setLink, finished]

/-! ### the glue variant on a uniquely owned chain -/

/-- `UniqueChain h l n`: following `next` from link `l` visits exactly `n` nodes, each with count 1, each
pointing to a smaller id (as every node built by `append` does), ending in `None` -/
inductive UniqueChain (h : Heap) : Link → Nat → Prop
  | nil : UniqueChain h none 0
  | cons {id : NodeId} {n : Nat} {node : Node} :
      h[id]? = some node → node.rc = 1 → (∀ j, node.next = some j → j < id) →
      UniqueChain h node.next n → UniqueChain h (some id) (n + 1)

/-- a chain only looks at nodes up to its head -/
theorem UniqueChain.frame {h h' : Heap} {l : Link} {n : Nat} (b : Nat)
    (hc : UniqueChain h l n) (hl : ∀ j, l = some j → j < b) (hagree : ∀ i, i < b → h'[i]? = h[i]?) :
    UniqueChain h' l n := by
  induction hc generalizing b with
  | nil => exact .nil
  | @cons id n node hn h1 hlt _ ih =>
    have hid : id < b := hl id rfl
    refine .cons (by rw [hagree id hid]; exact hn) h1 hlt (ih id hlt (fun i hi => hagree i (Nat.lt_trans hi hid)))

/-- frames that pop without looking at the heap -/
def Frame.unwinding : Frame → Bool
  | .dropNodeWait _ => true
  | .dropLink none => true
  | _ => false

/-- descending: one more frame per uniquely owned node -/
theorem glue_descend (n : Nat) : ∀ (h : Heap) (l : Link) (rest : List Frame) (o : List Nat),
    UniqueChain h l n →
    ∃ h' ws, run n ⟨h, .dropLink l :: rest, o⟩ = ⟨h', .dropLink none :: (ws ++ rest), o⟩ ∧
      ws.length = n ∧ ∀ f ∈ ws, f.unwinding = true := by
  induction n with
  | zero =>
    intro h l rest o hc
    cases hc
    exact ⟨h, [], by simp [run], rfl, by simp⟩
  | succ n ih =>
    intro h l rest o hc
    cases hc with
    | @cons id _ node hn h1 hlt hc' =>
      have hc'' : UniqueChain (setRc h id node 0) node.next n :=
        hc'.frame id hlt (fun i hi => by simp only [setRc]; rw [List.getElem?_set_ne (by omega)])
      obtain ⟨h', ws, hrun, hlen, hws⟩ := ih (setRc h id node 0) node.next (.dropNodeWait id :: rest) o hc''
      refine ⟨h', ws ++ [.dropNodeWait id], ?_, by simp [hlen], ?_⟩
      · simp only [run, step, stepCore, hn, h1, if_true, Option.toList, List.nil_append]
        rw [hrun]; simp
      · intro f hf
        rcases List.mem_append.1 hf with hf | hf
        · exact hws f hf
        · simp at hf; subst hf; rfl

/-- unwinding: the waiting frames return one by one -/
theorem unwind (ws : List Frame) : ∀ (h : Heap) (rest : List Frame) (o : List Nat),
    (∀ f ∈ ws, f.unwinding = true) → run ws.length ⟨h, ws ++ rest, o⟩ = ⟨h, rest, o⟩ := by
  induction ws with
  | nil => intros; rfl
  | cons f ws ih =>
    intro h rest o hws
    have hf := hws f (by simp)
    have := ih h rest o (fun g hg => hws g (by simp [hg]))
    cases f <;> simp [Frame.unwinding] at hf
    case dropLink l =>
      cases l <;> simp at hf
      simpa [run, step, stepCore] using this
    case dropNodeWait id => simpa [run, step, stepCore] using this

/-- dropping a uniquely owned `n`-node chain by drop glue: height `n + 1` is reached after `n` steps and
the operation returns after `2 n + 1` steps -/
theorem glue_drop_chain (h : Heap) (l : Link) (n : Nat) (hc : UniqueChain h l n) :
    height (run n (dropCfg .glue h l)) = n + 1 ∧ finished (run (2 * n + 1) (dropCfg .glue h l)) := by
  obtain ⟨h', ws, hrun, hlen, hws⟩ := glue_descend n h l [] [] hc
  simp only [dropCfg, dropFrame]
  constructor
  · rw [hrun]; simp [height, hlen]
  · have : 2 * n + 1 = n + (ws.length + 1) := by omega
    rw [this, run_add, hrun]
    have hu := unwind (.dropLink none :: ws) h' [] [] (by
      intro f hf; simp at hf; rcases hf with hf | hf
      · subst hf; rfl
      · exact hws f hf)
    simp only [List.length_cons, List.append_nil] at hu
    simp only [List.append_nil]
    rw [hu]; rfl

theorem ownedChain_getElem? (N k : Nat) (hk : k < N) : (ownedChain N)[k]? = some (ownedNode k) := by
  simp [ownedChain, hk]

theorem ownedChain_unique (N : Nat) : ∀ k, k ≤ N → UniqueChain (ownedChain N) (ownedHead k) k := by
  intro k
  induction k with
  | zero => intro _; exact .nil
  | succ k ih =>
    intro hk
    have hnode := ownedChain_getElem? N k (by omega)
    have hnext : (ownedNode k).next = ownedHead k := rfl
    have : ownedHead (k + 1) = some k := by simp [ownedHead]
    rw [this]
    refine .cons hnode rfl ?_ (hnext ▸ ih (by omega))
    intro j hj
    simp only [ownedNode] at hj
    split at hj
    · cases hj
    · rename_i hk0; cases hj; exact Nat.sub_one_lt hk0

/-! ### several threads -/

/-- heap and stack after `k` steps do not depend on the output log -/
theorem run_heap_stack (k : Nat) : ∀ (h : Heap) (st : List Frame) (o o' : List Nat),
    (run k ⟨h, st, o⟩).heap = (run k ⟨h, st, o'⟩).heap ∧ (run k ⟨h, st, o⟩).stack = (run k ⟨h, st, o'⟩).stack := by
  induction k with
  | zero => intros; exact ⟨rfl, rfl⟩
  | succ k ih => intro h st o o'; simp only [run, step]; exact ih _ _ _ _

/-- a thread scheduled `k` times in a row does what it does alone -/
theorem crun_replicate (k : Nat) : ∀ (s : Conc) (t : Nat) (st : List Frame), s.stacks[t]? = some st →
    crun s (List.replicate k t) =
      { heap := (run k ⟨s.heap, st, []⟩).heap, stacks := s.stacks.set t (run k ⟨s.heap, st, []⟩).stack } := by
  induction k with
  | zero =>
    intro s t st hst
    obtain ⟨hlt, rfl⟩ := List.getElem?_eq_some_iff.1 hst
    simp [crun, run]
  | succ k ih =>
    intro s t st hst
    have hlt : t < s.stacks.length := (List.getElem?_eq_some_iff.1 hst).1
    simp only [List.replicate_succ, crun, cstep, hst]
    rw [ih _ t (stepCore s.heap st).2.1 (by simp [hlt])]
    simp only [run, step, List.set_set]
    have := run_heap_stack k (stepCore s.heap st).1 (stepCore s.heap st).2.1 [] ((stepCore s.heap st).2.2.toList ++ [])
    rw [this.1, this.2]

/-- every thread's stack is a body frame with at most one leaf on top -/
def CShape (s : Conc) : Prop := ∀ st ∈ s.stacks, Shape st

theorem cshape_step (s : Conc) (t : Nat) (hs : CShape s) : CShape (cstep s t) := by
  unfold cstep
  split
  · exact hs
  · rename_i st hst
    intro st' hst'
    rcases List.mem_or_eq_of_mem_set hst' with hm | rfl
    · exact hs st' hm
    · exact shape_step ⟨s.heap, st, []⟩ (hs st (List.mem_of_getElem? hst))

theorem cshape_run (sched : List Nat) : ∀ (s : Conc), CShape s → CShape (crun s sched) := by
  induction sched with
  | nil => intro s hs; exact hs
  | cons t ts ih => intro s hs; exact ih _ (cshape_step s t hs)

theorem cshape_height_le (s : Conc) (hs : CShape s) (t : Nat) : cheight s t ≤ 2 := by
  unfold cheight
  cases hst : s.stacks[t]? with
  | none => simp
  | some st => simpa using (hs st (List.mem_of_getElem? hst)).length_le

/-! ### the straight-line operations return after a fixed number of steps -/

theorem straight_ops_terminate (h : Heap) (o : ListOp) (hno : ∀ l t, o ≠ .iterCount l t) :
    finished (run 7 (opCfg h o)) := by
  cases o with
  | new => simp [opCfg, opFrame, run, step, stepCore, finished]
  | append l x =>
    cases l with
    | none => simp [opCfg, opFrame, run, step, stepCore, finished]
    | some id => cases hn : h[id]? <;> simp [opCfg, opFrame, run, step, stepCore, finished, hn]
  | clone l =>
    cases l with
    | none => simp [opCfg, opFrame, run, step, stepCore, finished]
    | some id => cases hn : h[id]? <;> simp [opCfg, opFrame, run, step, stepCore, finished, hn]
  | len l => simp [opCfg, opFrame, run, step, stepCore, finished]
  | iterCount l t => exact absurd rfl (hno l t)

/-! ### iteration returns on heaps built by `append` -/

/-- `next` always points to an older node (true of every heap built by `append`, which allocates fresh ids) -/
def Ordered (h : Heap) : Prop := ∀ (id : NodeId) (n : Node), h[id]? = some n → ∀ j, n.next = some j → j < id

theorem iter_terminates (h : Heap) (ho : Ordered h) (t : Nat) (b : Nat) : ∀ (l : Link) (acc : Nat) (o : List Nat),
    (∀ j, l = some j → j < b) → ∃ K, K ≤ 2 * b + 3 ∧ finished (run K ⟨h, [.iter l t acc], o⟩) := by
  induction b with
  | zero =>
    intro l acc o hl
    cases l with
    | none => exact ⟨1, by omega, by simp [run, step, stepCore, finished]⟩
    | some id => exact absurd (hl id rfl) (Nat.not_lt_zero _)
  | succ b ih =>
    intro l acc o hl
    cases l with
    | none => exact ⟨1, by omega, by simp [run, step, stepCore, finished]⟩
    | some id =>
      have hid := hl id rfl
      cases hn : h[id]? with
      | none => exact ⟨3, by omega, by simp [run, step, stepCore, hn, iterAdvance, finished]⟩
      | some n =>
        obtain ⟨K, hK, hfin⟩ := ih n.next (if n.elem = t then acc + 1 else acc) o
          (fun j hj => Nat.lt_of_lt_of_le (ho id n hn j hj) (Nat.le_of_lt_succ hid))
        refine ⟨2 + K, by omega, ?_⟩
        rw [run_add]
        simpa [run, step, stepCore, hn, iterAdvance] using hfin

/-- the loop on a handle whose head is shared: one decrement, then it returns -/
theorem loop_drop_shared (H : Heap) (id : NodeId) (n : Node) (hn : H[id]? = some n) (h1 : n.rc ≠ 1) :
    run 4 (dropCfg .loopIntoInner H (some id)) = ⟨setRc H id n (n.rc - 1), [], []⟩ := by
  have s1 : step ⟨H, [.listDrop false (some id)], []⟩ = ⟨H, [.intoInner id, .listDrop false (some id)], []⟩ := by
    simp [step, stepCore]
  have s2 : step ⟨H, [.intoInner id, .listDrop false (some id)], []⟩ =
      ⟨setRc H id n (n.rc - 1), [.listDrop false none], []⟩ := by
    simp only [step]; rw [stepCore_intoInner_shared _ hn h1]; simp [setLink]
  have s3 : step ⟨setRc H id n (n.rc - 1), [.listDrop false none], []⟩ = ⟨setRc H id n (n.rc - 1), [], []⟩ := by
    simp [step, stepCore]
  have s4 : step ⟨setRc H id n (n.rc - 1), [], []⟩ = ⟨setRc H id n (n.rc - 1), [], []⟩ := by
    simp [step, stepCore]
  simp only [run, dropCfg, dropFrame, s1, s2, s3, s4]

/-! ### one turn of a capture-free game: `append`, then the previous handle is dropped -/

theorem append_then_drop_old (h : Heap) (l : Link) (x : Nat)
    (hl : ∀ id, l = some id → ∃ n, h[id]? = some n ∧ 1 ≤ n.rc) :
    let c := run 7 (opCfg h (.append l x))
    let d := run 4 (dropCfg .loopIntoInner c.heap l)
    finished c ∧ finished d ∧ d.heap = h ++ [{ elem := x, next := l, len := lenOf h l + 1, rc := 1 }] := by
  cases l with
  | none => simp [opCfg, opFrame, dropCfg, dropFrame, run, step, stepCore, finished]
  | some id =>
    obtain ⟨n, hn, hrc⟩ := hl id rfl
    have happ : run 7 (opCfg h (.append (some id) x)) =
        ⟨setRc h id n (n.rc + 1) ++ [{ elem := x, next := some id, len := lenOf h (some id) + 1, rc := 1 }], [],
          [h.length, lenOf h (some id)]⟩ := by
      simp [opCfg, opFrame, run, step, stepCore, hn, lenOf_setRc hn, length_setRc]
    have hget' : (setRc h id n (n.rc + 1) ++ [{ elem := x, next := some id, len := lenOf h (some id) + 1, rc := 1 }])[id]?
        = some { n with rc := n.rc + 1 } := by
      have hlt : id < (setRc h id n (n.rc + 1)).length := by
        simpa [setRc] using (List.getElem?_eq_some_iff.1 hn).1
      rw [List.getElem?_append_left hlt, getElem?_setRc_self hn]
    have h1 : ¬ n.rc + 1 = 1 := by omega
    have hdrop : run 4 (dropCfg .loopIntoInner
        (setRc h id n (n.rc + 1) ++ [{ elem := x, next := some id, len := lenOf h (some id) + 1, rc := 1 }]) (some id)) =
        ⟨h ++ [{ elem := x, next := some id, len := lenOf h (some id) + 1, rc := 1 }], [], []⟩ := by
      have hlt : id < (setRc h id n (n.rc + 1)).length := by
        simpa [setRc] using (List.getElem?_eq_some_iff.1 hn).1
      rw [loop_drop_shared _ id _ hget' h1]
      simp only [Cfg.mk.injEq, and_true]
      have : setRc (setRc h id n (n.rc + 1) ++ [{ elem := x, next := some id, len := lenOf h (some id) + 1, rc := 1 }]) id
          { n with rc := n.rc + 1 } (n.rc + 1 - 1) = h ++ [{ elem := x, next := some id, len := lenOf h (some id) + 1, rc := 1 }] := by
        show List.set _ _ _ = _
        rw [List.set_append_left _ _ hlt]
        have := setRc_setRc h id n n (n.rc + 1) n.rc
        rw [setRc_self hn] at this
        simp only [setRc, Nat.add_sub_cancel] at this ⊢
        rw [this]
      exact this
    simp only [happ, hdrop, finished, true_and]

theorem ownedHead_lt (n : Nat) (j : NodeId) (hj : ownedHead n = some j) : j < n := by
  simp only [ownedHead] at hj
  split at hj
  · cases hj
  · rename_i h0; cases hj; exact Nat.sub_one_lt h0

theorem lenOf_ownedChain (n : Nat) : lenOf (ownedChain n) (ownedHead n) = n := by
  cases n with
  | zero => rfl
  | succ n => simp [lenOf, ownedHead, ownedChain_getElem?, ownedNode]

/-- `n + 1` capture-free turns give the heap of `n` turns plus one uniquely owned node on top -/
theorem ownedChain_succ (n : Nat) :
    ownedChain (n + 1) =
      ownedChain n ++ [{ elem := n, next := ownedHead n, len := lenOf (ownedChain n) (ownedHead n) + 1, rc := 1 }] := by
  rw [lenOf_ownedChain]
  simp [ownedChain, List.range_succ, ownedNode, ownedHead]

/-- the heap `ownedChain (n+1)` is what the model's own `append` followed by `drop` of the previous
handle (loop variant) produces from `ownedChain n` -/
theorem ownedChain_succ_eq (n : Nat) :
    (run 4 (dropCfg .loopIntoInner (run 7 (opCfg (ownedChain n) (.append (ownedHead n) n))).heap (ownedHead n))).heap
      = ownedChain (n + 1) := by
  rw [ownedChain_succ]
  refine (append_then_drop_old (ownedChain n) (ownedHead n) n ?_).2.2
  intro id hid
  cases n with
  | zero => simp [ownedHead] at hid
  | succ n =>
    simp [ownedHead] at hid; subst hid
    exact ⟨ownedNode n, ownedChain_getElem? _ _ (by omega), by simp [ownedNode]⟩

/-! ### the `try_unwrap` loop under two threads -/

theorem cstep_eq (s : Conc) (t : Nat) (st : List Frame) (hst : s.stacks[t]? = some st) :
    cstep s t = ⟨(stepCore s.heap st).1, s.stacks.set t (stepCore s.heap st).2.1⟩ := by
  simp [cstep, hst]

theorem crun_append (a b : List Nat) : ∀ s : Conc, crun s (a ++ b) = crun (crun s a) b := by
  induction a with
  | nil => intro s; rfl
  | cons t ts ih => intro s; simp [crun, ih]

/-- two handles of one list whose tail of `n` nodes is otherwise unshared, both dropped by the
`try_unwrap` loop: in the schedule `0 1 0 1 0 1 1ⁿ` both `try_unwrap` calls fail, and the second plain
`Arc::drop` runs the recursive glue over the whole tail -/
theorem try_unwrap_race (h : Heap) (id : NodeId) (node : Node) (n : Nat)
    (hn : h[id]? = some node) (h2 : node.rc = 2) (hlt : ∀ j, node.next = some j → j < id)
    (hc : UniqueChain h node.next n) :
    cheight (crun ⟨h, [[dropFrame .loopTryUnwrap (some id)], [dropFrame .loopTryUnwrap (some id)]]⟩
      ([0, 1, 0, 1, 0, 1] ++ List.replicate n 1)) 1 = n + 3 := by
  rw [crun_append]
  have hne : node.rc ≠ 1 := by omega
  have hn1 : (setRc h id node 1)[id]? = some { node with rc := 1 } := getElem?_setRc_self hn 1
  have e1 : cstep ⟨h, [[.listDrop true (some id)], [.listDrop true (some id)]]⟩ 0 =
      ⟨h, [[.tryUnwrap id, .listDrop true (some id)], [.listDrop true (some id)]]⟩ := by
    simp [cstep, stepCore]
  have e2 : cstep ⟨h, [[.tryUnwrap id, .listDrop true (some id)], [.listDrop true (some id)]]⟩ 1 =
      ⟨h, [[.tryUnwrap id, .listDrop true (some id)], [.tryUnwrap id, .listDrop true (some id)]]⟩ := by
    simp [cstep, stepCore]
  have e3 : cstep ⟨h, [[.tryUnwrap id, .listDrop true (some id)], [.tryUnwrap id, .listDrop true (some id)]]⟩ 0 =
      ⟨h, [[.dropLink (some id), .listDrop true none], [.tryUnwrap id, .listDrop true (some id)]]⟩ := by
    rw [cstep_eq _ 0 _ rfl]; simp only []; rw [stepCore_tryUnwrap_fail _ hn hne]; simp [setLink]
  have e4 : cstep ⟨h, [[.dropLink (some id), .listDrop true none], [.tryUnwrap id, .listDrop true (some id)]]⟩ 1 =
      ⟨h, [[.dropLink (some id), .listDrop true none], [.dropLink (some id), .listDrop true none]]⟩ := by
    rw [cstep_eq _ 1 _ rfl]; simp only []; rw [stepCore_tryUnwrap_fail _ hn hne]; simp [setLink]
  have e5 : cstep ⟨h, [[.dropLink (some id), .listDrop true none], [.dropLink (some id), .listDrop true none]]⟩ 0 =
      ⟨setRc h id node 1, [[.listDrop true none], [.dropLink (some id), .listDrop true none]]⟩ := by
    rw [cstep_eq _ 0 _ rfl]; simp only []; rw [stepCore_dropLink_shared _ hn hne]; simp [h2]
  have e6 : cstep ⟨setRc h id node 1, [[.listDrop true none], [.dropLink (some id), .listDrop true none]]⟩ 1 =
      ⟨setRc (setRc h id node 1) id { node with rc := 1 } 0,
        [[.listDrop true none], [.dropLink node.next, .dropNodeWait id, .listDrop true none]]⟩ := by
    rw [cstep_eq _ 1 _ rfl]; simp only []; rw [stepCore_dropLink_last _ hn1 rfl]; simp
  have h6 : crun ⟨h, [[dropFrame .loopTryUnwrap (some id)], [dropFrame .loopTryUnwrap (some id)]]⟩ [0, 1, 0, 1, 0, 1]
      = ⟨setRc (setRc h id node 1) id { node with rc := 1 } 0,
          [[.listDrop true none], [.dropLink node.next, .dropNodeWait id, .listDrop true none]]⟩ := by
    simp only [crun, dropFrame, e1, e2, e3, e4, e5, e6]
  rw [h6]
  have hc' : UniqueChain (setRc (setRc h id node 1) id { node with rc := 1 } 0) node.next n :=
    hc.frame id hlt (fun i hi => by
      rw [getElem?_setRc_ne _ _ (Nat.ne_of_gt hi), getElem?_setRc_ne _ _ (Nat.ne_of_gt hi)])
  obtain ⟨h', ws, hrun, hlen, _⟩ := glue_descend n _ node.next [.dropNodeWait id, .listDrop true none] [] hc'
  rw [crun_replicate n _ 1 [.dropLink node.next, .dropNodeWait id, .listDrop true none] (by simp)]
  rw [hrun]
  simp [cheight, hlen]

end Arimaa.ListStack
