import Arimaa.Lemmas.RsAgreeSquareCore

/-!
Agreement for the remaining functions of `square.rs` (`row`, `column_char`, `new`): used by C16 only.
-/
namespace Arimaa.RsAgree
open Arimaa Arimaa.Gen Arimaa.Rt

/-! ### the remaining functions of `square.rs` (C16) -/

theorem square_row (sq : Nat) : RsSq.Square_row sq = Res.guard (sqRowPanics sq) (sqRow sq) := by
  unfold RsSq.Square_row Rt.divUsize Rt.subUsize sqRowPanics sqRow BOARD_WIDTH BOARD_HEIGHT Res.guard
  by_cases h : 8 < sq / 8
  · simp [h, Res.bind]
  · have h2 : ¬ sq / 8 > 8 := by omega
    have h3 : (8 - sq / 8) % 256 = 8 - sq / 8 := by omega
    simp [h, h2, h3, Res.bind]

theorem square_column_char (sq : Nat) : RsSq.Square_column_char sq = .ok (sqColumnChar sq) := by
  unfold RsSq.Square_column_char Rt.modUsize Rt.addU8 sqColumnChar BOARD_WIDTH ASCII_LETTER_A
  have h1 : sq % 8 % 256 = sq % 8 := by omega
  have h2 : ¬ 97 + sq % 8 > 255 := by omega
  simp [h1, h2, Res.bind]

/-- `Square::new(column, row)`: the value is computed on the low byte of the column character -/
theorem square_new (c : Char) (row : Nat) :
    RsSq.Square_new c row = Res.guard (sqNewPanics c row) ((c.toNat % 256 - 97) + (8 - row) * 8) := by
  unfold RsSq.Square_new Rt.subU8 Rt.subUsize Rt.mulU8 Rt.addU8 sqNewPanics BOARD_HEIGHT ASCII_LETTER_A Res.guard
  by_cases h1 : c.toNat % 256 < 97
  · simp [h1, Res.bind]
  · by_cases h2 : 8 < row
    · have : row > 8 := h2
      simp [h1, h2, this, Res.bind]
    · have h3 : ¬ row > 8 := h2
      have h4 : (8 - row) % 256 = 8 - row := by omega
      have h5 : ¬ (8 - row) * 8 > 255 := by omega
      have h6 : ¬ c.toNat % 256 - 97 + (8 - row) * 8 > 255 := by omega
      simp [h1, h2, h3, h4, h5, h6, Res.bind]

theorem square_new_ascii (c : Char) (row : Nat) (hc : c.toNat < 256) :
    RsSq.Square_new c row = Res.guard (sqNewPanics c row) (sqNew c row) := by
  rw [square_new]
  unfold sqNew BOARD_HEIGHT ASCII_LETTER_A
  rw [Nat.mod_eq_of_lt hc]

end Arimaa.RsAgree
