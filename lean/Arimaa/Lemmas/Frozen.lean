import Arimaa.Lemmas.Abs
import Arimaa.Lemmas.GenAgreeFrozen

/-!
Ownership masks, friends, stronger enemies and `curr_player_non_frozen_pieces` pointwise, in terms
of the specification's `ownedBy`, `hasFriend`, `hasStrongerEnemy`, `frozen` on `absBoard`.
-/
namespace Arimaa
open Gen Spec

/-- the bitboard of the pieces of one colour (`player_piece_mask`) -/
def sideMask (b : Board) (gold : Bool) : BB := if gold then b.p1 else ~~~b.p1 &&& b.all

theorem sideMask_bit (b : Board) (hw : WF b) (gold : Bool) (i : Nat) (h : i < 64) :
    bit (sideMask b gold) i = (bit b.all i && (bit b.p1 i == gold)) := by
  have hp := hw.p1_sub i h
  cases gold
  · show bit (~~~b.p1 &&& b.all) i = _
    rw [bit_and, bit_not]
    cases h1 : bit b.p1 i <;> cases h2 : bit b.all i <;> simp_all
  · show bit b.p1 i = _
    cases h1 : bit b.p1 i <;> cases h2 : bit b.all i <;> simp_all

theorem typeAt_isSome (b : Board) (hw : WF b) (i : Nat) (h : i < 64) :
    (typeAt b i).isSome = bit b.all i := by
  rw [hw.all_eq i h]
  unfold typeAt
  cases bit b.elephants i <;> cases bit b.camels i <;> cases bit b.horses i <;>
    cases bit b.dogs i <;> cases bit b.cats i <;> cases bit b.rabbits i <;> rfl

theorem abs_isSome (b : Board) (hw : WF b) (i : Nat) (h : i < 64) :
    (absBoard b i).isSome = bit b.all i := by
  rw [← typeAt_isSome b hw i h]
  unfold absBoard
  cases typeAt b i <;> rfl

theorem abs_none_iff (b : Board) (hw : WF b) (i : Nat) (h : i < 64) :
    absBoard b i = none ↔ bit b.all i = false := by
  have := abs_isSome b hw i h
  cases hh : absBoard b i <;> simp_all

theorem abs_isNone (b : Board) (hw : WF b) (i : Nat) (h : i < 64) :
    (absBoard b i).isNone = !bit b.all i := by
  have := abs_isSome b hw i h
  cases hh : absBoard b i <;> simp_all

/-- strength of the abstract cell = `str` -/
theorem abs_strength (b : Board) (i : Nat) (c : Cell) (hc : absBoard b i = some c) :
    c.piece.strength = str b i := by
  unfold absBoard at hc
  unfold typeAt at hc
  unfold str
  cases h1 : bit b.elephants i <;> cases h2 : bit b.camels i <;> cases h3 : bit b.horses i <;>
    cases h4 : bit b.dogs i <;> cases h5 : bit b.cats i <;> cases h6 : bit b.rabbits i <;>
    simp_all [toSpec] <;> subst hc <;> rfl

theorem abs_gold (b : Board) (i : Nat) (c : Cell) (hc : absBoard b i = some c) :
    c.gold = bit b.p1 i := by
  unfold absBoard at hc
  cases h : typeAt b i <;> simp_all
  subst hc; rfl

theorem ownedBy_abs (b : Board) (hw : WF b) (g : Bool) (j : Nat) (h : j < 64) :
    ownedBy (absBoard b) g j = bit (sideMask b g) j := by
  rw [sideMask_bit b hw g j h]
  unfold ownedBy
  have h1 := abs_isSome b hw j h
  cases hc : absBoard b j with
  | none => simp_all
  | some c =>
    have := abs_gold b j c hc
    simp_all

theorem ownedBy_abs_ge (b : Board) (g : Bool) (j : Nat) (h : 64 ≤ j) :
    ownedBy (absBoard b) g j = false := by
  unfold ownedBy absBoard typeAt
  simp [bit_ge _ _ h]

theorem sideMask_bit_ge (b : Board) (g : Bool) (j : Nat) (h : 64 ≤ j) : bit (sideMask b g) j = false :=
  bit_ge _ _ h

theorem ownedBy_abs' (b : Board) (hw : WF b) (g : Bool) (j : Nat) :
    ownedBy (absBoard b) g j = bit (sideMask b g) j := by
  by_cases h : j < 64
  · exact ownedBy_abs b hw g j h
  · rw [ownedBy_abs_ge b g j (by omega), sideMask_bit_ge b g j (by omega)]

theorem hasFriend_abs (b : Board) (hw : WF b) (i : Nat) (g : Bool) :
    hasFriend (absBoard b) i g = nbAny (bit (sideMask b g)) i := by
  unfold hasFriend
  exact nbAny_congr _ _ i (fun j => ownedBy_abs' b hw g j)

theorem str_le (b : Board) (j : Nat) : str b j ≤ 5 := by
  unfold str; split <;> (try omega); split <;> (try omega); split <;> (try omega)
  split <;> (try omega); split <;> omega

theorem hasStrongerEnemy_abs (b : Board) (hw : WF b) (i : Nat) (g : Bool) (s : Nat) :
    hasStrongerEnemy (absBoard b) i g s =
      nbAny (fun j => bit (sideMask b (!g)) j && decide (s < str b j)) i := by
  unfold hasStrongerEnemy
  apply nbAny_congr
  intro j
  by_cases h : j < 64
  · rw [sideMask_bit b hw (!g) j h]
    have h1 := abs_isSome b hw j h
    cases hc : absBoard b j with
    | none => simp_all
    | some c =>
      have hg := abs_gold b j c hc
      have hs := abs_strength b j c hc
      have ha : bit b.all j = true := by simp_all
      simp only [ha, hs, hg, Bool.true_and]
      cases bit b.p1 j <;> cases g <;> simp
  · have hj : 64 ≤ j := by omega
    have : absBoard b j = none := by unfold absBoard typeAt; simp [bit_ge _ _ hj]
    simp [this, sideMask_bit_ge b (!g) j hj]

/-- a non-elephant has one of the five lower type bits -/
theorem frozen_abs (b : Board) (hw : WF b) (gold : Bool) (i : Nat) (h : i < 64)
    (ho : bit (sideMask b gold) i = true) :
    frozen (absBoard b) i =
      (!nbAny (bit (sideMask b gold)) i &&
        nbAny (fun j => bit (sideMask b (!gold)) j && decide (str b i < str b j)) i) := by
  rw [sideMask_bit b hw gold i h] at ho
  have ha : bit b.all i = true := by cases h1 : bit b.all i <;> simp_all
  have hsome := abs_isSome b hw i h
  unfold frozen
  cases hc : absBoard b i with
  | none => simp_all
  | some c =>
    have hg := abs_gold b i c hc
    have hs := abs_strength b i c hc
    have hgg : c.gold = gold := by
      rw [hg]; rw [ha] at ho; simpa using ho
    simp only [hasFriend_abs b hw, hasStrongerEnemy_abs b hw, hgg, hs]

/-- `curr_player_non_frozen_pieces`, pointwise -/
theorem nonFrozen_bit (s : GameState) (b : Board) (hw : WF b) (i : Nat) (h : i < 64) :
    bit (s.currPlayerNonFrozenPieces b) i =
      (bit (sideMask b s.p1Turn) i && !frozen (absBoard b) i) := by
  have hopp : s.opponentPieceMask b = sideMask b (!s.p1Turn) := by
    unfold GameState.opponentPieceMask sideMask; cases s.p1Turn <;> rfl
  have hcur : ∀ j, j < 64 → bit (~~~(sideMask b (!s.p1Turn)) &&& b.all) j = bit (sideMask b s.p1Turn) j := by
    intro j hj
    rw [bit_and, bit_not, sideMask_bit b hw _ j hj, sideMask_bit b hw _ j hj]
    have := hw.p1_sub j hj
    cases bit b.p1 j <;> cases bit b.all j <;> cases s.p1Turn <;> simp_all
  have hcureq : ~~~(sideMask b (!s.p1Turn)) &&& b.all = sideMask b s.p1Turn :=
    bb_ext _ _ hcur
  unfold GameState.currPlayerNonFrozenPieces
  simp only [hopp, hcureq]
  rw [bit_and, bit_or, bit_not, threatened_bit _ _ b hw i h, supported_bit _ i h]
  cases ho : bit (sideMask b s.p1Turn) i
  · simp
  · rw [frozen_abs b hw s.p1Turn i h ho]
    -- an elephant has no stronger neighbour
    have hel : bit b.elephants i = true →
        nbAny (fun j => bit (sideMask b (!s.p1Turn)) j && decide (str b i < str b j)) i = false := by
      intro he
      have : str b i = 5 := by unfold str; simp [he]
      rw [nbAny_congr _ (fun _ => false) i]
      · exact nbAny_false i
      · intro j
        have := str_le b j
        have hlt : ¬ (str b i < str b j) := by omega
        simp [hlt]
    have hall : bit b.all i = true := by
      rw [sideMask_bit b hw _ i h] at ho
      cases h1 : bit b.all i <;> simp_all
    have hty := hw.all_eq i h
    rw [hall] at hty
    cases he : bit b.elephants i
    · have hne : (bit b.camels i || bit b.horses i || bit b.dogs i || bit b.cats i || bit b.rabbits i) = true := by
        rw [he] at hty; simpa using hty.symm
      simp only [h, decide_true, Bool.true_and, hne]
      generalize nbAny (bit (sideMask b s.p1Turn)) i = A
      generalize nbAny (fun j => bit (sideMask b (!s.p1Turn)) j && decide (str b i < str b j)) i = B
      revert A B; decide
    · rw [hel he]; simp [h]

end Arimaa
