import Arimaa.Lemmas.ZobristT5

/-!
Table obligations T1..T4 of C17 (T5 is in `ZobristT5.lean`) and their use forms.  Each is a Boolean
checker evaluated by the kernel on the GENERATED tables and index maps (`Gen/Zobrist.lean`,
`Gen/Enums.lean`), plus a soundness lemma; a changed table or index map re-runs the checks.
-/
namespace Arimaa
open Gen

/-! ### T1, T2 -/

theorem playerToMove_ne_zero : Z_PLAYER_TO_MOVE ≠ 0 := by decide

theorem stepValues_length : Z_STEP_VALUES.length = 4 := by decide

theorem stepValues_check : nodupN (Z_STEP_VALUES.map BitVec.toNat) = true := by decide +kernel

theorem stepValues_nodup : Z_STEP_VALUES.Nodup := nodupN_bb _ stepValues_check

theorem stepValueAt_check :
    nodupN ((List.range 4).map (fun i => (stepValueAt i).toNat)) = true := by decide +kernel

/-- T2, use form -/
theorem stepValueAt_inj (i j : Nat) (hi : i < 4) (hj : j < 4) (hne : i ≠ j) :
    stepValueAt i ≠ stepValueAt j :=
  nodupN_inj stepValueAt (List.range 4) stepValueAt_check i (List.mem_range.mpr hi) j
    (List.mem_range.mpr hj) hne

/-! ### T3, T4: square values -/

/-- the thirteen possible contents of a square: empty, or one of the twelve (owner, piece) -/
def allContents : List (Option (Bool × Piece)) := none :: planes.map some

/-- table value of a square content (`0` for an empty square) -/
def contentValue (sq : Nat) : Option (Bool × Piece) → BB
  | none => 0
  | some op => pieceValue sq op.2 op.1

theorem planes_nodup : planes.Nodup := by decide

theorem mem_planes (op : Bool × Piece) : op ∈ planes := by
  obtain ⟨o, p⟩ := op
  cases o <;> cases p <;> decide

theorem mem_allContents (c : Option (Bool × Piece)) : c ∈ allContents := by
  cases c with
  | none => simp [allContents]
  | some op => simp [allContents, mem_planes]

/-- T3 checker: for every square the 13 values `0, piece_value(sq, p, o)` are pairwise distinct -/
def checkT3 : Bool :=
  (List.range 64).all fun sq => nodupN (allContents.map (fun c => (contentValue sq c).toNat))

set_option maxRecDepth 100000 in
theorem checkT3_true : checkT3 = true := by decide +kernel

/-- T3, use form: on one square, different contents have different table values -/
theorem contentValue_inj (sq : Nat) (hsq : sq < 64) (c c' : Option (Bool × Piece)) (hne : c ≠ c') :
    contentValue sq c ≠ contentValue sq c' := by
  have h := checkT3_true
  unfold checkT3 at h
  rw [List.all_eq_true] at h
  exact nodupN_inj (contentValue sq) allContents (h sq (List.mem_range.mpr hsq)) c (mem_allContents c)
    c' (mem_allContents c') hne

/-- T3 on the raw table: for every square, `0` and the twelve column entries are distinct -/
def checkT3raw : Bool :=
  (List.range 64).all fun sq =>
    nodupN ((0 :: Z_SQUARE_VALUES.map (fun row => row.getD sq 0)).map BitVec.toNat)

set_option maxRecDepth 100000 in
theorem checkT3raw_true : checkT3raw = true := by decide +kernel

theorem squareValues_columns_nodup (sq : Nat) (hsq : sq < 64) :
    (0 :: Z_SQUARE_VALUES.map (fun row => row.getD sq 0)).Nodup := by
  have h := checkT3raw_true
  unfold checkT3raw at h
  rw [List.all_eq_true] at h
  exact nodupN_bb _ (h sq (List.mem_range.mpr hsq))

/-- T4 checker: for every (owner, piece) the 64 values `piece_value(sq, p, o)` are distinct -/
def checkT4 : Bool :=
  planes.all fun op => nodupN ((List.range 64).map (fun sq => (pieceValue sq op.2 op.1).toNat))

set_option maxRecDepth 100000 in
theorem checkT4_true : checkT4 = true := by decide +kernel

/-- T4, use form: one piece on two different squares has different table values -/
theorem pieceValue_sq_inj (o : Bool) (p : Piece) (i j : Nat) (hi : i < 64) (hj : j < 64)
    (hne : i ≠ j) : pieceValue i p o ≠ pieceValue j p o := by
  have h := checkT4_true
  unfold checkT4 at h
  rw [List.all_eq_true] at h
  exact nodupN_inj (fun sq => pieceValue sq p o) (List.range 64) (h (o, p) (mem_planes (o, p))) i
    (List.mem_range.mpr hi) j (List.mem_range.mpr hj) hne

/-- T4 on the raw table: twelve rows of 64 distinct entries each -/
def checkT4raw : Bool :=
  Z_SQUARE_VALUES.all fun row => row.length == 64 && nodupN (row.map BitVec.toNat)

set_option maxRecDepth 100000 in
theorem checkT4raw_true : checkT4raw = true := by decide +kernel

theorem squareValues_length : Z_SQUARE_VALUES.length = 12 := by decide +kernel

theorem squareValues_rows_nodup (row : List BB) (h : row ∈ Z_SQUARE_VALUES) :
    row.length = 64 ∧ row.Nodup := by
  have hc := checkT4raw_true
  unfold checkT4raw at hc
  rw [List.all_eq_true] at hc
  have := hc row h
  rw [Bool.and_eq_true] at this
  exact ⟨by simpa using this.1, nodupN_bb _ this.2⟩

/-! ### T5, use form: push/pull statuses -/

/-- table value of a push/pull status (`0` for "none") -/
def ppsValue : PPS → BB
  | .none => 0
  | .mustCompletePush sq p => pushPieceValue sq p
  | .possiblePull sq p => pullPieceValue sq p

theorem zWithPPS_eq (h : BB) (pps : PPS) : zWithPPS h pps = h ^^^ ppsValue pps := by
  cases pps <;> rfl

/-- a status the engine can produce: the square is on the board, a pushed piece is not an elephant,
a pulling piece is not a rabbit -/
def PPS.Valid : PPS → Prop
  | .none => True
  | .mustCompletePush sq p => sq < 64 ∧ p ≠ Piece.elephant
  | .possiblePull sq p => sq < 64 ∧ p ≠ Piece.rabbit

/-- the 641 valid statuses, in the order of `pushPullValues` -/
def allStatuses : List PPS :=
  PPS.none ::
    (([Piece.camel, .horse, .dog, .cat, .rabbit].flatMap fun p =>
        (List.range 64).map (PPS.mustCompletePush · p)) ++
      ([Piece.elephant, .camel, .horse, .dog, .cat].flatMap fun p =>
        (List.range 64).map (PPS.possiblePull · p)))

theorem mem_allStatuses (pps : PPS) (h : pps.Valid) : pps ∈ allStatuses := by
  cases pps with
  | none => simp [allStatuses]
  | mustCompletePush sq p =>
    obtain ⟨hsq, hp⟩ := h
    cases p <;> simp_all [allStatuses]
  | possiblePull sq p =>
    obtain ⟨hsq, hp⟩ := h
    cases p <;> simp_all [allStatuses]

set_option maxRecDepth 100000 in
/-- the model's lookups (`push_piece_value`, `pull_piece_value`: which table, which row, which
column) enumerate exactly the raw list of T5 -/
theorem allStatuses_values : allStatuses.map ppsValue = pushPullValues := by decide +kernel

/-- T5, use form: different valid statuses have different table values -/
theorem ppsValue_inj (a b : PPS) (ha : a.Valid) (hb : b.Valid) (hne : a ≠ b) :
    ppsValue a ≠ ppsValue b :=
  nodup_map_inj ppsValue allStatuses (by rw [allStatuses_values]; exact pushPullValues_nodup)
    a (mem_allStatuses a ha) b (mem_allStatuses b hb) hne

end Arimaa
