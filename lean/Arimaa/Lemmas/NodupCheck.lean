import Arimaa.Lemmas.Xor

/-!
A Boolean duplicate-freeness checker that the kernel evaluates quickly (`Nat.beq` on literals is
GMP-accelerated), with its soundness lemmas.  Used for the table obligations of C17.
-/
namespace Arimaa

/-- `true` iff no two positions of the list hold the same number (quadratic, no sorting) -/
def nodupN : List Nat → Bool
  | [] => true
  | x :: xs => xs.all (fun y => !(Nat.beq y x)) && nodupN xs

theorem nodupN_nodup : ∀ (l : List Nat), nodupN l = true → l.Nodup
  | [], _ => List.nodup_nil
  | x :: xs, h => by
    simp only [nodupN, Bool.and_eq_true, List.all_eq_true] at h
    rw [List.nodup_cons]
    refine ⟨?_, nodupN_nodup xs h.2⟩
    intro hx
    have := h.1 x hx
    simp at this

theorem nodup_of_map {α β : Type} (f : α → β) (l : List α) (h : (l.map f).Nodup) : l.Nodup := by
  unfold List.Nodup at *
  rw [List.pairwise_map] at h
  exact h.imp (fun hab e => hab (congrArg f e))

/-- distinct members of `l` have distinct images when the image list is duplicate free -/
theorem nodup_map_inj {α β : Type} (f : α → β) :
    ∀ (l : List α), (l.map f).Nodup → ∀ a ∈ l, ∀ b ∈ l, a ≠ b → f a ≠ f b
  | [], _, a, ha, _, _, _ => by cases ha
  | x :: xs, h, a, ha, b, hb, hne => by
    rw [List.map_cons, List.nodup_cons] at h
    rcases List.mem_cons.mp ha with rfl | ha' <;> rcases List.mem_cons.mp hb with rfl | hb'
    · exact absurd rfl hne
    · intro e; exact h.1 (e ▸ List.mem_map_of_mem hb')
    · intro e; exact h.1 (e ▸ List.mem_map_of_mem ha')
    · exact nodup_map_inj f xs h.2 a ha' b hb' hne

/-- soundness of the checker on a list of 64-bit values given as images of `g` -/
theorem nodupN_inj {α : Type} (g : α → BB) (l : List α)
    (h : nodupN (l.map (fun a => (g a).toNat)) = true) :
    ∀ a ∈ l, ∀ b ∈ l, a ≠ b → g a ≠ g b := by
  intro a ha b hb hne e
  exact nodup_map_inj (fun a => (g a).toNat) l (nodupN_nodup _ h) a ha b hb hne (by simp only [e])

theorem nodupN_bb (l : List BB) (h : nodupN (l.map BitVec.toNat) = true) : l.Nodup :=
  nodup_of_map _ _ (nodupN_nodup _ h)

end Arimaa
