import Arimaa.Lemmas.RsAgreeGen
import Arimaa.Lemmas.RsAgreeRep

/-!
Agreement of the regenerated model with the hand model: `valid_actions_` for both values of the flag, `valid_actions`.
-/
namespace Arimaa.RsAgree
open Arimaa Arimaa.Gen Arimaa.Gen.RsBase Arimaa.Rt

theorem valid_actions__eq (s : GameState) (cr : Bool) :
    GameState_valid_actions_ s cr = Res.guard (s.validActions_Panics cr) (s.validActions_ cr) := by
  unfold GameState_valid_actions_ GameState.validActions_Panics GameState.validActions_
  cases hp : s.phase with
  | place => simp [valid_placement, Res.guard]
  | play pp =>
    simp only [game_state_piece_board, is_must_complete_push, must_complete_push_actions_eq s pp hp,
      extend_with_push_piece_actions s pp _ _ hp, extend_with_pull_piece_actions_eq s pp hp,
      extend_with_valid_curr_player_piece_moves, can_pass_eq, remove_passing_like_actions_eq s pp hp,
      List.nil_append, Res.bind_guard, GameState.rawActions]
    rcases Bool.eq_false_or_eq_true pp.pps.isMustCompletePush with h0 | h0
    rotate_left
    · simp only [h0, cond_false, Bool.false_eq_true, if_false]
      rcases Bool.eq_false_or_eq_true (GameState.pullExtendPanics pp) with h1 | h1
      · simp [h1, Res.guard, Res.bind]
      · rcases Bool.eq_false_or_eq_true (s.canPassPanics cr) with h2 | h2
        · simp [h1, h2, Res.guard, Res.bind]
        · cases cr
          · cases h3 : s.canPass false <;> simp [h1, h2, h3, Res.guard, Res.bind]
          · cases h3 : s.canPass true <;> simp [h1, h2, h3, Res.guard, Res.bind]
    · simp only [h0, cond_true, if_true]
      rcases Bool.eq_false_or_eq_true (GameState.mustCompletePushActionsPanics pp) with h1 | h1
      · simp [h1, Res.guard, Res.bind]
      · cases cr <;> simp [h1, Res.guard, Res.bind]

theorem valid_actions_eq (s : GameState) :
    GameState_valid_actions s = Res.guard s.validActionsPanics s.validActions :=
  valid_actions__eq s true

theorem valid_actions_no_rep_eq (s : GameState) :
    GameState_valid_actions_no_rep s = Res.guard s.validActionsNoRepPanics s.validActionsNoRep :=
  valid_actions__eq s false

end Arimaa.RsAgree
