import Arimaa.Lemmas.NodupCheck

/-!
Table obligation T5 of C17 (own file: the check takes ~15 s and is cached unless the generated
tables change): the 641 push/pull status values are pairwise distinct.
-/
namespace Arimaa
open Gen

/-- `0` (no status) followed by every entry of `PUSH_VALUES` and of `POSSIBLE_PULL_VALUES` -/
def pushPullValues : List BB := 0 :: (Z_PUSH_VALUES.flatten ++ Z_POSSIBLE_PULL_VALUES.flatten)

set_option maxRecDepth 100000 in
theorem pushPullValues_check : nodupN (pushPullValues.map BitVec.toNat) = true := by decide +kernel

/-- T5 -/
theorem pushPullValues_nodup : pushPullValues.Nodup := nodupN_bb _ pushPullValues_check

set_option maxRecDepth 100000 in
theorem pushPullValues_length : pushPullValues.length = 641 := by decide +kernel

end Arimaa
