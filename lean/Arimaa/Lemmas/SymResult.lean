import Arimaa.Lemmas.Result
import Arimaa.Lemmas.SymTransfer

/-!
Helper lemmas for the result clause of C11 on the implementation model: the result reported at
the start of a turn is the specification's `result` (the C04 refinement, re-derived here from the
lemmas of `Lemmas/Result.lean` so that no `Props` file is imported), and the action of the
symmetries on the model's `Terminal`.
-/
namespace Arimaa
open Gen Spec GameState

/-- at the start of a turn `isTerminal` is the specification's `result` -/
theorem isTerminal_turn_start (s : GameState) (pp : PlayPhase) (hph : s.phase = .play pp)
    (hw : WF s.board) (h0 : pp.step = 0) (hpps : pp.pps = .none) :
    s.isTerminal = (Spec.result (absBoard s.board) s.p1Turn).map terminalOf := by
  have hn : ¬ pp.step > 0 := by omega
  simp only [isTerminal, hph, hn, if_false]
  rw [rabbitAtGoal_eq s s.board hw, lostAllRabbits_eq s s.board hw,
    hasMove_step0_eq s pp hph hw h0 hpps]
  unfold Spec.result
  simp only []
  cases rabbitOnGoal (absBoard s.board) (!s.p1Turn) <;>
    cases rabbitOnGoal (absBoard s.board) s.p1Turn <;>
    cases hasRabbit (absBoard s.board) s.p1Turn <;>
    cases hasRabbit (absBoard s.board) (!s.p1Turn) <;>
    cases hasStep (absBoard s.board) s.p1Turn <;> simp [Option.orElse]

/-- the symmetries on the model's results: `swap` and `both` exchange the winners -/
def Spec.Sym.ires : Spec.Sym → Terminal → Terminal
  | .mirror, t => t
  | .swap, .goldWin => .silverWin | .swap, .silverWin => .goldWin
  | .both, .goldWin => .silverWin | .both, .silverWin => .goldWin

theorem terminalOf_res (σ : Spec.Sym) (r : Spec.Result) : terminalOf (σ.res r) = σ.ires (terminalOf r) := by
  cases σ <;> cases r <;> rfl

theorem absPend_eq_none (p : PPS) (h : absPend p = .none) : p = .none := by
  cases p <;> simp only [absPend, reduceCtorEq] at h ⊢

end Arimaa
