import Arimaa.Lemmas.Reach
import Arimaa.Lemmas.SpecCapture

/-!
Material counting.

Specification level: `countOn P b` counts the squares `0..63` whose content satisfies `P`;
`cellCount b c` (pieces of one colour and type) and the number of all pieces are instances.  A move
onto an empty square permutes two squares and keeps every count; a capture only empties squares and
so never raises a count; hence `applyStep` never raises a count.

Model level: the board after `k` offered placements has, per colour and type, exactly as many
pieces as that type was chosen among Gold's (`ps.take 16`) resp. Silver's (`ps.drop 16`) placements.
-/
namespace Arimaa
open Gen Spec

/-! ### counting with a Boolean predicate over a list of squares -/

/-- pointwise "same or switched off" never raises a count -/
theorem countP_le_of_same_or_false (p q : Nat → Bool) (l : List Nat)
    (h : ∀ k, k ∈ l → q k = p k ∨ q k = false) : l.countP q ≤ l.countP p := by
  induction l with
  | nil => simp
  | cons k l ih =>
    have ih := ih (fun x hx => h x (List.mem_cons_of_mem _ hx))
    rw [List.countP_cons, List.countP_cons]
    rcases h k (List.mem_cons_self ..) with e | e
    · rw [e]; omega
    · rw [e]; simp only [Bool.false_eq_true, if_false]; omega

/-- two predicates that differ only by carrying the value `v` of square `i` over to square `j`
(where it was `false`) and switching `i` off: the counts over a duplicate-free list differ by the
membership of `i` and `j` only -/
theorem countP_transfer (p q : Nat → Bool) (i j : Nat) (v : Bool) (hij : i ≠ j)
    (hpi : p i = v) (hpj : p j = false) (hqi : q i = false) (hqj : q j = v)
    (hk : ∀ k, k ≠ i → k ≠ j → q k = p k) (l : List Nat) (hl : l.Nodup) :
    l.countP q + (if i ∈ l then v.toNat else 0) = l.countP p + (if j ∈ l then v.toNat else 0) := by
  induction l with
  | nil => simp
  | cons k l ih =>
    obtain ⟨hkl, hl'⟩ := List.nodup_cons.mp hl
    have ih := ih hl'
    rw [List.countP_cons, List.countP_cons]
    by_cases hki : k = i
    · subst hki
      have hji : ¬ j = k := fun e => hij e.symm
      simp only [List.mem_cons, true_or, if_true, hji, false_or, hqi, hpi, Bool.false_eq_true, if_false]
      simp only [hkl, if_false] at ih
      cases v <;> simp_all <;> omega
    · by_cases hkj : k = j
      · subst hkj
        have hik : ¬ i = k := hij
        simp only [List.mem_cons, true_or, if_true, hik, false_or, hqj, hpj, Bool.false_eq_true, if_false]
        simp only [hkl, if_false] at ih
        cases v <;> simp_all <;> omega
      · have hik : ¬ i = k := fun e => hki e.symm
        have hjk : ¬ j = k := fun e => hkj e.symm
        simp only [List.mem_cons, hik, hjk, false_or, hk k hki hkj]
        omega

/-! ### counting squares of a specification board -/

/-- the number of squares `0..63` whose content satisfies `P` -/
def countOn (P : Option Cell → Bool) (b : Spec.Board) : Nat := (List.range 64).countP (fun k => P (b k))

/-- number of pieces of one colour and type on the board (the same as `countCells` of Props/C10) -/
def cellCount (b : Spec.Board) (c : Cell) : Nat := ((List.range 64).filter (fun k => b k == some c)).length

theorem cellCount_eq_countOn (b : Spec.Board) (c : Cell) : cellCount b c = countOn (fun o => o == some c) b := by
  unfold cellCount countOn
  rw [List.countP_eq_length_filter]

/-- pointwise "same or emptied" never raises a count -/
theorem countOn_le_of_same_or_none (P : Option Cell → Bool) (hP : P none = false) (f g : Spec.Board)
    (h : ∀ k, k < 64 → g k = f k ∨ g k = none) : countOn P g ≤ countOn P f := by
  unfold countOn
  apply countP_le_of_same_or_false
  intro k hk
  rcases h k (List.mem_range.mp hk) with e | e
  · left; rw [e]
  · right; rw [e, hP]

/-- **moving a piece onto an empty square keeps every count**: `g` agrees with `f` outside `{i, j}`,
`g j = f i`, `g i = none = f j` -/
theorem countOn_eq_of_transfer (P : Option Cell → Bool) (hP : P none = false) (f g : Spec.Board) (i j : Nat)
    (hi : i < 64) (hj : j < 64) (hij : i ≠ j) (hfj : f j = none) (hgi : g i = none) (hgj : g j = f i)
    (hk : ∀ k, k ≠ i → k ≠ j → g k = f k) : countOn P g = countOn P f := by
  unfold countOn
  have := countP_transfer (fun k => P (f k)) (fun k => P (g k)) i j (P (f i)) hij rfl
    (by simp only [hfj, hP]) (by simp only [hgi, hP]) (by simp only [hgj])
    (fun k h1 h2 => by simp only [hk k h1 h2]) (List.range 64) List.nodup_range
  simp only [List.mem_range, hi, hj, if_true] at this
  omega

theorem countOn_move (P : Option Cell → Bool) (hP : P none = false) (b : Spec.Board) (i j : Nat)
    (hi : i < 64) (hj : j < 64) (hij : i ≠ j) (hbj : b j = none) :
    countOn P (move b i j) = countOn P b := by
  apply countOn_eq_of_transfer P hP b (move b i j) i j hi hj hij hbj
  · simp [move, hij]
  · simp [move]
  · intro k h1 h2; simp [move, h1, h2]

theorem countOn_capture_le (P : Option Cell → Bool) (hP : P none = false) (b : Spec.Board) :
    countOn P (capture b) ≤ countOn P b := by
  apply countOn_le_of_same_or_none P hP
  intro k _
  rw [capture_apply]
  cases hanging b k
  · left; rfl
  · right; rfl

/-- a step whose destination (if on the board) is empty never raises a count -/
theorem countOn_applyStep_le (P : Option Cell → Bool) (hP : P none = false) (b : Spec.Board) (i : Nat)
    (d : Spec.Dir) (hi : i < 64) (he : ∀ j, nbr i d = some j → b j = none) :
    countOn P (applyStep b i d) ≤ countOn P b := by
  unfold applyStep
  cases hn : nbr i d with
  | none => exact Nat.le_refl _
  | some j =>
    have hj := nbr_lt i d j hi hn
    have hne := nbr_ne i d j hn
    calc countOn P (capture (move b i j)) ≤ countOn P (move b i j) := countOn_capture_le P hP _
      _ = countOn P b := countOn_move P hP b i j hi hj (fun e => hne e.symm) (he j hn)

theorem cellCount_move (b : Spec.Board) (c : Cell) (i j : Nat) (hi : i < 64) (hj : j < 64) (hij : i ≠ j)
    (hbj : b j = none) : cellCount (move b i j) c = cellCount b c := by
  rw [cellCount_eq_countOn, cellCount_eq_countOn]
  exact countOn_move _ rfl b i j hi hj hij hbj

theorem cellCount_capture_le (b : Spec.Board) (c : Cell) : cellCount (capture b) c ≤ cellCount b c := by
  rw [cellCount_eq_countOn, cellCount_eq_countOn]
  exact countOn_capture_le _ rfl b

theorem cellCount_applyStep_le (b : Spec.Board) (c : Cell) (i : Nat) (d : Spec.Dir) (hi : i < 64)
    (he : ∀ j, nbr i d = some j → b j = none) : cellCount (applyStep b i d) c ≤ cellCount b c := by
  rw [cellCount_eq_countOn, cellCount_eq_countOn]
  exact countOn_applyStep_le _ rfl b i d hi he

/-! ### the abstract cell read from the type and owner bits -/

theorem abs_beq_cell (b : Board) (hw : WF b) (k : Nat) (hk : k < 64) (g : Bool) (t : Piece) :
    (absBoard b k == some ⟨g, toSpec t⟩) = (bit (b.typeBits t) k && (bit b.p1 k == g)) := by
  cases ht : typeAt b k with
  | none =>
    have : absBoard b k = none := by unfold absBoard; rw [ht]
    rw [this, typeAt_none_bits b k ht t]; rfl
  | some u =>
    have : absBoard b k = some ⟨bit b.p1 k, toSpec u⟩ := by unfold absBoard; rw [ht]
    rw [this, typeAt_some_bits b hw k hk u ht t]
    generalize bit b.p1 k = a
    cases t <;> cases u <;> cases a <;> cases g <;> rfl

theorem abs_beq_of_empty (b : Board) (hw : WF b) (k : Nat) (hk : k < 64) (h : bit b.all k = false) (c : Cell) :
    (absBoard b k == some c) = false := by
  rw [(abs_none_iff b hw k hk).mpr h]; rfl

/-! ### list counting -/

theorem countP_range_getElem? (l : List Piece) (t : Piece) (n : Nat) :
    (List.range n).countP (fun j => decide (l[j]? = some t)) = (l.take n).count t := by
  induction n with
  | zero => simp
  | succ n ih =>
    rw [List.range_succ, List.countP_append, ih, List.take_add_one, List.count_append]
    congr 1
    cases h : l[n]? with
    | none => simp [h]
    | some x =>
      by_cases e : x = t
      · simp [h, e]
      · simp [h, e]

/-- only the last sixteen squares count -/
theorem countP_range64_high (r : Nat → Bool) :
    (List.range 64).countP (fun k => decide (48 ≤ k) && r (k - 48)) = (List.range 16).countP r := by
  have h : (64 : Nat) = 48 + 16 := rfl
  rw [h, List.range_add, List.countP_append, List.countP_map]
  have h0 : (List.range 48).countP (fun k => decide (48 ≤ k) && r (k - 48)) = 0 := by
    rw [List.countP_eq_zero]
    intro k hk
    have := List.mem_range.mp hk
    simp; omega
  rw [h0, Nat.zero_add]
  apply List.countP_congr
  intro j _
  simp [Function.comp]

/-- only the first sixteen squares count -/
theorem countP_range64_low (r : Nat → Bool) :
    (List.range 64).countP (fun k => decide (k < 16) && r (k + 16)) = (List.range 16).countP (fun j => r (j + 16)) := by
  have h : (64 : Nat) = 16 + 48 := rfl
  rw [h, List.range_add, List.countP_append, List.countP_map]
  have h0 : (List.range 48).countP ((fun k => decide (k < 16) && r (k + 16)) ∘ fun x => 16 + x) = 0 := by
    rw [List.countP_eq_zero]
    intro k _
    simp only [Function.comp, Bool.and_eq_true, decide_eq_true_eq, not_and]
    intro h; omega
  rw [h0, Nat.add_zero]
  apply List.countP_congr
  intro j hj
  have := List.mem_range.mp hj
  simp [this]

/-! ### the board during and after setup, cell by cell -/

/-- after the offered placements `ps`, square `k` holds a Gold piece of type `t` iff `k = 48 + j`
with `ps[j] = t`, and a Silver piece of type `t` iff `k = j - 16` with `ps[j] = t` (`16 ≤ j`) -/
theorem setup_cell {ps : List Piece} {s : GameState} (hr : SetupRun ps s) (hw : WF s.board) (t : Piece)
    (k : Nat) (hk : k < 64) :
    (absBoard s.board k == some ⟨true, toSpec t⟩) = (decide (48 ≤ k) && decide (ps[k - 48]? = some t)) ∧
    (absBoard s.board k == some ⟨false, toSpec t⟩) = (decide (k < 16) && decide (ps[k + 16]? = some t)) := by
  obtain ⟨hall, hp1, _, _, hc⟩ := C09_board_shape hr
  have hlen := setupRun_length_le hr
  constructor
  · by_cases h1 : 48 ≤ k ∧ k - 48 < ps.length
    · have hp : bit s.board.p1 k = true := (hp1 k hk).mpr (by omega)
      have hsq : placementSquare (k - 48) = k := by unfold placementSquare; rw [if_pos (by omega)]; omega
      have := hc (k - 48) t h1.2
      rw [hsq] at this
      rw [abs_beq_cell _ hw k hk, this, hp]
      simp [h1.1]
    · have hp : bit s.board.p1 k = false := by
        cases h : bit s.board.p1 k with
        | false => rfl
        | true => exact absurd ((hp1 k hk).mp h) (by omega)
      rw [abs_beq_cell _ hw k hk, hp]
      by_cases h48 : 48 ≤ k
      · have : ps[k - 48]? = none := List.getElem?_eq_none (by omega)
        simp [this]
      · simp [h48]
  · by_cases h1 : k < 16 ∧ k + 16 < ps.length
    · have hp : bit s.board.p1 k = false := by
        cases h : bit s.board.p1 k with
        | false => rfl
        | true => exact absurd ((hp1 k hk).mp h) (by omega)
      have hsq : placementSquare (k + 16) = k := by unfold placementSquare; rw [if_neg (by omega)]; omega
      have := hc (k + 16) t h1.2
      rw [hsq] at this
      rw [abs_beq_cell _ hw k hk, this, hp]
      simp [h1.1]
    · have hrhs : (decide (k < 16) && decide (ps[k + 16]? = some t)) = false := by
        by_cases h16 : k < 16
        · have : ps[k + 16]? = none := List.getElem?_eq_none (by omega)
          simp [this]
        · simp [h16]
      rw [hrhs]
      cases hp : bit s.board.p1 k with
      | true => rw [abs_beq_cell _ hw k hk, hp]; simp
      | false =>
        apply abs_beq_of_empty _ hw k hk
        cases ha : bit s.board.all k with
        | false => rfl
        | true =>
          exfalso
          rcases (hall k hk).mp ha with h | h
          · have := (hp1 k hk).mpr h; rw [hp] at this; cases this
          · omega

/-- **material during and after setup**: per colour and type, the board holds exactly as many pieces
as that type was chosen among Gold's placements (`ps.take 16`) resp. Silver's (`ps.drop 16`) -/
theorem setup_cellCount {ps : List Piece} {s : GameState} (hr : SetupRun ps s) (hw : WF s.board) (t : Piece) :
    cellCount (absBoard s.board) ⟨true, toSpec t⟩ = (ps.take 16).count t ∧
    cellCount (absBoard s.board) ⟨false, toSpec t⟩ = (ps.drop 16).count t := by
  have hlen := setupRun_length_le hr
  constructor
  · rw [cellCount_eq_countOn]; unfold countOn
    rw [List.countP_congr (l := List.range 64) (p := fun k => absBoard s.board k == some ⟨true, toSpec t⟩)
      (q := fun k => decide (48 ≤ k) && decide (ps[k - 48]? = some t)) (fun k hk => by
      rw [(setup_cell hr hw t k (List.mem_range.mp hk)).1]), countP_range64_high (fun j => decide (ps[j]? = some t)),
      countP_range_getElem?]
  · rw [cellCount_eq_countOn]; unfold countOn
    rw [List.countP_congr (l := List.range 64) (p := fun k => absBoard s.board k == some ⟨false, toSpec t⟩)
      (q := fun k => decide (k < 16) && decide (ps[k + 16]? = some t)) (fun k hk => by
      rw [(setup_cell hr hw t k (List.mem_range.mp hk)).2]), countP_range64_low (fun j => decide (ps[j]? = some t))]
    have : (List.range 16).countP (fun j => decide (ps[j + 16]? = some t)) =
        (List.range 16).countP (fun j => decide ((ps.drop 16)[j]? = some t)) := by
      apply List.countP_congr
      intro j _
      rw [List.getElem?_drop, Nat.add_comm]
    rw [this, countP_range_getElem?, List.take_of_length_le (by rw [List.length_drop]; omega)]

/-- the mover's and the other side's placements never exceed one army, at any point of the setup -/
theorem setup_count_le {ps : List Piece} {s : GameState} (hr : SetupRun ps s) (t : Piece) :
    (ps.take 16).count t ≤ complement t ∧ (ps.drop 16).count t ≤ complement t := by
  by_cases h32 : ps.length = 32
  · obtain ⟨_, _, _, hg, hs⟩ := C09_reachable_play hr h32
    rw [hg t, hs t]; exact ⟨Nat.le_refl _, Nat.le_refl _⟩
  · have hlen := setupRun_length_le hr
    obtain ⟨hs, _, hm⟩ := setupRun_shape hr (by omega)
    have hle := hs.count_le t
    rw [hm t] at hle
    by_cases h16 : ps.length < 16
    · have hmp : moverPlaced ps = ps := by unfold moverPlaced; rw [if_pos h16]
      rw [hmp] at hle
      rw [List.take_of_length_le (by omega), List.drop_of_length_le (by omega)]
      exact ⟨hle, by simp⟩
    · have hmp : moverPlaced ps = ps.drop 16 := by unfold moverPlaced; rw [if_neg h16]
      rw [hmp] at hle
      refine ⟨?_, hle⟩
      rw [setupRun_gold_army hr (by omega) hlen t]; exact Nat.le_refl _

/-! ### the material bound -/

/-- each side has at most 1 elephant, 1 camel, 2 horses, 2 dogs, 2 cats and 8 rabbits -/
def MaterialOk (b : Spec.Board) : Prop :=
  ∀ g : Bool, cellCount b ⟨g, .elephant⟩ ≤ 1 ∧ cellCount b ⟨g, .camel⟩ ≤ 1 ∧ cellCount b ⟨g, .horse⟩ ≤ 2 ∧
    cellCount b ⟨g, .dog⟩ ≤ 2 ∧ cellCount b ⟨g, .cat⟩ ≤ 2 ∧ cellCount b ⟨g, .rabbit⟩ ≤ 8

theorem materialOk_iff (b : Spec.Board) :
    MaterialOk b ↔ ∀ (g : Bool) (t : Piece), cellCount b ⟨g, toSpec t⟩ ≤ complement t := by
  constructor
  · intro h g t
    obtain ⟨h1, h2, h3, h4, h5, h6⟩ := h g
    cases t <;> assumption
  · intro h g
    exact ⟨h g .elephant, h g .camel, h g .horse, h g .dog, h g .cat, h g .rabbit⟩

/-- a board that is cell-wise no larger keeps the bound -/
theorem materialOk_of_le (b b' : Spec.Board) (h : ∀ c, cellCount b' c ≤ cellCount b c) (hb : MaterialOk b) :
    MaterialOk b' := by
  intro g
  obtain ⟨h1, h2, h3, h4, h5, h6⟩ := hb g
  exact ⟨Nat.le_trans (h _) h1, Nat.le_trans (h _) h2, Nat.le_trans (h _) h3, Nat.le_trans (h _) h4,
    Nat.le_trans (h _) h5, Nat.le_trans (h _) h6⟩

end Arimaa
