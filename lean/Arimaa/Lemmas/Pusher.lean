import Arimaa.Lemmas.Reach
import Arimaa.Props.C01
import Arimaa.Props.C02
import Arimaa.Props.C12
import Arimaa.Props.C13

/-!
The "pusher invariant": while a push of a piece of strength `t` off square `q` is pending, an
unfrozen friendly piece strictly stronger than `t` stands next to `q`.

Part 1 (specification level, over `Spec.Board` only): displacing an enemy piece from `i` to an empty
neighbour `j` and applying the capture rule keeps every pusher of `i` a pusher (`pusher_survives`).
* no piece of the mover's colour is captured (its supporters are of the mover's colour, and those
  stand where they stood);
* the pusher does not become frozen: its friends are all still there, and the only square that
  gained an enemy piece is `j`, which is not adjacent to the pusher (both are neighbours of `i`, and
  two neighbours of a common square have the same checkerboard colour).

Part 2: the invariant `PlayInvP` of the model and its preservation along offered runs.
-/
namespace Arimaa
open Spec

/-! ### checkerboard parity -/

/-- checkerboard colour of a square -/
def sqParity (k : Nat) : Nat := (k / 8 + k % 8) % 2

theorem nbr_parity (i j : Nat) (d : Spec.Dir) (h : nbr i d = some j) : sqParity j ≠ sqParity i := by
  unfold sqParity
  cases d <;> simp only [nbr] at h <;> split at h <;> simp at h <;> subst h <;> omega

/-- two neighbours of a common square are never adjacent to each other -/
theorem nbrs_not_adjacent (i x j : Nat) (d1 d2 d3 : Spec.Dir) (h1 : nbr i d1 = some x) (h2 : nbr i d2 = some j)
    (h3 : nbr x d3 = some j) : False := by
  have p1 := nbr_parity i x d1 h1
  have p2 := nbr_parity i j d2 h2
  have p3 := nbr_parity x j d3 h3
  unfold sqParity at p1 p2 p3
  omega

theorem isTrap_lt (k : Nat) (h : isTrap k = true) : k < 64 := by
  simp only [isTrap, Bool.or_eq_true, beq_iff_eq] at h; omega

/-! ### moving an enemy piece -/

section
variable (b : Spec.Board) (gold : Bool) (i j : Nat) (c : Cell)

/-- the squares owned by `gold` are the same after an enemy piece moved onto an empty square -/
theorem ownedBy_move_enemy (hc : b i = some c) (hg : c.gold ≠ gold) (hej : b j = none) (f : Nat) :
    ownedBy (move b i j) gold f = ownedBy b gold f := by
  unfold ownedBy move
  by_cases e1 : f = j
  · subst e1; simp [hc, hej, hg]
  · by_cases e2 : f = i
    · subst e2; simp [e1, hc, hg]
    · simp [e1, e2]

theorem hasFriend_move_enemy (hc : b i = some c) (hg : c.gold ≠ gold) (hej : b j = none) (k : Nat) :
    hasFriend (move b i j) k gold = hasFriend b k gold := by
  unfold hasFriend
  exact nbAny_congr _ _ k (ownedBy_move_enemy b gold i j c hc hg hej)

/-- **no friendly piece is captured when an enemy piece is displaced** -/
theorem friendly_survives (hb : NoHanging b) (hc : b i = some c) (hg : c.gold ≠ gold) (hej : b j = none)
    (k : Nat) (ck : Cell) (hk : b k = some ck) (hkg : ck.gold = gold) :
    capture (move b i j) k = some ck := by
  have eki : k ≠ i := by
    intro e; subst e; rw [hc] at hk; cases hk; exact hg hkg
  have ekj : k ≠ j := by
    intro e; subst e; rw [hej] at hk; cases hk
  have hm : move b i j k = some ck := by simp [move, eki, ekj, hk]
  rw [capture_apply]
  cases hh : hanging (move b i j) k
  · simpa using hm
  · exfalso
    rw [hanging_iff] at hh
    obtain ⟨c', hc', ht, hf⟩ := hh
    rw [hm] at hc'; cases hc'
    have := hb k ck (isTrap_lt k ht) hk ht
    rw [hkg] at this hf
    rw [hasFriend_move_enemy b gold i j c hc hg hej k, this] at hf
    cases hf

/-- what stands on a square after the displacement stood there before, or is the displaced piece -/
theorem after_displace (hne : j ≠ i) (k : Nat) (ck : Cell) (h : capture (move b i j) k = some ck) :
    (k = j ∧ b i = some ck) ∨ (k ≠ j ∧ k ≠ i ∧ b k = some ck) := by
  have hm := (capture_some _ k ck h).1
  unfold move at hm
  by_cases e1 : k = j
  · subst e1; left; simpa using hm
  · by_cases e2 : k = i
    · subst e2; simp [e1] at hm
    · right; exact ⟨e1, e2, by simpa [e1, e2] using hm⟩

theorem ownedBy_after_displace (hb : NoHanging b) (hc : b i = some c) (hg : c.gold ≠ gold) (hej : b j = none)
    (k : Nat) : ownedBy (capture (move b i j)) gold k = ownedBy b gold k := by
  cases ho : ownedBy b gold k
  · cases ho' : ownedBy (capture (move b i j)) gold k
    · rfl
    · exfalso
      unfold ownedBy at ho'
      cases hk : capture (move b i j) k with
      | none => rw [hk] at ho'; cases ho'
      | some ck =>
        rw [hk] at ho'
        have hm := (capture_some _ k ck hk).1
        have : ownedBy (move b i j) gold k = true := by unfold ownedBy; rw [hm]; exact ho'
        rw [ownedBy_move_enemy b gold i j c hc hg hej k, ho] at this
        cases this
  · unfold ownedBy at ho
    cases hk : b k with
    | none => rw [hk] at ho; cases ho
    | some ck =>
      rw [hk] at ho
      have hkg : ck.gold = gold := by simpa using ho
      unfold ownedBy
      rw [friendly_survives b gold i j c hb hc hg hej k ck hk hkg]
      simpa using hkg

/-- **the pusher survives the displacement**: it is not captured, not frozen, as strong as before -/
theorem pusher_survives (hb : NoHanging b) (hc : b i = some c) (hg : c.gold ≠ gold) (d : Spec.Dir)
    (hn : nbr i d = some j) (hej : b j = none) (s : Nat) (hp : hasPusher b gold i s = true) :
    hasPusher (capture (move b i j)) gold i s = true := by
  unfold hasPusher at hp ⊢
  rw [nbAny_iff] at hp ⊢
  obtain ⟨dx, x, hnx, hx⟩ := hp
  refine ⟨dx, x, hnx, ?_⟩
  cases hbx : b x with
  | none => rw [hbx] at hx; cases hx
  | some cx =>
    rw [hbx] at hx
    simp only [Bool.and_eq_true, beq_iff_eq, Bool.not_eq_true', decide_eq_true_eq] at hx
    obtain ⟨⟨hxg, hxf⟩, hxs⟩ := hx
    have hne : j ≠ i := nbr_ne i d j hn
    have hx' := friendly_survives b gold i j c hb hc hg hej x cx hbx hxg
    rw [hx']
    simp only [Bool.and_eq_true, beq_iff_eq, Bool.not_eq_true', decide_eq_true_eq]
    refine ⟨⟨hxg, ?_⟩, hxs⟩
    -- still unfrozen
    cases hfz : frozen (capture (move b i j)) x
    · rfl
    · exfalso
      unfold frozen at hfz hxf
      rw [hx'] at hfz
      rw [hbx] at hxf
      simp only [Bool.and_eq_true, Bool.not_eq_true'] at hfz
      obtain ⟨hf1, hf2⟩ := hfz
      have hfr : hasFriend b x cx.gold = false := by
        rw [← hf1, hxg]
        unfold hasFriend
        exact (nbAny_congr _ _ x (ownedBy_after_displace b gold i j c hb hc hg hej)).symm
      have hse : hasStrongerEnemy b x cx.gold cx.piece.strength = true := by
        unfold hasStrongerEnemy at hf2 ⊢
        rw [nbAny_iff] at hf2 ⊢
        obtain ⟨d', f, hnf, hf⟩ := hf2
        refine ⟨d', f, hnf, ?_⟩
        cases hbf : capture (move b i j) f with
        | none => rw [hbf] at hf; cases hf
        | some cf =>
          rw [hbf] at hf
          rcases after_displace b i j hne f cf hbf with ⟨e, _⟩ | ⟨_, _, hbf'⟩
          · exfalso; subst e
            exact nbrs_not_adjacent i x f dx d d' hnx hn hnf
          · rw [hbf']; exact hf
      simp only [hfr, hse] at hxf
      cases hxf

end

/-! ### the pusher invariant, specification level -/

/-- while a push off `q` of a piece `v` is pending, an unfrozen friendly piece strictly stronger
than `v` stands next to `q` -/
def PusherOk (b : Spec.Board) (gold : Bool) : Pending → Prop
  | .push q v => hasPusher b gold q v.strength = true
  | _ => True

/-- an enabled step that displaces an enemy piece and does not complete a pull is a push start -/
theorem enemy_step_is_pushStart (b : Spec.Board) (gold : Bool) (step : Nat) (pend : Pending) (i j : Nat)
    (d : Spec.Dir) (c : Cell) (he : enabledMove b gold step pend i d = true) (hc : b i = some c)
    (hn : nbr i d = some j) (hg : c.gold ≠ gold) (hnp : pullEnd b gold pend i d = false) :
    pushStart b gold step i d = true := by
  unfold enabledMove at he
  cases hpu : pend.isPush
  · rw [hpu] at he
    simp only [Bool.false_eq_true, if_false, Bool.or_eq_true] at he
    rcases he with (he | he) | he
    · exfalso
      unfold ownStep at he; rw [hc, hn] at he
      simp only [Bool.and_eq_true, beq_iff_eq] at he
      exact hg he.1.1.1
    · exact he
    · rw [he] at hnp; cases hnp
  · exfalso
    rw [hpu] at he
    simp only [if_true] at he
    unfold pushEnd at he
    cases pend with
    | none => cases hpu
    | pull q' x' => cases hpu
    | push q' v' =>
      rw [hc, hn] at he
      simp only [Bool.and_eq_true, beq_iff_eq] at he
      exact hg he.1.1.2

/-- **a newly pending push has its pusher** (specification level) -/
theorem pusherOk_next (b : Spec.Board) (gold : Bool) (step : Nat) (pend : Pending) (i j : Nat)
    (d : Spec.Dir) (c : Cell) (hb : NoHanging b) (he : enabledMove b gold step pend i d = true)
    (hc : b i = some c) (hn : nbr i d = some j) (hej : b j = none) :
    PusherOk (capture (move b i j)) gold (nextPending b gold pend i d) := by
  cases hnp : nextPending b gold pend i d with
  | none => trivial
  | pull q x => trivial
  | push q v =>
    obtain ⟨hg, hpe, hv, hq⟩ := nextPending_eq_push b gold pend i d c hc q v hnp
    subst hv; subst hq
    have hps := enemy_step_is_pushStart b gold step pend q j d c he hc hn hg hpe
    unfold pushStart at hps
    rw [hc, hn] at hps
    simp only [Bool.and_eq_true] at hps
    exact pusher_survives b gold q j c hb hc hg d hn hej _ hps.2.2

/-- a push start is never enabled on the last step of a turn -/
theorem pushStart_step_lt (b : Spec.Board) (gold : Bool) (step : Nat) (i : Nat) (d : Spec.Dir)
    (h : pushStart b gold step i d = true) : step < 3 := by
  unfold pushStart at h
  simp only [Bool.and_eq_true, decide_eq_true_eq] at h
  exact h.1

/-- a pending push with its pusher and an empty vacated square has an enabled completion -/
theorem pushEnd_of_pusher (b : Spec.Board) (gold : Bool) (q : Nat) (v : Spec.Piece) (hq : q < 64)
    (hqe : b q = none) (hp : hasPusher b gold q v.strength = true) :
    ∃ x d, x < 64 ∧ pushEnd b gold (.push q v) x d = true := by
  unfold hasPusher at hp
  rw [nbAny_iff] at hp
  obtain ⟨d', x, hnx, hx⟩ := hp
  refine ⟨x, d'.opp, nbr_lt q d' x hq hnx, ?_⟩
  have hback := nbr_opp q x d' hq hnx
  cases hbx : b x with
  | none => rw [hbx] at hx; cases hx
  | some cx =>
    rw [hbx] at hx
    unfold pushEnd
    rw [hbx, hback]
    simp only [Bool.and_eq_true] at hx ⊢
    simp only [beq_self_eq_true, hqe, Option.isNone_none, true_and]
    exact hx

theorem dirSpec_surjective (d' : Spec.Dir) : ∃ d : Arimaa.Dir, dirSpec d = d' := by
  cases d'
  · exact ⟨.up, rfl⟩
  · exact ⟨.right, rfl⟩
  · exact ⟨.down, rfl⟩
  · exact ⟨.left, rfl⟩

/-! ### the pusher invariant of the model -/

open Gen GameState

/-- the play invariant, no unsupported trap piece, and every pending push has its pusher -/
def PlayInvP (s : GameState) (pp : PlayPhase) : Prop :=
  PlayInv s pp ∧ NoHanging (absBoard s.board) ∧ PusherOk (absBoard s.board) s.p1Turn (absPend pp.pps)

theorem play_inj {s : GameState} {pp pp' : PlayPhase} (h : s.phase = .play pp) (h' : s.phase = .play pp') :
    pp = pp' := by
  rw [h] at h'; injection h'

/-- **the pusher invariant is preserved by every offered action** -/
theorem playInvP_step (s : GameState) (pp : PlayPhase) (h : PlayInvP s pp) (a : Action)
    (ha : a ∈ s.validActionsNoRep) : ∃ pp', PlayInvP (s.takeAction a) pp' := by
  obtain ⟨hinv, hno, _⟩ := h
  obtain ⟨pp', h'⟩ := playInv_step s pp hinv a ha
  refine ⟨pp', h', C13_no_hanging_preserved s pp hinv hno a ha, ?_⟩
  rcases C01_only_steps_and_pass s pp hinv a ha with rfl | ⟨i, d, rfl⟩
  · obtain ⟨pp2, hph2, hp2, _⟩ := (C12_turn_start_none s pp hinv.phase).2
    rw [play_inj h'.phase hph2, hp2]; trivial
  · by_cases hlt : pp.step < 3
    · obtain ⟨pp2, hph2, hp2⟩ := C12_status_after_step s pp hinv i d ha hlt
      obtain ⟨c, j, hc, hn, hej, hcap, _, _⟩ := C02_refines s pp hinv i d ha
      obtain ⟨_, he⟩ := (enabled_iff s pp hinv.phase hinv.wf hinv.pend i d).mp ha
      have hturn : (s.takeAction (.move i d)).p1Turn = s.p1Turn := by
        simp only [takeAction]; rw [movePiece_lt3 s pp i d hinv.phase hlt]
      rw [play_inj h'.phase hph2, hp2, hcap, hturn]
      exact pusherOk_next _ _ _ _ i j _ c hno he hc hn hej
    · obtain ⟨pp2, hph2, hp2, _⟩ := (C12_turn_start_none s pp hinv.phase).1 i d (by omega)
      rw [play_inj h'.phase hph2, hp2]; trivial

/-- **the pusher invariant holds at every state of an offered run** -/
theorem playInvP_run (s : GameState) (pp : PlayPhase) (h : PlayInvP s pp) (as : List Action)
    (ho : OfferedNR s as) : ∃ pp', PlayInvP (s.run as) pp' := by
  induction as generalizing s pp with
  | nil => exact ⟨pp, h⟩
  | cons a as ih =>
    obtain ⟨pp1, h1⟩ := playInvP_step s pp h a ho.1
    exact ih _ pp1 h1 ho.2

/-- the state after the 32nd offered placement satisfies the pusher invariant -/
theorem playInvP_of_setup {ps : List Piece} {s : GameState} (hr : SetupRun ps s) (h32 : ps.length = 32) :
    ∃ pp, PlayInvP s pp ∧ pp.step = 0 := by
  obtain ⟨pp, hinv, hstep⟩ := playInv_of_setup hr h32
  obtain ⟨_, _, ⟨pp2, hph2, _, hpps, _, _⟩, _, _⟩ := C09_reachable_play hr h32
  refine ⟨pp, ⟨hinv, C13_no_hanging_after_setup hr, ?_⟩, hstep⟩
  rw [play_inj hinv.phase hph2, hpps]; trivial

/-- a state with nothing pending (turn start, position given as text, …) satisfies the pusher
invariant as soon as it satisfies the play invariant and has no unsupported trap piece -/
theorem playInvP_of_none (s : GameState) (pp : PlayPhase) (h : PlayInv s pp)
    (hno : NoHanging (absBoard s.board)) (hp : pp.pps = .none) : PlayInvP s pp := by
  refine ⟨h, hno, ?_⟩
  rw [hp]; trivial

/-- the step counter after a step that does not end the turn -/
theorem step_after_lt3 (s : GameState) (pp pp' : PlayPhase) (i : Nat) (d : Dir) (hph : s.phase = .play pp)
    (hlt : pp.step < 3) (hph' : (s.takeAction (.move i d)).phase = .play pp') :
    pp'.step = pp.step + 1 ∧ (s.takeAction (.move i d)).p1Turn = s.p1Turn := by
  simp only [takeAction] at hph' ⊢
  rw [movePiece_lt3 s pp i d hph hlt] at hph' ⊢
  simp only at hph'
  injection hph' with e
  subst e
  simp [PlayPhase.step]

/-! ### ends of turns -/

/-- the state is the first of a turn: play phase, no step made, nothing pending -/
def AtTurnStart (s : GameState) : Prop := ∃ pp, s.phase = .play pp ∧ pp.step = 0 ∧ pp.pps = .none

theorem pass_turnStart (s : GameState) (pp : PlayPhase) (hph : s.phase = .play pp) :
    AtTurnStart (s.takeAction .pass) ∧ (s.takeAction .pass).p1Turn = !s.p1Turn := by
  simp only [takeAction]
  rw [pass_play s pp hph]
  exact ⟨⟨_, rfl, rfl, rfl⟩, rfl⟩

theorem lastStep_turnStart (s : GameState) (pp : PlayPhase) (hph : s.phase = .play pp) (i : Nat) (d : Dir)
    (hge : pp.step ≥ 3) :
    AtTurnStart (s.takeAction (.move i d)) ∧ (s.takeAction (.move i d)).p1Turn = !s.p1Turn := by
  simp only [takeAction]
  rw [movePiece_ge3 s pp i d hph hge]
  exact ⟨⟨_, rfl, rfl, rfl⟩, rfl⟩

/-- completing a push leaves nothing pending -/
theorem nextPending_pushEnd (b : Spec.Board) (gold : Bool) (q : Nat) (v : Spec.Piece) (x : Nat) (d : Spec.Dir)
    (h : pushEnd b gold (.push q v) x d = true) : nextPending b gold (.push q v) x d = .none := by
  obtain ⟨c, hc, _, _, hg, _, _⟩ := (C12_push_end_meaning b gold q v x d).mp h
  unfold nextPending
  rw [hc]
  simp [hg, Pending.isPush]

end Arimaa
