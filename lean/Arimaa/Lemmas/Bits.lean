import Arimaa.Impl.Engine

/-!
Pointwise bit library.  `bit x i` is our own accessor (keeps `simp` away from `getElem` normal
forms); every bitboard operation of the model gets one pointwise lemma, the refinement proofs never
look at a 64-bit word again.  Mask facts are `decide` over `Fin 64` against the *generated* masks.
-/
namespace Arimaa
open Gen

def bit (x : BB) (i : Nat) : Bool := x.getLsbD i

theorem bit_ge (x : BB) (i : Nat) (h : 64 ≤ i) : bit x i = false := BitVec.getLsbD_of_ge _ _ h
theorem bit_lt_of_true {x : BB} {i : Nat} (h : bit x i = true) : i < 64 := by
  by_cases hi : i < 64
  · exact hi
  · rw [bit_ge x i (by omega)] at h; cases h
@[simp] theorem bit_zero (i : Nat) : bit (0 : BB) i = false := by simp [bit]
@[simp] theorem bit_zero' (i : Nat) : bit (0#64) i = false := by simp [bit]
theorem bit_and (x y : BB) (i : Nat) : bit (x &&& y) i = (bit x i && bit y i) := BitVec.getLsbD_and ..
theorem bit_or (x y : BB) (i : Nat) : bit (x ||| y) i = (bit x i || bit y i) := BitVec.getLsbD_or ..
theorem bit_xor (x y : BB) (i : Nat) : bit (x ^^^ y) i = (bit x i ^^ bit y i) := BitVec.getLsbD_xor ..
theorem bit_not (x : BB) (i : Nat) : bit (~~~x) i = (decide (i < 64) && !bit x i) := BitVec.getLsbD_not ..
theorem bit_shr (x : BB) (n i : Nat) : bit (x >>> n) i = bit x (n + i) := BitVec.getLsbD_ushiftRight ..
theorem bit_shl (x : BB) (n i : Nat) :
    bit (x <<< n) i = (decide (i < 64) && !decide (i < n) && bit x (i - n)) :=
  BitVec.getLsbD_shiftLeft ..
theorem bb_ext (x y : BB) (h : ∀ i, i < 64 → bit x i = bit y i) : x = y :=
  BitVec.eq_of_getLsbD_eq (fun i hi => h i hi)

theorem bb_eq_zero_iff (x : BB) : x = 0 ↔ ∀ i, i < 64 → bit x i = false := by
  constructor
  · rintro rfl i _; simp
  · intro h; exact bb_ext _ _ (fun i hi => by rw [h i hi]; simp)

theorem bb_ne_zero_iff (x : BB) : x ≠ 0 ↔ ∃ i, i < 64 ∧ bit x i = true := by
  rw [Ne, bb_eq_zero_iff]
  constructor
  · intro h
    apply Classical.byContradiction
    intro hc
    apply h
    intro i hi
    cases hb : bit x i
    · rfl
    · exact absurd ⟨i, hi, hb⟩ hc
  · rintro ⟨i, hi, hb⟩ h
    rw [h i hi] at hb; cases hb

/-! ### masks (re-checked against the generated constants on every build) -/

theorem top_bit (i : Nat) (h : i < 64) : bit TOP_ROW_MASK i = decide (i < 8) := by
  have : ∀ j : Fin 64, bit TOP_ROW_MASK j.1 = decide (j.1 < 8) := by decide
  exact this ⟨i, h⟩
theorem bottom_bit (i : Nat) (h : i < 64) : bit BOTTOM_ROW_MASK i = decide (56 ≤ i) := by
  have : ∀ j : Fin 64, bit BOTTOM_ROW_MASK j.1 = decide (56 ≤ j.1) := by decide
  exact this ⟨i, h⟩
theorem left_bit (i : Nat) (h : i < 64) : bit LEFT_COLUMN_MASK i = decide (i % 8 = 0) := by
  have : ∀ j : Fin 64, bit LEFT_COLUMN_MASK j.1 = decide (j.1 % 8 = 0) := by decide
  exact this ⟨i, h⟩
theorem right_bit (i : Nat) (h : i < 64) : bit RIGHT_COLUMN_MASK i = decide (i % 8 = 7) := by
  have : ∀ j : Fin 64, bit RIGHT_COLUMN_MASK j.1 = decide (j.1 % 8 = 7) := by decide
  exact this ⟨i, h⟩

/-- trap squares c6 f6 c3 f3 -/
def isTrapIdx (i : Nat) : Bool := i == 18 || i == 21 || i == 42 || i == 45

theorem trap_bit (i : Nat) (h : i < 64) : bit TRAP_MASK i = isTrapIdx i := by
  have : ∀ j : Fin 64, bit TRAP_MASK j.1 = isTrapIdx j.1 := by decide
  exact this ⟨i, h⟩
theorem p1_objective_bit (i : Nat) (h : i < 64) : bit P1_OBJECTIVE_MASK i = decide (i < 8) := by
  have : ∀ j : Fin 64, bit P1_OBJECTIVE_MASK j.1 = decide (j.1 < 8) := by decide
  exact this ⟨i, h⟩
theorem p2_objective_bit (i : Nat) (h : i < 64) : bit P2_OBJECTIVE_MASK i = decide (56 ≤ i) := by
  have : ∀ j : Fin 64, bit P2_OBJECTIVE_MASK j.1 = decide (56 ≤ j.1) := by decide
  exact this ⟨i, h⟩
theorem p1_placement_bit (i : Nat) (h : i < 64) : bit P1_PLACEMENT_MASK i = decide (48 ≤ i) := by
  have : ∀ j : Fin 64, bit P1_PLACEMENT_MASK j.1 = decide (48 ≤ j.1) := by decide
  exact this ⟨i, h⟩
theorem p2_placement_bit (i : Nat) (h : i < 64) : bit P2_PLACEMENT_MASK i = decide (i < 16) := by
  have : ∀ j : Fin 64, bit P2_PLACEMENT_MASK j.1 = decide (j.1 < 16) := by decide
  exact this ⟨i, h⟩
theorem last_p1_placement_bit (i : Nat) (h : i < 64) : bit LAST_P1_PLACEMENT_MASK i = decide (i = 63) := by
  have : ∀ j : Fin 64, bit LAST_P1_PLACEMENT_MASK j.1 = decide (j.1 = 63) := by decide
  exact this ⟨i, h⟩
theorem last_p2_placement_bit (i : Nat) (h : i < 64) : bit LAST_P2_PLACEMENT_MASK i = decide (i = 15) := by
  have : ∀ j : Fin 64, bit LAST_P2_PLACEMENT_MASK j.1 = decide (j.1 = 15) := by decide
  exact this ⟨i, h⟩

theorem board_width_eq : BOARD_WIDTH = 8 := by decide
theorem board_height_eq : BOARD_HEIGHT = 8 := by decide

/-! ### masked shifts (the generated `shift_pieces_*` macros) -/

theorem up_bit (x : BB) (i : Nat) (_h : i < 64) :
    bit (shiftPiecesUp x) i = (decide (i + 8 < 64) && bit x (i + 8)) := by
  unfold shiftPiecesUp shiftUp
  rw [board_width_eq, bit_shr, bit_and, bit_not, Nat.add_comm 8 i]
  by_cases h2 : i + 8 < 64
  · rw [top_bit _ h2]; simp [h2]
  · rw [bit_ge x _ (by omega)]; simp

theorem down_bit (x : BB) (i : Nat) (h : i < 64) :
    bit (shiftPiecesDown x) i = (decide (8 ≤ i) && bit x (i - 8)) := by
  unfold shiftPiecesDown shiftDown
  rw [board_width_eq, bit_shl, bit_and, bit_not]
  by_cases h2 : 8 ≤ i
  · rw [bottom_bit _ (by omega)]
    have : ¬ (56 ≤ i - 8) := by omega
    have h3 : ¬ i < 8 := by omega
    have h4 : i - 8 < 64 := by omega
    simp [h, h2, this, h3, h4]
  · have h3 : i < 8 := by omega
    simp [h3, h2]

theorem left_shift_bit (x : BB) (i : Nat) (_h : i < 64) :
    bit (shiftPiecesLeft x) i = (decide (i % 8 ≠ 7) && bit x (i + 1)) := by
  unfold shiftPiecesLeft shiftLeft
  rw [bit_shr, bit_and, bit_not, Nat.add_comm 1 i]
  by_cases h2 : i + 1 < 64
  · rw [left_bit _ h2]
    by_cases hm : i % 8 = 7
    · have : (i + 1) % 8 = 0 := by omega
      simp [hm, this]
    · have : ¬ (i + 1) % 8 = 0 := by omega
      simp [hm, this, h2]
  · rw [bit_ge x _ (by omega)]; simp

theorem right_shift_bit (x : BB) (i : Nat) (h : i < 64) :
    bit (shiftPiecesRight x) i = (decide (i % 8 ≠ 0) && bit x (i - 1)) := by
  unfold shiftPiecesRight shiftRight
  rw [bit_shl, bit_and, bit_not]
  by_cases h0 : i = 0
  · subst h0; simp
  · rw [right_bit _ (by omega)]
    have h1 : ¬ i < 1 := by omega
    have h2 : i - 1 < 64 := by omega
    by_cases hm : i % 8 = 0
    · have : (i - 1) % 8 = 7 := by omega
      simp [h, hm, this, h1]
    · have : ¬ (i - 1) % 8 = 7 := by omega
      simp [h, hm, this, h1, h2]

/-! ### unmasked shifts (`shift_in_direction` on a source bit) -/

theorem shiftUp_bit (x : BB) (i : Nat) : bit (shiftUp x) i = bit x (i + 8) := by
  unfold shiftUp; rw [board_width_eq, bit_shr, Nat.add_comm]
theorem shiftDown_bit (x : BB) (i : Nat) :
    bit (shiftDown x) i = (decide (i < 64) && decide (8 ≤ i) && bit x (i - 8)) := by
  unfold shiftDown; rw [board_width_eq, bit_shl]
  by_cases h : i < 8
  · have : ¬ 8 ≤ i := by omega
    simp [h, this]
  · have : 8 ≤ i := by omega
    simp [h, this]
theorem shiftLeft_bit (x : BB) (i : Nat) : bit (shiftLeft x) i = bit x (i + 1) := by
  unfold shiftLeft; rw [bit_shr, Nat.add_comm]
theorem shiftRight_bit (x : BB) (i : Nat) :
    bit (shiftRight x) i = (decide (i < 64) && decide (1 ≤ i) && bit x (i - 1)) := by
  unfold shiftRight; rw [bit_shl]
  by_cases h : i < 1
  · have : ¬ 1 ≤ i := by omega
    simp [h, this]
  · have : 1 ≤ i := by omega
    simp [h, this]

/-! ### single bits, lowest set bit, square lists -/

theorem sqBit_bit (s i : Nat) : bit (sqBit s) i = (decide (i < 64) && decide (i = s)) := by
  unfold sqBit
  rw [bit_shl]
  by_cases hi : i < 64
  · by_cases hs : i < s
    · have : i ≠ s := by omega
      simp [hi, hs, this]
    · by_cases he : i = s
      · subst he; simp [hi, bit]
      · have : i - s ≠ 0 := by omega
        have h1 : bit (1#64) (i - s) = false := by
          unfold bit
          rw [BitVec.getLsbD_one]
          simp [this]
        simp [hi, hs, he, h1]
  · simp [hi]

theorem mem_squaresOf (x : BB) (i : Nat) : i ∈ squaresOf x ↔ i < 64 ∧ bit x i = true := by
  simp [squaresOf, bit]

theorem squaresOf_nodup (x : BB) : (squaresOf x).Nodup := (List.nodup_range).filter _

theorem squaresOf_sorted (x : BB) : (squaresOf x).Pairwise (· < ·) := by
  unfold squaresOf
  exact (List.pairwise_lt_range).filter _

theorem squaresOf_zero : squaresOf 0 = [] := by
  apply List.eq_nil_iff_forall_not_mem.mpr
  intro i hi
  rw [mem_squaresOf] at hi
  simp at hi

/-- `tz64 x` is the least set bit of a non-zero word -/
theorem tz64_spec (x : BB) (hx : x ≠ 0) :
    tz64 x < 64 ∧ bit x (tz64 x) = true ∧ ∀ j, j < tz64 x → bit x j = false := by
  unfold tz64
  obtain ⟨i, hi, hb⟩ := (bb_ne_zero_iff x).mp hx
  cases hf : (List.range 64).find? (fun i => x.getLsbD i) with
  | none =>
    rw [List.find?_eq_none] at hf
    have := hf i (List.mem_range.mpr hi)
    simp [bit] at hb
    simp [hb] at this
  | some k =>
    have hk := List.find?_some hf
    have hmem := List.mem_of_find?_eq_some hf
    rw [List.mem_range] at hmem
    refine ⟨hmem, by simpa [bit] using hk, ?_⟩
    intro j hj
    simp only [Option.getD_some] at hj
    rw [List.find?_eq_some_iff_append] at hf
    obtain ⟨_, as, bs, hab, hall⟩ := hf
    -- `as` is the prefix `range k`
    have hlen : as.length = k := by
      have h1 : (List.range 64)[as.length]? = some k := by rw [hab]; simp
      rw [List.getElem?_range] at h1
      · simpa using h1
      · have : (List.range 64).length = as.length + (bs.length + 1) := by rw [hab]; simp
        simp at this; omega
    have hjm : j ∈ as := by
      have h1 : (List.range 64)[j]? = some j := by rw [List.getElem?_range]; omega
      rw [hab, List.getElem?_append_left (by omega)] at h1
      exact List.mem_of_getElem? h1
    have := hall j hjm
    simpa [bit] using this

theorem tz64_zero : tz64 0 = 64 := by decide

end Arimaa
