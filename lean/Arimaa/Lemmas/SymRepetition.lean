import Arimaa.Lemmas.History
import Arimaa.Props.C11

/-!
Helper lemmas for the repetition clause of C11 (`Props/C11b.lean`): a well-formed board is
determined by its abstraction (`absBoard_inj_of_wf`); the relation "is the `σ`-image of" between
(board, side) positions (`PosRel`) is bi-unique on well-formed boards; the ghost lists of
start-of-turn positions (`turnStarts`, `Lemmas/History.lean`) of a game and of its image game are
related entry by entry (`ghostRel_run`); hence occurrence counts and the turn-start board correspond.
-/
namespace Arimaa
open Gen Spec GameState

/-! ### a well-formed board is determined by its abstraction -/

theorem p1_false_of_typeAt_none (b : Board) (hb : WF b) (i : Nat) (hi : i < 64)
    (ht : typeAt b i = none) : bit b.p1 i = false := by
  cases hp : bit b.p1 i with
  | false => rfl
  | true =>
    have h1 := hb.p1_sub i hi hp
    rw [← typeAt_isSome b hb i hi, ht] at h1
    cases h1

theorem wf_bits_of_abs_eq (b c : Board) (hb : WF b) (hc : WF c) (h : absBoard b = absBoard c)
    (i : Nat) (hi : i < 64) :
    (∀ f : Piece, bit (b.typeBits f) i = bit (c.typeBits f) i) ∧ bit b.p1 i = bit c.p1 i ∧
      bit b.all i = bit c.all i := by
  have hi' := congrFun h i
  cases ht : typeAt b i with
  | none =>
    have hcn : typeAt c i = none := by
      cases htc : typeAt c i with
      | none => rfl
      | some t => unfold absBoard at hi'; rw [ht, htc] at hi'; cases hi'
    refine ⟨fun f => by rw [typeAt_none_bits b i ht, typeAt_none_bits c i hcn], ?_, ?_⟩
    · rw [p1_false_of_typeAt_none b hb i hi ht, p1_false_of_typeAt_none c hc i hi hcn]
    · rw [← typeAt_isSome b hb i hi, ← typeAt_isSome c hc i hi, ht, hcn]
  | some t =>
    rw [absBoard_eq_of_typeAt b i t ht] at hi'
    obtain ⟨t', htc, hts, hg⟩ := typeAt_of_abs c i _ hi'.symm
    have htt : t' = t := toSpec_injective _ _ hts
    subst htt
    refine ⟨fun f => by rw [typeAt_some_bits b hb i hi t' ht, typeAt_some_bits c hc i hi t' htc], hg, ?_⟩
    rw [← typeAt_isSome b hb i hi, ← typeAt_isSome c hc i hi, ht, htc]

/-- **`absBoard` is injective on well-formed boards.** -/
theorem absBoard_inj_of_wf (b c : Board) (hb : WF b) (hc : WF c) (h : absBoard b = absBoard c) :
    b = c := by
  have key := wf_bits_of_abs_eq b c hb hc h
  cases b; cases c
  simp only [Board.mk.injEq]
  refine ⟨bb_ext _ _ fun i hi => (key i hi).2.1, bb_ext _ _ fun i hi => (key i hi).2.2,
    bb_ext _ _ fun i hi => (key i hi).1 .elephant, bb_ext _ _ fun i hi => (key i hi).1 .camel,
    bb_ext _ _ fun i hi => (key i hi).1 .horse, bb_ext _ _ fun i hi => (key i hi).1 .dog,
    bb_ext _ _ fun i hi => (key i hi).1 .cat, bb_ext _ _ fun i hi => (key i hi).1 .rabbit⟩

theorem symBoard_inj (σ : Sym) (x y : Spec.Board) (h : σ.board x = σ.board y) : x = y := by
  have := congrArg σ.board h
  rwa [σ.board_board, σ.board_board] at this

theorem symCol_inj (σ : Sym) (x y : Bool) (h : σ.col x = σ.col y) : x = y := by
  have := congrArg σ.col h
  rwa [σ.col_col, σ.col_col] at this

/-- for well-formed boards whose abstractions are `σ`-images: the images are equal iff the
originals are -/
theorem board_eq_iff_of_image (σ : Sym) (b c b' c' : Board) (hb : WF b) (hc : WF c) (hb' : WF b')
    (hc' : WF c') (eb : absBoard b' = σ.board (absBoard b)) (ec : absBoard c' = σ.board (absBoard c)) :
    b' = c' ↔ b = c := by
  constructor
  · intro h
    apply absBoard_inj_of_wf b c hb hc
    apply symBoard_inj σ
    rw [← eb, ← ec, h]
  · intro h
    apply absBoard_inj_of_wf b' c' hb' hc'
    rw [eb, ec, h]

/-! ### positions and lists of positions related by a symmetry -/

/-- the position `p'` is the `σ`-image of the position `p` -/
def PosRel (σ : Sym) (p p' : Board × Bool) : Prop :=
  absBoard p'.1 = σ.board (absBoard p.1) ∧ p'.2 = σ.col p.2

theorem posRel_eq_iff (σ : Sym) (p q p' q' : Board × Bool) (hp : WF p.1) (hq : WF q.1)
    (hp' : WF p'.1) (hq' : WF q'.1) (rp : PosRel σ p p') (rq : PosRel σ q q') :
    p' = q' ↔ p = q := by
  have hbd := board_eq_iff_of_image σ p.1 q.1 p'.1 q'.1 hp hq hp' hq' rp.1 rq.1
  constructor
  · intro h
    apply Prod.ext (hbd.mp (congrArg Prod.fst h))
    apply symCol_inj σ
    rw [← rp.2, ← rq.2, h]
  · intro h
    apply Prod.ext (hbd.mpr (congrArg Prod.fst h))
    rw [rp.2, rq.2, h]

/-- two lists are related entry by entry (same length) -/
def RelL {α β : Type} (R : α → β → Prop) : List α → List β → Prop
  | [], [] => True
  | a :: l, b :: m => R a b ∧ RelL R l m
  | [], _ :: _ => False
  | _ :: _, [] => False

theorem relL_concat {α β : Type} (R : α → β → Prop) (l : List α) (m : List β) (a : α) (b : β)
    (h : RelL R l m) (hab : R a b) : RelL R (l ++ [a]) (m ++ [b]) := by
  induction l generalizing m with
  | nil =>
    cases m with
    | nil => exact ⟨hab, trivial⟩
    | cons y m => cases h
  | cons x l ih =>
    cases m with
    | nil => cases h
    | cons y m => exact ⟨h.1, ih m h.2⟩

/-- occurrence counts correspond under an entry-by-entry relation that is bi-unique with respect to
the counted elements -/
theorem relL_count {α β : Type} [BEq α] [LawfulBEq α] [BEq β] [LawfulBEq β] (R : α → β → Prop)
    (l : List α) (m : List β) (q : α) (q' : β) (h : RelL R l m)
    (hbi : ∀ p ∈ l, ∀ p' ∈ m, R p p' → (p' = q' ↔ p = q)) : m.count q' = l.count q := by
  induction l generalizing m with
  | nil =>
    cases m with
    | nil => rfl
    | cons y m => cases h
  | cons x l ih =>
    cases m with
    | nil => cases h
    | cons y m =>
      have hxy := hbi x (by simp) y (by simp) h.1
      have hrec := ih m h.2 (fun p hp p' hp' => hbi p (by simp [hp]) p' (by simp [hp']))
      rw [List.count_cons, List.count_cons, hrec]
      by_cases e : x = q
      · have e' : y = q' := hxy.mpr e
        simp [e, e']
      · have e' : ¬ y = q' := fun hy => e (hxy.mp hy)
        simp [e, e']

/-- the ghost lists of two related games: entries related one by one, all boards well-formed, the
turn-start boards related -/
structure GhostRel (σ : Sym) (G G' : List (Board × Bool)) : Prop where
  rel : RelL (PosRel σ) G G'
  wf : ∀ p ∈ G, WF p.1
  wf' : ∀ p ∈ G', WF p.1
  tsbWf : WF (tsb G)
  tsbWf' : WF (tsb G')
  tsbRel : absBoard (tsb G') = σ.board (absBoard (tsb G))

theorem ghostRel_concat (σ : Sym) (G G' : List (Board × Bool)) (h : GhostRel σ G G')
    (p p' : Board × Bool) (hp : WF p.1) (hp' : WF p'.1) (r : PosRel σ p p') :
    GhostRel σ (G ++ [p]) (G' ++ [p']) := by
  refine ⟨relL_concat _ _ _ _ _ h.rel r, ?_, ?_, ?_, ?_, ?_⟩
  · intro x hx
    rcases List.mem_append.mp hx with hx | hx
    · exact h.wf x hx
    · rw [List.mem_singleton] at hx; subst hx; exact hp
  · intro x hx
    rcases List.mem_append.mp hx with hx | hx
    · exact h.wf' x hx
    · rw [List.mem_singleton] at hx; subst hx; exact hp'
  · rw [tsb_concat]; exact hp
  · rw [tsb_concat]; exact hp'
  · rw [tsb_concat, tsb_concat]; exact r.1

theorem ghostRel_start (σ : Sym) (s s' : GameState) (hw : WF s.board) (hw' : WF s'.board)
    (hb : absBoard s'.board = σ.board (absBoard s.board)) (ht : s'.p1Turn = σ.col s.p1Turn) :
    GhostRel σ [posOf s] [posOf s'] := by
  refine ⟨⟨⟨hb, ht⟩, trivial⟩, ?_, ?_, hw, hw', hb⟩
  · intro x hx; rw [List.mem_singleton] at hx; subst hx; exact hw
  · intro x hx; rw [List.mem_singleton] at hx; subst hx; exact hw'

/-- the symmetries keep the kind of an action, so "ends the turn" corresponds -/
theorem endsTurn_iact (σ : Sym) (pp pp' : PlayPhase) (hs : pp'.step = pp.step) (a : Action) :
    endsTurn pp' (σ.iact a) = endsTurn pp a := by
  cases a <;> simp only [Spec.Sym.iact, endsTurn, hs]

/-- one action on the ghost lists of related states -/
theorem ghostRel_step (σ : Sym) (s s' : GameState) (pp pp' : PlayPhase)
    (h : PlayInv s pp) (h' : PlayInv s' pp') (hr : SymRel σ s pp s' pp') (a : Action)
    (ha : a ∈ s.validActionsNoRep) (G G' : List (Board × Bool)) (hg : GhostRel σ G G') :
    GhostRel σ (ghostStep s G a) (ghostStep s' G' (σ.iact a)) := by
  unfold ghostStep
  rw [endsTurnAt_play s pp h.phase, endsTurnAt_play s' pp' h'.phase, endsTurn_iact σ pp pp' hr.step]
  cases endsTurn pp a with
  | false => exact hg
  | true =>
    obtain ⟨_, q, q', hq, hq', hrq⟩ := C11_impl_step σ s s' pp pp' h h' hr a ha
    exact ghostRel_concat σ G G' hg _ _ hq.wf hq'.wf ⟨hrq.board, hrq.turn⟩

/-- **the ghost lists of a game and of its image game are related** -/
theorem ghostRel_run (σ : Sym) (as : List Action) (s s' : GameState) (pp pp' : PlayPhase)
    (h : PlayInv s pp) (h' : PlayInv s' pp') (hr : SymRel σ s pp s' pp') (ho : OfferedNR s as)
    (G G' : List (Board × Bool)) (hg : GhostRel σ G G') :
    GhostRel σ (turnStartsFrom s G as) (turnStartsFrom s' G' (as.map σ.iact)) := by
  induction as generalizing s s' pp pp' G G' with
  | nil => exact hg
  | cons a as ih =>
    obtain ⟨_, q, q', hq, hq', hrq⟩ := C11_impl_step σ s s' pp pp' h h' hr a ho.1
    exact ih _ _ q q' hq hq' hrq ho.2 _ _ (ghostRel_step σ s s' pp pp' h h' hr a ho.1 G G' hg)

theorem playableNoRep_iff_offeredNR (s : GameState) (as : List Action) :
    PlayableNoRep s as ↔ OfferedNR s as := by
  induction as generalizing s with
  | nil => exact Iff.rfl
  | cons a as ih => exact and_congr_right fun _ => ih _

/-- a start state satisfies the play invariant -/
theorem playInv_start (s0 : GameState) (h : StartOk s0) :
    PlayInv s0 (PlayPhase.initial s0.hash [s0.hash]) := (histInv_start s0 h).inv

/-- start states whose boards and sides are `σ`-images are related -/
theorem symRel_start (σ : Sym) (s0 s0' : GameState)
    (hb : absBoard s0'.board = σ.board (absBoard s0.board)) (ht : s0'.p1Turn = σ.col s0.p1Turn) :
    SymRel σ s0 (PlayPhase.initial s0.hash [s0.hash]) s0' (PlayPhase.initial s0'.hash [s0'.hash]) :=
  ⟨hb, ht, rfl, rfl⟩

theorem playInv_unique (s : GameState) (pp q : PlayPhase) (h : PlayInv s q) (hph : s.phase = .play pp) :
    PlayInv s pp := by
  have := h.phase
  rw [hph] at this
  injection this with this
  subst this
  exact h

theorem symRel_unique (σ : Sym) (s s' : GameState) (pp q pp' q' : PlayPhase)
    (hq : s.phase = .play q) (hq' : s'.phase = .play q') (h : SymRel σ s q s' q')
    (hph : s.phase = .play pp) (hph' : s'.phase = .play pp') : SymRel σ s pp s' pp' := by
  rw [hph] at hq; rw [hph'] at hq'
  injection hq with hq; injection hq' with hq'
  subst hq; subst hq'
  exact h

/-- everything the repetition clause needs about a game from a start state and its image game: the
image game is playable through the rule-only lists, the reached states satisfy the invariant and are
related, and so are the ghost lists of start-of-turn positions -/
theorem symGame_setup (σ : Sym) (s0 s0' : GameState) (h0 : StartOk s0) (h0' : StartOk s0')
    (hb : absBoard s0'.board = σ.board (absBoard s0.board)) (ht : s0'.p1Turn = σ.col s0.p1Turn)
    (as : List Action) (ho : OfferedNR s0 as) (pp pp' : PlayPhase)
    (hph : (s0.run as).phase = .play pp) (hph' : (s0'.run (as.map σ.iact)).phase = .play pp') :
    OfferedNR s0' (as.map σ.iact) ∧ PlayInv (s0.run as) pp ∧ PlayInv (s0'.run (as.map σ.iact)) pp' ∧
      SymRel σ (s0.run as) pp (s0'.run (as.map σ.iact)) pp' ∧
      GhostRel σ (turnStarts s0 as) (turnStarts s0' (as.map σ.iact)) := by
  have hi := playInv_start s0 h0
  have hi' := playInv_start s0' h0'
  have hr := symRel_start σ s0 s0' hb ht
  obtain ⟨hpl, q, q', hq, hq', hrq⟩ := C11_impl_game σ as s0 s0' _ _ hi hi' hr
    ((playableNoRep_iff_offeredNR s0 as).mpr ho)
  exact ⟨(playableNoRep_iff_offeredNR _ _).mp hpl, playInv_unique _ pp q hq hph,
    playInv_unique _ pp' q' hq' hph',
    symRel_unique σ _ _ pp q pp' q' hq.phase hq'.phase hrq hph hph',
    ghostRel_run σ as s0 s0' _ _ hi hi' hr ho _ _ (ghostRel_start σ s0 s0' h0.wf h0'.wf hb ht)⟩

/-- the image game of a playable game reaches a play-phase state -/
theorem symGame_phase (σ : Sym) (s0 s0' : GameState) (h0 : StartOk s0) (h0' : StartOk s0')
    (hb : absBoard s0'.board = σ.board (absBoard s0.board)) (ht : s0'.p1Turn = σ.col s0.p1Turn)
    (as : List Action) (ho : OfferedNR s0 as) :
    ∃ pp pp', (s0.run as).phase = .play pp ∧ (s0'.run (as.map σ.iact)).phase = .play pp' := by
  obtain ⟨_, q, q', hq, hq', _⟩ := C11_impl_game σ as s0 s0' _ _ (playInv_start s0 h0)
    (playInv_start s0' h0') (symRel_start σ s0 s0' hb ht) ((playableNoRep_iff_offeredNR s0 as).mpr ho)
  exact ⟨q, q', hq.phase, hq'.phase⟩

/-- the relation between start states is symmetric (every `σ` is an involution) -/
theorem startRel_symm (σ : Sym) (b b' : Board) (g g' : Bool)
    (hb : absBoard b' = σ.board (absBoard b)) (ht : g' = σ.col g) :
    absBoard b = σ.board (absBoard b') ∧ g = σ.col g' := by
  rw [hb, ht, σ.board_board, σ.col_col]; exact ⟨rfl, rfl⟩

theorem map_iact_iact (σ : Sym) (as : List Action) : (as.map σ.iact).map σ.iact = as := by
  rw [List.map_map]
  have : σ.iact ∘ σ.iact = id := funext (iact_iact σ)
  rw [this, List.map_id]

/-- the symmetries on the model's results against the side to move: "the player on move has lost" -/
theorem ires_loser (σ : Sym) (g : Bool) :
    σ.ires (if g then Terminal.silverWin else Terminal.goldWin) =
      (if σ.col g then Terminal.silverWin else Terminal.goldWin) := by
  cases σ <;> cases g <;> rfl

end Arimaa
