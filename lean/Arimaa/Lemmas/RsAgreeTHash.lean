import Arimaa.Lemmas.RsAgreeBoard

/-!
Agreement of the regenerated model with the hand model: `transposition_hash`.
-/
namespace Arimaa.RsAgree
open Arimaa Arimaa.Gen Arimaa.Gen.RsBase Arimaa.Rt

theorem transposition_hash_eq (s : GameState) :
    GameState_transposition_hash s = Res.guard s.transpositionHashPanics s.transpositionHash := by
  unfold GameState_transposition_hash GameState.transpositionHashPanics GameState.transpositionHash
  cases s.phase with
  | place => rfl
  | play pp => exact zobrist_with_pps _ _

end Arimaa.RsAgree
