import Arimaa.Lemmas.Bits
namespace Arimaa
open Gen

theorem bool_eq_decide {b : Bool} {p : Prop} [Decidable p] (h : b = true ↔ p) : b = decide p := by
  cases b <;> simp_all

theorem tz64_eq_of_lowest (x : BB) (j : Nat) (hj : j < 64) (hb : bit x j = true)
    (hlow : ∀ i, i < j → bit x i = false) : tz64 x = j := by
  have hx : x ≠ 0 := (bb_ne_zero_iff x).mpr ⟨j, hj, hb⟩
  obtain ⟨_, ht, hl⟩ := tz64_spec x hx
  rcases Nat.lt_trichotomy (tz64 x) j with h | h | h
  · rw [hlow _ h] at ht; cases ht
  · exact h
  · rw [hl _ h] at hb; cases hb

theorem firstSetBit_eq_sqBit (x : BB) (j : Nat) (hj : j < 64) (hb : bit x j = true)
    (hlow : ∀ i, i < j → bit x i = false) : firstSetBit x = sqBit j := by
  unfold firstSetBit sqBit; rw [tz64_eq_of_lowest x j hj hb hlow]

theorem sqBit_self (j : Nat) (hj : j < 64) : bit (sqBit j) j = true := by
  rw [sqBit_bit]; simp [hj]

theorem setup_sqBit_ne_zero (j : Nat) (hj : j < 64) : sqBit j ≠ 0 :=
  (bb_ne_zero_iff _).mpr ⟨j, hj, sqBit_self j hj⟩

theorem setup_sqOfBit_sqBit (j : Nat) (hj : j < 64) : sqOfBit (sqBit j) = j := by
  unfold sqOfBit; rw [if_neg (setup_sqBit_ne_zero j hj)]
  apply tz64_eq_of_lowest _ _ hj (sqBit_self j hj)
  intro i hi; rw [sqBit_bit]; have : i ≠ j := by omega
  simp [this]

theorem sqBit_inj (q r : Nat) (hq : q < 64) (h : sqBit q = sqBit r) : q = r := by
  have := sqBit_self q hq
  rw [h, sqBit_bit] at this
  simpa [hq] using this

theorem countP_insert (f g : Nat → Bool) (q : Nat) (hq : f q = false)
    (hg : ∀ i, g i = (f i || decide (i = q))) :
    ∀ l : List Nat, l.Nodup → l.countP g = l.countP f + (if q ∈ l then 1 else 0) := by
  intro l
  induction l with
  | nil => simp
  | cons a l ih =>
    intro hnd
    rw [List.nodup_cons] at hnd
    rw [List.countP_cons, List.countP_cons, ih hnd.2]
    by_cases ha : a = q
    · subst ha; simp [hg, hq, hnd.1]
    · have h1 : g a = f a := by rw [hg]; simp [ha]
      have h2 : (q ∈ a :: l) ↔ q ∈ l := by simp [Ne.symm ha]
      simp only [h1, h2]
      omega

theorem popcount_or_sqBit (x : BB) (q : Nat) (hq : q < 64) (hx : bit x q = false) :
    popcount (x ||| sqBit q) = popcount x + 1 := by
  unfold popcount squaresOf
  rw [← List.countP_eq_length_filter, ← List.countP_eq_length_filter]
  rw [countP_insert (fun i => x.getLsbD i) (fun i => (x ||| sqBit q).getLsbD i) q hx _ _ List.nodup_range]
  · simp [hq]
  · intro i
    show bit (x ||| sqBit q) i = (bit x i || decide (i = q))
    rw [bit_or, sqBit_bit]
    by_cases hi : i < 64
    · simp [hi]
    · have : i ≠ q := by omega
      simp [hi, this]

theorem popcount_zero : popcount 0 = 0 := by
  unfold popcount; rw [squaresOf_zero]; rfl

theorem count_pieces_sum (l : List Piece) :
    l.count .elephant + l.count .camel + l.count .horse + l.count .dog + l.count .cat
      + l.count .rabbit = l.length := by
  induction l with
  | nil => rfl
  | cons a l ih => cases a <;> simp <;> omega

/-! ### the shape of the board during setup -/

/-- the square filled by placement number `k` (0-based): Gold a2..h2, a1..h1 are bits 48..63,
Silver a8..h8, a7..h7 are bits 0..15 -/
def placementSquare (k : Nat) : Nat := if k < 16 then 48 + k else k - 16

/-- the full complement of a piece type in one army -/
def complement : Piece → Nat
  | .elephant => 1
  | .camel => 1
  | .horse => 2
  | .dog => 2
  | .cat => 2
  | .rabbit => 8

/-- the order in which `valid_placement` offers piece types -/
def pieceOrder : List Piece := [.elephant, .camel, .horse, .dog, .cat, .rabbit]

/-- Board after `k` placements (0 ≤ k ≤ 32): Gold's pieces are exactly bits `48 .. 48 + min k 16 - 1`,
Silver's exactly bits `0 .. k - 16 - 1`; `all` is the union of the six type boards, which are
pairwise disjoint. -/
structure BoardShape (k : Nat) (b : Board) : Prop where
  all_iff : ∀ i, i < 64 → (bit b.all i = true ↔ (48 ≤ i ∧ i < 48 + min k 16) ∨ i < k - 16)
  p1_iff : ∀ i, i < 64 → (bit b.p1 i = true ↔ 48 ≤ i ∧ i < 48 + min k 16)
  union : b.all = b.elephants ||| b.camels ||| b.horses ||| b.dogs ||| b.cats ||| b.rabbits
  disjoint : ∀ t u, t ≠ u → b.typeBits t &&& b.typeBits u = 0

/-- number of pieces of type `t` of the side to move that are on the board (what
`valid_placement` counts) -/
def moverCount (s : GameState) (t : Piece) : Nat :=
  popcount (s.board.typeBits t &&& s.currPlayerPieceMask s.board)

/-- Setup state after `k < 32` placements. -/
structure SetupShape (k : Nat) (s : GameState) : Prop where
  lt : k < 32
  board : BoardShape k s.board
  turn : s.p1Turn = decide (k < 16)
  moveNo : s.moveNo = 1
  phase : s.phase = .place
  count_le : ∀ t, moverCount s t ≤ complement t
  count_sum : moverCount s .elephant + moverCount s .camel + moverCount s .horse
    + moverCount s .dog + moverCount s .cat + moverCount s .rabbit = k % 16

theorem placementSquare_lt (k : Nat) (hk : k < 32) : placementSquare k < 64 := by
  unfold placementSquare; split <;> omega

theorem BoardShape.all_eq {k : Nat} {b : Board} (h : BoardShape k b) (i : Nat) (hi : i < 64) :
    bit b.all i = decide ((48 ≤ i ∧ i < 48 + min k 16) ∨ i < k - 16) :=
  bool_eq_decide (h.all_iff i hi)

theorem BoardShape.p1_eq {k : Nat} {b : Board} (h : BoardShape k b) (i : Nat) (hi : i < 64) :
    bit b.p1 i = decide (48 ≤ i ∧ i < 48 + min k 16) :=
  bool_eq_decide (h.p1_iff i hi)

/-- the next square is free -/
theorem BoardShape.all_next {k : Nat} {b : Board} (h : BoardShape k b) (hk : k < 32) :
    bit b.all (placementSquare k) = false := by
  rw [h.all_eq _ (placementSquare_lt k hk)]
  unfold placementSquare
  split <;> simp <;> omega

theorem BoardShape.p1_next {k : Nat} {b : Board} (h : BoardShape k b) (hk : k < 32) :
    bit b.p1 (placementSquare k) = false := by
  rw [h.p1_eq _ (placementSquare_lt k hk)]
  unfold placementSquare
  split <;> simp <;> omega

theorem typeBits_sub_all {b : Board}
    (hu : b.all = b.elephants ||| b.camels ||| b.horses ||| b.dogs ||| b.cats ||| b.rabbits)
    (t : Piece) (i : Nat) (h : bit (b.typeBits t) i = true) : bit b.all i = true := by
  rw [hu]; simp only [bit_or]
  cases t <;> simp only [Board.typeBits] at h <;> simp [h]

theorem BoardShape.type_next {k : Nat} {b : Board} (h : BoardShape k b) (hk : k < 32) (t : Piece) :
    bit (b.typeBits t) (placementSquare k) = false := by
  cases hb : bit (b.typeBits t) (placementSquare k)
  · rfl
  · have := typeBits_sub_all h.union t _ hb
    rw [h.all_next hk] at this; cases this

/-- the mask test of `placement_bit`: all sixteen Gold squares filled iff `16 ≤ k` -/
theorem BoardShape.p1_full {k : Nat} {b : Board} (h : BoardShape k b) :
    ((b.p1 &&& P1_PLACEMENT_MASK) == P1_PLACEMENT_MASK) = decide (16 ≤ k) := by
  by_cases hk : 16 ≤ k
  · have : b.p1 &&& P1_PLACEMENT_MASK = P1_PLACEMENT_MASK := by
      apply bb_ext; intro i hi
      rw [bit_and, p1_placement_bit i hi, h.p1_eq i hi]
      by_cases h48 : 48 ≤ i <;> simp [h48]; omega
    simp [this, hk]
  · have : b.p1 &&& P1_PLACEMENT_MASK ≠ P1_PLACEMENT_MASK := by
      intro he
      have h1 : bit (b.p1 &&& P1_PLACEMENT_MASK) (48 + k) = bit P1_PLACEMENT_MASK (48 + k) := by rw [he]
      rw [bit_and, p1_placement_bit _ (by omega), h.p1_eq _ (by omega)] at h1
      simp at h1; omega
    simp [this, hk]

/-- `placement_bit` is the single bit of the next square in the mover's order -/
theorem BoardShape.placementBit_eq {k : Nat} {b : Board} (h : BoardShape k b) (hk : k < 32) :
    b.placementBit = sqBit (placementSquare k) := by
  unfold Board.placementBit
  simp only [h.p1_full]
  apply firstSetBit_eq_sqBit _ _ (placementSquare_lt k hk)
  · rw [bit_and, bit_not, h.all_next hk]
    unfold placementSquare
    by_cases h16 : k < 16
    · have : ¬ 16 ≤ k := by omega
      simp only [h16, this, decide_false, Bool.false_eq_true, ↓reduceIte]
      rw [p1_placement_bit _ (by omega)]; simp; omega
    · have : 16 ≤ k := by omega
      simp only [h16, this, decide_true, if_true, if_false]
      rw [p2_placement_bit _ (by omega)]; simp; omega
  · intro i hi
    have hi64 : i < 64 := by have := placementSquare_lt k hk; omega
    rw [bit_and, bit_not, h.all_eq i hi64]
    unfold placementSquare at hi
    by_cases h16 : k < 16
    · have : ¬ 16 ≤ k := by omega
      simp only [h16, if_true] at hi
      simp only [this, decide_false, Bool.false_eq_true, ↓reduceIte]
      rw [p1_placement_bit _ hi64]; simp; omega
    · have : 16 ≤ k := by omega
      simp only [h16, if_false] at hi
      simp only [this, decide_true, if_true]
      rw [p2_placement_bit _ hi64]; simp; omega

theorem takeAction_place (s : GameState) (p : Piece) : s.takeAction (.place p) = s.place p := rfl

theorem placeField_id (p : Piece) : placeField p = p := by cases p <;> rfl

theorem place_typeBits (s : GameState) (p t : Piece) :
    (s.place p).board.typeBits t =
      if t = p then s.board.typeBits t ||| s.board.placementBit else s.board.typeBits t := by
  cases t <;> cases p <;> rfl

theorem place_p1 (s : GameState) (p : Piece) :
    (s.place p).board.p1 = s.board.p1 ||| (if s.p1Turn then s.board.placementBit else 0) := rfl

theorem place_all (s : GameState) (p : Piece)
    (hu : s.board.all = s.board.elephants ||| s.board.camels ||| s.board.horses ||| s.board.dogs
      ||| s.board.cats ||| s.board.rabbits) :
    (s.place p).board.all = s.board.all ||| s.board.placementBit := by
  rw [hu]
  cases p <;> simp only [GameState.place, Board.new, placeField, reduceCtorEq, ↓reduceIte] <;> ac_rfl

theorem place_union (s : GameState) (p : Piece) :
    (s.place p).board.all = (s.place p).board.elephants ||| (s.place p).board.camels
      ||| (s.place p).board.horses ||| (s.place p).board.dogs ||| (s.place p).board.cats
      ||| (s.place p).board.rabbits := rfl

theorem sqBit_63 : sqBit 63 = LAST_P1_PLACEMENT_MASK := by decide
theorem sqBit_15 : sqBit 15 = LAST_P2_PLACEMENT_MASK := by decide

theorem sqBit_beq_last_p1 (q : Nat) (hq : q < 64) :
    (sqBit q == LAST_P1_PLACEMENT_MASK) = decide (q = 63) := by
  rw [← sqBit_63]
  by_cases h : q = 63
  · subst h; simp
  · have : sqBit q ≠ sqBit 63 := fun he => h (sqBit_inj q 63 hq he)
    simp [this, h]

theorem sqBit_beq_last_p2 (q : Nat) (hq : q < 64) :
    (sqBit q == LAST_P2_PLACEMENT_MASK) = decide (q = 15) := by
  rw [← sqBit_15]
  by_cases h : q = 15
  · subst h; simp
  · have : sqBit q ≠ sqBit 15 := fun he => h (sqBit_inj q 15 hq he)
    simp [this, h]

theorem placementSquare_eq_63 (k : Nat) (hk : k < 32) : placementSquare k = 63 ↔ k = 15 := by
  unfold placementSquare; split <;> omega
theorem placementSquare_eq_15 (k : Nat) (hk : k < 32) : placementSquare k = 15 ↔ k = 31 := by
  unfold placementSquare; split <;> omega

theorem place_board_shape {k : Nat} {s : GameState} (h : BoardShape k s.board) (hk : k < 32)
    (ht : s.p1Turn = decide (k < 16)) (p : Piece) : BoardShape (k + 1) (s.place p).board := by
  have hq := placementSquare_lt k hk
  refine ⟨?_, ?_, place_union s p, ?_⟩
  · intro i hi
    rw [place_all s p h.union, h.placementBit_eq hk, bit_or, sqBit_bit, h.all_eq i hi]
    unfold placementSquare
    simp only [Bool.or_eq_true, Bool.and_eq_true, decide_eq_true_eq]
    split <;> omega
  · intro i hi
    rw [place_p1, ht, h.placementBit_eq hk]
    by_cases h16 : k < 16
    · simp only [h16, decide_true, if_true]
      rw [bit_or, sqBit_bit, h.p1_eq i hi]
      unfold placementSquare
      simp only [Bool.or_eq_true, Bool.and_eq_true, decide_eq_true_eq, h16, if_true]
      omega
    · simp only [h16, decide_false, Bool.false_eq_true, if_false]
      rw [bit_or, bit_zero, Bool.or_false, h.p1_eq i hi]
      simp only [decide_eq_true_eq]
      omega
  · intro t u htu
    apply bb_ext; intro i hi
    have hdi : (bit (s.board.typeBits t) i && bit (s.board.typeBits u) i) = false := by
      rw [← bit_and, h.disjoint t u htu, bit_zero]
    rw [bit_and, place_typeBits, place_typeBits, bit_zero, h.placementBit_eq hk]
    by_cases hiq : i = placementSquare k
    · subst hiq
      have h1 := h.type_next hk t
      have h2 := h.type_next hk u
      by_cases htp : t = p
      · have hup : ¬ u = p := fun hu => htu (htp.trans hu.symm)
        simp [htp, hup, h2]
      · simp [htp, h1]
    · split <;> split <;> simp [bit_or, sqBit_bit, hiq, hdi]


theorem place_p1Turn_eq {k : Nat} {s : GameState} (h : BoardShape k s.board) (hk : k < 32)
    (ht : s.p1Turn = decide (k < 16)) (p : Piece) :
    (s.place p).p1Turn = (decide (k + 1 < 16) || decide (k = 31)) := by
  show (if s.board.placementBit == LAST_P1_PLACEMENT_MASK then false
    else if s.board.placementBit == LAST_P2_PLACEMENT_MASK then true else s.p1Turn) = _
  have hq := placementSquare_lt k hk
  rw [h.placementBit_eq hk, sqBit_beq_last_p1 _ hq, sqBit_beq_last_p2 _ hq, ht]
  simp only [placementSquare_eq_63 k hk, placementSquare_eq_15 k hk]
  by_cases h15 : k = 15
  · simp [h15]
  · by_cases h31 : k = 31
    · simp [h31]
    · have : (k < 16) ↔ (k + 1 < 16) := by omega
      simp [h15, h31, this]

theorem place_phase_eq {k : Nat} {s : GameState} (h : BoardShape k s.board) (hk : k < 32)
    (p : Piece) :
    (s.place p).phase = if k = 31 then .play (PlayPhase.initial (s.place p).hash [(s.place p).hash])
      else .place := by
  show (if s.board.placementBit == LAST_P2_PLACEMENT_MASK then
    Phase.play (PlayPhase.initial (s.place p).hash [(s.place p).hash]) else .place) = _
  rw [h.placementBit_eq hk, sqBit_beq_last_p2 _ (placementSquare_lt k hk)]
  simp only [placementSquare_eq_15 k hk, decide_eq_true_eq]

theorem place_moveNo_eq {k : Nat} {s : GameState} (h : BoardShape k s.board) (hk : k < 32)
    (p : Piece) : (s.place p).moveNo = if k = 31 then 2 else 1 := by
  show (if s.board.placementBit == LAST_P2_PLACEMENT_MASK then placeMoveNumberPlay
    else placeMoveNumberSetup) = _
  rw [h.placementBit_eq hk, sqBit_beq_last_p2 _ (placementSquare_lt k hk)]
  simp only [placementSquare_eq_15 k hk, decide_eq_true_eq]
  rfl

theorem place_hash_eq {k : Nat} {s : GameState} (h : BoardShape k s.board) (hk : k < 32)
    (p : Piece) : (s.place p).hash =
      zPlacePiece s.hash p (placementSquare k) s.p1Turn (decide (k = 15)) (decide (k = 31)) := by
  show zPlacePiece s.hash p (sqOfBit s.board.placementBit) s.p1Turn
    (s.board.placementBit == LAST_P1_PLACEMENT_MASK) (s.board.placementBit == LAST_P2_PLACEMENT_MASK) = _
  have hq := placementSquare_lt k hk
  rw [h.placementBit_eq hk, sqBit_beq_last_p1 _ hq, sqBit_beq_last_p2 _ hq, setup_sqOfBit_sqBit _ hq]
  simp only [placementSquare_eq_63 k hk, placementSquare_eq_15 k hk]

/-- the mover's pieces of type `t` after a placement that does not hand the move over -/
theorem place_mover_bits {k : Nat} {s : GameState} (h : BoardShape k s.board) (hk : k + 1 < 32)
    (h15 : k ≠ 15) (ht : s.p1Turn = decide (k < 16)) (p t : Piece) :
    (s.place p).board.typeBits t &&& (s.place p).currPlayerPieceMask (s.place p).board =
      if t = p then (s.board.typeBits t &&& s.currPlayerPieceMask s.board) ||| sqBit (placementSquare k)
      else s.board.typeBits t &&& s.currPlayerPieceMask s.board := by
  have hk' : k < 32 := by omega
  have hq := placementSquare_lt k hk'
  have hturn : (s.place p).p1Turn = s.p1Turn := by
    rw [place_p1Turn_eq h hk' ht, ht]
    have : (k < 16) ↔ (k + 1 < 16) := by omega
    have h31 : k ≠ 31 := by omega
    simp [this, h31]
  unfold GameState.currPlayerPieceMask
  rw [hturn, place_typeBits, place_p1, place_all s p h.union, h.placementBit_eq hk', ht]
  have hA := h.type_next hk' t
  have hP := h.p1_next hk'
  have hL := h.all_next hk'
  apply bb_ext; intro i hi
  by_cases hiq : i = placementSquare k
  · subst hiq
    by_cases h16 : k < 16 <;> by_cases htp : t = p <;>
      simp [h16, htp, bit_and, bit_or, bit_not, sqBit_bit, hA, hP, hL, hi]
  · by_cases h16 : k < 16 <;> by_cases htp : t = p <;>
      simp [h16, htp, bit_and, bit_or, bit_not, sqBit_bit, hiq, hi]

theorem moverCount_place {k : Nat} {s : GameState} (h : BoardShape k s.board) (hk : k + 1 < 32)
    (h15 : k ≠ 15) (ht : s.p1Turn = decide (k < 16)) (p t : Piece) :
    moverCount (s.place p) t = if t = p then moverCount s t + 1 else moverCount s t := by
  unfold moverCount
  rw [place_mover_bits h hk h15 ht]
  have hk' : k < 32 := by omega
  split
  · apply popcount_or_sqBit _ _ (placementSquare_lt k hk')
    rw [bit_and, h.type_next hk' t]; rfl
  · rfl

/-- when Gold's last piece is placed the new mover (Silver) has nothing on the board -/
theorem moverCount_place_15 {s : GameState} (h : BoardShape 15 s.board)
    (ht : s.p1Turn = true) (p t : Piece) : moverCount (s.place p) t = 0 := by
  have hs := place_board_shape h (by omega) (by simp [ht]) p
  have hturn : (s.place p).p1Turn = false := by
    rw [place_p1Turn_eq h (by omega) (by simp [ht]) p]; rfl
  unfold moverCount GameState.currPlayerPieceMask
  rw [hturn]
  have : ~~~(s.place p).board.p1 &&& (s.place p).board.all = 0 := by
    apply bb_ext; intro i hi
    rw [bit_and, bit_not, hs.all_eq i hi, hs.p1_eq i hi, bit_zero]
    simp; omega
  simp only [Bool.false_eq_true, if_false, this]
  have h0 : (s.place p).board.typeBits t &&& (0 : BB) = 0 := by
    apply bb_ext; intro i _; rw [bit_and, bit_zero, Bool.and_false]
  rw [h0, popcount_zero]

/-- one placement of an offered piece keeps the setup shape -/
theorem SetupShape.place {k : Nat} {s : GameState} (h : SetupShape k s) (hk : k + 1 < 32)
    (p : Piece) (hp : moverCount s p < complement p) : SetupShape (k + 1) (s.place p) := by
  have hk' := h.lt
  have hb := place_board_shape h.board hk' h.turn p
  refine ⟨hk, hb, ?_, ?_, ?_, ?_, ?_⟩
  · rw [place_p1Turn_eq h.board hk' h.turn]
    have : k ≠ 31 := by omega
    simp [this]
  · rw [place_moveNo_eq h.board hk']
    have : k ≠ 31 := by omega
    simp [this]
  · rw [place_phase_eq h.board hk']
    have : k ≠ 31 := by omega
    simp [this]
  · intro t
    by_cases h15 : k = 15
    · subst h15
      rw [moverCount_place_15 h.board (by simp [h.turn])]; exact Nat.zero_le _
    · rw [moverCount_place h.board hk h15 h.turn]
      split
      · next htp => subst htp; omega
      · exact h.count_le t
  · by_cases h15 : k = 15
    · subst h15
      simp only [moverCount_place_15 h.board (by simp [h.turn] : s.p1Turn = true)]
    · simp only [moverCount_place h.board hk h15 h.turn]
      have hs := h.count_sum
      cases p <;> simp only [reduceCtorEq, if_true, if_false] <;> omega

theorem validActions_place (s : GameState) (h : s.phase = .place) :
    s.validActions = s.validPlacement := by
  unfold GameState.validActions GameState.validActions_; rw [h]

theorem filterMap_ite {α β : Type} (c : α → Bool) (g : α → β) (l : List α) :
    l.filterMap (fun a => if c a then some (g a) else none) = (l.filter c).map g := by
  induction l with
  | nil => rfl
  | cons a l ih =>
    rw [List.filterMap_cons, List.filter_cons]
    cases h : c a <;> simp [ih]

/-- the generated table lists every piece type once, in `pieceOrder`, with its complement -/
theorem placementTable_eq : placementTable = pieceOrder.map (fun t => (t, complement t, t)) := rfl

/-- `valid_placement` spelled out: the piece types, in the order elephant … rabbit, of which the
mover has fewer than the complement on the board -/
theorem validPlacement_eq (s : GameState) :
    s.validPlacement =
      (pieceOrder.filter (fun t => decide (moverCount s t < complement t))).map Action.place := by
  unfold GameState.validPlacement
  rw [placementTable_eq, List.filterMap_map, ← filterMap_ite]
  congr 1
  funext t
  show (if moverCount s t < complement t then some (Action.place t) else none) = _
  by_cases hh : moverCount s t < complement t
  · rw [if_pos hh, if_pos (decide_eq_true hh)]
  · rw [if_neg hh, if_neg (by simpa using hh)]

theorem mem_pieceOrder (t : Piece) : t ∈ pieceOrder := by cases t <;> decide

theorem mem_validPlacement (s : GameState) (t : Piece) :
    Action.place t ∈ s.validPlacement ↔ moverCount s t < complement t := by
  rw [validPlacement_eq, List.mem_map]
  constructor
  · rintro ⟨u, hu, he⟩
    cases he
    simpa using (List.mem_filter.mp hu).2
  · intro h
    exact ⟨t, List.mem_filter.mpr ⟨mem_pieceOrder t, by simpa using h⟩, rfl⟩

theorem SetupShape.exists_offered {k : Nat} {s : GameState} (h : SetupShape k s) :
    ∃ t, moverCount s t < complement t := by
  apply Classical.byContradiction
  intro hn
  have hall : ∀ t, complement t ≤ moverCount s t := fun t =>
    Nat.le_of_not_lt (fun hlt => hn ⟨t, hlt⟩)
  have h1 := hall .elephant; have h2 := hall .camel; have h3 := hall .horse
  have h4 := hall .dog; have h5 := hall .cat; have h6 := hall .rabbit
  have hs := h.count_sum
  simp only [complement] at h1 h2 h3 h4 h5 h6
  omega

theorem initial_shape : SetupShape 0 GameState.initial := by
  have hc : ∀ t, moverCount GameState.initial t = 0 := by
    intro t; cases t <;> exact popcount_zero
  refine ⟨by omega, ⟨?_, ?_, rfl, ?_⟩, rfl, rfl, rfl, ?_, ?_⟩
  · intro i hi
    show bit 0 i = true ↔ _
    rw [bit_zero]; simp
  · intro i hi
    show bit 0 i = true ↔ _
    rw [bit_zero]; simp
  · intro t u _
    cases t <;> cases u <;> rfl
  · intro t; rw [hc]; exact Nat.zero_le _
  · simp only [hc]

/-- States reached from `GameState::initial()` by taking offered placement actions, together with
the list of piece types placed so far (oldest first). -/
inductive SetupRun : List Piece → GameState → Prop
  | init : SetupRun [] GameState.initial
  | step {ps : List Piece} {s : GameState} {p : Piece} :
      SetupRun ps s → Action.place p ∈ s.validActions →
      SetupRun (ps ++ [p]) (s.takeAction (.place p))

/-- the placements made so far by the side that is to move after `ps` (fewer than 32 placements) -/
def moverPlaced (ps : List Piece) : List Piece := if ps.length < 16 then ps else ps.drop 16

theorem moverPlaced_snoc (ps : List Piece) (p : Piece) (h15 : ps.length ≠ 15) :
    moverPlaced (ps ++ [p]) = moverPlaced ps ++ [p] := by
  unfold moverPlaced
  rw [List.length_append, List.length_singleton]
  by_cases h : ps.length < 16
  · have h' : ps.length + 1 < 16 := by omega
    rw [if_pos h, if_pos h']
  · have h' : ¬ ps.length + 1 < 16 := by omega
    rw [if_neg h, if_neg h', List.drop_append_of_le_length (by omega)]

theorem moverPlaced_snoc_15 (ps : List Piece) (p : Piece) (h15 : ps.length = 15) :
    moverPlaced (ps ++ [p]) = [] := by
  unfold moverPlaced
  rw [List.length_append, List.length_singleton, h15]
  simp [h15]

theorem placementSquare_inj (j k : Nat) (hj : j < 32) (hk : k < 32)
    (h : placementSquare j = placementSquare k) : j = k := by
  unfold placementSquare at h
  split at h <;> split at h <;> omega

/-- what the board holds on the squares filled so far: square number `j` of the placement order
holds a piece of type `ps[j]` -/
def Contents (ps : List Piece) (b : Board) : Prop :=
  ∀ j t, j < ps.length → bit (b.typeBits t) (placementSquare j) = decide (ps[j]? = some t)

theorem Contents.place {ps : List Piece} {s : GameState} (hc : Contents ps s.board)
    (h : BoardShape ps.length s.board) (hk : ps.length < 32) (p : Piece) :
    Contents (ps ++ [p]) (s.place p).board := by
  intro j t hj
  rw [List.length_append, List.length_singleton] at hj
  rw [place_typeBits, h.placementBit_eq hk]
  by_cases hjk : j = ps.length
  · subst hjk
    have h1 := h.type_next hk t
    have hq := placementSquare_lt _ hk
    by_cases htp : t = p
    · subst htp; simp [bit_or, sqBit_bit, hq]
    · have : ¬ p = t := fun e => htp e.symm
      simp [htp, h1, this]
  · have hj' : j < ps.length := by omega
    have hne : placementSquare j ≠ placementSquare ps.length :=
      fun e => hjk (placementSquare_inj _ _ (by omega) hk e)
    have := hc j t hj'
    rw [List.getElem?_append_left hj']
    split
    · rw [bit_or, sqBit_bit, this]; simp [hne]
    · exact this

theorem setupRun_shape {ps : List Piece} {s : GameState} (hr : SetupRun ps s) :
    ps.length < 32 → SetupShape ps.length s ∧ Contents ps s.board ∧
      ∀ t, moverCount s t = (moverPlaced ps).count t := by
  induction hr with
  | init =>
    intro _
    refine ⟨initial_shape, ?_, ?_⟩
    · intro j t hj; cases hj
    · intro t; cases t <;> exact popcount_zero
  | @step ps s p hr hv ih =>
    intro hlen
    rw [List.length_append, List.length_singleton] at hlen ⊢
    obtain ⟨hs, hc, hg⟩ := ih (by omega)
    rw [validActions_place s hs.phase, mem_validPlacement] at hv
    refine ⟨hs.place hlen p hv, hc.place hs.board hs.lt p, ?_⟩
    intro t
    show moverCount (s.place p) t = _
    by_cases h15 : ps.length = 15
    · rw [moverPlaced_snoc_15 ps p h15]
      have hb := hs.board; have ht := hs.turn
      rw [h15] at hb ht
      rw [moverCount_place_15 hb (by simpa using ht)]; rfl
    · rw [moverPlaced_snoc ps p h15, moverCount_place hs.board hlen h15 hs.turn, hg t,
        List.count_append, List.count_singleton]
      by_cases htp : t = p
      · subst htp; simp
      · have : ¬ p = t := fun e => htp e.symm
        simp [htp, this]


/-- the last placement: the play phase begins -/
theorem setupRun_final {ps : List Piece} {s : GameState} (hr : SetupRun ps s) (h32 : ps.length = 32) :
    BoardShape 32 s.board ∧ Contents ps s.board ∧ s.p1Turn = true ∧ s.moveNo = 2 ∧
      s.phase = .play (PlayPhase.initial s.hash [s.hash]) := by
  cases hr with
  | init => cases h32
  | @step ps s p hr hv =>
    rw [List.length_append, List.length_singleton] at h32
    have h31 : ps.length = 31 := by omega
    obtain ⟨hs, hc, _⟩ := setupRun_shape hr (by omega)
    have hb := place_board_shape hs.board hs.lt hs.turn p
    have ht := place_p1Turn_eq hs.board hs.lt hs.turn p
    have hm := place_moveNo_eq hs.board hs.lt p
    have hp := place_phase_eq hs.board hs.lt p
    rw [h31] at hb ht hm hp
    show BoardShape 32 (s.place p).board ∧ Contents (ps ++ [p]) (s.place p).board ∧
      (s.place p).p1Turn = true ∧ (s.place p).moveNo = 2 ∧
      (s.place p).phase = .play (PlayPhase.initial (s.place p).hash [(s.place p).hash])
    exact ⟨hb, hc.place hs.board hs.lt p, by simpa using ht, by simpa using hm, by simpa using hp⟩

theorem setup_and_sqBit_ne_zero (x : BB) (q : Nat) (hq : q < 64) :
    ((x &&& sqBit q) != 0) = bit x q := by
  cases hb : bit x q
  · have : x &&& sqBit q = 0 := by
      apply bb_ext; intro i hi
      rw [bit_and, sqBit_bit, bit_zero]
      by_cases hiq : i = q
      · subst hiq; simp [hb]
      · simp [hiq]
    simp [this]
  · have : x &&& sqBit q ≠ 0 := (bb_ne_zero_iff _).mpr ⟨q, hq, by rw [bit_and, hb, sqBit_self q hq]; rfl⟩
    simpa using this

/-- if exactly the type board of `p` has bit `q`, the code's `piece_type_at_bit` answers `p` -/
theorem pieceTypeAtBit_of_unique (b : Board) (q : Nat) (hq : q < 64) (p : Piece)
    (h : ∀ t, bit (b.typeBits t) q = decide (t = p)) : pieceTypeAtBit (sqBit q) b = p := by
  unfold pieceTypeAtBit pieceTypeAtBitChain
  simp only [List.find?_cons, setup_and_sqBit_ne_zero _ q hq, h]
  cases p <;> simp [pieceTypeAtBitDefault]

theorem full_of_le (l : List Piece) (p : Piece) (hl : l.length = 15)
    (hle : ∀ t, l.count t ≤ complement t) (hp : l.count p < complement p) :
    ∀ t, (l ++ [p]).count t = complement t := by
  have hs := count_pieces_sum l
  have h1 := hle .elephant; have h2 := hle .camel; have h3 := hle .horse
  have h4 := hle .dog; have h5 := hle .cat; have h6 := hle .rabbit
  simp only [complement] at h1 h2 h3 h4 h5 h6
  intro t
  rw [List.count_append, List.count_singleton]
  cases p <;> cases t <;> simp only [complement] at hp ⊢ <;> simp <;> omega

/-- once Gold has placed sixteen pieces they are exactly one full army -/
theorem setupRun_gold_army {ps : List Piece} {s : GameState} (hr : SetupRun ps s) :
    16 ≤ ps.length → ps.length ≤ 32 → ∀ t, (ps.take 16).count t = complement t := by
  induction hr with
  | init => intro h; cases h
  | @step ps s p hr hv ih =>
    rw [List.length_append, List.length_singleton]
    intro h16 h32
    obtain ⟨hs, _, hg⟩ := setupRun_shape hr (by omega)
    rw [validActions_place s hs.phase, mem_validPlacement] at hv
    by_cases h15 : ps.length = 15
    · have hmp : moverPlaced ps = ps := by unfold moverPlaced; rw [if_pos (by omega)]
      rw [hmp] at hg
      rw [List.take_of_length_le (by rw [List.length_append, List.length_singleton]; omega)]
      apply full_of_le ps p h15
      · intro t; rw [← hg]; exact hs.count_le t
      · rw [← hg]; exact hv
    · rw [List.take_append_of_le_length (by omega)]
      exact ih (by omega) (by omega)

/-- after the thirty-second placement Silver's sixteen pieces are exactly one full army -/
theorem setupRun_silver_army {ps : List Piece} {s : GameState} (hr : SetupRun ps s)
    (h32 : ps.length = 32) : ∀ t, (ps.drop 16).count t = complement t := by
  cases hr with
  | init => cases h32
  | @step ps s p hr hv =>
    rw [List.length_append, List.length_singleton] at h32
    obtain ⟨hs, _, hg⟩ := setupRun_shape hr (by omega)
    rw [validActions_place s hs.phase, mem_validPlacement] at hv
    have hmp : moverPlaced ps = ps.drop 16 := by unfold moverPlaced; rw [if_neg (by omega)]
    rw [hmp] at hg
    rw [List.drop_append_of_le_length (by omega)]
    apply full_of_le (ps.drop 16) p (by rw [List.length_drop]; omega)
    · intro t; rw [← hg]; exact hs.count_le t
    · rw [← hg]; exact hv

/-- executable check that a list of placements is offered step by step -/
def runFrom (s : GameState) : List Piece → Option GameState
  | [] => some s
  | p :: ps =>
    if Action.place p ∈ s.validActions then runFrom (s.takeAction (.place p)) ps else none

theorem setupRun_of_runFrom (ps : List Piece) : ∀ (pre : List Piece) (s s' : GameState),
    SetupRun pre s → runFrom s ps = some s' → SetupRun (pre ++ ps) s' := by
  induction ps with
  | nil =>
    intro pre s s' hr h
    simp only [runFrom, Option.some.injEq] at h
    subst h; simpa using hr
  | cons p ps ih =>
    intro pre s s' hr h
    unfold runFrom at h
    split at h
    · next hv =>
      have := ih (pre ++ [p]) _ s' (SetupRun.step hr hv) h
      simpa using this
    · cases h

def exampleOrder : List Piece :=
  [.rabbit, .rabbit, .rabbit, .rabbit, .rabbit, .rabbit, .rabbit, .rabbit,
   .cat, .dog, .horse, .camel, .elephant, .horse, .dog, .cat,
   .elephant, .camel, .horse, .horse, .dog, .dog, .cat, .cat,
   .rabbit, .rabbit, .rabbit, .rabbit, .rabbit, .rabbit, .rabbit, .rabbit]


/-- not a placement -/
def Action.notPlace : Action → Prop
  | .place _ => False
  | _ => True

theorem ownMoves_notPlace (s : GameState) (b : Board) : ∀ a ∈ s.ownMoves b, a.notPlace := by
  intro a ha
  unfold GameState.ownMoves at ha
  simp only [List.mem_flatMap, List.mem_map] at ha
  obtain ⟨d, _, sq, _, rfl⟩ := ha
  trivial

theorem pushActions_notPlace (s : GameState) (pp : PlayPhase) (b : Board) :
    ∀ a ∈ s.pushActions pp b, a.notPlace := by
  intro a ha
  unfold GameState.pushActions at ha
  split at ha
  · simp only at ha
    split at ha
    · simp only [List.mem_flatMap, List.mem_map] at ha
      obtain ⟨d, _, sq, _, rfl⟩ := ha
      trivial
    · cases ha
  · cases ha

theorem mustCompletePushActions_notPlace (s : GameState) (pp : PlayPhase) (b : Board) :
    ∀ a ∈ s.mustCompletePushActions pp b, a.notPlace := by
  intro a ha
  unfold GameState.mustCompletePushActions at ha
  split at ha
  · simp only [List.mem_flatMap] at ha
    obtain ⟨d, _, hd⟩ := ha
    split at hd
    · simp only [List.mem_singleton] at hd; subst hd; trivial
    · cases hd
  · cases ha

theorem pullExtend_notPlace (s : GameState) (pp : PlayPhase) (b : Board) (acc : List Action)
    (hacc : ∀ a ∈ acc, a.notPlace) : ∀ a ∈ s.pullExtend pp b acc, a.notPlace := by
  unfold GameState.pullExtend
  split
  · next sq p =>
    simp only
    generalize Dir_ALL = ds
    induction ds generalizing acc with
    | nil => simpa using hacc
    | cons d ds ih =>
      rw [List.foldl_cons]
      apply ih
      intro a ha
      split at ha
      · split at ha
        · exact hacc a ha
        · rw [List.mem_append, List.mem_singleton] at ha
          rcases ha with ha | rfl
          · exact hacc a ha
          · trivial
      · exact hacc a ha
  · exact hacc

/-- in the play phase no placement is offered (with or without the repetition filter) -/
theorem validActions_play_notPlace (s : GameState) (pp : PlayPhase) (h : s.phase = .play pp)
    (chk : Bool) : ∀ a ∈ s.validActions_ chk, a.notPlace := by
  have hva : ∀ a ∈ (if pp.pps.isMustCompletePush then s.mustCompletePushActions pp s.board
      else
        let va := s.pushActions pp s.board
        let va := s.pullExtend pp s.board va
        let va := va ++ s.ownMoves s.board
        if s.canPass chk then va ++ [Action.pass] else va), a.notPlace := by
    intro a ha
    split at ha
    · exact mustCompletePushActions_notPlace s pp _ a ha
    · simp only at ha
      have h1 : ∀ a ∈ s.pullExtend pp s.board (s.pushActions pp s.board) ++ s.ownMoves s.board,
          a.notPlace := by
        intro a ha
        rw [List.mem_append] at ha
        rcases ha with ha | ha
        · exact pullExtend_notPlace s pp _ _ (pushActions_notPlace s pp _) a ha
        · exact ownMoves_notPlace s _ a ha
      split at ha
      · rw [List.mem_append, List.mem_singleton] at ha
        rcases ha with ha | rfl
        · exact h1 a ha
        · trivial
      · exact h1 a ha
  intro a ha
  unfold GameState.validActions_ at ha
  rw [h] at ha
  simp only at ha
  split at ha
  · unfold GameState.removePassingLikeActions at ha
    split at ha
    · exact hva a (List.mem_filter.mp ha).1
    · exact hva a ha
  · exact hva a ha

/-- no more than thirty-two placements can ever be taken -/
theorem setupRun_length_le {ps : List Piece} {s : GameState} (hr : SetupRun ps s) :
    ps.length ≤ 32 := by
  induction hr with
  | init => exact Nat.zero_le _
  | @step ps s p hr hv ih =>
    rw [List.length_append, List.length_singleton]
    by_cases h32 : ps.length = 32
    · obtain ⟨_, _, _, _, hp⟩ := setupRun_final hr h32
      exact (validActions_play_notPlace s _ hp true _ hv).elim
    · omega

theorem exampleOrder_run : ∃ s, SetupRun exampleOrder s ∧ exampleOrder.length = 32 := by
  have h : (runFrom GameState.initial exampleOrder).isSome = true := by decide +kernel
  obtain ⟨s, hs⟩ := Option.isSome_iff_exists.mp h
  exact ⟨s, by simpa using setupRun_of_runFrom exampleOrder [] _ s SetupRun.init hs, rfl⟩

end Arimaa
