import Arimaa.Gen.RsList

/-!
# `linked_list.rs` at value level: the persistent list refines a Lean list

`Gen/RsList.lean` is regenerated from `src/linked_list.rs` on every run (tools/rslist.py).  Here: the abstraction
`toList` (newest element first, the order `iter()` yields), the invariant `WF` (the length cached in every node
is the number of nodes from there on), and for every function of the API its specification on lists.  This is
what justifies rendering a `List<T>` as a Lean list in the translation of `engine.rs` (`append` = cons, `len` =
length, `iter` = the list itself), with ONE precise difference: `append` computes `len() + 1` in checked `usize`
arithmetic, so it panics on a list of `usize::MAX` elements (a history of 2^64 - 1 turns; `C19_code_overflow_point`
shows the move counter gives out first).

Every proof is `cases` on the link followed by `simp_all` with all definitions: they are written to survive the
behaviour-preserving rewrites of the file (`match` for the `Option` combinators, `head.is_none()` for `len() == 0`).
Sharing, reference counts and `Drop` are not visible at value level: `Impl/ListStack.lean`, `Props/C18b`, `C20`.
-/

namespace Arimaa.RsAgree.ListAgree
open Arimaa Arimaa.Rt Arimaa.Gen.RsList

variable {T : Type}

/-- the elements, newest first -/
def toList : Link T → List T
  | .none => []
  | .some e nx _ => e :: toList nx

/-- every cached length is right -/
def WF : Link T → Prop
  | .none => True
  | .some _ nx len => len = (toList nx).length + 1 ∧ WF nx

macro "list_tac" : tactic => `(tactic| (
  first
  | (simp_all [List_new, List_len, List_append, List_head, List_tail, List_is_empty, List_clone, List_iter, Iter_next,
      toList, WF, Res.bind, Rt.addUsize]; done)
  | (simp_all [List_new, List_len, List_append, List_head, List_tail, List_is_empty, List_clone, List_iter, Iter_next,
      toList, WF, Res.bind, Rt.addUsize] <;> omega)))

theorem new_spec : toList (List_new : Link T) = [] ∧ WF (List_new : Link T) := by
  constructor <;> list_tac

theorem len_spec (l : Link T) (h : WF l) : List_len l = (toList l).length := by
  cases l <;> list_tac

theorem head_spec (l : Link T) : List_head l = (toList l).head? := by
  cases l <;> list_tac

theorem tail_spec (l : Link T) (h : WF l) : toList (List_tail l) = (toList l).tail ∧ WF (List_tail l) := by
  cases l <;> list_tac

theorem is_empty_spec (l : Link T) (h : WF l) : List_is_empty l = (toList l).isEmpty := by
  cases l <;> list_tac

theorem clone_spec (l : Link T) : toList (List_clone l) = toList l ∧ (WF l → WF (List_clone l)) := by
  cases l <;> list_tac

/-- `append` below the `usize` bound: the new list is the old one with the element in front, still well-formed -/
theorem append_spec (l : Link T) (x : T) (h : WF l) (hb : (toList l).length + 1 ≤ usizeMax) :
    ∃ l', List_append l x = .ok l' ∧ toList l' = x :: toList l ∧ WF l' := by
  have hl := len_spec l h
  refine ⟨Link.some x l ((toList l).length + 1), ?_, ?_, ?_⟩
  · have : ¬ (toList l).length + 1 > usizeMax := by omega
    first
    | (simp [List_append, Rt.addUsize, hl, this, Res.bind]; done)
    | (cases l <;> simp_all [List_append, List_len, Rt.addUsize, Res.bind, toList, WF] <;>
        (try rw [if_neg (by omega)]) <;> first | rfl | omega | (simp_all; done))
  · simp [toList]
  · simp [WF, h]

/-- … and it panics exactly at the bound (never reached: 2^64 - 1 turns) -/
theorem append_overflow (l : Link T) (x : T) (h : WF l) (hb : usizeMax < (toList l).length + 1) :
    List_append l x = .panic := by
  have hl := len_spec l h
  have : (toList l).length + 1 > usizeMax := hb
  first
  | (simp [List_append, Rt.addUsize, hl, this, Res.bind]; done)
  | (cases l <;> simp_all [List_append, List_len, Rt.addUsize, Res.bind, toList, WF] <;>
      (try rw [if_pos (by omega)]) <;> first | rfl | omega | (simp_all [usizeMax]; done) | (simp [usizeMax] at *; done))

/-- one step of the iterator: the newest element and an iterator over the rest -/
theorem next_spec (l : Link T) :
    (Iter_next l).1 = (toList l).head? ∧ toList (Iter_next l).2 = (toList l).tail ∧ (WF l → WF (Iter_next l).2) := by
  cases l <;> list_tac

/-- running the iterator to the end (`fuel` ≥ number of elements) -/
def drain : Nat → Link T → List T
  | 0, _ => []
  | fuel + 1, it => match Iter_next it with
    | (some x, it') => x :: drain fuel it'
    | (none, _) => []

theorem drain_spec (fuel : Nat) (it : Link T) (hf : (toList it).length ≤ fuel) : drain fuel it = toList it := by
  induction fuel generalizing it with
  | zero =>
    have : toList it = [] := by
      cases h : toList it with
      | nil => rfl
      | cons a t => simp [h] at hf
    simp [drain, this]
  | succ n ih =>
    have hn := next_spec it
    cases hit : toList it with
    | nil =>
      have h1 : (Iter_next it).1 = none := by simpa [hit] using hn.1
      unfold drain
      rcases hnx : Iter_next it with ⟨a, b⟩
      simp [hnx] at h1
      simp [h1]
    | cons a t =>
      have h1 : (Iter_next it).1 = some a := by simpa [hit] using hn.1
      have h2 : toList (Iter_next it).2 = t := by simpa [hit] using hn.2.1
      unfold drain
      rcases hnx : Iter_next it with ⟨a', b⟩
      simp [hnx] at h1 h2
      subst h1
      have := ih b (by simp [h2, hit] at hf ⊢; omega)
      simp [this, h2]

/-- `iter()` yields exactly the elements, newest first -/
theorem iter_spec (l : Link T) (fuel : Nat) (hf : (toList l).length ≤ fuel) :
    drain fuel (List_iter l) = toList l := by
  have hi : toList (List_iter l) = toList l := by cases l <;> list_tac
  rw [drain_spec fuel (List_iter l) (by rw [hi]; exact hf), hi]

/-! ### every list the API can build is well-formed -/

/-- lists reachable through the public API (from `new`, by `append`, `tail`, `clone`, and what `iter()` walks) -/
inductive Built : Link T → Prop
  | new : Built List_new
  | append {l l' : Link T} {x : T} : Built l → List_append l x = .ok l' → Built l'
  | tail {l : Link T} : Built l → Built (List_tail l)
  | clone {l : Link T} : Built l → Built (List_clone l)

theorem built_wf {l : Link T} (h : Built l) : WF l := by
  induction h with
  | new => exact new_spec.2
  | @append l l' x _ hap ih =>
    by_cases hb : (toList l).length + 1 ≤ usizeMax
    · obtain ⟨l'', h1, _, h3⟩ := append_spec l x ih hb
      rw [h1] at hap; cases hap; exact h3
    · rw [append_overflow l x ih (by omega)] at hap; cases hap
  | tail _ ih => exact (tail_spec _ ih).2
  | clone _ ih => exact (clone_spec _).2 ih

/-- so, for every list the crate can hold: `len()` is the number of elements `iter()` yields -/
theorem built_len {l : Link T} (h : Built l) : List_len l = (toList l).length := len_spec l (built_wf h)

/-- **The list API refines Lean lists**, for every list the crate can hold. -/
theorem list_api_refines {l : Link T} (h : Built l) :
    List_len l = (toList l).length ∧ List_head l = (toList l).head? ∧ toList (List_tail l) = (toList l).tail ∧
    List_is_empty l = (toList l).isEmpty ∧ toList (List_clone l) = toList l ∧
    (∀ fuel, (toList l).length ≤ fuel → drain fuel (List_iter l) = toList l) ∧
    (∀ x, (toList l).length + 1 ≤ usizeMax → ∃ l', List_append l x = .ok l' ∧ toList l' = x :: toList l ∧ Built l') := by
  have hw := built_wf h
  refine ⟨len_spec l hw, head_spec l, (tail_spec l hw).1, is_empty_spec l hw, (clone_spec l).1,
    fun fuel hf => iter_spec l fuel hf, fun x hb => ?_⟩
  obtain ⟨l', h1, h2, _⟩ := append_spec l x hw hb
  exact ⟨l', h1, h2, Built.append h h1⟩

example : ∃ l : Link Nat, Built l ∧ toList l = [2, 1] := by
  obtain ⟨l1, h1, t1, w1⟩ := append_spec (List_new : Link Nat) 1 new_spec.2 (by simp [new_spec.1, usizeMax])
  obtain ⟨l2, h2, t2, _⟩ := append_spec l1 2 w1 (by simp [t1, new_spec.1, usizeMax])
  exact ⟨l2, Built.append (Built.append Built.new h1) h2, by simp [t2, t1, new_spec.1]⟩

end Arimaa.RsAgree.ListAgree
