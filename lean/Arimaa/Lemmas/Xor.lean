import Arimaa.Lemmas.Bits

/-!
The XOR-fold algebra behind C08 and C17.

`xorOver x f` (XOR of `f sq` over the set bits of `x`) is rewritten as a fold over all 64 squares;
from this `xorOver (x ^^^ y) f = xorOver x f ^^^ xorOver y f` for all words, and the two from-scratch
functions of `zobrist.rs` split into a "board part" and a header.  Nothing here depends on the
table values, and no board is assumed well formed.
-/
namespace Arimaa
open Gen

/-! ### generic XOR folds -/

/-- `xsum l g` : XOR of `g a` over the list `l` -/
def xsum {α : Type} (l : List α) (g : α → BB) : BB := l.foldl (fun acc a => acc ^^^ g a) 0

theorem bb_zero_xor (a : BB) : 0 ^^^ a = a := by simp
theorem bb_xor_zero (a : BB) : a ^^^ 0 = a := by simp
theorem bb_xor_self (a : BB) : a ^^^ a = 0 := by simp

theorem xor_cancel_left (a b : BB) : a ^^^ (a ^^^ b) = b := by
  rw [← BitVec.xor_assoc, BitVec.xor_self]; simp

theorem xor_cancel_right (a b : BB) : a ^^^ b ^^^ b = a := by
  rw [BitVec.xor_assoc, BitVec.xor_self]; simp

theorem xor_eq_zero_iff (a b : BB) : a ^^^ b = 0 ↔ a = b := by
  constructor
  · intro h
    have : a ^^^ b ^^^ b = 0 ^^^ b := by rw [h]
    rwa [xor_cancel_right, bb_zero_xor] at this
  · rintro rfl; exact BitVec.xor_self

theorem xor_left_inj (c a b : BB) : c ^^^ a = c ^^^ b ↔ a = b := by
  constructor
  · intro h
    have : c ^^^ (c ^^^ a) = c ^^^ (c ^^^ b) := by rw [h]
    rwa [xor_cancel_left, xor_cancel_left] at this
  · rintro rfl; rfl

theorem xor_right_inj (c a b : BB) : a ^^^ c = b ^^^ c ↔ a = b := by
  rw [BitVec.xor_comm a c, BitVec.xor_comm b c, xor_left_inj]

theorem foldl_xor_init {α : Type} (l : List α) (g : α → BB) (a : BB) :
    l.foldl (fun acc x => acc ^^^ g x) a = a ^^^ xsum l g := by
  unfold xsum
  induction l generalizing a with
  | nil => simp
  | cons x xs ih =>
    simp only [List.foldl_cons]
    rw [ih (a ^^^ g x), ih (0 ^^^ g x), bb_zero_xor, BitVec.xor_assoc]

@[simp] theorem xsum_nil {α : Type} (g : α → BB) : xsum [] g = 0 := rfl

theorem xsum_cons {α : Type} (x : α) (xs : List α) (g : α → BB) :
    xsum (x :: xs) g = g x ^^^ xsum xs g := by
  show (x :: xs).foldl _ 0 = _
  rw [List.foldl_cons, foldl_xor_init, bb_zero_xor]

theorem xsum_append {α : Type} (l₁ l₂ : List α) (g : α → BB) :
    xsum (l₁ ++ l₂) g = xsum l₁ g ^^^ xsum l₂ g := by
  induction l₁ with
  | nil => simp
  | cons x xs ih => simp only [List.cons_append, xsum_cons, ih, BitVec.xor_assoc]

theorem xsum_congr {α : Type} (l : List α) (g h : α → BB) (hg : ∀ a ∈ l, g a = h a) :
    xsum l g = xsum l h := by
  induction l with
  | nil => rfl
  | cons x xs ih =>
    rw [xsum_cons, xsum_cons, hg x (by simp), ih (fun a ha => hg a (by simp [ha]))]

theorem xsum_xor {α : Type} (l : List α) (g h : α → BB) :
    xsum l (fun a => g a ^^^ h a) = xsum l g ^^^ xsum l h := by
  induction l with
  | nil => simp
  | cons x xs ih =>
    simp only [xsum_cons, ih]
    ac_rfl

theorem xsum_zero {α : Type} (l : List α) (g : α → BB) (h0 : ∀ a ∈ l, g a = 0) : xsum l g = 0 := by
  induction l with
  | nil => rfl
  | cons x xs ih =>
    rw [xsum_cons, h0 x (by simp), ih (fun a ha => h0 a (by simp [ha]))]; simp

/-- a fold whose terms vanish except at one member of a duplicate-free list -/
theorem xsum_single {α : Type} (l : List α) (g : α → BB) (q : α) (hnd : l.Nodup) (hq : q ∈ l)
    (h0 : ∀ a ∈ l, a ≠ q → g a = 0) : xsum l g = g q := by
  induction l with
  | nil => cases hq
  | cons x xs ih =>
    rw [xsum_cons]
    rw [List.nodup_cons] at hnd
    rcases List.mem_cons.mp hq with rfl | hq'
    · rw [xsum_zero xs g (fun a ha => h0 a (by simp [ha]) (by rintro rfl; exact hnd.1 ha))]
      simp
    · have hx : x ≠ q := by rintro rfl; exact hnd.1 hq'
      rw [h0 x (by simp) hx, ih hnd.2 hq' (fun a ha => h0 a (by simp [ha]))]
      simp

/-- a fold whose terms vanish except at two distinct members of a duplicate-free list -/
theorem xsum_pair {α : Type} [DecidableEq α] (l : List α) (g : α → BB) (q₁ q₂ : α)
    (hnd : l.Nodup) (h1 : q₁ ∈ l) (h2 : q₂ ∈ l) (hne : q₁ ≠ q₂)
    (h0 : ∀ a ∈ l, a ≠ q₁ → a ≠ q₂ → g a = 0) : xsum l g = g q₁ ^^^ g q₂ := by
  have hsplit : xsum l g =
      xsum l (fun a => (if a = q₁ then g a else 0) ^^^ (if a = q₁ then 0 else g a)) := by
    apply xsum_congr
    intro a _
    by_cases h : a = q₁ <;> simp [h]
  rw [hsplit, xsum_xor, xsum_single l _ q₁ hnd h1 (fun a _ hne' => by simp [hne']),
    xsum_single l _ q₂ hnd h2 (fun a ha hne' => by
      by_cases h : a = q₁
      · simp [h]
      · simp only [h, if_false]; exact h0 a ha h hne')]
  simp [hne.symm]

/-- exchanging two XOR folds -/
theorem xsum_comm {α β : Type} (l₁ : List α) (l₂ : List β) (g : α → β → BB) :
    xsum l₁ (fun a => xsum l₂ (fun b => g a b)) = xsum l₂ (fun b => xsum l₁ (fun a => g a b)) := by
  induction l₁ with
  | nil => simp only [xsum_nil]; rw [xsum_zero]; intros; rfl
  | cons x xs ih =>
    simp only [xsum_cons, ih]
    rw [xsum_xor]

theorem xsum_filter {α : Type} (l : List α) (p : α → Bool) (g : α → BB) :
    xsum (l.filter p) g = xsum l (fun a => if p a then g a else 0) := by
  induction l with
  | nil => rfl
  | cons x xs ih =>
    rw [List.filter_cons, xsum_cons]
    cases hp : p x
    · simp [ih]
    · simp [ih, xsum_cons]

/-! ### `xorOver` -/

/-- the summand of square `i` in `xorOver x f` -/
def xorTerm (x : BB) (f : Nat → BB) (i : Nat) : BB := if bit x i then f i else 0

/-- `xorOver` as a fold over all 64 squares -/
theorem xorOver_eq_fold (x : BB) (f : Nat → BB) :
    xorOver x f = (List.range 64).foldl (fun acc i => acc ^^^ (if bit x i then f i else 0)) 0 := by
  show xsum (squaresOf x) f = xsum (List.range 64) (fun i => if bit x i then f i else 0)
  unfold squaresOf
  rw [xsum_filter]
  rfl

theorem xorOver_eq_xsum (x : BB) (f : Nat → BB) : xorOver x f = xsum (List.range 64) (xorTerm x f) :=
  xorOver_eq_fold x f

theorem xorTerm_xor (x y : BB) (f : Nat → BB) (i : Nat) :
    xorTerm (x ^^^ y) f i = xorTerm x f i ^^^ xorTerm y f i := by
  unfold xorTerm
  rw [bit_xor]
  cases bit x i <;> cases bit y i <;> simp

/-- the key lemma (`xorFold_symmDiff` of the design): for ALL words `x y` -/
theorem xorOver_xor (x y : BB) (f : Nat → BB) :
    xorOver (x ^^^ y) f = xorOver x f ^^^ xorOver y f := by
  rw [xorOver_eq_xsum, xorOver_eq_xsum, xorOver_eq_xsum, ← xsum_xor]
  apply xsum_congr
  intro i _
  exact xorTerm_xor x y f i

theorem xorOver_zero (f : Nat → BB) : xorOver 0 f = 0 := by
  unfold xorOver; rw [squaresOf_zero]; rfl

theorem xorOver_sqBit (q : Nat) (hq : q < 64) (f : Nat → BB) : xorOver (sqBit q) f = f q := by
  rw [xorOver_eq_xsum, xsum_single _ _ q List.nodup_range (List.mem_range.mpr hq)]
  · unfold xorTerm; rw [sqBit_bit]; simp [hq]
  · intro i hi hne
    unfold xorTerm; rw [sqBit_bit]; simp [hne]

/-! ### the two from-scratch functions -/

/-- contribution of the pieces: XOR over the twelve planes of the plane's table values -/
def boardPart (b : Board) : BB :=
  planes.foldl (fun acc op =>
    acc ^^^ xorOver (b.bitsForPiece op.2 op.1) (fun sq => pieceValue sq op.2 op.1)) 0

theorem boardPart_eq_xsum (b : Board) :
    boardPart b =
      xsum planes (fun op => xorOver (b.bitsForPiece op.2 op.1) (fun sq => pieceValue sq op.2 op.1)) :=
  rfl

/-- `piece_board_value(prev, new)` is the XOR of the two board parts, for all boards -/
theorem pieceBoardValue_eq (prev new : Board) :
    pieceBoardValue prev new = boardPart prev ^^^ boardPart new := by
  rw [boardPart_eq_xsum, boardPart_eq_xsum, ← xsum_xor]
  show xsum planes _ = _
  apply xsum_congr
  intro op _
  exact xorOver_xor _ _ _

/-- `Zobrist::from_piece_board` = header ^^^ board part, for all boards -/
theorem zFromPieceBoard_eq (b : Board) (side : Bool) (step : Nat) :
    zFromPieceBoard b side step =
      Z_INITIAL ^^^ (if side then 0 else Z_PLAYER_TO_MOVE) ^^^ stepValueAt step ^^^ boardPart b := by
  unfold zFromPieceBoard
  simp only []
  rw [foldl_xor_init]
  cases side <;> simp [boardPart_eq_xsum]

end Arimaa
