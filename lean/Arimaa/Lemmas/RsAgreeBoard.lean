import Arimaa.Lemmas.RsAgreePure
import Arimaa.Lemmas.RsAgreeSquareCore
import Arimaa.Impl.Panics

/-!
Agreement of the regenerated model with the hand model, part 2: functions that can panic —
boards, the per-turn record, the Zobrist arithmetic.  Shape of every statement:

    Gen.Rs.f args = Res.guard (fPanics args) (f args)

(`Lemmas/RsAgreeSquareCore.lean`, imported here, proves the contracts of the calls into square.rs / bit_manip.rs /
`map_bit_board_to_squares` that the engine translation renders as `Rt.asBitBoard`, `sqOfBit`, `Rt.firstSetBit`,
`squaresOf`.)

i.e. the regenerated function panics exactly where the hand-written guard of `Impl/Panics.lean` says,
and otherwise returns what the hand-written total function returns.  Both the total model (used by
C01–C17) and the panic model (C19) are thereby tied to the current text of engine.rs / zobrist.rs.
-/
namespace Arimaa.RsAgree
open Arimaa Arimaa.Gen Arimaa.Gen.RsBase Arimaa.Rt

theorem usizeMax_eq : Rt.usizeMax = Arimaa.usizeMax := rfl

/-! ### the runtime operations -/

theorem asBitBoard_eq (sq : Nat) : Rt.asBitBoard sq = Res.guard (sqBitPanics sq) (sqBit sq) := by
  unfold Rt.asBitBoard Res.guard sqBitPanics
  by_cases h : sq ≥ 64 <;> simp [h]

theorem firstSetBit_eq (x : BB) : Rt.firstSetBit x = Res.guard (firstSetBitPanics x) (firstSetBit x) := by
  unfold Rt.firstSetBit Res.guard firstSetBitPanics
  by_cases h : x = 0 <;> simp [h]

theorem addUsize_eq (a b : Nat) : Rt.addUsize a b = Res.guard (usizeAddPanics a b) (a + b) := by
  unfold Rt.addUsize Res.guard usizeAddPanics
  rw [usizeMax_eq]
  by_cases h : a + b > usizeMax <;> simp [h]

theorem index_eq {α : Type} (l : List α) (i : Nat) (d : α) :
    Rt.index l i = Res.guard (decide (i ≥ l.length)) (l.getD i d) := by
  unfold Rt.index Res.guard
  by_cases h : i < l.length
  · have : ¬ i ≥ l.length := by omega
    simp [h, this, List.getD]
  · have h2 : i ≥ l.length := by omega
    simp [h2, List.getD]

theorem unwrap_eq {α : Type} (o : Option α) (d : α) : Rt.unwrap o = Res.guard o.isNone (o.getD d) := by
  cases o <;> rfl

/-! ### normal forms for guards -/

theorem ite_panic_guard {α : Type} (p q : Bool) (w : α) :
    (if p = true then Res.panic else Res.guard q w) = Res.guard (p || q) w := by
  cases p <;> rfl

theorem ite_panic_ok {α : Type} (p : Bool) (w : α) :
    (if p = true then Res.panic else Res.ok w) = Res.guard p w := by
  cases p <;> rfl

theorem bind_guard_guard {α β : Type} (p : Bool) (v : α) (q : α → Bool) (g : α → β) :
    Res.bind (Res.guard p v) (fun a => Res.guard (q a) (g a)) = Res.guard (p || q v) (g v) := by
  cases p <;> rfl

theorem bind_guard_ok {α β : Type} (p : Bool) (v : α) (g : α → β) :
    Res.bind (Res.guard p v) (fun a => Res.ok (g a)) = Res.guard p (g v) := by
  cases p <;> rfl

theorem guard_congr {α : Type} {p q : Bool} {v w : α} (hp : p = q) (hv : p = false → v = w) :
    Res.guard p v = Res.guard q w := by
  subst hp
  cases p
  · rw [hv rfl]
  · rfl

/-! ### boards -/

theorem placement_bit (b : Board) :
    PieceBoardState_placement_bit b = Res.guard b.placementBitPanics b.placementBit := by
  simp only [PieceBoardState_placement_bit, firstSetBit_eq, Board.placementBitPanics, Board.placementBit,
    Bool.cond_eq_ite]

theorem piece_type_at_square (b : Board) (sq : Nat) :
    PieceBoardState_piece_type_at_square b sq =
      Res.guard (b.pieceTypeAtSquarePanics sq) (b.pieceTypeAtSquare sq) := by
  simp only [PieceBoardState_piece_type_at_square, asBitBoard_eq, bind_guard_ok, Board.pieceTypeAtSquarePanics,
    Board.pieceTypeAtSquare, piece_type_at_bit_eq, Bool.cond_eq_ite]

theorem board_move_piece (b : Board) (sq : Nat) (d : Dir) :
    PieceBoard_move_piece b sq d = Res.guard (b.movePiecePanics sq) (b.movePiece sq d) := by
  simp only [PieceBoard_move_piece, asBitBoard_eq, bind_guard_ok, Board.movePiecePanics, Board.movePiece,
    shift_piece_in_direction_eq]

theorem board_take_action_move (b : Board) (sq : Nat) (d : Dir) :
    PieceBoard_take_action b (.move sq d) = Res.guard (sqBitPanics sq) (b.takeMove sq d) := by
  simp only [PieceBoard_take_action, board_move_piece, Board.movePiecePanics, remove_trapped_pieces,
    Res.bind_guard, Board.takeMove]
  cases sqBitPanics sq <;> rfl

theorem board_take_action (b : Board) (a : Action) :
    PieceBoard_take_action b a = Res.guard (b.takeActionPanics a)
      (match a with
       | .move sq d => b.takeMove sq d
       | _ => (b, false)) := by
  cases a with
  | move sq d => simpa [Board.takeActionPanics, Board.movePiecePanics] using board_take_action_move b sq d
  | place p => rfl
  | pass => rfl

/-! ### the play-phase record -/

theorem unwrap_play_phase (s : GameState) (pp : PlayPhase) (h : s.phase = .play pp) :
    GameState_unwrap_play_phase s = .ok pp := by
  simp [GameState_unwrap_play_phase, as_play_phase, GameState.playPhase?, h, Rt.unwrap]

theorem unwrap_play_phase_place (s : GameState) (h : s.phase = .place) :
    GameState_unwrap_play_phase s = .panic := by
  simp [GameState_unwrap_play_phase, as_play_phase, GameState.playPhase?, h, Rt.unwrap]

theorem current_step (s : GameState) : GameState_current_step s = Res.guard s.stepPanics s.step := by
  unfold GameState_current_step GameState.stepPanics GameState.unwrapPlayPhasePanics GameState.isPlay
    GameState.playPhase? GameState.step
  cases h : s.phase with
  | place => rw [unwrap_play_phase_place s h]; rfl
  | play pp => rw [unwrap_play_phase s pp h]; rfl

theorem next_piece_boards_this_move (s : GameState) (pp : PlayPhase) (h : s.phase = .play pp) :
    GameState_next_piece_boards_this_move s = Res.guard (usizeAddPanics pp.step 1) (pp.prev ++ [s.board]) := by
  simp only [GameState_next_piece_boards_this_move, unwrap_play_phase s pp h, Res.bind_ok, addUsize_eq,
    play_phase_step, bind_guard_ok, List.nil_append]

theorem move_can_be_counted_as_pull (s : GameState) (pp : PlayPhase) (h : s.phase = .play pp)
    (bit : BB) (d : Dir) (b : Board) :
    GameState_move_can_be_counted_as_pull s bit d b =
      Res.guard (GameState.moveCanBeCountedAsPullPanics pp) (GameState.moveCanBeCountedAsPull pp bit d b) := by
  simp only [GameState_move_can_be_counted_as_pull, unwrap_play_phase s pp h, Res.bind_ok,
    GameState.moveCanBeCountedAsPullPanics, GameState.moveCanBeCountedAsPull]
  cases pp.pps with
  | none => rfl
  | mustCompletePush sq p => rfl
  | possiblePull sq p =>
    simp only [asBitBoard_eq, bind_guard_ok, shift_in_direction_eq, piece_type_at_bit_eq]
    apply guard_congr rfl
    intro _
    cases (sqBit sq == shiftInDirection d bit) <;> cases (Piece.lt (pieceTypeAtBit bit b) p) <;> rfl

theorem next_push_pull_state (s : GameState) (pp : PlayPhase) (h : s.phase = .play pp) (sq : Nat) (d : Dir) :
    GameState_next_push_pull_state s sq d =
      Res.guard (s.nextPushPullStatePanics pp sq) (s.nextPushPullState pp sq d) := by
  simp only [GameState_next_push_pull_state, asBitBoard_eq, unwrap_play_phase s pp h, Res.bind_ok,
    game_state_piece_board, is_their_piece, move_can_be_counted_as_pull s pp h, piece_type_at_bit_eq,
    is_must_complete_push, GameState.nextPushPullStatePanics, GameState.nextPushPullState, Res.bind_guard]
  cases sqBitPanics sq
  · cases hi : s.isTheirPiece (sqBit sq) s.board
    · simp [Res.guard, hi]
    · cases hp : GameState.moveCanBeCountedAsPullPanics pp
      · cases hm : GameState.moveCanBeCountedAsPull pp (sqBit sq) d s.board <;>
          simp [Res.guard, hi, hp, hm, Res.bind]
      · simp [Res.guard, hi, hp, Res.bind]
  · rfl

/-! ### zobrist.rs -/

theorem tbl2_index (t : List (List BB)) (i j : Nat) :
    Res.bind (Rt.index t i) (fun row => Rt.index row j) = Res.guard (tbl2Panics t i j) (tbl2 t i j) := by
  rw [index_eq t i []]
  simp only [Res.bind_guard, tbl2Panics, tbl2]
  cases h : decide (i ≥ t.length)
  · simp only [Bool.false_eq_true, if_false, Bool.false_or]
    exact index_eq _ j 0
  · rfl

theorem piece_value_eq (sq : Nat) (p : Piece) (isP1 : Bool) :
    piece_value sq p isP1 = Res.guard (pieceValuePanics sq p isP1) (pieceValue sq p isP1) := by
  have hadd : ∀ i : Nat, i ≤ 5 → Rt.addUsize i (bif isP1 then 0 else 6) = .ok (i + if isP1 then 0 else 6) := by
    intro i hi
    rw [addUsize_eq]
    have : usizeAddPanics i (bif isP1 then 0 else 6) = false := by
      unfold usizeAddPanics usizeMax
      cases isP1 <;> simp <;> omega
    rw [this]
    cases isP1 <;> rfl
  cases p <;>
    simp only [piece_value, pieceValuePanics, pieceValue, pieceValueIdx, pieceValueP1Offset, pieceValueP2Offset] <;>
    (rw [hadd _ (by omega)]; exact tbl2_index _ _ _)

theorem push_piece_value_eq (sq : Nat) (p : Piece) :
    push_piece_value sq p = Res.guard (pushPieceValuePanics sq p) (pushPieceValue sq p) := by
  cases p <;> simp only [push_piece_value, pushPieceValuePanics, pushPieceValue, pushValueIdx, Res.bind_ok,
    Res.bind_panic, Res.guard_true] <;> exact tbl2_index _ _ _

theorem pull_piece_value_eq (sq : Nat) (p : Piece) :
    pull_piece_value sq p = Res.guard (pullPieceValuePanics sq p) (pullPieceValue sq p) := by
  cases p <;> simp only [pull_piece_value, pullPieceValuePanics, pullPieceValue, pullValueIdx, Res.bind_ok,
    Res.bind_panic, Res.guard_true] <;> exact tbl2_index _ _ _

theorem step_values_index (step : Nat) :
    Rt.index Z_STEP_VALUES step = Res.guard (stepValuePanics step) (stepValueAt step) :=
  index_eq _ _ _

theorem step_value_eq (a b : Nat) : step_value a b = Res.guard (stepValue2Panics a b) (stepValue a b) := by
  simp only [step_value, step_values_index, stepValue2Panics, stepValue, Res.bind_guard]
  cases stepValuePanics a <;> cases stepValuePanics b <;> rfl

theorem zobrist_pass (h : BB) (step : Nat) :
    Zobrist_pass h step = Res.guard (zPassPanics step) (zPass h step) := by
  simp only [Zobrist_pass, step_values_index, zPassPanics, zPass, Res.bind_guard]
  cases stepValuePanics 0 <;> cases stepValuePanics step <;> rfl

theorem zobrist_exclude_step (h : BB) (step : Nat) :
    Zobrist_exclude_step h step = Res.guard (zExcludeStepPanics step) (zExcludeStep h step) := by
  simp only [Zobrist_exclude_step, step_values_index, zExcludeStepPanics, zExcludeStep, Res.bind_guard]
  cases stepValuePanics 0 <;> cases stepValuePanics step <;> rfl

theorem zobrist_with_pps (h : BB) (p : PPS) :
    Zobrist_board_state_hash_with_push_pull_state h p = Res.guard (zWithPPSPanics p) (zWithPPS h p) := by
  cases p with
  | none => rfl
  | possiblePull sq x =>
    simp only [Zobrist_board_state_hash_with_push_pull_state, pull_piece_value_eq, bind_guard_ok, zWithPPSPanics,
      zWithPPS]
  | mustCompletePush sq x =>
    simp only [Zobrist_board_state_hash_with_push_pull_state, push_piece_value_eq, bind_guard_ok, zWithPPSPanics,
      zWithPPS]

theorem zobrist_place_piece (h : BB) (p : Piece) (sq : Nat) (isP1 sw1 sw2 : Bool) :
    Zobrist_place_piece h p sq isP1 sw1 sw2 =
      Res.guard (zPlacePiecePanics p sq isP1 sw2) (zPlacePiece h p sq isP1 sw1 sw2) := by
  simp only [Zobrist_place_piece, piece_value_eq, step_values_index, zPlacePiecePanics, zPlacePiece,
    Res.bind_guard]
  cases pieceValuePanics sq p isP1
  · cases sw2
    · cases sw1 <;> rfl
    · cases stepValuePanics 0 <;> cases sw1 <;> rfl
  · rfl

theorem current_step_play (s : GameState) (pp : PlayPhase) (hp : s.phase = .play pp) :
    GameState_current_step s = .ok pp.step := by
  rw [current_step]
  simp [GameState.stepPanics, GameState.unwrapPlayPhasePanics, GameState.isPlay, GameState.playPhase?, hp,
    GameState.step, Res.guard]

theorem current_step_place (s : GameState) (hp : s.phase = .place) : GameState_current_step s = .panic := by
  rw [current_step]
  simp [GameState.stepPanics, GameState.unwrapPlayPhasePanics, GameState.isPlay, GameState.playPhase?, hp, Res.guard]

end Arimaa.RsAgree
