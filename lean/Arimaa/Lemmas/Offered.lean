import Arimaa.Lemmas.Types
import Arimaa.Lemmas.ListLogic

/-!
The four generators of `valid_actions_` against the specification's enabledness predicates.
-/
namespace Arimaa
open Gen Spec GameState

def absPend : PPS → Spec.Pending
  | .none => .none
  | .possiblePull q x => .pull q (toSpec x)
  | .mustCompletePush q v => .push q (toSpec v)

/-- what the status promises about the board: the named square is on the board and empty -/
def PendOk (b : Board) : PPS → Prop
  | .none => True
  | .possiblePull q _ => q < 64 ∧ bit b.all q = false
  | .mustCompletePush q _ => q < 64 ∧ bit b.all q = false

theorem backward_iff (gold : Bool) (d : Dir) :
    (d = if gold then backwardDirP1 else backwardDirP2) ↔ dirSpec d = backward gold := by
  cases gold <;> cases d <;> simp [backwardDirP1, backwardDirP2, dirSpec, backward]

theorem mem_Dir_ALL (d : Dir) : d ∈ Dir_ALL := by cases d <;> simp [Dir_ALL]

theorem Dir_ALL_nodup : Dir_ALL.Nodup := by decide

/-! ### own steps -/

theorem mem_ownMoves (s : GameState) (b : Board) (i : Nat) (d : Dir) :
    Action.move i d ∈ s.ownMoves b ↔
      i < 64 ∧ bit (canMoveInDirection d b) i = true ∧ bit (s.currPlayerNonFrozenPieces b) i = true ∧
        bit (s.invalidRabbitMoves d b) i = false := by
  unfold ownMoves
  simp only [List.mem_flatMap, List.mem_map, mem_squaresOf, bit_and, bit_not]
  constructor
  · rintro ⟨d', _, s', ⟨hs, hb⟩, heq⟩
    cases heq
    simp only [Bool.and_eq_true, Bool.not_eq_true', decide_eq_true_eq] at hb
    exact ⟨hs, hb.1.1, hb.1.2, hb.2.2⟩
  · rintro ⟨hi, h1, h2, h3⟩
    refine ⟨d, mem_Dir_ALL d, i, ⟨hi, ?_⟩, rfl⟩
    simp [h1, h2, h3, hi]

theorem invalidRabbit_bit (s : GameState) (b : Board) (hw : WF b) (d : Dir) (i : Nat) (hi : i < 64)
    (ho : bit (sideMask b s.p1Turn) i = true) :
    bit (s.invalidRabbitMoves d b) i = (decide (dirSpec d = backward s.p1Turn) && bit b.rabbits i) := by
  unfold invalidRabbitMoves
  have hb := backward_iff s.p1Turn d
  rw [sideMask_bit b hw _ i hi] at ho
  have hmask : bit (if s.p1Turn = true then b.p1 else ~~~b.p1) i = true := by
    cases hg : s.p1Turn
    · rw [hg] at ho
      simp only [Bool.false_eq_true, if_false]
      rw [bit_not]
      cases h1 : bit b.p1 i <;> cases h2 : bit b.all i <;> simp_all
    · rw [hg] at ho
      simp only [if_true]
      cases h1 : bit b.p1 i <;> cases h2 : bit b.all i <;> simp_all
  by_cases hd : dirSpec d = backward s.p1Turn
  · rw [if_pos (hb.mpr hd), bit_and, hmask]
    simp [hd]
  · have : ¬ (d = if s.p1Turn = true then backwardDirP1 else backwardDirP2) := fun h => hd (hb.mp h)
    rw [if_neg this]
    simp [hd]

theorem ownMoves_iff (s : GameState) (b : Board) (hw : WF b) (i : Nat) (d : Dir) :
    Action.move i d ∈ s.ownMoves b ↔
      i < 64 ∧ ownStep (absBoard b) s.p1Turn i (dirSpec d) = true := by
  rw [mem_ownMoves]
  constructor
  · rintro ⟨hi, hcm, hnf, hir⟩
    refine ⟨hi, ?_⟩
    rw [nonFrozen_bit s b hw i hi] at hnf
    simp only [Bool.and_eq_true, Bool.not_eq_true'] at hnf
    obtain ⟨ho, hfr⟩ := hnf
    obtain ⟨j, hn, hej⟩ := (canMove_bit d b i hi).mp hcm
    have hj := nbr_lt i _ j hi hn
    rw [invalidRabbit_bit s b hw d i hi ho] at hir
    have hoa := ho
    rw [sideMask_bit b hw _ i hi] at hoa
    have hall : bit b.all i = true := by cases h : bit b.all i <;> simp_all
    obtain ⟨c, hc⟩ : ∃ c, absBoard b i = some c := by
      have := abs_isSome b hw i hi; rw [hall] at this
      cases h : absBoard b i <;> simp_all
    obtain ⟨t, ht, hts, hg⟩ := typeAt_of_abs b i c hc
    unfold ownStep
    rw [hc, hn]
    simp only [hfr, Bool.not_false, Bool.and_true, abs_isNone b hw j hj, hej]
    have hgg : c.gold = s.p1Turn := by
      rw [hg]; rw [hall] at hoa; simpa using hoa
    have hrab : (c.piece == Spec.Piece.rabbit) = bit b.rabbits i := by
      have hb := typeAt_some_bits b hw i hi t ht .rabbit
      simp only [Board.typeBits] at hb
      rw [hb, ← hts]
      cases t <;> simp [toSpec]
    rw [hrab, hgg]
    simp only [beq_self_eq_true, Bool.true_and, Bool.not_false]
    by_cases hdir : dirSpec d = backward s.p1Turn
    · simp only [hdir, decide_true, Bool.true_and] at hir
      simp [hir]
    · simp [hdir]
  · rintro ⟨hi, hos⟩
    unfold ownStep at hos
    cases hc : absBoard b i with
    | none => rw [hc] at hos; simp at hos
    | some c =>
      cases hn : nbr i (dirSpec d) with
      | none => rw [hc, hn] at hos; simp at hos
      | some j =>
        rw [hc, hn] at hos
        simp only [Bool.and_eq_true, Bool.not_eq_true', beq_iff_eq] at hos
        obtain ⟨⟨⟨hg, hfr⟩, hemp⟩, hrb⟩ := hos
        have hj := nbr_lt i _ j hi hn
        rw [abs_isNone b hw j hj] at hemp
        have hej : bit b.all j = false := by simpa using hemp
        have ho : bit (sideMask b s.p1Turn) i = true := by
          rw [← ownedBy_abs b hw _ i hi]; unfold ownedBy; rw [hc]; simp [hg]
        obtain ⟨t, ht, hts, _⟩ := typeAt_of_abs b i c hc
        refine ⟨hi, (canMove_bit d b i hi).mpr ⟨j, hn, hej⟩, ?_, ?_⟩
        · rw [nonFrozen_bit s b hw i hi, ho, hfr]; rfl
        · rw [invalidRabbit_bit s b hw d i hi ho]
          have hrab : (c.piece == Spec.Piece.rabbit) = bit b.rabbits i := by
            have hb := typeAt_some_bits b hw i hi t ht .rabbit
            simp only [Board.typeBits] at hb
            rw [hb, ← hts]
            cases t <;> simp [toSpec]
          rw [← hrab]
          by_cases hdir : dirSpec d = backward s.p1Turn
          · simp only [hdir, beq_self_eq_true, Bool.and_true] at hrb
            simp [hrb]
          · simp [hdir]

/-! ### push starts -/

theorem nbAny_congr_lt (f g : Nat → Bool) (i : Nat) (hi : i < 64) (h : ∀ j, j < 64 → f j = g j) :
    nbAny f i = nbAny g i := by
  unfold nbAny
  have h1 : i + 8 < 64 → f (i + 8) = g (i + 8) := fun hh => h _ hh
  have h2 : f (i - 1) = g (i - 1) := h _ (by omega)
  have h3 : f (i - 8) = g (i - 8) := h _ (by omega)
  have h4 : i % 8 ≠ 7 → f (i + 1) = g (i + 1) := fun hh => h _ (by omega)
  rw [h2, h3]
  by_cases a : i + 8 < 64 <;> by_cases c : i % 8 ≠ 7 <;> simp [a, c, h1, h4]

theorem mem_pushActions (s : GameState) (pp : PlayPhase) (b : Board) (i : Nat) (d : Dir) :
    Action.move i d ∈ s.pushActions pp b ↔
      pp.pps.canPush = true ∧ pp.step < 3 ∧ i < 64 ∧ bit (canMoveInDirection d b) i = true ∧
        bit (threatenedPieces (s.currPlayerNonFrozenPieces b) (s.opponentPieceMask b) b) i = true := by
  unfold pushActions
  by_cases h1 : pp.pps.canPush = true ∧ pp.step < 3
  · have hc : (pp.pps.canPush && decide (pp.step < 3)) = true := by simp [h1.1, h1.2]
    simp only [hc, if_true]
    by_cases h0 : threatenedPieces (s.currPlayerNonFrozenPieces b) (s.opponentPieceMask b) b = 0#64
    · have : (threatenedPieces (s.currPlayerNonFrozenPieces b) (s.opponentPieceMask b) b != 0) = false := by
        simp [h0]
      simp [this, h0]
    · have : (threatenedPieces (s.currPlayerNonFrozenPieces b) (s.opponentPieceMask b) b != 0) = true := by
        simp [h0]
      simp only [this, if_true, List.mem_flatMap, List.mem_map, mem_squaresOf, bit_and]
      constructor
      · rintro ⟨d', _, s', ⟨hs, hb⟩, heq⟩
        cases heq
        simp only [Bool.and_eq_true] at hb
        exact ⟨h1.1, h1.2, hs, hb.1, hb.2⟩
      · rintro ⟨_, _, hi, h2, h3⟩
        exact ⟨d, mem_Dir_ALL d, i, ⟨hi, by simp [h2, h3]⟩, rfl⟩
  · have hc : (pp.pps.canPush && decide (pp.step < 3)) = false := by
      cases h2 : pp.pps.canPush <;> simp_all
    simp only [hc, Bool.false_eq_true, if_false, List.not_mem_nil, false_iff]
    intro h; exact h1 ⟨h.1, h.2.1⟩

theorem opponentMask_eq (s : GameState) (b : Board) : s.opponentPieceMask b = sideMask b (!s.p1Turn) := by
  unfold GameState.opponentPieceMask sideMask; cases s.p1Turn <;> rfl

/-- the pusher test of the specification, on bitboards -/
theorem hasPusher_abs (s : GameState) (b : Board) (hw : WF b) (i : Nat) (hi : i < 64) (k : Nat) :
    hasPusher (absBoard b) s.p1Turn i k =
      nbAny (fun j => bit (s.currPlayerNonFrozenPieces b) j && decide (k < str b j)) i := by
  unfold hasPusher
  apply nbAny_congr_lt _ _ i hi
  intro j hj
  rw [nonFrozen_bit s b hw j hj, sideMask_bit b hw _ j hj]
  have h1 := abs_isSome b hw j hj
  cases hc : absBoard b j with
  | none => simp_all
  | some c =>
    have hg := abs_gold b j c hc
    have hs := abs_strength b j c hc
    have ha : bit b.all j = true := by simp_all
    simp only [ha, hs, hg, Bool.true_and]

theorem pushActions_iff (s : GameState) (pp : PlayPhase) (b : Board) (hw : WF b) (i : Nat) (d : Dir) :
    Action.move i d ∈ s.pushActions pp b ↔
      i < 64 ∧ pp.pps.isMustCompletePush = false ∧
        pushStart (absBoard b) s.p1Turn pp.step i (dirSpec d) = true := by
  rw [mem_pushActions]
  have hcp : pp.pps.canPush = true ↔ pp.pps.isMustCompletePush = false := by
    unfold PPS.canPush; cases pp.pps.isMustCompletePush <;> simp
  constructor
  · rintro ⟨hc, hst, hi, hcm, hthr⟩
    refine ⟨hi, hcp.mp hc, ?_⟩
    obtain ⟨j, hn, hej⟩ := (canMove_bit d b i hi).mp hcm
    have hj := nbr_lt i _ j hi hn
    rw [threatened_bit _ _ b hw i hi, opponentMask_eq] at hthr
    simp only [Bool.and_eq_true] at hthr
    obtain ⟨⟨ho, _⟩, hnb⟩ := hthr
    have hoa := ho
    rw [sideMask_bit b hw _ i hi] at hoa
    have hall : bit b.all i = true := by cases h : bit b.all i <;> simp_all
    obtain ⟨c, hc'⟩ : ∃ c, absBoard b i = some c := by
      have := abs_isSome b hw i hi; rw [hall] at this
      cases h : absBoard b i <;> simp_all
    have hg := abs_gold b i c hc'
    have hs := abs_strength b i c hc'
    unfold pushStart
    rw [hc', hn]
    simp only [hst, decide_true, Bool.true_and, abs_isNone b hw j hj, hej, Bool.not_false, Bool.and_true]
    rw [hasPusher_abs s b hw i hi, hs, hnb, hg]
    rw [hall] at hoa
    cases h1 : bit b.p1 i <;> cases h2 : s.p1Turn <;> simp_all
  · rintro ⟨hi, hm, hps⟩
    unfold pushStart at hps
    simp only [Bool.and_eq_true, decide_eq_true_eq] at hps
    obtain ⟨hst, hps⟩ := hps
    cases hc : absBoard b i with
    | none => rw [hc] at hps; simp at hps
    | some c =>
      cases hn : nbr i (dirSpec d) with
      | none => rw [hc, hn] at hps; simp at hps
      | some j =>
        rw [hc, hn] at hps
        simp only [Bool.and_eq_true] at hps
        obtain ⟨⟨hg, hemp⟩, hpu⟩ := hps
        have hj := nbr_lt i _ j hi hn
        rw [abs_isNone b hw j hj] at hemp
        have hej : bit b.all j = false := by simpa using hemp
        have hgold := abs_gold b i c hc
        have hs := abs_strength b i c hc
        have hall : bit b.all i = true := by
          have := abs_isSome b hw i hi; rw [hc] at this; simpa using this.symm
        rw [hasPusher_abs s b hw i hi, hs] at hpu
        refine ⟨hcp.mpr hm, hst, hi, (canMove_bit d b i hi).mpr ⟨j, hn, hej⟩, ?_⟩
        rw [threatened_bit _ _ b hw i hi, opponentMask_eq, sideMask_bit b hw _ i hi, hall, hpu]
        have hopp : (bit b.p1 i == !s.p1Turn) = true := by
          rw [← hgold]
          revert hg
          cases c.gold <;> cases s.p1Turn <;> simp
        simp only [hopp, Bool.true_and, Bool.and_true]
        -- not an elephant: it has a stronger neighbour
        have hne : bit b.elephants i = false := by
          cases he : bit b.elephants i
          · rfl
          · have h5 : str b i = 5 := by unfold str; simp [he]
            rw [h5, nbAny_congr _ (fun _ => false) i (by
              intro j; have := str_le b j; have : ¬ (5 < str b j) := by omega
              simp [this]), nbAny_false] at hpu
            cases hpu
        have hty := hw.all_eq i hi
        rw [hall, hne] at hty
        simpa using hty.symm

/-! ### pull completions -/

theorem mem_pullExtend_nil (s : GameState) (pp : PlayPhase) (b : Board) (a : Action) :
    a ∈ s.pullExtend pp b [] ↔
      ∃ q x, pp.pps = .possiblePull q x ∧ ∃ d,
        ((shiftPiecesInDirection d (lesserPieces x b &&& s.opponentPieceMask b) &&& sqBit q) != 0) = true ∧
          a = Action.move (sqOfBit (shiftPiecesInOppDirection d (sqBit q))) d := by
  unfold pullExtend
  split
  · rename_i q x heq
    have h := mem_foldl_addIfNew
      (fun d => (shiftPiecesInDirection d (lesserPieces x b &&& s.opponentPieceMask b) &&& sqBit q) != 0)
      (fun d => Action.move (sqOfBit (shiftPiecesInOppDirection d (sqBit q))) d) Dir_ALL [] a
    simp only [List.not_mem_nil, false_or] at h
    rw [h]
    constructor
    · rintro ⟨d, _, hc, ha⟩
      exact ⟨q, x, heq, d, hc, ha⟩
    · rintro ⟨q', x', he, d, hc, ha⟩
      rw [heq] at he
      cases he
      exact ⟨d, mem_Dir_ALL d, hc, ha⟩
  · rename_i hne
    simp only [List.not_mem_nil, false_iff]
    rintro ⟨q, x, he, _⟩
    exact hne q x he

theorem dirSpec_opp_nbr (i q : Nat) (d : Dir) (hi : i < 64) (hq : q < 64) :
    nbr i (dirSpec d) = some q ↔ nbr q (dirSpec d).opp = some i := by
  constructor
  · intro h; exact nbr_opp i q _ hi h
  · intro h
    have := nbr_opp q i _ hq h
    rwa [dirSpec_opp_opp] at this

theorem pullExtend_iff (s : GameState) (pp : PlayPhase) (b : Board) (hw : WF b) (hp : PendOk b pp.pps)
    (i : Nat) (d : Dir) :
    Action.move i d ∈ s.pullExtend pp b [] ↔
      i < 64 ∧ pullEnd (absBoard b) s.p1Turn (absPend pp.pps) i (dirSpec d) = true := by
  rw [mem_pullExtend_nil]
  constructor
  · rintro ⟨q, x, hpps, d', hcond, ha⟩
    rw [hpps] at hp
    obtain ⟨hq, hqe⟩ := hp
    rw [and_sqBit_ne_zero _ q hq, dirShift_bit _ d' q hq] at hcond
    cases hn : nbr q (dirSpec d').opp with
    | none => rw [hn] at hcond; simp at hcond
    | some j =>
      rw [hn] at hcond
      simp only at hcond
      have hj := nbr_lt q _ j hq hn
      have hnj : nbr j (dirSpec d') = some q := (dirSpec_opp_nbr j q d' hj hq).mpr hn
      rw [oppShift_sqBit d' q j hj hnj, sqOfBit_sqBit j hj] at ha
      have hij : j = i := by cases ha; rfl
      have hdd : d' = d := by cases ha; rfl
      subst hij hdd
      refine ⟨hj, ?_⟩
      rw [bit_and, lesserPieces_bit b hw x j hj, opponentMask_eq, sideMask_bit b hw _ j hj] at hcond
      simp only [Bool.and_eq_true] at hcond
      obtain ⟨hl, hall, hopp⟩ := hcond
      cases ht : typeAt b j with
      | none => rw [ht] at hl; simp at hl
      | some t =>
        rw [ht] at hl
        simp only at hl
        unfold pullEnd
        rw [hpps]
        simp only [absPend, absBoard_eq_of_typeAt b j t ht, hnj, abs_isNone b hw q hq, hqe,
          beq_self_eq_true, Bool.not_false, Bool.and_true, Bool.true_and]
        rw [toSpec_strength_lt] at hl
        simp only [hl, Bool.and_true]
        revert hopp
        cases bit b.p1 j <;> cases s.p1Turn <;> simp
  · rintro ⟨hi, hpe⟩
    unfold pullEnd at hpe
    cases hpps : pp.pps with
    | none => rw [hpps] at hpe; simp [absPend] at hpe
    | mustCompletePush q v => rw [hpps] at hpe; simp [absPend] at hpe
    | possiblePull q x =>
      rw [hpps] at hpe hp
      obtain ⟨hq, hqe⟩ := hp
      simp only [absPend] at hpe
      cases hc : absBoard b i with
      | none => rw [hc] at hpe; simp at hpe
      | some c =>
        cases hn : nbr i (dirSpec d) with
        | none => rw [hc, hn] at hpe; simp at hpe
        | some j =>
          rw [hc, hn] at hpe
          simp only [Bool.and_eq_true, beq_iff_eq, decide_eq_true_eq] at hpe
          obtain ⟨⟨⟨hg, hjq⟩, _⟩, hlt⟩ := hpe
          subst hjq
          obtain ⟨t, ht, hts, hgold⟩ := typeAt_of_abs b i c hc
          have hall : bit b.all i = true := by
            have := abs_isSome b hw i hi; rw [hc] at this; simpa using this.symm
          have hnq : nbr j (dirSpec d).opp = some i := (dirSpec_opp_nbr i j d hi hq).mp hn
          refine ⟨j, x, rfl, d, ?_, ?_⟩
          · rw [and_sqBit_ne_zero _ j hq, dirShift_bit _ d j hq, hnq]
            simp only
            rw [bit_and, lesserPieces_bit b hw x i hi, ht, opponentMask_eq, sideMask_bit b hw _ i hi, hall]
            simp only [toSpec_strength_lt, hts, hlt, decide_true, Bool.true_and]
            rw [← hgold]
            revert hg
            cases c.gold <;> cases s.p1Turn <;> simp
          · rw [oppShift_sqBit d j i hi hn, sqOfBit_sqBit i hi]

/-! ### push completions -/

theorem mem_mcp (s : GameState) (pp : PlayPhase) (b : Board) (a : Action) :
    a ∈ s.mustCompletePushActions pp b ↔
      ∃ q v, pp.pps = .mustCompletePush q v ∧ ∃ d,
        ((shiftPiecesInOppDirection d (sqBit q) &&& s.currPlayerNonFrozenPieces b) != 0 &&
          Piece.lt v (pieceTypeAtBit (shiftPiecesInOppDirection d (sqBit q) &&& s.currPlayerNonFrozenPieces b) b)) = true ∧
        a = Action.move (sqOfBit (shiftPiecesInOppDirection d (sqBit q) &&& s.currPlayerNonFrozenPieces b)) d := by
  unfold mustCompletePushActions
  split
  · rename_i q v heq
    simp only [List.mem_flatMap]
    constructor
    · rintro ⟨d, _, h⟩
      split at h
      · rename_i hc
        simp only [List.mem_singleton] at h
        exact ⟨q, v, heq, d, hc, h⟩
      · cases h
    · rintro ⟨q', v', he, d, hc, ha⟩
      rw [heq] at he; cases he
      refine ⟨d, mem_Dir_ALL d, ?_⟩
      rw [if_pos hc]
      simp [ha]
  · rename_i hne
    simp only [List.not_mem_nil, false_iff]
    rintro ⟨q, v, he, _⟩
    exact hne q v he

theorem sqBit_and_mask (x : BB) (j : Nat) (hj : j < 64) :
    sqBit j &&& x = if bit x j then sqBit j else 0 := by
  apply bb_ext; intro i hi
  rw [bit_and, sqBit_bit]
  by_cases e : i = j
  · subst e
    cases hb : bit x i <;> simp [hb, hi, sqBit_bit]
  · cases hb : bit x j <;> simp [e, sqBit_bit]

theorem mcp_iff (s : GameState) (pp : PlayPhase) (b : Board) (hw : WF b) (hp : PendOk b pp.pps)
    (i : Nat) (d : Dir) :
    Action.move i d ∈ s.mustCompletePushActions pp b ↔
      i < 64 ∧ pushEnd (absBoard b) s.p1Turn (absPend pp.pps) i (dirSpec d) = true := by
  rw [mem_mcp]
  constructor
  · rintro ⟨q, v, hpps, d', hcond, ha⟩
    rw [hpps] at hp
    obtain ⟨hq, hqe⟩ := hp
    cases hn : nbr q (dirSpec d').opp with
    | none =>
      have h0 : shiftPiecesInOppDirection d' (sqBit q) = 0 := by
        apply oppShift_sqBit_none d' q hq
        intro j hj hnj
        rw [(dirSpec_opp_nbr j q d' hj hq).mp hnj] at hn; cases hn
      rw [h0] at hcond; simp at hcond
    | some j =>
      have hj := nbr_lt q _ j hq hn
      have hnj : nbr j (dirSpec d') = some q := (dirSpec_opp_nbr j q d' hj hq).mpr hn
      rw [oppShift_sqBit d' q j hj hnj, sqBit_and_mask _ j hj] at hcond ha
      cases hnf : bit (s.currPlayerNonFrozenPieces b) j with
      | false => rw [hnf] at hcond; simp at hcond
      | true =>
        rw [hnf] at hcond ha
        simp only [if_true] at hcond ha
        rw [sqOfBit_sqBit j hj] at ha
        have hij : j = i := by cases ha; rfl
        have hdd : d' = d := by cases ha; rfl
        subst hij hdd
        refine ⟨hj, ?_⟩
        rw [nonFrozen_bit s b hw j hj] at hnf
        simp only [Bool.and_eq_true, Bool.not_eq_true'] at hnf
        obtain ⟨ho, hfr⟩ := hnf
        have hoa := ho
        rw [sideMask_bit b hw _ j hj] at hoa
        have hall : bit b.all j = true := by cases h : bit b.all j <;> simp_all
        obtain ⟨t, ht⟩ : ∃ t, typeAt b j = some t := by
          have := typeAt_isSome b hw j hj; rw [hall] at this
          cases h : typeAt b j <;> simp_all
        rw [pieceTypeAtBit_sqBit b hw j hj t ht] at hcond
        simp only [Bool.and_eq_true] at hcond
        unfold pushEnd
        rw [hpps]
        simp only [absPend, absBoard_eq_of_typeAt b j t ht, hnj, abs_isNone b hw q hq, hqe, hfr,
          beq_self_eq_true, Bool.not_false, Bool.and_true, Bool.true_and]
        have hlt := hcond.2
        rw [toSpec_strength_lt] at hlt
        simp only [hlt, Bool.and_true]
        rw [hall] at hoa
        simpa using hoa
  · rintro ⟨hi, hpe⟩
    unfold pushEnd at hpe
    cases hpps : pp.pps with
    | none => rw [hpps] at hpe; simp [absPend] at hpe
    | possiblePull q x => rw [hpps] at hpe; simp [absPend] at hpe
    | mustCompletePush q v =>
      rw [hpps] at hpe hp
      obtain ⟨hq, hqe⟩ := hp
      simp only [absPend] at hpe
      cases hc : absBoard b i with
      | none => rw [hc] at hpe; simp at hpe
      | some c =>
        cases hn : nbr i (dirSpec d) with
        | none => rw [hc, hn] at hpe; simp at hpe
        | some j =>
          rw [hc, hn] at hpe
          simp only [Bool.and_eq_true, beq_iff_eq, decide_eq_true_eq, Bool.not_eq_true'] at hpe
          obtain ⟨⟨⟨⟨hjq, _⟩, hg⟩, hfr⟩, hlt⟩ := hpe
          subst hjq
          obtain ⟨t, ht, hts, hgold⟩ := typeAt_of_abs b i c hc
          have ho : bit (sideMask b s.p1Turn) i = true := by
            rw [← ownedBy_abs b hw _ i hi]; unfold ownedBy; rw [hc]; simp [hg]
          have hnf : bit (s.currPlayerNonFrozenPieces b) i = true := by
            rw [nonFrozen_bit s b hw i hi, ho, hfr]; rfl
          refine ⟨j, v, rfl, d, ?_, ?_⟩
          · rw [oppShift_sqBit d j i hi hn, sqBit_and_mask _ i hi, hnf]
            simp only [if_true]
            rw [pieceTypeAtBit_sqBit b hw i hi t ht, toSpec_strength_lt, hts]
            have : ¬ (sqBit i = 0#64) := sqBit_ne_zero i hi
            simp [this, hlt]
          · rw [oppShift_sqBit d j i hi hn, sqBit_and_mask _ i hi, hnf]
            simp only [if_true]
            rw [sqOfBit_sqBit i hi]

end Arimaa
