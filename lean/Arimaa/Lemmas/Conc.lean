import Arimaa.Impl.Conc

/-! Frame lemmas for the thread/heap model `Impl/Conc.lean` (property C18 b). -/

namespace Arimaa.Conc

theorem refRun_succ' (t : Nat) (roots : List NodeId) (n : Nat) (x : View × Local) :
    refRun t roots (n + 1) x = refStep t roots (refRun t roots n x) := by
  induction n generalizing x with
  | zero => rfl
  | succ n ih => rw [refRun, ih]; rfl

/-- `append` allocates in the thread's own arena -/
theorem instr_alloc_arena {t : Nat} {roots : List NodeId} {V : View} {L L' : Local} {newid : NodeId} {f : Fields}
    {tok : Owner} (h : instr t roots V L = (L', .alloc newid f tok)) : newid.arena = t + 1 := by
  unfold instr at h
  split at h
  · simp at h
  · simp at h
  · simp at h
  · split at h <;> simp at h
  · simp at h
    obtain ⟨_, h1, _⟩ := h
    rw [← h1]
  · split at h <;> simp at h

/-- a write into another thread's arena is invisible -/
theorem view_upd_other (t : Nat) (fields : NodeId → Option Fields) (id : NodeId) (v : Option Fields)
    (h : inView t id = false) : view t (upd fields id v) = view t fields := by
  funext x
  simp only [view, upd]
  by_cases hx : x = id
  · subst hx; simp [h]
  · simp [hx]

/-- a write into the own arena shows up in the view as the same write -/
theorem view_upd_own (t : Nat) (fields : NodeId → Option Fields) (id : NodeId) (v : Option Fields)
    (h : inView t id = true) : view t (upd fields id v) = upd (view t fields) id v := by
  funext x
  simp only [view, upd]
  by_cases hx : x = id
  · subst hx; simp [h]
  · simp [hx]

theorem inView_other {t u : Nat} (hne : u ≠ t) {id : NodeId} (h : id.arena = u + 1) : inView t id = false := by
  simp only [inView, h]
  simp
  omega

theorem inView_own {t : Nat} {id : NodeId} (h : id.arena = t + 1) : inView t id = true := by
  simp [inView, h]

/-- **frame lemma.**  One atomic step of any thread `u` either leaves thread `t`'s local state and its
view of the immutable heap untouched (every step of another thread; every count / free step of `t`
itself), or advances them by exactly one instruction of the count-free reference semantics. -/
theorem step_obs (s : State) (u t : Nat) (th : Thread) (ht : s.threads[t]? = some th) :
    ∃ th', (step s u).threads[t]? = some th' ∧ (step s u).roots = s.roots ∧
      ((view t (step s u).fields, th'.loc) = (view t s.fields, th.loc) ∨
       (view t (step s u).fields, th'.loc) = refStep t s.roots (view t s.fields, th.loc)) := by
  have htlt : t < s.threads.length := (List.getElem?_eq_some_iff.1 ht).1
  by_cases hut : u = t
  · -- the thread itself
    subst hut
    unfold step
    rw [ht]
    simp only
    cases hrel : th.rel with
    | dec id tok => exact ⟨_, List.getElem?_set_self htlt, rfl, .inl rfl⟩
    | free id => exact ⟨_, List.getElem?_set_self htlt, rfl, .inl rfl⟩
    | idle =>
      simp only
      cases hI : instr u s.roots (view u s.fields) th.loc with
      | mk L eff =>
        cases eff with
        | none => exact ⟨_, List.getElem?_set_self htlt, rfl, .inr (by simp [refStep, hI])⟩
        | addOwner id tok => exact ⟨_, List.getElem?_set_self htlt, rfl, .inr (by simp [refStep, hI])⟩
        | release id tok => exact ⟨_, List.getElem?_set_self htlt, rfl, .inr (by simp [refStep, hI])⟩
        | alloc newid f tok =>
          refine ⟨_, List.getElem?_set_self htlt, rfl, .inr ?_⟩
          simp only [refStep, hI]
          rw [view_upd_own u s.fields newid (some f) (inView_own (instr_alloc_arena hI))]
  · -- another thread
    unfold step
    cases hu : s.threads[u]? with
    | none => exact ⟨th, ht, rfl, .inl rfl⟩
    | some thu =>
      have hget : ∀ x : Thread, (s.threads.set u x)[t]? = some th := by
        intro x; rw [List.getElem?_set_ne hut]; exact ht
      simp only
      cases hrel : thu.rel with
      | dec id tok => exact ⟨th, hget _, rfl, .inl rfl⟩
      | free id => exact ⟨th, hget _, rfl, .inl rfl⟩
      | idle =>
        simp only
        cases hI : instr u s.roots (view u s.fields) thu.loc with
        | mk L eff =>
          cases eff with
          | none => exact ⟨th, hget _, rfl, .inl rfl⟩
          | addOwner id tok => exact ⟨th, hget _, rfl, .inl rfl⟩
          | release id tok => exact ⟨th, hget _, rfl, .inl rfl⟩
          | alloc newid f tok =>
            refine ⟨th, hget _, rfl, .inl ?_⟩
            simp only
            rw [view_upd_other t s.fields newid (some f) (inView_other hut (instr_alloc_arena hI))]

/-- the only write to the immutable part of the heap is an allocation in the stepping thread's own arena -/
theorem step_fields_other (s : State) (u : Nat) (id : NodeId) (h : id.arena ≠ u + 1) :
    (step s u).fields id = s.fields id := by
  unfold step
  cases hu : s.threads[u]? with
  | none => rfl
  | some thu =>
    simp only
    cases hrel : thu.rel with
    | dec id tok => rfl
    | free id => rfl
    | idle =>
      simp only
      cases hI : instr u s.roots (view u s.fields) thu.loc with
      | mk L eff =>
        cases eff with
        | none => rfl
        | addOwner id tok => rfl
        | release id tok => rfl
        | alloc newid f tok =>
          have := instr_alloc_arena hI
          simp only [upd]
          rw [if_neg]
          intro hid; subst hid; exact h this

theorem run_fields_arena0 (sched : List Nat) : ∀ (s : State) (id : NodeId), id.arena = 0 →
    (run s sched).fields id = s.fields id := by
  induction sched with
  | nil => intros; rfl
  | cons u us ih =>
    intro s id h0
    rw [run, ih (step s u) id h0, step_fields_other s u id (by omega)]

/-- under every schedule, thread `t`'s local state and view are those of the reference semantics after
some number of instructions -/
theorem run_obs (t : Nat) (sched : List Nat) : ∀ (s : State) (th : Thread), s.threads[t]? = some th →
    ∃ th' n, (run s sched).threads[t]? = some th' ∧ (run s sched).roots = s.roots ∧
      (view t (run s sched).fields, th'.loc) = refRun t s.roots n (view t s.fields, th.loc) := by
  suffices H : ∀ (s0 : State) (th0 : Thread) (s : State) (th : Thread) (n : Nat),
      s.threads[t]? = some th → s.roots = s0.roots →
      (view t s.fields, th.loc) = refRun t s0.roots n (view t s0.fields, th0.loc) →
      ∃ th' n', (run s sched).threads[t]? = some th' ∧ (run s sched).roots = s0.roots ∧
        (view t (run s sched).fields, th'.loc) = refRun t s0.roots n' (view t s0.fields, th0.loc) by
    intro s th ht
    exact H s th s th 0 ht rfl rfl
  intro s0 th0
  induction sched with
  | nil => intro s th n ht hr hx; exact ⟨th, n, ht, hr, hx⟩
  | cons u us ih =>
    intro s th n ht hr hx
    obtain ⟨th', ht', hr', hcase⟩ := step_obs s u t th ht
    rcases hcase with h | h
    · exact ih (step s u) th' n ht' (hr'.trans hr) (h.trans hx)
    · refine ih (step s u) th' (n + 1) ht' (hr'.trans hr) ?_
      rw [refRun_succ', ← hx, ← hr]; exact h

/-! ### the reference run is determined by the instruction count -/

theorem instr_pc (t : Nat) (roots : List NodeId) (V : View) (L : Local) :
    (instr t roots V L).1.pc = L.pc + 1 ∨ instr t roots V L = (L, .none) := by
  unfold instr
  split
  · exact .inr rfl
  · exact .inl rfl
  · exact .inl rfl
  · split <;> exact .inl rfl
  · exact .inl rfl
  · split <;> exact .inl rfl

theorem refStep_pc (t : Nat) (roots : List NodeId) (x : View × Local) :
    (refStep t roots x).2.pc = x.2.pc + 1 ∨ refStep t roots x = x := by
  rcases instr_pc t roots x.1 x.2 with h | h
  · left
    unfold refStep
    cases hI : instr t roots x.1 x.2 with
    | mk L eff => rw [hI] at h; cases eff <;> exact h
  · right
    unfold refStep
    rw [h]

theorem refRun_add (t : Nat) (roots : List NodeId) (a b : Nat) (x : View × Local) :
    refRun t roots (a + b) x = refRun t roots b (refRun t roots a x) := by
  induction a generalizing x with
  | zero => simp [refRun]
  | succ a ih => rw [Nat.succ_add]; simp [refRun, ih]

theorem refRun_pc_mono (t : Nat) (roots : List NodeId) (d : Nat) (x : View × Local) :
    x.2.pc ≤ (refRun t roots d x).2.pc := by
  induction d with
  | zero => exact Nat.le_refl _
  | succ d ih =>
    rw [refRun_succ']
    rcases refStep_pc t roots (refRun t roots d x) with h | h
    · omega
    · rw [h]; exact ih

theorem refRun_fixed (t : Nat) (roots : List NodeId) (d : Nat) (x : View × Local)
    (h : (refRun t roots d x).2.pc = x.2.pc) : refRun t roots d x = x := by
  induction d with
  | zero => rfl
  | succ d ih =>
    rw [refRun_succ'] at h ⊢
    have hmono := refRun_pc_mono t roots d x
    rcases refStep_pc t roots (refRun t roots d x) with h' | h'
    · omega
    · rw [h'] at h ⊢; exact ih h

/-- two points of one reference run with the same instruction count are the same point -/
theorem refRun_pc_inj (t : Nat) (roots : List NodeId) (n m : Nat) (x : View × Local)
    (h : (refRun t roots n x).2.pc = (refRun t roots m x).2.pc) : refRun t roots n x = refRun t roots m x := by
  rcases Nat.le_total n m with hnm | hnm
  · obtain ⟨d, rfl⟩ := Nat.exists_eq_add_of_le hnm
    rw [refRun_add] at h ⊢
    exact (refRun_fixed t roots d _ h.symm).symm
  · obtain ⟨d, rfl⟩ := Nat.exists_eq_add_of_le hnm
    rw [refRun_add] at h ⊢
    exact refRun_fixed t roots d _ h

end Arimaa.Conc

namespace Arimaa.Conc

/-! ### nodes reachable from the shared root handles are never freed -/

/-- `RootReach s0 id tok`: node `id` (of arena 0) is reachable from a root handle of the initial state `s0`
by following `next`; `tok` is the reference that keeps it alive for ever — the root handle itself, or the
`next` field of its (root-reachable) predecessor -/
inductive RootReach (s0 : State) : NodeId → Owner → Prop where
  | head (i : Nat) (id : NodeId) : s0.roots[i]? = some id → id.arena = 0 → RootReach s0 id (.root i)
  | next (p : NodeId) (tokp : Owner) (f : Fields) (j : NodeId) :
      RootReach s0 p tokp → s0.fields p = some f → f.next = some j → j.arena = 0 → RootReach s0 j (.node p)

theorem RootReach.arena0 {s0 : State} {id : NodeId} {tok : Owner} (h : RootReach s0 id tok) : id.arena = 0 := by
  cases h <;> assumption

/-- a thread in the middle of a release is not about to give up a permanent reference of a root-reachable
node, nor to free such a node -/
def RelOk (s0 : State) : Rel → Prop
  | .dec _ tok => ∀ id tk, RootReach s0 id tk → tok ≠ tk
  | .free id => ∀ tk, ¬ RootReach s0 id tk
  | .idle => True

/-- the count invariant restricted to root-reachable nodes: each still has its permanent owner and is not
freed; no thread is about to give up a permanent reference or to free a root-reachable node -/
structure RootsSafe (s0 s : State) : Prop where
  alive : ∀ id tok, RootReach s0 id tok → tok ∈ (s.arcs id).owners ∧ (s.arcs id).freed = false
  rels : ∀ (t : Nat) (th : Thread), s.threads[t]? = some th → RelOk s0 th.rel

theorem instr_release_tok {t : Nat} {roots : List NodeId} {V : View} {L L' : Local} {id : NodeId} {tok : Owner}
    (h : instr t roots V L = (L', .release id tok)) : ∃ key, tok = .handle t key := by
  unfold instr at h
  split at h
  · simp at h
  · simp at h
  · simp at h
  · split at h <;> simp at h
  · simp at h
  · split at h <;> simp at h
    exact ⟨_, h.2.2.symm⟩

theorem rels_of_set {s0 : State} {threads : List Thread} {u : Nat} {thu' : Thread}
    (hold : ∀ (t : Nat) (th : Thread), threads[t]? = some th → RelOk s0 th.rel)
    (hnew : RelOk s0 thu'.rel) :
    ∀ (t : Nat) (th : Thread), (threads.set u thu')[t]? = some th → RelOk s0 th.rel := by
  intro t th hth
  by_cases hut : u = t
  · subst hut
    rw [List.getElem?_set] at hth
    split at hth
    · split at hth
      · cases hth; exact hnew
      · cases hth
    · exact hold _ _ hth
  · rw [List.getElem?_set_ne hut] at hth
    exact hold _ _ hth

theorem alive_addOwner {s0 : State} {arcs : NodeId → Meta} (j : NodeId) (tok : Owner)
    (h : ∀ id tk, RootReach s0 id tk → tk ∈ (arcs id).owners ∧ (arcs id).freed = false) :
    ∀ id tk, RootReach s0 id tk → tk ∈ (addOwner arcs j tok id).owners ∧ (addOwner arcs j tok id).freed = false := by
  intro id tk hr
  have := h id tk hr
  simp only [addOwner, upd]
  by_cases hid : id = j
  · subst hid; simp [this.1, this.2]
  · simp [hid, this.1, this.2]

theorem rootsSafe_step (s0 s : State) (u : Nat) (hs : RootsSafe s0 s) : RootsSafe s0 (step s u) := by
  unfold step
  cases hu : s.threads[u]? with
  | none => exact hs
  | some thu =>
    have hrelu := hs.rels u thu hu
    simp only
    cases hrel : thu.rel with
    | dec id tok =>
      rw [hrel] at hrelu
      simp only
      refine ⟨?_, rels_of_set hs.rels ?_⟩
      · intro id' tk hr
        have := hs.alive id' tk hr
        simp only [upd]
        by_cases hid : id' = id
        · subst hid
          simp only [if_true]
          exact ⟨(List.mem_erase_of_ne (hrelu id' tk hr).symm).2 this.1, this.2⟩
        · simp only [hid, if_false]; exact this
      · simp only
        split
        · rename_i hlast
          intro tk hr
          have := (hs.alive id tk hr).1
          have hmem : tk ∈ (s.arcs id).owners.erase tok := (List.mem_erase_of_ne (hrelu id tk hr).symm).2 this
          rw [hlast.2] at hmem
          cases hmem
        · trivial
    | free id =>
      rw [hrel] at hrelu
      simp only
      refine ⟨?_, rels_of_set hs.rels ?_⟩
      · intro id' tk hr
        have := hs.alive id' tk hr
        simp only [upd]
        by_cases hid : id' = id
        · subst hid; exact absurd hr (hrelu tk)
        · simp only [hid, if_false]; exact this
      · simp only
        split
        · intro id' tk hr heq
          subst heq
          cases hr with
          | next p tokp f j hp _ _ _ => exact hrelu tokp hp
        · trivial
    | idle =>
      simp only
      cases hI : instr u s.roots (view u s.fields) thu.loc with
      | mk L eff =>
        cases eff with
        | none => exact ⟨hs.alive, rels_of_set hs.rels (by simp [RelOk])⟩
        | addOwner id tok => exact ⟨alive_addOwner id tok hs.alive, rels_of_set hs.rels (by simp [RelOk])⟩
        | release id tok =>
          refine ⟨hs.alive, rels_of_set hs.rels ?_⟩
          obtain ⟨key, rfl⟩ := instr_release_tok hI
          intro id' tk hr heq
          subst heq
          cases hr
        | alloc newid f tok =>
          have harena := instr_alloc_arena hI
          have h1 : ∀ id tk, RootReach s0 id tk →
              tk ∈ (upd s.arcs newid { owners := [tok], freed := false } id).owners ∧
              (upd s.arcs newid { owners := [tok], freed := false } id).freed = false := by
            intro id tk hr
            have hne : id ≠ newid := by
              intro h; subst h; have := hr.arena0; omega
            simp only [upd, hne, if_false]
            exact hs.alive id tk hr
          refine ⟨?_, rels_of_set hs.rels (by simp [RelOk])⟩
          simp only
          cases f.next with
          | some j => exact alive_addOwner _ _ h1
          | none => exact h1

theorem rootsSafe_run (s0 : State) (sched : List Nat) : ∀ s, RootsSafe s0 s → RootsSafe s0 (run s sched) := by
  induction sched with
  | nil => intro s h; exact h
  | cons u us ih => intro s h; exact ih _ (rootsSafe_step s0 s u h)

end Arimaa.Conc
