import Arimaa.Lemmas.RsAgreeBoard

/-!
Agreement of the regenerated model with the hand model: `can_pass`.
-/
namespace Arimaa.RsAgree
open Arimaa Arimaa.Gen Arimaa.Gen.RsBase Arimaa.Rt

theorem can_pass_eq (s : GameState) (cr : Bool) :
    GameState_can_pass s cr = Res.guard (s.canPassPanics cr) (s.canPass cr) := by
  unfold GameState_can_pass GameState.canPassPanics GameState.canPass
  rw [as_play_phase]
  unfold GameState.playPhase?
  cases hp : s.phase with
  | place => rfl
  | play pp =>
    simp only [play_phase_step, ble_eq_decide, is_must_complete_push, unwrap_play_phase s pp hp, Res.bind_ok,
      zobrist_exclude_step, zobrist_pass, hash_history_contains_hash_twice_eq, Res.bind_guard]
    cases h1 : decide (1 ≤ pp.step)
    · have h1' : decide (pp.step ≥ 1) = false := h1
      simp [h1', Res.guard]
    · have h1' : decide (pp.step ≥ 1) = true := h1
      cases h2 : pp.pps.isMustCompletePush
      · cases cr
        · simp [h1', h2, Res.guard]
        · cases h3 : zExcludeStepPanics pp.step
          · cases h4 : (pp.initHash != zExcludeStep s.hash pp.step)
            · simp [h1', h2, h3, h4, Res.guard]
            · cases h5 : zPassPanics pp.step <;> simp [h1', h2, h3, h4, h5, Res.guard]
          · simp [h1', h2, h3, Res.guard]
      · simp [h1', h2, Res.guard]

end Arimaa.RsAgree
