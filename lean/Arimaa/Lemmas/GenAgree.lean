import Arimaa.Gen.BitFns
import Arimaa.Impl.Engine

/-!
Agreement of the hand-written model with the expression-by-expression translation of the
straight-line bit helpers of engine.rs (`Gen/BitFns.lean`, regenerated from the source on every
run).  The refinement proofs are about the hand-written functions; these theorems tie those
functions to what the code says now: a changed mask, shift, operator or operand in one of the
seventeen helpers breaks the corresponding theorem here.
-/
namespace Arimaa
open Gen GameState

/- Each agreement is tried by `rfl` first; if the source was rewritten up to associativity /
   commutativity of the bit operators the fallback unfolds both sides (callees through their own
   agreement theorems) and closes the goal with `ac_rfl`; if the rewrite went beyond that (for
   instance `x & a | x & b` became `x & (a | b)`), the last alternative compares the two sides bit
   by bit: the bitwise operators are pushed to the bits and the remaining propositional identity in
   the bits of the shifted operands is closed by `grind`. -/

set_option linter.unusedSimpArgs false

/-- bit-by-bit comparison of two bitboard expressions built from `&&&`, `|||`, `^^^`, `~~~`
(all bitboard-valued helpers, generated and hand-written, are unfolded first: a rewritten helper may
call other helpers than before) -/
macro "bitwise_agree" : tactic =>
  `(tactic| (simp only [Gen.Fn.influenced_squares, Gen.Fn.supported_pieces, Gen.Fn.both_player_supported_pieces,
               Gen.Fn.both_player_unsupported_piece_bits, Gen.Fn.can_move_in_direction, Gen.Fn.shift_piece_in_direction,
               Gen.Fn.player_piece_mask, Gen.Fn.trapped_piece_bits, Gen.Fn.curr_player_piece_mask,
               Gen.Fn.opponent_piece_mask, Gen.Fn.threatened_pieces, Gen.Fn.curr_player_non_frozen_pieces,
               influencedSquares, supportedPieces, bothPlayerSupportedPieces, bothPlayerUnsupportedPieceBits,
               canMoveInDirection, shiftPieceInDirection, Board.playerPieceMask, Board.trappedPieceBits,
               currPlayerPieceMask, opponentPieceMask, threatenedPieces, currPlayerNonFrozenPieces]
             apply BitVec.eq_of_getLsbD_eq; intro i hi
             simp only [BitVec.getLsbD_and, BitVec.getLsbD_or, BitVec.getLsbD_xor, BitVec.getLsbD_not]
             grind))

theorem agree_influenced_squares (x : BB) :
    Gen.Fn.influenced_squares x = influencedSquares x := by
  first
    | rfl
    | (simp only [Gen.Fn.influenced_squares, influencedSquares] <;> first | rfl | ac_rfl)
    | bitwise_agree

theorem agree_supported_pieces (x : BB) :
    Gen.Fn.supported_pieces x = supportedPieces x := by
  first
    | rfl
    | (simp only [Gen.Fn.supported_pieces, supportedPieces] <;> first | rfl | ac_rfl)
    | bitwise_agree

theorem agree_both_player_supported_pieces (b : Board) :
    Gen.Fn.both_player_supported_pieces b = bothPlayerSupportedPieces b := by
  first
    | rfl
    | (simp only [Gen.Fn.both_player_supported_pieces, bothPlayerSupportedPieces, agree_supported_pieces] <;> first | rfl | ac_rfl)
    | bitwise_agree

theorem agree_both_player_unsupported_piece_bits (b : Board) :
    Gen.Fn.both_player_unsupported_piece_bits b = bothPlayerUnsupportedPieceBits b := by
  first
    | rfl
    | (simp only [Gen.Fn.both_player_unsupported_piece_bits, bothPlayerUnsupportedPieceBits, agree_both_player_supported_pieces] <;> first | rfl | ac_rfl)
    | bitwise_agree

theorem agree_animal_is_on_trap (b : Board) :
    Gen.Fn.animal_is_on_trap b = animalIsOnTrap b := by
  first
    | rfl
    | (simp only [Gen.Fn.animal_is_on_trap, animalIsOnTrap] <;> first | rfl | ac_rfl)
    | bitwise_agree

theorem agree_can_move_in_direction (d : Dir) (b : Board) :
    Gen.Fn.can_move_in_direction d b = canMoveInDirection d b := by
  first
    | rfl
    | (simp only [Gen.Fn.can_move_in_direction, canMoveInDirection] <;> first | rfl | ac_rfl)
    | bitwise_agree

theorem agree_shift_piece_in_direction (x src : BB) (d : Dir) :
    Gen.Fn.shift_piece_in_direction x src d = shiftPieceInDirection x src d := by
  first
    | rfl
    | (simp only [Gen.Fn.shift_piece_in_direction, shiftPieceInDirection] <;> first | rfl | ac_rfl)
    | bitwise_agree

theorem agree_player_piece_mask (b : Board) (g : Bool) :
    Gen.Fn.player_piece_mask b g = b.playerPieceMask g := by
  first
    | rfl
    | (simp only [Gen.Fn.player_piece_mask, Board.playerPieceMask] <;> first | rfl | ac_rfl)
    | bitwise_agree

theorem agree_trapped_piece_bits (b : Board) :
    Gen.Fn.trapped_piece_bits b = b.trappedPieceBits := by
  first
    | rfl
    | (simp only [Gen.Fn.trapped_piece_bits, Board.trappedPieceBits, agree_animal_is_on_trap, agree_both_player_unsupported_piece_bits] <;> first | rfl | ac_rfl)
    | bitwise_agree

theorem agree_curr_player_piece_mask (s : GameState) (b : Board) :
    Gen.Fn.curr_player_piece_mask s.p1Turn b = s.currPlayerPieceMask b := by
  first
    | rfl
    | (simp only [Gen.Fn.curr_player_piece_mask, currPlayerPieceMask] <;> first | rfl | ac_rfl)
    | bitwise_agree

theorem agree_opponent_piece_mask (s : GameState) (b : Board) :
    Gen.Fn.opponent_piece_mask s.p1Turn b = s.opponentPieceMask b := by
  first
    | rfl
    | (simp only [Gen.Fn.opponent_piece_mask, opponentPieceMask] <;> first | rfl | ac_rfl)
    | bitwise_agree

theorem agree_threatened_pieces (g : Bool) (pred prey : BB) (b : Board) :
    Gen.Fn.threatened_pieces g pred prey b = threatenedPieces pred prey b := by
  first
    | rfl
    | (simp only [Gen.Fn.threatened_pieces, threatenedPieces, agree_influenced_squares] <;> first | rfl | ac_rfl)
    | bitwise_agree

theorem agree_curr_player_non_frozen_pieces (s : GameState) (b : Board) :
    Gen.Fn.curr_player_non_frozen_pieces s.p1Turn b = s.currPlayerNonFrozenPieces b := by
  first
    | rfl
    | (simp only [Gen.Fn.curr_player_non_frozen_pieces, currPlayerNonFrozenPieces, agree_opponent_piece_mask, agree_threatened_pieces, agree_supported_pieces] <;> first | rfl | ac_rfl)
    | bitwise_agree

theorem agree_is_their_piece (s : GameState) (bit : BB) (b : Board) :
    Gen.Fn.is_their_piece s.p1Turn bit b = s.isTheirPiece bit b := by
  first
    | rfl
    | (simp only [Gen.Fn.is_their_piece, isTheirPiece] <;> first | rfl | ac_rfl)
    | bitwise_agree

theorem agree_invalid_rabbit_moves (s : GameState) (d : Dir) (b : Board) :
    Gen.Fn.invalid_rabbit_moves s.p1Turn d b = s.invalidRabbitMoves d b := by
  unfold Gen.Fn.invalid_rabbit_moves invalidRabbitMoves backwardDirP1 backwardDirP2
  cases s.p1Turn <;> cases d <;> first | rfl | ac_rfl

theorem agree_rabbit_at_goal (s : GameState) (b : Board) :
    Gen.Fn.rabbit_at_goal s.p1Turn b = s.rabbitAtGoal b := by
  first
    | rfl
    | (simp only [Gen.Fn.rabbit_at_goal, rabbitAtGoal] <;> first | rfl | ac_rfl)
    | bitwise_agree

theorem agree_lost_all_rabbits (s : GameState) (b : Board) :
    Gen.Fn.lost_all_rabbits s.p1Turn b = s.lostAllRabbits b := by
  first
    | rfl
    | (simp only [Gen.Fn.lost_all_rabbits, lostAllRabbits] <;> first | rfl | ac_rfl)
    | bitwise_agree

end Arimaa
