import Arimaa.Gen.BitFns
import Arimaa.Impl.Engine

/-!
Agreement of the hand-written model with the expression-by-expression translation of the
straight-line bit helpers of engine.rs (`Gen/BitFns.lean`, regenerated from the source on every
run).  The refinement proofs are about the hand-written functions; these theorems tie those
functions to what the code says now: a changed mask, shift, operator or operand in one of the
seventeen helpers breaks the corresponding theorem here.
-/
namespace Arimaa
open Gen GameState

theorem agree_influenced_squares (x : BB) : Gen.Fn.influenced_squares x = influencedSquares x := rfl
theorem agree_supported_pieces (x : BB) : Gen.Fn.supported_pieces x = supportedPieces x := rfl
theorem agree_both_player_supported_pieces (b : Board) :
    Gen.Fn.both_player_supported_pieces b = bothPlayerSupportedPieces b := rfl
theorem agree_both_player_unsupported_piece_bits (b : Board) :
    Gen.Fn.both_player_unsupported_piece_bits b = bothPlayerUnsupportedPieceBits b := rfl
theorem agree_animal_is_on_trap (b : Board) : Gen.Fn.animal_is_on_trap b = animalIsOnTrap b := rfl
theorem agree_can_move_in_direction (d : Dir) (b : Board) :
    Gen.Fn.can_move_in_direction d b = canMoveInDirection d b := rfl
theorem agree_shift_piece_in_direction (x src : BB) (d : Dir) :
    Gen.Fn.shift_piece_in_direction x src d = shiftPieceInDirection x src d := rfl
theorem agree_player_piece_mask (b : Board) (g : Bool) : Gen.Fn.player_piece_mask b g = b.playerPieceMask g := rfl
theorem agree_trapped_piece_bits (b : Board) : Gen.Fn.trapped_piece_bits b = b.trappedPieceBits := rfl
theorem agree_curr_player_piece_mask (s : GameState) (b : Board) :
    Gen.Fn.curr_player_piece_mask s.p1Turn b = s.currPlayerPieceMask b := rfl
theorem agree_opponent_piece_mask (s : GameState) (b : Board) :
    Gen.Fn.opponent_piece_mask s.p1Turn b = s.opponentPieceMask b := rfl
theorem agree_threatened_pieces (g : Bool) (pred prey : BB) (b : Board) :
    Gen.Fn.threatened_pieces g pred prey b = threatenedPieces pred prey b := rfl
theorem agree_curr_player_non_frozen_pieces (s : GameState) (b : Board) :
    Gen.Fn.curr_player_non_frozen_pieces s.p1Turn b = s.currPlayerNonFrozenPieces b := rfl
theorem agree_is_their_piece (s : GameState) (bit : BB) (b : Board) :
    Gen.Fn.is_their_piece s.p1Turn bit b = s.isTheirPiece bit b := rfl
theorem agree_invalid_rabbit_moves (s : GameState) (d : Dir) (b : Board) :
    Gen.Fn.invalid_rabbit_moves s.p1Turn d b = s.invalidRabbitMoves d b := by
  unfold Gen.Fn.invalid_rabbit_moves invalidRabbitMoves backwardDirP1 backwardDirP2
  cases s.p1Turn <;> cases d <;> rfl
theorem agree_rabbit_at_goal (s : GameState) (b : Board) :
    Gen.Fn.rabbit_at_goal s.p1Turn b = s.rabbitAtGoal b := rfl
theorem agree_lost_all_rabbits (s : GameState) (b : Board) :
    Gen.Fn.lost_all_rabbits s.p1Turn b = s.lostAllRabbits b := rfl

end Arimaa
