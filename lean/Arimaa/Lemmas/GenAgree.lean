import Arimaa.Gen.BitFns
import Arimaa.Impl.Engine

/-!
Agreement of the hand-written model with the expression-by-expression translation of the
straight-line bit helpers of engine.rs (`Gen/BitFns.lean`, regenerated from the source on every
run).  The refinement proofs are about the hand-written functions; the agreement theorems
(`Lemmas/GenAgreeFrozen`, `GenAgreeMove`, `GenAgreeCapture`, `GenAgreeResult`: one file per family, imported
by the lemma file about that family, so that a property's proof closure contains exactly the agreements its
model functions rest on) tie those functions to what the code says now: a changed mask, shift, operator or
operand in one of the seventeen helpers breaks the corresponding theorem.  This file holds the shared tactic.
-/
namespace Arimaa
open Gen GameState

/- Each agreement is tried by `rfl` first; if the source was rewritten up to associativity /
   commutativity of the bit operators the fallback unfolds both sides (callees through their own
   agreement theorems) and closes the goal with `ac_rfl`; if the rewrite went beyond that (for
   instance `x & a | x & b` became `x & (a | b)`), the last alternative compares the two sides bit
   by bit: the bitwise operators are pushed to the bits and the remaining propositional identity in
   the bits of the shifted operands is closed by `grind`. -/

set_option linter.unusedSimpArgs false

/-- bit-by-bit comparison of two bitboard expressions built from `&&&`, `|||`, `^^^`, `~~~`
(all bitboard-valued helpers, generated and hand-written, are unfolded first: a rewritten helper may
call other helpers than before) -/
macro "bitwise_agree" : tactic =>
  `(tactic| (simp only [Gen.Fn.influenced_squares, Gen.Fn.supported_pieces, Gen.Fn.both_player_supported_pieces,
               Gen.Fn.both_player_unsupported_piece_bits, Gen.Fn.can_move_in_direction, Gen.Fn.shift_piece_in_direction,
               Gen.Fn.player_piece_mask, Gen.Fn.trapped_piece_bits, Gen.Fn.curr_player_piece_mask,
               Gen.Fn.opponent_piece_mask, Gen.Fn.threatened_pieces, Gen.Fn.curr_player_non_frozen_pieces,
               influencedSquares, supportedPieces, bothPlayerSupportedPieces, bothPlayerUnsupportedPieceBits,
               canMoveInDirection, shiftPieceInDirection, Board.playerPieceMask, Board.trappedPieceBits,
               currPlayerPieceMask, opponentPieceMask, threatenedPieces, currPlayerNonFrozenPieces]
             apply BitVec.eq_of_getLsbD_eq; intro i hi
             simp only [BitVec.getLsbD_and, BitVec.getLsbD_or, BitVec.getLsbD_xor, BitVec.getLsbD_not]
             grind))

end Arimaa
