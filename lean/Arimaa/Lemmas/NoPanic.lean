import Arimaa.Impl.Panics
import Arimaa.Lemmas.Reach
import Arimaa.Lemmas.ZobristTables
import Arimaa.Props.C10
import Arimaa.Props.C12

/-!
C19 — the panic guards of `Impl/Panics.lean` are false on reachable states.

Part A: the primitive sites (table dimensions, shifts).  Part B: the private helpers.  Part C: the
invariant bundle `PanicInv` (play invariant + hashable status) and its preservation.  Part D: the
public queries.  Part E: the setup phase.  Part F: reachability.
-/
namespace Arimaa
open Gen Spec GameState

/-! ## A. primitive sites -/

theorem sqBitPanics_false {sq : Nat} (h : sq < 64) : sqBitPanics sq = false := by
  simp only [sqBitPanics, decide_eq_false_iff_not]; omega

theorem sqBitPanics_true {sq : Nat} (h : 64 ≤ sq) : sqBitPanics sq = true := by
  simp only [sqBitPanics, decide_eq_true_eq]; omega

theorem stepValuePanics_false {n : Nat} (h : n ≤ 3) : stepValuePanics n = false := by
  simp only [stepValuePanics, stepValues_length, decide_eq_false_iff_not]; omega

theorem stepValuePanics_true {n : Nat} (h : 4 ≤ n) : stepValuePanics n = true := by
  simp only [stepValuePanics, stepValues_length, decide_eq_true_eq]; omega

theorem tbl2Panics_false (t : List (List BB)) (i j : Nat) (hi : i < t.length)
    (hj : j < (t.getD i []).length) : tbl2Panics t i j = false := by
  simp only [tbl2Panics, Bool.or_eq_false_iff, decide_eq_false_iff_not]; omega

/-- dimensions of the three generated square tables: 12 × 64, 5 × 64, 5 × 64 -/
theorem table_dims :
    (Z_SQUARE_VALUES.length = 12 ∧ ∀ i : Fin 12, (Z_SQUARE_VALUES.getD i.1 []).length = 64) ∧
    (Z_PUSH_VALUES.length = 5 ∧ ∀ i : Fin 5, (Z_PUSH_VALUES.getD i.1 []).length = 64) ∧
    (Z_POSSIBLE_PULL_VALUES.length = 5 ∧ ∀ i : Fin 5, (Z_POSSIBLE_PULL_VALUES.getD i.1 []).length = 64) := by
  decide +kernel

theorem pieceValuePanics_false (sq : Nat) (p : Piece) (o : Bool) (h : sq < 64) :
    pieceValuePanics sq p o = false := by
  obtain ⟨⟨hl, hr⟩, _⟩ := table_dims
  have key : ∀ k, k < 12 → tbl2Panics Z_SQUARE_VALUES k sq = false := by
    intro k hk
    apply tbl2Panics_false _ _ _ (by omega)
    rw [hr ⟨k, hk⟩]; exact h
  cases p <;> cases o <;>
    simp only [pieceValuePanics, pieceValueIdx, pieceValueP1Offset, pieceValueP2Offset] <;>
    exact key _ (by decide)

theorem pieceValuePanics_true (sq : Nat) (p : Piece) (o : Bool) (h : 64 ≤ sq) :
    pieceValuePanics sq p o = true := by
  obtain ⟨⟨hl, hr⟩, _⟩ := table_dims
  have key : ∀ k, k < 12 → tbl2Panics Z_SQUARE_VALUES k sq = true := by
    intro k hk
    simp only [tbl2Panics, Bool.or_eq_true, decide_eq_true_eq]
    right; rw [hr ⟨k, hk⟩]; exact h
  cases p <;> cases o <;>
    simp only [pieceValuePanics, pieceValueIdx, pieceValueP1Offset, pieceValueP2Offset] <;>
    exact key _ (by decide)

theorem pushPieceValuePanics_false (sq : Nat) (p : Piece) (h : sq < 64) (hp : p ≠ .elephant) :
    pushPieceValuePanics sq p = false := by
  obtain ⟨_, ⟨hl, hr⟩, _⟩ := table_dims
  have key : ∀ k, k < 5 → tbl2Panics Z_PUSH_VALUES k sq = false := by
    intro k hk
    apply tbl2Panics_false _ _ _ (by omega)
    rw [hr ⟨k, hk⟩]; exact h
  cases p <;> first | (exfalso; exact hp rfl) | (simp only [pushPieceValuePanics, pushValueIdx]; exact key _ (by decide))

theorem pullPieceValuePanics_false (sq : Nat) (p : Piece) (h : sq < 64) (hp : p ≠ .rabbit) :
    pullPieceValuePanics sq p = false := by
  obtain ⟨_, _, ⟨hl, hr⟩⟩ := table_dims
  have key : ∀ k, k < 5 → tbl2Panics Z_POSSIBLE_PULL_VALUES k sq = false := by
    intro k hk
    apply tbl2Panics_false _ _ _ (by omega)
    rw [hr ⟨k, hk⟩]; exact h
  cases p <;> first | (exfalso; exact hp rfl) | (simp only [pullPieceValuePanics, pullValueIdx]; exact key _ (by decide))

/-- the loops over `map_bit_board_to_squares` never index outside the table: on every board -/
theorem xorOverPanics_false (x : BB) (p : Piece) (o : Bool) : xorOverPanics x p o = false := by
  unfold xorOverPanics
  rw [List.any_eq_false]
  intro sq hsq
  rw [pieceValuePanics_false sq p o ((mem_squaresOf x sq).mp hsq).1]
  simp

theorem pieceBoardValuePanics_false (prev new : Board) : pieceBoardValuePanics prev new = false := by
  unfold pieceBoardValuePanics
  rw [List.any_eq_false]
  intro op _
  rw [xorOverPanics_false]; simp

theorem zFromPieceBoardPanics_eq (b : Board) (step : Nat) :
    zFromPieceBoardPanics b step = stepValuePanics step := by
  unfold zFromPieceBoardPanics
  have : (planes.any fun op => xorOverPanics (b.bitsForPiece op.2 op.1) op.2 op.1) = false := by
    rw [List.any_eq_false]; intro op _; rw [xorOverPanics_false]; simp
  rw [this, Bool.or_false]

theorem zMovePiecePanics_false (pb : Board) (ps : Nat) (nb : Board) (ns : Nat) (h1 : ps ≤ 3) (h2 : ns ≤ 3) :
    zMovePiecePanics pb ps nb ns = false := by
  simp [zMovePiecePanics, pieceBoardValuePanics_false, stepValue2Panics, stepValuePanics_false h1,
    stepValuePanics_false h2]

theorem zPassPanics_false {n : Nat} (h : n ≤ 3) : zPassPanics n = false := by
  simp [zPassPanics, stepValuePanics_false h, stepValuePanics_false (Nat.zero_le 3)]

theorem zExcludeStepPanics_false {n : Nat} (h : n ≤ 3) : zExcludeStepPanics n = false := by
  simp [zExcludeStepPanics, stepValuePanics_false h, stepValuePanics_false (Nat.zero_le 3)]

/-! ## B. private helpers -/

theorem isPassingLikeActionPanics_false (s : GameState) (pp : PlayPhase) (a : Action) (hs : pp.step ≤ 3)
    (ha : ∀ i d, a = .move i d → i < 64) : s.isPassingLikeActionPanics pp a = false := by
  cases a with
  | move i d =>
    simp [isPassingLikeActionPanics, Board.takeActionPanics, Board.movePiecePanics,
      sqBitPanics_false (ha i d rfl), zMovePiecePanics_false _ _ _ _ hs (Nat.zero_le 3)]
  | pass => rfl
  | place p => rfl

theorem removePassingLikeActionsPanics_false (s : GameState) (pp : PlayPhase) (va : List Action)
    (hs : pp.step ≤ 3) (hva : ∀ a ∈ va, ∀ i d, a = .move i d → i < 64) :
    s.removePassingLikeActionsPanics pp va = false := by
  unfold removePassingLikeActionsPanics
  have : va.any (fun a => s.isPassingLikeActionPanics pp a) = false := by
    rw [List.any_eq_false]
    intro a ha
    simp [isPassingLikeActionPanics_false s pp a hs (hva a ha)]
  rw [this]; simp

theorem hnplLoopPanics_false (s : GameState) (pp : PlayPhase) (va : List Action)
    (hs : pp.step ≤ 3) (hva : ∀ a ∈ va, ∀ i d, a = .move i d → i < 64) :
    s.hnplLoopPanics pp va = false := by
  induction va with
  | nil => rfl
  | cons a rest ih =>
    simp only [hnplLoopPanics]
    rw [isPassingLikeActionPanics_false s pp a hs (hva a (List.mem_cons_self ..)),
      ih (fun b hb => hva b (List.mem_cons_of_mem _ hb))]
    simp

theorem hasNonPassingLikeActionPanics_false (s : GameState) (pp : PlayPhase) (va : List Action)
    (hs : pp.step ≤ 3) (hva : ∀ a ∈ va, ∀ i d, a = .move i d → i < 64) :
    s.hasNonPassingLikeActionPanics pp va = false := by
  unfold hasNonPassingLikeActionPanics
  rw [hnplLoopPanics_false s pp va hs hva]
  split <;> (try split) <;> rfl

/-! ### every generated step names an on-board square -/

theorem sq_lt_of_mem_mcp (s : GameState) (pp : PlayPhase) (h : PlayInv s pp) :
    ∀ a ∈ s.mustCompletePushActions pp s.board, ∀ i d, a = .move i d → i < 64 := by
  intro a ha i d e; subst e
  exact ((mcp_iff s pp s.board h.wf h.pend i d).mp ha).1

theorem sq_lt_of_mem_ownMoves (s : GameState) (pp : PlayPhase) (h : PlayInv s pp) :
    ∀ a ∈ s.ownMoves s.board, ∀ i d, a = .move i d → i < 64 := by
  intro a ha i d e; subst e
  exact ((ownMoves_iff s s.board h.wf i d).mp ha).1

theorem sq_lt_of_mem_pushActions (s : GameState) (pp : PlayPhase) (h : PlayInv s pp) :
    ∀ a ∈ s.pushActions pp s.board, ∀ i d, a = .move i d → i < 64 := by
  intro a ha i d e; subst e
  exact ((pushActions_iff s pp s.board h.wf i d).mp ha).1

theorem sq_lt_of_mem_pullExtend (s : GameState) (pp : PlayPhase) (h : PlayInv s pp) :
    ∀ a ∈ s.pullExtend pp s.board [], ∀ i d, a = .move i d → i < 64 := by
  intro a ha i d e; subst e
  exact ((pullExtend_iff s pp s.board h.wf h.pend i d).mp ha).1

theorem sq_lt_of_mem_rawActions (s : GameState) (pp : PlayPhase) (h : PlayInv s pp) (r : Bool) :
    ∀ a ∈ s.rawActions pp r, ∀ i d, a = .move i d → i < 64 := by
  intro a ha i d e
  unfold rawActions at ha
  split at ha
  · exact sq_lt_of_mem_mcp s pp h a ha i d e
  · have hstep : a ∈ s.pullExtend pp s.board (s.pushActions pp s.board) ++ s.ownMoves s.board ∨ a = .pass := by
      simp only at ha
      split at ha
      · rw [List.mem_append, List.mem_singleton] at ha; exact ha
      · exact Or.inl ha
    rcases hstep with hm | hp
    · rw [List.mem_append, mem_pullExtend] at hm
      rcases hm with (hm | hm) | hm
      · exact sq_lt_of_mem_pushActions s pp h a hm i d e
      · exact sq_lt_of_mem_pullExtend s pp h a hm i d e
      · exact sq_lt_of_mem_ownMoves s pp h a hm i d e
    · rw [hp] at e; cases e

/-- `rawActions` (the list the guards of the repetition filter range over) is the list the model
filters -/
theorem validActions__eq_raw (s : GameState) (pp : PlayPhase) (hph : s.phase = .play pp) (r : Bool) :
    s.validActions_ r =
      if r then s.removePassingLikeActions pp (s.rawActions pp r) else s.rawActions pp r := by
  simp only [validActions_, hph, rawActions]

/-! ## C. the invariant bundle -/

/-- the status can be hashed: no pulling rabbit, no pushed elephant (the two `panic!` arms of
`zobrist.rs`) -/
def StatusHashable : PPS → Prop
  | .none => True
  | .possiblePull _ x => x ≠ .rabbit
  | .mustCompletePush _ v => v ≠ .elephant

/-- what C19 needs of a reachable play-phase state: the play invariant (well-formed board, the
status names an on-board empty square, `step ≤ 3`) and a hashable status -/
structure PanicInv (s : GameState) (pp : PlayPhase) : Prop where
  play : PlayInv s pp
  hashable : StatusHashable pp.pps

theorem statusHashable_next (s : GameState) (pp : PlayPhase) (h : PlayInv s pp) (i : Nat) (d : Dir)
    (ha : Action.move i d ∈ s.validActionsNoRep) : StatusHashable (s.nextPushPullState pp i d) := by
  obtain ⟨h1, h2⟩ := C12_status_hashable s pp h i d ha
  cases hn : s.nextPushPullState pp i d with
  | none => trivial
  | possiblePull q x => exact h1 q x hn
  | mustCompletePush q v => exact h2 q v hn

/-- **the bundle is preserved by every action of the rule-only list** -/
theorem panicInv_step (s : GameState) (pp : PlayPhase) (h : PanicInv s pp) (a : Action)
    (ha : a ∈ s.validActionsNoRep) : ∃ pp', PanicInv (s.takeAction a) pp' := by
  obtain ⟨pp', h'⟩ := playInv_step s pp h.play a ha
  refine ⟨pp', h', ?_⟩
  have hph := h'.phase
  cases a with
  | place p => exact (validActions_play_notPlace s pp h.play.phase false _ ha).elim
  | pass =>
    simp only [takeAction] at hph
    rw [GameState.pass_play s pp h.play.phase] at hph
    injection hph with hph
    rw [← hph]; trivial
  | move i d =>
    simp only [takeAction] at hph
    by_cases hlt : pp.step < 3
    · rw [GameState.movePiece_lt3 s pp i d h.play.phase hlt] at hph
      injection hph with hph
      rw [← hph]
      exact statusHashable_next s pp h.play i d ha
    · rw [GameState.movePiece_ge3 s pp i d h.play.phase (by omega)] at hph
      injection hph with hph
      rw [← hph]; trivial

theorem panicInv_run (s : GameState) (pp : PlayPhase) (h : PanicInv s pp) (as : List Action)
    (ho : OfferedNR s as) : ∃ pp', PanicInv (s.run as) pp' := by
  induction as generalizing s pp with
  | nil => exact ⟨pp, h⟩
  | cons a as ih =>
    obtain ⟨pp1, h1⟩ := panicInv_step s pp h a ho.1
    exact ih _ pp1 h1 ho.2

/-- the state after the 32nd offered placement -/
theorem panicInv_of_setup {ps : List Piece} {s : GameState} (hr : SetupRun ps s) (h32 : ps.length = 32) :
    ∃ pp, PanicInv s pp := by
  obtain ⟨pp, hpi, _⟩ := playInv_of_setup hr h32
  obtain ⟨_, _, ⟨pp2, hph, _, hpps, _, _⟩, _, _⟩ := C09_reachable_play hr h32
  have : pp = pp2 := by have := hpi.phase; rw [hph] at this; injection this with this; exact this.symm
  subst this
  exact ⟨pp, hpi, by rw [hpps]; trivial⟩

/-- a parsed position -/
theorem panicInv_parsed (t : List Char) (s : GameState) (h : parseState t = .ok s) :
    ∃ pp, PanicInv s pp := by
  obtain ⟨pp, hpi, hstep⟩ := C10_playInv_parsed t s h
  refine ⟨pp, hpi, ?_⟩
  have ht := turnInv_parseState t s h
  unfold TurnInv at ht
  rw [hpi.phase] at ht
  rw [(ht.2 hstep).1]; trivial

/-! ## D. the public queries in the play phase -/

theorem canPassPanics_false (s : GameState) (pp : PlayPhase) (h : PlayInv s pp) (r : Bool) :
    s.canPassPanics r = false := by
  simp [canPassPanics, h.phase, zExcludeStepPanics_false h.step_le, zPassPanics_false h.step_le]

theorem mustCompletePushActionsPanics_false (pp : PlayPhase) (b : Board) (hp : PendOk b pp.pps)
    (hm : pp.pps.isMustCompletePush = true) : mustCompletePushActionsPanics pp = false := by
  unfold mustCompletePushActionsPanics
  cases hpps : pp.pps with
  | mustCompletePush q v => rw [hpps] at hp; exact sqBitPanics_false hp.1
  | none => rw [hpps] at hm; cases hm
  | possiblePull q x => rw [hpps] at hm; cases hm

theorem pullExtendPanics_false (pp : PlayPhase) (b : Board) (hp : PendOk b pp.pps) :
    pullExtendPanics pp = false := by
  unfold pullExtendPanics
  cases hpps : pp.pps with
  | possiblePull q x => rw [hpps] at hp; exact sqBitPanics_false hp.1
  | none => rfl
  | mustCompletePush q v => rfl

theorem moveCanBeCountedAsPullPanics_false (pp : PlayPhase) (b : Board) (hp : PendOk b pp.pps) :
    moveCanBeCountedAsPullPanics pp = false := by
  unfold moveCanBeCountedAsPullPanics
  cases hpps : pp.pps with
  | possiblePull q x => rw [hpps] at hp; exact sqBitPanics_false hp.1
  | none => rfl
  | mustCompletePush q v => rfl

/-- `valid_actions` / `valid_actions_no_rep` -/
theorem validActions_Panics_false (s : GameState) (pp : PlayPhase) (h : PlayInv s pp) (r : Bool) :
    s.validActions_Panics r = false := by
  unfold validActions_Panics
  rw [h.phase]
  simp only
  rw [removePassingLikeActionsPanics_false s pp _ h.step_le (sq_lt_of_mem_rawActions s pp h r)]
  cases hm : pp.pps.isMustCompletePush
  · simp [pullExtendPanics_false pp _ h.pend, canPassPanics_false s pp h r]
  · simp [mustCompletePushActionsPanics_false pp _ h.pend hm]

/-- `has_move` on the state's own board -/
theorem hasMovePanics_false (s : GameState) (pp : PlayPhase) (h : PlayInv s pp) :
    s.hasMovePanics s.board = false := by
  unfold hasMovePanics
  rw [h.phase]
  simp only
  rw [hasNonPassingLikeActionPanics_false s pp _ h.step_le (sq_lt_of_mem_mcp s pp h),
    hasNonPassingLikeActionPanics_false s pp _ h.step_le (sq_lt_of_mem_ownMoves s pp h),
    hasNonPassingLikeActionPanics_false s pp _ h.step_le (sq_lt_of_mem_pullExtend s pp h),
    hasNonPassingLikeActionPanics_false s pp _ h.step_le (sq_lt_of_mem_pushActions s pp h),
    canPassPanics_false s pp h true, pullExtendPanics_false pp _ h.pend]
  cases hm : pp.pps.isMustCompletePush
  · simp
  · simp [mustCompletePushActionsPanics_false pp _ h.pend hm]

/-- `is_terminal` -/
theorem isTerminalPanics_false (s : GameState) (pp : PlayPhase) (h : PlayInv s pp) :
    s.isTerminalPanics = false := by
  unfold isTerminalPanics
  rw [h.phase]
  simp only [hasMovePanics_false s pp h]
  split <;> (try split) <;> rfl

/-- `transposition_hash` -/
theorem transpositionHashPanics_false (s : GameState) (pp : PlayPhase) (h : PanicInv s pp) :
    s.transpositionHashPanics = false := by
  unfold transpositionHashPanics
  rw [h.play.phase]
  simp only
  have hp := h.play.pend
  have hh := h.hashable
  cases hpps : pp.pps with
  | none => rfl
  | possiblePull q x =>
    rw [hpps] at hp hh
    exact pullPieceValuePanics_false q x hp.1 hh
  | mustCompletePush q v =>
    rw [hpps] at hp hh
    exact pushPieceValuePanics_false q v hp.1 hh

/-- `Display for GameState` never panics, on any state -/
theorem showStatePanics_false (s : GameState) : s.showStatePanics = false := by
  unfold showStatePanics
  rw [List.any_eq_false]
  intro idx hidx
  have h64 : BOARD_HEIGHT * BOARD_WIDTH = 64 := by decide
  rw [h64, List.mem_range] at hidx
  simp [Board.pieceTypeAtSquarePanics, sqBitPanics_false hidx]

/-- `current_step` / `piece_board_for_step i` for `i ≤ step` -/
theorem stepPanics_false (s : GameState) (pp : PlayPhase) (hph : s.phase = .play pp) :
    s.stepPanics = false := by
  simp [stepPanics, unwrapPlayPhasePanics, isPlay, playPhase?, hph]

theorem pieceBoardForStepPanics_false (s : GameState) (pp : PlayPhase) (hph : s.phase = .play pp)
    (i : Nat) (hi : i ≤ pp.step) : s.pieceBoardForStepPanics i = false := by
  unfold pieceBoardForStepPanics
  rw [hph]
  simp only [PlayPhase.step] at hi ⊢
  by_cases e : i = pp.prev.length
  · simp [e]
  · have : ¬ (i ≥ pp.prev.length) := by omega
    simp [this]

theorem pieceBoardForStepPanics_true (s : GameState) (pp : PlayPhase) (hph : s.phase = .play pp)
    (i : Nat) (hi : pp.step < i) : s.pieceBoardForStepPanics i = true := by
  unfold pieceBoardForStepPanics
  rw [hph]
  simp only [PlayPhase.step] at hi ⊢
  have h1 : i ≠ pp.prev.length := by omega
  have h2 : i ≥ pp.prev.length := by omega
  simp [h1, h2]

/-- `trapped_animal_for_action`: on EVERY state the only reachable site is the shift of the source
square; the `unwrap` cannot fail because a trapped bit is a bit of `all_pieces` -/
theorem trappedAnimalForActionPanics_eq (s : GameState) (a : Action) :
    s.trappedAnimalForActionPanics a = (match a with | .move sq _ => sqBitPanics sq | _ => false) := by
  cases a with
  | pass => rfl
  | place p => rfl
  | move sq d =>
    simp only [trappedAnimalForActionPanics, Board.movePiecePanics, Board.pieceTypeAtSquarePanics]
    generalize s.board.movePiece sq d = b
    by_cases ht : b.trappedPieceBits = 0
    · simp [ht]
    · obtain ⟨hk, hb, _⟩ := tz64_spec _ ht
      have hsq : sqOfBit b.trappedPieceBits = tz64 b.trappedPieceBits := by
        unfold sqOfBit; rw [if_neg ht]
      rw [hsq]
      have hall : bit b.all (tz64 b.trappedPieceBits) = true := by
        rw [trapped_bit b _ hk] at hb
        simp only [Bool.and_eq_true] at hb
        exact hb.1.1
      have hsome : (b.pieceTypeAtSquare (tz64 b.trappedPieceBits)).isNone = false := by
        unfold Board.pieceTypeAtSquare
        rw [sqBit_and_ne_zero _ _ hk, hall]
        rfl
      rw [sqBitPanics_false hk, hsome]
      simp

theorem usizeMax_eq : usizeMax = 18446744073709551615 := by decide

/-- `pass` -/
theorem passPanics_false (s : GameState) (pp : PlayPhase) (h : PlayInv s pp) (hm : s.moveNo < usizeMax) :
    s.passPanics = false := by
  unfold passPanics
  rw [h.phase]
  simp only [zPassPanics_false h.step_le, usizeAddPanics, Bool.false_or, decide_eq_false_iff_not]
  split <;> omega

/-- a step from an on-board square -/
theorem movePiecePanics_false (s : GameState) (pp : PlayPhase) (h : PlayInv s pp) (i : Nat) (d : Dir)
    (hi : i < 64) (hm : s.moveNo < usizeMax) : s.movePiecePanics i d = false := by
  unfold movePiecePanics
  rw [h.phase]
  have hs := h.step_le
  have hu := usizeMax_eq
  have hadd1 : usizeAddPanics pp.step 1 = false := by
    simp only [usizeAddPanics, decide_eq_false_iff_not]; omega
  have haddm : ∀ c : Bool, usizeAddPanics s.moveNo (if c then 1 else 0) = false := by
    intro c; simp only [usizeAddPanics, decide_eq_false_iff_not]; cases c <;> simp <;> omega
  have hnext : s.nextPushPullStatePanics pp i = false := by
    simp [nextPushPullStatePanics, sqBitPanics_false hi, moveCanBeCountedAsPullPanics_false pp _ h.pend]
  have hz : ∀ n, n ≤ 3 → zMovePiecePanics s.board pp.step (s.board.takeMove i d).1 n = false :=
    fun n hn => zMovePiecePanics_false _ _ _ _ hs hn
  simp only [Board.takeActionPanics, Board.movePiecePanics, sqBitPanics_false hi, hadd1, haddm, hnext,
    Bool.and_false, Bool.false_or, Bool.or_false]
  apply hz
  by_cases h3 : pp.step ≥ 3
  · simp [h3]
  · simp only [h3, decide_false, Bool.false_eq_true, if_false]; omega

/-! ## E. the setup phase -/

/-- an offered (indeed any) placement at a setup state: `placement_bit` finds a free square, so
`first_set_bit` does not shift by 64, and the square it names is on the board -/
theorem placePanics_false_setup {k : Nat} {s : GameState} (h : SetupShape k s) (p : Piece) :
    s.placePanics p = false := by
  obtain ⟨hpb, hsq, hq, _, _⟩ := C09_placement_bit h
  have key : ∀ x : BB, firstSetBit x = sqBit (placementSquare k) → firstSetBitPanics x = false := by
    intro x hx
    unfold firstSetBitPanics
    cases h0 : (x == 0) with
    | false => rfl
    | true =>
      exfalso
      have := eq_of_beq h0
      subst this
      exact setup_sqBit_ne_zero _ hq (by rw [← hx]; decide)
  have h1 : s.board.placementBitPanics = false := key _ hpb
  unfold placePanics
  rw [h1, hsq]
  simp [zPlacePiecePanics, pieceValuePanics_false _ p s.p1Turn hq, stepValuePanics_false (Nat.zero_le 3)]

theorem place_queries_no_panic (s : GameState) (hph : s.phase = .place) :
    s.validActions_Panics true = false ∧ s.validActions_Panics false = false ∧ s.isTerminalPanics = false ∧
    (∀ b, s.hasMovePanics b = false) ∧ (∀ r, s.canPassPanics r = false) ∧
    s.transpositionHashPanics = false := by
  simp [validActions_Panics, isTerminalPanics, hasMovePanics, canPassPanics, transpositionHashPanics, hph]

theorem place_step_queries_panic (s : GameState) (hph : s.phase = .place) :
    s.stepPanics = true ∧ ∀ i, s.pieceBoardForStepPanics i = true := by
  simp [stepPanics, unwrapPlayPhasePanics, isPlay, playPhase?, pieceBoardForStepPanics, hph]

/-! ## F. reachability -/

namespace NoPanic

/-- **Reachable states**: the closure of `GameState::initial()` and of every parsed position under
the actions of the rule-only list `valid_actions_no_rep()` (a superset of the offered list
`valid_actions()`, so this closure contains every state reachable by offered actions). -/
inductive Reach : GameState → Prop
  | initial : Reach GameState.initial
  | parsed (t : List Char) (s : GameState) : parseState t = .ok s → Reach s
  | step {s : GameState} {a : Action} : Reach s → a ∈ s.validActionsNoRep → Reach (s.takeAction a)

/-- closure under offered actions is contained in it -/
theorem Reach.step_offered {s : GameState} {a : Action} (h : Reach s) (ha : a ∈ s.validActions) :
    Reach (s.takeAction a) := h.step (mem_validActions_noRep s a ha)

/-- a reachable state is a setup state after fewer than 32 offered placements, or a play-phase state
with the invariant bundle -/
theorem reach_cases {s : GameState} (h : Reach s) :
    (∃ ps, SetupRun ps s ∧ ps.length < 32) ∨ (∃ pp, PanicInv s pp) := by
  induction h with
  | initial => exact Or.inl ⟨[], SetupRun.init, by decide⟩
  | parsed t s hp => exact Or.inr (panicInv_parsed t s hp)
  | @step s a _ ha ih =>
    rcases ih with ⟨ps, hr, hlt⟩ | ⟨pp, hpi⟩
    · have hph := (setupRun_shape hr hlt).1.phase
      unfold validActionsNoRep at ha
      rw [validActions__place s hph] at ha
      obtain ⟨p, hp⟩ := isMove_of_mem_validPlacement_false s a ha
      subst hp
      have hv : Action.place p ∈ s.validActions := by
        unfold validActions; rw [validActions__place s hph]; exact ha
      have hr' := SetupRun.step hr hv
      by_cases h32 : (ps ++ [p]).length < 32
      · exact Or.inl ⟨_, hr', h32⟩
      · have hle := setupRun_length_le hr'
        exact Or.inr (panicInv_of_setup hr' (by omega))
    · exact Or.inr (panicInv_step s pp hpi a ha)

end NoPanic

end Arimaa
