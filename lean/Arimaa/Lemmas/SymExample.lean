import Arimaa.Lemmas.SymTransfer

/-!
A concrete position, a short game from it, and model states for the position and its three images:
the witnesses used by the non-vacuity examples of `Props/C11.lean`.
-/
namespace Arimaa
open Spec

/-- Gold: rabbit a7, elephant d5, horse c3 (on a trap, held by the cat), cat c2.
Silver: rabbit c5 (frozen by the elephant), rabbit h2. -/
def exBoardSym : Spec.Board := fun k =>
  if k = 8 then some ⟨true, .rabbit⟩
  else if k = 26 then some ⟨false, .rabbit⟩
  else if k = 27 then some ⟨true, .elephant⟩
  else if k = 42 then some ⟨true, .horse⟩
  else if k = 50 then some ⟨true, .cat⟩
  else if k = 55 then some ⟨false, .rabbit⟩
  else none

/-- a turn of four steps: push c5 west with the elephant, cat c2 west (losing the horse), rabbit
to a8; then Silver's rabbit h2 steps to h1 -/
def exGame : List Act := [.move 26 .w, .move 27 .w, .move 50 .w, .move 8 .n, .move 55 .s]

/-! model states realising the hypotheses of the transfer theorems: the position above and its
three images as bitboards (fields: p1, all, elephants, camels, horses, dogs, cats, rabbits) -/

def exModelBoard : Board :=
  ⟨0x4040008000100#64, 0x8404000c000100#64, 0x8000000#64, 0#64, 0x40000000000#64, 0#64,
    0x4000000000000#64, 0x80000004000100#64⟩

def exModelImage : Sym → Board
  | .mirror => ⟨0x20200010008000#64, 0x21200030008000#64, 0x10000000#64, 0#64, 0x200000000000#64, 0#64,
      0x20000000000000#64, 0x1000020008000#64⟩
  | .swap => ⟨0x400008000#64, 0x1000c00048400#64, 0x800000000#64, 0#64, 0x40000#64, 0#64, 0x400#64,
      0x1000400008000#64⟩
  | .both => ⟨0x2000000100#64, 0x80003000202100#64, 0x1000000000#64, 0#64, 0x200000#64, 0#64, 0x2000#64,
      0x80002000000100#64⟩

def exModelState (b : Board) (gold : Bool) : GameState :=
  { p1Turn := gold, moveNo := 1, phase := .play (PlayPhase.initial 0 []), board := b, hash := 0 }

theorem exModel_wf (b : Board)
    (h : ∀ i : Fin 64,
      ((bit b.elephants i).toNat + (bit b.camels i).toNat + (bit b.horses i).toNat +
        (bit b.dogs i).toNat + (bit b.cats i).toNat + (bit b.rabbits i).toNat ≤ 1) ∧
      (bit b.all i = (bit b.elephants i || bit b.camels i || bit b.horses i || bit b.dogs i ||
        bit b.cats i || bit b.rabbits i)) ∧ (bit b.p1 i = true → bit b.all i = true)) : WF b :=
  ⟨fun i hi => (h ⟨i, hi⟩).1, fun i hi => (h ⟨i, hi⟩).2.1, fun i hi => (h ⟨i, hi⟩).2.2⟩

theorem exModel_playInv (b : Board) (g : Bool) (hw : WF b) :
    PlayInv (exModelState b g) (PlayPhase.initial 0 []) :=
  ⟨rfl, hw, trivial, by decide⟩

theorem exModel_abs : absBoard exModelBoard = exBoardSym := by
  funext k
  by_cases hk : k < 64
  · have : ∀ j : Fin 64, absBoard exModelBoard j = exBoardSym j := by decide +kernel
    exact this ⟨k, hk⟩
  · rw [absBoard_ge _ k (by omega)]
    have h1 : ¬ k = 8 := by omega
    have h2 : ¬ k = 26 := by omega
    have h3 : ¬ k = 27 := by omega
    have h4 : ¬ k = 42 := by omega
    have h5 : ¬ k = 50 := by omega
    have h6 : ¬ k = 55 := by omega
    simp only [exBoardSym, h1, h2, h3, h4, h5, h6, if_false]

/-- the hypotheses `PlayInv`, `PlayInv`, `SymRel` of `C11_impl_offered_all`, `C11_impl_step`,
`C11_impl_game`, `C11_impl_result` hold for the example position and each of its three images -/
theorem exModel_rel (σ : Sym) :
    PlayInv (exModelState exModelBoard true) (PlayPhase.initial 0 []) ∧
    PlayInv (exModelState (exModelImage σ) (σ.col true)) (PlayPhase.initial 0 []) ∧
    SymRel σ (exModelState exModelBoard true) (PlayPhase.initial 0 [])
      (exModelState (exModelImage σ) (σ.col true)) (PlayPhase.initial 0 []) := by
  refine ⟨exModel_playInv _ _ (exModel_wf _ (by decide +kernel)), exModel_playInv _ _ (exModel_wf _ ?_),
    ⟨?_, rfl, rfl, rfl⟩⟩
  · cases σ <;> decide +kernel
  · funext k
    by_cases hk : k < 64
    · have : ∀ j : Fin 64, absBoard (exModelState (exModelImage σ) (σ.col true)).board j =
          σ.board (absBoard (exModelState exModelBoard true).board) j := by
        cases σ <;> decide +kernel
      exact this ⟨k, hk⟩
    · rw [absBoard_ge _ k (by omega), σ.board_ge _ (fun k hk => absBoard_ge _ k hk) k (by omega)]

end Arimaa
