import Arimaa.Lemmas.HashDelta
import Arimaa.Impl.Text

/-!
The hash invariant behind C08: in the play phase the incrementally maintained `hash` equals
`Zobrist::from_piece_board(board, side, step)`.  Preservation by `move_piece` and `pass` is pure XOR
algebra (`Lemmas/Xor.lean`) and holds for every square, direction and board.
-/
namespace Arimaa
open Gen

/-- the invariant: a play-phase state carries the from-scratch hash of its board, side and step -/
def HashOk (s : GameState) : Prop :=
  match s.phase with
  | .play pp => s.hash = zFromPieceBoard s.board s.p1Turn pp.step
  | .place => True

theorem HashOk_play (s : GameState) (pp : PlayPhase) (hp : s.phase = .play pp) :
    HashOk s ↔ s.hash = zFromPieceBoard s.board s.p1Turn pp.step := by
  unfold HashOk; rw [hp]

/-! ### the Zobrist updates applied to a from-scratch value -/

/-- `Zobrist::move_piece` turns the from-scratch hash of the old position into the from-scratch hash
of the new one — whatever the two boards, sides and steps are -/
theorem zMovePiece_scratch (b nb : Board) (side newSide : Bool) (step newStep : Nat) :
    zMovePiece (zFromPieceBoard b side step) side b step nb newStep newSide =
      zFromPieceBoard nb newSide newStep := by
  unfold zMovePiece stepValue
  rw [pieceBoardValue_eq, zFromPieceBoard_eq, zFromPieceBoard_eq]
  generalize Z_INITIAL = i; generalize stepValueAt step = v; generalize stepValueAt newStep = v'
  generalize boardPart b = x; generalize boardPart nb = x'; generalize Z_PLAYER_TO_MOVE = m
  have key : ∀ t t' : BB, i ^^^ t ^^^ v ^^^ x ^^^ (t ^^^ t') ^^^ (x ^^^ x') ^^^ (v ^^^ v') =
      i ^^^ t' ^^^ v' ^^^ x' := by
    intro t t'
    have : i ^^^ t ^^^ v ^^^ x ^^^ (t ^^^ t') ^^^ (x ^^^ x') ^^^ (v ^^^ v') =
        (t ^^^ t) ^^^ (v ^^^ v) ^^^ (x ^^^ x) ^^^ (i ^^^ t' ^^^ v' ^^^ x') := by ac_rfl
    rw [this]; simp
  cases side <;> cases newSide
  · simpa using key m m
  · simpa using key m 0
  · simpa using key 0 m
  · simpa using key 0 0

/-- `Zobrist::pass` -/
theorem zPass_scratch (b : Board) (side : Bool) (step : Nat) :
    zPass (zFromPieceBoard b side step) step = zFromPieceBoard b (!side) 0 := by
  unfold zPass
  rw [zFromPieceBoard_eq, zFromPieceBoard_eq]
  generalize Z_INITIAL = i; generalize stepValueAt step = v; generalize stepValueAt 0 = v'
  generalize boardPart b = x; generalize Z_PLAYER_TO_MOVE = m
  have key : ∀ t t' : BB, t ^^^ m = t' → i ^^^ t ^^^ v ^^^ x ^^^ m ^^^ v' ^^^ v =
      i ^^^ t' ^^^ v' ^^^ x := by
    intro t t' h
    have : i ^^^ t ^^^ v ^^^ x ^^^ m ^^^ v' ^^^ v = (v ^^^ v) ^^^ (i ^^^ (t ^^^ m) ^^^ v' ^^^ x) := by
      ac_rfl
    rw [this, h]; simp
  cases side
  · simpa using key m 0 (by simp)
  · simpa using key 0 m (by simp)

/-! ### the engine's transitions -/

/-- the fields of the state after `move_piece` in the play phase -/
theorem movePiece_play (s : GameState) (pp : PlayPhase) (hp : s.phase = .play pp) (sq : Nat)
    (d : Dir) :
    let last := decide (pp.step ≥ 3)
    let nb := (s.board.takeMove sq d).1
    let newTurn := if last then !s.p1Turn else s.p1Turn
    let newStep := if last then 0 else pp.step + 1
    let nh := zMovePiece s.hash s.p1Turn s.board pp.step nb newStep newTurn
    let hist := if (s.board.takeMove sq d).2 then [] else pp.hist
    (s.movePiece sq d).board = nb ∧ (s.movePiece sq d).p1Turn = newTurn ∧
    (s.movePiece sq d).hash = nh ∧
    ∃ pp', (s.movePiece sq d).phase = .play pp' ∧ pp'.step = newStep ∧
      (last = true → pp' = PlayPhase.initial nh (nh :: hist)) := by
  unfold GameState.movePiece
  rw [hp]
  by_cases hl : 3 ≤ pp.prev.length
  · simp [hl, PlayPhase.initial, PlayPhase.step]
  · simp [hl, PlayPhase.step]

/-- a step that does not end the turn keeps `initHash`; the history is kept, or cleared by a capture -/
theorem movePiece_play_mid (s : GameState) (pp : PlayPhase) (hp : s.phase = .play pp) (sq : Nat)
    (d : Dir) (hmid : pp.step < 3) :
    ∃ pp', (s.movePiece sq d).phase = .play pp' ∧ pp'.initHash = pp.initHash ∧
      pp'.hist = (if (s.board.takeMove sq d).2 then [] else pp.hist) ∧
      pp'.prev = pp.prev ++ [s.board] := by
  unfold GameState.movePiece
  rw [hp]
  have hl : ¬ 3 ≤ pp.prev.length := by unfold PlayPhase.step at hmid; omega
  simp [hl, PlayPhase.step]

theorem HashOk_movePiece (s : GameState) (h : HashOk s) (sq : Nat) (d : Dir) :
    HashOk (s.movePiece sq d) := by
  cases hp : s.phase with
  | place =>
    have : s.movePiece sq d = s := by unfold GameState.movePiece; rw [hp]
    rw [this]; exact h
  | play pp =>
    obtain ⟨hb, ht, hh, pp', hph, hstep, _⟩ := movePiece_play s pp hp sq d
    rw [HashOk_play _ pp' hph, hh, hb, ht, hstep, (HashOk_play s pp hp).mp h]
    exact zMovePiece_scratch _ _ _ _ _ _

/-- the fields of the state after `pass` in the play phase -/
theorem pass_play (s : GameState) (pp : PlayPhase) (hp : s.phase = .play pp) :
    let h := zPass s.hash pp.step
    let hist := if pp.trapped then [] else pp.hist
    (s.pass).board = s.board ∧ (s.pass).p1Turn = (!s.p1Turn) ∧ (s.pass).hash = h ∧
    (s.pass).phase = .play (PlayPhase.initial h (h :: hist)) := by
  unfold GameState.pass
  rw [hp]
  simp

theorem HashOk_pass (s : GameState) (h : HashOk s) : HashOk s.pass := by
  cases hp : s.phase with
  | place =>
    have : s.pass = s := by unfold GameState.pass; rw [hp]
    rw [this]; exact h
  | play pp =>
    obtain ⟨hb, ht, hh, hph⟩ := pass_play s pp hp
    rw [HashOk_play _ _ hph, hh, hb, ht, (HashOk_play s pp hp).mp h]
    exact zPass_scratch _ _ _

/-- `move_piece` and `pass` keep a play-phase state in the play phase -/
theorem isPlay_movePiece (s : GameState) (h : s.isPlay = true) (sq : Nat) (d : Dir) :
    (s.movePiece sq d).isPlay = true := by
  cases hp : s.phase with
  | place => simp [GameState.isPlay, GameState.playPhase?, hp] at h
  | play pp =>
    obtain ⟨_, _, _, pp', hph, _⟩ := movePiece_play s pp hp sq d
    simp [GameState.isPlay, GameState.playPhase?, hph]

theorem isPlay_pass (s : GameState) (h : s.isPlay = true) : s.pass.isPlay = true := by
  cases hp : s.phase with
  | place => simp [GameState.isPlay, GameState.playPhase?, hp] at h
  | play pp =>
    obtain ⟨_, _, _, hph⟩ := pass_play s pp hp
    simp [GameState.isPlay, GameState.playPhase?, hph]

/-- the state `from_str` produces -/
theorem parseState_ok (t : List Char) (s : GameState) (h : parseState t = .ok s) :
    s.hash = zFromPieceBoard s.board s.p1Turn 0 ∧
      s.phase = .play (PlayPhase.initial s.hash [s.hash]) := by
  unfold parseState at h
  simp only at h
  split at h
  · cases h
  · split at h
    · cases h
    · injection h with h
      subst h
      exact ⟨rfl, rfl⟩

/-- an action of the play phase -/
def Action.isPlace : Action → Bool
  | .place _ => true
  | _ => false

theorem HashOk_takeAction (s : GameState) (h : HashOk s) (hp : s.isPlay = true) (a : Action)
    (ha : a.isPlace = false) : HashOk (s.takeAction a) ∧ (s.takeAction a).isPlay = true := by
  cases a with
  | place p => cases ha
  | pass => exact ⟨HashOk_pass s h, isPlay_pass s hp⟩
  | move sq d => exact ⟨HashOk_movePiece s h sq d, isPlay_movePiece s hp sq d⟩

theorem HashOk_run (s : GameState) (h : HashOk s) (hp : s.isPlay = true) (as : List Action)
    (has : ∀ a ∈ as, a.isPlace = false) :
    HashOk (as.foldl GameState.takeAction s) ∧ (as.foldl GameState.takeAction s).isPlay = true := by
  induction as generalizing s with
  | nil => exact ⟨h, hp⟩
  | cons a as ih =>
    obtain ⟨h', hp'⟩ := HashOk_takeAction s h hp a (has a (by simp))
    exact ih _ h' hp' (fun b hb => has b (by simp [hb]))

theorem isPlay_iff (s : GameState) : s.isPlay = true ↔ ∃ pp, s.phase = .play pp := by
  cases hp : s.phase <;> simp [GameState.isPlay, GameState.playPhase?, hp]

end Arimaa
