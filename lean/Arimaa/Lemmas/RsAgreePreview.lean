import Arimaa.Lemmas.RsAgreeBoard

/-!
Agreement of the regenerated model with the hand model: `trapped_animal_for_action`.
-/
namespace Arimaa.RsAgree
open Arimaa Arimaa.Gen Arimaa.Gen.RsBase Arimaa.Rt

theorem trapped_animal_for_action_eq (s : GameState) (a : Action) :
    GameState_trapped_animal_for_action s a =
      Res.guard (s.trappedAnimalForActionPanics a) (s.trappedAnimalForAction a) := by
  unfold GameState_trapped_animal_for_action GameState.trappedAnimalForActionPanics
    GameState.trappedAnimalForAction
  cases a with
  | pass => rfl
  | place p => rfl
  | move sq d =>
    simp only [game_state_piece_board, board_move_piece, trapped_piece_bits, piece_type_at_square, asBitBoard_eq,
      bits_for_piece, Res.bind_guard, unwrap_eq _ pieceTypeAtBitDefault]
    cases h0 : (s.board.movePiecePanics sq)
    · simp only [Bool.false_eq_true, if_false, Bool.false_or]
      rcases Bool.eq_false_or_eq_true ((s.board.movePiece sq d).trappedPieceBits != 0) with h1 | h1
      · simp only [h1, cond_true, Bool.true_and, if_true]
        rcases Bool.eq_false_or_eq_true
          ((s.board.movePiece sq d).pieceTypeAtSquarePanics (sqOfBit (s.board.movePiece sq d).trappedPieceBits))
          with h2 | h2
        · simp [h2, Res.guard, Res.bind]
        · cases h3 : (s.board.movePiece sq d).pieceTypeAtSquare (sqOfBit (s.board.movePiece sq d).trappedPieceBits)
            with
          | none => simp [h2, h3, Res.guard, Res.bind]
          | some p =>
            rcases Bool.eq_false_or_eq_true (sqBitPanics (sqOfBit (s.board.movePiece sq d).trappedPieceBits))
              with h4 | h4 <;> simp [h2, h3, h4, Res.guard, Res.bind]
      · have h1' : (s.board.movePiece sq d).trappedPieceBits = 0#64 := by simpa using h1
        simp [h1', Res.guard]
    · rfl

end Arimaa.RsAgree
