import Arimaa.Lemmas.GenAgree

/-! Agreement of the hand-written model with the regenerated translation of engine.rs: empty neighbours, shifting one piece, ownership of a piece, backward rabbit steps. -/
namespace Arimaa
open Gen GameState

set_option linter.unusedSimpArgs false

theorem agree_can_move_in_direction (d : Dir) (b : Board) :
    Gen.Fn.can_move_in_direction d b = canMoveInDirection d b := by
  first
    | rfl
    | (simp only [Gen.Fn.can_move_in_direction, canMoveInDirection] <;> first | rfl | ac_rfl)
    | bitwise_agree

theorem agree_shift_piece_in_direction (x src : BB) (d : Dir) :
    Gen.Fn.shift_piece_in_direction x src d = shiftPieceInDirection x src d := by
  first
    | rfl
    | (simp only [Gen.Fn.shift_piece_in_direction, shiftPieceInDirection] <;> first | rfl | ac_rfl)
    | bitwise_agree

theorem agree_is_their_piece (s : GameState) (bit : BB) (b : Board) :
    Gen.Fn.is_their_piece s.p1Turn bit b = s.isTheirPiece bit b := by
  first
    | rfl
    | (simp only [Gen.Fn.is_their_piece, isTheirPiece] <;> first | rfl | ac_rfl)
    | bitwise_agree

theorem agree_invalid_rabbit_moves (s : GameState) (d : Dir) (b : Board) :
    Gen.Fn.invalid_rabbit_moves s.p1Turn d b = s.invalidRabbitMoves d b := by
  unfold Gen.Fn.invalid_rabbit_moves invalidRabbitMoves backwardDirP1 backwardDirP2
  cases s.p1Turn <;> cases d <;> first | rfl | ac_rfl

end Arimaa
