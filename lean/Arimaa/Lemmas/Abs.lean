import Arimaa.Lemmas.Bits
import Arimaa.Spec.Rules

/-!
Abstraction from the eight bitboards to the square-indexed board of the specification, the
well-formedness invariant, and pointwise characterisations of the model's bitboard functions
(`influencedSquares`, `supportedPieces`, `threatenedPieces`, `currPlayerNonFrozenPieces`, …).
-/
namespace Arimaa
open Gen Spec

def toSpec : Piece → Spec.Piece
  | .rabbit => .rabbit | .cat => .cat | .dog => .dog | .horse => .horse | .camel => .camel
  | .elephant => .elephant

def dirSpec : Dir → Spec.Dir
  | .up => .n | .right => .e | .down => .s | .left => .w

/-- the piece type on square `i`, read from the six type boards -/
def typeAt (b : Board) (i : Nat) : Option Piece :=
  if bit b.elephants i then some .elephant
  else if bit b.camels i then some .camel
  else if bit b.horses i then some .horse
  else if bit b.dogs i then some .dog
  else if bit b.cats i then some .cat
  else if bit b.rabbits i then some .rabbit
  else none

/-- the abstraction map `abs : Impl.Board → Spec.Board` -/
def absBoard (b : Board) : Spec.Board := fun i =>
  match typeAt b i with
  | some p => some ⟨bit b.p1 i, toSpec p⟩
  | none => none

/-- strength of the piece on `j` read from the type boards (0 for a rabbit or an empty square) -/
def str (b : Board) (j : Nat) : Nat :=
  if bit b.elephants j then 5 else if bit b.camels j then 4 else if bit b.horses j then 3
  else if bit b.dogs j then 2 else if bit b.cats j then 1 else 0

/-- one type per square, `all` is the union of the types, `p1 ⊆ all` -/
structure WF (b : Board) : Prop where
  excl : ∀ i, i < 64 →
    (bit b.elephants i).toNat + (bit b.camels i).toNat + (bit b.horses i).toNat +
      (bit b.dogs i).toNat + (bit b.cats i).toNat + (bit b.rabbits i).toNat ≤ 1
  all_eq : ∀ i, i < 64 → bit b.all i =
    (bit b.elephants i || bit b.camels i || bit b.horses i || bit b.dogs i || bit b.cats i ||
      bit b.rabbits i)
  p1_sub : ∀ i, i < 64 → bit b.p1 i = true → bit b.all i = true

theorem toSpec_strength_lt (a b : Piece) :
    Piece.lt a b = decide ((toSpec a).strength < (toSpec b).strength) := by
  cases a <;> cases b <;> rfl

theorem toSpec_injective (a b : Piece) (h : toSpec a = toSpec b) : a = b := by
  cases a <;> cases b <;> simp_all [toSpec]

/-! ### "some neighbour satisfies f" -/

theorem nbAny_congr (f g : Nat → Bool) (i : Nat) (h : ∀ j, f j = g j) : nbAny f i = nbAny g i := by
  have : f = g := funext h
  rw [this]

theorem nbAny_or (f g : Nat → Bool) (i : Nat) :
    nbAny (fun j => f j || g j) i = (nbAny f i || nbAny g i) := by
  simp only [nbAny]
  generalize decide (i + 8 < 64) = a1; generalize decide (i % 8 ≠ 0) = a2
  generalize decide (8 ≤ i) = a3; generalize decide (i % 8 ≠ 7) = a4
  generalize f (i+8) = f1; generalize f (i-1) = f2; generalize f (i-8) = f3; generalize f (i+1) = f4
  generalize g (i+8) = g1; generalize g (i-1) = g2; generalize g (i-8) = g3; generalize g (i+1) = g4
  revert a1 a2 a3 a4 f1 f2 f3 f4 g1 g2 g3 g4
  decide

theorem nbAny_false (i : Nat) : nbAny (fun _ => false) i = false := by simp [nbAny]

/-- `nbAny` through the specification's `nbr` -/
theorem nbAny_iff (f : Nat → Bool) (i : Nat) :
    nbAny f i = true ↔ ∃ d j, nbr i d = some j ∧ f j = true := by
  simp only [nbAny, Bool.or_eq_true, Bool.and_eq_true, decide_eq_true_eq]
  constructor
  · rintro (((⟨h, hf⟩ | ⟨h, hf⟩) | ⟨h, hf⟩) | ⟨h, hf⟩)
    · exact ⟨.s, i + 8, by simp [nbr, h], hf⟩
    · exact ⟨.w, i - 1, by simp [nbr, h], hf⟩
    · exact ⟨.n, i - 8, by simp [nbr, h], hf⟩
    · exact ⟨.e, i + 1, by simp [nbr, h], hf⟩
  · rintro ⟨d, j, hn, hf⟩
    cases d <;> simp only [nbr] at hn <;> split at hn <;> simp at hn <;> subst hn
    · exact Or.inl (Or.inr ⟨by assumption, hf⟩)
    · exact Or.inr ⟨by assumption, hf⟩
    · exact Or.inl (Or.inl (Or.inl ⟨by assumption, hf⟩))
    · exact Or.inl (Or.inl (Or.inr ⟨by assumption, hf⟩))

theorem influenced_bit (x : BB) (i : Nat) (h : i < 64) :
    bit (influencedSquares x) i = nbAny (bit x) i := by
  unfold influencedSquares nbAny
  simp only [bit_or, up_bit x i h, down_bit x i h, left_shift_bit x i h, right_shift_bit x i h]

theorem supported_bit (x : BB) (i : Nat) (h : i < 64) :
    bit (supportedPieces x) i = (bit x i && nbAny (bit x) i) := by
  unfold supportedPieces nbAny
  simp only [bit_or, bit_and, up_bit x i h, down_bit x i h, left_shift_bit x i h, right_shift_bit x i h]
  generalize decide (i + 8 < 64) = a1; generalize decide (i % 8 ≠ 0) = a2
  generalize decide (8 ≤ i) = a3; generalize decide (i % 8 ≠ 7) = a4
  generalize bit x (i+8) = f1; generalize bit x (i-1) = f2; generalize bit x (i-8) = f3
  generalize bit x (i+1) = f4; generalize bit x i = x0
  revert a1 a2 a3 a4 f1 f2 f3 f4 x0
  decide

/-! ### strength tests read off the type boards -/

theorem str_gt4 (b : Board) (j : Nat) : decide (4 < str b j) = bit b.elephants j := by
  unfold str; cases bit b.elephants j <;> cases bit b.camels j <;> cases bit b.horses j <;>
    cases bit b.dogs j <;> cases bit b.cats j <;> rfl
theorem str_gt3 (b : Board) (j : Nat) : decide (3 < str b j) = (bit b.elephants j || bit b.camels j) := by
  unfold str; cases bit b.elephants j <;> cases bit b.camels j <;> cases bit b.horses j <;>
    cases bit b.dogs j <;> cases bit b.cats j <;> rfl
theorem str_gt2 (b : Board) (j : Nat) :
    decide (2 < str b j) = (bit b.elephants j || bit b.camels j || bit b.horses j) := by
  unfold str; cases bit b.elephants j <;> cases bit b.camels j <;> cases bit b.horses j <;>
    cases bit b.dogs j <;> cases bit b.cats j <;> rfl
theorem str_gt1 (b : Board) (j : Nat) :
    decide (1 < str b j) = (bit b.elephants j || bit b.camels j || bit b.horses j || bit b.dogs j) := by
  unfold str; cases bit b.elephants j <;> cases bit b.camels j <;> cases bit b.horses j <;>
    cases bit b.dogs j <;> cases bit b.cats j <;> rfl
theorem str_gt0 (b : Board) (j : Nat) :
    decide (0 < str b j) =
      (bit b.elephants j || bit b.camels j || bit b.horses j || bit b.dogs j || bit b.cats j) := by
  unfold str; cases bit b.elephants j <;> cases bit b.camels j <;> cases bit b.horses j <;>
    cases bit b.dogs j <;> cases bit b.cats j <;> rfl

/-- the neighbour test "a predator stronger than strength k" in terms of the five influence boards -/
theorem nb_stronger (pred : BB) (b : Board) (i k : Nat) (hk : k ≤ 4) :
    nbAny (fun j => bit pred j && decide (k < str b j)) i =
      (nbAny (bit (b.elephants &&& pred)) i ||
       (decide (k < 4) && nbAny (bit (b.camels &&& pred)) i) ||
       (decide (k < 3) && nbAny (bit (b.horses &&& pred)) i) ||
       (decide (k < 2) && nbAny (bit (b.dogs &&& pred)) i) ||
       (decide (k < 1) && nbAny (bit (b.cats &&& pred)) i)) := by
  have h5 : k = 0 ∨ k = 1 ∨ k = 2 ∨ k = 3 ∨ k = 4 := by omega
  rcases h5 with rfl | rfl | rfl | rfl | rfl
  · rw [nbAny_congr _ (fun j => bit (b.elephants &&& pred) j || bit (b.camels &&& pred) j ||
        bit (b.horses &&& pred) j || bit (b.dogs &&& pred) j || bit (b.cats &&& pred) j) i
      (by intro j; simp only [str_gt0, bit_and]; cases bit pred j <;> simp)]
    simp [nbAny_or]
  · rw [nbAny_congr _ (fun j => bit (b.elephants &&& pred) j || bit (b.camels &&& pred) j ||
        bit (b.horses &&& pred) j || bit (b.dogs &&& pred) j) i
      (by intro j; simp only [str_gt1, bit_and]; cases bit pred j <;> simp)]
    simp [nbAny_or]
  · rw [nbAny_congr _ (fun j => bit (b.elephants &&& pred) j || bit (b.camels &&& pred) j ||
        bit (b.horses &&& pred) j) i
      (by intro j; simp only [str_gt2, bit_and]; cases bit pred j <;> simp)]
    simp [nbAny_or]
  · rw [nbAny_congr _ (fun j => bit (b.elephants &&& pred) j || bit (b.camels &&& pred) j) i
      (by intro j; simp only [str_gt3, bit_and]; cases bit pred j <;> simp)]
    simp [nbAny_or]
  · rw [nbAny_congr _ (fun j => bit (b.elephants &&& pred) j) i
      (by intro j; simp only [str_gt4, bit_and]; cases bit pred j <;> simp)]
    simp

/-- `threatened_pieces`, pointwise: a prey piece that is not an elephant with a strictly stronger
predator on a neighbouring square -/
theorem threatened_bit (pred prey : BB) (b : Board) (hx : WF b) (i : Nat) (h : i < 64) :
    bit (GameState.threatenedPieces pred prey b) i =
      (bit prey i && (bit b.camels i || bit b.horses i || bit b.dogs i || bit b.cats i || bit b.rabbits i) &&
        nbAny (fun j => bit pred j && decide (str b i < str b j)) i) := by
  have hx' := hx.excl i h
  have hs : str b i ≤ 4 ∨ bit b.elephants i = true := by
    unfold str; cases bit b.elephants i <;> cases bit b.camels i <;> cases bit b.horses i <;>
      cases bit b.dogs i <;> cases bit b.cats i <;> simp
  unfold GameState.threatenedPieces
  simp only [bit_and, bit_or, influenced_bit _ i h]
  rcases hs with hs | he
  · rw [nb_stronger pred b i (str b i) hs]
    generalize nbAny (bit (b.elephants &&& pred)) i = Ae
    generalize nbAny (bit (b.camels &&& pred)) i = Am
    generalize nbAny (bit (b.horses &&& pred)) i = Ah
    generalize nbAny (bit (b.dogs &&& pred)) i = Ad
    generalize nbAny (bit (b.cats &&& pred)) i = Ac
    unfold str
    revert hx'
    generalize bit b.elephants i = e; generalize bit b.camels i = m; generalize bit b.horses i = hh
    generalize bit b.dogs i = d; generalize bit b.cats i = c; generalize bit b.rabbits i = r
    generalize bit prey i = p
    revert e m hh d c r p Ae Am Ah Ad Ac
    decide
  · have hm : bit b.camels i = false := by
      revert hx'; rw [he]; cases bit b.camels i <;> cases bit b.horses i <;> cases bit b.dogs i <;>
        cases bit b.cats i <;> cases bit b.rabbits i <;> simp
    have hh : bit b.horses i = false := by
      revert hx'; rw [he]; cases bit b.camels i <;> cases bit b.horses i <;> cases bit b.dogs i <;>
        cases bit b.cats i <;> cases bit b.rabbits i <;> simp
    have hd : bit b.dogs i = false := by
      revert hx'; rw [he]; cases bit b.camels i <;> cases bit b.horses i <;> cases bit b.dogs i <;>
        cases bit b.cats i <;> cases bit b.rabbits i <;> simp
    have hc : bit b.cats i = false := by
      revert hx'; rw [he]; cases bit b.camels i <;> cases bit b.horses i <;> cases bit b.dogs i <;>
        cases bit b.cats i <;> cases bit b.rabbits i <;> simp
    have hr : bit b.rabbits i = false := by
      revert hx'; rw [he]; cases bit b.camels i <;> cases bit b.horses i <;> cases bit b.dogs i <;>
        cases bit b.cats i <;> cases bit b.rabbits i <;> simp
    simp [hm, hh, hd, hc, hr]

end Arimaa
