import Arimaa.Lemmas.Offered
import Arimaa.Lemmas.Turn

/-!
`valid_actions_no_rep` against the specification (`enabled_iff`), the play-phase invariant
`PlayInv` (well-formed board + the status names an empty square + step range) and its preservation
by every offered action.
-/
namespace Arimaa
open Gen Spec GameState

theorem absPend_isPush (p : PPS) : (absPend p).isPush = p.isMustCompletePush := by
  cases p <;> rfl

/-- **the rule-only list contains exactly the enabled steps** -/
theorem enabled_iff (s : GameState) (pp : PlayPhase) (hph : s.phase = .play pp) (hw : WF s.board)
    (hp : PendOk s.board pp.pps) (i : Nat) (d : Dir) :
    Action.move i d ∈ s.validActionsNoRep ↔
      i < 64 ∧ enabledMove (absBoard s.board) s.p1Turn pp.step (absPend pp.pps) i (dirSpec d) = true := by
  unfold validActionsNoRep enabledMove
  rw [absPend_isPush]
  cases hm : pp.pps.isMustCompletePush
  · rw [validActions__free s pp hph hm false]
    simp only [Bool.false_eq_true, if_false]
    have hnp : Action.move i d ∉ (if s.canPass false then [Action.pass] else []) := by
      cases s.canPass false <;> simp
    rw [List.mem_append]
    simp only [hnp, or_false]
    unfold stepList
    rw [List.mem_append, mem_pullExtend, pushActions_iff s pp s.board hw, pullExtend_iff s pp s.board hw hp,
      ownMoves_iff s s.board hw]
    simp only [hm, true_and, Bool.or_eq_true]
    constructor
    · rintro ((⟨hi, h⟩ | ⟨hi, h⟩) | ⟨hi, h⟩)
      · exact ⟨hi, Or.inl (Or.inr h)⟩
      · exact ⟨hi, Or.inr h⟩
      · exact ⟨hi, Or.inl (Or.inl h)⟩
    · rintro ⟨hi, (h | h) | h⟩
      · exact Or.inr ⟨hi, h⟩
      · exact Or.inl (Or.inl ⟨hi, h⟩)
      · exact Or.inl (Or.inr ⟨hi, h⟩)
  · rw [validActions__mcp s pp hph hm false]
    simp only [Bool.false_eq_true, if_false, if_true]
    exact mcp_iff s pp s.board hw hp i d

/-- what every enabled step has in common: source occupied, destination on the board and empty -/
theorem enabled_shape (b : Spec.Board) (gold : Bool) (step : Nat) (pend : Pending) (i : Nat) (d : Spec.Dir)
    (h : enabledMove b gold step pend i d = true) :
    ∃ c j, b i = some c ∧ nbr i d = some j ∧ b j = none := by
  cases hc : b i with
  | none =>
    exfalso
    cases pend <;>
      simp [enabledMove, Pending.isPush, pushEnd, ownStep, pushStart, pullEnd, hc] at h
  | some c =>
    cases hn : nbr i d with
    | none =>
      exfalso
      cases pend <;>
        simp [enabledMove, Pending.isPush, pushEnd, ownStep, pushStart, pullEnd, hc, hn] at h
    | some j =>
      refine ⟨c, j, rfl, rfl, ?_⟩
      cases hb : b j with
      | none => rfl
      | some c' =>
        exfalso
        cases pend <;>
          simp [enabledMove, Pending.isPush, pushEnd, ownStep, pushStart, pullEnd, hc, hn, hb] at h

/-- the play-phase invariant carried by every reachable state -/
structure PlayInv (s : GameState) (pp : PlayPhase) : Prop where
  phase : s.phase = .play pp
  wf : WF s.board
  pend : PendOk s.board pp.pps
  step_le : pp.step ≤ 3

/-- facts about an offered step -/
theorem offered_step_facts (s : GameState) (pp : PlayPhase) (h : PlayInv s pp) (i : Nat) (d : Dir)
    (ha : Action.move i d ∈ s.validActionsNoRep) :
    i < 64 ∧ ∃ j, nbr i (dirSpec d) = some j ∧ j < 64 ∧ bit s.board.all j = false ∧
      bit s.board.all i = true := by
  obtain ⟨hi, he⟩ := (enabled_iff s pp h.phase h.wf h.pend i d).mp ha
  obtain ⟨c, j, hc, hn, hj⟩ := enabled_shape _ _ _ _ _ _ he
  have hjl := nbr_lt i _ j hi hn
  refine ⟨hi, j, hn, hjl, (abs_none_iff s.board h.wf j hjl).mp hj, ?_⟩
  have := abs_isSome s.board h.wf i hi
  rw [hc] at this
  simpa using this.symm

/-- after a step the source square is empty -/
theorem takeMove_src_empty (b : Board) (sq : Nat) (d : Dir) (j : Nat) (hsq : sq < 64)
    (hn : nbr sq (dirSpec d) = some j) : bit (b.takeMove sq d).1.all sq = false := by
  unfold Board.takeMove
  obtain ⟨_, ha, _⟩ := removeTrapped_bits (b.movePiece sq d) sq hsq
  rw [ha]
  obtain ⟨_, hm, _⟩ := movePiece_bits b sq d j hsq hn sq hsq
  rw [hm, movedBit_src sq j _ (nbr_ne sq _ j hn)]
  rfl

theorem pendOk_next (s : GameState) (pp : PlayPhase) (b' : Board) (i : Nat) (d : Dir) (hi : i < 64)
    (he : bit b'.all i = false) : PendOk b' (s.nextPushPullState pp i d) := by
  simp only [nextPushPullState]
  split
  · exact ⟨hi, he⟩
  · split
    · exact ⟨hi, he⟩
    · trivial

/-- **the invariant is preserved by every offered action** -/
theorem playInv_step (s : GameState) (pp : PlayPhase) (h : PlayInv s pp) (a : Action)
    (ha : a ∈ s.validActionsNoRep) : ∃ pp', PlayInv (s.takeAction a) pp' := by
  cases a with
  | place p =>
    exfalso
    unfold validActionsNoRep at ha
    cases hm : pp.pps.isMustCompletePush
    · rw [validActions__free s pp h.phase hm false] at ha
      simp only [Bool.false_eq_true, if_false, List.mem_append] at ha
      rcases ha with ha | ha
      · have := isMove_of_mem_stepList s pp _ ha
        simp [Action.isMove] at this
      · cases s.canPass false <;> simp at ha
    · rw [validActions__mcp s pp h.phase hm false] at ha
      simp only [Bool.false_eq_true, if_false] at ha
      have := isMove_of_mem_mustCompletePushActions s pp s.board _ ha
      simp [Action.isMove] at this
  | pass =>
    simp only [takeAction]
    rw [pass_play s pp h.phase]
    exact ⟨_, ⟨rfl, h.wf, trivial, by simp [PlayPhase.initial, PlayPhase.step]⟩⟩
  | move i d =>
    obtain ⟨hi, j, hn, hj, hej, _⟩ := offered_step_facts s pp h i d ha
    obtain ⟨_, hw'⟩ := abs_takeMove s.board h.wf i d j hi hn hej
    simp only [takeAction]
    by_cases hlt : pp.step < 3
    · rw [movePiece_lt3 s pp i d h.phase hlt]
      refine ⟨_, ⟨rfl, hw', ?_, ?_⟩⟩
      · exact pendOk_next s pp _ i d hi (takeMove_src_empty s.board i d j hi hn)
      · simp only [PlayPhase.step, List.length_append, List.length_cons, List.length_nil]
        have := h.step_le; unfold PlayPhase.step at hlt; omega
    · rw [movePiece_ge3 s pp i d h.phase (by omega)]
      exact ⟨_, ⟨rfl, hw', trivial, by simp [PlayPhase.initial, PlayPhase.step]⟩⟩

end Arimaa
