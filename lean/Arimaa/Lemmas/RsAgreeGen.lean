import Arimaa.Lemmas.RsAgreePass

/-!
Agreement of the regenerated model with the hand model: the two generators with a panic site
(`extend_with_pull_piece_actions`, `must_complete_push_actions`) and the rule-only list `valid_actions_no_rep`.
-/
namespace Arimaa.RsAgree
open Arimaa Arimaa.Gen Arimaa.Gen.RsBase Arimaa.Rt

theorem foldl_cond_append {α β : Type} (l : List α) (c : α → Bool) (g : α → β) (init : List β) :
    l.foldl (fun acc d => bif c d then acc ++ [g d] else acc) init =
      init ++ l.flatMap (fun d => if c d then [g d] else []) := by
  induction l generalizing init with
  | nil => simp
  | cons a l ih =>
    simp only [List.foldl_cons, List.flatMap_cons, ih]
    cases c a <;> simp

theorem extend_with_pull_piece_actions_eq (s : GameState) (pp : PlayPhase) (hp : s.phase = .play pp)
    (acc : List Action) (b : Board) :
    GameState_extend_with_pull_piece_actions s acc b =
      Res.guard (GameState.pullExtendPanics pp) (s.pullExtend pp b acc) := by
  unfold GameState_extend_with_pull_piece_actions GameState.pullExtendPanics GameState.pullExtend
  simp only [as_play_phase, GameState.playPhase?, hp, as_possible_pull]
  cases pp.pps with
  | none => rfl
  | mustCompletePush sq p => rfl
  | possiblePull sq p =>
    simp only [asBitBoard_eq, bind_guard_ok, opponent_piece_mask, lesser_pieces, shift_pieces_in_direction_eq,
      shift_pieces_in_opp_direction_eq]
    apply guard_congr rfl
    intro _
    congr 1
    funext acc d
    simp [Bool.cond_eq_ite]

theorem extend_with_pull_piece_actions_place (s : GameState) (hp : s.phase = .place)
    (acc : List Action) (b : Board) : GameState_extend_with_pull_piece_actions s acc b = .ok acc := by
  simp only [GameState_extend_with_pull_piece_actions, as_play_phase, GameState.playPhase?, hp]

theorem must_complete_push_actions_eq (s : GameState) (pp : PlayPhase) (hp : s.phase = .play pp) (b : Board) :
    GameState_must_complete_push_actions s b =
      Res.guard (GameState.mustCompletePushActionsPanics pp) (s.mustCompletePushActions pp b) := by
  unfold GameState_must_complete_push_actions GameState.mustCompletePushActionsPanics
    GameState.mustCompletePushActions
  simp only [unwrap_play_phase s pp hp, Res.bind_ok]
  cases pp.pps with
  | none => rfl
  | possiblePull sq p => rfl
  | mustCompletePush sq p =>
    simp only [PushPullState_unwrap_must_complete_push, Res.bind_ok, asBitBoard_eq, bind_guard_ok,
      curr_player_non_frozen_pieces, shift_pieces_in_opp_direction_eq, piece_type_at_bit_eq]
    apply guard_congr rfl
    intro _
    refine (foldl_cond_append Dir_ALL
      (fun d => (shiftPiecesInOppDirection d (sqBit sq) &&& s.currPlayerNonFrozenPieces b != 0) &&
        Piece.lt p (pieceTypeAtBit (shiftPiecesInOppDirection d (sqBit sq) &&& s.currPlayerNonFrozenPieces b) b))
      (fun d => Action.move (sqOfBit (shiftPiecesInOppDirection d (sqBit sq) &&& s.currPlayerNonFrozenPieces b)) d)
      []).trans ?_
    simp only [List.nil_append]

/-- the rule-only list, proved WITHOUT the lemmas about the repetition filter: C01 / C12 do not rest on it -/
theorem valid_actions_no_rep_direct (s : GameState) :
    GameState_valid_actions_no_rep s = Res.guard s.validActionsNoRepPanics s.validActionsNoRep := by
  unfold GameState_valid_actions_no_rep GameState_valid_actions_ GameState.validActionsNoRepPanics
    GameState.validActions_Panics GameState.validActionsNoRep GameState.validActions_
  cases hp : s.phase with
  | place => simp [valid_placement, Res.guard]
  | play pp =>
    simp only [game_state_piece_board, is_must_complete_push, must_complete_push_actions_eq s pp hp,
      extend_with_push_piece_actions s pp _ _ hp, extend_with_pull_piece_actions_eq s pp hp,
      extend_with_valid_curr_player_piece_moves, can_pass_eq, List.nil_append, Res.bind_guard, cond_false]
    rcases Bool.eq_false_or_eq_true pp.pps.isMustCompletePush with h0 | h0
    · simp only [h0, cond_true, if_true]
      rcases Bool.eq_false_or_eq_true (GameState.mustCompletePushActionsPanics pp) with h1 | h1 <;>
        simp [h1, Res.guard, Res.bind]
    · simp only [h0, cond_false, Bool.false_eq_true, if_false]
      rcases Bool.eq_false_or_eq_true (GameState.pullExtendPanics pp) with h1 | h1
      · simp [h1, Res.guard, Res.bind]
      · rcases Bool.eq_false_or_eq_true (s.canPassPanics false) with h2 | h2
        · simp [h1, h2, Res.guard, Res.bind]
        · cases h3 : s.canPass false <;> simp [h1, h2, h3, Res.guard, Res.bind]

end Arimaa.RsAgree
