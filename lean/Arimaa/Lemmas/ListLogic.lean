import Arimaa.Impl.Engine

/-!
List-level facts about the action generator `validActions_`, the repetition filter
`removePassingLikeActions`, its mirror `hasNonPassingLikeAction`, and `hasMove`
(used by `Props/C06.lean` and `Props/C07.lean`).  No bit-level reasoning.
-/
namespace Arimaa

/-- the action is a step -/
def Action.isMove : Action → Bool
  | .move _ _ => true
  | _ => false

theorem Action.isMove_iff (a : Action) : a.isMove = true ↔ ∃ sq d, a = .move sq d := by
  cases a <;> simp [Action.isMove]

theorem Action.ne_pass_of_isMove {a : Action} (h : a.isMove = true) : a ≠ .pass := by
  rintro rfl; cases h

namespace GameState
open Gen

/-! ### the generators only produce steps -/

theorem isMove_of_mem_pushActions (s : GameState) (pp : PlayPhase) (b : Board) (a : Action)
    (h : a ∈ s.pushActions pp b) : a.isMove = true := by
  unfold pushActions at h
  split at h
  · simp only at h
    split at h
    · simp only [List.mem_flatMap, List.mem_map] at h
      obtain ⟨d, _, sq, _, rfl⟩ := h
      rfl
    · cases h
  · cases h

theorem isMove_of_mem_ownMoves (s : GameState) (b : Board) (a : Action)
    (h : a ∈ s.ownMoves b) : a.isMove = true := by
  unfold ownMoves at h
  simp only [List.mem_flatMap, List.mem_map] at h
  obtain ⟨d, _, sq, _, rfl⟩ := h
  rfl

theorem isMove_of_mem_mustCompletePushActions (s : GameState) (pp : PlayPhase) (b : Board)
    (a : Action) (h : a ∈ s.mustCompletePushActions pp b) : a.isMove = true := by
  unfold mustCompletePushActions at h
  split at h
  · simp only [List.mem_flatMap] at h
    obtain ⟨d, _, h⟩ := h
    split at h
    · simp only [List.mem_singleton] at h
      subst h; rfl
    · cases h
  · cases h

/-- membership in a "push back unless already contained" fold -/
theorem mem_foldl_addIfNew {α β : Type} [BEq α] [LawfulBEq α] (c : β → Bool) (g : β → α)
    (l : List β) (acc : List α) (a : α) :
    a ∈ l.foldl (fun acc d => if c d then (if acc.contains (g d) then acc else acc ++ [g d])
      else acc) acc ↔ a ∈ acc ∨ ∃ d ∈ l, c d = true ∧ a = g d := by
  induction l generalizing acc with
  | nil => simp
  | cons d l ih =>
    simp only [List.foldl_cons]
    rw [ih]
    cases hc : c d
    · simp [hc]
    · cases hm : acc.contains (g d)
      · simp only [Bool.false_eq_true, ↓reduceIte, List.mem_append,
          List.mem_cons, exists_eq_or_imp, hc, true_and, List.not_mem_nil, or_false]
        exact or_assoc
      · have hmem : g d ∈ acc := by simpa using hm
        simp only [↓reduceIte, List.mem_cons, exists_eq_or_imp, hc, true_and]
        constructor
        · rintro (h | h)
          · exact Or.inl h
          · exact Or.inr (Or.inr h)
        · rintro (h | h | h)
          · exact Or.inl h
          · exact Or.inl (by rw [h]; exact hmem)
          · exact Or.inr h

/-- (a) the elements of `pullExtend … acc` are those of `acc` and those of `pullExtend … []` -/
theorem mem_pullExtend (s : GameState) (pp : PlayPhase) (b : Board) (acc : List Action)
    (a : Action) :
    a ∈ s.pullExtend pp b acc ↔ a ∈ acc ∨ a ∈ s.pullExtend pp b [] := by
  unfold pullExtend
  split
  · rename_i sq p _
    have h1 := mem_foldl_addIfNew
      (fun d => (shiftPiecesInDirection d (lesserPieces p b &&& s.opponentPieceMask b) &&&
        sqBit sq) != 0)
      (fun d => Action.move (sqOfBit (shiftPiecesInOppDirection d (sqBit sq))) d) Dir_ALL acc a
    have h2 := mem_foldl_addIfNew
      (fun d => (shiftPiecesInDirection d (lesserPieces p b &&& s.opponentPieceMask b) &&&
        sqBit sq) != 0)
      (fun d => Action.move (sqOfBit (shiftPiecesInOppDirection d (sqBit sq))) d) Dir_ALL [] a
    simp only [List.not_mem_nil, false_or] at h2
    exact h1.trans (by rw [← h2])
  · simp

theorem isMove_of_mem_pullExtend_nil (s : GameState) (pp : PlayPhase) (b : Board) (a : Action)
    (h : a ∈ s.pullExtend pp b []) : a.isMove = true := by
  unfold pullExtend at h
  split at h
  · rename_i sq p _
    have h1 := (mem_foldl_addIfNew
      (fun d => (shiftPiecesInDirection d (lesserPieces p b &&& s.opponentPieceMask b) &&&
        sqBit sq) != 0)
      (fun d => Action.move (sqOfBit (shiftPiecesInOppDirection d (sqBit sq))) d) Dir_ALL [] a).1 h
    simp only [List.not_mem_nil, false_or] at h1
    obtain ⟨d, _, _, rfl⟩ := h1
    rfl
  · cases h

/-- the list built before the optional pass in the branch without a pending push -/
def stepList (s : GameState) (pp : PlayPhase) : List Action :=
  s.pullExtend pp s.board (s.pushActions pp s.board) ++ s.ownMoves s.board

theorem isMove_of_mem_stepList (s : GameState) (pp : PlayPhase) (a : Action)
    (h : a ∈ s.stepList pp) : a.isMove = true := by
  unfold stepList at h
  rw [List.mem_append, mem_pullExtend] at h
  rcases h with (h | h) | h
  · exact isMove_of_mem_pushActions _ _ _ _ h
  · exact isMove_of_mem_pullExtend_nil _ _ _ _ h
  · exact isMove_of_mem_ownMoves _ _ _ h

theorem isMove_of_mem_validPlacement_false (s : GameState) (a : Action)
    (h : a ∈ s.validPlacement) : ∃ p, a = .place p := by
  unfold validPlacement at h
  simp only [List.mem_filterMap] at h
  obtain ⟨⟨f, lim, p⟩, _, h⟩ := h
  simp only at h
  split at h
  · injection h with h; exact ⟨p, h.symm⟩
  · cases h

/-! ### `canPass` -/

theorem canPass_play (s : GameState) (pp : PlayPhase) (hph : s.phase = .play pp) (r : Bool) :
    s.canPass r = (decide (pp.step ≥ 1) && !pp.pps.isMustCompletePush &&
      (!r || ((pp.initHash != zExcludeStep s.hash pp.step) &&
        !histContainsTwice pp.hist (zPass s.hash pp.step)))) := by
  simp [canPass, hph]

theorem canPass_false_of_mcp (s : GameState) (pp : PlayPhase) (hph : s.phase = .play pp)
    (hm : pp.pps.isMustCompletePush = true) (r : Bool) : s.canPass r = false := by
  rw [canPass_play s pp hph, hm]; simp

theorem canPass_false_of_true (s : GameState) (h : s.canPass true = true) :
    s.canPass false = true := by
  unfold canPass at *
  split at h
  · simp only [Bool.and_eq_true] at h
    simp [h.1.1, h.1.2]
  · cases h

/-! ### the repetition filter as a `filter`, its mirror as an `any` -/

/-- the repetition filter is switched on: fourth step of a turn without a capture -/
def repFilterOn (pp : PlayPhase) : Bool := pp.step == 3 && !pp.trapped

/-- the action survives `removePassingLikeActions` -/
def kept (s : GameState) (pp : PlayPhase) (a : Action) : Bool :=
  !(repFilterOn pp && s.isPassingLikeAction pp a)

theorem removePassingLikeActions_eq_filter (s : GameState) (pp : PlayPhase) (l : List Action) :
    s.removePassingLikeActions pp l = l.filter (s.kept pp) := by
  unfold removePassingLikeActions kept repFilterOn
  cases h : (pp.step == 3 && !pp.trapped)
  · simp
    exact (List.filter_eq_self.2 (fun _ _ => rfl)).symm
  · simp

/-- needs `step ≤ 3`: for `step ≥ 4` the code's two conditions (`step == 3` in the filter,
`step < 3` in its mirror) are not complementary. -/
theorem hasNonPassingLikeAction_eq_any (s : GameState) (pp : PlayPhase) (l : List Action)
    (h3 : pp.step ≤ 3) :
    s.hasNonPassingLikeAction pp l = l.any (s.kept pp) := by
  unfold hasNonPassingLikeAction kept repFilterOn
  cases l with
  | nil => simp
  | cons a l =>
    simp only [List.isEmpty_cons, Bool.false_eq_true, if_false]
    by_cases hlt : pp.step < 3
    · have : (pp.step == 3) = false := by simp; omega
      simp [hlt, this]
    · have h3' : pp.step = 3 := by omega
      cases ht : pp.trapped
      · simp [h3']
      · simp [h3']

theorem kept_pass (s : GameState) (pp : PlayPhase) : s.kept pp .pass = true := by
  simp [kept, isPassingLikeAction]

theorem isMove_of_not_kept (s : GameState) (pp : PlayPhase) (a : Action)
    (h : s.kept pp a = false) : repFilterOn pp = true ∧ a.isMove = true := by
  cases a <;> simp_all [kept, isPassingLikeAction, Action.isMove]

/-- (b) the mirror says "true" exactly when the filter leaves something -/
theorem hasNonPassingLikeAction_iff (s : GameState) (pp : PlayPhase) (l : List Action)
    (h3 : pp.step ≤ 3) :
    s.hasNonPassingLikeAction pp l = true ↔ s.removePassingLikeActions pp l ≠ [] := by
  rw [hasNonPassingLikeAction_eq_any s pp l h3, removePassingLikeActions_eq_filter]
  rw [List.any_eq_true, Ne, List.filter_eq_nil_iff]
  constructor
  · rintro ⟨a, ha, hk⟩ h
    exact h a ha hk
  · intro h
    apply Classical.byContradiction
    intro hn
    apply h
    intro a ha hk
    exact hn ⟨a, ha, hk⟩

theorem any_pullExtend (s : GameState) (pp : PlayPhase) (b : Board) (acc : List Action)
    (p : Action → Bool) :
    (s.pullExtend pp b acc).any p = (acc.any p || (s.pullExtend pp b []).any p) := by
  rw [Bool.eq_iff_iff]
  simp only [List.any_eq_true, Bool.or_eq_true]
  constructor
  · rintro ⟨a, ha, hp⟩
    rcases (mem_pullExtend s pp b acc a).1 ha with h | h
    · exact Or.inl ⟨a, h, hp⟩
    · exact Or.inr ⟨a, h, hp⟩
  · rintro (⟨a, ha, hp⟩ | ⟨a, ha, hp⟩)
    · exact ⟨a, (mem_pullExtend s pp b acc a).2 (Or.inl ha), hp⟩
    · exact ⟨a, (mem_pullExtend s pp b acc a).2 (Or.inr ha), hp⟩

/-! ### shape of `validActions_` -/

theorem validActions__mcp (s : GameState) (pp : PlayPhase) (hph : s.phase = .play pp)
    (hm : pp.pps.isMustCompletePush = true) (r : Bool) :
    s.validActions_ r =
      if r then s.removePassingLikeActions pp (s.mustCompletePushActions pp s.board)
      else s.mustCompletePushActions pp s.board := by
  simp [validActions_, hph, hm]

theorem validActions__free (s : GameState) (pp : PlayPhase) (hph : s.phase = .play pp)
    (hm : pp.pps.isMustCompletePush = false) (r : Bool) :
    s.validActions_ r =
      if r then s.removePassingLikeActions pp
        (s.stepList pp ++ if s.canPass r then [Action.pass] else [])
      else s.stepList pp ++ if s.canPass r then [Action.pass] else [] := by
  simp only [validActions_, hph, hm, stepList]
  cases s.canPass r <;> simp

theorem validActions__place (s : GameState) (hph : s.phase = .place) (r : Bool) :
    s.validActions_ r = s.validPlacement := by
  simp [validActions_, hph]

/-! ### C06: what the repetition rules withhold -/

/-- `withheld s pp a`: the action is withheld by the repetition rules — it is the pass and passing
is allowed by the rules but not by the repetition check, or it is a step at `step = 3` of a turn
without capture whose result is "passing-like" (restores the turn-start position or makes a third
occurrence). -/
def withheld (s : GameState) (pp : PlayPhase) (a : Action) : Bool :=
  (a == .pass && s.canPass false && !s.canPass true) ||
    (pp.step == 3 && !pp.trapped && s.isPassingLikeAction pp a)

theorem withheld_of_isMove (s : GameState) (pp : PlayPhase) (a : Action) (h : a.isMove = true) :
    (!s.withheld pp a) = s.kept pp a := by
  cases a <;> simp_all [withheld, kept, repFilterOn, Action.isMove]

theorem withheld_pass (s : GameState) (pp : PlayPhase) :
    s.withheld pp .pass = (s.canPass false && !s.canPass true) := by
  simp [withheld, isPassingLikeAction]

theorem validActions_filter_shape (s : GameState) (pp : PlayPhase) (hph : s.phase = .play pp) :
    s.validActions = s.validActionsNoRep.filter (fun a => !s.withheld pp a) := by
  unfold validActions validActionsNoRep
  cases hm : pp.pps.isMustCompletePush
  · rw [validActions__free s pp hph hm, validActions__free s pp hph hm]
    simp only [if_true, Bool.false_eq_true, if_false]
    rw [removePassingLikeActions_eq_filter, List.filter_append, List.filter_append]
    congr 1
    · apply List.filter_congr
      intro a ha
      exact (withheld_of_isMove s pp a (isMove_of_mem_stepList s pp a ha)).symm
    · cases hT : s.canPass true
      · cases hF : s.canPass false
        · simp
        · simp [withheld_pass, hT, hF]
      · have hF := canPass_false_of_true s hT
        simp [withheld_pass, hT, hF, kept_pass]
  · rw [validActions__mcp s pp hph hm, validActions__mcp s pp hph hm]
    simp only [if_true, Bool.false_eq_true, if_false]
    rw [removePassingLikeActions_eq_filter]
    apply List.filter_congr
    intro a ha
    exact (withheld_of_isMove s pp a
      (isMove_of_mem_mustCompletePushActions s pp _ a ha)).symm

/-! ### C07: `canPass`, `hasMove` against the list -/

theorem mem_removePassingLikeActions_pass (s : GameState) (pp : PlayPhase) (l : List Action) :
    Action.pass ∈ s.removePassingLikeActions pp l ↔ Action.pass ∈ l := by
  rw [removePassingLikeActions_eq_filter, List.mem_filter, kept_pass]; simp

theorem pass_not_mem_stepList (s : GameState) (pp : PlayPhase) : Action.pass ∉ s.stepList pp :=
  fun h => by have := isMove_of_mem_stepList s pp _ h; cases this

theorem pass_not_mem_mcp (s : GameState) (pp : PlayPhase) (b : Board) :
    Action.pass ∉ s.mustCompletePushActions pp b :=
  fun h => by have := isMove_of_mem_mustCompletePushActions s pp b _ h; cases this

theorem pass_mem_validActions__iff (s : GameState) (r : Bool) :
    Action.pass ∈ s.validActions_ r ↔ s.canPass r = true := by
  cases hph : s.phase with
  | place =>
    rw [validActions__place s hph]
    have : s.canPass r = false := by simp [canPass, hph]
    rw [this]
    constructor
    · intro h
      obtain ⟨p, hp⟩ := isMove_of_mem_validPlacement_false s _ h
      cases hp
    · intro h; cases h
  | play pp =>
    cases hm : pp.pps.isMustCompletePush
    · rw [validActions__free s pp hph hm]
      have hn := pass_not_mem_stepList s pp
      cases r
      · cases hc : s.canPass false <;> simp [hn]
      · simp only [if_true]
        rw [mem_removePassingLikeActions_pass]
        cases hc : s.canPass true <;> simp [hn]
    · rw [validActions__mcp s pp hph hm, canPass_false_of_mcp s pp hph hm]
      have hn := pass_not_mem_mcp s pp s.board
      cases r
      · simp [hn]
      · simp only [if_true]
        rw [mem_removePassingLikeActions_pass]
        simp [hn]

/-- `hasMove` reports "no result" iff its short-circuit chain finds something -/
theorem hasMove_eq_none_iff (s : GameState) (pp : PlayPhase) (hph : s.phase = .play pp)
    (b : Board) :
    s.hasMove b = none ↔
      (if pp.pps.isMustCompletePush then
        s.hasNonPassingLikeAction pp (s.mustCompletePushActions pp b)
      else (s.canPass true || s.hasNonPassingLikeAction pp (s.ownMoves b) ||
        s.hasNonPassingLikeAction pp (s.pullExtend pp b []) ||
        s.hasNonPassingLikeAction pp (s.pushActions pp b))) = true := by
  unfold hasMove
  simp only [hph]
  cases pp.pps.isMustCompletePush <;> cases s.canPass true <;>
    cases s.hasNonPassingLikeAction pp (s.mustCompletePushActions pp b) <;>
    cases s.hasNonPassingLikeAction pp (s.ownMoves b) <;>
    cases s.hasNonPassingLikeAction pp (s.pullExtend pp b []) <;>
    cases s.hasNonPassingLikeAction pp (s.pushActions pp b) <;>
    cases s.p1Turn <;> simp

theorem ite_none_some_aux (c p : Bool) (A B : Terminal)
    (h : (if c then none else if p then some A else some B) ≠ none) :
    (if c then none else if p then some A else some B) = some (if p then A else B) := by
  cases c <;> cases p <;> simp at h ⊢

/-- the value of `hasMove` when it reports a result: a loss for the side on move -/
theorem hasMove_eq_some (s : GameState) (b : Board) (h : s.hasMove b ≠ none) :
    s.hasMove b = some (if s.p1Turn then .silverWin else .goldWin) := by
  unfold hasMove at *
  exact ite_none_some_aux _ _ _ _ h

theorem validActions_ne_nil_iff (s : GameState) (pp : PlayPhase) (hph : s.phase = .play pp)
    (h3 : pp.step ≤ 3) :
    s.validActions ≠ [] ↔ s.hasMove s.board = none := by
  rw [hasMove_eq_none_iff s pp hph]
  unfold validActions
  cases hm : pp.pps.isMustCompletePush
  · rw [validActions__free s pp hph hm]
    simp only [if_true, Bool.false_eq_true, if_false]
    rw [← hasNonPassingLikeAction_iff s pp _ h3]
    simp only [hasNonPassingLikeAction_eq_any s pp _ h3, stepList, List.any_append]
    rw [any_pullExtend]
    cases hT : s.canPass true <;>
      cases (s.ownMoves s.board).any (s.kept pp) <;>
      cases (s.pullExtend pp s.board []).any (s.kept pp) <;>
      cases (s.pushActions pp s.board).any (s.kept pp) <;> simp [kept_pass]
  · rw [validActions__mcp s pp hph hm]
    simp only [if_true]
    rw [← hasNonPassingLikeAction_iff s pp _ h3]

/-- at the start of a turn, `isTerminal = none` makes `hasMove = none` -/
theorem hasMove_none_of_isTerminal_none (s : GameState) (pp : PlayPhase)
    (hph : s.phase = .play pp) (h : s.isTerminal = none) : s.hasMove s.board = none := by
  unfold isTerminal at h
  simp only [hph] at h
  split at h
  · exact h
  · cases h1 : s.rabbitAtGoal s.board with
    | some t => simp [h1, Option.orElse] at h
    | none =>
      cases h2 : s.lostAllRabbits s.board with
      | some t => simp [h1, h2, Option.orElse] at h
      | none => simpa [h1, h2, Option.orElse] using h

theorem isTerminal_mid_turn (s : GameState) (pp : PlayPhase) (hph : s.phase = .play pp)
    (hpos : pp.step > 0) : s.isTerminal = s.hasMove s.board := by
  simp [isTerminal, hph, hpos]

end GameState
end Arimaa
